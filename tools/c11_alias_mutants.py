#!/usr/bin/env python3
"""Self-test of the C11 alias-discipline extractor (factgen/c11.go).

Applies small aliasing / in-place-mutation changes to a scratch copy of /repo's types and internal/mapset
packages and checks that the extracted facts (aliasFactsAll) differ from those of the unchanged tree in the
expected key.  Usage: tools/c11_alias_mutants.py   (exit 0 = every mutant changes its fact)."""
import json, os, shutil, subprocess, sys, tempfile

V = os.path.dirname(os.path.dirname(os.path.abspath(__file__)))
REPO = os.environ.get("VERIF_REPO", "/repo")
FACTGEN = os.path.join(V, "factgen", "bin", "factgen")

MUTANTS = [
    ("NewRecord clones only non-empty maps (seeded C11-m2/m5)", "types/record.go",
     "\tif m != nil {\n\t\tm = maps.Clone(m)\n\t}\n", "\tif len(m) > 0 {\n\t\tm = maps.Clone(m)\n\t}\n",
     "types.NewRecord.param.m", "cloned-if(len(m)>0)"),
    ("NewRecord keeps the caller's map", "types/record.go",
     "\tif m != nil {\n\t\tm = maps.Clone(m)\n\t}\n", "", "types.NewRecord.param.m", "aliased"),
    ("Record.Map returns the internal map", "types/record.go",
     "\treturn maps.Clone(r.m)\n}", "\treturn r.m\n}", "types.Record.Map.result", "field-alias|nil"),
    ("Record.All writes while iterating", "types/record.go",
     "\t\tfor k, v := range r.m {\n\t\t\tif !yield(k, v) {", "\t\tfor k, v := range r.m {\n\t\t\tr.m[k] = v\n\t\t\tif !yield(k, v) {",
     "types.Record.All.result", "iterator-writes"),
    ("Record.UnmarshalJSON decodes into the receiver's map", "types/record.go",
     "\t*r = NewRecord(m)\n\treturn nil", "\tclear(r.m)\n\tfor k, v := range m {\n\t\tr.m[k] = v\n\t}\n\treturn nil",
     "types.(*Record).UnmarshalJSON.recv", "replaced(struct{})|writes-field(m)"),
    ("ImmutableMapSet gains Add", "internal/mapset/immutable.go",
     "// Contains returns whether the item exists in the set\nfunc (h ImmutableMapSet[T]) Contains",
     "func (h ImmutableMapSet[T]) Add(item T) bool {\n\tm := MapSet[T](h)\n\treturn m.Add(item)\n}\n\n// Contains returns whether the item exists in the set\nfunc (h ImmutableMapSet[T]) Contains",
     "mapset.ImmutableMapSet.Add.recv", "calls-writer(Add)"),
    ("Set.Slice hands out a cached slice", "types/set.go",
     "\treturn slices.Collect(maps.Values(s.s))", "\treturn s.cache", "types.Set.Slice.result", None),
]


def facts(repo):
    out = tempfile.mkdtemp()
    subprocess.run([FACTGEN, "-repo", repo, "-out", os.path.join(out, "F.lean"), "-json", os.path.join(out, "f.json")],
                   stdout=subprocess.DEVNULL, stderr=subprocess.DEVNULL)
    f = json.load(open(os.path.join(out, "f.json")))
    shutil.rmtree(out)
    return {e["key"]: e["class"] for e in f["aliasFactsAll"]}


def main():
    base = facts(REPO)
    bad = 0
    for name, rel, old, new, key, want in MUTANTS:
        d = tempfile.mkdtemp()
        for sub in ("types", "internal"):
            shutil.copytree(os.path.join(REPO, sub), os.path.join(d, sub))
        p = os.path.join(d, rel)
        src = open(p).read()
        if old not in src:
            print("SKIP (pattern not found): " + name)
            shutil.rmtree(d)
            continue
        open(p, "w").write(src.replace(old, new, 1))
        got = facts(d)
        shutil.rmtree(d)
        ok = got.get(key) != base.get(key) and (want is None or got.get(key) == want)
        print("%s %-58s %s: %s -> %s" % ("ok  " if ok else "FAIL", name, key, base.get(key), got.get(key)))
        bad += 0 if ok else 1
    sys.exit(1 if bad else 0)


if __name__ == "__main__":
    main()
