#!/bin/bash
# tools/seedall_par.sh [streams] — run every seeded change in <streams> parallel streams (default 4); logs in /tmp/seedpar.<k>.log
N=${1:-4}
cd "${VERIF_SRC:-/verif}"
ls -d seeded/C*-m* | grep -v "C14-m6" > /tmp/seedpar.list
for k in $(seq 0 $((N-1))); do
  ( awk -v n=$N -v k=$k 'NR%n==k' /tmp/seedpar.list | while read d; do tools/seedall.sh "$(basename $d)"; done > /tmp/seedpar.$k.log 2>&1 ) &
done
wait
