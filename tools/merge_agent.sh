#!/bin/bash
# tools/merge_agent.sh <workdir>  — copy an agent's new/changed files (except evidence, manifests, known findings) into /verif
W=$1
cd "$W" || exit 1
git status --short | awk '{print $2}' | grep -v "^evidence/\|^\.facts\|^MANIFEST.json\|^known_findings.json\|^replays/" | while read f; do
  if [ -d "$f" ]; then mkdir -p "/verif/$f"; rsync -a "$f" "/verif/$f"; else mkdir -p "/verif/$(dirname $f)"; cp -a "$f" "/verif/$f"; fi
  echo "merged $f"
done
