#!/bin/bash
# tools/merge_copy.sh <name> — merge an agent's rsync copy /work/<name> (base commit in /work/<name>/.base_commit) into /verif by a 3-way patch
set -e
N=$1; BASE=$(cat /work/$N/.base_commit)
M=/work/merge-$N; rm -rf $M
git -C /verif worktree add -q --detach $M $BASE
rsync -a --exclude .git --exclude .base_commit --exclude 'lean/.lake' --exclude 'harness/bin' --exclude 'factgen/bin' --exclude bin --exclude replays --exclude evidence --exclude MANIFEST.json --exclude seeded --exclude fixes --exclude '.facts.json' --exclude 'lean/CedarGo/Generated/Facts.lean' --exclude '.result-*' --exclude 'lean/.audit-*' --exclude 'harness/.alt.go.*' --exclude '.lock-*' --exclude __pycache__ --exclude '*.tmp' /work/$N/ $M/
cd $M; git add -A -N .; git diff HEAD --stat | tail -40; git diff HEAD --binary > /tmp/merge-$N.patch
cd /verif; git apply --3way /tmp/merge-$N.patch 2>&1 | grep -v "^Applied patch\|cleanly" | tail -20 || true
git -C /verif worktree remove --force $M
git -C /verif status --short | grep -v "^A \|^M " | head -20
