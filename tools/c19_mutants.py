#!/usr/bin/env python3
"""Self-test of the C19 write-set extractor (factgen/c19.go): inject known kinds of shared-state writes
into a scratch copy of /repo's non-test Go files and check that each one shows up as a write site that
facts/writes.expected.json does NOT classify (= would break the C19 tie in ./check).  The unchanged
copy must produce no unclassified site.

  python3 tools/c19_mutants.py            exit 0 iff baseline quiet and every mutant flagged
"""
import json, os, shutil, subprocess, sys, tempfile

V = os.path.dirname(os.path.dirname(os.path.abspath(__file__)))
REPO = os.environ.get("VERIF_REPO", "/repo")
FACTGEN = os.path.join(V, "factgen", "bin", "factgen")

MUTANTS = [
    ("lazy cache field filled in Policy.MarshalCedar", "policy.go", [
        ("\teval eval.BoolEvaler // determines if a policy matches a request.\n",
         "\teval eval.BoolEvaler // determines if a policy matches a request.\n\tcedarCache []byte\n"),
        ("\tcedarPolicy := (*parser.Policy)(p.ast)\n\n\tvar buf bytes.Buffer\n\tcedarPolicy.MarshalCedar(&buf)\n\n\treturn buf.Bytes()",
         "\tif p.cedarCache != nil {\n\t\treturn p.cedarCache\n\t}\n\tcedarPolicy := (*parser.Policy)(p.ast)\n\n\tvar buf bytes.Buffer\n\tcedarPolicy.MarshalCedar(&buf)\n\tp.cedarCache = buf.Bytes()\n\treturn buf.Bytes()"),
    ]),
    ("fold rewrites ExtensionCall args in place (copy removed)", "internal/eval/fold.go", [
        ("\t\tnodes := make([]ast.IsNode, len(v.Args))\n\t\tcopy(nodes, v.Args)\n\t\treturn tryFold(nodes,", "\t\treturn tryFold(v.Args,"),
    ]),
    ("fold writes a folded child back into the shared AST", "internal/eval/fold.go", [
        ("\tcase ast.NodeTypeSet:\n\t\telements := make([]ast.IsNode, len(v.Elements))\n\t\tcopy(elements, v.Elements)\n",
         "\tcase ast.NodeTypeSet:\n\t\telements := make([]ast.IsNode, len(v.Elements))\n\t\tcopy(elements, v.Elements)\n\t\tfor i := range v.Elements {\n\t\t\tv.Elements[i] = fold(v.Elements[i])\n\t\t}\n"),
    ]),
    ("partial evaluation stores the residual body into the shared policy", "internal/eval/partial.go", [
        ("\tfor _, c := range p.Conditions {\n\t\tbody, err := partial(env, c.Body)\n",
         "\tfor i, c := range p.Conditions {\n\t\tbody, err := partial(env, c.Body)\n\t\tif err == nil {\n\t\t\tp.Conditions[i].Body = body\n\t\t}\n"),
    ]),
    ("partial: write through the struct COPY's still-shared slice", "internal/eval/partial.go", [
        ("\tp2.Annotations = slices.Clone(p.Annotations)\n\tp2.Conditions = nil\n",
         "\tp2.Annotations = slices.Clone(p.Annotations)\n\tif len(p2.Conditions) > 0 {\n\t\tp2.Conditions[0].Condition = !p2.Conditions[0].Condition\n\t}\n\tp2.Conditions = nil\n"),
    ]),
    ("package-level memo map in the evaluator", "internal/eval/compile.go", [
        ("type BoolEvaler struct {", "var evalMemo = map[*BoolEvaler]types.Boolean{}\n\ntype BoolEvaler struct {"),
        ("\tvb, err := ValueToBool(v)\n\tif err != nil {\n\t\treturn false, err\n\t}\n\treturn vb, nil",
         "\tvb, err := ValueToBool(v)\n\tif err != nil {\n\t\treturn false, err\n\t}\n\tevalMemo[e] = vb\n\treturn vb, nil"),
    ]),
    ("Record.Get fills a lookup cache in the record's own map", "types/record.go", [
        ("\tv, ok := r.m[s]\n\treturn v, ok\n", "\tv, ok := r.m[s]\n\tif !ok && r.m != nil {\n\t\tr.m[s] = nil\n\t\tdelete(r.m, s)\n\t}\n\treturn v, ok\n"),
    ]),
    ("Set.MarshalCedar sorts a shared slice kept in the set", "types/set.go", [
        ("type Set struct {\n\ts       map[uint64]Value\n", "type Set struct {\n\ts       map[uint64]Value\n\tkeys    []uint64\n"),
        ("\tsb.WriteRune('[')\n\torderedKeys := slices.Collect(maps.Keys(s.s))\n\tslices.Sort(orderedKeys)\n",
         "\tsb.WriteRune('[')\n\torderedKeys := s.keys\n\tslices.Sort(orderedKeys)\n"),
    ]),
    ("PolicySet.Get writes through a local alias of the policy map", "policy_set.go", [
        ("func (p *PolicySet) Get(policyID PolicyID) *Policy {\n\treturn p.policies[policyID]\n",
         "func (p *PolicySet) Get(policyID PolicyID) *Policy {\n\tm := p.policies\n\tif _, ok := m[policyID]; !ok {\n\t\tm[policyID] = nil\n\t}\n\treturn p.policies[policyID]\n"),
    ]),
    ("Authorize records the last decision in the policy (hit counter)", "authorize.go", [
        ("\t\tresult, err := po.eval.Eval(env)\n", "\t\tresult, err := po.eval.Eval(env)\n\t\tpo.ast.Position.Offset++\n"),
    ]),
    ("batch.Authorize sorts the caller's variable slices in place", "x/exp/batch/batch.go", [
        ("\tfor _, vs := range request.Variables {\n\t\tif len(vs) == 0 {\n\t\t\treturn nil\n\t\t}\n\t}\n",
         "\tfor _, vs := range request.Variables {\n\t\tif len(vs) == 0 {\n\t\t\treturn nil\n\t\t}\n\t\tslices.SortFunc(vs, func(a, b types.Value) int { return 0 })\n\t}\n"),
    ]),
    ("batch.Authorize normalises the request's variable map", "x/exp/batch/batch.go", [
        ("\tbe.callback = cb\n", "\tbe.callback = cb\n\tdelete(request.Variables, \"\")\n"),
    ]),
    ("evaluator stores into the shared entity map", "internal/eval/evalers.go", [
        ("\t\trec, ok := env.Entities.Get(vv)\n\t\tif !ok {\n\t\t\treturn zeroValue(), fmt.Errorf(\"entity `%v` %w\", vv.String(), errEntityNotExist)\n\t\t}\n\t\tval, ok := rec.Attributes.Get(n.attribute)\n",
         "\t\trec, ok := env.Entities.Get(vv)\n\t\tif !ok {\n\t\t\tif em, isMap := env.Entities.(types.EntityMap); isMap {\n\t\t\t\tem[vv] = types.Entity{UID: vv}\n\t\t\t}\n\t\t\treturn zeroValue(), fmt.Errorf(\"entity `%v` %w\", vv.String(), errEntityNotExist)\n\t\t}\n\t\tval, ok := rec.Attributes.Get(n.attribute)\n"),
    ]),
    ("sync.Once-guarded lazy field in the JSON encoder of a policy", "policy.go", [
        ("import (\n\t\"bytes\"\n", "import (\n\t\"bytes\"\n\t\"sync\"\n"),
        ("\tast  *internalast.Policy\n}", "\tast  *internalast.Policy\n\tonce sync.Once\n\tjs   []byte\n}"),
        ("\tjsonPolicy := (*json.Policy)(p.ast)\n\treturn jsonPolicy.MarshalJSON()",
         "\tvar err error\n\tp.once.Do(func() {\n\t\tjsonPolicy := (*json.Policy)(p.ast)\n\t\tp.js, err = jsonPolicy.MarshalJSON()\n\t})\n\treturn p.js, err"),
    ]),
    ("a shared scratch buffer on the policy used by MarshalCedar", "policy.go", [
        ("\tast  *internalast.Policy\n}", "\tast  *internalast.Policy\n\tscratch bytes.Buffer\n}"),
        ("\tvar buf bytes.Buffer\n\tcedarPolicy.MarshalCedar(&buf)\n\n\treturn buf.Bytes()",
         "\tp.scratch.Reset()\n\tcedarPolicy.MarshalCedar(&p.scratch)\n\n\treturn p.scratch.Bytes()"),
    ]),
    ("validator memoises request environments on itself", "x/exp/schema/validate/validator.go", [
        ("\tschema *resolved.Schema\n\tstrict bool\n}", "\tschema *resolved.Schema\n\tstrict bool\n\tseen   map[types.EntityType]bool\n}"),
        ("\t_, inEntities := v.schema.Entities[et]\n", "\tif v.seen != nil {\n\t\tv.seen[et] = true\n\t}\n\t_, inEntities := v.schema.Entities[et]\n"),
    ]),
    ("JSON marshalling of a policy set annotates the shared AST", "policy_set.go", [
        ("\tfor k, v := range p.policies {\n\t\tjsonPolicySet.StaticPolicies[string(k)] = (*internaljson.Policy)(v.ast)\n",
         "\tfor k, v := range p.policies {\n\t\tv.ast.Annotations = append(v.ast.Annotations, ast.AnnotationType{Key: \"id\", Value: types.String(k)})\n\t\tjsonPolicySet.StaticPolicies[string(k)] = (*internaljson.Policy)(v.ast)\n"),
    ]),
    ("iterator closure of PolicySet.All rewrites the policies it yields", "policy_set.go", [
        ("\t\tfor k, v := range p.policies {\n\t\t\tif !yield(k, v) {", "\t\tfor k, v := range p.policies {\n\t\t\tv.ast.Position.Line = 0\n\t\t\tif !yield(k, v) {"),
    ]),
    ("write through an element of a fresh slice that holds shared pointers", "policy_set.go", [
        ("\tids := make([]PolicyID, 0, len(p.policies))\n\tfor k := range p.policies {\n\t\tids = append(ids, k)\n\t}\n",
         "\tids := make([]PolicyID, 0, len(p.policies))\n\tvar ps []*Policy\n\tfor k, po := range p.policies {\n\t\tids = append(ids, k)\n\t\tps = append(ps, po)\n\t}\n\tif len(ps) > 0 {\n\t\tps[0].ast = ps[0].ast\n\t}\n"),
    ]),
    ("copy() into the shared condition slice", "internal/eval/fold.go", [
        ("\treturn &p2\n}", "\tcopy(p.Conditions, p2.Conditions)\n\treturn &p2\n}"),
    ]),
    ("plain assignment to a package-level variable on the authorize path", "authorize.go", [
        ("// Authorize uses the combination", "var lastDecision Decision\n\n// Authorize uses the combination"),
        ("\tif len(forbids) > 0 {\n\t\tdiag.Reasons = forbids\n", "\tlastDecision = Deny\n\tif len(forbids) > 0 {\n\t\tdiag.Reasons = forbids\n"),
    ]),
    ("EntityMap.MarshalJSON sorts entities' parents in place through a helper", "types/entity_map.go", [
        ("func (e EntityMap) MarshalJSON() ([]byte, error) {\n", "func normaliseEntity(e *Entity) { e.Tags = Record{} }\n\nfunc (e EntityMap) MarshalJSON() ([]byte, error) {\n\tfor _, ent := range e {\n\t\tnormaliseEntity(&ent)\n\t}\n\tfor k := range e {\n\t\tent := e[k]\n\t\tnormaliseEntity(&ent)\n\t\te[k] = ent\n\t}\n"),
    ]),
    ("value returned by an accessor is written through (Get returns the shared pointer)", "authorize.go", [
        ("\tvar diag Diagnostic\n", "\tvar diag Diagnostic\n\tif ps, ok := policies.(*PolicySet); ok {\n\t\tif first := ps.Get(\"policy0\"); first != nil {\n\t\t\tfirst.ast = first.ast\n\t\t}\n\t}\n"),
    ]),
]


def load_expected():
    exp = json.load(open(os.path.join(V, "facts", "writes.expected.json")))
    return {(e["file"], e["func"], e["target"], e["kind"]) for e in exp["sites"]}


def run_factgen(repo):
    out = os.path.join(repo, ".facts.json")
    p = subprocess.run([FACTGEN, "-repo", repo, "-out", os.path.join(repo, ".Facts.lean"), "-json", out],
                       stdout=subprocess.PIPE, stderr=subprocess.STDOUT, text=True)
    facts = json.load(open(out))
    return facts.get("writeSites", []), p.stdout


def copy_repo(dst):
    for root, dirs, files in os.walk(REPO):
        dirs[:] = [d for d in dirs if d not in (".git", "testdata")]
        rel = os.path.relpath(root, REPO)
        for f in files:
            if f.endswith(".go") and not f.endswith("_test.go"):
                os.makedirs(os.path.join(dst, rel), exist_ok=True)
                shutil.copy(os.path.join(root, f), os.path.join(dst, rel, f))


def main():
    if not os.path.exists(FACTGEN):
        env = dict(os.environ, GOFLAGS="-mod=mod", GOPROXY="off", GOSUMDB="off", GOTOOLCHAIN="local", CGO_ENABLED="0")
        subprocess.check_call(["go", "build", "-o", "bin/factgen", "."], cwd=os.path.join(V, "factgen"), env=env)
    known = load_expected()
    tmp = tempfile.mkdtemp(prefix="c19mut-")
    bad = 0
    try:
        base = os.path.join(tmp, "base")
        copy_repo(base)
        sites, _ = run_factgen(base)
        unk = [s for s in sites if (s["file"], s["func"], s["target"], s["kind"]) not in known]
        print("baseline: %d sites, %d unclassified" % (len(sites), len(unk)))
        if unk:
            bad += 1
            for s in unk:
                print("   UNCLASSIFIED", s)
        for i, (name, path, edits) in enumerate(MUTANTS):
            d = os.path.join(tmp, "m%d" % i)
            shutil.copytree(base, d)
            src = open(os.path.join(d, path)).read()
            ok = True
            for old, new in edits:
                if old not in src:
                    ok = False
                    print("mutant %d (%s): pattern not found in %s: %r" % (i, name, path, old[:60]))
                    break
                src = src.replace(old, new, 1)
            if not ok:
                bad += 1
                continue
            open(os.path.join(d, path), "w").write(src)
            if shutil.which("gofmt"):
                r = subprocess.run(["gofmt", "-e", os.path.join(d, path)], stdout=subprocess.DEVNULL, stderr=subprocess.PIPE, text=True)
                if r.returncode != 0:
                    print("mutant %d (%s): does not parse: %s" % (i, name, r.stderr[:200]))
                    bad += 1
                    continue
            sites, _ = run_factgen(d)
            unk = [s for s in sites if (s["file"], s["func"], s["target"], s["kind"]) not in known]
            if unk:
                print("mutant %2d FLAGGED  %-70s -> %s" % (i, name, "; ".join("%s %s %s [%s]" % (s["func"], s["kind"], s["target"], s["root"]) for s in unk[:3])))
            else:
                print("mutant %2d MISSED   %s" % (i, name))
                bad += 1
    finally:
        shutil.rmtree(tmp, ignore_errors=True)
    print("c19 extractor self-test:", "FAILED (%d)" % bad if bad else "ok (%d mutants flagged, baseline quiet)" % len(MUTANTS))
    sys.exit(1 if bad else 0)


if __name__ == "__main__":
    main()
