#!/bin/bash
# tools/ingest_seed2.sh <cNN> — copy wave-2 seeds /tmp/seed2/cNN/SEED/m4,m5 into /verif/seeded/CNN-m4,m5
c=$1; C=$(echo $c | tr c C)
for m in m4 m5; do
  s=/tmp/seed2/$c/SEED/$m; d=/verif/seeded/$C-$m
  [ -f $s/patch.diff ] || { echo "missing $s"; continue; }
  mkdir -p $d; cp -r $s/. $d/
  rm -f $d/full_suite.txt
  python3 - "$d/meta.json" "$C" <<'PY'
import json,sys
p,C=sys.argv[1:3]
try: m=json.load(open(p))
except Exception: m={}
m['property']=C
json.dump(m,open(p,'w'),indent=1)
PY
  git -C /repo apply --check $d/patch.diff && echo "$d ok" || echo "$d PATCH-NOAPPLY"
done
