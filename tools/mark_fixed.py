#!/usr/bin/env python3
"""tools/mark_fixed.py <commit> <Cxx:class> [<Cyy:class> ...] — mark known findings as repaired by a "fix:" commit of /repo.
A fixed entry suppresses nothing: the check reports the class as a VIOLATION if it ever returns."""
import json, sys, glob, os
V = os.path.dirname(os.path.dirname(os.path.abspath(__file__)))
commit = sys.argv[1]
targets = {tuple(a.split(":", 1)) for a in sys.argv[2:]}
def upd(path):
    d = json.load(open(path)); n = 0
    for e in d:
        if (e["property"], e["class"]) in targets:
            e["status"] = "fixed"; e["commit"] = commit
            e["record"] = "fixed: property=%s %s %s" % (e["property"], commit, e.get("what", "")[:200])
            n += 1
    json.dump(d, open(path, "w"), indent=1)
    return n
n = upd(os.path.join(V, "known_findings.json"))
for f in glob.glob(os.path.join(V, "known_findings.d", "*.json")):
    upd(f)
print("marked", n, "entries fixed by", commit)
