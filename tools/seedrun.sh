#!/bin/bash
# tools/seedrun.sh <patch.diff> <Cxx> [<Cyy> ...]   — run checks against a scratch copy of /repo with a seeded change applied.
# Uses a private copy of /verif and a private worktree of /repo, so neither /repo nor /verif is touched.
set -u
PATCH=$(readlink -f "$1"); shift
TIER=${VERIF_TIER:-quick}
W=$(mktemp -d /tmp/seedrun.XXXXXX)
git -C /repo worktree add -q --detach "$W/repo" HEAD || exit 2
if ! git -C "$W/repo" apply "$PATCH"; then echo "PATCH DOES NOT APPLY"; git -C /repo worktree remove --force "$W/repo"; rm -rf "$W"; exit 2; fi
rsync -a --exclude .git --exclude replays /verif/ "$W/verif/"
cd "$W/verif"
for P in "$@"; do
  echo "== $P ($TIER) with $(basename $(dirname $PATCH))"
  VERIF_REPO="$W/repo" timeout 1800 ./check "$P" "$TIER" 2>&1 | grep -E "VIOLATION|KNOWN-FINDING|obligations=|broken tie" | cut -c1-400
  for f in replays/*; do [ -f "$f" ] && { echo "-- replay $f"; head -c 600 "$f"; echo; }; done 2>/dev/null | head -40
  rm -rf replays
done
cd /
git -C /repo worktree remove --force "$W/repo"
rm -rf "$W"
