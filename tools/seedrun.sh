#!/bin/bash
# tools/seedrun.sh <patch.diff> <Cxx> [<Cyy> ...]  — run checks against a scratch copy of /repo with a seeded change applied.
# Uses a private copy of /verif (or of $VERIF_SRC) and a private worktree of /repo, so neither /repo nor /verif is touched.
# Prints one line per property: "RESULT <patch-dir> <Cxx>: CAUGHT n=<violations> [first classes]" or "MISSED".
set -u
PATCH=$(readlink -f "$1"); shift
TIER=${VERIF_TIER:-quick}
NAME=$(basename $(dirname $PATCH))
W=$(mktemp -d /tmp/seedrun.XXXXXX)
git -C /repo worktree add -q --detach "$W/repo" HEAD || exit 2
if ! git -C "$W/repo" apply "$PATCH"; then echo "RESULT $NAME: PATCH DOES NOT APPLY"; git -C /repo worktree remove --force "$W/repo"; rm -rf "$W"; exit 2; fi
rsync -a --exclude .git --exclude replays "${VERIF_SRC:-/verif}/" "$W/verif/"
cd "$W/verif"
for P in "$@"; do
  OUT=$(VERIF_REPO="$W/repo" timeout 2400 ./check "$P" "$TIER" 2>&1)
  V=$(echo "$OUT" | grep -c "^VIOLATION")
  CLS=$(ls replays 2>/dev/null | sed -E "s/^$P-//; s/-[0-9a-f]{8}\.json$//" | sort -u | head -4 | tr '\n' ',')
  NF=$(echo "$OUT" | grep "^VIOLATION" | grep -c "no-failing-input-found")
  SUM=$(echo "$OUT" | tail -1 | cut -c1-160)
  if [ "$V" -gt 0 ]; then echo "RESULT $NAME $P: CAUGHT violations=$V (without-input=$NF) classes=$CLS | $SUM"; else echo "RESULT $NAME $P: MISSED | $SUM"; fi
  rm -rf replays
done
cd /
git -C /repo worktree remove --force "$W/repo"
rm -rf "$W"
