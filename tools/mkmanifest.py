#!/usr/bin/env python3
"""Regenerates /verif/MANIFEST.json from the table below (keeps the file valid and uniform)."""
import json, os, subprocess
V = os.path.dirname(os.path.dirname(os.path.abspath(__file__)))

CHECKS = {
 "C01": dict(
  technique="Lean 4: overflow-check exactness theorems (omega) + model/Go correspondence on exhaustive operator x boundary tables and typed random trees",
  text="Lean theorems: the Go overflow tests (add/sub/neg, transcribed with two's-complement wrap) are exact for all operand pairs; comparison totality; the regenerated extension table/dispatch/time constants equal the model's. Model.eval (transcription of evalers.go, ~45 node kinds, all extension functions) is tied to x/exp/eval.Eval by correspondence on ~21k exhaustive boundary-table cases and 30k+ typed random trees per run. The refinement of Model.eval against an independent specification evaluator is NOT yet a theorem (partial): spec conformance beyond arithmetic rests on the Go-side oracles.",
  note="Trusted: Lean kernel + 3 standard axioms; hand-written model tied by correspondence; scalar parsers re-implemented in the model; error message text not modelled."),
 "C02": dict(
  technique="Lean 4 theorems over the transcribed authorizer loop + correspondence/oracle against cedar.Authorize",
  text="For every policy sequence (any PolicyIterator, duplicate ids included) and environment: allow_iff, reasons_exact, errors_exact, order independence, default deny, forbid overrides, and 'satisfied iff scope and all clauses hold' are Lean theorems about the transcription of authorize.go / PolicyToNode; tied to the code by an exhaustive 462-multiset decision table (3 orders, 2 iterator kinds) plus random policy sets run through cedar.Authorize, the Lean driver and an independent per-policy oracle.",
  note="Trusted: Lean kernel + 3 standard axioms; hand-written model tied by correspondence; harness generators; error messages not modelled."),
 "C03": dict(
  technique="Lean 4 refinement proof: work-list ancestor search = reflexive-transitive reachability, with termination, for every finite store",
  text="Lean theorems (no acyclicity or well-formedness hypothesis): the transcription of entityInOne/entityInSet (candidate, todo stack, known set, four pruning tests) terminates within |store|+1 iterations and returns true iff the target is reachable through present entities; set form; operator and scope forms; independence of parent enumeration order. Tied to the code by ALL graphs on <=3 nodes x all presence subsets x all pairs/target subsets (4 nodes sampled/exhaustive in thorough), random larger graphs, through the EntityInOne/InSet hooks, x/exp/eval.Eval and cedar.Authorize scope forms, against an independent Floyd-Warshall oracle.",
  note="Trusted: Lean kernel + 3 standard axioms; mapset modelled as a list; model tied by correspondence."),
 "C04": dict(
  technique="Lean 4 theorem by mutual structural induction: eval (fold e) env = eval e env for all e, env; regenerated fold-guard facts; folded/unfolded/Authorize oracle",
  text="Lean theorems: folding preserves the value or the error kind of every expression in every environment; compile (= PolicyToNode o foldPolicy) evaluates like the unfolded policy; authorize with compiled policies equals authorize with unfolded ones; folding never reads an environment (by type) and keeps effect/scope/annotations/position. The fold guards (forced error evaluators for in/is-in/getTag/hasTag, entity guard for ./has) are regenerated from fold.go on every run and checked by a theorem. Tied to the code by folded (FoldPolicy hook) vs unfolded vs cedar.Authorize evaluation and AST/text/JSON snapshots on constant-heavy generated policies.",
  note="Trusted: Lean kernel + 3 standard axioms; model tied by correspondence; Go aliasing (in-place mutation) only observable through the snapshot oracle, not the pure model."),
 "C20": dict(
  technique="Lean 4 refinement proof: every operation history refines an id->policy map; exhaustive short histories + random long ones against cedar.PolicySet",
  text="Lean theorems: each operation (add/replace, remove, get, ids) on the association-list model commutes with the abstraction to a function PolicyID -> Option Policy and returns what the map predicts; by induction every finite history does; marshal order is sorted, duplicate-free and determined by contents alone; authorization depends only on contents (via C02 order independence); load assigns policy0.. in order with the file name. Tied to the code by all histories of length <=4 (<=5 thorough) over 15 operations plus random histories, run on cedar.PolicySet, the Lean model and a plain Go map (return values, Get, Map() copy, MarshalCedar order, JSON round trip, Authorize).",
  note="Trusted: Lean kernel + 3 standard axioms; Go map modelled as an association list; zero-value PolicySet outside the quantifier (documented constructors only)."),
}

NOT_APPLICABLE = {}

PENDING = ["C05","C06","C07","C08","C09","C10","C11","C12","C13","C14","C15","C16","C17","C18","C19"]

def main():
    extra = {"checks": {}, "not_applicable": {}}
    d = os.path.join(V, "tools", "manifest_entries")
    if os.path.isdir(d):
        for f in sorted(os.listdir(d)):
            if f.endswith(".json"):
                e = json.load(open(os.path.join(d, f)))
                if "reason" in e:
                    extra["not_applicable"][f[:-5]] = e["reason"]
                else:
                    extra["checks"][f[:-5]] = e
    checks = []
    allc = dict(CHECKS)
    allc.update(extra.get("checks", {}))
    for pid in sorted(allc):
        c = allc[pid]
        checks.append({
            "property_id": pid,
            "quick_cmd": "./check %s quick" % pid,
            "thorough_cmd": "./check %s thorough" % pid,
            "evidence_file": "/verif/evidence/%s.json" % pid,
            "replay_cmd_template": "./check %s --replay {path}" % pid,
            "engine": "lean4+correspondence",
            "technique": c["technique"],
            "level_claimed": {"category": "proof", "text": c["text"], "design_ref": "DESIGN.md §4 " + pid},
            "level_note": c["note"],
        })
    na = dict(NOT_APPLICABLE)
    na.update(extra.get("not_applicable", {}))
    for pid in PENDING:
        if pid not in allc and pid not in na:
            na[pid] = "not yet claimed: machinery for this property is still being built (see DESIGN.md §4 %s); no other technique is substituted" % pid
    hooks = subprocess.run(["git", "-C", "/repo", "log", "--format=%h", "--grep=^verif"], stdout=subprocess.PIPE, text=True).stdout.split()
    m = {
        "version": 1,
        "setup_cmd": "./check --setup && ./harness/bin/vh -prop C19-prebuild -verif /verif",
        "hooks": {
            "guard": "verif",
            "enable": "go build -tags verif (harness module /verif/harness with `replace github.com/cedar-policy/cedar-go => /repo`)",
            "baseline_off_cmd": "cd /repo && GOFLAGS=-mod=mod go test -vet=off -count=1 -timeout 25m ./...",
            "source_commits": hooks,
            "add_only": True,
        },
        "engines": [{"name": "lean4+correspondence", "path": "/verif/lean", "serves_properties": sorted(allc),
                     "kind_free_text": "Lean 4 model + theorems (lake project), facts regenerated from the Go source (factgen), Go line-protocol correspondence/oracle harness"}],
        "checks": checks,
        "not_applicable": [{"property_id": k, "reason": v} for k, v in sorted(na.items())],
        "notes": "Every check: regenerate facts -> lake build model/driver/proofs -> audit axioms of every Cxx_* theorem -> build harness against /repo (-tags verif) -> correspondence + direct oracles -> evidence. See DESIGN.md.",
    }
    json.dump(m, open(os.path.join(V, "MANIFEST.json"), "w"), indent=1)
    print("MANIFEST.json: %d checks, %d not_applicable" % (len(checks), len(m["not_applicable"])))

if __name__ == "__main__":
    main()
