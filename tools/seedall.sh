#!/bin/bash
# tools/seedall.sh [pattern]  — run every seeded change under /verif/seeded (matching pattern) against the check of its property;
# writes seeded/<id>/result.txt
cd "${VERIF_SRC:-/verif}"
for d in seeded/${1:-*}; do
  [ -f "$d/patch.diff" ] || continue
  P=$(python3 -c "import json,sys; print(json.load(open('$d/meta.json'))['property'])" 2>/dev/null || echo ${d:7:3})
  tools/seedrun.sh "$d/patch.diff" "$P" ${EXTRA_PROPS:-} | grep "^RESULT" | tee "$d/result.txt"
done
