/-
  C05 from INPUT-level premises.

  The decision theorem of Lemmas/C05Decision.lean carries `runDomain`: "at no level of the enumeration does the partial
  evaluation of a condition report errIgnore" — a statement about the model's partial evaluator.  Here it is derived from
  structural premises on the inputs:

    * `noIgnoreInput env`                — no ignore marker in the template (four request parts, at any depth) or the store;
    * value lists without ignore markers — `∀ v ∈ values, v.hasIgnore = false`;
    * `Policy.noIgnoreLits`, `Policy.recKeysDistinct` for every policy of the set.

  The invariant travels down the enumeration: substituting an ignore-free value into an ignore-free template gives an
  ignore-free template (`noIgnoreInput_substEnv`), and the residual policies of a level are again ignore-free with distinct
  record keys (`partialPolicy_good`, Lemmas/C06InvPolicy.lean).

  Also: the premise "every leaf of the trace is well-typed" is derived from "every substituted request is well-typed"
  (`trace_valid_of_typed`).
-/
import CedarGoProofs.Lemmas.C05Decision
import CedarGoProofs.Lemmas.C06InvPolicy
set_option linter.unusedSimpArgs false
set_option linter.unusedVariables false
namespace CedarGo

/-! ## substitution keeps a template ignore-free -/

mutual
theorem subst_noIgnore (k : String) (v : Value) (hv : v.hasIgnore = false) :
    ∀ r : Value, r.hasIgnore = false → (Value.subst k v r).hasIgnore = false
  | .entity ty id, h => by
      simp only [Value.subst]
      split
      · exact hv
      · exact h
  | .record kvs, h => by
      simp only [Value.hasIgnore] at h
      simp only [Value.subst, Value.hasIgnore]
      exact substKVs_noIgnore k v hv kvs h
  | .set xs, h => by
      simp only [Value.hasIgnore] at h
      simp only [Value.subst]
      split
      · exact mkSet_noIgnore (hasIgnoreList_false.mp (substList_noIgnore k v hv xs h))
      · simpa only [Value.hasIgnore] using h
  | .bool _, _ => rfl
  | .long _, _ => rfl
  | .str _, _ => rfl
  | .decimal _, _ => rfl
  | .datetime _, _ => rfl
  | .duration _, _ => rfl
  | .ip _, _ => rfl
theorem substKVs_noIgnore (k : String) (v : Value) (hv : v.hasIgnore = false) :
    ∀ kvs : List (String × Value), Value.hasIgnoreKVs kvs = false → Value.hasIgnoreKVs (Value.substKVs k v kvs) = false
  | [], _ => rfl
  | (kk, x) :: rest, h => by
      simp only [Value.hasIgnoreKVs, Bool.or_eq_false_iff] at h
      simp only [Value.substKVs, Value.hasIgnoreKVs, Bool.or_eq_false_iff]
      exact ⟨subst_noIgnore k v hv x h.1, substKVs_noIgnore k v hv rest h.2⟩
theorem substList_noIgnore (k : String) (v : Value) (hv : v.hasIgnore = false) :
    ∀ xs : List Value, Value.hasIgnoreList xs = false → Value.hasIgnoreList (Value.substList k v xs) = false
  | [], _ => rfl
  | x :: xs, h => by
      simp only [Value.hasIgnoreList, Bool.or_eq_false_iff] at h
      simp only [Value.substList, Value.hasIgnoreList, Bool.or_eq_false_iff]
      exact ⟨subst_noIgnore k v hv x h.1, substList_noIgnore k v hv xs h.2⟩
end

theorem noIgnoreInput_substEnv (k : String) (v : Value) (env : Env) (hv : v.hasIgnore = false)
    (h : noIgnoreInput env = true) : noIgnoreInput (substEnv k v env) = true := by
  obtain ⟨h1, h2, h3, h4, h5⟩ := noIgnoreInput_parts h
  simp [noIgnoreInput, substEnv, subst_noIgnore k v hv _ h1, subst_noIgnore k v hv _ h2, subst_noIgnore k v hv _ h3,
    subst_noIgnore k v hv _ h4, h5]

theorem noIgnoredPart_of_inputs {env : Env} (h : noIgnoreInput env = true) : noIgnoredPart env = true := by
  obtain ⟨h1, h2, h3, h4, _⟩ := noIgnoreInput_parts h
  simp [noIgnoredPart, isIgnore_of_hasIgnore h1, isIgnore_of_hasIgnore h2, isIgnore_of_hasIgnore h3,
    isIgnore_of_hasIgnore h4]

/-! ## the residual policy set of a level -/

theorem doPartial_good {env : Env} (hE : noIgnoreInput env = true) {ps : List (PolicyID × Policy)}
    (hp : ∀ ip ∈ ps, ip.2.good) : ∀ ip ∈ doPartial env ps, ip.2.good := by
  intro ip hip
  simp only [doPartial, List.mem_filterMap] at hip
  obtain ⟨ip0, hmem, hmap⟩ := hip
  cases hpp : partialPolicy env ip0.2 with
  | none => simp [hpp] at hmap
  | some r =>
    simp only [hpp, Option.map_some, Option.some.injEq] at hmap
    subst hmap
    exact partialPolicy_good hE (hp ip0 hmem) hpp

/-- **The model-level premise follows from the input-level one**, at every level of the enumeration. -/
theorem runDomain_of_inputs : ∀ (vars : List (String × List Value)) (env : Env) (ps : List (PolicyID × Policy)),
    noIgnoreInput env = true → (∀ kv ∈ vars, ∀ v ∈ kv.2, v.hasIgnore = false) → (∀ ip ∈ ps, ip.2.good) →
    runDomain vars env ps = true
  | [], _, _, _, _, _ => rfl
  | (k, vs) :: rest, env, ps, hE, hv, hp => by
    simp only [runDomain, Bool.and_eq_true, List.all_eq_true]
    refine ⟨fun ip hip => partialDomain_of_inputs hE (hp ip hip).1 (hp ip hip).2, ?_⟩
    intro v hvm
    exact runDomain_of_inputs rest (substEnv k v env) (doPartial env ps)
      (noIgnoreInput_substEnv k v env (hv (k, vs) (by simp) v hvm) hE)
      (fun kv h => hv kv (by simp [h])) (doPartial_good hE hp)

/-! ## well-typed requests -/

/-- principal, action and resource are entities, the context is a record: what `ValueToEntity` / `ValueToRecord` accept -/
def requestTyped (env : Env) : Bool :=
  isEntityV env.principal && isEntityV env.action && isEntityV env.resource && isRecordV env.context

theorem leafResult_isSome (env : Env) (ps : List (PolicyID × Policy)) (vals : List (String × Value))
    (h : requestTyped env = true) : (leafResult env ps vals).isSome = true := by
  unfold requestTyped at h
  simp [leafResult, h]

/-- every leaf of the enumeration belongs to an element of the product and is delivered when that element's request is
    well-typed -/
theorem trace_leaf_typed (vars : List (String × List Value)) (env : Env) (ps : List (PolicyID × Policy))
    (vals : List (String × Value)) (hi : noIgnoredPart env = true)
    (hv : ∀ kv ∈ vars, ∀ v ∈ kv.2, v.isIgnore = false) :
    ∀ o ∈ trace vars env ps vals, ∃ σs, o.1 = vals ++ σs ∧ σs ∈ product vars ∧
      (requestTyped (substManyEnv σs env) = true → o.2.isSome = true) := by
  induction vars generalizing env ps vals with
  | nil =>
    intro o ho
    simp only [trace, List.mem_singleton] at ho
    subst ho
    exact ⟨[], by simp, by simp [product], fun h => leafResult_isSome _ _ _ h⟩
  | cons kv rest ih =>
    obtain ⟨k, vs⟩ := kv
    intro o ho
    simp only [trace, List.mem_flatMap] at ho
    obtain ⟨v, hvmem, ho⟩ := ho
    have hvi : v.isIgnore = false := hv (k, vs) (by simp) v hvmem
    have henv : (if rest.isEmpty then fixIgnores env else env) = env := by
      split
      · exact fixIgnores_noop env hi
      · rfl
    rw [henv, cloneSubEnv_eq_substEnv] at ho
    obtain ⟨σs, h1, h2, h3⟩ := ih (substEnv k v env) (doPartial env ps) (vals ++ [(k, v)])
      (noIgnoredPart_substEnv k v env hvi hi) (fun kv h => hv kv (by simp [h])) o ho
    refine ⟨(k, v) :: σs, by simp [h1], ?_, ?_⟩
    · simp only [product, List.mem_flatMap, List.mem_map]
      exact ⟨v, hvmem, σs, h2, rfl⟩
    · intro h
      exact h3 (by simpa [substManyEnv] using h)

theorem trace_valid_of_typed (vars : List (String × List Value)) (env : Env) (ps : List (PolicyID × Policy))
    (hi : noIgnoredPart env = true) (hv : ∀ kv ∈ vars, ∀ v ∈ kv.2, v.isIgnore = false)
    (ht : ∀ σs ∈ product vars, requestTyped (substManyEnv σs env) = true) :
    ∀ o ∈ trace vars env ps [], o.2.isSome = true := by
  intro o ho
  obtain ⟨σs, _, h2, h3⟩ := trace_leaf_typed vars env ps [] hi hv o ho
  exact h3 (ht σs h2)

end CedarGo
