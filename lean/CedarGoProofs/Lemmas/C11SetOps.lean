/-
  C11 helper lemmas, part 4: `Set.Len/Contains/Equal`, `containsAll/Any` on well-formed tables, and
  their agreement with the list-based operations of the evaluator model.
-/
import CedarGoProofs.Lemmas.C11Set
namespace CedarGo
namespace C11

/-- a `types.Set` as `NewSet` builds it: table invariant plus consistent cached hash -/
structure SetWF (hash : Value → UInt64) (s : SetImpl) : Prop where
  inv : Inv hash s.tbl
  hashOk : s.hashVal = sumU64 ((vals s.tbl).map hash)

theorem newSet_spec {hash : Value → UInt64} (hr : HashRespectsEq hash) (l : List Value)
    (hl : l.length < 18446744073709551616) :
    SetWF hash (newSet hash l) ∧ (vals (newSet hash l).tbl).reverse = dedupV [] l := by
  obtain ⟨inv, hv⟩ := foldl_insertV_spec hr l [] (inv_nil hash) (by simpa using hl)
  refine ⟨⟨inv, ?_⟩, hv⟩
  simp [newSet, buildTable, vals, List.map_map, Function.comp_def]

theorem contains_iff {hash : Value → UInt64} (hr : HashRespectsEq hash) {s : SetImpl} (wf : SetWF hash s) (v : Value) :
    s.contains hash v = true ↔ ∃ w ∈ vals s.tbl, Value.beq v w = true := by
  rw [← probe_contains_iff hr wf.inv v]
  unfold SetImpl.contains
  constructor
  · intro h
    split at h
    · rename_i s' hs'; exact ⟨s', hs'⟩
    · cases h
  · rintro ⟨s', hs'⟩; rw [hs']

theorem sub_iff_contains {hash : Value → UInt64} (hr : HashRespectsEq hash) {s b : SetImpl} (wb : SetWF hash b) :
    Sub Value.beq (vals s.tbl) (vals b.tbl) ↔ ∀ kv ∈ s.tbl, b.contains hash kv.2 = true := by
  constructor
  · intro h kv hkv
    exact (contains_iff hr wb kv.2).mpr (h kv.2 (mem_vals.mpr ⟨kv.1, hkv⟩))
  · intro h w hw
    obtain ⟨k, hk⟩ := mem_vals.mp hw
    exact (contains_iff hr wb w).mp (h (k, w) hk)

theorem sub_iff_forall {hash : Value → UInt64} (hr : HashRespectsEq hash) {s b : SetImpl} (ws : SetWF hash s) (wb : SetWF hash b) :
    Sub Value.beq (vals s.tbl) (vals b.tbl) ↔ ∀ v, s.contains hash v = true → b.contains hash v = true := by
  constructor
  · intro h v hv
    obtain ⟨w, hw, hb⟩ := (contains_iff hr ws v).mp hv
    obtain ⟨w', hw', hb'⟩ := h w hw
    exact (contains_iff hr wb v).mpr ⟨w', hw', beq_trans _ _ _ hb hb'⟩
  · intro h w hw
    exact (contains_iff hr wb w).mp (h w ((contains_iff hr ws w).mpr ⟨w, hw, beq_refl w⟩))

theorem equal_unfold (hash : Value → UInt64) (s b : SetImpl) :
    s.equal hash b = true ↔ s.len = b.len ∧ s.hashVal = b.hashVal ∧ ∀ kv ∈ s.tbl, b.contains hash kv.2 = true := by
  unfold SetImpl.equal
  by_cases h1 : s.len = b.len <;> by_cases h2 : s.hashVal = b.hashVal <;> simp [h1, h2]

/-- `Set.Equal` decides extensional equality of the two sets -/
theorem equal_iff {hash : Value → UInt64} (hr : HashRespectsEq hash) {s b : SetImpl} (ws : SetWF hash s) (wb : SetWF hash b) :
    s.equal hash b = true ↔ ∀ v, s.contains hash v = b.contains hash v := by
  rw [equal_unfold, ← sub_iff_contains hr wb]
  constructor
  · rintro ⟨hlen, _, hsub⟩ v
    have hback : Sub Value.beq (vals b.tbl) (vals s.tbl) :=
      sub_of_sub_of_length_le beq_symm beq_trans ws.inv.distinct wb.inv.distinct hsub
        (by simp only [SetImpl.len] at hlen; simp [vals, hlen])
    rw [Bool.eq_iff_iff]
    exact ⟨(sub_iff_forall hr ws wb).mp hsub v, (sub_iff_forall hr wb ws).mp hback v⟩
  · intro h
    have h1 : Sub Value.beq (vals s.tbl) (vals b.tbl) := (sub_iff_forall hr ws wb).mpr (fun v hv => by rw [← h v]; exact hv)
    have h2 : Sub Value.beq (vals b.tbl) (vals s.tbl) := (sub_iff_forall hr wb ws).mpr (fun v hv => by rw [h v]; exact hv)
    refine ⟨?_, ?_, h1⟩
    · have := length_eq_of_sub_sub beq_symm beq_trans ws.inv.distinct wb.inv.distinct h1 h2
      simpa [SetImpl.len, vals] using this
    · rw [ws.hashOk, wb.hashOk]
      exact sum_eq_of_sub_sub beq_symm beq_trans hash ws.inv.distinct wb.inv.distinct h1 h2 (fun x _ y _ hxy => hr x y hxy)

theorem containsAll_iff {hash : Value → UInt64} (hr : HashRespectsEq hash) {s b : SetImpl} (ws : SetWF hash s) (wb : SetWF hash b) :
    s.containsAll hash b = true ↔ ∀ v, b.contains hash v = true → s.contains hash v = true := by
  rw [← sub_iff_forall hr wb ws, sub_iff_contains hr ws]
  simp [SetImpl.containsAll]

theorem containsAny_iff {hash : Value → UInt64} (hr : HashRespectsEq hash) {s b : SetImpl} (ws : SetWF hash s) (wb : SetWF hash b) :
    s.containsAny hash b = true ↔ ∃ v, b.contains hash v = true ∧ s.contains hash v = true := by
  simp only [SetImpl.containsAny, List.any_eq_true]
  constructor
  · rintro ⟨kv, hkv, hc⟩
    exact ⟨kv.2, (contains_iff hr wb kv.2).mpr ⟨kv.2, mem_vals.mpr ⟨kv.1, hkv⟩, beq_refl _⟩, hc⟩
  · rintro ⟨v, hb, hs⟩
    obtain ⟨w, hw, hvw⟩ := (contains_iff hr wb v).mp hb
    obtain ⟨w', hw', hvw'⟩ := (contains_iff hr ws v).mp hs
    obtain ⟨k, hk⟩ := mem_vals.mp hw
    refine ⟨(k, w), hk, (contains_iff hr ws w).mpr ⟨w', hw', ?_⟩⟩
    exact beq_trans _ _ _ (by rw [beq_symm]; exact hvw) hvw'

/-! ### sets built by `newSet` -/

theorem newSet_contains_iff {hash : Value → UInt64} (hr : HashRespectsEq hash) (l : List Value)
    (hl : l.length < 18446744073709551616) (v : Value) :
    (newSet hash l).contains hash v = true ↔ ∃ w ∈ l, Value.beq v w = true := by
  obtain ⟨wf, hv⟩ := newSet_spec hr l hl
  rw [contains_iff hr wf, ← dedupV_mem l v, ← hv]
  simp

theorem newSet_contains_eq_memL {hash : Value → UInt64} (hr : HashRespectsEq hash) (l : List Value)
    (hl : l.length < 18446744073709551616) (v : Value) :
    (newSet hash l).contains hash v = Value.memL v l := by
  rw [Bool.eq_iff_iff, newSet_contains_iff hr l hl, memL_iff]

theorem beq_set_iff_same (l₁ l₂ : List Value) :
    Value.beq (.set l₁) (.set l₂) = true ↔ ∀ v, (∃ w ∈ l₁, Value.beq v w = true) ↔ (∃ w ∈ l₂, Value.beq v w = true) := by
  rw [beq_set_iff]
  constructor
  · rintro ⟨h1, h2⟩ v
    constructor
    · rintro ⟨w, hw, hb⟩
      obtain ⟨y, hy, hb'⟩ := h1 w hw
      exact ⟨y, hy, beq_trans _ _ _ hb hb'⟩
    · rintro ⟨w, hw, hb⟩
      obtain ⟨x, hx, hb'⟩ := h2 w hw
      exact ⟨x, hx, beq_trans _ _ _ hb (by rw [beq_symm]; exact hb')⟩
  · intro h
    refine ⟨fun x hx => (h x).mp ⟨x, hx, beq_refl x⟩, fun y hy => ?_⟩
    obtain ⟨x, hx, hb⟩ := (h y).mpr ⟨y, hy, beq_refl y⟩
    exact ⟨x, hx, by rw [beq_symm]; exact hb⟩

theorem dedupV_noDup (l : List Value) : NoDupR Value.beq (dedupV [] l) := by
  have gen : ∀ (l acc : List Value), NoDupR Value.beq acc.reverse → NoDupR Value.beq (dedupV acc l) := by
    intro l
    induction l with
    | nil => intro acc h; simpa [dedupV] using h
    | cons y l ih =>
      intro acc h
      simp only [dedupV]
      split
      · exact ih acc h
      · rename_i hm
        apply ih
        unfold NoDupR at *
        rw [List.reverse_cons, List.pairwise_append]
        refine ⟨h, by simp, fun a ha b hb => ?_⟩
        simp only [List.mem_singleton] at hb; subst hb
        cases hab : Value.beq a b with
        | false => rfl
        | true =>
          exfalso; apply hm
          exact (memL_iff _ _).mpr ⟨a, List.mem_reverse.mp ha, by rw [beq_symm]; exact hab⟩
  exact gen l [] (by simp [NoDupR])

end C11
end CedarGo
