/-
  C15 — helper definitions and lemmas for the soundness of the validator model on its fragment
  (`CedarGo/Model/Validate/{Types,Check}.lean`).  The property theorems are in Properties/C15.lean.

  * `HasTy v τ`   — value `v` inhabits validator type `τ` (records are CLOSED: every key of the value is declared,
                    every required attribute is present; `Ty.nil` and `Ty.never` are uninhabited; an entity value has one
                    of the LUB's entity types and is not the unspecified entity: its type name is not empty).
  * `Allowed k`   — the run-time failures the property permits: overflow, absent entity, extension errors.
  * `CapsHold`    — the environment satisfies a capability set: for every capability `(p, a, tag)` and every
                    variable-rooted access path `e` with `exprCapPath e = p`, `e has a` (`e.hasTag("a")` for a tag
                    capability) is true whenever it evaluates.
  * `Sound`       — the conclusion of the soundness theorem for one evaluation result.
  * `EntityOK`    — an entity PRESENT in the store conforms to its declared type: its attribute record inhabits the
                    declared shape (required attributes present, optional ones well-typed if present, nothing else), every
                    tag value has the declared tag type (no tags if none is declared), and every parent of a
                    NON-action entity is a non-action entity whose type is one of the declared parent types, every
                    parent of an ACTION entity is an action entity (of any action entity type: an action group may be
                    declared in another namespace; WHICH actions is the business of `ActionsOK`).
  * `EnvOK`       — `env ⊨ Γ`: request variables have the environment's entity types (the action is the environment's
                    action), the context inhabits its record type, every entity present in the store is `EntityOK`.
                    Entities may be absent.
-/
import CedarGo.Model.Validate.Check
import CedarGoProofs.Lemmas.RecordLit
import CedarGoProofs.Lemmas.C15EntTypes
namespace CedarGo.Validate
open CedarGo

inductive HasTy : Value → Ty → Prop
  | tt : HasTy (.bool true) .tt
  | ff : HasTy (.bool false) .ff
  | bool (b : Bool) : HasTy (.bool b) .bool
  | long (n : Int) : HasTy (.long n) .long
  | str (s : String) : HasTy (.str s) .string
  | set {xs : List Value} {t : Ty} : (∀ x, x ∈ xs → HasTy x t) → HasTy (.set xs) (.set t)
  | record {kvs : List (String × Value)} {attrs : Attrs} :
      (∀ k v t req, kvGet k kvs = some v → lookupAttr k attrs = some (t, req) → HasTy v t) →
      (∀ k v, kvGet k kvs = some v → (lookupAttr k attrs).isSome = true) →
      (∀ k t, lookupAttr k attrs = some (t, true) → (kvGet k kvs).isSome = true) →
      HasTy (.record kvs) (.record attrs)
  | entity {ty id : String} {tys : List String} : ty ∈ tys → ty ≠ "" → HasTy (.entity ty id) (.entity tys)
  | decimal (n : Int) : HasTy (.decimal n) (.ext .decimal)
  | datetime (n : Int) : HasTy (.datetime n) (.ext .datetime)
  | duration (n : Int) : HasTy (.duration n) (.ext .duration)
  | ip (a : IPNet) : HasTy (.ip a) (.ext .ipaddr)

def Allowed (k : Err) : Prop :=
  k = .overflow ∨ k = .entity ∨ k = .extDecimal ∨ k = .extIP ∨ k = .extDatetime ∨ k = .extDuration

/-- the test a capability stands for: `e has a`, or `e.hasTag("a")` for a tag capability -/
def capExpr (e : Expr) (a : String) (tag : Bool) : Expr :=
  if tag then .binop .hasTag e (.lit (.str a)) else .has e a

def CapsHold (env : Env) (caps : Caps) : Prop :=
  ∀ p a t, (p, a, t) ∈ caps → ∀ e, exprCapPath e = p → p ≠ [] →
    ∀ b, eval (capExpr e a t) env = .ok (.bool b) → b = true

def SoundRes (env : Env) (τ : Ty) (caps' : Caps) : Res → Prop
  | .ok v => HasTy v τ ∧ (v = .bool true → CapsHold env caps')
  | .error k => Allowed k

/-- conclusion of the soundness theorem; the first component (an expression of singleton type True
    carries capabilities that hold whether or not it is evaluated) is what makes `x || <True-typed>` go through -/
def Sound (env : Env) (τ : Ty) (caps' : Caps) (r : Res) : Prop :=
  ((τ = .tt ∨ τ = .never) → CapsHold env caps') ∧ SoundRes env τ caps' r

/-- an entity present in the store conforms to the declaration of its entity type (`Validator.Entity`) -/
structure EntityOK (Γ : TEnv) (uid : UID) (d : EntityData) : Prop where
  attrs : HasTy (.record d.attrs) (.record (declOf Γ uid.1).attrs)
  tags : ∀ k v, kvGet k d.tags = some v → ∃ t, (declOf Γ uid.1).tags = some t ∧ HasTy v t
  parents : ∀ p ∈ d.parents,
    (isActionEntity uid.1 = false ∧ isActionEntity p.1 = false ∧ p.1 ∈ (declOf Γ uid.1).parents) ∨
    (isActionEntity uid.1 = true ∧ isActionEntity p.1 = true)

structure EnvOK (Γ : TEnv) (env : Env) : Prop where
  principal : ∃ i, env.principal = .entity Γ.principalType i
  action : env.action = .entity Γ.action.1 Γ.action.2
  resource : ∃ i, env.resource = .entity Γ.resourceType i
  context : ∃ kvs, env.context = .record kvs ∧ HasTy (.record kvs) (.record Γ.context)
  /-- entity type names are not empty (the entity with empty type and id is Go's "unspecified entity") -/
  names : Γ.principalType ≠ "" ∧ Γ.action.1 ≠ "" ∧ Γ.resourceType ≠ "" ∧ "" ∉ Γ.entityTypes
  store : ∀ uid d, env.entities.get uid = some d → EntityOK Γ uid d

theorem hasTy_boolish {v : Value} {τ : Ty} (hb : isBoolTy τ = true) (h : HasTy v τ) : ∃ b, v = .bool b := by
  cases h <;> simp [isBoolTy] at hb <;> exact ⟨_, rfl⟩

theorem capsHold_nil (env : Env) : CapsHold env [] := by
  intro p a t h; simp at h

theorem capsHold_merge {env : Env} {a b : Caps} (ha : CapsHold env a) (hb : CapsHold env b) : CapsHold env (a.merge b) := by
  intro p x t h
  simp only [Caps.merge, List.mem_append] at h
  cases h with
  | inl h => exact ha p x t h
  | inr h => exact hb p x t h

theorem capsHold_intersect_left {env : Env} {a b : Caps} (ha : CapsHold env a) : CapsHold env (a.intersect b) := by
  intro p x t h
  simp only [Caps.intersect, List.mem_filter] at h
  exact ha p x t h.1

theorem capsHold_intersect_right {env : Env} {a b : Caps} (hb : CapsHold env b) : CapsHold env (a.intersect b) := by
  intro p x t h
  simp only [Caps.intersect, List.mem_filter, List.contains_iff_mem] at h
  exact hb p x t h.2

/-- what the induction hypothesis gives for one operand -/
theorem sound_cases {env : Env} {τ : Ty} {c : Caps} {r : Res} (h : Sound env τ c r) :
    (∃ k, r = .error k ∧ Allowed k) ∨ (∃ v, r = .ok v ∧ HasTy v τ ∧ (v = .bool true → CapsHold env c)) := by
  cases r with
  | error k => exact .inl ⟨k, rfl, h.2⟩
  | ok v => exact .inr ⟨v, rfl, h.2.1, h.2.2⟩

/-- results whose capability set is the incoming one -/
theorem sound_same {env : Env} {τ : Ty} {c : Caps} {r : Res} (hc : CapsHold env c) (h : SoundRes env τ c r) : Sound env τ c r :=
  ⟨fun _ => hc, h⟩

theorem soundRes_bind {env : Env} {t τ : Ty} {c c' : Caps} {r : Res} {f : Value → Res}
    (hs : SoundRes env t c r) (hf : ∀ v, HasTy v t → (v = .bool true → CapsHold env c) → SoundRes env τ c' (f v)) :
    SoundRes env τ c' (r.bind f) := by
  cases r with
  | error k => exact hs
  | ok v => exact hf v hs.1 hs.2

theorem soundRes_err {env : Env} {τ : Ty} {c : Caps} {k : Err} (h : Allowed k) : SoundRes env τ c (.error k) := h

section nodes
variable {Γ : TEnv} {env : Env}

theorem isActionEntity_ne_empty {t : String} (h : isActionEntity t = true) : t ≠ "" := by
  intro h0; subst h0; exact absurd h (by decide)

theorem typeOfEntityUID_inv {ty i : String} {t : Ty} (hn : "" ∉ Γ.entityTypes) (h : typeOfEntityUID Γ ty i = some t) :
    t = .entity [ty] ∧ ty ≠ "" := by
  simp only [typeOfEntityUID] at h
  split at h
  · rename_i hc
    refine ⟨by simpa using h.symm, ?_⟩
    intro h0; subst h0; exact hn (by simpa using hc)
  · split at h
    · rename_i hc
      simp only [Bool.and_eq_true] at hc
      exact ⟨by simpa using h.symm, isActionEntity_ne_empty hc.1⟩
    · simp at h

theorem sound_lit (hΓ : EnvOK Γ env) {v : Value} {caps caps' : Caps} {τ : Ty} (hc : CapsHold env caps)
    (h : typeOf true Γ (.lit v) caps = .ok (τ, caps')) : Sound env τ caps' (eval (.lit v) env) := by
  simp only [typeOf] at h
  split at h
  · rename_i t ht
    simp only [Except.ok.injEq, Prod.mk.injEq] at h
    obtain ⟨rfl, rfl⟩ := h
    refine sound_same hc ?_
    simp only [eval, SoundRes]
    refine ⟨?_, fun _ => hc⟩
    cases v with
    | bool b => cases b <;> simp [typeOfValue] at ht <;> subst ht <;> constructor
    | long n => simp [typeOfValue] at ht; subst ht; constructor
    | str s => simp [typeOfValue] at ht; subst ht; constructor
    | entity ty i =>
      simp only [typeOfValue] at ht
      split at ht
      · rename_i ty' hty
        simp only [Except.ok.injEq] at ht; subst ht
        obtain ⟨this, hne⟩ := typeOfEntityUID_inv hΓ.names.2.2.2 hty
        subst this; exact HasTy.entity (by simp) hne
      · simp at ht
    | _ => simp [typeOfValue] at ht
  · simp at h

theorem sound_var (hΓ : EnvOK Γ env) {x : Var} {caps caps' : Caps} {τ : Ty} (hc : CapsHold env caps)
    (h : typeOf true Γ (.var x) caps = .ok (τ, caps')) : Sound env τ caps' (eval (.var x) env) := by
  simp only [typeOf, Except.ok.injEq, Prod.mk.injEq] at h
  obtain ⟨rfl, rfl⟩ := h
  cases x with
  | principal => obtain ⟨i, hi⟩ := hΓ.principal; refine sound_same hc ?_; simp only [eval, hi, SoundRes, typeOfVar]; exact ⟨HasTy.entity (by simp) hΓ.names.1, fun _ => hc⟩
  | action => have hi := hΓ.action; refine sound_same hc ?_; simp only [eval, hi, SoundRes, typeOfVar]; exact ⟨HasTy.entity (by simp) hΓ.names.2.1, fun _ => hc⟩
  | resource => obtain ⟨i, hi⟩ := hΓ.resource; refine sound_same hc ?_; simp only [eval, hi, SoundRes, typeOfVar]; exact ⟨HasTy.entity (by simp) hΓ.names.2.2.1, fun _ => hc⟩
  | context => obtain ⟨kvs, hk, ht⟩ := hΓ.context; refine sound_same hc ?_; simp only [eval, hk, SoundRes, typeOfVar]; exact ⟨ht, fun _ => hc⟩

/-- one operand evaluated, converted and mapped to a result whose capabilities are the incoming ones -/
theorem soundRes_unary {e : Expr} {t τ : Ty} {c caps : Caps} {f : Value → Res}
    (hs : SoundRes env t c (eval e env)) (hf : ∀ v, HasTy v t → SoundRes env τ caps (f v)) :
    SoundRes env τ caps ((eval e env).bind f) := by
  cases hev : eval e env with
  | error k => rw [hev] at hs; exact hs
  | ok v => rw [hev] at hs; exact hf v hs.1

theorem sound_not {e : Expr} {caps caps' : Caps} {τ : Ty}
    (ih : ∀ τ c', typeOf true Γ e caps = .ok (τ, c') → Sound env τ c' (eval e env)) (hc : CapsHold env caps)
    (h : typeOf true Γ (.unop .not e) caps = .ok (τ, caps')) : Sound env τ caps' (eval (.unop .not e) env) := by
  simp only [typeOf] at h
  split at h
  · simp at h
  · rename_i t c heq
    have hs := (ih _ _ heq).2
    have hev : eval (.unop .not e) env = (eval e env).bind (fun v => (toBool v).bind fun b => .ok (.bool (!b))) := by
      simp only [eval, bind, Except.bind]; cases eval e env <;> rfl
    rw [hev]
    split at h <;> simp at h <;> obtain ⟨rfl, rfl⟩ := h <;> refine sound_same hc (soundRes_unary hs ?_) <;>
      intro v hv <;> cases hv <;> simp [SoundRes, Except.bind, toBool, hc] <;> constructor

theorem sound_neg {e : Expr} {caps caps' : Caps} {τ : Ty}
    (ih : ∀ τ c', typeOf true Γ e caps = .ok (τ, c') → Sound env τ c' (eval e env)) (hc : CapsHold env caps)
    (h : typeOf true Γ (.unop .neg e) caps = .ok (τ, caps')) : Sound env τ caps' (eval (.unop .neg e) env) := by
  simp only [typeOf] at h
  split at h
  · simp at h
  · rename_i t c heq
    have hs := (ih _ _ heq).2
    have hev : eval (.unop .neg e) env = (eval e env).bind (fun v => (toLong v).bind fun n =>
        if (checkedNeg n).2 then .ok (.long (checkedNeg n).1) else .error .overflow) := by
      simp only [eval, bind, Except.bind]; cases eval e env <;> rfl
    rw [hev]
    split at h <;> simp at h <;> obtain ⟨rfl, rfl⟩ := h <;> refine sound_same hc (soundRes_unary hs ?_) <;>
      intro v hv <;> cases hv
    simp only [Except.bind, toLong]
    split
    · exact ⟨HasTy.long _, fun _ => hc⟩
    · simp [SoundRes, Allowed]

theorem sound_isEmpty {e : Expr} {caps caps' : Caps} {τ : Ty}
    (ih : ∀ τ c', typeOf true Γ e caps = .ok (τ, c') → Sound env τ c' (eval e env)) (hc : CapsHold env caps)
    (h : typeOf true Γ (.unop .isEmpty e) caps = .ok (τ, caps')) : Sound env τ caps' (eval (.unop .isEmpty e) env) := by
  simp only [typeOf] at h
  split at h
  · simp at h
  · rename_i t c heq
    have hs := (ih _ _ heq).2
    have hev : eval (.unop .isEmpty e) env = (eval e env).bind (fun v => (toSet v).bind fun s => .ok (.bool s.isEmpty)) := by
      simp only [eval, bind, Except.bind]; cases eval e env <;> rfl
    rw [hev]
    split at h <;> simp at h
    obtain ⟨rfl, rfl⟩ := h
    rename_i hset
    refine sound_same hc (soundRes_unary hs ?_)
    intro v hv
    cases hv <;> simp [isSetTy] at hset
    simp [SoundRes, Except.bind, toSet, hc]; constructor

theorem sound_like {e : Expr} {p : Pattern} {caps caps' : Caps} {τ : Ty}
    (ih : ∀ τ c', typeOf true Γ e caps = .ok (τ, c') → Sound env τ c' (eval e env)) (hc : CapsHold env caps)
    (h : typeOf true Γ (.like e p) caps = .ok (τ, caps')) : Sound env τ caps' (eval (.like e p) env) := by
  simp only [typeOf] at h
  split at h
  · simp at h
  · rename_i t c heq
    have hs := (ih _ _ heq).2
    have hev : eval (.like e p) env = (eval e env).bind (fun v => (toStr v).bind fun s => .ok (.bool (Pattern.matches p s))) := by
      simp only [eval, bind, Except.bind]; cases eval e env <;> rfl
    rw [hev]
    split at h <;> simp at h
    obtain ⟨rfl, rfl⟩ := h
    refine sound_same hc (soundRes_unary hs ?_)
    intro v hv
    cases hv
    simp [SoundRes, Except.bind, toStr, hc]; constructor

end nodes

/-! ## Least upper bounds preserve typing (both operands) -/

theorem lookupAttr_append (k : String) (a b : Attrs) :
    lookupAttr k (a ++ b) = match lookupAttr k a with | some x => some x | none => lookupAttr k b := by
  induction a with
  | nil => simp [lookupAttr]
  | cons x xs ih =>
    obtain ⟨k', t, r⟩ := x
    simp only [List.cons_append, lookupAttr]
    split <;> simp [ih]

theorem lookupAttr_extra (k : String) (ra rb : Attrs) :
    lookupAttr k ((rb.filter (fun x => !hasKey x.1 ra)).map (fun x => (x.1, x.2.1, false))) =
      if hasKey k ra then none else (lookupAttr k rb).map (fun x => (x.1, false)) := by
  induction rb with
  | nil => simp [lookupAttr]
  | cons x xs ih =>
    obtain ⟨k', t, r⟩ := x
    simp only [List.filter_cons]
    by_cases hk : k = k'
    · subst hk
      by_cases hin : hasKey k ra = true
      · simp [hin, ih]
      · simp [hin, lookupAttr]
    · by_cases hin : hasKey k' ra = true
      · simp [hin, ih, lookupAttr, hk]
      · simp [hin, ih, lookupAttr, hk]

mutual
theorem lub_sound_left (s : Bool) : ∀ (a b c : Ty) (v : Value), lub true s a b = some c → HasTy v a → HasTy v c
  | .nil, b, c, v, h, hv => by cases hv
  | .never, b, c, v, h, hv => by cases hv
  | .tt, b, c, v, h, hv => by cases hv; cases b <;> simp [lub] at h <;> subst h <;> constructor
  | .ff, b, c, v, h, hv => by cases hv; cases b <;> simp [lub] at h <;> subst h <;> constructor
  | .bool, b, c, v, h, hv => by cases hv; cases b <;> simp [lub] at h <;> subst h <;> constructor
  | .long, b, c, v, h, hv => by cases hv; cases b <;> simp [lub] at h <;> subst h <;> constructor
  | .string, b, c, v, h, hv => by cases hv; cases b <;> simp [lub] at h <;> subst h <;> constructor
  | .ext x, b, c, v, h, hv => by
    cases b <;> simp [lub] at h
    · subst h; exact hv
    · obtain ⟨_, rfl⟩ := h; exact hv
  | .entity ts, b, c, v, h, hv => by
    cases b <;> simp [lub] at h
    · subst h; exact hv
    · subst h
      cases hv with
      | entity hm hne => exact HasTy.entity (mem_unionTys.mpr (.inl hm)) hne
  | .set ea, b, c, v, h, hv => by
    cases b <;> simp [lub] at h
    · subst h; exact hv
    · rename_i eb
      obtain ⟨c', hc', rfl⟩ := h
      cases hv; rename_i xs hx
      exact HasTy.set (fun x hxm => lub_sound_left s ea eb c' x hc' (hx x hxm))
  | .record ra, b, c, v, h, hv => by
    cases b <;> simp [lub] at h
    · subst h; exact hv
    · rename_i rb
      obtain ⟨_, h⟩ := h
      split at h
      · simp at h
      · rename_i r hr
        simp only [Option.some.injEq] at h; subst h
        cases hv; rename_i kvs h1 h2 h3
        have key := lubAttrs_left s ra rb r hr
        refine HasTy.record ?_ ?_ ?_
        · intro k v t req hkv hl
          have hk := key k
          have hsome := h2 k v hkv
          cases hla : lookupAttr k ra with
          | none => simp [hla] at hsome
          | some p =>
            obtain ⟨ta, qa⟩ := p
            rw [hla] at hk
            obtain ⟨t', q', hl', _, hty⟩ := hk
            rw [lookupAttr_append, hl'] at hl
            simp only [Option.some.injEq, Prod.mk.injEq] at hl
            obtain ⟨rfl, rfl⟩ := hl
            exact hty v (h1 k v ta qa hkv hla)
        · intro k v hkv
          have hk := key k
          have hsome := h2 k v hkv
          cases hla : lookupAttr k ra with
          | none => simp [hla] at hsome
          | some p =>
            obtain ⟨ta, qa⟩ := p
            rw [hla] at hk
            obtain ⟨t', q', hl', _, hty⟩ := hk
            rw [lookupAttr_append, hl']; rfl
        · intro k t hl
          have hk := key k
          cases hla : lookupAttr k ra with
          | none =>
            rw [hla] at hk
            rw [lookupAttr_append, hk, lookupAttr_extra] at hl
            simp only at hl
            split at hl
            · simp at hl
            · cases hlb : lookupAttr k rb <;> simp [hlb] at hl
          | some p =>
            obtain ⟨ta, qa⟩ := p
            rw [hla] at hk
            obtain ⟨t', q', hl', hq, hty⟩ := hk
            rw [lookupAttr_append, hl'] at hl
            simp only [Option.some.injEq, Prod.mk.injEq] at hl
            obtain ⟨rfl, rfl⟩ := hl
            have := hq rfl; subst this
            exact h3 k ta hla
theorem lubAttrs_left (s : Bool) : ∀ (ra rb r : Attrs), lubAttrs true s ra rb = some r →
    ∀ k, match lookupAttr k ra with
      | none => lookupAttr k r = none
      | some (ta, qa) => ∃ t q, lookupAttr k r = some (t, q) ∧ (q = true → qa = true) ∧ (∀ v, HasTy v ta → HasTy v t)
  | [], rb, r, h, k => by simp [lubAttrs] at h; subst h; simp [lookupAttr]
  | (k0, ta, qa) :: rest, rb, r, h, k => by
    simp only [lubAttrs] at h
    split at h
    · -- k0 not in rb
      cases hrest : lubAttrs true s rest rb with
      | none => simp [hrest] at h
      | some r' =>
        simp [hrest] at h; subst h
        have ih := lubAttrs_left s rest rb r' hrest k
        by_cases hk : k = k0
        · subst hk; simp only [lookupAttr, beq_self_eq_true, if_true]
          exact ⟨ta, false, rfl, by simp, fun v hv => hv⟩
        · simpa [lookupAttr, hk] using ih
    · rename_i tb qb hlb
      split at h
      · rename_i t hlub
        cases hrest : lubAttrs true s rest rb with
        | none => simp [hrest] at h
        | some r' =>
          simp [hrest] at h; subst h
          have ih := lubAttrs_left s rest rb r' hrest k
          by_cases hk : k = k0
          · subst hk; simp only [lookupAttr, beq_self_eq_true, if_true]
            exact ⟨t, qa && qb, rfl, by simp; intro h _; exact h, fun v hv => lub_sound_left s ta tb t v hlub hv⟩
          · simpa [lookupAttr, hk] using ih
      · simp at h
end


theorem hasKey_iff (k : String) (as : Attrs) : hasKey k as = (lookupAttr k as).isSome := rfl

mutual
theorem lub_sound_right (s : Bool) : ∀ (a b c : Ty) (v : Value), lub true s a b = some c → HasTy v b → HasTy v c
  | .nil, b, c, v, h, hv => by cases hv <;> simp [lub] at h
  | .never, b, c, v, h, hv => by cases b <;> simp [lub] at h <;> subst h <;> exact hv
  | .tt, b, c, v, h, hv => by cases b <;> simp [lub] at h <;> subst h <;> cases hv <;> constructor
  | .ff, b, c, v, h, hv => by cases b <;> simp [lub] at h <;> subst h <;> cases hv <;> constructor
  | .bool, b, c, v, h, hv => by cases b <;> simp [lub] at h <;> subst h <;> cases hv <;> constructor
  | .long, b, c, v, h, hv => by cases b <;> simp [lub] at h <;> subst h <;> cases hv <;> constructor
  | .string, b, c, v, h, hv => by cases b <;> simp [lub] at h <;> subst h <;> cases hv <;> constructor
  | .ext x, b, c, v, h, hv => by
    cases b <;> simp [lub] at h
    · cases hv
    · obtain ⟨rfl, rfl⟩ := h; exact hv
  | .entity ts, b, c, v, h, hv => by
    cases b <;> simp [lub] at h
    · cases hv
    · subst h
      cases hv with
      | @entity ty id ts' hm hne => exact HasTy.entity (mem_unionTys.mpr (.inr hm)) hne
  | .set ea, b, c, v, h, hv => by
    cases b <;> simp [lub] at h
    · cases hv
    · rename_i eb
      obtain ⟨c', hc', rfl⟩ := h
      cases hv; rename_i xs hx
      exact HasTy.set (fun x hxm => lub_sound_right s ea eb c' x hc' (hx x hxm))
  | .record ra, b, c, v, h, hv => by
    cases b <;> simp [lub] at h
    · cases hv
    · rename_i rb
      obtain ⟨_, h⟩ := h
      split at h
      · simp at h
      · rename_i r hr
        simp only [Option.some.injEq] at h; subst h
        cases hv; rename_i kvs h1 h2 h3
        have key := lubAttrs_right s ra rb r hr
        refine HasTy.record ?_ ?_ ?_
        · intro k v t req hkv hl
          have hk := key k
          have hsome := h2 k v hkv
          cases hlb : lookupAttr k rb with
          | none => simp [hlb] at hsome
          | some p =>
            obtain ⟨tb, qb⟩ := p
            rw [hlb] at hk
            cases hla : lookupAttr k ra with
            | none =>
              rw [hla] at hk; simp only at hk
              rw [lookupAttr_append, hk, lookupAttr_extra] at hl
              simp [hasKey_iff, hla, hlb] at hl
              obtain ⟨rfl, rfl⟩ := hl
              exact h1 k v tb qb hkv hlb
            | some pa =>
              rw [hla] at hk; simp only at hk
              obtain ⟨t', q', hl', _, hty⟩ := hk
              rw [lookupAttr_append, hl'] at hl
              simp only [Option.some.injEq, Prod.mk.injEq] at hl
              obtain ⟨rfl, rfl⟩ := hl
              exact hty v (h1 k v tb qb hkv hlb)
        · intro k v hkv
          have hk := key k
          have hsome := h2 k v hkv
          cases hlb : lookupAttr k rb with
          | none => simp [hlb] at hsome
          | some p =>
            obtain ⟨tb, qb⟩ := p
            rw [hlb] at hk
            cases hla : lookupAttr k ra with
            | none =>
              rw [hla] at hk; simp only at hk
              rw [lookupAttr_append, hk, lookupAttr_extra]
              simp [hasKey_iff, hla, hlb]
            | some pa =>
              rw [hla] at hk; simp only at hk
              obtain ⟨t', q', hl', _, hty⟩ := hk
              rw [lookupAttr_append, hl']; rfl
        · intro k t hl
          have hk := key k
          cases hla : lookupAttr k ra with
          | none =>
            rw [hla] at hk; simp only at hk
            have hk' : lookupAttr k r = none := hk
            rw [lookupAttr_append, hk', lookupAttr_extra] at hl
            simp only at hl
            split at hl
            · simp at hl
            · cases hlb : lookupAttr k rb <;> simp [hlb] at hl
          | some pa =>
            rw [hla] at hk
            cases hlb : lookupAttr k rb with
            | none =>
              rw [hlb] at hk; simp only at hk
              rw [lookupAttr_append, hk] at hl
              simp at hl
            | some p =>
              obtain ⟨tb, qb⟩ := p
              rw [hlb] at hk; simp only at hk
              obtain ⟨t', q', hl', hq, hty⟩ := hk
              rw [lookupAttr_append, hl'] at hl
              simp only [Option.some.injEq, Prod.mk.injEq] at hl
              obtain ⟨rfl, rfl⟩ := hl
              have := hq rfl; subst this
              exact h3 k tb hlb
theorem lubAttrs_right (s : Bool) : ∀ (ra rb r : Attrs), lubAttrs true s ra rb = some r →
    ∀ k, match lookupAttr k ra, lookupAttr k rb with
      | none, _ => lookupAttr k r = none
      | some (ta, _), none => lookupAttr k r = some (ta, false)
      | some _, some (tb, qb) => ∃ t q, lookupAttr k r = some (t, q) ∧ (q = true → qb = true) ∧ (∀ v, HasTy v tb → HasTy v t)
  | [], rb, r, h, k => by simp [lubAttrs] at h; subst h; simp [lookupAttr]
  | (k0, ta, qa) :: rest, rb, r, h, k => by
    simp only [lubAttrs] at h
    split at h
    · -- k0 not in rb
      rename_i hlb0
      cases hrest : lubAttrs true s rest rb with
      | none => simp [hrest] at h
      | some r' =>
        simp [hrest] at h; subst h
        have ih := lubAttrs_right s rest rb r' hrest k
        by_cases hk : k = k0
        · subst hk; simp [lookupAttr, hlb0]
        · simpa [lookupAttr, hk] using ih
    · rename_i tb qb hlb0
      split at h
      · rename_i t hlub
        cases hrest : lubAttrs true s rest rb with
        | none => simp [hrest] at h
        | some r' =>
          simp [hrest] at h; subst h
          have ih := lubAttrs_right s rest rb r' hrest k
          by_cases hk : k = k0
          · subst hk; simp only [lookupAttr, beq_self_eq_true, if_true, hlb0]
            exact ⟨t, qa && qb, rfl, by simp, fun v hv => lub_sound_right s ta tb t v hlub hv⟩
          · simpa [lookupAttr, hk] using ih
      · simp at h
end



/-! ## Boolean connectives with capability propagation -/

abbrev IH (Γ : TEnv) (env : Env) (e : Expr) : Prop :=
  ∀ caps₁ τ c', CapsHold env caps₁ → typeOf true Γ e caps₁ = .ok (τ, c') → Sound env τ c' (eval e env)

theorem lub_tt_never {d s : Bool} {a b c : Ty} (h : lub d s a b = some c) (hc : c = .tt ∨ c = .never) :
    b = .tt ∨ b = .never := by
  cases a <;> cases b <;> simp [lub] at h <;> (try subst h) <;> simp at hc ⊢
  · obtain ⟨a, _, rfl⟩ := h; simp at hc
  · obtain ⟨_, h⟩ := h
    split at h <;> simp at h
    subst h; simp at hc
  · obtain ⟨_, rfl⟩ := h; simp at hc

theorem soundRes_to_bool {env : Env} {τ : Ty} {c : Caps} {r : Res} (hb : isBoolTy τ = true) (h : SoundRes env τ c r) :
    SoundRes env .bool c r := by
  cases r with
  | error k => exact h
  | ok v => obtain ⟨b, rfl⟩ := hasTy_boolish hb h.1; exact ⟨HasTy.bool _, h.2⟩

section nodes2
variable {Γ : TEnv} {env : Env}

theorem sound_and {l r : Expr} {caps caps' : Caps} {τ : Ty} (ihl : IH Γ env l) (ihr : IH Γ env r) (hc : CapsHold env caps)
    (h : typeOf true Γ (.binop .and l r) caps = .ok (τ, caps')) : Sound env τ caps' (eval (.binop .and l r) env) := by
  have hev : eval (.binop .and l r) env = (eval l env).bind (fun v => (toBool v).bind fun b =>
      if !b then .ok v else (eval r env).bind fun v' => (toBool v').bind fun _ => .ok v') := by
    simp only [eval, bind, Except.bind]
  rw [hev]
  simp only [typeOf] at h
  split at h
  · simp at h
  · rename_i lt lCaps hl
    have hsl := ihl _ _ _ hc hl
    split at h
    · simp at h
    · rename_i hb
      have hbl : isBoolTy lt = true := by simpa using hb
      split at h
      · -- left operand of type False: the right one is not type-checked
        split at h <;> simp at h
        obtain ⟨rfl, rfl⟩ := h
        refine sound_same hc (soundRes_bind hsl.2 ?_)
        intro v hv _; cases hv
        simp [SoundRes, Except.bind, toBool]; constructor
      · split at h
        · simp at h
        · rename_i rt rCaps hr
          split at h
          · simp at h
          · rename_i hbr
            have hbr' : isBoolTy rt = true := by simpa using hbr
            -- evaluation of the right operand, given that the left one evaluated to true
            have hright : ∀ (hl : CapsHold env lCaps), SoundRes env rt rCaps ((eval r env).bind fun v' => (toBool v').bind fun _ => .ok v') := by
              intro hlc
              have hsr := ihr _ _ _ (capsHold_merge hc hlc) hr
              refine soundRes_bind hsr.2 ?_
              intro v' hv' hc'
              obtain ⟨b', rfl⟩ := hasTy_boolish hbr' hv'
              exact ⟨hv', hc'⟩
            split at h <;> simp at h <;> obtain ⟨rfl, rfl⟩ := h
            · -- left True: result is the right operand's
              have hlc := hsl.1 (.inl rfl)
              refine ⟨fun ht => (ihr _ _ _ (capsHold_merge hc hlc) hr).1 ht, soundRes_bind hsl.2 ?_⟩
              intro v hv _; cases hv
              simpa [Except.bind, toBool] using hright hlc
            · -- right False
              refine ⟨by simp, soundRes_bind hsl.2 ?_⟩
              intro v hv hcv
              obtain ⟨b, rfl⟩ := hasTy_boolish hbl hv
              cases b with
              | false => simp [SoundRes, Except.bind, toBool]; constructor
              | true => simpa [Except.bind, toBool] using hright (hcv rfl)
            · refine ⟨by simp, soundRes_bind hsl.2 ?_⟩
              intro v hv hcv
              obtain ⟨b, rfl⟩ := hasTy_boolish hbl hv
              cases b with
              | false => simp [SoundRes, Except.bind, toBool]; constructor
              | true => simpa [Except.bind, toBool] using soundRes_to_bool hbr' (hright (hcv rfl))

theorem sound_or {l r : Expr} {caps caps' : Caps} {τ : Ty} (ihl : IH Γ env l) (ihr : IH Γ env r) (hc : CapsHold env caps)
    (h : typeOf true Γ (.binop .or l r) caps = .ok (τ, caps')) : Sound env τ caps' (eval (.binop .or l r) env) := by
  have hev : eval (.binop .or l r) env = (eval l env).bind (fun v => (toBool v).bind fun b =>
      if b then .ok v else (eval r env).bind fun v' => (toBool v').bind fun _ => .ok v') := by
    simp only [eval, bind, Except.bind]
  rw [hev]
  simp only [typeOf] at h
  split at h
  · simp at h
  · rename_i lt lCaps hl
    have hsl := ihl _ _ _ hc hl
    split at h
    · simp at h
    · rename_i hb
      have hbl : isBoolTy lt = true := by simpa using hb
      split at h
      · -- left operand of type True: the right one is not type-checked
        split at h <;> simp at h
        obtain ⟨rfl, rfl⟩ := h
        refine ⟨fun _ => hsl.1 (.inl rfl), soundRes_bind hsl.2 ?_⟩
        intro v hv hcv; cases hv
        simp only [Except.bind, toBool, if_true]
        exact ⟨HasTy.tt, hcv⟩
      · split at h
        · simp at h
        · rename_i rt rCaps hr
          have hsr := ihr _ _ _ hc hr
          split at h
          · simp at h
          · rename_i hbr
            have hbr' : isBoolTy rt = true := by simpa using hbr
            have hright : SoundRes env rt rCaps ((eval r env).bind fun v' => (toBool v').bind fun _ => .ok v') := by
              refine soundRes_bind hsr.2 ?_
              intro v' hv' hc'
              obtain ⟨b', rfl⟩ := hasTy_boolish hbr' hv'
              exact ⟨hv', hc'⟩
            split at h <;> simp at h <;> obtain ⟨rfl, rfl⟩ := h
            · -- left False: result is the right operand's
              refine ⟨hsr.1, soundRes_bind hsl.2 ?_⟩
              intro v hv _; cases hv
              simpa [Except.bind, toBool] using hright
            · -- right True (the capabilities of a True-typed operand hold even if it is not evaluated)
              have hrc := hsr.1 (.inl rfl)
              refine ⟨fun _ => hrc, soundRes_bind hsl.2 ?_⟩
              intro v hv hcv
              obtain ⟨b, rfl⟩ := hasTy_boolish hbl hv
              cases b with
              | true => simp only [Except.bind, toBool, if_true]; exact ⟨HasTy.tt, fun _ => hrc⟩
              | false =>
                simp only [Except.bind, toBool, Bool.false_eq_true, if_false]
                cases hr' : eval r env with
                | error k => have := hsr.2; rw [hr'] at this; exact this
                | ok v' =>
                  have := hsr.2; rw [hr'] at this
                  cases this.1
                  exact ⟨HasTy.tt, fun _ => hrc⟩
            · -- right False: result is the left operand's
              refine ⟨hsl.1, soundRes_bind hsl.2 ?_⟩
              intro v hv hcv
              obtain ⟨b, rfl⟩ := hasTy_boolish hbl hv
              cases b with
              | true => simp only [Except.bind, toBool, if_true]; exact ⟨hv, hcv⟩
              | false =>
                simp only [Except.bind, toBool, Bool.false_eq_true, if_false]
                cases hr' : eval r env with
                | error k => have := hsr.2; rw [hr'] at this; exact this
                | ok v' =>
                  have := hsr.2; rw [hr'] at this
                  cases this.1
                  exact ⟨hv, by simp⟩
            · refine ⟨by simp, soundRes_bind hsl.2 ?_⟩
              intro v hv hcv
              obtain ⟨b, rfl⟩ := hasTy_boolish hbl hv
              cases b with
              | true => simp only [Except.bind, toBool, if_true]; exact ⟨HasTy.bool _, fun h => capsHold_intersect_left (hcv h)⟩
              | false =>
                simp only [Except.bind, toBool, Bool.false_eq_true, if_false]
                cases hr' : eval r env with
                | error k => have := hsr.2; rw [hr'] at this; exact this
                | ok v' =>
                  have := hsr.2; rw [hr'] at this
                  obtain ⟨b', rfl⟩ := hasTy_boolish hbr' this.1
                  exact ⟨HasTy.bool _, fun h => capsHold_intersect_right (this.2 h)⟩

theorem sound_ite {c t e : Expr} {caps caps' : Caps} {τ : Ty} (ihc : IH Γ env c) (iht : IH Γ env t) (ihe : IH Γ env e)
    (hc : CapsHold env caps)
    (h : typeOf true Γ (.ite c t e) caps = .ok (τ, caps')) : Sound env τ caps' (eval (.ite c t e) env) := by
  have hev : eval (.ite c t e) env = (eval c env).bind (fun v => (toBool v).bind fun b =>
      if b then eval t env else eval e env) := by
    simp only [eval, bind, Except.bind]; cases eval c env <;> rfl
  rw [hev]
  simp only [typeOf] at h
  split at h
  · simp at h
  · rename_i ct cCaps hct
    have hsc := ihc _ _ _ hc hct
    split at h
    · -- condition of type False: only the else branch is type-checked
      split at h
      · simp at h
      · have hse := ihe _ _ _ hc h
        refine ⟨hse.1, soundRes_bind hsc.2 ?_⟩
        intro v hv _; cases hv
        simpa [Except.bind, toBool] using hse.2
    · split at h
      · simp at h
      · have hst := iht _ _ _ (capsHold_merge hc (hsc.1 (.inl rfl))) h
        refine ⟨hst.1, soundRes_bind hsc.2 ?_⟩
        intro v hv _; cases hv
        simpa [Except.bind, toBool] using hst.2
    · split at h
      · simp at h
      · rename_i hbn
        split at h
        · simp at h
        · rename_i tt' tCaps htt
          split at h
          · simp at h
          · rename_i et eCaps het
            have hse := ihe _ _ _ hc het
            split at h
            · simp at h
            · split at h
              · simp at h
              · rename_i res hlub
                simp only [Except.ok.injEq, Prod.mk.injEq] at h
                obtain ⟨rfl, rfl⟩ := h
                refine ⟨fun hres => capsHold_intersect_right (hse.1 (lub_tt_never hlub hres)), soundRes_bind hsc.2 ?_⟩
                intro v hv hcv
                have hb : ∃ b, v = .bool b := by
                  cases hv <;> simp [isBoolTy, Ty.isNil] at hbn <;> exact ⟨_, rfl⟩
                obtain ⟨b, rfl⟩ := hb
                cases b with
                | true =>
                  have hst := iht _ _ _ (capsHold_merge hc (hcv rfl)) htt
                  simp only [Except.bind, toBool, if_true]
                  cases hr' : eval t env with
                  | error k => have := hst.2; rw [hr'] at this; exact this
                  | ok v' =>
                    have := hst.2; rw [hr'] at this
                    exact ⟨lub_sound_left _ _ _ _ _ hlub this.1, fun h => capsHold_intersect_left (this.2 h)⟩
                | false =>
                  simp only [Except.bind, toBool, Bool.false_eq_true, if_false]
                  cases hr' : eval e env with
                  | error k => have := hse.2; rw [hr'] at this; exact this
                  | ok v' =>
                    have := hse.2; rw [hr'] at this
                    exact ⟨lub_sound_right _ _ _ _ _ hlub this.1, fun h => capsHold_intersect_right (this.2 h)⟩

end nodes2

/-! ## Equality, comparison, arithmetic, set membership -/


section nodes3
variable {Γ : TEnv} {env : Env}

theorem foldTy_hasTy (b neg : Bool) : HasTy (.bool (if neg then !b else b)) (foldTy b neg) := by
  cases b <;> cases neg <;> simp [foldTy] <;> constructor

theorem generalEq_sound {lt rt t : Ty} {neg : Bool} {a b : Value}
    (heq : generalEq true Γ lt rt neg = .ok t) (ha : HasTy a lt) (hb : HasTy b rt) :
    HasTy (.bool (if neg then !(a.beq b) else a.beq b)) t := by
  unfold generalEq at heq
  split at heq
  · rename_i hdis
    simp only [Except.ok.injEq] at heq; subst heq
    have hab : a.beq b = false := by
      cases ha <;> cases hb <;> simp [areTypesDisjoint] at hdis
      rename_i hta _ _ _ _ htb _
      simp only [Value.beq, Bool.and_eq_false_imp, beq_iff_eq]
      intro hEq; subst hEq
      simp only [disjointTys, List.all_eq_true] at hdis
      have := hdis _ hta
      simp [htb] at this
    rw [hab]; exact foldTy_hasTy false neg
  · split at heq
    · simp at heq
    · simp only [Except.ok.injEq] at heq; subst heq; exact HasTy.bool _

theorem equalityType_sound (hΓ : EnvOK Γ env) {l r : Expr} {lt rt t : Ty} {neg : Bool} {a b : Value}
    (heq : equalityType true Γ l r lt rt neg = .ok t) (hl : eval l env = .ok a) (hr : eval r env = .ok b)
    (ha : HasTy a lt) (hb : HasTy b rt) : HasTy (.bool (if neg then !(a.beq b) else a.beq b)) t := by
  unfold equalityType at heq
  split at heq
  · rename_i x y
    split at heq
    · rename_i hxy
      have hxy' : x = y := by simpa using hxy
      subst hxy'
      split at heq
      · simp at heq
      · rename_i hctx
        simp only [Except.ok.injEq] at heq; subst heq
        have hab : a.beq b = true := by
          cases x
          · obtain ⟨i, hi⟩ := hΓ.principal; simp [eval, hi] at hl hr; subst hl; subst hr; simp [Value.beq]
          · have hi := hΓ.action; simp [eval, hi] at hl hr; subst hl; subst hr; simp [Value.beq]
          · obtain ⟨i, hi⟩ := hΓ.resource; simp [eval, hi] at hl hr; subst hl; subst hr; simp [Value.beq]
          · simp at hctx
        rw [hab]; exact foldTy_hasTy true neg
    · exact generalEq_sound heq ha hb
  · simp only [Except.ok.injEq] at heq; subst heq
    simp only [eval, Except.ok.injEq] at hl hr; subst hl; subst hr
    exact foldTy_hasTy _ neg
  · exact generalEq_sound heq ha hb

theorem sound_eq (hΓ : EnvOK Γ env) {l r : Expr} {caps caps' : Caps} {τ : Ty} {neg : Bool} (ihl : IH Γ env l) (ihr : IH Γ env r)
    (hc : CapsHold env caps)
    (h : typeOf true Γ (.binop (if neg then .ne else .eq) l r) caps = .ok (τ, caps')) :
    Sound env τ caps' (eval (.binop (if neg then .ne else .eq) l r) env) := by
  cases neg <;> simp only [Bool.false_eq_true, if_false, if_true, typeOf] at h ⊢
  all_goals
    split at h
    · simp at h
    · rename_i lt lc hl
      have hsl := (ihl _ _ _ hc hl).2
      split at h
      · simp at h
      · rename_i rt rc hr
        have hsr := (ihr _ _ _ hc hr).2
        split at h
        · rename_i t heq
          simp only [Except.ok.injEq, Prod.mk.injEq] at h
          obtain ⟨rfl, rfl⟩ := h
          refine sound_same hc ?_
          simp only [eval]
          cases hel : eval l env with
          | error k => rw [hel] at hsl; simpa [SoundRes, bind, Except.bind] using hsl
          | ok a =>
            rw [hel] at hsl
            cases her : eval r env with
            | error k => rw [her] at hsr; simpa [SoundRes, bind, Except.bind] using hsr
            | ok b =>
              rw [her] at hsr
              have := equalityType_sound hΓ heq hel her hsl.1 hsr.1
              simp only [bind, Except.bind, SoundRes]
              exact ⟨by simpa using this, fun _ => hc⟩
        · simp at h

theorem sound_arith {op : BinOp} (hop : op = .add ∨ op = .sub ∨ op = .mul) {l r : Expr} {caps caps' : Caps} {τ : Ty}
    (ihl : IH Γ env l) (ihr : IH Γ env r) (hc : CapsHold env caps)
    (h : typeOf true Γ (.binop op l r) caps = .ok (τ, caps')) : Sound env τ caps' (eval (.binop op l r) env) := by
  rcases hop with rfl | rfl | rfl <;> simp only [typeOf, arithResult] at h
  all_goals
    split at h
    · simp at h
    · rename_i lt lc hl
      have hsl := (ihl _ _ _ hc hl).2
      split at h
      · simp at h
      · rename_i rt rc hr
        have hsr := (ihr _ _ _ hc hr).2
        split at h <;> simp at h
        obtain ⟨rfl, rfl⟩ := h
        refine sound_same hc ?_
        simp only [eval]
        cases hel : eval l env with
        | error k => rw [hel] at hsl; simpa [SoundRes, bind, Except.bind] using hsl
        | ok a =>
          rw [hel] at hsl
          cases hsl.1
          cases her : eval r env with
          | error k => rw [her] at hsr; simpa [SoundRes, bind, Except.bind, toLong] using hsr
          | ok b =>
            rw [her] at hsr
            cases hsr.1
            simp only [bind, Except.bind, toLong]
            split
            · exact ⟨HasTy.long _, fun _ => hc⟩
            · simp [SoundRes, Allowed]

theorem sound_cmp {op : BinOp} (hop : op = .lt ∨ op = .le ∨ op = .gt ∨ op = .ge) {l r : Expr} {caps caps' : Caps} {τ : Ty}
    (ihl : IH Γ env l) (ihr : IH Γ env r) (hc : CapsHold env caps)
    (h : typeOf true Γ (.binop op l r) caps = .ok (τ, caps')) : Sound env τ caps' (eval (.binop op l r) env) := by
  rcases hop with rfl | rfl | rfl | rfl <;> simp only [typeOf, cmpResult] at h
  all_goals
    split at h
    · simp at h
    · rename_i lt lc hl
      have hsl := (ihl _ _ _ hc hl).2
      split at h
      · simp at h
      · rename_i rt rc hr
        have hsr := (ihr _ _ _ hc hr).2
        split at h <;> simp at h
        obtain ⟨rfl, rfl⟩ := h
        rename_i hsame
        refine sound_same hc ?_
        simp only [eval]
        cases hel : eval l env with
        | error k => rw [hel] at hsl; simpa [SoundRes, bind, Except.bind] using hsl
        | ok a =>
          rw [hel] at hsl
          cases her : eval r env with
          | error k =>
            rw [her] at hsr
            cases hsl.1 <;> simp [sameComparable] at hsame <;> simpa [SoundRes, bind, Except.bind, toComparable] using hsr
          | ok b =>
            rw [her] at hsr
            cases hsl.1 <;> cases hsr.1 <;> simp [sameComparable] at hsame <;>
              simp [SoundRes, bind, Except.bind, toComparable, cmpLT, cmpLE, hc] <;> constructor

theorem sound_contains {l r : Expr} {caps caps' : Caps} {τ : Ty}
    (ihl : IH Γ env l) (ihr : IH Γ env r) (hc : CapsHold env caps)
    (h : typeOf true Γ (.binop .contains l r) caps = .ok (τ, caps')) : Sound env τ caps' (eval (.binop .contains l r) env) := by
  simp only [typeOf] at h
  split at h
  · simp at h
  · rename_i lt lc hl
    have hsl := (ihl _ _ _ hc hl).2
    split at h
    · simp at h
    · rename_i rt rc hr
      have hsr := (ihr _ _ _ hc hr).2
      split at h
      · split at h <;> simp at h
        obtain ⟨rfl, rfl⟩ := h
        refine sound_same hc ?_
        simp only [eval]
        cases hel : eval l env with
        | error k => rw [hel] at hsl; simpa [SoundRes, bind, Except.bind] using hsl
        | ok a =>
          rw [hel] at hsl
          cases hsl.1
          cases her : eval r env with
          | error k => rw [her] at hsr; simpa [SoundRes, bind, Except.bind, toSet] using hsr
          | ok b => simp [SoundRes, bind, Except.bind, toSet, hc]; constructor
      · simp at h

theorem sound_containsAA {op : BinOp} (hop : op = .containsAll ∨ op = .containsAny) {l r : Expr} {caps caps' : Caps} {τ : Ty}
    (ihl : IH Γ env l) (ihr : IH Γ env r) (hc : CapsHold env caps)
    (h : typeOf true Γ (.binop op l r) caps = .ok (τ, caps')) : Sound env τ caps' (eval (.binop op l r) env) := by
  rcases hop with rfl | rfl <;> simp only [typeOf, containsAAResult] at h
  all_goals
    split at h
    · simp at h
    · rename_i lt lc hl
      have hsl := (ihl _ _ _ hc hl).2
      split at h
      · simp at h
      · rename_i rt rc hr
        have hsr := (ihr _ _ _ hc hr).2
        split at h
        · split at h <;> simp at h
          obtain ⟨rfl, rfl⟩ := h
          refine sound_same hc ?_
          simp only [eval]
          cases hel : eval l env with
          | error k => rw [hel] at hsl; simpa [SoundRes, bind, Except.bind] using hsl
          | ok a =>
            rw [hel] at hsl
            cases hsl.1
            cases her : eval r env with
            | error k => rw [her] at hsr; simpa [SoundRes, bind, Except.bind, toSet] using hsr
            | ok b =>
              rw [her] at hsr
              cases hsr.1
              simp [SoundRes, bind, Except.bind, toSet, hc]; constructor
        · simp at h

end nodes3


/-! ## Capability paths are injective on variable-rooted access chains -/

theorem varNameStr_inj {v w : Var} (h : varNameStr v = varNameStr w) : v = w := by
  cases v <;> cases w <;> first | rfl | (exact absurd h (by decide))

theorem exprCapPath_access {e : Expr} {a : String} (h : exprCapPath e ≠ []) :
    exprCapPath (.access e a) = exprCapPath e ++ [a] := by
  simp [exprCapPath, h]

theorem exprCapPath_access_nil {e : Expr} {a : String} (h : exprCapPath e = []) : exprCapPath (.access e a) = [] := by
  simp [exprCapPath, h]

/-- the length of a path is the number of accesses + 1 -/
theorem exprCapPath_inj : ∀ (e e' : Expr), exprCapPath e = exprCapPath e' → exprCapPath e ≠ [] → e = e'
  | .var v, e', h, hne => by
    cases e' with
    | var w =>
      simp only [exprCapPath, List.cons.injEq, and_true] at h
      rw [varNameStr_inj h]
    | access e2 b =>
      by_cases hp : exprCapPath e2 = []
      · rw [exprCapPath_access_nil hp] at h; simp [exprCapPath] at h
      · rw [exprCapPath_access hp] at h
        have hl := congrArg List.length h
        simp only [exprCapPath, List.length_cons, List.length_nil, List.length_append] at hl
        have : (exprCapPath e2).length ≠ 0 := fun h0 => hp (List.length_eq_zero_iff.mp h0)
        omega
    | _ => simp [exprCapPath] at h
  | .access e1 a, e', h, hne => by
    have hp1 : exprCapPath e1 ≠ [] := by
      intro hp; exact hne (exprCapPath_access_nil hp)
    rw [exprCapPath_access hp1] at h
    cases e' with
    | var w =>
      have hl := congrArg List.length h
      simp only [exprCapPath, List.length_cons, List.length_nil, List.length_append] at hl
      have : (exprCapPath e1).length ≠ 0 := fun h0 => hp1 (List.length_eq_zero_iff.mp h0)
      omega
    | access e2 b =>
      by_cases hp : exprCapPath e2 = []
      · rw [exprCapPath_access_nil hp] at h; simp at h
      · rw [exprCapPath_access hp] at h
        obtain ⟨hpe, hab⟩ := List.append_inj' h rfl
        have := exprCapPath_inj e1 e2 hpe hp1
        simp only [List.cons.injEq, and_true] at hab
        rw [this, hab]
    | _ => simp [exprCapPath] at h
  | .lit _, _, _, hne => by simp [exprCapPath] at hne
  | .unop _ _, _, _, hne => by simp [exprCapPath] at hne
  | .binop _ _ _, _, _, hne => by simp [exprCapPath] at hne
  | .ite _ _ _, _, _, hne => by simp [exprCapPath] at hne
  | .has _ _, _, _, hne => by simp [exprCapPath] at hne
  | .like _ _, _, _, hne => by simp [exprCapPath] at hne
  | .is _ _, _, _, hne => by simp [exprCapPath] at hne
  | .isIn _ _ _, _, _, hne => by simp [exprCapPath] at hne
  | .set _, _, _, hne => by simp [exprCapPath] at hne
  | .record _, _, _, hne => by simp [exprCapPath] at hne
  | .call _ _, _, _, hne => by simp [exprCapPath] at hne


/-! ## `has` and `.` on records, with capabilities -/

section nodes4
variable {Γ : TEnv} {env : Env}

theorem eval_has_record {e : Expr} {a : String} {kvs : List (String × Value)} (h : eval e env = .ok (.record kvs)) :
    eval (.has e a) env = .ok (.bool (kvGet a kvs).isSome) := by
  simp [eval, h, bind, Except.bind]

theorem capsHold_add {caps : Caps} {p : List String} {a : String} (hc : CapsHold env caps)
    (hnew : ∀ e, exprCapPath e = p → p ≠ [] → ∀ b, eval (.has e a) env = .ok (.bool b) → b = true) :
    CapsHold env (caps.add p a) := by
  intro p' a' t hm e hname hne b hb
  simp only [Caps.add, List.mem_cons, Prod.mk.injEq] at hm
  rcases hm with ⟨rfl, rfl, rfl⟩ | hm
  · exact hnew e hname hne b hb
  · exact hc p' a' t hm e hname hne b hb

/-- using an attribute capability -/
theorem capsHold_has {caps : Caps} (hc : CapsHold env caps) {e : Expr} {a : String}
    (hm : caps.has (exprCapPath e) a = true) (hne : exprCapPath e ≠ []) :
    ∀ b, eval (.has e a) env = .ok (.bool b) → b = true :=
  fun b hb => hc (exprCapPath e) a false (by simpa [Caps.has] using hm) e rfl hne b hb

/-- `has` on an operand of RECORD type (entity types: `sound_has_entity` in C15EntAttr.lean) -/
theorem sound_has_record {e : Expr} {a : String} {caps caps' c : Caps} {τ : Ty} {attrs : Attrs} (ih : IH Γ env e)
    (hc : CapsHold env caps) (he : typeOf true Γ e caps = .ok (.record attrs, c))
    (h : typeOf true Γ (.has e a) caps = .ok (τ, caps')) : Sound env τ caps' (eval (.has e a) env) := by
  simp only [typeOf, he] at h
  have hs := (ih _ _ _ hc he).2
  · · · -- what evaluation of the operand gives
        have hev : (∃ k, eval e env = .error k ∧ Allowed k) ∨
            (∃ kvs, eval e env = .ok (.record kvs) ∧ HasTy (.record kvs) (.record attrs)) := by
          cases hr : eval e env with
          | error k => rw [hr] at hs; exact .inl ⟨k, rfl, hs⟩
          | ok v =>
            rw [hr] at hs
            have hv := hs.1
            cases hv with
            | record h1 h2 h3 => exact .inr ⟨_, rfl, HasTy.record h1 h2 h3⟩
        -- the new capability holds as soon as `e has a` is true whenever it evaluates
        have hcapsNew : (∀ b, eval (.has e a) env = .ok (.bool b) → b = true) →
            CapsHold env (if (exprCapPath e).isEmpty then caps else caps.add (exprCapPath e) a) := by
          intro hb
          split
          · exact hc
          · refine capsHold_add hc ?_
            intro e' hname hne b' hb'
            have : e' = e := exprCapPath_inj e' e hname (by rw [hname]; exact hne)
            subst this; exact hb b' hb'
        -- errors of the operand propagate
        have herr : ∀ (τ' : Ty) (c' : Caps) k, eval e env = .error k → Allowed k → SoundRes env τ' c' (eval (.has e a) env) := by
          intro τ' c' k hk hak; simp only [eval, hk, bind, Except.bind]; exact hak
        split at h
        · -- attribute not declared: False
          rename_i hl
          simp only [Except.ok.injEq, Prod.mk.injEq] at h
          obtain ⟨rfl, rfl⟩ := h
          refine ⟨by simp, ?_⟩
          rcases hev with ⟨k, hk, hak⟩ | ⟨kvs, hk, hty⟩
          · exact herr _ _ k hk hak
          · rw [eval_has_record hk]
            cases hty with
            | record h1 h2 h3 =>
              cases hg : kvGet a kvs with
              | none => exact ⟨HasTy.ff, by simp⟩
              | some x => have := h2 a x hg; simp [hl] at this
        · -- required attribute: True
          rename_i ty hl
          simp only [Except.ok.injEq, Prod.mk.injEq] at h
          obtain ⟨rfl, rfl⟩ := h
          have htrue : ∀ b, eval (.has e a) env = .ok (.bool b) → b = true := by
            intro b hb
            rcases hev with ⟨k, hk, _⟩ | ⟨kvs, hk, hty⟩
            · simp [eval, hk, bind, Except.bind] at hb
            · rw [eval_has_record hk] at hb
              simp only [Except.ok.injEq, Value.bool.injEq] at hb
              cases hty with
              | record h1 h2 h3 => rw [← hb]; exact h3 a ty hl
          refine ⟨fun _ => hcapsNew htrue, ?_⟩
          rcases hev with ⟨k, hk, hak⟩ | ⟨kvs, hk, hty⟩
          · exact herr _ _ k hk hak
          · have := htrue _ (eval_has_record hk)
            rw [eval_has_record hk, this]
            exact ⟨HasTy.tt, fun _ => hcapsNew htrue⟩
        · -- optional attribute: Bool, or True when the capability is already held
          rename_i ty hl
          simp only [Except.ok.injEq, Prod.mk.injEq] at h
          obtain ⟨rfl, rfl⟩ := h
          by_cases hcap : (!(exprCapPath e).isEmpty && caps.has (exprCapPath e) a) = true
          · simp only [hcap, if_true]
            simp only [Bool.and_eq_true, Bool.not_eq_true', List.isEmpty_eq_false_iff] at hcap
            have htrue : ∀ b, eval (.has e a) env = .ok (.bool b) → b = true := capsHold_has hc hcap.2 hcap.1
            refine ⟨fun _ => hcapsNew htrue, ?_⟩
            rcases hev with ⟨k, hk, hak⟩ | ⟨kvs, hk, hty⟩
            · exact herr _ _ k hk hak
            · have := htrue _ (eval_has_record hk)
              rw [eval_has_record hk, this]
              exact ⟨HasTy.tt, fun _ => hcapsNew htrue⟩
          · simp only [hcap, Bool.false_eq_true, if_false]
            refine ⟨by simp, ?_⟩
            rcases hev with ⟨k, hk, hak⟩ | ⟨kvs, hk, hty⟩
            · exact herr _ _ k hk hak
            · rw [eval_has_record hk]
              refine ⟨HasTy.bool _, fun htrue => hcapsNew ?_⟩
              intro b hb
              rw [eval_has_record hk] at hb
              simp only [Except.ok.injEq, Value.bool.injEq] at hb htrue
              rw [← hb]; exact htrue

/-- `.` on an operand of RECORD type (entity types: `sound_access_entity` in C15EntAttr.lean) -/
theorem sound_access_record {e : Expr} {a : String} {caps caps' c : Caps} {τ : Ty} {attrs : Attrs} (ih : IH Γ env e)
    (hc : CapsHold env caps) (he : typeOf true Γ e caps = .ok (.record attrs, c))
    (h : typeOf true Γ (.access e a) caps = .ok (τ, caps')) : Sound env τ caps' (eval (.access e a) env) := by
  simp only [typeOf, he] at h
  have hs := (ih _ _ _ hc he).2
  · · · split at h
        · simp at h
        · rename_i aty req hl
          split at h
          · simp at h
          · rename_i hguard
            simp only [Except.ok.injEq, Prod.mk.injEq] at h
            obtain ⟨rfl, rfl⟩ := h
            refine sound_same hc ?_
            cases hr : eval e env with
            | error k => rw [hr] at hs; simp only [eval, hr, bind, Except.bind]; exact hs
            | ok v =>
              rw [hr] at hs
              have hv := hs.1
              cases hv with
              | record h1 h2 h3 =>
                rename_i kvs
                have hpresent : (kvGet a kvs).isSome = true := by
                  cases req with
                  | true => exact h3 a aty hl
                  | false =>
                    simp only [Bool.not_false, Bool.true_and, Bool.or_eq_true, Bool.not_eq_true', not_or,
                      Bool.not_eq_false] at hguard
                    have hne : exprCapPath e ≠ [] := by
                      intro h0; simp [h0] at hguard
                    exact capsHold_has hc hguard.2 hne _ (eval_has_record hr)
                rw [Option.isSome_iff_exists] at hpresent
                obtain ⟨x, hx⟩ := hpresent
                simp only [eval, hr, bind, Except.bind, hx]
                exact ⟨h1 a x aty req hx hl, fun _ => hc⟩

end nodes4


/-! ## Set literals -/

/-- pointwise typing of argument / element lists -/
inductive HasTys : List Value → List Ty → Prop
  | nil : HasTys [] []
  | cons {v : Value} {t : Ty} {vs : List Value} {ts : List Ty} : HasTy v t → HasTys vs ts → HasTys (v :: vs) (t :: ts)

theorem hasTys_mem {vs : List Value} {ts : List Ty} (h : HasTys vs ts) {x : Value} (hx : x ∈ vs) : ∃ t, t ∈ ts ∧ HasTy x t := by
  induction h with
  | nil => simp at hx
  | cons hvt _ ihh =>
    simp only [List.mem_cons] at hx
    rcases hx with rfl | hx
    · exact ⟨_, by simp, hvt⟩
    · obtain ⟨t, ht, hxt⟩ := ihh hx
      exact ⟨t, by simp [ht], hxt⟩

section lits
variable {Γ : TEnv} {env : Env}

theorem evalList_sound : ∀ {es : List Expr} {caps : Caps} {ts : List Ty}, (∀ e ∈ es, IH Γ env e) → CapsHold env caps →
    typeOfList true Γ es caps = .ok ts →
    (∃ k, evalList es env = .error k ∧ Allowed k) ∨ (∃ vs, evalList es env = .ok vs ∧ HasTys vs ts)
  | [], caps, ts, _, _, h => by
    simp only [typeOfList, Except.ok.injEq] at h; subst h
    exact .inr ⟨[], by simp [evalList], HasTys.nil⟩
  | e :: es, caps, ts, ih, hc, h => by
    simp only [typeOfList] at h
    split at h
    · simp at h
    · rename_i t c he
      split at h
      · simp at h
      · rename_i ts' hts
        simp only [Except.ok.injEq] at h; subst h
        have hs := (ih e (by simp) _ _ _ hc he).2
        cases hr : eval e env with
        | error k => rw [hr] at hs; exact .inl ⟨k, by simp [evalList, hr, bind, Except.bind], hs⟩
        | ok v =>
          rw [hr] at hs
          rcases evalList_sound (fun e' he' => ih e' (by simp [he'])) hc hts with ⟨k, hk, hak⟩ | ⟨vs, hvs, hall⟩
          · exact .inl ⟨k, by simp [evalList, hr, hk, bind, Except.bind], hak⟩
          · exact .inr ⟨v :: vs, by simp [evalList, hr, hvs, bind, Except.bind], HasTys.cons hs.1 hall⟩

theorem lubList_sound {s : Bool} : ∀ {ts : List Ty} {acc el : Ty}, lubList true s acc ts = some el →
    (∀ v, HasTy v acc → HasTy v el) ∧ (∀ t ∈ ts, ∀ v, HasTy v t → HasTy v el)
  | [], acc, el, h => by
    simp only [lubList, Option.some.injEq] at h; subst h
    exact ⟨fun _ hv => hv, by simp⟩
  | t :: ts, acc, el, h => by
    simp only [lubList] at h
    split at h
    · simp at h
    · split at h
      · simp at h
      · rename_i u hu
        obtain ⟨h1, h2⟩ := lubList_sound h
        refine ⟨fun v hv => h1 v (lub_sound_left _ _ _ _ _ hu hv), ?_⟩
        intro t' ht' v hv
        simp only [List.mem_cons] at ht'
        rcases ht' with rfl | ht'
        · exact h1 v (lub_sound_right _ _ _ _ _ hu hv)
        · exact h2 t' ht' v hv

theorem mem_dedupV : ∀ (xs acc : List Value) (x : Value), x ∈ dedupV acc xs → x ∈ acc ∨ x ∈ xs
  | [], acc, x, h => by simp only [dedupV, List.mem_reverse] at h; exact .inl h
  | y :: ys, acc, x, h => by
    simp only [dedupV] at h
    split at h
    · rcases mem_dedupV ys acc x h with h | h
      · exact .inl h
      · exact .inr (by simp [h])
    · rcases mem_dedupV ys (y :: acc) x h with h | h
      · simp only [List.mem_cons] at h
        rcases h with rfl | h
        · exact .inr (by simp)
        · exact .inl h
      · exact .inr (by simp [h])

theorem sound_set {es : List Expr} {caps caps' : Caps} {τ : Ty} (ih : ∀ e ∈ es, IH Γ env e) (hc : CapsHold env caps)
    (h : typeOf true Γ (.set es) caps = .ok (τ, caps')) : Sound env τ caps' (eval (.set es) env) := by
  simp only [typeOf] at h
  split at h
  · simp at h
  · split at h
    · simp at h
    · rename_i ts hts
      split at h
      · simp at h
      · rename_i el hel
        simp only [Except.ok.injEq, Prod.mk.injEq] at h
        obtain ⟨rfl, rfl⟩ := h
        refine sound_same hc ?_
        rcases evalList_sound ih hc hts with ⟨k, hk, hak⟩ | ⟨vs, hvs, hall⟩
        · simp only [eval, hk, bind, Except.bind]; exact hak
        · simp only [eval, hvs, bind, Except.bind]
          refine ⟨?_, fun _ => hc⟩
          unfold mkSet
          refine HasTy.set ?_
          intro x hx
          rcases mem_dedupV vs [] x hx with h0 | hx
          · simp at h0
          · obtain ⟨_, h2⟩ := lubList_sound hel
            -- x is one of the element values; its type is a non-nil member of ts
            have : ∃ t, t ∈ ts ∧ HasTy x t := hasTys_mem hall hx
            obtain ⟨t, ht, hxt⟩ := this
            refine h2 t ?_ x hxt
            simp only [List.mem_filter, ht, true_and]
            cases hxt <;> rfl

end lits


/-! ## Record literals -/

/-- the value a Go map ends up with for key `k` after assigning the pairs in order: the LAST one -/
def lastKV {α : Type} (k : String) : List (String × α) → Option α
  | [] => none
  | (k', x) :: rest => match lastKV k rest with | some y => some y | none => if k == k' then some x else none

theorem kvGet_kvInsert (k k0 : String) (v : Value) : ∀ (l : List (String × Value)),
    kvGet k (kvInsert k0 v l) = if k == k0 then some v else kvGet k l
  | [] => by simp [kvInsert, kvGet]
  | (k', v') :: rest => by
    simp only [kvInsert]
    split
    · simp [kvGet]
    · split
      · rename_i hkk
        have hkk' : k0 = k' := by simpa using hkk
        subst hkk'
        by_cases h : k = k0 <;> simp [kvGet, h]
      · rename_i hlt hne
        have hne' : ¬ k0 = k' := by simpa using hne
        simp only [kvGet, kvGet_kvInsert k k0 v rest]
        by_cases h : k = k' <;> by_cases h0 : k = k0 <;> simp [h, h0]
        · subst h; subst h0; exact absurd rfl hne'
        · intro hx; subst h; exact absurd hx.symm hne'
        · intro hx; exact absurd hx hne'

theorem kvGet_foldl (k : String) : ∀ (kvs acc : List (String × Value)),
    kvGet k (kvs.foldl (fun acc kv => kvInsert kv.1 kv.2 acc) acc) =
      match lastKV k kvs with | some v => some v | none => kvGet k acc
  | [], acc => by simp [lastKV]
  | (k0, v) :: rest, acc => by
    simp only [List.foldl_cons, kvGet_foldl k rest, lastKV, kvGet_kvInsert]
    cases lastKV k rest <;> simp
    split <;> simp

theorem lastKV_map {α β : Type} (f : α → β) (k : String) : ∀ (l : List (String × α)),
    lastKV k (l.map (fun kv => (kv.1, f kv.2))) = (lastKV k l).map f
  | [] => rfl
  | (k', x) :: rest => by
    simp only [List.map_cons, lastKV, lastKV_map f k rest]
    cases lastKV k rest with
    | some y => rfl
    | none => simp only [Option.map_none]; split <;> rfl

theorem lastKV_none_fresh {α : Type} {k : String} : ∀ {l : List (String × α)}, lastKV k l = none → ∀ y ∈ l, y.1 ≠ k
  | [], _ => by intro y hy; cases hy
  | (k', x) :: rest, h => by
    simp only [lastKV] at h
    cases hr : lastKV k rest with
    | some y => rw [hr] at h; cases h
    | none =>
      rw [hr] at h
      simp only at h
      intro y hy
      rcases List.mem_cons.mp hy with hy | hy
      · rw [hy]; intro e; simp only at e; rw [e] at h; simp at h
      · exact lastKV_none_fresh hr y hy

/-- the last entry of a key is one of the entries a record literal evaluates -/
theorem lastKV_mem_canonFrom {α : Type} {k : String} {x : α} : ∀ {l : List (String × α)} (acc : List (String × α)),
    lastKV k l = some x → (k, x) ∈ canonFrom acc l
  | [], _, h => by cases h
  | (k', x') :: rest, acc, h => by
    have h1 : canonFrom acc ((k', x') :: rest) = canonFrom (insKey k' x' acc) rest := rfl
    rw [h1]
    simp only [lastKV] at h
    cases hr : lastKV k rest with
    | some y =>
      rw [hr] at h
      simp only [Option.some.injEq] at h
      subst h
      exact lastKV_mem_canonFrom _ hr
    | none =>
      rw [hr] at h
      simp only at h
      split at h
      · rename_i hkk
        have e : k = k' := by simpa using hkk
        simp only [Option.some.injEq] at h
        subst h; subst e
        exact canonFrom_mem_of_fresh rest _ (k, x') (insKey_self_mem _ _ _) (lastKV_none_fresh hr)
      · cases h

theorem lastKV_mem_canonKVs {α : Type} {k : String} {x : α} {l : List (String × α)} (h : lastKV k l = some x) :
    (k, x) ∈ canonKVs l := lastKV_mem_canonFrom [] h

/-- the value of an entry (junk if it errors; only used for entries that evaluate) -/
def valOf (env : Env) (e : Expr) : Value := match eval e env with | .ok v => v | .error _ => default

def RecRel : Option Value → Option (Ty × Bool) → Prop
  | some v, some (t, req) => HasTy v t ∧ req = true
  | none, none => True
  | _, _ => False

section recs
variable {Γ : TEnv} {env : Env}

/-- every entry of a well-typed record literal is well-typed -/
theorem typeOfKVs_entry_ok : ∀ {kes : List (String × Expr)} {caps : Caps} {attrs : Attrs},
    typeOfKVs true Γ kes caps = .ok attrs → ∀ ke ∈ kes, ∃ t c, typeOf true Γ ke.2 caps = .ok (t, c)
  | [], _, _, _ => by intro ke h; cases h
  | (k0, e) :: kes, caps, attrs, h => by
    simp only [typeOfKVs] at h
    split at h
    · simp at h
    · rename_i t c he
      split at h
      · simp at h
      · rename_i rest hrest
        intro ke hke
        rcases List.mem_cons.mp hke with hke | hke
        · rw [hke]; exact ⟨t, c, he⟩
        · exact typeOfKVs_entry_ok hrest ke hke

/-- The attribute types computed by `typeOfRecord` describe the LAST entry of every key, provided that entry
    evaluates (the entries a record literal evaluates are exactly those: `lastKV_mem_canonKVs`). -/
theorem typeOfKVs_rel : ∀ {kes : List (String × Expr)} {caps : Caps} {attrs : Attrs}, (∀ ke ∈ kes, IH Γ env ke.2) →
    CapsHold env caps → typeOfKVs true Γ kes caps = .ok attrs →
    (∀ k e, lastKV k kes = some e → ∃ v, eval e env = .ok v) →
    ∀ k, RecRel ((lastKV k kes).map (valOf env)) (lookupAttr k attrs)
  | [], caps, attrs, _, _, h, _ => by
    simp only [typeOfKVs, Except.ok.injEq] at h; subst h
    intro k; simp [lastKV, lookupAttr, RecRel]
  | (k0, e) :: kes, caps, attrs, ih, hc, h, hlast => by
    simp only [typeOfKVs] at h
    split at h
    · simp at h
    · rename_i t c he
      split at h
      · simp at h
      · rename_i rest hrest
        have hs := (ih (k0, e) (by simp) _ _ _ hc he).2
        have hlast' : ∀ k e', lastKV k kes = some e' → ∃ v, eval e' env = .ok v := by
          intro k e' hl; exact hlast k e' (by simp [lastKV, hl])
        have hrel := typeOfKVs_rel (fun ke hke => ih ke (by simp [hke])) hc hrest hlast'
        intro k
        have hk := hrel k
        simp only [lastKV]
        cases hl : lastKV k kes with
        | some y =>
          rw [hl] at hk
          simp only [Option.map_some] at hk ⊢
          split at h
          · simp only [Except.ok.injEq] at h; subst h; exact hk
          · rename_i hhas
            simp only [Except.ok.injEq] at h; subst h
            by_cases hkk : k = k0
            · subst hkk
              have hnone : lookupAttr k rest = none := by
                simp only [Bool.or_eq_true, not_or, Bool.not_eq_true] at hhas
                simpa [hasKey] using hhas.1
              rw [hnone] at hk; simp [RecRel] at hk
            · simpa [lookupAttr, hkk] using hk
        | none =>
          rw [hl] at hk
          have hnone : lookupAttr k rest = none := by
            cases hx : lookupAttr k rest with
            | none => rfl
            | some p => rw [hx] at hk; simp [RecRel] at hk
          by_cases hkk : k = k0
          · subst hkk
            obtain ⟨v, hv⟩ := hlast k e (by simp [lastKV, hl])
            rw [hv] at hs
            have hnil : t.isNil = false := by cases hs.1 <;> rfl
            have hhas : hasKey k rest = false := by simp [hasKey, hnone]
            simp only [hhas, hnil, Bool.or_false, Bool.false_eq_true, if_false, Except.ok.injEq] at h
            subst h
            simp [lookupAttr, RecRel, valOf, hv, hs.1]
          · have hno : lookupAttr k attrs = none := by
              split at h <;> (simp only [Except.ok.injEq] at h; subst h)
              · exact hnone
              · simp [lookupAttr, hkk, hnone]
            simp [hkk, hno, RecRel]

theorem sound_record {kes : List (String × Expr)} {caps caps' : Caps} {τ : Ty} (ih : ∀ ke ∈ kes, IH Γ env ke.2)
    (hc : CapsHold env caps)
    (h : typeOf true Γ (.record kes) caps = .ok (τ, caps')) : Sound env τ caps' (eval (.record kes) env) := by
  simp only [typeOf] at h
  split at h
  · simp at h
  · rename_i attrs hattrs
    simp only [Except.ok.injEq, Prod.mk.injEq] at h
    obtain ⟨rfl, rfl⟩ := h
    refine sound_same hc ?_
    rw [eval_recordLit]
    -- the literal evaluates the last entry of every key, in key order
    cases hk : evalKVs (canonKVs kes) env with
    | error k =>
      obtain ⟨ke, hm, he⟩ := evalKVs_error_mem _ env k hk
      have hmem := canonKVs_subset kes ke hm
      obtain ⟨t, c, hty⟩ := typeOfKVs_entry_ok hattrs ke hmem
      have hs := (ih ke hmem _ _ _ hc hty).2
      rw [he] at hs
      exact hs
    | ok kvs =>
      have hall : ∀ ke ∈ canonKVs kes, ∃ v, eval ke.2 env = .ok v := by
        intro ke hm
        cases hv : eval ke.2 env with
        | ok v => exact ⟨v, rfl⟩
        | error k =>
          obtain ⟨k', hk'⟩ := evalKVs_error_of_mem _ env ke k hm hv
          rw [hk] at hk'; cases hk'
      have hkvs : kvs = canonKVs (kes.map (fun ke => (ke.1, valOf env ke.2))) := by
        have := evalKVs_ok_of_all_ok _ env hall
        rw [hk] at this
        simp only [Except.ok.injEq] at this
        rw [this, canonKVs_map (valOf env) kes]
        rfl
      have hlast : ∀ k e, lastKV k kes = some e → ∃ v, eval e env = .ok v := fun k e hl =>
        hall (k, e) (lastKV_mem_canonKVs hl)
      have hrel := typeOfKVs_rel ih hc hattrs hlast
      show SoundRes _ _ _ (.ok (mkRecord kvs))
      rw [hkvs, mkRecord_canon]
      refine ⟨?_, fun _ => hc⟩
      unfold mkRecord
      have hget : ∀ k, kvGet k ((kes.map (fun ke => (ke.1, valOf env ke.2))).foldl (fun acc kv => kvInsert kv.1 kv.2 acc) []) =
          (lastKV k kes).map (valOf env) := by
        intro k; rw [kvGet_foldl, lastKV_map]; cases lastKV k kes <;> simp [kvGet]
      refine HasTy.record ?_ ?_ ?_
      · intro k v t req hg hl
        have := hrel k
        rw [hget] at hg
        rw [hg, hl] at this
        exact this.1
      · intro k v hg
        have := hrel k
        rw [hget] at hg
        rw [hg] at this
        cases hl : lookupAttr k attrs with
        | none => rw [hl] at this; simp [RecRel] at this
        | some p => rfl
      · intro k t hl
        have := hrel k
        rw [hl] at this
        rw [hget]
        cases hg : (lastKV k kes).map (valOf env) with
        | none => rw [hg] at this; simp [RecRel] at this
        | some y => rfl

end recs


/-! ## Extension function calls -/

section calls
variable {Γ : TEnv} {env : Env}

theorem eval_call_known {fn : String} {args : List Expr} {arity : Nat} {m : Bool}
    (hne : (fn == partialErrorName) = false) (hl : extLookup fn = some (arity, m)) (hlen : arity = args.length) :
    eval (.call fn args) env = (evalTyped args (extSig fn) env).bind (callExt fn) := by
  simp only [eval, hne, hl, hlen, Bool.false_and, Bool.false_eq_true, if_false, bne_self_eq_false, bind]

theorem evalTyped1 (a : Expr) (K : Kind) (ks : List Kind) :
    evalTyped [a] (K :: ks) env = (eval a env).bind fun v => (checkKind K v).bind fun _ => .ok [v] := by
  simp only [evalTyped, bind, List.headD_cons, Except.bind]

theorem evalTyped2 (a b : Expr) (K1 K2 : Kind) (ks : List Kind) :
    evalTyped [a, b] (K1 :: K2 :: ks) env = (eval a env).bind fun v => (checkKind K1 v).bind fun _ =>
      (eval b env).bind fun w => (checkKind K2 w).bind fun _ => .ok [v, w] := by
  simp only [evalTyped, bind, List.headD_cons, List.tail_cons, Except.bind]
  cases eval a env with
  | error k => rfl
  | ok v =>
    simp only []
    cases checkKind K1 v with
    | error k => rfl
    | ok u =>
      simp only []
      cases eval b env with
      | error k => rfl
      | ok w =>
        simp only []
        cases checkKind K2 w <;> rfl

theorem sound_call_unary {fn : String} {a : Expr} {K : Kind} {T ret : Ty} {caps c : Caps} {m : Bool}
    (hne : (fn == partialErrorName) = false) (hl : extLookup fn = some (1, m)) (hsigk : extSig fn = [K])
    (hkind : ∀ v, HasTy v T → checkKind K v = .ok ())
    (hres : ∀ v, HasTy v T → SoundRes env ret caps (callExt fn [v]))
    (hs : SoundRes env T c (eval a env)) : SoundRes env ret caps (eval (.call fn [a]) env) := by
  rw [eval_call_known hne hl rfl, hsigk, evalTyped1]
  cases hr : eval a env with
  | error k => rw [hr] at hs; exact hs
  | ok v => rw [hr] at hs; simp only [Except.bind, hkind v hs.1]; exact hres v hs.1

theorem sound_call_binary {fn : String} {a b : Expr} {K1 K2 : Kind} {T1 T2 ret : Ty} {caps c1 c2 : Caps} {m : Bool}
    (hne : (fn == partialErrorName) = false) (hl : extLookup fn = some (2, m)) (hsigk : extSig fn = [K1, K2])
    (hkind1 : ∀ v, HasTy v T1 → checkKind K1 v = .ok ()) (hkind2 : ∀ v, HasTy v T2 → checkKind K2 v = .ok ())
    (hres : ∀ v w, HasTy v T1 → HasTy w T2 → SoundRes env ret caps (callExt fn [v, w]))
    (hs1 : SoundRes env T1 c1 (eval a env)) (hs2 : SoundRes env T2 c2 (eval b env)) :
    SoundRes env ret caps (eval (.call fn [a, b]) env) := by
  rw [eval_call_known hne hl rfl, hsigk, evalTyped2]
  cases hr : eval a env with
  | error k => rw [hr] at hs1; exact hs1
  | ok v =>
    rw [hr] at hs1
    cases hr2 : eval b env with
    | error k => rw [hr2] at hs2; simp only [Except.bind, hkind1 v hs1.1]; exact hs2
    | ok w => rw [hr2] at hs2; simp only [Except.bind, hkind1 v hs1.1, hkind2 w hs2.1]; exact hres v w hs1.1 hs2.1

/-- shape of the argument list from the signature length -/
theorem args_one {args : List Expr} (h : ¬ (args.length != 1) = true) : ∃ a, args = [a] := by
  match args, h with
  | [a], _ => exact ⟨a, rfl⟩
  | [], h => simp at h
  | _ :: _ :: _, h => simp at h

theorem args_two {args : List Expr} (h : ¬ (args.length != 2) = true) : ∃ a b, args = [a, b] := by
  match args, h with
  | [a, b], _ => exact ⟨a, b, rfl⟩
  | [], h => simp at h
  | [_], h => simp at h
  | _ :: _ :: _ :: _, h => simp at h

theorem typeOfList_one {a : Expr} {caps : Caps} {ts : List Ty} (h : typeOfList true Γ [a] caps = .ok ts) :
    ∃ t c, typeOf true Γ a caps = .ok (t, c) ∧ ts = [t] := by
  simp only [typeOfList] at h
  split at h
  · simp at h
  · rename_i t c ha; exact ⟨t, c, ha, by simpa using h.symm⟩

theorem typeOfList_two {a b : Expr} {caps : Caps} {ts : List Ty} (h : typeOfList true Γ [a, b] caps = .ok ts) :
    ∃ t1 c1 t2 c2, typeOf true Γ a caps = .ok (t1, c1) ∧ typeOf true Γ b caps = .ok (t2, c2) ∧ ts = [t1, t2] := by
  simp only [typeOfList] at h
  split at h
  · simp at h
  · rename_i t1 c1 ha
    split at h
    · simp at h
    · rename_i ts' hts
      split at hts
      · simp at hts
      · rename_i t2 c2 hb
        simp only [Except.ok.injEq] at hts h
        subst hts; exact ⟨t1, c1, t2, c2, ha, hb, h.symm⟩

theorem argsOK_one {t s : Ty} (h : argsOK [t] [s] = true) : isSubtypeArg t s = true := by
  simpa [argsOK] using h
theorem argsOK_two {t1 t2 s1 s2 : Ty} (h : argsOK [t1, t2] [s1, s2] = true) :
    isSubtypeArg t1 s1 = true ∧ isSubtypeArg t2 s2 = true := by
  simpa [argsOK] using h

theorem isSubtypeArg_ext {t : Ty} {x : ExtTy} (h : isSubtypeArg t (.ext x) = true) : t = .ext x := by
  cases t <;> simp [isSubtypeArg] at h
  subst h; rfl
theorem isSubtypeArg_string {t : Ty} (h : isSubtypeArg t .string = true) : t = .string := by
  cases t <;> simp [isSubtypeArg] at h
  rfl

theorem typeOf_lit_string {v : Value} {caps c : Caps} (h : typeOf true Γ (.lit v) caps = .ok (.string, c)) : ∃ s, v = .str s := by
  cases v with
  | str s => exact ⟨s, rfl⟩
  | bool b => cases b <;> simp [typeOf, typeOfValue] at h
  | entity ty id =>
    simp only [typeOf, typeOfValue] at h
    cases hty : typeOfEntityUID Γ ty id with
    | none => simp [hty] at h
    | some t' =>
      simp only [hty, Except.ok.injEq, Prod.mk.injEq] at h
      simp only [typeOfEntityUID] at hty
      split at hty
      · simp at hty; rw [← hty] at h; simp at h
      · split at hty
        · simp at hty; rw [← hty] at h; simp at h
        · simp at hty
  | _ => simp [typeOf, typeOfValue] at h

/-- constructor applied to a string literal that `validateExtensionValue` accepted -/
theorem sound_ctor {fn s : String} {ret : Ty} {caps : Caps}
    (hfn : (fn = "ip" ∧ ret = .ext .ipaddr) ∨ (fn = "decimal" ∧ ret = .ext .decimal) ∨
      (fn = "datetime" ∧ ret = .ext .datetime) ∨ (fn = "duration" ∧ ret = .ext .duration))
    (hc : CapsHold env caps) (hv : validExtLiteral fn s = true) :
    SoundRes env ret caps (eval (.call fn [.lit (.str s)]) env) := by
  rcases hfn with ⟨rfl, rfl⟩ | ⟨rfl, rfl⟩ | ⟨rfl, rfl⟩ | ⟨rfl, rfl⟩
  · rw [eval_call_known (by decide) (by decide : extLookup "ip" = some (1, false)) rfl, (by decide : extSig "ip" = [.str]), evalTyped1]
    simp only [validExtLiteral, beq_self_eq_true, if_true] at hv
    cases hp : Scalars.parseIP s with
    | error e => simp [hp, Except.toBool] at hv
    | ok x => simp [eval, Except.bind, checkKind, callExt, hp, Except.map, SoundRes, hc]; constructor
  · rw [eval_call_known (by decide) (by decide : extLookup "decimal" = some (1, false)) rfl, (by decide : extSig "decimal" = [.str]), evalTyped1]
    simp only [validExtLiteral, (by decide : ("decimal" == "ip") = false), beq_self_eq_true, if_true, Bool.false_eq_true, if_false] at hv
    cases hp : Scalars.parseDecimal s with
    | error e => simp [hp, Except.toBool] at hv
    | ok x => simp [eval, Except.bind, checkKind, callExt, hp, Except.map, SoundRes, hc]; constructor
  · rw [eval_call_known (by decide) (by decide : extLookup "datetime" = some (1, false)) rfl, (by decide : extSig "datetime" = [.str]), evalTyped1]
    simp only [validExtLiteral, (by decide : ("datetime" == "ip") = false), (by decide : ("datetime" == "decimal") = false),
      beq_self_eq_true, if_true, Bool.false_eq_true, if_false] at hv
    cases hp : Scalars.parseDatetime s with
    | error e => simp [hp, Except.toBool] at hv
    | ok x => simp [eval, Except.bind, checkKind, callExt, hp, Except.map, SoundRes, hc]; constructor
  · rw [eval_call_known (by decide) (by decide : extLookup "duration" = some (1, false)) rfl, (by decide : extSig "duration" = [.str]), evalTyped1]
    simp only [validExtLiteral, (by decide : ("duration" == "ip") = false), (by decide : ("duration" == "decimal") = false),
      (by decide : ("duration" == "datetime") = false), beq_self_eq_true, if_true, Bool.false_eq_true, if_false] at hv
    cases hp : Scalars.parseDuration s with
    | error e => simp [hp, Except.toBool] at hv
    | ok x => simp [eval, Except.bind, checkKind, callExt, hp, Except.map, SoundRes, hc]; constructor

theorem extFuncSig_inv {fn : String} {ctor : Bool} {sigArgs : List Ty} {ret : Ty}
    (h : extFuncSig fn = some (ctor, sigArgs, ret)) :
    (ctor = true ∧ sigArgs = [.string] ∧ ((fn = "ip" ∧ ret = .ext .ipaddr) ∨ (fn = "decimal" ∧ ret = .ext .decimal) ∨
        (fn = "datetime" ∧ ret = .ext .datetime) ∨ (fn = "duration" ∧ ret = .ext .duration))) ∨
    (ctor = false ∧ sigArgs = [.ext .decimal, .ext .decimal] ∧ ret = .bool ∧
        (fn = "lessThan" ∨ fn = "lessThanOrEqual" ∨ fn = "greaterThan" ∨ fn = "greaterThanOrEqual")) ∨
    (ctor = false ∧ sigArgs = [.ext .ipaddr] ∧ ret = .bool ∧
        (fn = "isIpv4" ∨ fn = "isIpv6" ∨ fn = "isLoopback" ∨ fn = "isMulticast")) ∨
    (ctor = false ∧ sigArgs = [.ext .ipaddr, .ext .ipaddr] ∧ ret = .bool ∧ fn = "isInRange") ∨
    (ctor = false ∧ sigArgs = [.ext .datetime] ∧ ret = .ext .datetime ∧ fn = "toDate") ∨
    (ctor = false ∧ sigArgs = [.ext .datetime] ∧ ret = .ext .duration ∧ fn = "toTime") ∨
    (ctor = false ∧ sigArgs = [.ext .datetime, .ext .duration] ∧ ret = .ext .datetime ∧ fn = "offset") ∨
    (ctor = false ∧ sigArgs = [.ext .datetime, .ext .datetime] ∧ ret = .ext .duration ∧ fn = "durationSince") ∨
    (ctor = false ∧ sigArgs = [.ext .duration] ∧ ret = .long ∧
        (fn = "toDays" ∨ fn = "toHours" ∨ fn = "toMinutes" ∨ fn = "toSeconds" ∨ fn = "toMilliseconds")) := by
  unfold extFuncSig at h
  by_cases c0 : (fn == "ip") = true
  · rw [if_pos c0] at h
    simp only [Option.some.injEq, Prod.mk.injEq] at h
    obtain ⟨rfl, rfl, rfl⟩ := h
    simp only [Bool.or_eq_true, beq_iff_eq, or_assoc] at c0
    first | (simp [c0]; done) | (simp; exact c0)
  rw [if_neg c0] at h
  by_cases c1 : (fn == "decimal") = true
  · rw [if_pos c1] at h
    simp only [Option.some.injEq, Prod.mk.injEq] at h
    obtain ⟨rfl, rfl, rfl⟩ := h
    simp only [Bool.or_eq_true, beq_iff_eq, or_assoc] at c1
    first | (simp [c1]; done) | (simp; exact c1)
  rw [if_neg c1] at h
  by_cases c2 : (fn == "datetime") = true
  · rw [if_pos c2] at h
    simp only [Option.some.injEq, Prod.mk.injEq] at h
    obtain ⟨rfl, rfl, rfl⟩ := h
    simp only [Bool.or_eq_true, beq_iff_eq, or_assoc] at c2
    first | (simp [c2]; done) | (simp; exact c2)
  rw [if_neg c2] at h
  by_cases c3 : (fn == "duration") = true
  · rw [if_pos c3] at h
    simp only [Option.some.injEq, Prod.mk.injEq] at h
    obtain ⟨rfl, rfl, rfl⟩ := h
    simp only [Bool.or_eq_true, beq_iff_eq, or_assoc] at c3
    first | (simp [c3]; done) | (simp; exact c3)
  rw [if_neg c3] at h
  by_cases c4 : (fn == "lessThan" || fn == "lessThanOrEqual" || fn == "greaterThan" || fn == "greaterThanOrEqual") = true
  · rw [if_pos c4] at h
    simp only [Option.some.injEq, Prod.mk.injEq] at h
    obtain ⟨rfl, rfl, rfl⟩ := h
    simp only [Bool.or_eq_true, beq_iff_eq, or_assoc] at c4
    first | (simp [c4]; done) | (simp; exact c4)
  rw [if_neg c4] at h
  by_cases c5 : (fn == "isIpv4" || fn == "isIpv6" || fn == "isLoopback" || fn == "isMulticast") = true
  · rw [if_pos c5] at h
    simp only [Option.some.injEq, Prod.mk.injEq] at h
    obtain ⟨rfl, rfl, rfl⟩ := h
    simp only [Bool.or_eq_true, beq_iff_eq, or_assoc] at c5
    first | (simp [c5]; done) | (simp; exact c5)
  rw [if_neg c5] at h
  by_cases c6 : (fn == "isInRange") = true
  · rw [if_pos c6] at h
    simp only [Option.some.injEq, Prod.mk.injEq] at h
    obtain ⟨rfl, rfl, rfl⟩ := h
    simp only [Bool.or_eq_true, beq_iff_eq, or_assoc] at c6
    first | (simp [c6]; done) | (simp; exact c6)
  rw [if_neg c6] at h
  by_cases c7 : (fn == "toDate") = true
  · rw [if_pos c7] at h
    simp only [Option.some.injEq, Prod.mk.injEq] at h
    obtain ⟨rfl, rfl, rfl⟩ := h
    simp only [Bool.or_eq_true, beq_iff_eq, or_assoc] at c7
    first | (simp [c7]; done) | (simp; exact c7)
  rw [if_neg c7] at h
  by_cases c8 : (fn == "toTime") = true
  · rw [if_pos c8] at h
    simp only [Option.some.injEq, Prod.mk.injEq] at h
    obtain ⟨rfl, rfl, rfl⟩ := h
    simp only [Bool.or_eq_true, beq_iff_eq, or_assoc] at c8
    first | (simp [c8]; done) | (simp; exact c8)
  rw [if_neg c8] at h
  by_cases c9 : (fn == "offset") = true
  · rw [if_pos c9] at h
    simp only [Option.some.injEq, Prod.mk.injEq] at h
    obtain ⟨rfl, rfl, rfl⟩ := h
    simp only [Bool.or_eq_true, beq_iff_eq, or_assoc] at c9
    first | (simp [c9]; done) | (simp; exact c9)
  rw [if_neg c9] at h
  by_cases c10 : (fn == "durationSince") = true
  · rw [if_pos c10] at h
    simp only [Option.some.injEq, Prod.mk.injEq] at h
    obtain ⟨rfl, rfl, rfl⟩ := h
    simp only [Bool.or_eq_true, beq_iff_eq, or_assoc] at c10
    first | (simp [c10]; done) | (simp; exact c10)
  rw [if_neg c10] at h
  by_cases c11 : (fn == "toDays" || fn == "toHours" || fn == "toMinutes" || fn == "toSeconds" || fn == "toMilliseconds") = true
  · rw [if_pos c11] at h
    simp only [Option.some.injEq, Prod.mk.injEq] at h
    obtain ⟨rfl, rfl, rfl⟩ := h
    simp only [Bool.or_eq_true, beq_iff_eq, or_assoc] at c11
    first | (simp [c11]; done) | (simp; exact c11)
  rw [if_neg c11] at h
  simp at h

theorem sound_call {fn : String} {args : List Expr} {caps caps' : Caps} {τ : Ty} (ih : ∀ e ∈ args, IH Γ env e)
    (hc : CapsHold env caps)
    (h : typeOf true Γ (.call fn args) caps = .ok (τ, caps')) : Sound env τ caps' (eval (.call fn args) env) := by
  simp only [typeOf] at h
  split at h
  · simp at h
  · rename_i ctor sigArgs ret hsig
    split at h
    · simp at h
    · rename_i hlen
      split at h
      · simp at h
      · rename_i hlit
        split at h
        · simp at h
        · rename_i ts hts
          split at h
          · simp at h
          · rename_i hargs
            simp only [Bool.not_eq_true', Bool.not_eq_false] at hargs
            split at h
            rotate_left
            · simp at h
            rename_i hlitok
            simp only [Except.ok.injEq, Prod.mk.injEq] at h
            obtain ⟨rfl, rfl⟩ := h
            refine sound_same hc ?_
            rcases extFuncSig_inv hsig with ⟨rfl, rfl, hfn⟩ | ⟨rfl, rfl, rfl, hfn⟩ | ⟨rfl, rfl, rfl, hfn⟩ | ⟨rfl, rfl, rfl, rfl⟩ |
              ⟨rfl, rfl, rfl, rfl⟩ | ⟨rfl, rfl, rfl, rfl⟩ | ⟨rfl, rfl, rfl, rfl⟩ | ⟨rfl, rfl, rfl, rfl⟩ | ⟨rfl, rfl, rfl, hfn⟩
            · -- constructors: the argument is a string literal that parses
              obtain ⟨a, rfl⟩ := args_one hlen
              obtain ⟨t, c, ha, rfl⟩ := typeOfList_one hts
              have ht := isSubtypeArg_string (argsOK_one hargs); subst ht
              simp only [Bool.true_or, Bool.true_and, List.all_cons, List.all_nil, Bool.and_true, Bool.not_eq_true',
                Bool.not_eq_false] at hlit
              cases a <;> simp [isLitExpr] at hlit
              rename_i v
              obtain ⟨s, rfl⟩ := typeOf_lit_string ha
              exact sound_ctor hfn hc (by simpa [ctorLiteralOK] using hlitok)
            · obtain ⟨a, b, rfl⟩ := args_two hlen
              obtain ⟨t1, c1, t2, c2, ha, hb, rfl⟩ := typeOfList_two hts
              obtain ⟨h1, h2⟩ := argsOK_two hargs
              have := isSubtypeArg_ext h1; subst this
              have := isSubtypeArg_ext h2; subst this
              have hsa := (ih a (by simp) _ _ _ hc ha).2
              have hsb := (ih b (by simp) _ _ _ hc hb).2
              rcases hfn with rfl | rfl | rfl | rfl <;>
                exact sound_call_binary (by decide) (by decide : extLookup _ = some (2, true)) (by decide : extSig _ = [.decimal, .decimal])
                  (fun v hv => by cases hv; rfl) (fun v hv => by cases hv; rfl)
                  (fun v w hv hw => by cases hv; cases hw; simp [callExt, SoundRes, hc]; constructor) hsa hsb
            · obtain ⟨a, rfl⟩ := args_one hlen
              obtain ⟨t, c, ha, rfl⟩ := typeOfList_one hts
              have := isSubtypeArg_ext (argsOK_one hargs); subst this
              have hsa := (ih a (by simp) _ _ _ hc ha).2
              rcases hfn with rfl | rfl | rfl | rfl <;>
                exact sound_call_unary (by decide) (by decide : extLookup _ = some (1, true)) (by decide : extSig _ = [.ip])
                  (fun v hv => by cases hv; rfl)
                  (fun v hv => by cases hv; simp [callExt, SoundRes, hc]; constructor) hsa
            · obtain ⟨a, b, rfl⟩ := args_two hlen
              obtain ⟨t1, c1, t2, c2, ha, hb, rfl⟩ := typeOfList_two hts
              obtain ⟨h1, h2⟩ := argsOK_two hargs
              have := isSubtypeArg_ext h1; subst this
              have := isSubtypeArg_ext h2; subst this
              exact sound_call_binary (by decide) (by decide : extLookup _ = some (2, true)) (by decide : extSig _ = [.ip, .ip])
                (fun v hv => by cases hv; rfl) (fun v hv => by cases hv; rfl)
                (fun v w hv hw => by cases hv; cases hw; simp [callExt, SoundRes, hc]; constructor)
                (ih a (by simp) _ _ _ hc ha).2 (ih b (by simp) _ _ _ hc hb).2
            · obtain ⟨a, rfl⟩ := args_one hlen
              obtain ⟨t, c, ha, rfl⟩ := typeOfList_one hts
              have := isSubtypeArg_ext (argsOK_one hargs); subst this
              exact sound_call_unary (by decide) (by decide : extLookup _ = some (1, true)) (by decide : extSig _ = [.datetime])
                (fun v hv => by cases hv; rfl)
                (fun v hv => by
                  -- `toDate` (repaired): checked subtraction, `overflow` is an allowed error
                  cases hv; simp only [callExt]
                  simp only [(by decide : ("toDate" == "toDate") = true), if_true]
                  split
                  · exact ⟨HasTy.datetime _, fun _ => hc⟩
                  · simp [SoundRes, Allowed])
                (ih a (by simp) _ _ _ hc ha).2
            · obtain ⟨a, rfl⟩ := args_one hlen
              obtain ⟨t, c, ha, rfl⟩ := typeOfList_one hts
              have := isSubtypeArg_ext (argsOK_one hargs); subst this
              exact sound_call_unary (by decide) (by decide : extLookup _ = some (1, true)) (by decide : extSig _ = [.datetime])
                (fun v hv => by cases hv; rfl)
                (fun v hv => by cases hv; simp [callExt, SoundRes, hc]; constructor) (ih a (by simp) _ _ _ hc ha).2
            · obtain ⟨a, b, rfl⟩ := args_two hlen
              obtain ⟨t1, c1, t2, c2, ha, hb, rfl⟩ := typeOfList_two hts
              obtain ⟨h1, h2⟩ := argsOK_two hargs
              have := isSubtypeArg_ext h1; subst this
              have := isSubtypeArg_ext h2; subst this
              exact sound_call_binary (by decide) (by decide : extLookup _ = some (2, true)) (by decide : extSig _ = [.datetime, .duration])
                (fun v hv => by cases hv; rfl) (fun v hv => by cases hv; rfl)
                (fun v w hv hw => by
                  cases hv; cases hw; simp only [callExt]
                  simp only [(by decide : ("offset" == "offset") = true), if_true]
                  split
                  · exact ⟨HasTy.datetime _, fun _ => hc⟩
                  · simp [SoundRes, Allowed])
                (ih a (by simp) _ _ _ hc ha).2 (ih b (by simp) _ _ _ hc hb).2
            · obtain ⟨a, b, rfl⟩ := args_two hlen
              obtain ⟨t1, c1, t2, c2, ha, hb, rfl⟩ := typeOfList_two hts
              obtain ⟨h1, h2⟩ := argsOK_two hargs
              have := isSubtypeArg_ext h1; subst this
              have := isSubtypeArg_ext h2; subst this
              exact sound_call_binary (by decide) (by decide : extLookup _ = some (2, true)) (by decide : extSig _ = [.datetime, .datetime])
                (fun v hv => by cases hv; rfl) (fun v hv => by cases hv; rfl)
                (fun v w hv hw => by
                  cases hv; cases hw; simp only [callExt]
                  simp only [(by decide : ("durationSince" == "offset") = false), (by decide : ("durationSince" == "durationSince") = true), if_true]
                  split
                  · exact ⟨HasTy.duration _, fun _ => hc⟩
                  · simp [SoundRes, Allowed])
                (ih a (by simp) _ _ _ hc ha).2 (ih b (by simp) _ _ _ hc hb).2
            · obtain ⟨a, rfl⟩ := args_one hlen
              obtain ⟨t, c, ha, rfl⟩ := typeOfList_one hts
              have := isSubtypeArg_ext (argsOK_one hargs); subst this
              have hsa := (ih a (by simp) _ _ _ hc ha).2
              rcases hfn with rfl | rfl | rfl | rfl | rfl <;>
                exact sound_call_unary (by decide) (by decide : extLookup _ = some (1, true)) (by decide : extSig _ = [.duration])
                  (fun v hv => by cases hv; rfl)
                  (fun v hv => by cases hv; simp [callExt, SoundRes, hc]; constructor) hsa

end calls


/-! ## Induction hypotheses for element lists, in a form structural recursion accepts -/

def AllIH (Γ : TEnv) (env : Env) : List Expr → Prop
  | [] => True
  | e :: es => IH Γ env e ∧ AllIH Γ env es

def AllIHKV (Γ : TEnv) (env : Env) : List (String × Expr) → Prop
  | [] => True
  | ke :: kes => IH Γ env ke.2 ∧ AllIHKV Γ env kes

theorem allIH_mem {Γ : TEnv} {env : Env} : ∀ {es : List Expr}, AllIH Γ env es → ∀ e ∈ es, IH Γ env e
  | [], _, e, he => by simp at he
  | e0 :: es, h, e, he => by
    rcases List.mem_cons.mp he with rfl | h'
    · exact h.1
    · exact allIH_mem h.2 e h'

theorem allIHKV_mem {Γ : TEnv} {env : Env} : ∀ {kes : List (String × Expr)}, AllIHKV Γ env kes → ∀ ke ∈ kes, IH Γ env ke.2
  | [], _, ke, he => by simp at he
  | ke0 :: kes, h, ke, he => by
    rcases List.mem_cons.mp he with rfl | h'
    · exact h.1
    · exact allIHKV_mem h.2 ke h'


/-! ## Building `HasTy` facts for concrete records (used by the non-vacuity examples) -/

theorem hasTy_record_nil : HasTy (.record []) (.record []) :=
  HasTy.record (by intro k v t req h; simp [kvGet] at h) (by intro k v h; simp [kvGet] at h) (by intro k t h; simp [lookupAttr] at h)

theorem hasTy_record_cons {k : String} {v : Value} {t : Ty} {req : Bool} {kvs : List (String × Value)} {attrs : Attrs}
    (hv : HasTy v t) (h : HasTy (.record kvs) (.record attrs)) : HasTy (.record ((k, v) :: kvs)) (.record ((k, t, req) :: attrs)) := by
  cases h with
  | record h1 h2 h3 =>
    refine HasTy.record ?_ ?_ ?_
    · intro k' v' t' req' hkv hl
      simp only [kvGet, lookupAttr] at hkv hl
      split at hkv
      · rename_i hk; simp only [hk, if_true, Option.some.injEq, Prod.mk.injEq] at hkv hl
        obtain ⟨rfl, _⟩ := hl; subst hkv; exact hv
      · rename_i hk; simp only [hk, Bool.false_eq_true, if_false] at hl; exact h1 k' v' t' req' hkv hl
    · intro k' v' hkv
      simp only [kvGet, lookupAttr] at hkv ⊢
      split at hkv
      · rename_i hk; simp [hk]
      · rename_i hk; simp only [hk, Bool.false_eq_true, if_false]; exact h2 k' v' hkv
    · intro k' t' hl
      simp only [kvGet, lookupAttr] at hl ⊢
      split at hl
      · rename_i hk; simp [hk]
      · rename_i hk; simp only [hk, Bool.false_eq_true, if_false]; exact h3 k' t' hl

/-- an optional attribute that is absent -/
theorem hasTy_record_skip {k : String} {t : Ty} {kvs : List (String × Value)} {attrs : Attrs}
    (h : HasTy (.record kvs) (.record attrs)) (hk : kvGet k kvs = none) : HasTy (.record kvs) (.record ((k, t, false) :: attrs)) := by
  cases h with
  | record h1 h2 h3 =>
    refine HasTy.record ?_ ?_ ?_
    · intro k' v' t' req' hkv hl
      simp only [lookupAttr] at hl
      split at hl
      · rename_i hkk; have : k' = k := by simpa using hkk
        subst this; rw [hk] at hkv; simp at hkv
      · exact h1 k' v' t' req' hkv hl
    · intro k' v' hkv
      simp only [lookupAttr]
      split
      · rfl
      · exact h2 k' v' hkv
    · intro k' t' hl
      simp only [lookupAttr] at hl
      split at hl
      · simp at hl
      · exact h3 k' t' hl


/-! ## The proved domain is part of what the Go algorithm accepts: `typeOf true … = ok r → typeOf false … = ok r` -/

mutual
theorem lub_dom_go (s : Bool) : ∀ (a b c : Ty), lub true s a b = some c → lub false s a b = some c
  | .set ea, b, c, h => by
    cases b <;> simp [lub] at h ⊢
    · exact h
    · rename_i eb
      obtain ⟨c', hc', rfl⟩ := h
      exact ⟨c', lub_dom_go s ea eb c' hc', rfl⟩
  | .record ra, b, c, h => by
    cases b <;> simp [lub] at h ⊢
    · exact h
    · rename_i rb
      refine ⟨h.1, ?_⟩
      have h2 := h.2
      split at h2
      · simp at h2
      · rename_i r hr
        rw [lubAttrs_dom_go s ra rb r hr]; exact h2
  | .nil, b, c, h => by cases b <;> simp [lub] at h ⊢ <;> exact h
  | .never, b, c, h => by cases b <;> simp [lub] at h ⊢ <;> exact h
  | .tt, b, c, h => by cases b <;> simp [lub] at h ⊢ <;> exact h
  | .ff, b, c, h => by cases b <;> simp [lub] at h ⊢ <;> exact h
  | .bool, b, c, h => by cases b <;> simp [lub] at h ⊢ <;> exact h
  | .long, b, c, h => by cases b <;> simp [lub] at h ⊢ <;> exact h
  | .string, b, c, h => by cases b <;> simp [lub] at h ⊢ <;> exact h
  | .entity ts, b, c, h => by cases b <;> simp [lub] at h ⊢ <;> exact h
  | .ext x, b, c, h => by cases b <;> simp [lub] at h ⊢ <;> exact h
theorem lubAttrs_dom_go (s : Bool) : ∀ (ra rb r : Attrs), lubAttrs true s ra rb = some r → lubAttrs false s ra rb = some r
  | [], rb, r, h => by simpa [lubAttrs] using h
  | (k, ta, qa) :: rest, rb, r, h => by
    simp only [lubAttrs] at h ⊢
    split at h
    · rename_i hl
      cases hrest : lubAttrs true s rest rb with
      | none => simp [hrest] at h
      | some r' => rw [lubAttrs_dom_go s rest rb r' hrest]; simpa [hrest] using h
    · rename_i tb qb hl
      split at h
      · rename_i t hlub
        rw [lub_dom_go s ta tb t hlub]
        cases hrest : lubAttrs true s rest rb with
        | none => simp [hrest] at h
        | some r' => rw [lubAttrs_dom_go s rest rb r' hrest]; simpa [hrest] using h
      · simp at h
end

theorem lubList_dom_go (s : Bool) : ∀ (ts : List Ty) (acc el : Ty), lubList true s acc ts = some el → lubList false s acc ts = some el
  | [], acc, el, h => by simpa [lubList] using h
  | t :: ts, acc, el, h => by
    simp only [lubList] at h ⊢
    split at h
    · simp at h
    · rename_i hse
      simp only [hse, if_false]
      split at h
      · simp at h
      · rename_i u hu
        rw [lub_dom_go s acc t u hu]
        exact lubList_dom_go s ts u el h

theorem lub_ne_none_go {s : Bool} {a b : Ty} (h : ¬ lub true s a b = none) : ¬ lub false s a b = none := by
  cases hl : lub true s a b with
  | none => exact absurd hl h
  | some c => simp [lub_dom_go s a b c hl]

theorem lookupEntityAttrGo_dom_go (s : Bool) (Γ : TEnv) (a : String) : ∀ (tys : List String) (res : Option (Ty × Bool)) (r : Ty × Bool),
    lookupEntityAttrGo true s Γ a res tys = some r → lookupEntityAttrGo false s Γ a res tys = some r
  | [], res, r, h => by simpa [lookupEntityAttrGo] using h
  | t :: ts, res, r, h => by
    simp only [lookupEntityAttrGo] at h ⊢
    cases hl : lookupAttr a (declOf Γ t).attrs with
    | none => simp [hl] at h
    | some q =>
      obtain ⟨ty, req⟩ := q
      simp only [hl] at h ⊢
      cases res with
      | none => exact lookupEntityAttrGo_dom_go s Γ a ts _ r h
      | some p =>
        obtain ⟨rty, rreq⟩ := p
        simp only [] at h ⊢
        cases hu : lub true s rty ty with
        | none => simp [hu] at h
        | some u =>
          simp only [hu] at h
          rw [lub_dom_go s rty ty u hu]
          exact lookupEntityAttrGo_dom_go s Γ a ts _ r h

theorem lookupEntityAttr_dom_go {s : Bool} {Γ : TEnv} {tys : List String} {a : String} {r : Ty × Bool}
    (h : lookupEntityAttr true s Γ tys a = some r) : lookupEntityAttr false s Γ tys a = some r :=
  lookupEntityAttrGo_dom_go s Γ a tys none r h

theorem entityTagType_dom_go (s : Bool) (Γ : TEnv) : ∀ (tys : List String) (acc r : Ty),
    entityTagType true s Γ acc tys = some r → entityTagType false s Γ acc tys = some r
  | [], acc, r, h => by simpa [entityTagType] using h
  | t :: ts, acc, r, h => by
    simp only [entityTagType] at h ⊢
    cases ht : (declOf Γ t).tags with
    | none => simp only [ht] at h ⊢; exact entityTagType_dom_go s Γ ts acc r h
    | some tagTy =>
      simp only [ht] at h ⊢
      cases hu : lub true s acc tagTy with
      | none => simp [hu] at h
      | some u =>
        simp only [hu] at h
        rw [lub_dom_go s acc tagTy u hu]
        exact entityTagType_dom_go s Γ ts u r h

theorem getTagResult_dom_go {Γ : TEnv} {l r : Expr} {lt rt : Ty} {caps : Caps} {res : Ty}
    (h : getTagResult true Γ l r lt rt caps = .ok res) : getTagResult false Γ l r lt rt caps = .ok res := by
  unfold getTagResult at h ⊢
  split at h
  · split at h
    · simp at h
    · rename_i tagTy ht
      rw [entityTagType_dom_go _ _ _ _ _ ht]
      exact h
  · simp at h

section domgo
variable {Γ : TEnv}

theorem equalityType_dom_go {l r : Expr} {lt rt t : Ty} {neg : Bool} (h : equalityType true Γ l r lt rt neg = .ok t) :
    equalityType false Γ l r lt rt neg = .ok t := by
  have hgen : ∀ {t}, generalEq true Γ lt rt neg = .ok t → generalEq false Γ lt rt neg = .ok t := by
    intro t hg
    unfold generalEq at hg ⊢
    split at hg
    · rename_i hd; simp only [hd, if_true]; exact hg
    · rename_i hd
      simp only [hd, Bool.false_eq_true, if_false]
      split at hg
      · simp at hg
      · rename_i hcond
        have : (Γ.strict && !lt.isNil && !rt.isNil && (lub false Γ.strict lt rt).isNone) = false := by
          cases hs : Γ.strict <;> cases hl : lt.isNil <;> cases hr : rt.isNil <;> simp [hs, hl, hr] at hcond ⊢
          exact Option.isSome_iff_ne_none.mpr (lub_ne_none_go hcond)
        simp only [this, Bool.false_eq_true, if_false]; exact hg
  unfold equalityType at h ⊢
  split at h
  · rename_i x y
    split at h
    · rename_i hxy
      simp only [hxy, if_true]
      split at h
      · simp at h
      · simpa using h
    · rename_i hxy
      simp only [hxy, Bool.false_eq_true, if_false]
      exact hgen h
  · exact h
  · exact hgen h

theorem containsAAResult_dom_go {s : Bool} {caps : Caps} {a b : TRes} {res : Ty × Caps} (h : containsAAResult true s caps a b = .ok res) :
    containsAAResult false s caps a b = .ok res := by
  unfold containsAAResult at h ⊢
  split at h
  · simp at h
  · split at h
    · simp at h
    · split at h
      · rename_i ea eb
        split at h
        · simp at h
        · rename_i hcond
          have : (s && (lub false s ea eb).isNone) = false := by
            cases s <;> simp at hcond ⊢
            exact Option.isSome_iff_ne_none.mpr (lub_ne_none_go hcond)
          simp only [this, Bool.false_eq_true, if_false]; exact h
      · simp at h

end domgo

section domgo2
variable (Γ : TEnv)

/-- both operands are always type-checked: reduce to the two sub-results -/
theorem two_ok {l r : Expr} {caps capsr : Caps} {F : TRes → TRes → TRes} {res : Ty × Caps}
    (hF : ∀ a b, F a b = .ok res → (∃ p, a = .ok p) ∧ (∃ q, b = .ok q))
    (h : F (typeOf true Γ l caps) (typeOf true Γ r capsr) = .ok res) :
    ∃ p q, typeOf true Γ l caps = .ok p ∧ typeOf true Γ r capsr = .ok q := by
  obtain ⟨⟨p, hp⟩, ⟨q, hq⟩⟩ := hF _ _ h
  exact ⟨p, q, hp, hq⟩

mutual
theorem typeOf_dom_go : ∀ (e : Expr) (caps : Caps) (res : Ty × Caps), typeOf true Γ e caps = .ok res → typeOf false Γ e caps = .ok res
  | .lit v, caps, res, h => by simp only [typeOf] at h ⊢; exact h
  | .var x, caps, res, h => by simp only [typeOf] at h ⊢; exact h
  | .unop .not e, caps, res, h => by
    simp only [typeOf] at h ⊢
    split at h
    · simp at h
    · rename_i t c he; rw [typeOf_dom_go e caps _ he]; exact h
  | .unop .neg e, caps, res, h => by
    simp only [typeOf] at h ⊢
    split at h
    · simp at h
    · rename_i t c he; rw [typeOf_dom_go e caps _ he]; exact h
  | .unop .isEmpty e, caps, res, h => by
    simp only [typeOf] at h ⊢
    split at h
    · simp at h
    · rename_i t c he; rw [typeOf_dom_go e caps _ he]; exact h
  | .like e p, caps, res, h => by
    simp only [typeOf] at h ⊢
    split at h
    · simp at h
    · rename_i t c he; rw [typeOf_dom_go e caps _ he]; exact h
  | .binop .and l r, caps, res, h => by
    simp only [typeOf] at h ⊢
    cases hl : typeOf true Γ l caps with
    | error e => simp [hl] at h
    | ok p =>
      obtain ⟨lt, lc⟩ := p
      rw [typeOf_dom_go l caps _ hl]
      simp only [hl] at h
      simp only []
      cases hr : typeOf true Γ r (caps.merge lc) with
      | ok q => rw [typeOf_dom_go r _ _ hr]; simp only [hr] at h; exact h
      | error e => simp only [hr] at h; cases lt <;> simp [isBoolTy] at h ⊢ <;> exact h
  | .binop .or l r, caps, res, h => by
    simp only [typeOf] at h ⊢
    cases hl : typeOf true Γ l caps with
    | error e => simp [hl] at h
    | ok p =>
      obtain ⟨lt, lc⟩ := p
      rw [typeOf_dom_go l caps _ hl]
      simp only [hl] at h
      simp only []
      cases hr : typeOf true Γ r caps with
      | ok q => rw [typeOf_dom_go r _ _ hr]; simp only [hr] at h; exact h
      | error e => simp only [hr] at h; cases lt <;> simp [isBoolTy] at h ⊢ <;> exact h
  | .ite c t e, caps, res, h => by
    simp only [typeOf] at h ⊢
    cases hc : typeOf true Γ c caps with
    | error e => simp [hc] at h
    | ok p =>
      obtain ⟨ct, cc⟩ := p
      rw [typeOf_dom_go c caps _ hc]
      simp only [hc] at h
      cases ct with
      | ff =>
        simp only [] at h ⊢
        split at h
        · simp at h
        · rename_i hv; simp only [hv, if_false]; exact typeOf_dom_go e caps _ h
      | tt =>
        simp only [] at h ⊢
        split at h
        · simp at h
        · rename_i hv; simp only [hv, if_false]; exact typeOf_dom_go t _ _ h
      | _ =>
        simp only [] at h ⊢
        split at h
        · simp at h
        · rename_i hb
          simp only [hb, if_false]
          split at h
          · simp at h
          · rename_i tt' tc ht
            rw [typeOf_dom_go t _ _ ht]
            split at h
            · simp at h
            · rename_i et ec he
              rw [typeOf_dom_go e _ _ he]
              simp only []
              split at h
              · simp at h
              · rename_i hse
                simp only [hse, if_false]
                split at h
                · simp at h
                · rename_i u hu
                  rw [lub_dom_go _ _ _ _ hu]; exact h
  | .binop .eq l r, caps, res, h => by
    simp only [typeOf] at h ⊢
    cases hl : typeOf true Γ l caps with
    | error e => simp [hl] at h
    | ok p =>
      obtain ⟨lt, lc⟩ := p
      rw [typeOf_dom_go l caps _ hl]; simp only [hl] at h
      cases hr : typeOf true Γ r caps with
      | error e => simp [hr] at h
      | ok q =>
        obtain ⟨rt, rc⟩ := q
        rw [typeOf_dom_go r caps _ hr]; simp only [hr] at h
        simp only []
        split at h
        · rename_i ty heq; rw [equalityType_dom_go heq]; exact h
        · simp at h
  | .binop .ne l r, caps, res, h => by
    simp only [typeOf] at h ⊢
    cases hl : typeOf true Γ l caps with
    | error e => simp [hl] at h
    | ok p =>
      obtain ⟨lt, lc⟩ := p
      rw [typeOf_dom_go l caps _ hl]; simp only [hl] at h
      cases hr : typeOf true Γ r caps with
      | error e => simp [hr] at h
      | ok q =>
        obtain ⟨rt, rc⟩ := q
        rw [typeOf_dom_go r caps _ hr]; simp only [hr] at h
        simp only []
        split at h
        · rename_i ty heq; rw [equalityType_dom_go heq]; exact h
        · simp at h
  | .binop .lt l r, caps, res, h => by
    simp only [typeOf] at h ⊢
    cases hl : typeOf true Γ l caps with
    | error e => simp [hl, cmpResult] at h
    | ok p =>
      cases hr : typeOf true Γ r caps with
      | error e => obtain ⟨lt, lc⟩ := p; simp [hl, hr, cmpResult] at h
      | ok q => rw [typeOf_dom_go l caps _ hl, typeOf_dom_go r caps _ hr]; rw [hl, hr] at h; exact h
  | .binop .le l r, caps, res, h => by
    simp only [typeOf] at h ⊢
    cases hl : typeOf true Γ l caps with
    | error e => simp [hl, cmpResult] at h
    | ok p =>
      cases hr : typeOf true Γ r caps with
      | error e => obtain ⟨lt, lc⟩ := p; simp [hl, hr, cmpResult] at h
      | ok q => rw [typeOf_dom_go l caps _ hl, typeOf_dom_go r caps _ hr]; rw [hl, hr] at h; exact h
  | .binop .gt l r, caps, res, h => by
    simp only [typeOf] at h ⊢
    cases hl : typeOf true Γ l caps with
    | error e => simp [hl, cmpResult] at h
    | ok p =>
      cases hr : typeOf true Γ r caps with
      | error e => obtain ⟨lt, lc⟩ := p; simp [hl, hr, cmpResult] at h
      | ok q => rw [typeOf_dom_go l caps _ hl, typeOf_dom_go r caps _ hr]; rw [hl, hr] at h; exact h
  | .binop .ge l r, caps, res, h => by
    simp only [typeOf] at h ⊢
    cases hl : typeOf true Γ l caps with
    | error e => simp [hl, cmpResult] at h
    | ok p =>
      cases hr : typeOf true Γ r caps with
      | error e => obtain ⟨lt, lc⟩ := p; simp [hl, hr, cmpResult] at h
      | ok q => rw [typeOf_dom_go l caps _ hl, typeOf_dom_go r caps _ hr]; rw [hl, hr] at h; exact h
  | .binop .add l r, caps, res, h => by
    simp only [typeOf] at h ⊢
    cases hl : typeOf true Γ l caps with
    | error e => simp [hl, arithResult] at h
    | ok p =>
      cases hr : typeOf true Γ r caps with
      | error e => obtain ⟨lt, lc⟩ := p; simp [hl, hr, arithResult] at h
      | ok q => rw [typeOf_dom_go l caps _ hl, typeOf_dom_go r caps _ hr]; rw [hl, hr] at h; exact h
  | .binop .sub l r, caps, res, h => by
    simp only [typeOf] at h ⊢
    cases hl : typeOf true Γ l caps with
    | error e => simp [hl, arithResult] at h
    | ok p =>
      cases hr : typeOf true Γ r caps with
      | error e => obtain ⟨lt, lc⟩ := p; simp [hl, hr, arithResult] at h
      | ok q => rw [typeOf_dom_go l caps _ hl, typeOf_dom_go r caps _ hr]; rw [hl, hr] at h; exact h
  | .binop .mul l r, caps, res, h => by
    simp only [typeOf] at h ⊢
    cases hl : typeOf true Γ l caps with
    | error e => simp [hl, arithResult] at h
    | ok p =>
      cases hr : typeOf true Γ r caps with
      | error e => obtain ⟨lt, lc⟩ := p; simp [hl, hr, arithResult] at h
      | ok q => rw [typeOf_dom_go l caps _ hl, typeOf_dom_go r caps _ hr]; rw [hl, hr] at h; exact h
  | .binop .containsAll l r, caps, res, h => by
    simp only [typeOf] at h ⊢
    cases hl : typeOf true Γ l caps with
    | error e => simp [hl, containsAAResult] at h
    | ok p =>
      cases hr : typeOf true Γ r caps with
      | error e => obtain ⟨lt, lc⟩ := p; simp [hl, hr, containsAAResult] at h
      | ok q => rw [typeOf_dom_go l caps _ hl, typeOf_dom_go r caps _ hr]; rw [hl, hr] at h; exact containsAAResult_dom_go h
  | .binop .containsAny l r, caps, res, h => by
    simp only [typeOf] at h ⊢
    cases hl : typeOf true Γ l caps with
    | error e => simp [hl, containsAAResult] at h
    | ok p =>
      cases hr : typeOf true Γ r caps with
      | error e => obtain ⟨lt, lc⟩ := p; simp [hl, hr, containsAAResult] at h
      | ok q => rw [typeOf_dom_go l caps _ hl, typeOf_dom_go r caps _ hr]; rw [hl, hr] at h; exact containsAAResult_dom_go h
  | .binop .contains l r, caps, res, h => by
    simp only [typeOf] at h ⊢
    cases hl : typeOf true Γ l caps with
    | error e => simp [hl] at h
    | ok p =>
      obtain ⟨lt, lc⟩ := p
      rw [typeOf_dom_go l caps _ hl]; simp only [hl] at h
      cases hr : typeOf true Γ r caps with
      | error e => simp [hr] at h
      | ok q =>
        obtain ⟨rt, rc⟩ := q
        rw [typeOf_dom_go r caps _ hr]; simp only [hr] at h
        simp only []
        split at h
        · rename_i el
          split at h
          · simp at h
          · rename_i hcond
            have : (!el.isNever && Γ.strict && ((lub false Γ.strict el rt).isNone || !strictEntityOK Γ.strict el rt)) = false := by
              cases hn : el.isNever <;> cases hs : Γ.strict <;> simp [hn, hs] at hcond ⊢
              exact ⟨Option.isSome_iff_ne_none.mpr (lub_ne_none_go hcond.1), hcond.2⟩
            simp only [this, Bool.false_eq_true, if_false]; exact h
        · simp at h
  | .binop .in_ l r, caps, res, h => by
    simp only [typeOf] at h ⊢
    cases hl : typeOf true Γ l caps with
    | error e => simp [hl] at h
    | ok p =>
      obtain ⟨lt, lc⟩ := p
      rw [typeOf_dom_go l caps _ hl]; simp only [hl] at h
      cases hr : typeOf true Γ r caps with
      | error e => simp [hr] at h
      | ok q =>
        obtain ⟨rt, rc⟩ := q
        rw [typeOf_dom_go r caps _ hr]; simp only [hr] at h
        exact h
  | .binop .getTag l r, caps, res, h => by
    simp only [typeOf] at h ⊢
    cases hl : typeOf true Γ l caps with
    | error e => simp [hl] at h
    | ok p =>
      obtain ⟨lt, lc⟩ := p
      rw [typeOf_dom_go l caps _ hl]; simp only [hl] at h
      cases hr : typeOf true Γ r caps with
      | error e => simp [hr] at h
      | ok q =>
        obtain ⟨rt, rc⟩ := q
        rw [typeOf_dom_go r caps _ hr]; simp only [hr] at h
        simp only []
        split at h
        · rename_i ty hg; rw [getTagResult_dom_go hg]; exact h
        · simp at h
  | .binop .hasTag l r, caps, res, h => by
    simp only [typeOf] at h ⊢
    cases hl : typeOf true Γ l caps with
    | error e => simp [hl] at h
    | ok p =>
      obtain ⟨lt, lc⟩ := p
      rw [typeOf_dom_go l caps _ hl]; simp only [hl] at h
      cases hr : typeOf true Γ r caps with
      | error e => simp [hr] at h
      | ok q =>
        obtain ⟨rt, rc⟩ := q
        rw [typeOf_dom_go r caps _ hr]; simp only [hr] at h
        exact h
  | .is e ty, caps, res, h => by
    simp only [typeOf] at h ⊢
    split at h
    · simp at h
    · rename_i t c he
      rw [typeOf_dom_go e caps _ he]
      exact h
  | .isIn e ty r, caps, res, h => by
    simp only [typeOf] at h ⊢
    cases hl : typeOf true Γ e caps with
    | error x => simp [hl] at h
    | ok p =>
      obtain ⟨lt, lc⟩ := p
      rw [typeOf_dom_go e caps _ hl]; simp only [hl] at h
      cases hr : typeOf true Γ r caps with
      | error x => simp [hr] at h
      | ok q =>
        obtain ⟨rt, rc⟩ := q
        rw [typeOf_dom_go r caps _ hr]; simp only [hr] at h
        exact h
  | .has e a, caps, res, h => by
    simp only [typeOf] at h ⊢
    split at h
    · simp at h
    · rename_i t c he
      rw [typeOf_dom_go e caps _ he]
      exact h
  | .access e a, caps, res, h => by
    simp only [typeOf] at h ⊢
    split at h
    · simp at h
    · rename_i t c he
      rw [typeOf_dom_go e caps _ he]
      simp only []
      split at h
      · exact h
      · rename_i tys
        split at h
        · simp at h
        · rename_i aty req hl
          rw [lookupEntityAttr_dom_go hl]; exact h
      · exact h
  | .set es, caps, res, h => by
    simp only [typeOf] at h ⊢
    split at h
    · simp at h
    · rename_i hne
      simp only [hne, if_false]
      split at h
      · simp at h
      · rename_i ts hts
        rw [typeOfList_dom_go es caps ts hts]
        simp only []
        split at h
        · simp at h
        · rename_i el hel
          rw [lubList_dom_go _ _ _ _ hel]; exact h
  | .record kes, caps, res, h => by
    simp only [typeOf] at h ⊢
    split at h
    · simp at h
    · rename_i attrs hattrs
      rw [typeOfKVs_dom_go kes caps attrs hattrs]; exact h
  | .call fn args, caps, res, h => by
    simp only [typeOf] at h ⊢
    split at h
    · simp at h
    · rename_i ctor sigArgs ret hsig
      split at h
      · simp at h
      · rename_i hlen
        simp only [hlen, if_false]
        split at h
        · simp at h
        · rename_i hlit
          have : (ctor && (Γ.strict || false) && !args.all isLitExpr) = false := by
            cases ctor <;> cases hs : Γ.strict <;> simp [hs] at hlit ⊢ <;> exact hlit
          simp only [this, Bool.false_eq_true, if_false]
          split at h
          · simp at h
          · rename_i ts hts
            rw [typeOfList_dom_go args caps ts hts]; exact h
theorem typeOfList_dom_go : ∀ (es : List Expr) (caps : Caps) (ts : List Ty), typeOfList true Γ es caps = .ok ts → typeOfList false Γ es caps = .ok ts
  | [], caps, ts, h => by simp only [typeOfList] at h ⊢; exact h
  | e :: es, caps, ts, h => by
    simp only [typeOfList] at h ⊢
    split at h
    · simp at h
    · rename_i t c he
      rw [typeOf_dom_go e caps _ he]
      simp only []
      split at h
      · simp at h
      · rename_i ts' hts
        rw [typeOfList_dom_go es caps ts' hts]; exact h
theorem typeOfKVs_dom_go : ∀ (kes : List (String × Expr)) (caps : Caps) (as : Attrs), typeOfKVs true Γ kes caps = .ok as → typeOfKVs false Γ kes caps = .ok as
  | [], caps, as, h => by simp only [typeOfKVs] at h ⊢; exact h
  | (k, e) :: kes, caps, as, h => by
    simp only [typeOfKVs] at h ⊢
    split at h
    · simp at h
    · rename_i t c he
      rw [typeOf_dom_go e caps _ he]
      simp only []
      split at h
      · simp at h
      · rename_i rest hrest
        rw [typeOfKVs_dom_go kes caps rest hrest]; exact h
end

end domgo2

end CedarGo.Validate
