/-
  C17, text half — the PARSER half, part C: reference lists, action parents, appliesTo.
-/
import CedarGoProofs.Lemmas.C17TextParseB
namespace CedarGo.Schema.TextParse
open CedarGo.Schema

/-! ### bracketed lists -/

theorem bracketLoopF_list {α : Type} (item : List Tok → ER α) (tk : α → List Tok) :
    ∀ (xs : List α) (n : Nat) (acc : List α) (r : List Tok),
    (∀ x ∈ xs, ∀ r', (peekT r' = .comma ∨ peekT r' = .rbrack) → item (tk x ++ r') = .ok (x, r')) →
    (∀ x ∈ xs, ∀ r', peekT (tk x ++ r') ≠ .rbrack) →
    xs.length + 1 ≤ n →
    bracketLoopF item n acc (commaSep (xs.map tk) ++ .rbrack :: r) = some (.ok (acc ++ xs, r))
  | [], n, acc, r, _, _, hn => by
    obtain ⟨m, rfl⟩ : ∃ m, n = m + 1 := ⟨n - 1, by omega⟩
    simp [commaSep, bracketLoopF]
  | [x], n, acc, r, h1, h2, hn => by
    obtain ⟨m, rfl⟩ : ∃ m, n = m + 2 := ⟨n - 2, by simp at hn; omega⟩
    simp only [List.map_cons, List.map_nil, commaSep]
    rw [bracketLoopF]
    simp only [h2 x (by simp), if_false, h1 x (by simp) (.rbrack :: r) (by simp), bindE_ok, peekT_cons, reduceCtorEq,
      ne_eq, not_true_eq_false]
    rw [bracketLoopF]
    simp
  | x :: y :: xs, n, acc, r, h1, h2, hn => by
    obtain ⟨m, rfl⟩ : ∃ m, n = m + 1 := ⟨n - 1, by omega⟩
    have ih := bracketLoopF_list item tk (y :: xs) m (acc ++ [x]) r (fun z hz => h1 z (by simp [hz]))
      (fun z hz => h2 z (by simp [hz])) (by simp at hn ⊢; omega)
    simp only [List.map_cons, commaSep, List.append_assoc, List.cons_append, List.nil_append] at ih ⊢
    rw [bracketLoopF]
    have hx := h1 x (by simp) (Tok.comma :: (commaSep (tk y :: List.map tk xs) ++ Tok.rbrack :: r)) (Or.inl rfl)
    simp only [h2 x (by simp), if_false, hx, bindE_ok, peekT_cons, if_true, advT_cons]
    exact ih

theorem peek_toksPath (n : String) (h : isTypePath n = true) (r : List Tok) (t : Tok) (h1 : ∀ s, t ≠ .ident s)
    (h2 : ∀ s, t ≠ .reserved s) : peekT (toksPath n ++ r) ≠ t := by
  obtain ⟨f, tl, e, _, _⟩ := toksPath_head n h
  rw [e]
  simp only [List.cons_append, peekT_cons]
  rcases identTok_kind f with k | k <;> rw [k]
  · exact (h1 f).symm
  · exact (h2 f).symm

/-- `parseEntityTypes` on a printed reference list -/
theorem parseEntityTypesF_toks (refs : List String) (hok : refs.all isTypePath = true) (n : Nat) (r : List Tok)
    (hn : (toksTypeRefs refs).length ≤ n) (hr : peekT r ≠ .dcolon) :
    parseEntityTypesF n (toksTypeRefs refs ++ r) = some (.ok (refs, r)) := by
  rw [List.all_eq_true] at hok
  have hlen : ∀ l : List String, (∀ x ∈ l, isTypePath x = true) → l.length ≤ (commaSep (l.map toksPath)).length := by
    intro l
    induction l with
    | nil => simp [commaSep]
    | cons x l ih =>
      intro hl
      have hx := toksPath_length_pos x (hl x (by simp))
      cases l with
      | nil => simpa [commaSep] using hx
      | cons y l =>
        have := ih (fun z hz => hl z (by simp [hz]))
        simp only [List.map_cons, commaSep, List.length_append, List.length_cons, List.length_nil] at this ⊢
        omega
  have hbr : ([Tok.lbrack] ++ commaSep (refs.map toksPath) ++ [Tok.rbrack]).length ≤ n →
      parseEntityTypesF n (([Tok.lbrack] ++ commaSep (refs.map toksPath) ++ [Tok.rbrack]) ++ r) = some (.ok (refs, r)) := by
    intro hn'
    have := hlen refs hok
    simp only [List.length_append, List.length_cons, List.length_nil] at hn'
    unfold parseEntityTypesF bracketOrOneF
    simp only [List.cons_append, List.nil_append, List.append_assoc, peekT_cons, if_true, advT_cons]
    have := bracketLoopF_list parsePath toksPath refs n [] r
      (fun x hx r' hr' => parsePath_toksPath x (hok x hx) r' (by rcases hr' with e | e <;> rw [e] <;> simp))
      (fun x hx r' => peek_toksPath x (hok x hx) r' .rbrack (by simp) (by simp)) (by omega)
    simpa using this
  unfold toksTypeRefs at hn ⊢
  split at hn
  · rename_i x
    have hx := hok x (by simp)
    unfold parseEntityTypesF bracketOrOneF
    rw [if_neg (peek_toksPath x hx r .lbrack (by simp) (by simp)), parsePath_toksPath x hx r hr]
    rfl
  · exact hbr hn

/-! ### action parents -/

theorem qualMore_stop (p : String) (r : List Tok) (h : peekT r ≠ .dcolon) : qualMore p r = .ok (("", p), r) := by
  cases r with
  | nil => rfl
  | cons t r =>
    cases t <;> first | rfl | (exact absurd rfl h)

theorem qualMore_comps : ∀ (comps : List String) (p s : String) (r : List Tok),
    qualMore p (comps.flatMap (fun c => [Tok.dcolon, .ident c]) ++ (.dcolon :: .str s :: r)) =
      .ok ((comps.foldl (fun p s => p ++ "::" ++ s) p, s), r)
  | [], p, s, r => by simp [qualMore]
  | c :: cs, p, s, r => by
    simp only [List.flatMap_cons, List.cons_append, List.nil_append, List.foldl_cons]
    rw [qualMore]
    exact qualMore_comps cs _ s r

def parentOk (p : String × String) : Bool := p.1 = "" || isTypePath p.1

theorem parseQualName_toks (p : String × String) (hok : parentOk p = true) (r : List Tok) (hr : peekT r ≠ .dcolon) :
    parseQualName (toksParentRef p ++ r) = .ok (p, r) := by
  obtain ⟨ty, id⟩ := p
  unfold parentOk at hok
  unfold toksParentRef
  by_cases h0 : ty = ""
  · subst h0
    simp only [if_true]
    unfold toksName
    by_cases hv : isValidIdent id = true
    · rw [if_pos hv]
      unfold parseQualName
      simp only [List.cons_append, List.nil_append, peekT_cons, advT_cons, pathFirst]
      rw [qualMore_stop id r hr]
    · rw [if_neg hv]
      rfl
  · simp only [h0, decide_false, Bool.false_or, if_false] at hok ⊢
    obtain ⟨f, rest, hc, hf, _, hj⟩ := isTypePath_comps ty hok
    rw [toksPath_eq ty f rest hc]
    unfold parseQualName
    simp only [List.cons_append, List.append_assoc, List.nil_append, peekT_cons, advT_cons]
    rcases identTok_kind f with k | k
    · have := pathFirst_identTok f hf
      rw [k] at this ⊢
      simp only [this]
      rw [qualMore_comps rest f id r, ← hj]
      rfl
    · have := pathFirst_identTok f hf
      rw [k] at this ⊢
      simp only [this]
      rw [qualMore_comps rest f id r, ← hj]
      rfl

theorem toksParentRef_head (p : String × String) (hok : parentOk p = true) :
    ∃ t tl, toksParentRef p = t :: tl ∧ t ≠ .rbrack ∧ t ≠ .lbrack := by
  unfold toksParentRef
  split
  · obtain ⟨t, e, hk⟩ := toksName_head p.2
    refine ⟨t, [], e, ?_, ?_⟩ <;> rcases hk with rfl | rfl <;> simp
  · rename_i h0
    unfold parentOk at hok
    simp only [h0, decide_false, Bool.false_or] at hok
    obtain ⟨f, tl, e, _, _⟩ := toksPath_head p.1 hok
    rw [e]
    refine ⟨identTok f, _, rfl, ?_, ?_⟩ <;> rcases identTok_kind f with k | k <;> rw [k] <;> simp

/-- `parseActionParents` on a printed parent list -/
theorem parseActionParentsF_toks (refs : List (String × String)) (hok : refs.all parentOk = true) (n : Nat) (r : List Tok)
    (hn : (toksParentRefs refs).length ≤ n) (hr : peekT r ≠ .dcolon) :
    parseActionParentsF n (toksParentRefs refs ++ r) = some (.ok (refs, r)) := by
  rw [List.all_eq_true] at hok
  have hpos : ∀ x, parentOk x = true → 1 ≤ (toksParentRef x).length := by
    intro x hx
    obtain ⟨t, tl, e, _, _⟩ := toksParentRef_head x hx
    rw [e]; simp
  have hlen : ∀ l : List (String × String), (∀ x ∈ l, parentOk x = true) → l.length ≤ (commaSep (l.map toksParentRef)).length := by
    intro l
    induction l with
    | nil => simp [commaSep]
    | cons x l ih =>
      intro hl
      have hx := hpos x (hl x (by simp))
      cases l with
      | nil => simpa [commaSep] using hx
      | cons y l =>
        have := ih (fun z hz => hl z (by simp [hz]))
        simp only [List.map_cons, commaSep, List.length_append, List.length_cons, List.length_nil] at this ⊢
        omega
  unfold toksParentRefs at hn ⊢
  split at hn
  · rename_i x
    have hx := hok x (by simp)
    obtain ⟨t, tl, e, _, hne⟩ := toksParentRef_head x hx
    unfold parseActionParentsF bracketOrOneF
    have hpk : peekT (toksParentRef x ++ r) ≠ .lbrack := by rw [e]; simpa using hne
    rw [if_neg hpk, parseQualName_toks x hx r hr]
    rfl
  · have := hlen refs hok
    simp only [List.length_append, List.length_cons, List.length_nil] at hn
    unfold parseActionParentsF bracketOrOneF
    simp only [List.cons_append, List.nil_append, List.append_assoc, peekT_cons, if_true, advT_cons]
    have := bracketLoopF_list parseQualName toksParentRef refs n [] r
      (fun x hx r' hr' => parseQualName_toks x (hok x hx) r' (by rcases hr' with e | e <;> rw [e] <;> simp))
      (fun x hx r' => by
        obtain ⟨t, tl, e, hne, _⟩ := toksParentRef_head x (hok x hx)
        rw [e]; simpa using hne) (by omega)
    simpa using this

/-! ### appliesTo -/

theorem typeRefs_nonempty (refs : List String) (hok : refs.all isTypePath = true) (hne : refs.isEmpty = false) :
    1 ≤ (toksTypeRefs refs).length := by
  unfold toksTypeRefs
  split
  · rename_i x
    exact toksPath_length_pos x (by simpa using hok)
  · simp

theorem appliesLoopF_principal (m : Nat) (ap : AppliesTo) (hr hc : Bool) (ps : List String) (X : List Tok)
    (hok : ps.all isTypePath = true) (hne : ps.isEmpty = false) (hn : (toksTypeRefs ps).length ≤ m) (hX : peekT X ≠ .dcolon) :
    appliesLoopF (m + 1) ap false hr hc (.ident "principal" :: .colon :: (toksTypeRefs ps ++ X)) =
      appliesLoopF m { ap with principals := ps } true hr hc (optT .comma X) := by
  rw [appliesLoopF]
  simp only [peekT_cons, advT_cons, reduceCtorEq, if_false, if_true, expectT, bindE_ok, Bool.false_eq_true,
    parseEntityTypesF_toks ps hok m X hn hX, bindR_ok, hne]

theorem appliesLoopF_resource (m : Nat) (ap : AppliesTo) (hp hc : Bool) (rs : List String) (X : List Tok)
    (hok : rs.all isTypePath = true) (hne : rs.isEmpty = false) (hn : (toksTypeRefs rs).length ≤ m) (hX : peekT X ≠ .dcolon) :
    appliesLoopF (m + 1) ap hp false hc (.ident "resource" :: .colon :: (toksTypeRefs rs ++ X)) =
      appliesLoopF m { ap with resources := rs } hp true hc (optT .comma X) := by
  rw [appliesLoopF]
  have h1 : (Tok.ident "resource" = Tok.ident "principal") = False := by simp
  simp only [peekT_cons, advT_cons, reduceCtorEq, h1, if_false, if_true, expectT, bindE_ok, Bool.false_eq_true,
    parseEntityTypesF_toks rs hok m X hn hX, bindR_ok, hne]

theorem appliesLoopF_context (sh : List String) (m : Nat) (ap : AppliesTo) (hp hr : Bool) (t : Ty) (X : List Tok)
    (hok : tyOk sh t = true) (hn : (toksTy sh t).length ≤ m) (hX1 : peekT X ≠ .dcolon) (hX2 : peekT X ≠ .langle) :
    appliesLoopF (m + 1) ap hp hr false (.ident "context" :: .colon :: (toksTy sh t ++ X)) =
      appliesLoopF m { ap with context := some (normTy sh t) } hp hr true (optT .comma X) := by
  rw [appliesLoopF]
  have h1 : (Tok.ident "context" = Tok.ident "principal") = False := by simp
  have h2 : (Tok.ident "context" = Tok.ident "resource") = False := by simp
  simp only [peekT_cons, advT_cons, reduceCtorEq, h1, h2, if_false, if_true, expectT, bindE_ok, Bool.false_eq_true,
    parseTypeF_toksTy sh t m X hok hn hX1 hX2, bindR_ok]

theorem appliesLoopF_end (m : Nat) (ap : AppliesTo) (hp hr hc : Bool) (r : List Tok) :
    appliesLoopF (m + 1) ap hp hr hc (.rbrace :: r) = some (.ok ((ap, hp, hr), .rbrace :: r)) := by
  rw [appliesLoopF]
  simp

def appliesOk (sh : List String) (ap : AppliesTo) : Bool :=
  !ap.principals.isEmpty && !ap.resources.isEmpty && ap.principals.all isTypePath && ap.resources.all isTypePath &&
    (match ap.context with | some t => tyOk sh t | none => true)

/-- `appliesTo { … }` of an action -/
theorem parseActionApplies_toks (sh : List String) (ap : AppliesTo) (hok : appliesOk sh ap = true) (n : Nat) (r : List Tok)
    (hn : (toksAppliesTo sh ap).length ≤ n) :
    parseActionApplies n (toksAppliesTo sh ap ++ r) = some (.ok (some (normAppliesTo sh ap), r)) := by
  obtain ⟨ps, rs, ctx⟩ := ap
  unfold appliesOk at hok
  simp only [Bool.and_eq_true, Bool.not_eq_true'] at hok
  obtain ⟨⟨⟨⟨hpe, hre⟩, hpo⟩, hro⟩, hco⟩ := hok
  have hp1 := typeRefs_nonempty ps hpo hpe
  have hr1 := typeRefs_nonempty rs hro hre
  unfold toksAppliesTo at hn ⊢
  simp only [hpe, hre, Bool.false_eq_true, if_false] at hn ⊢
  unfold parseActionApplies parseAppliesToF
  cases ctx with
  | none =>
    simp only [List.append_nil, List.cons_append, List.nil_append, commaSep, List.append_assoc, List.length_append,
      List.length_cons, List.length_nil] at hn ⊢
    obtain ⟨m, rfl⟩ : ∃ m, n = m + 1 + 1 + 1 := ⟨n - 3, by omega⟩
    simp only [peekT_cons, advT_cons, if_true, expectT, bindE_ok]
    rw [appliesLoopF_principal (m + 1 + 1) _ _ _ ps _ hpo hpe (by omega) (by simp), optT_cons,
      appliesLoopF_resource (m + 1) _ _ _ rs _ hro hre (by omega) (by simp), optT_ne _ _ (by simp), appliesLoopF_end]
    simp [normAppliesTo]
  | some t =>
    simp only [List.cons_append, List.nil_append, commaSep, List.append_assoc, List.length_append,
      List.length_cons, List.length_nil] at hn ⊢
    obtain ⟨m, rfl⟩ : ∃ m, n = m + 1 + 1 + 1 + 1 := ⟨n - 4, by omega⟩
    simp only [peekT_cons, advT_cons, if_true, expectT, bindE_ok]
    rw [appliesLoopF_principal (m + 1 + 1 + 1) _ _ _ ps _ hpo hpe (by omega) (by simp), optT_cons,
      appliesLoopF_resource (m + 1 + 1) _ _ _ rs _ hro hre (by omega) (by simp), optT_cons,
      appliesLoopF_context sh (m + 1) _ _ _ t _ hco (by omega) (by simp) (by simp), optT_ne _ _ (by simp), appliesLoopF_end]
    simp [normAppliesTo]

end CedarGo.Schema.TextParse
