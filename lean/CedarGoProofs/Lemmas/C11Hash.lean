/-
  C11 helper lemmas, part 5: the real hash functions respect `Value.beq`.
-/
import CedarGoProofs.Lemmas.C11SetOps
namespace CedarGo
namespace C11

/-- the set hash is the wrapping sum over the distinct members (first occurrences) -/
theorem goHashSet_eq : ∀ (l acc : List Value),
    sumU64 ((dedupV acc l).map goHash) = sumU64 (acc.reverse.map goHash) + goHashSet acc l := by
  intro l
  induction l with
  | nil => intro acc; simp [dedupV, goHashSet]
  | cons y l ih =>
    intro acc
    simp only [dedupV, goHashSet]
    split
    · exact ih acc
    · rw [ih (y :: acc)]
      simp [sumU64_append, sumU64, UInt64.add_assoc]

theorem goHash_set (l : List Value) : goHash (.set l) = sumU64 ((dedupV [] l).map goHash) := by
  rw [goHashSet_eq l []]; simp [goHash, sumU64]

theorem goHashKVs_congr (a : List (String × Value))
    (ih : ∀ kv ∈ a, ∀ w, Value.beq kv.2 w = true → goHash kv.2 = goHash w) :
    ∀ (b : List (String × Value)) (h : UInt64), Value.beqKV a b = true → goHashKVs h a = goHashKVs h b := by
  induction a with
  | nil => intro b h hb; cases b with
    | nil => rfl
    | cons _ _ => simp [Value.beqKV] at hb
  | cons kv a iha =>
    intro b h hb
    obtain ⟨k, v⟩ := kv
    cases b with
    | nil => simp [Value.beqKV] at hb
    | cons kv' b =>
      obtain ⟨k', v'⟩ := kv'
      simp only [Value.beqKV, Bool.and_eq_true, beq_iff_eq] at hb
      obtain ⟨⟨hk, hv⟩, hr⟩ := hb
      subst hk
      simp only [goHashKVs]
      rw [ih (k, v) (by simp) v' hv]
      exact iha (fun kv hkv => ih kv (by simp [hkv])) b _ hr

theorem goHash_respects_eq : HashRespectsEq goHash := by
  unfold HashRespectsEq
  apply Value.ind
  case hset =>
    intro xs ih b hb
    cases b <;> try (simp [Value.beq] at hb; done)
    rename_i ys
    rw [goHash_set, goHash_set]
    rw [beq_set_iff] at hb
    have sub1 : Sub Value.beq (dedupV [] xs) (dedupV [] ys) := by
      intro x hx
      have hx' : x ∈ xs := by rcases dedupV_sub xs [] x hx with h | h; cases h; exact h
      obtain ⟨y, hy, hxy⟩ := hb.1 x hx'
      obtain ⟨w, hw, hyw⟩ := dedupV_sup ys [] y (Or.inr hy)
      exact ⟨w, hw, beq_trans _ _ _ hxy hyw⟩
    have sub2 : Sub Value.beq (dedupV [] ys) (dedupV [] xs) := by
      intro y hy
      have hy' : y ∈ ys := by rcases dedupV_sub ys [] y hy with h | h; cases h; exact h
      obtain ⟨x, hx, hxy⟩ := hb.2 y hy'
      obtain ⟨w, hw, hxw⟩ := dedupV_sup xs [] x (Or.inr hx)
      exact ⟨w, hw, beq_trans _ _ _ (by rw [beq_symm]; exact hxy) hxw⟩
    apply sum_eq_of_sub_sub beq_symm beq_trans goHash (dedupV_noDup xs) (dedupV_noDup ys) sub1 sub2
    intro x hx y _ hxy
    have hx' : x ∈ xs := by rcases dedupV_sub xs [] x hx with h | h; cases h; exact h
    exact ih x hx' y hxy
  case hrec =>
    intro kvs ih b hb
    cases b <;> try (simp [Value.beq] at hb; done)
    rename_i kvs'
    rw [beq_record] at hb
    have := goHashKVs_congr kvs ih kvs' fnvOffset hb
    cases kvs with
    | nil => cases kvs' with
      | nil => rfl
      | cons _ _ => simp [Value.beqKV] at hb
    | cons kv kvs => cases kvs' with
      | nil => obtain ⟨_, _⟩ := kv; simp [Value.beqKV] at hb
      | cons kv' kvs' => simpa [goHash] using this
  all_goals
    intros
    rename_i b hb
    cases b <;> try (simp [Value.beq] at hb; done)
    all_goals simp_all [Value.beq, goHash]

theorem kindHash_respects_eq : HashRespectsEq kindHash := by
  intro a b h
  cases a <;> cases b <;> first | rfl | (simp [Value.beq] at h)

theorem constHash_respects_eq : HashRespectsEq constHash := fun _ _ _ => rfl
theorem wrapHash_respects_eq : HashRespectsEq wrapHash := fun _ _ _ => rfl

end C11
end CedarGo
