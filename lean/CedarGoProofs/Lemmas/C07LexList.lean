/-
  C07 ∘ C18 bridge, part 17: texts of SEVERAL policies — every policy is read back positioned at ITS first token.
-/
import CedarGoProofs.Lemmas.C07LexSuffix
import CedarGoProofs.Lemmas.C07LexNoPos
import CedarGoProofs.Lemmas.C07LexFinal
namespace CedarGo.Text
open CedarGo Lx

theorem renderList_eq (full : Bool) : ∀ ps : List Policy, renderList full ps = renderListToks full ps
  | [] => rfl
  | p :: ps => by simp only [renderList, renderListToks, renderList_eq full ps]

theorem renderListToks_strip (full : Bool) : ∀ ps : List Policy, (renderListToks full ps).map stripPos = renderListToks full ps
  | [] => rfl
  | p :: ps => by
    simp only [renderListToks, List.map_append, renderPolicy_strip, renderListToks_strip full ps]

theorem policiesLoop_positioned (full : Bool) : ∀ (ps : List Policy) (P : List Token), ps.all (policyOK full) = true →
    SP P = renderListToks full ps → ∃ d, ∀ m n, d ≤ m → d ≤ n → policiesLoop m n P = okP (positioned full ps P)
  | [], P, _, hP => by
    have : P = [] := by simpa [renderListToks, SP] using hP
    subst this
    refine ⟨1, fun m n _ hn => ?_⟩
    obtain ⟨n', rfl⟩ : ∃ n', n = n' + 1 := ⟨n - 1, by omega⟩
    rfl
  | p :: ps, P, h, hP => by
    simp only [List.all_cons, Bool.and_eq_true] at h
    obtain ⟨hne, d1, h1⟩ := policyReads_render h.1
    have hP' : SP P = renderPolicy full p ++ renderListToks full ps := hP
    have hlen : P.length = (renderPolicy full p).length + (renderListToks full ps).length := by
      have := congrArg List.length hP'
      simpa [SP] using this
    have hdrop : SP (P.drop (renderPolicy full p).length) = renderListToks full ps := by
      show (P.drop _).map stripPos = _
      rw [List.map_drop]
      have : P.map stripPos = renderPolicy full p ++ renderListToks full ps := hP'
      rw [this, List.drop_left]
    obtain ⟨d2, h2⟩ := policiesLoop_positioned full ps (P.drop (renderPolicy full p).length) h.2 hdrop
    refine ⟨d1 + d2 + 1, fun m n hm hn => ?_⟩
    obtain ⟨n', rfl⟩ : ∃ n', n = n' + 1 := ⟨n - 1, by omega⟩
    -- the first policy
    have hs := policy_SP m P
    rw [hP', h1 m (by omega) (renderListToks full ps)] at hs
    have hpk : ((peek P).ty == TokType.eof) = false := by
      have := hne (renderListToks full ps)
      rw [← hP', peek_SP, stripPos_ty] at this
      exact this
    cases hp : policy m P with
    | none => rw [hp] at hs; simp [mapPol, okP] at hs
    | some x =>
      cases x with
      | error e => rw [hp] at hs; simp [mapPol, okP] at hs
      | ok v =>
        obtain ⟨q, r⟩ := v
        rw [hp] at hs
        simp only [mapPol, okP, Option.some.injEq, Except.ok.injEq, Prod.mk.injEq] at hs
        have hq : q = { p with position := posOfC07 (peek P) } := by
          have := resetPos_eq (q := q) (p := p) hs.1.symm
          rw [this, policy_position hp]
        have hr : r = P.drop (renderPolicy full p).length := by
          apply Suf.eq_of_length (policy_suf m P (q, r) hp) ⟨_, rfl⟩
          have : r.length = (renderListToks full ps).length := by
            have := congrArg List.length hs.2
            simpa [SP] using this.symm
          rw [this, List.length_drop, hlen]; omega
        unfold policiesLoop
        simp only [hpk, Bool.false_eq_true, if_false, hp, bindP_some_ok]
        rw [hr, h2 m n' (by omega) (by omega), bindP_okP, hq]
        rfl

/-- tokens with positions whose position-erased form is the rendering of `ps` parse to `ps`, every policy positioned
    at its first token -/
theorem parsePolicies_positioned (full : Bool) (ps : List Policy) (P : List Token) (h : ps.all (policyOK full) = true)
    (hP : SP P = renderListToks full ps) : parsePolicies P = some (.ok (positioned full ps P)) := by
  obtain ⟨d, hd⟩ := policiesLoop_positioned full ps P h hP
  unfold parsePolicies
  exact fuel_canon (fun n => policiesLoop n n P) (fun n n' hn => mono_policiesLoop hn _ _ _ hn) (parseFuel P)
    (tot_policiesLoop _ _ P (by unfold parseFuel; omega) (by unfold parseFuel; omega)) d _ (fun n hn => hd n n hn hn)

/-- **text → lexer → parser** for a text of several policies -/
theorem parseBytes_positioned (full : Bool) (ps : List Policy) (lay : Layout) (h : ps.all (policyOK full) = true)
    (hadm : Admissible lay (renderListToks full ps)) :
    parseBytes (renderBytes lay (renderListToks full ps)) =
      .ok (some (.ok (positioned full ps (placedToks (renderBytes lay (renderListToks full ps)) 0 lay (renderListToks full ps))))) := by
  have hl := admissible_length _ lay hadm
  unfold parseBytes
  rw [tokensWithPos_layout lay _ hadm]
  show Except.ok (parsePolicies (parserInput _)) = _
  rw [parserInput_placed _ _ lay 0 hl]
  rw [parsePolicies_positioned full ps _ h (by
    show (placedToks _ 0 lay _).map stripPos = _
    rw [placedToks_strip _ _ lay 0 hl, renderListToks_strip])]

/-- positions of the tokens handed to the parser, as `Policy.Position`s -/
theorem parserInput_positions (lay : Layout) (ts : List Token) (h : Admissible lay ts) (hne : ts ≠ []) :
    ∀ t ∈ parserInput (placed (renderBytes lay ts) 0 lay ts), posOfC07 t = positionAt (renderBytes lay ts) t.pos.offset := by
  intro t ht
  have hdoc := renderBytes_ne_nil lay ts h hne
  have hm : t ∈ placed (renderBytes lay ts) 0 lay ts := List.dropLast_subset _ ht
  have := placed_positions (renderBytes lay ts) ts lay 0 t hm
  rw [goPos_eq_posOf _ hdoc] at this
  simp only [posOfC07, positionAt]
  rw [this]
  rfl

end CedarGo.Text
