/-
  Helper lemmas for C07: texts outside the grammar are rejected by the parser model.
-/
import CedarGoProofs.Lemmas.C07Policy
namespace CedarGo.Text
open CedarGo

/-- `relation` reads `l RELOP r` and stops — also in front of another level-3 operator (no chaining) -/
theorem relation_stops {l r : Expr} {tl tr : List Token} (op : BinOp) (tok : Token)
    (hc : contLevel tok.text = some 3) (hrel : relOp tok.text = some op)
    (h1 : (tok.text == "has") = false) (h2 : (tok.text == "like") = false) (h3 : (tok.text == "is") = false)
    (hl : ReadsAt 4 l tl) (hr : ReadsAt 4 r tr) :
    ∃ d, ∀ rest, Stop 4 (peek rest) → ∀ n, d ≤ n → relation (exprF n) n (tl ++ tok :: (tr ++ rest)) = okP (.binop op l r, rest) := by
  obtain ⟨dl, hl'⟩ := add_stops_at_rel hl
  obtain ⟨dr, hr⟩ := hr
  refine ⟨dl + dr + 2, fun rest hs n hn => ?_⟩
  have ha := hl' tok (tr ++ rest) hc n (by omega)
  have hb : add (exprF n) n (tr ++ rest) = okP (r, rest) := ole_okP (by
    have hx : contAt 4 n 1 r rest = okP (r, rest) :=
      addLoop_exit _ _ 0 _ _ (hs.ne "+" 4 rfl (by decide)) (hs.ne "-" 4 rfl (by decide))
    rw [← hx]; exact hr rest (hs.mono (by decide)) n 1 (by omega))
  unfold relation
  rw [ha, bindP_okP]
  unfold relTail
  simp [peek, adv, h1, h2, h3, hrel, hb, bindP_okP]

/-- the seven comparison operators of the grammar -/
def IsRelTok (tok : Token) (op : BinOp) : Prop :=
  contLevel tok.text = some 3 ∧ relOp tok.text = some op ∧ (tok.text == "has") = false ∧ (tok.text == "like") = false ∧
    (tok.text == "is") = false

/-- **chained relations are rejected**: `{ a RELOP b X …` where `X` is again a comparison operator, `has`,
    `like` or `is`, is a parse error of the condition, whatever follows -/
theorem condition_rejects_chain {a b : Expr} {ta tb : List Token} (op : BinOp) (t1 t2 : Token) (X : List Token)
    (h1 : IsRelTok t1 op) (h2 : contLevel t2.text = some 3)
    (ha : ReadsAt 4 a ta) (hha : HeadOK 4 ta) (hb : ReadsAt 4 b tb) :
    ∃ d, ∀ n, d ≤ n → condition n (opT "{" :: (ta ++ t1 :: (tb ++ t2 :: X))) = some (.error .exact) := by
  obtain ⟨d, hd⟩ := relation_stops op t1 h1.1 h1.2.1 h1.2.2.1 h1.2.2.2.1 h1.2.2.2.2 ha hb
  refine ⟨d + 2, fun n hn => ?_⟩
  obtain ⟨m, rfl⟩ : ∃ m, n = m + 1 := ⟨n - 1, by omega⟩
  have hs : Stop 4 (peek (t2 :: X)) := stop_tok (l := 3) h2 (by decide)
  have hrel := hd (t2 :: X) hs m (by omega)
  have hne (s : String) (l : Nat) (hsl : contLevel s = some l) (hl : l ≠ 3) : ((peek (t2 :: X)).text == s) = false := by
    apply beq_eq_false_iff_ne.mpr
    intro heq
    simp only [peek] at heq
    rw [heq, hsl] at h2
    cases h2
    exact hl rfl
  have hand : and_ (exprF m) m (ta ++ t1 :: (tb ++ t2 :: X)) = okP (.binop op a b, t2 :: X) := by
    unfold and_
    rw [hrel, bindP_okP]
    obtain ⟨m', rfl⟩ : ∃ m', m = m' + 1 := ⟨m - 1, by omega⟩
    exact andLoop_exit _ _ _ _ _ (hne "&&" 2 rfl (by decide))
  have hor : or_ (exprF m) m (ta ++ t1 :: (tb ++ t2 :: X)) = okP (.binop op a b, t2 :: X) := by
    unfold or_
    rw [hand, bindP_okP]
    obtain ⟨m', rfl⟩ : ∃ m', m = m' + 1 := ⟨m - 1, by omega⟩
    exact orLoop_exit _ _ _ _ _ (hne "||" 1 rfl (by decide))
  have hexpr : exprF (m + 1) (ta ++ t1 :: (tb ++ t2 :: X)) = okP (.binop op a b, t2 :: X) := by
    show expression (exprF m) m _ = _
    obtain ⟨t, tl, rfl, _, _, hif, _⟩ := hha
    unfold expression
    simp only [List.cons_append, peek, hif (by decide), Bool.false_eq_true, ↓reduceIte]
    simpa using hor
  have hbrace : (t2.text == "}") = false := by
    apply beq_eq_false_iff_ne.mpr
    intro heq
    rw [heq] at h2
    cases h2
  unfold condition
  simp only [exact, peek, adv, opT, beq_self_eq_true, ↓reduceIte, bindP_some_ok]
  rw [hexpr, bindP_okP]
  simp [peek, hbrace, bindP]

/-! ## reserved words -/

/-- a reserved word other than `true` / `false` cannot start a primary expression: it is not a variable,
    an entity type or a function name -/
theorem primary_rejects_reserved (E : EP) (n : Nat) (t : Token) (rest : List Token) (hty : t.ty = .keyword)
    (hkw : t.text ∈ reservedKeywords) (h1 : t.text ≠ "true") (h2 : t.text ≠ "false") :
    primary E n (t :: rest) = some (.error .primary) := by
  have hk : primKind t (peek rest) = .bad := by
    unfold primKind
    simp only [reservedKeywords, List.mem_cons, List.not_mem_nil, or_false] at hkw
    rcases hkw with h | h | h | h | h | h | h | h | h | h <;> simp_all
  unfold primary
  have e1 : peek (t :: rest) = t := rfl
  have e2 : adv (t :: rest) = rest := rfl
  simp only [e1, e2, hk]
  rfl

/-- `.` must be followed by an identifier: a reserved word as attribute or method name is rejected -/
theorem access_rejects_reserved (E : EP) (n : Nat) (lhs : Expr) (t : Token) (rest : List Token) (hty : t.ty = .keyword) :
    accessLoop E (n + 1) lhs (opT "." :: t :: rest) = some (.error .ident) := by
  unfold accessLoop
  simp [peek, adv, opT, hty, errP]

/-- a record key must be an identifier or a string: a reserved word is rejected -/
theorem recordKey_rejects_reserved (t : Token) (hty : t.ty = .keyword) : recordKey t = .error .token := by
  simp [recordKey, hty]

/-- `has` must be followed by an identifier or a string -/
theorem has_rejects_reserved (lhs : Expr) (t : Token) (rest : List Token) (hty : t.ty = .keyword) :
    parseHas lhs (t :: rest) = .error .token := by
  simp [parseHas, peek, hty]

/-- entity types and paths are made of identifiers -/
theorem path_rejects_reserved (t : Token) (rest : List Token) (hty : t.ty = .keyword) : path (t :: rest) = .error .ident := by
  simp [path, peek, hty]

theorem entity_rejects_reserved (t : Token) (rest : List Token) (hty : t.ty = .keyword) : entity (t :: rest) = .error .ident := by
  simp [entity, peek, hty]

/-! ## duplicates -/

/-- a second annotation with a key that was already seen is rejected -/
theorem annotations_rejects_duplicate (known : List String) (k : Token) (rest : List Token)
    (hk : (k.ty == .ident || k.ty == .keyword) = true) (hdup : known.contains k.text = true) :
    annotations known (opT "@" :: k :: opT "(" :: rest) = .error .dupAnnotation := by
  have hdup' : k.text ∈ known := by simpa using hdup
  unfold annotations
  simp [opT, hk, hdup']

theorem annotations_two_equal (k v1 v2 : String) (rest : List Token) :
    annotations [] (opT "@" :: idT k :: opT "(" :: strT v1 :: opT ")" :: opT "@" :: idT k :: opT "(" :: strT v2 :: opT ")" :: rest)
      = .error .dupAnnotation := by
  have h2 := annotations_rejects_duplicate [k] (idT k) (strT v2 :: opT ")" :: rest) rfl (by simp [idT])
  have e1 : ((strT v1).ty != TokType.string) = false := rfl
  have e2 : (idT k).text = k := rfl
  rw [annotations]
  simp only [opT, bne_self_eq_false, Bool.false_eq_true, ↓reduceIte, List.contains_nil, e1, strVal_strT v1, e2]
  simp only [opT, idT] at h2
  simp only [idT, h2]
  rfl

/-- a record entry whose key was already seen is rejected (after its value has been parsed) -/
theorem recordLoop_rejects_duplicate (E : EP) (n : Nat) (known : List String) (kt : Token) (k : String) (ts1 : List Token)
    (v : Expr) (ts2 : List Token) (hne : (kt.text == "}") = false) (hk : recordKey kt = .ok k)
    (hv : E ts1 = okP (v, ts2)) (hdup : known.contains k = true) :
    recordLoop E (n + 1) known (kt :: opT ":" :: ts1) = some (.error .dupKey) := by
  unfold recordLoop
  simp only [peek, adv, hne, Bool.false_eq_true, ↓reduceIte, hk, bindP_some_ok, exact, opT, beq_self_eq_true]
  rw [hv, bindP_okP]
  simp only [hdup, ↓reduceIte]
  rfl

/-! ## extension functions -/

theorem call_rejects_unknown (E : EP) (n : Nat) (name : String) (rest : List Token) (h : extLookup name = none) :
    entityOrExtFun E n name (opT "(" :: rest) = some (.error .notFunction) := by
  unfold entityOrExtFun
  simp [opT, checkFunction, h, bindP]

theorem call_rejects_method_as_function (E : EP) (n : Nat) (name : String) (ar : Nat) (rest : List Token)
    (h : extLookup name = some (ar, true)) :
    entityOrExtFun E n name (opT "(" :: rest) = some (.error .methodAsFunction) := by
  unfold entityOrExtFun
  simp [opT, checkFunction, h, bindP]

def builtinMethods : List String := ["contains", "containsAll", "containsAny", "hasTag", "getTag", "isEmpty"]

theorem method_rejects_unknown (name : String) (lhs : Expr) (args : List Expr) (hb : name ∉ builtinMethods)
    (h : extLookup name = none) : mkMethod name lhs args = .error .notMethod := by
  simp only [builtinMethods, List.mem_cons, List.not_mem_nil, or_false, not_or] at hb
  unfold mkMethod
  simp [hb.1, hb.2.1, hb.2.2.1, hb.2.2.2.1, hb.2.2.2.2.1, hb.2.2.2.2.2, h]

theorem method_rejects_function_as_method (name : String) (ar : Nat) (lhs : Expr) (args : List Expr) (hb : name ∉ builtinMethods)
    (h : extLookup name = some (ar, false)) : mkMethod name lhs args = .error .functionAsMethod := by
  simp only [builtinMethods, List.mem_cons, List.not_mem_nil, or_false, not_or] at hb
  unfold mkMethod
  simp [hb.1, hb.2.1, hb.2.2.1, hb.2.2.2.1, hb.2.2.2.2.1, hb.2.2.2.2.2, h]

end CedarGo.Text
