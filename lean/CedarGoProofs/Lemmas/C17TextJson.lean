/-
  C17 — the bridge between the two halves: every schema of the TEXT fragment (`SchemaTextOk`), once normalised by the
  text trip (`normSchema`), is a schema the JSON form represents faithfully (`SchemaJsonOk`), so the JSON round-trip
  theorem `unmarshal_marshalSchema` applies to it.  The only extra hypothesis is the one the JSON encoder itself imposes:
  the memberOf lists are in the order `sort.Strings` puts them (`ParentsSorted`).

  The two name checkers (names.go for JSON = `checkNames`, the text grammar = `SchemaTextOk`) agree: `splitSepAux` and
  `splitPathAux` are the same function, the reserved lists coincide, identifiers are tested by the same `isValidIdent`.
-/
import CedarGoProofs.Lemmas.C17
import CedarGoProofs.Lemmas.C17TextDefs
import CedarGoProofs.Lemmas.C17TextParseA
namespace CedarGo.Schema.TextJson
open CedarGo.Schema
open CedarGo.Schema.TextParse

/-- every entity type's memberOf list is in the order the JSON encoder writes it -/
def ParentsSorted (s : Schema) : Bool :=
  s.bare.entities.all (fun e => decide (sortStrs e.2.parents = e.2.parents)) &&
  s.namespaces.all (fun nd => nd.2.entities.all (fun e => decide (sortStrs e.2.parents = e.2.parents)))

/-! ### validation of the statement on samples (Bool version of `SchemaJsonOk`) -/

def nsJsonChk (d : Namespace) : Bool :=
  d.entities.all (fun e => decide (sortStrs e.2.parents = e.2.parents)) &&
  d.enums.all (fun e => !e.2.values.isEmpty) &&
  d.entities.all (fun e => d.enums.all fun en => en.1 != e.1) &&
  checkNames (marshalNamespace d)

def schemaJsonChk (s : Schema) : Bool :=
  nsJsonChk s.bare && s.bare.anns.isEmpty &&
  s.namespaces.all (fun nd => nsJsonChk nd.2 && nd.1 != "" && isPathJ nd.1)

/-! ### names: the two checkers agree -/

theorem splitSepAux_eq : ∀ (cur l : List Char), splitSepAux cur l = splitPathAux cur l
  | cur, [] => by simp [splitSepAux, splitPathAux]
  | cur, [c] => by simp [splitSepAux, splitPathAux]
  | cur, c :: d :: rest => by
    rw [splitSepAux, splitPathAux, splitSepAux_eq [] rest, splitSepAux_eq (c :: cur) (d :: rest)]

theorem splitSep_eq (n : String) : splitSep n = pathComps n := by
  unfold splitSep pathComps
  rw [splitSepAux_eq]

theorem reserved_eq : reservedTypeNamesJ = reservedTypeNames := rfl

theorem isTypeNameJ_of_isTypePath (n : String) (h : isTypePath n = true) : isTypeNameJ n = true := by
  obtain ⟨f, rest, hc, hf, hr, _⟩ := isTypePath_comps n h
  unfold isTypeNameJ
  rw [splitSep_eq, hc]
  simp only [hf, hr, Bool.and_self]

theorem all_isTypeNameJ (l : List String) (h : l.all isTypePath = true) : l.all isTypeNameJ = true := by
  rw [List.all_eq_true] at h ⊢
  exact fun x hx => isTypeNameJ_of_isTypePath x (h x hx)

theorem isPathJ_of_isNsPath (n : String) (h : isNsPath n = true) : isPathJ n = true ∧ n ≠ "" := by
  unfold isNsPath at h
  simp only [Bool.and_eq_true] at h
  refine ⟨?_, ?_⟩
  · unfold isPathJ
    rw [splitSep_eq]
    exact h.1
  · intro e
    subst e
    exact absurd h.1 (by decide +kernel)

theorem annKeysOk_sortedKV (a : Anns) (h : annsOk a = true) : annKeysOk (sortedKV a) = true := by
  unfold annsOk at h
  simp only [Bool.and_eq_true] at h
  exact all_sortedKV a _ h.1

/-! ### types -/

theorem jtypeNamesOk_typeRef (n : String) : jtypeNamesOk (marshalTy (.typeRef n)) = isTypeNameJ n := by
  simp [marshalTy, jtypeNamesOk]

mutual
theorem tyNames (sh : List String) : ∀ t : Ty, tyOk sh t = true → jtypeNamesOk (marshalTy (normTy sh t)) = true
  | .string, h => by
    rw [normTy, jtypeNamesOk_typeRef]; exact isTypeNameJ_of_isTypePath _ (by simpa [tyOk] using h)
  | .long, h => by
    rw [normTy, jtypeNamesOk_typeRef]; exact isTypeNameJ_of_isTypePath _ (by simpa [tyOk] using h)
  | .bool, h => by
    rw [normTy, jtypeNamesOk_typeRef]; exact isTypeNameJ_of_isTypePath _ (by simpa [tyOk] using h)
  | .ext n, h => by
    rw [normTy, jtypeNamesOk_typeRef]; exact isTypeNameJ_of_isTypePath _ (by simpa [tyOk] using h)
  | .entityRef n, h => by
    rw [normTy, jtypeNamesOk_typeRef]; exact isTypeNameJ_of_isTypePath _ (by simpa [tyOk] using h)
  | .typeRef n, h => by
    rw [normTy, jtypeNamesOk_typeRef]; exact isTypeNameJ_of_isTypePath _ (by simpa [tyOk] using h)
  | .set e, h => by
    have := tyNames sh e (by simpa [tyOk] using h)
    simpa [normTy, marshalTy, jtypeNamesOk] using this
  | .record as, h => by
    have h' : attrsOk sh as = true := by
      simp only [tyOk, Bool.and_eq_true] at h
      exact h.1
    have := attrsNames sh as h'
    simpa [normTy, marshalTy, jtypeNamesOk] using this
theorem attrsNames (sh : List String) : ∀ as : Attrs, attrsOk sh as = true → jattrsNamesOk (marshalAttrs (normAttrs sh as)) = true
  | .nil, _ => by simp [normAttrs, marshalAttrs, jattrsNamesOk]
  | .cons n o a t rest, h => by
    simp only [attrsOk, Bool.and_eq_true] at h
    have h1 := annKeysOk_sortedKV a h.1.1
    have h2 := tyNames sh t h.1.2
    have h3 := attrsNames sh rest h.2
    simp [normAttrs, marshalAttrs, jattrsNamesOk, h1, h2, h3]
end

theorem optTyNames (sh : List String) (t : Option Ty) (h : (match t with | some t => tyOk sh t | none => true) = true) :
    (match (t.map (normTy sh)).map marshalTy with | some t => jtypeNamesOk t | none => true) = true := by
  cases t with
  | none => rfl
  | some t => exact tyNames sh t h

/-! ### `sort.Strings` keeps the elements -/

theorem mem_insertSortedStr (x a : String) : ∀ l : List String, a ∈ insertSortedStr x l → a = x ∨ a ∈ l
  | [], h => by simpa [insertSortedStr] using h
  | y :: ys, h => by
    unfold insertSortedStr at h
    split at h
    · simpa using h
    · rcases List.mem_cons.mp h with h | h
      · exact Or.inr (by simp [h])
      · rcases mem_insertSortedStr x a ys h with h | h
        · exact Or.inl h
        · exact Or.inr (by simp [h])

theorem mem_sortStrs (a : String) : ∀ l : List String, a ∈ sortStrs l → a ∈ l
  | [], h => by simp [sortStrs] at h
  | x :: xs, h => by
    have h' : a ∈ insertSortedStr x (sortStrs xs) := h
    rcases mem_insertSortedStr x a _ h' with h | h
    · simp [h]
    · exact List.mem_cons_of_mem _ (mem_sortStrs a xs h)

theorem all_sortStrs (p : String → Bool) (l : List String) (h : l.all p = true) : (sortStrs l).all p = true := by
  rw [List.all_eq_true] at h ⊢
  exact fun x hx => h x (mem_sortStrs x l hx)

/-! ### declarations -/

theorem entityNames (sh : List String) (e : String × Entity) (h : entityOk sh e = true) :
    (fun (e : String × JEntityType) => isValidIdent e.1 && annKeysOk e.2.anns && e.2.memberOfTypes.all isTypeNameJ &&
      (match e.2.shape with | some t => jshapeNamesOk t | none => true) &&
      (match e.2.tags with | some t => jtypeNamesOk t | none => true)) (e.1, marshalEntity (normEntity sh e.2)) = true := by
  obtain ⟨name, anns, parents, shape, tags⟩ := e
  simp only [entityOk, Bool.and_eq_true] at h
  obtain ⟨⟨⟨⟨h1, h2⟩, h3⟩, h4⟩, h5⟩ := h
  have a2 := annKeysOk_sortedKV anns h2
  have a3 := all_sortStrs _ _ (all_isTypeNameJ parents h3)
  have a5 := optTyNames sh tags h5
  have a4 : (match (shape.map (normAttrs sh)).map (fun as => marshalTy (.record as)) with
      | some t => jshapeNamesOk t | none => true) = true := by
    cases shape with
    | none => rfl
    | some as =>
      simp only [tyOk, Bool.and_eq_true] at h4
      have := attrsNames sh as h4.1
      simpa [marshalTy, jshapeNamesOk] using this
  simp only [marshalEntity, normEntity, h1, a2, a3, a4, a5, Bool.and_self]

theorem enumNames (e : String × Enum) (h : enumOk e = true) :
    (fun (e : String × JEntityType) => isValidIdent e.1 && annKeysOk e.2.anns && e.2.memberOfTypes.all isTypeNameJ &&
      (match e.2.shape with | some t => jshapeNamesOk t | none => true) &&
      (match e.2.tags with | some t => jtypeNamesOk t | none => true)) (e.1, marshalEnum (normEnum e.2)) = true := by
  obtain ⟨name, anns, values⟩ := e
  simp only [enumOk, Bool.and_eq_true] at h
  have a2 := annKeysOk_sortedKV anns h.1.2
  simp [marshalEnum, normEnum, h.1.1, a2]

theorem actionNames (sh : List String) (a : String × Action) (h : actionOk sh a = true) :
    (fun (a : String × JAction) => annKeysOk a.2.anns && a.2.memberOf.all (fun p => p.2 = "" || isTypeNameJ p.2) &&
      (match a.2.appliesTo with
       | some ap => ap.principalTypes.all isTypeNameJ && ap.resourceTypes.all isTypeNameJ &&
          (match ap.context with | some t => jtypeNamesOk t | none => true)
       | none => true)) (a.1, marshalAction (normAction sh a.2)) = true := by
  obtain ⟨name, anns, parents, ap⟩ := a
  simp only [actionOk, Bool.and_eq_true] at h
  obtain ⟨⟨h1, h2⟩, h3⟩ := h
  have a1 := annKeysOk_sortedKV anns h1
  have a2 : (parents.map fun p => (p.2, p.1)).all (fun p => decide (p.2 = "") || isTypeNameJ p.2) = true := by
    rw [List.all_eq_true] at h2 ⊢
    intro x hx
    obtain ⟨p, hp, rfl⟩ := List.mem_map.mp hx
    have := h2 p hp
    simp only [Bool.or_eq_true, decide_eq_true_eq] at this ⊢
    rcases this with h | h
    · exact Or.inl h
    · exact Or.inr (isTypeNameJ_of_isTypePath _ h)
  cases ap with
  | none => simp [marshalAction, normAction, a1, a2]
  | some ap =>
    obtain ⟨ps, rs, ctx⟩ := ap
    simp only [Bool.and_eq_true] at h3
    obtain ⟨⟨⟨_, hps⟩, hrs⟩, hctx⟩ := h3
    have b1 := all_isTypeNameJ ps hps
    have b2 := all_isTypeNameJ rs hrs
    have b3 := optTyNames sh ctx hctx
    simp only [marshalAction, normAction, normAppliesTo, Option.map_some, a1, a2, b1, b2, b3, Bool.and_self]

theorem commonNames (sh : List String) (c : String × CommonType) (h : commonOk sh c = true) :
    (fun (c : String × JCommonType) => isValidIdent c.1 && !reservedTypeNamesJ.contains c.1 && annKeysOk c.2.anns &&
      jtypeNamesOk c.2.ty) (c.1, ({ ty := marshalTy (normCommon sh c.2).ty, anns := (normCommon sh c.2).anns } : JCommonType)) = true := by
  obtain ⟨name, anns, ty⟩ := c
  simp only [commonOk, Bool.and_eq_true] at h
  obtain ⟨⟨⟨h1, h2⟩, h3⟩, h4⟩ := h
  have a3 := annKeysOk_sortedKV anns h3
  have a4 := tyNames sh ty h4
  rw [← reserved_eq] at h2
  simp only [normCommon, h1, h2, a3, a4, Bool.and_self]

/-! ### one namespace -/

theorem namespaceJsonOk_normDecls (sh : List String) (anns : Anns) (d : Namespace)
    (hd : declsOk sh d = true) (ha : annKeysOk anns = true)
    (hp : d.entities.all (fun e => decide (sortStrs e.2.parents = e.2.parents)) = true) :
    NamespaceJsonOk (normDecls sh anns d) := by
  simp only [declsOk, Bool.and_eq_true] at hd
  obtain ⟨⟨⟨⟨⟨⟨hents, henums⟩, hacts⟩, hcts⟩, hnd⟩, _⟩, _⟩ := hd
  rw [List.all_eq_true] at hents henums hacts hcts hp
  refine ⟨?_, ?_, ?_, ?_⟩
  · intro e he
    obtain ⟨e0, he0, rfl⟩ := List.mem_map.mp he
    have := hp e0 ((mem_sortedKV _ _).mp he0)
    simpa [normEntity] using this
  · intro e he
    obtain ⟨e0, he0, rfl⟩ := List.mem_map.mp he
    have := henums e0 ((mem_sortedKV _ _).mp he0)
    simp only [enumOk, Bool.and_eq_true, Bool.not_eq_true', List.isEmpty_eq_false_iff] at this
    simpa [normEnum] using this.2
  · intro e he en hen
    obtain ⟨e0, he0, rfl⟩ := List.mem_map.mp he
    obtain ⟨en0, hen0, rfl⟩ := List.mem_map.mp hen
    have he0' := (mem_sortedKV _ _).mp he0
    have hen0' := (mem_sortedKV _ _).mp hen0
    have hnd' := (nodupKeys_iff _).mp hnd
    have := (List.nodup_append.mp hnd').2.2 e0.1 (List.mem_map.mpr ⟨e0, he0', rfl⟩) en0.1 (List.mem_map.mpr ⟨en0, hen0', rfl⟩)
    exact fun h => this h.symm
  · unfold checkNames
    simp only [Bool.and_eq_true]
    refine ⟨⟨⟨?_, ?_⟩, ?_⟩, ?_⟩
    · exact ha
    · rw [List.all_eq_true]
      intro x hx
      simp only [marshalNamespace, normDecls, List.map_map] at hx
      obtain ⟨c, hc, rfl⟩ := List.mem_map.mp hx
      exact commonNames sh c (hcts c ((mem_sortedKV _ _).mp hc))
    · rw [List.all_eq_true]
      intro x hx
      simp only [marshalNamespace, normDecls] at hx
      rcases List.mem_append.mp hx with hx | hx
      · obtain ⟨e1, he1, rfl⟩ := List.mem_map.mp hx
        obtain ⟨e0, he0, rfl⟩ := List.mem_map.mp (List.mem_filter.mp he1).1
        exact entityNames sh e0 (hents e0 ((mem_sortedKV _ _).mp he0))
      · obtain ⟨e1, he1, rfl⟩ := List.mem_map.mp hx
        obtain ⟨e0, he0, rfl⟩ := List.mem_map.mp he1
        exact enumNames e0 (henums e0 ((mem_sortedKV _ _).mp he0))
    · rw [List.all_eq_true]
      intro x hx
      simp only [marshalNamespace, normDecls, List.map_map] at hx
      obtain ⟨a, ha', rfl⟩ := List.mem_map.mp hx
      exact actionNames sh a (hacts a ((mem_sortedKV _ _).mp ha'))

/-! ### the schema -/

/-- **every schema of the text fragment, once normalised by the text trip, is one the JSON form represents faithfully**
    (given that the memberOf lists are in `sort.Strings` order, the order in which the JSON encoder writes them) -/
theorem schemaJsonOk_normSchema (s : Schema) (h : SchemaTextOk s = true) (hp : ParentsSorted s = true) :
    SchemaJsonOk (normSchema s) := by
  simp only [SchemaTextOk, Bool.and_eq_true] at h
  obtain ⟨⟨hb, hns⟩, _⟩ := h
  simp only [ParentsSorted, Bool.and_eq_true] at hp
  obtain ⟨hpb, hpn⟩ := hp
  rw [List.all_eq_true] at hns hpn
  refine ⟨?_, rfl, ?_⟩
  · exact namespaceJsonOk_normDecls _ [] s.bare hb rfl hpb
  · intro nd hnd
    simp only [normSchema] at hnd
    obtain ⟨nd0, hnd0, rfl⟩ := List.mem_map.mp hnd
    have hm := (mem_sortedKV _ _).mp hnd0
    have h1 := hns nd0 hm
    simp only [Bool.and_eq_true] at h1
    obtain ⟨⟨hpath, hanns⟩, hdecls⟩ := h1
    obtain ⟨p1, p2⟩ := isPathJ_of_isNsPath nd0.1 hpath
    exact ⟨namespaceJsonOk_normDecls _ _ nd0.2 hdecls (annKeysOk_sortedKV _ hanns) (hpn nd0 hm), p2, p1⟩

/-- so the JSON round trip is the identity on it -/
theorem unmarshal_marshal_normSchema (s : Schema) (h : SchemaTextOk s = true) (hp : ParentsSorted s = true) :
    unmarshalSchema (marshalSchema (normSchema s)) = .ok (normSchema s) :=
  unmarshal_marshalSchema _ (schemaJsonOk_normSchema s h hp)

/-- the hypotheses are satisfiable (a schema with built-in shadowing, `__cedar` paths, enums, actions, a nested namespace
    name), and the Bool rendering of the conclusion evaluates to `true` on it -/
def demoNs : Namespace where
  anns := [("in", "x")]
  entities := [("E", { parents := ["B", "E"], shape := some (.cons "a b" true [("if", "")] (.set .string) .nil),
                       tags := some (.entityRef "__cedar::X") })]
  enums := [("Color", { values := ["red", ""] })]
  commonTypes := [("T", { ty := .record (.cons "x" false [] (.typeRef "__cedar::Long") .nil) })]
  actions := [("view", { parents := [("", "a b"), ("N::M::Action", "q")],
                         appliesTo := some { principals := ["E"], resources := ["B"], context := some (.typeRef "T") } })]

def demo : Schema where
  bare := { anns := [("lost", "")],
            entities := [("Long", { tags := some .long }), ("B", { parents := ["Long", "N::M::E"] })],
            commonTypes := [("ipaddr", { ty := .ext "ipaddr" })], actions := [("a b", {})] }
  namespaces := [("N::M", demoNs)]

example : SchemaTextOk demo = true ∧ ParentsSorted demo = true ∧ schemaJsonChk (normSchema demo) = true := by
  decide +kernel

end CedarGo.Schema.TextJson
