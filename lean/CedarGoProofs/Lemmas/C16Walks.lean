/-
  C16: from the DFS result to the totality of `isActionDescendant` with the explicit fuel `|actions| + 1`.
-/
import CedarGoProofs.Lemmas.C16Resolve
namespace CedarGo.Schema

/-- keep only the LAST occurrence of every element -/
def dedupLast {α} [DecidableEq α] : List α → List α
  | [] => []
  | u :: d => if u ∈ d then dedupLast d else u :: dedupLast d

theorem mem_dedupLast {α} [DecidableEq α] (x : α) : ∀ (l : List α), x ∈ dedupLast l ↔ x ∈ l
  | [] => by simp [dedupLast]
  | u :: d => by
    unfold dedupLast
    have ih := mem_dedupLast x d
    split
    · rename_i hu
      rw [ih, List.mem_cons]
      constructor
      · exact Or.inr
      · rintro (rfl | h)
        · exact hu
        · exact h
    · simp [ih]

theorem nodup_dedupLast {α} [DecidableEq α] : ∀ (l : List α), (dedupLast l).Nodup
  | [] => by simp [dedupLast]
  | u :: d => by
    unfold dedupLast
    split
    · exact nodup_dedupLast d
    · rename_i hu
      exact List.nodup_cons.mpr ⟨fun h => hu ((mem_dedupLast u d).mp h), nodup_dedupLast d⟩

theorem Closed.dedupLast {α} [DecidableEq α] {succ : α → List α} {D : List α} (h : Closed succ D) :
    Closed succ (dedupLast D) := by
  induction h with
  | nil => exact Closed.nil
  | @cons u d hs _ ih =>
    unfold CedarGo.Schema.dedupLast
    split
    · exact ih
    · exact Closed.cons (fun p hp => (mem_dedupLast p d).mpr (hs p hp)) ih

theorem Closed.filter {α} [DecidableEq α] {succ : α → List α} {D : List α} (h : Closed succ D) (U : List α)
    (hU : ∀ x ∈ U, ∀ p ∈ succ x, p ∈ U) : Closed succ (D.filter fun x => decide (x ∈ U)) := by
  induction h with
  | nil => exact Closed.nil
  | @cons u d hs _ ih =>
    simp only [List.filter_cons]
    split
    · rename_i hu
      have huU : u ∈ U := by simpa using hu
      exact Closed.cons (fun p hp => List.mem_filter.mpr ⟨hs p hp, by simpa using hU u huU p hp⟩) ih
    · exact ih

/-- a successors-in-the-tail order covering the successor-closed set `U` can be cut down to one of length ≤ |U| -/
theorem Closed.shrink {α} [DecidableEq α] {succ : α → List α} {D : List α} (h : Closed succ D) (U : List α)
    (hU : ∀ x ∈ U, ∀ p ∈ succ x, p ∈ U) (hcov : ∀ x ∈ U, x ∈ D) :
    ∃ D', Closed succ D' ∧ D'.length ≤ U.length ∧ ∀ x ∈ U, x ∈ D' := by
  refine ⟨CedarGo.Schema.dedupLast (D.filter fun x => decide (x ∈ U)), (h.filter U hU).dedupLast, ?_, ?_⟩
  · apply length_le_of_nodup_subset _ _ (nodup_dedupLast _)
    intro x hx
    have := (mem_dedupLast x _).mp hx
    simpa using (List.mem_filter.mp this).2
  · intro x hx
    exact (mem_dedupLast x _).mpr (List.mem_filter.mpr ⟨hcov x hx, by simp [hx]⟩)

theorem lookup_some_mem_pair {α β} [BEq α] [LawfulBEq α] (k : α) (v : β) :
    ∀ (l : List (α × β)), l.lookup k = some v → (k, v) ∈ l
  | [], h => by simp [List.lookup] at h
  | (a, b) :: l, h => by
    simp only [List.lookup] at h
    by_cases hk : k = a
    · subst hk
      simp at h
      simp [h]
    · have : (k == a) = false := by simpa using hk
      rw [this] at h
      exact List.mem_cons_of_mem _ (lookup_some_mem_pair k v l h)

/-- when every declared parent is a declared action, the set of action uids is closed under `actionParents` -/
theorem actionParents_closed (rs : RSchema)
    (hpar : ∀ a ∈ rs.actions, ∀ p ∈ a.2.parents, p ∈ rs.actions.map (·.1)) :
    ∀ x ∈ rs.actions.map (·.1), ∀ p ∈ rs.actionParents x, p ∈ rs.actions.map (·.1) := by
  intro x _ p hp
  unfold RSchema.actionParents at hp
  split at hp
  · rename_i a ha
    exact hpar (x, a) (lookup_some_mem_pair x a _ ha) p hp
  · cases hp

theorem actionParents_of_not_mem (rs : RSchema) (x : UID) (h : x ∉ rs.actions.map (·.1)) : rs.actionParents x = [] := by
  unfold RSchema.actionParents
  split
  · rename_i a ha
    exact absurd (List.mem_map.mpr ⟨(x, a), lookup_some_mem_pair x a _ ha, rfl⟩) h
  · rfl

theorem fbind_ne_none {α β} (x : Fuelled α) (f : α → Fuelled β) (hx : x ≠ none) (hf : ∀ a, f a ≠ none) : fbind x f ≠ none := by
  unfold fbind
  split
  · exact absurd rfl hx
  · simp
  · exact hf _

theorem fmapM_ne_none {α β} (f : α → Fuelled β) : ∀ (l : List α), (∀ a ∈ l, f a ≠ none) → fmapM f l ≠ none
  | [], _ => by simp [fmapM]
  | a :: l, h => by
    unfold fmapM
    apply fbind_ne_none _ _ (h a (by simp))
    intro b
    apply fbind_ne_none _ _ (fmapM_ne_none f l (fun x hx => h x (by simp [hx])))
    intro bs
    simp

end CedarGo.Schema
