/-
  C07 ∘ C18 bridge, part 8: separators (whitespace, `// …`, `/* … */`) are skipped by `nextToken`.
-/
import CedarGoProofs.Lemmas.C07LexMain
namespace CedarGo.Text
open Lx

theorem scanComment_line {σ : Type} (S : Src σ) (F : Nat) (ch : Rune) (s : σ) (h : ch = 47) :
    scanComment S F ch s = lineCommentLoop S F (S.next s).1 (S.next s).2 := by
  subst h; simp [scanComment]

theorem scanComment_block {σ : Type} (S : Src σ) (F : Nat) (ch : Rune) (s : σ) (h : ch = 42) :
    scanComment S F ch s = blockCommentLoop S F (S.next s).1 (S.next s).2 := by
  subst h; simp [scanComment]

/-- `/` followed by `/` or `*`: `nextToken` scans a comment and starts over -/
theorem tokenFrom_cfg_comment (doc : List UInt8) (F f k : Nat) (ts : Option Nat) (pos : Pos) (c1 : Char) (Y : List Char)
    (hc1 : c1.toNat = 47 ∨ c1.toNat = 42) (h : Ok doc F k ('/' :: c1 :: Y)) :
    tokenFrom pureSrc F (f + 1) (cfg doc k ts pos ('/' :: c1 :: Y)).1 (cfg doc k ts pos ('/' :: c1 :: Y)).2
      = tokenFrom pureSrc F f
          (scanComment pureSrc F (Int.ofNat c1.toNat)
            (cfg doc (k + ('/' : Char).utf8Size) none { goPos doc k with line := 0 } (c1 :: Y)).2).1
          (scanComment pureSrc F (Int.ofNat c1.toNat)
            (cfg doc (k + ('/' : Char).utf8Size) none { goPos doc k with line := 0 } (c1 :: Y)).2).2 := by
  have hw := skipWs_none h ts pos rfl
  have hnext : pureSrc.next (pureSrc.tokMark (cfg doc k ts pos ('/' :: c1 :: Y)).2)
      = cfg doc (k + ('/' : Char).utf8Size) (some k) (goPos doc k) (c1 :: Y) := by
    rw [tokMark_cfg, next_cfg doc k _ _ '/' (c1 :: Y) h.hnn.tail]
  rw [tokenFrom_comment pureSrc F f _ _ _ hw rfl rfl rfl rfl rfl
    (by rw [hnext, cfg_fst_cons]
        simp only [Bool.or_eq_true, beq_iff_eq]
        rcases hc1 with e | e
        · left; rw [e]; rfl
        · right; rw [e]; rfl)]
  rw [hnext, tokKill_cfg, cfg_fst_cons]

/-- `Skips … Z`: the characters `Z` in front of `X` are skipped, whatever the outer fuel (> |Z|) -/
def Skips (doc : List UInt8) (F : Nat) (R : Nat → TokRes PState) (X Z : List Char) : Prop :=
  ∀ (f k : Nat) (ts : Option Nat) (pos : Pos), Z.length < f → Ok doc F k (Z ++ X) →
    tokenFrom pureSrc F f (cfg doc k ts pos (Z ++ X)).1 (cfg doc k ts pos (Z ++ X)).2 = R (k + blen Z)

section
variable (doc : List UInt8) (F : Nat) (R : Nat → TokRes PState) (X : List Char)
  (hbase : ∀ (f k : Nat) (ts : Option Nat) (pos : Pos), Ok doc F k X →
    tokenFrom pureSrc F (f + 1) (cfg doc k ts pos X).1 (cfg doc k ts pos X).2 = R k)
include hbase

theorem skips_nil : Skips doc F R X [] := by
  intro f k ts pos hf hok
  obtain ⟨f, rfl⟩ : ∃ f', f = f' + 1 := ⟨f - 1, by simp at hf; omega⟩
  simpa [blen_nil] using hbase f k ts pos hok

omit hbase in
theorem ws_split (Z : List Char) : ∃ ws rest, Z = ws ++ rest ∧ (∀ c ∈ ws, isWsChar c = true) ∧ headIs isWsChar rest = false := by
  induction Z with
  | nil => exact ⟨[], [], rfl, by simp, rfl⟩
  | cons c Z ih =>
    by_cases hc : isWsChar c = true
    · obtain ⟨ws, rest, rfl, h1, h2⟩ := ih
      exact ⟨c :: ws, rest, rfl, by intro d hd; rcases List.mem_cons.1 hd with rfl | hd; exact hc; exact h1 d hd, h2⟩
    · exact ⟨[], c :: Z, rfl, by simp, by simpa [headIs] using hc⟩

omit hbase in
theorem skips_ws (c : Char) (cs : List Char) (hc : isWsChar c = true) (ih : Skips doc F R X cs) : Skips doc F R X (c :: cs) := by
  intro f k ts pos hf hok
  obtain ⟨f, rfl⟩ : ∃ f', f = f' + 1 := ⟨f - 1, by omega⟩
  have hok' : Ok doc F (k + blen [c]) (cs ++ X) := Ok.advance (pre := [c]) hok
  have hi := ih (f + 1) (k + blen [c]) ts pos (by simp at hf; omega) hok'
  obtain ⟨ws, rest, hZ, hws, hrest⟩ := ws_split (cs ++ X)
  have hn : NoNul (c :: ws ++ rest) := by rw [List.cons_append, ← hZ]; exact hok.hnn
  have hlen : (c :: ws).length < F := by
    have := hok.hF
    rw [List.cons_append, hZ] at this
    simp at this ⊢; omega
  have w1 := skipWs_cfg doc ts pos (c :: ws) F k rest
    (by intro d hd; rcases List.mem_cons.1 hd with rfl | hd; exact hc; exact hws d hd) hrest hn hlen
  have w2 := skipWs_cfg doc ts pos ws F (k + blen [c]) rest hws hrest hn.tail (by simp at hlen; omega)
  have e : k + blen [c] + blen ws = k + blen (c :: ws) := by simp only [blen_cons, blen_nil, Nat.add_zero, Nat.add_assoc]
  rw [e] at w2
  rw [List.cons_append, ← hZ] at w1
  rw [← hZ] at w2
  rw [List.cons_append, tokenFrom_of_ws pureSrc F f _ _ _ w1 _ _ w2, hi]
  simp only [blen_cons, blen_nil, Nat.add_zero, Nat.add_assoc]

omit hbase in
theorem skips_line (body cs : List Char) (hb : LineBody body) (ih : Skips doc F R X ('\n' :: cs)) :
    Skips doc F R X ('/' :: '/' :: (body ++ '\n' :: cs)) := by
  intro f k ts pos hf hok
  obtain ⟨f, rfl⟩ : ∃ f', f = f' + 1 := ⟨f - 1, by omega⟩
  have e0 : '/' :: '/' :: (body ++ '\n' :: cs) ++ X = '/' :: '/' :: (body ++ '\n' :: (cs ++ X)) := by simp
  rw [e0] at hok ⊢
  have hn := hok.hnn
  rw [tokenFrom_cfg_comment doc F f k ts pos '/' _ (.inl rfl) hok, scanComment_line pureSrc F (Int.ofNat ('/' : Char).toNat) _ rfl,
    next_cfg doc _ _ _ '/' _ hn.tail.tail,
    lineCommentLoop_cfg doc _ _ body F _ ('\n' :: (cs ++ X)) (by intro c hc; simpa using (hb c hc).1) rfl hn.tail.tail
      (by have := hok.hF; simp at this; omega)]
  have hok' : Ok doc F (k + blen ('/' :: '/' :: body)) ('\n' :: cs ++ X) := by
    apply Ok.advance (pre := '/' :: '/' :: body); simpa using hok
  have e1 : k + ('/' : Char).utf8Size + ('/' : Char).utf8Size + blen body = k + blen ('/' :: '/' :: body) := by
    simp only [blen_cons, Nat.add_assoc]
  rw [e1]
  have := ih f (k + blen ('/' :: '/' :: body)) none { goPos doc k with line := 0 } (by simp at hf ⊢; omega) hok'
  simp only [List.cons_append] at this
  rw [this]
  simp only [blen_cons, blen_append, Nat.add_assoc]

theorem skips_lineEnd (body : List Char) (hb : LineBody body) (hX : X = []) : Skips doc F R X ('/' :: '/' :: body) := by
  subst hX
  intro f k ts pos hf hok
  obtain ⟨f, rfl⟩ : ∃ f', f = f' + 1 := ⟨f - 1, by omega⟩
  obtain ⟨f, rfl⟩ : ∃ f', f = f' + 1 := ⟨f - 1, by simp at hf; omega⟩
  simp only [List.append_nil] at hok ⊢
  have hn := hok.hnn
  have hl := lineCommentLoop_cfg doc none { goPos doc k with line := 0 } body F (k + ('/' : Char).utf8Size + ('/' : Char).utf8Size) []
    (by intro c hc; simpa using (hb c hc).1) rfl (by simpa using hn.tail.tail) (by have := hok.hF; simp at this; omega)
  simp only [List.append_nil] at hl
  rw [tokenFrom_cfg_comment doc F (f + 1) k ts pos '/' _ (.inl rfl) hok, scanComment_line pureSrc F (Int.ofNat ('/' : Char).toNat) _ rfl,
    next_cfg doc _ _ _ '/' _ hn.tail.tail, hl]
  have hok' : Ok doc F (k + blen ('/' :: '/' :: body)) [] := by
    apply Ok.advance (pre := '/' :: '/' :: body); simpa using hok
  have e1 : k + ('/' : Char).utf8Size + ('/' : Char).utf8Size + blen body = k + blen ('/' :: '/' :: body) := by
    simp only [blen_cons, Nat.add_assoc]
  rw [e1, hbase f _ _ _ hok']

omit hbase in
theorem skips_block (body cs : List Char) (hb : BlockBody body) (ih : Skips doc F R X cs) :
    Skips doc F R X ('/' :: '*' :: (body ++ '*' :: '/' :: cs)) := by
  intro f k ts pos hf hok
  obtain ⟨f, rfl⟩ : ∃ f', f = f' + 1 := ⟨f - 1, by omega⟩
  have e0 : '/' :: '*' :: (body ++ '*' :: '/' :: cs) ++ X = '/' :: '*' :: (body ++ '*' :: '/' :: (cs ++ X)) := by simp
  rw [e0] at hok ⊢
  have hn := hok.hnn
  rw [tokenFrom_cfg_comment doc F f k ts pos '*' _ (.inr rfl) hok, scanComment_block pureSrc F (Int.ofNat ('*' : Char).toNat) _ rfl,
    next_cfg doc _ _ _ '*' _ hn.tail.tail,
    blockCommentLoop_cfg doc _ _ body F _ (cs ++ X) hb.1 hn.tail.tail (by have := hok.hF; simp at this; omega)]
  have hok' : Ok doc F (k + blen ('/' :: '*' :: (body ++ ['*', '/']))) (cs ++ X) := by
    apply Ok.advance (pre := '/' :: '*' :: (body ++ ['*', '/'])); simpa using hok
  have e1 : k + ('/' : Char).utf8Size + ('*' : Char).utf8Size + blen (body ++ ['*', '/']) = k + blen ('/' :: '*' :: (body ++ ['*', '/'])) := by
    simp only [blen_cons, Nat.add_assoc]
  rw [e1, ih f _ none { goPos doc k with line := 0 } (by simp at hf ⊢; omega) hok']
  simp only [blen_cons, blen_append, blen_nil, Nat.add_zero, Nat.add_assoc]

/-- every separator is skipped -/
theorem skips_sep {fin : Bool} {Z : List Char} (hZ : SepChars fin Z) (hfin : fin = true → X = []) : Skips doc F R X Z := by
  induction hZ with
  | nil fin => exact skips_nil doc F R X hbase
  | ws fin c cs hc _ ih => exact skips_ws doc F R X c cs hc (ih hfin)
  | line fin body cs hb _ ih => exact skips_line doc F R X body cs hb (skips_ws doc F R X '\n' cs rfl (ih hfin))
  | lineEnd body hb => exact skips_lineEnd doc F R X hbase body hb (hfin rfl)
  | block fin body cs hb _ ih => exact skips_block doc F R X body cs hb (ih hfin)

end

end CedarGo.Text
