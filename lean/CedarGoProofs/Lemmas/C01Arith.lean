/-
  Helper lemmas for C01: the Go overflow checks for `+`, `-` and unary `-`, transcribed with
  two's-complement `wrap`, are exact (the `*` check is in C01Mul.lean), and `toDate`/`toTime` as
  computed by the Go code agree with the specification's floor semantics exactly on the datetimes that
  are non-negative or day-aligned.
-/
import CedarGo.Model.Eval
import CedarGo.Spec.Evaluator
import CedarGoProofs.Lemmas.C01Mul
namespace CedarGo

theorem wrap_of_inI64 (x : Int) (h : InI64 x) : wrap x = x := by
  unfold wrap; unfold InI64 minI64 maxI64 at h; omega

theorem wrap_inI64 (x : Int) : InI64 (wrap x) := by
  unfold wrap InI64 minI64 maxI64; omega

theorem checkedAdd_spec (l r : Int) (hl : InI64 l) (hr : InI64 r) :
    ((checkedAdd l r).2 = true ↔ InI64 (l + r)) ∧ ((checkedAdd l r).2 = true → (checkedAdd l r).1 = l + r) := by
  unfold InI64 minI64 maxI64 at *
  simp only [checkedAdd, wrap]
  by_cases h1 : (l + r + 9223372036854775808) % 18446744073709551616 - 9223372036854775808 > l <;>
  by_cases h2 : r > 0 <;> simp [h1, h2] <;> omega

theorem checkedSub_spec (l r : Int) (hl : InI64 l) (hr : InI64 r) :
    ((checkedSub l r).2 = true ↔ InI64 (l - r)) ∧ ((checkedSub l r).2 = true → (checkedSub l r).1 = l - r) := by
  unfold InI64 minI64 maxI64 at *
  simp only [checkedSub, wrap]
  by_cases h1 : (l - r + 9223372036854775808) % 18446744073709551616 - 9223372036854775808 > l <;>
  by_cases h2 : r < 0 <;> simp [h1, h2] <;> omega

theorem checkedNeg_spec (a : Int) (ha : InI64 a) :
    ((checkedNeg a).2 = true ↔ InI64 (-a)) ∧ ((checkedNeg a).2 = true → (checkedNeg a).1 = -a) := by
  unfold InI64 minI64 maxI64 at *
  simp only [checkedNeg, minI64]
  by_cases h : a = -9223372036854775808 <;> simp [h] <;> omega

namespace C01L
/-- the shape in which the evaluator uses a checked operation equals the specification's `intOrErr` -/
theorem checked_eq_intOrErr {c : Int × Bool} {m : Int}
    (h : (c.2 = true ↔ InI64 m) ∧ (c.2 = true → c.1 = m)) :
    (if c.2 = true then Except.ok (Value.long c.1) else Except.error Err.overflow) = Spec.intOrErr m := by
  unfold Spec.intOrErr
  by_cases hc : c.2 = true
  · simp [hc, h.1.mp hc, h.2 hc]
  · have : ¬ InI64 m := fun hm => hc (h.1.mpr hm)
    simp [hc, this]

end C01L

/-! ### `toDate` / `toTime`: Go's truncation vs the specification's floor -/

/-- what `toDateEval` / `toTimeEval` compute (`callExt`) -/
def goDates : Spec.DateFns :=
  ⟨fun t => .ok (.datetime (wrap (t - Int.tmod t 86400000))), fun t => .ok (.duration (Int.tmod t 86400000))⟩

namespace C01L
theorem tmod_day (t : Int) : Int.tmod t 86400000 = t % 86400000 - (if 0 ≤ t ∨ t % 86400000 = 0 then 0 else 86400000) := by
  rw [Int.tmod_eq_emod]
  have : ((86400000 : Int) ∣ t) ↔ t % 86400000 = 0 := Int.dvd_iff_emod_eq_zero
  simp only [this]
  split <;> simp

/-- Go's `toTime` equals the specification's EXACTLY on non-negative or day-aligned datetimes -/
theorem goToTime_eq_iff (t : Int) : goDates.toTime t = Spec.floorTime t ↔ (0 ≤ t ∨ t % 86400000 = 0) := by
  simp only [goDates, Spec.floorTime, Except.ok.injEq, Value.duration.injEq, tmod_day]
  split <;> rename_i h
  · simp [h]
  · constructor
    · intro h'; omega
    · intro h'; exact absurd h' h

/-- Go's `toDate` equals the specification's EXACTLY on non-negative or day-aligned datetimes -/
theorem goToDate_eq_iff (t : Int) (ht : InI64 t) : goDates.toDate t = Spec.floorDate t ↔ (0 ≤ t ∨ t % 86400000 = 0) := by
  simp only [goDates, Spec.floorDate, tmod_day]
  by_cases h : 0 ≤ t ∨ t % 86400000 = 0
  · simp only [h, if_true, iff_true]
    have hr : InI64 (t - (t % 86400000 - 0)) := by
      unfold InI64 minI64 maxI64 at *; omega
    rw [wrap_of_inI64 _ hr]
    have he : 86400000 * (t / 86400000) = t - (t % 86400000 - 0) := by omega
    rw [he, if_pos hr]
  · simp only [h, if_false, iff_false]
    intro heq
    have hr : InI64 (t - (t % 86400000 - 86400000)) := by
      unfold InI64 minI64 maxI64 at *; omega
    rw [wrap_of_inI64 _ hr] at heq
    by_cases hd : InI64 (86400000 * (t / 86400000))
    · rw [if_pos hd] at heq
      simp only [Except.ok.injEq, Value.datetime.injEq] at heq; omega
    · rw [if_neg hd] at heq; cases heq

end C01L
end CedarGo
