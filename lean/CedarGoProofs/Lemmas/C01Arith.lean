/-
  Helper lemmas for C01: the Go overflow checks for `+`, `-` and unary `-`, transcribed with
  two's-complement `wrap`, are exact (the `*` check is in C01Mul.lean), and `toDate`/`toTime` as
  computed by the (repaired) Go code — floored remainder, checked subtraction — are the specification's
  floor functions on every 64-bit datetime, overflow error included.
-/
import CedarGo.Model.Eval
import CedarGo.Spec.Evaluator
import CedarGoProofs.Lemmas.C01Mul
namespace CedarGo

theorem wrap_of_inI64 (x : Int) (h : InI64 x) : wrap x = x := by
  unfold wrap; unfold InI64 minI64 maxI64 at h; omega

theorem wrap_inI64 (x : Int) : InI64 (wrap x) := by
  unfold wrap InI64 minI64 maxI64; omega

theorem checkedAdd_spec (l r : Int) (hl : InI64 l) (hr : InI64 r) :
    ((checkedAdd l r).2 = true ↔ InI64 (l + r)) ∧ ((checkedAdd l r).2 = true → (checkedAdd l r).1 = l + r) := by
  unfold InI64 minI64 maxI64 at *
  simp only [checkedAdd, wrap]
  by_cases h1 : (l + r + 9223372036854775808) % 18446744073709551616 - 9223372036854775808 > l <;>
  by_cases h2 : r > 0 <;> simp [h1, h2] <;> omega

theorem checkedSub_spec (l r : Int) (hl : InI64 l) (hr : InI64 r) :
    ((checkedSub l r).2 = true ↔ InI64 (l - r)) ∧ ((checkedSub l r).2 = true → (checkedSub l r).1 = l - r) := by
  unfold InI64 minI64 maxI64 at *
  simp only [checkedSub, wrap]
  by_cases h1 : (l - r + 9223372036854775808) % 18446744073709551616 - 9223372036854775808 > l <;>
  by_cases h2 : r < 0 <;> simp [h1, h2] <;> omega

theorem checkedNeg_spec (a : Int) (ha : InI64 a) :
    ((checkedNeg a).2 = true ↔ InI64 (-a)) ∧ ((checkedNeg a).2 = true → (checkedNeg a).1 = -a) := by
  unfold InI64 minI64 maxI64 at *
  simp only [checkedNeg, minI64]
  by_cases h : a = -9223372036854775808 <;> simp [h] <;> omega

namespace C01L
/-- the shape in which the evaluator uses a checked operation equals the specification's `intOrErr` -/
theorem checked_eq_intOrErr {c : Int × Bool} {m : Int}
    (h : (c.2 = true ↔ InI64 m) ∧ (c.2 = true → c.1 = m)) :
    (if c.2 = true then Except.ok (Value.long c.1) else Except.error Err.overflow) = Spec.intOrErr m := by
  unfold Spec.intOrErr
  by_cases hc : c.2 = true
  · simp [hc, h.1.mp hc, h.2 hc]
  · have : ¬ InI64 m := fun hm => hc (h.1.mpr hm)
    simp [hc, this]

end C01L

/-! ### `toDate` / `toTime`: the Go computation (floored remainder + checked subtraction) is the specification's floor -/

/-- what `toDateEval` / `toTimeEval` compute (`callExt`) -/
def goDates : Spec.DateFns :=
  ⟨fun t => if (checkedSub t (millisSinceMidnight t)).2 = true
            then .ok (.datetime (checkedSub t (millisSinceMidnight t)).1) else .error .overflow,
   fun t => .ok (.duration (millisSinceMidnight t))⟩

namespace C01L
theorem tmod_day (t : Int) : Int.tmod t 86400000 = t % 86400000 - (if 0 ≤ t ∨ t % 86400000 = 0 then 0 else 86400000) := by
  rw [Int.tmod_eq_emod]
  have : ((86400000 : Int) ∣ t) ↔ t % 86400000 = 0 := Int.dvd_iff_emod_eq_zero
  simp only [this]
  split <;> simp

/-- Go's truncated remainder, lifted by one day when negative, is the floored (Euclidean) remainder -/
theorem millisSinceMidnight_eq (t : Int) : millisSinceMidnight t = t % 86400000 := by
  unfold millisSinceMidnight
  rw [tmod_day]
  split <;> split <;> omega

/-- Go's `toTime` equals the specification's on EVERY datetime -/
theorem goToTime_eq (t : Int) : goDates.toTime t = Spec.floorTime t := by
  simp only [goDates, Spec.floorTime, millisSinceMidnight_eq]

/-- Go's `toDate` equals the specification's on EVERY 64-bit datetime: same midnight, and the overflow
    error exactly when the floored instant is below the 64-bit range -/
theorem goToDate_eq (t : Int) (ht : InI64 t) : goDates.toDate t = Spec.floorDate t := by
  have hm : InI64 (t % 86400000) := by unfold InI64 minI64 maxI64; omega
  have hs := checkedSub_spec t (t % 86400000) ht hm
  have he : 86400000 * (t / 86400000) = t - t % 86400000 := by omega
  simp only [goDates, Spec.floorDate, millisSinceMidnight_eq, he]
  by_cases hc : (checkedSub t (t % 86400000)).2 = true
  · rw [if_pos hc, if_pos (hs.1.mp hc), hs.2 hc]
  · rw [if_neg hc, if_neg (fun h => hc (hs.1.mpr h))]

end C01L
end CedarGo
