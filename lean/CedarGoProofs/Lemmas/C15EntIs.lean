/-
  C15 (entity extension, steps b and c) — `is`, `hasTag`, `getTag`.

  * `sound_is`: `typeOfIs` with its static folding (the tested type is not an element of the operand's entity LUB ↦ False,
    the LUB is exactly that type ↦ True).
  * `entityTagType_sound`: the tag type `entityTagType` computes for a LUB is an upper bound of the tag type of every
    element that declares tags (elements without tags are skipped).
  * `sound_hasTag`: False when NO element of the LUB declares tags, otherwise Bool with a TAG capability (access path of
    the operand, string-literal key).  `sound_getTag`: a value of the tag type — no `tag` error on a present entity — or
    the `entity` error when the entity is absent: the capability says the tag is present, so the entity's type is one of
    the elements that declare tags (`EntityOK.tags`).
  The former restriction (D7) — the elements of the LUB all declare tags or none does — is gone with the repair of
  `hastag-lub-mixed-tags`.
-/
import CedarGoProofs.Lemmas.C15EntAttr
namespace CedarGo.Validate
open CedarGo

section entis
variable {Γ : TEnv} {env : Env}

theorem sound_is {e : Expr} {ty : String} {caps caps' : Caps} {τ : Ty} (ih : IH Γ env e) (hc : CapsHold env caps)
    (h : typeOf true Γ (.is e ty) caps = .ok (τ, caps')) : Sound env τ caps' (eval (.is e ty) env) := by
  simp only [typeOf] at h
  split at h
  · simp at h
  · rename_i t c he
    have hs := (ih _ _ _ hc he).2
    split at h
    · rename_i tys
      simp only [Except.ok.injEq, Prod.mk.injEq] at h
      obtain ⟨rfl, rfl⟩ := h
      refine sound_same hc ?_
      have hev : eval (.is e ty) env = (eval e env).bind (fun v => (toEntity v).bind fun u => .ok (.bool (u.1 == ty))) := by
        simp only [eval, bind, Except.bind]; cases eval e env <;> rfl
      rw [hev]
      refine soundRes_unary hs ?_
      intro v hv
      obtain ⟨ty0, id, rfl, hm, _⟩ := hasTy_entity_inv hv
      simp only [toEntity, Except.bind, SoundRes]
      refine ⟨?_, fun _ => hc⟩
      unfold isResult
      split
      · rename_i hnc
        have : (ty0 == ty) = false := by
          simp only [Bool.not_eq_true', List.contains_eq_mem, decide_eq_false_iff_not] at hnc
          simp only [beq_eq_false_iff_ne, ne_eq]
          intro h0; subst h0; exact hnc hm
        rw [this]; exact HasTy.ff
      · split
        · rename_i hsingle
          have : tys = [ty] := by simpa using hsingle
          subst this
          have : ty0 = ty := by simpa using hm
          subst this
          simp only [beq_self_eq_true]; exact HasTy.tt
        · exact HasTy.bool _
    · simp at h

/-! ### tags -/

/-- a string-literal tag key -/
theorem tagCapabilityKey_inv {r : Expr} (h : tagCapabilityKey r ≠ "") : r = .lit (.str (tagCapabilityKey r)) := by
  cases r with
  | lit v => cases v <;> first | rfl | exact absurd rfl h
  | _ => exact absurd rfl h

theorem eval_hasTag_entity {l r : Expr} {ty id k : String} (hl : eval l env = .ok (.entity ty id))
    (hr : eval r env = .ok (.str k)) :
    eval (.binop .hasTag l r) env = .ok (.bool (match env.entities.get (ty, id) with
      | none => false | some d => (kvGet k d.tags).isSome)) := by
  simp only [eval, hl, hr, bind, Except.bind, toEntity, toStr]
  cases env.entities.get (ty, id) <;> rfl

theorem eval_getTag_entity {l r : Expr} {ty id k : String} (hl : eval l env = .ok (.entity ty id)) (hne : ty ≠ "")
    (hr : eval r env = .ok (.str k)) :
    eval (.binop .getTag l r) env = (match env.entities.get (ty, id) with
      | none => .error .entity
      | some d => match kvGet k d.tags with | some v => .ok v | none => .error .tag) := by
  simp only [eval, hl, hr, bind, Except.bind, toEntity, toStr, uid_ne_unspecified hne, Bool.false_eq_true, if_false]
  cases env.entities.get (ty, id) with
  | none => rfl
  | some d => simp only []; cases kvGet k d.tags <;> rfl

/-- `entityHasTags` answers `false`: no element of the LUB declares tags -/
theorem no_tags_of_not_any {tys : List String} (hany : entityHasTags Γ tys = false)
    {t : String} (ht : t ∈ tys) : (declOf Γ t).tags = none := by
  simp only [entityHasTags, List.any_eq_false] at hany
  have := hany t ht
  cases hd : (declOf Γ t).tags with
  | none => rfl
  | some x => simp [hd] at this

theorem entityTagType_sound {s : Bool} : ∀ {tys : List String} {acc r : Ty}, entityTagType true s Γ acc tys = some r →
    (∀ v, HasTy v acc → HasTy v r) ∧ (∀ t ∈ tys, ∀ t', (declOf Γ t).tags = some t' → ∀ v, HasTy v t' → HasTy v r)
  | [], acc, r, h => by
    simp only [entityTagType, Option.some.injEq] at h; subst h
    exact ⟨fun _ hv => hv, by simp⟩
  | t :: ts, acc, r, h => by
    simp only [entityTagType] at h
    cases ht : (declOf Γ t).tags with
    | none =>
      -- an element without tags is skipped
      simp only [ht] at h
      obtain ⟨h1, h2⟩ := entityTagType_sound h
      refine ⟨h1, ?_⟩
      intro t0 ht0 t' hd v hv
      rcases List.mem_cons.mp ht0 with rfl | ht0
      · rw [ht] at hd; cases hd
      · exact h2 t0 ht0 t' hd v hv
    | some tagTy =>
      simp only [ht] at h
      cases hu : lub true s acc tagTy with
      | none => simp [hu] at h
      | some u =>
        simp only [hu] at h
        obtain ⟨h1, h2⟩ := entityTagType_sound h
        refine ⟨fun v hv => h1 v (lub_sound_left s _ _ _ v hu hv), ?_⟩
        intro t0 ht0 t' hd v hv
        rcases List.mem_cons.mp ht0 with rfl | ht0
        · rw [ht] at hd
          simp only [Option.some.injEq] at hd; subst hd
          exact h1 v (lub_sound_right s _ _ _ v hu hv)
        · exact h2 t0 ht0 t' hd v hv

theorem capsHold_addTag {caps : Caps} {p : List String} {k : String} (hc : CapsHold env caps)
    (hnew : ∀ e, exprCapPath e = p → p ≠ [] → ∀ b, eval (.binop .hasTag e (.lit (.str k))) env = .ok (.bool b) → b = true) :
    CapsHold env (caps.addTag p k) := by
  intro p' a' t hm e hname hne b hb
  simp only [Caps.addTag, List.mem_cons, Prod.mk.injEq] at hm
  rcases hm with ⟨rfl, rfl, rfl⟩ | hm
  · exact hnew e hname hne b hb
  · exact hc p' a' t hm e hname hne b hb

/-- using a tag capability -/
theorem capsHold_hasTag {caps : Caps} (hc : CapsHold env caps) {e : Expr} {k : String}
    (hm : caps.hasTag (exprCapPath e) k = true) (hne : exprCapPath e ≠ []) :
    ∀ b, eval (.binop .hasTag e (.lit (.str k))) env = .ok (.bool b) → b = true :=
  fun b hb => hc (exprCapPath e) k true (by simpa [Caps.hasTag] using hm) e rfl hne b hb

/-- both operands of a tag operation: allowed error, or an entity of the LUB and a string -/
theorem tag_operands {l r : Expr} {tys : List String} {c1 c2 : Caps}
    (hsl : SoundRes env (.entity tys) c1 (eval l env)) (hsr : SoundRes env .string c2 (eval r env)) :
    (∃ k, eval l env = .error k ∧ Allowed k) ∨
    (∃ ty id, eval l env = .ok (.entity ty id) ∧ ty ∈ tys ∧ ty ≠ "" ∧
      ((∃ k, eval r env = .error k ∧ Allowed k) ∨ ∃ s, eval r env = .ok (.str s))) := by
  cases hl : eval l env with
  | error k => rw [hl] at hsl; exact .inl ⟨k, rfl, hsl⟩
  | ok v =>
    rw [hl] at hsl
    obtain ⟨ty, id, rfl, hm, hne⟩ := hasTy_entity_inv hsl.1
    refine .inr ⟨ty, id, rfl, hm, hne, ?_⟩
    cases hr : eval r env with
    | error k => rw [hr] at hsr; exact .inl ⟨k, rfl, hsr⟩
    | ok w =>
      rw [hr] at hsr
      cases hsr.1
      exact .inr ⟨_, rfl⟩

theorem sound_hasTag (hΓ : EnvOK Γ env) {l r : Expr} {caps caps' : Caps} {τ : Ty} (ihl : IH Γ env l) (ihr : IH Γ env r)
    (hc : CapsHold env caps)
    (h : typeOf true Γ (.binop .hasTag l r) caps = .ok (τ, caps')) : Sound env τ caps' (eval (.binop .hasTag l r) env) := by
  simp only [typeOf] at h
  split at h
  · simp at h
  · rename_i lt lc hl
    have hsl := (ihl _ _ _ hc hl).2
    split at h
    · simp at h
    · rename_i rt rc hr
      have hsr := (ihr _ _ _ hc hr).2
      unfold hasTagResult at h
      split at h
      · rename_i tys
        · have hops := tag_operands hsl hsr
          -- errors of the operands propagate
          have herr : ∀ (τ' : Ty) (c' : Caps),
              (∃ k, eval l env = .error k ∧ Allowed k) ∨
              (∃ ty id, eval l env = .ok (.entity ty id) ∧ ∃ k, eval r env = .error k ∧ Allowed k) →
              SoundRes env τ' c' (eval (.binop .hasTag l r) env) := by
            intro τ' c' hh
            rcases hh with ⟨k, hk, hak⟩ | ⟨ty, id, hk, k, hk2, hak⟩
            · simp only [eval, hk, bind, Except.bind]; exact hak
            · simp only [eval, hk, hk2, bind, Except.bind, toEntity]; exact hak
          split at h
          · -- no element of the LUB declares tags: False
            rename_i hall
            have hall' : entityHasTags Γ tys = false := by simpa using hall
            simp only [Except.ok.injEq, Prod.mk.injEq] at h
            obtain ⟨rfl, rfl⟩ := h
            refine sound_same hc ?_
            rcases hops with ⟨k, hk, hak⟩ | ⟨ty, id, hk, hm, hne, ⟨k, hk2, hak⟩ | ⟨s, hk2⟩⟩
            · exact herr _ _ (.inl ⟨k, hk, hak⟩)
            · exact herr _ _ (.inr ⟨ty, id, hk, k, hk2, hak⟩)
            · rw [eval_hasTag_entity hk hk2]
              refine ⟨?_, fun _ => hc⟩
              cases hg : env.entities.get (ty, id) with
              | none => exact HasTy.ff
              | some d =>
                simp only []
                cases hx : kvGet s d.tags with
                | none => exact HasTy.ff
                | some x =>
                  exfalso
                  obtain ⟨t', ht', _⟩ := (hΓ.store _ _ hg).tags s x hx
                  rw [no_tags_of_not_any hall' hm] at ht'
                  simp at ht'
          · simp only [Except.ok.injEq, Prod.mk.injEq] at h
            obtain ⟨rfl, rfl⟩ := h
            refine ⟨by simp, ?_⟩
            rcases hops with ⟨k, hk, hak⟩ | ⟨ty, id, hk, hm, hne, ⟨k, hk2, hak⟩ | ⟨s, hk2⟩⟩
            · exact herr _ _ (.inl ⟨k, hk, hak⟩)
            · exact herr _ _ (.inr ⟨ty, id, hk, k, hk2, hak⟩)
            · have hval := eval_hasTag_entity hk hk2
              rw [hval]
              refine ⟨HasTy.bool _, ?_⟩
              intro htrue
              split
              · rename_i hcond
                simp only [Bool.and_eq_true, Bool.not_eq_true', List.isEmpty_eq_false_iff, bne_iff_ne, ne_eq] at hcond
                refine capsHold_addTag hc ?_
                intro e' hname hne' b hb
                have : e' = l := exprCapPath_inj e' l hname (by rw [hname]; exact hne')
                subst this
                rw [← tagCapabilityKey_inv hcond.2, hval] at hb
                simp only [Except.ok.injEq, Value.bool.injEq] at hb htrue
                rw [← hb]; exact htrue
              · exact hc
      · simp at h

theorem sound_getTag (hΓ : EnvOK Γ env) {l r : Expr} {caps caps' : Caps} {τ : Ty} (ihl : IH Γ env l) (ihr : IH Γ env r)
    (hc : CapsHold env caps)
    (h : typeOf true Γ (.binop .getTag l r) caps = .ok (τ, caps')) : Sound env τ caps' (eval (.binop .getTag l r) env) := by
  simp only [typeOf] at h
  split at h
  · simp at h
  · rename_i lt lc hl
    have hsl := (ihl _ _ _ hc hl).2
    split at h
    · simp at h
    · rename_i rt rc hr
      have hsr := (ihr _ _ _ hc hr).2
      split at h
      rotate_left
      · simp at h
      rename_i tagTy hres
      simp only [Except.ok.injEq, Prod.mk.injEq] at h
      obtain ⟨rfl, rfl⟩ := h
      refine sound_same hc ?_
      unfold getTagResult at hres
      split at hres
      · rename_i tys
        · split at hres
          · simp at hres
          · rename_i tagTy0 htag
            dsimp only at hres
            split at hres
            rotate_left
            · simp at hres
            rename_i hcond
            simp only [Except.ok.injEq] at hres; subst hres
            simp only [Bool.and_eq_true, Bool.not_eq_true', List.isEmpty_eq_false_iff, bne_iff_ne, ne_eq] at hcond
            obtain ⟨⟨hp, hk⟩, hcap⟩ := hcond
            have hrlit := tagCapabilityKey_inv hk
            have hrv : eval r env = .ok (.str (tagCapabilityKey r)) := by
              conv => lhs; rw [hrlit]
              simp only [eval]
            rcases tag_operands hsl hsr with ⟨k, hk1, hak⟩ | ⟨ty, id, hk1, hm, hne, _⟩
            · simp only [eval, hk1, bind, Except.bind]; exact hak
            · rw [eval_getTag_entity hk1 hne hrv]
              cases hg : env.entities.get (ty, id) with
              | none => simp [SoundRes, Allowed]
              | some d =>
                simp only []
                -- the tag capability: `l.hasTag(k)` is true, so the tag is present
                have hhas := capsHold_hasTag hc hcap hp _ (by rw [← hrlit]; exact eval_hasTag_entity hk1 hrv)
                simp only [hg] at hhas
                rw [Option.isSome_iff_exists] at hhas
                obtain ⟨x, hx⟩ := hhas
                simp only [hx]
                obtain ⟨t', ht', hxt⟩ := (hΓ.store _ _ hg).tags _ x hx
                exact ⟨(entityTagType_sound htag).2 ty hm t' ht' x hxt, fun _ => hc⟩
      · simp at hres

end entis

end CedarGo.Validate
