/-
  Helper lemmas for C10: the shared model evaluator has no reachable panic branch.
-/
import CedarGo.Model.RawAst
import CedarGoProofs.Properties.C03
import CedarGoProofs.Lemmas.RecordLit
namespace CedarGo
open Scalars

/-- the result is a value or an error other than `panic` -/
def NoPanic {α : Type} (r : Except Err α) : Prop := r ≠ .error .panic

theorem noPanic_ok {α : Type} (a : α) : NoPanic (.ok a : Except Err α) := by simp [NoPanic]
theorem noPanic_error {α : Type} {k : Err} (h : k ≠ .panic) : NoPanic (.error k : Except Err α) := by
  simp [NoPanic]; exact h
theorem noPanic_bind {α β : Type} {r : Except Err α} {f : α → Except Err β}
    (h1 : NoPanic r) (h2 : ∀ a, NoPanic (f a)) : NoPanic (r >>= f) := by
  cases r with
  | error k => simpa [NoPanic, bind, Except.bind] using h1
  | ok a => simpa [bind, Except.bind] using h2 a
theorem noPanic_bind' {α β : Type} {r : Except Err α} {f : α → Except Err β}
    (h1 : NoPanic r) (h2 : ∀ a, NoPanic (f a)) : NoPanic (r.bind f) := noPanic_bind h1 h2
theorem noPanic_map {α β : Type} {r : Except Err α} {f : α → β} (h1 : NoPanic r) : NoPanic (r.map f) := by
  cases r with
  | error k => simpa [NoPanic, Except.map] using h1
  | ok a => simp [NoPanic, Except.map]

theorem noPanic_toBool (v : Value) : NoPanic (toBool v) := by cases v <;> simp [toBool, NoPanic]
theorem noPanic_toLong (v : Value) : NoPanic (toLong v) := by cases v <;> simp [toLong, NoPanic]
theorem noPanic_toStr (v : Value) : NoPanic (toStr v) := by cases v <;> simp [toStr, NoPanic]
theorem noPanic_toSet (v : Value) : NoPanic (toSet v) := by cases v <;> simp [toSet, NoPanic]
theorem noPanic_toEntity (v : Value) : NoPanic (toEntity v) := by cases v <;> simp [toEntity, NoPanic]
theorem noPanic_toComparable (v : Value) : NoPanic (toComparable v) := by cases v <;> simp [toComparable, NoPanic]
theorem noPanic_checkKind (k : Kind) (v : Value) : NoPanic (checkKind k v) := by
  cases k <;> cases v <;> simp [checkKind, NoPanic]

/-! ### the scalar parsers report their own error kind, never `panic` -/

/-- case-split the goal through `match`/`if`, looking through `have`/`let` bindings -/
macro "np_split" : tactic => `(tactic| repeat' (first | split | (dsimp only; split)))

theorem noPanic_newDecimal (i t : Int) : NoPanic (newDecimal i t) := by
  unfold newDecimal
  np_split
  all_goals simp [NoPanic]

theorem noPanic_parseDecimal (s : String) : NoPanic (parseDecimal s) := by
  unfold parseDecimal parseDecimalL
  np_split
  all_goals first
    | (apply noPanic_error; decide)
    | exact noPanic_newDecimal _ _

theorem noPanic_durLoop (lim : Int) : ∀ (cs : List Char) (u : Nat) (t v : Int) (hv : Bool), NoPanic (durLoop lim cs u t v hv)
  | [], u, t, v, hv => by unfold durLoop NoPanic; split <;> simp
  | c :: rest, u, t, v, hv => by
    unfold durLoop
    have ih := noPanic_durLoop lim rest
    np_split
    all_goals first
      | exact ih _ _ _ _
      | (apply noPanic_error; decide)
      | exact noPanic_durLoop lim _ _ _ _ _
termination_by cs => cs.length

theorem noPanic_parseDuration (s : String) : NoPanic (parseDuration s) := by
  unfold parseDuration parseDurationL
  np_split
  all_goals first
    | (apply noPanic_error; decide)
    | exact noPanic_map (noPanic_durLoop _ _ _ _ _ _)
    | exact noPanic_durLoop _ _ _ _ _ _

theorem noPanic_parseDatetime (s : String) : NoPanic (parseDatetime s) := by
  unfold parseDatetime parseDatetimeL
  np_split
  all_goals first
    | (apply noPanic_error; decide)
    | exact noPanic_ok _

theorem noPanic_parseIP (s : String) : NoPanic (parseIP s) := by
  unfold parseIP parseIPL
  np_split
  all_goals first
    | (apply noPanic_error; decide)
    | exact noPanic_ok _

/-! ### extension calls and the hierarchy search -/

theorem noPanic_callExt (fn : String) (vs : List Value) : NoPanic (callExt fn vs) := by
  unfold callExt
  np_split
  all_goals first
    | (apply noPanic_error; decide)
    | exact noPanic_ok _
    | exact noPanic_map (noPanic_parseDecimal _)
    | exact noPanic_map (noPanic_parseDatetime _)
    | exact noPanic_map (noPanic_parseDuration _)
    | exact noPanic_map (noPanic_parseIP _)

/-- `in`: the only `.panic` in the model evaluator is "the ancestor search ran out of fuel", which
    C03's totality theorems rule out for every store -/
theorem noPanic_doIn (env : Env) (a : UID) (v : Value) : NoPanic (doIn env a v) := by
  unfold doIn
  split
  · rename_i t i
    obtain ⟨r, hr⟩ := C03_entityInOne_total env.entities a (t, i)
    rw [hr]; exact noPanic_ok _
  · rename_i xs
    cases hm : xs.mapM toEntity with
    | error e =>
      simp only
      intro h
      -- the error comes from `toEntity`, which only reports `type`
      have : ∀ (ys : List Value) (e : Err), ys.mapM toEntity = .error e → e = .type := by
        intro ys
        induction ys with
        | nil => intro e h; simp [List.mapM_nil, pure, Except.pure] at h
        | cons y ys ih =>
          intro e h
          simp only [List.mapM_cons, bind, Except.bind] at h
          cases hy : toEntity y with
          | error k =>
            rw [hy] at h; simp only at h
            cases y <;> simp [toEntity] at hy
            all_goals (cases h; exact hy.symm)
          | ok u =>
            rw [hy] at h; simp only at h
            cases hys : ys.mapM toEntity with
            | error k => rw [hys] at h; simp only at h; cases h; exact ih _ hys
            | ok us => rw [hys] at h; simp [pure, Except.pure] at h
      have := this xs e hm
      subst this
      cases h
    | ok us =>
      simp only
      obtain ⟨r, hr⟩ := C03_entityInSet_total env.entities a us
      rw [hr]; exact noPanic_ok _
  · apply noPanic_error; decide

/-! ### the evaluator -/

/-- one step of the "no panic" argument: values, non-panic errors, conversions, binds, case splits -/
macro "np_step" : tactic => `(tactic| first
  | exact noPanic_ok _
  | (apply noPanic_error; decide)
  | exact noPanic_toBool _ | exact noPanic_toLong _ | exact noPanic_toStr _ | exact noPanic_toSet _
  | exact noPanic_toEntity _ | exact noPanic_toComparable _ | exact noPanic_checkKind _ _
  | exact noPanic_doIn _ _ _ | exact noPanic_callExt _ _
  | apply_assumption
  | refine noPanic_bind ?_ (fun _ => ?_)
  | refine noPanic_bind' ?_ (fun _ => ?_)
  | split
  | (dsimp only; split))
macro "np" : tactic => `(tactic| repeat' np_step)

/-! ### the evaluator -/

/-- one step of the "no panic" argument: values, non-panic errors, conversions, binds, case splits.
    Everything runs `with_reducible`: unfolding `eval` during unification is prohibitively slow. -/
macro "np_step" : tactic => `(tactic| with_reducible first
  | assumption
  | exact noPanic_ok _
  | (apply noPanic_error; decide)
  | exact noPanic_toBool _ | exact noPanic_toLong _ | exact noPanic_toStr _ | exact noPanic_toSet _
  | exact noPanic_toEntity _ | exact noPanic_toComparable _ | exact noPanic_checkKind _ _
  | exact noPanic_doIn _ _ _ | exact noPanic_callExt _ _
  | refine noPanic_bind ?_ (fun _ => ?_)
  | refine noPanic_bind' ?_ (fun _ => ?_)
  | split
  | (dsimp only; split))
macro "np" : tactic => `(tactic| repeat' np_step)

/-- entries evaluated in a given order: no panic if no entry panics -/
theorem evalKVs_noPanic_of (env : Env) : ∀ (l : List (String × Expr)), (∀ ke ∈ l, NoPanic (eval ke.2 env)) →
    NoPanic (evalKVs l env)
  | [], _ => by simp only [evalKVs]; exact noPanic_ok _
  | (k, e) :: l, h => by
    have ih1 : NoPanic (eval e env) := h (k, e) (by simp)
    have ih2 := evalKVs_noPanic_of env l (fun ke hke => h ke (by simp [hke]))
    simp only [evalKVs]
    exact noPanic_bind ih1 (fun _ => noPanic_bind ih2 (fun _ => noPanic_ok _))

mutual
theorem eval_noPanic : ∀ (e : Expr) (env : Env), NoPanic (eval e env)
  | .lit v, env => by simp only [eval]; np
  | .var v, env => by cases v <;> (simp only [eval]; np)
  | .unop op e, env => by
    have ih := eval_noPanic e env
    cases op <;> (simp only [eval]; np)
  | .binop op l r, env => by
    have ihl := eval_noPanic l env
    have ihr := eval_noPanic r env
    cases op <;> (simp only [eval]; np)
  | .ite c t e, env => by
    have ihc := eval_noPanic c env
    have iht := eval_noPanic t env
    have ihe := eval_noPanic e env
    simp only [eval]; np
  | .access e a, env => by
    have ih := eval_noPanic e env
    simp only [eval]; np
  | .has e a, env => by
    have ih := eval_noPanic e env
    simp only [eval]; np
  | .like e p, env => by
    have ih := eval_noPanic e env
    simp only [eval]; np
  | .is e ty, env => by
    have ih := eval_noPanic e env
    simp only [eval]; np
  | .isIn e ty r, env => by
    have ihe := eval_noPanic e env
    have ihr := eval_noPanic r env
    simp only [eval]; np
  | .set es, env => by
    have ih := evalList_noPanic es env
    simp only [eval]; np
  | .record kes, env => by
    have ih := evalKVs_noPanic kes env
    rw [eval_recordLit]
    exact noPanic_bind' (evalKVs_noPanic_of env _ (fun ke h => ih ke (canonKVs_subset kes ke h))) (fun _ => noPanic_ok _)
  | .call fn args, env => by
    have ihA := evalTyped_noPanic args [.str] env
    have ihB := evalTyped_noPanic args (extSig fn) env
    simp only [eval]; np
theorem evalTyped_noPanic : ∀ (es : List Expr) (ks : List Kind) (env : Env), NoPanic (evalTyped es ks env)
  | [], _, _ => by simp only [evalTyped]; np
  | e :: es, ks, env => by
    have ih1 := eval_noPanic e env
    have ih2 := evalTyped_noPanic es ks.tail env
    simp only [evalTyped]; np
theorem evalList_noPanic : ∀ (es : List Expr) (env : Env), NoPanic (evalList es env)
  | [], _ => by simp only [evalList]; np
  | e :: es, env => by
    have ih1 := eval_noPanic e env
    have ih2 := evalList_noPanic es env
    simp only [evalList]; np
theorem evalKVs_noPanic : ∀ (kes : List (String × Expr)) (env : Env), ∀ ke ∈ kes, NoPanic (eval ke.2 env)
  | [], _ => by intro ke h; cases h
  | (k, e) :: kes, env => by
    intro ke h
    rcases List.mem_cons.mp h with h | h
    · rw [h]; exact eval_noPanic e env
    · exact evalKVs_noPanic kes env ke h
end


/-! ### raw trees: WF trees pass ToEval and the JSON encoder -/

mutual
theorem safe_toExpr : ∀ (r : RawExpr), r.wfb = true → ∃ e, r.toExpr? = .ok e
  | .nil, h => by simp [RawExpr.wfb] at h
  | .lit v, _ => ⟨.lit v, by simp [RawExpr.toExpr?]⟩
  | .var n, h => by
    simp only [RawExpr.wfb, knownVar] at h
    simp only [RawExpr.toExpr?]
    cases hv : toVar? n with
    | none => simp [hv] at h
    | some v => exact ⟨_, rfl⟩
  | .unop op e, h => by
    simp only [RawExpr.wfb] at h
    obtain ⟨e', he⟩ := safe_toExpr e h
    exact ⟨.unop op e', by simp [RawExpr.toExpr?, he, bind, Except.bind]⟩
  | .binop op l r, h => by
    simp only [RawExpr.wfb, Bool.and_eq_true] at h
    obtain ⟨l', hl⟩ := safe_toExpr l h.1
    obtain ⟨r', hr⟩ := safe_toExpr r h.2
    exact ⟨.binop op l' r', by simp [RawExpr.toExpr?, hl, hr, bind, Except.bind]⟩
  | .ite c t e, h => by
    simp only [RawExpr.wfb, Bool.and_eq_true] at h
    obtain ⟨c', hc⟩ := safe_toExpr c h.1.1
    obtain ⟨t', ht⟩ := safe_toExpr t h.1.2
    obtain ⟨e', he⟩ := safe_toExpr e h.2
    exact ⟨.ite c' t' e', by simp [RawExpr.toExpr?, hc, ht, he, bind, Except.bind]⟩
  | .access e a, h => by
    simp only [RawExpr.wfb] at h
    obtain ⟨e', he⟩ := safe_toExpr e h
    exact ⟨.access e' a, by simp [RawExpr.toExpr?, he, bind, Except.bind]⟩
  | .has e a, h => by
    simp only [RawExpr.wfb] at h
    obtain ⟨e', he⟩ := safe_toExpr e h
    exact ⟨.has e' a, by simp [RawExpr.toExpr?, he, bind, Except.bind]⟩
  | .like e p, h => by
    simp only [RawExpr.wfb] at h
    obtain ⟨e', he⟩ := safe_toExpr e h
    exact ⟨.like e' p, by simp [RawExpr.toExpr?, he, bind, Except.bind]⟩
  | .is e ty, h => by
    simp only [RawExpr.wfb] at h
    obtain ⟨e', he⟩ := safe_toExpr e h
    exact ⟨.is e' ty, by simp [RawExpr.toExpr?, he, bind, Except.bind]⟩
  | .isIn e ty r, h => by
    simp only [RawExpr.wfb, Bool.and_eq_true] at h
    obtain ⟨e', he⟩ := safe_toExpr e h.1
    obtain ⟨r', hr⟩ := safe_toExpr r h.2
    exact ⟨.isIn e' ty r', by simp [RawExpr.toExpr?, he, hr, bind, Except.bind]⟩
  | .set es, h => by
    simp only [RawExpr.wfb] at h
    obtain ⟨es', hes⟩ := safe_toExprList es h
    exact ⟨.set es', by simp [RawExpr.toExpr?, hes, bind, Except.bind]⟩
  | .record kes, h => by
    simp only [RawExpr.wfb] at h
    obtain ⟨kes', hk⟩ := safe_toExprKVs kes h
    exact ⟨.record kes', by simp [RawExpr.toExpr?, hk, bind, Except.bind]⟩
  | .call fn args, h => by
    simp only [RawExpr.wfb] at h
    obtain ⟨as, ha⟩ := safe_toExprList args h
    exact ⟨.call fn as, by simp [RawExpr.toExpr?, ha, bind, Except.bind]⟩
theorem safe_toExprList : ∀ (es : List RawExpr), RawExpr.wfbList es = true → ∃ es', RawExpr.toExprList? es = .ok es'
  | [], _ => ⟨[], by simp [RawExpr.toExprList?]⟩
  | e :: es, h => by
    simp only [RawExpr.wfbList, Bool.and_eq_true] at h
    obtain ⟨e', he⟩ := safe_toExpr e h.1
    obtain ⟨es', hes⟩ := safe_toExprList es h.2
    exact ⟨e' :: es', by simp [RawExpr.toExprList?, he, hes, bind, Except.bind]⟩
theorem safe_toExprKVs : ∀ (kes : List (String × RawExpr)), RawExpr.wfbKVs kes = true → ∃ kes', RawExpr.toExprKVs? kes = .ok kes'
  | [], _ => ⟨[], by simp [RawExpr.toExprKVs?]⟩
  | (k, e) :: kes, h => by
    simp only [RawExpr.wfbKVs, Bool.and_eq_true] at h
    obtain ⟨e', he⟩ := safe_toExpr e h.1
    obtain ⟨kes', hk⟩ := safe_toExprKVs kes h.2
    exact ⟨(k, e') :: kes', by simp [RawExpr.toExprKVs?, he, hk, bind, Except.bind]⟩
end


mutual
theorem safe_jsonSkel : ∀ (r : RawExpr), r.wfb = true → r.jsonSkel = .ok ()
  | .nil, h => by simp [RawExpr.wfb] at h
  | .lit v, _ => by simp [RawExpr.jsonSkel]
  | .var n, _ => by simp [RawExpr.jsonSkel]
  | .unop op e, h => by
    simp only [RawExpr.wfb] at h
    simp [RawExpr.jsonSkel, safe_jsonSkel e h]
  | .binop op l r, h => by
    simp only [RawExpr.wfb, Bool.and_eq_true] at h
    simp [RawExpr.jsonSkel, safe_jsonSkel l h.1, safe_jsonSkel r h.2, bind, Except.bind]
  | .ite c t e, h => by
    simp only [RawExpr.wfb, Bool.and_eq_true] at h
    simp [RawExpr.jsonSkel, safe_jsonSkel c h.1.1, safe_jsonSkel t h.1.2, safe_jsonSkel e h.2, bind, Except.bind]
  | .access e a, h => by
    simp only [RawExpr.wfb] at h
    simp [RawExpr.jsonSkel, safe_jsonSkel e h]
  | .has e a, h => by
    simp only [RawExpr.wfb] at h
    simp [RawExpr.jsonSkel, safe_jsonSkel e h]
  | .like e p, h => by
    simp only [RawExpr.wfb] at h
    simp [RawExpr.jsonSkel, safe_jsonSkel e h]
  | .is e ty, h => by
    simp only [RawExpr.wfb] at h
    simp [RawExpr.jsonSkel, safe_jsonSkel e h]
  | .isIn e ty r, h => by
    simp only [RawExpr.wfb, Bool.and_eq_true] at h
    simp [RawExpr.jsonSkel, safe_jsonSkel e h.1, safe_jsonSkel r h.2, bind, Except.bind]
  | .set es, h => by
    simp only [RawExpr.wfb] at h
    simp [RawExpr.jsonSkel, safe_jsonSkelList es h]
  | .record kes, h => by
    simp only [RawExpr.wfb] at h
    simp [RawExpr.jsonSkel, safe_jsonSkelKVs kes h]
  | .call fn args, h => by
    simp only [RawExpr.wfb] at h
    simp [RawExpr.jsonSkel, safe_jsonSkelList args h]
theorem safe_jsonSkelList : ∀ (es : List RawExpr), RawExpr.wfbList es = true → RawExpr.jsonSkelList es = .ok ()
  | [], _ => by simp [RawExpr.jsonSkelList]
  | e :: es, h => by
    simp only [RawExpr.wfbList, Bool.and_eq_true] at h
    simp [RawExpr.jsonSkelList, safe_jsonSkel e h.1, safe_jsonSkelList es h.2, bind, Except.bind]
theorem safe_jsonSkelKVs : ∀ (kes : List (String × RawExpr)), RawExpr.wfbKVs kes = true → RawExpr.jsonSkelKVs kes = .ok ()
  | [], _ => by simp [RawExpr.jsonSkelKVs]
  | (k, e) :: kes, h => by
    simp only [RawExpr.wfbKVs, Bool.and_eq_true] at h
    simp [RawExpr.jsonSkelKVs, safe_jsonSkel e h.1, safe_jsonSkelKVs kes h.2, bind, Except.bind]
end


/-! ### WF trees also pass the Cedar text encoder -/

mutual
theorem wf_marshalSkel : ∀ (r : RawExpr), r.wfb = true → r.marshalSkel = .ok ()
  | .nil, h => by simp [RawExpr.wfb] at h
  | .lit v, _ => by simp [RawExpr.marshalSkel]
  | .var n, _ => by simp [RawExpr.marshalSkel]
  | .unop op e, h => by
    simp only [RawExpr.wfb] at h
    simp [RawExpr.marshalSkel, wf_marshalSkel e h]
  | .binop op l r, h => by
    simp only [RawExpr.wfb, Bool.and_eq_true] at h
    simp [RawExpr.marshalSkel, wf_marshalSkel l h.1, wf_marshalSkel r h.2, bind, Except.bind]
  | .ite c t e, h => by
    simp only [RawExpr.wfb, Bool.and_eq_true] at h
    simp [RawExpr.marshalSkel, wf_marshalSkel c h.1.1, wf_marshalSkel t h.1.2, wf_marshalSkel e h.2, bind, Except.bind]
  | .access e a, h => by
    simp only [RawExpr.wfb] at h
    simp [RawExpr.marshalSkel, wf_marshalSkel e h]
  | .has e a, h => by
    simp only [RawExpr.wfb] at h
    simp [RawExpr.marshalSkel, wf_marshalSkel e h]
  | .like e p, h => by
    simp only [RawExpr.wfb] at h
    simp [RawExpr.marshalSkel, wf_marshalSkel e h]
  | .is e ty, h => by
    simp only [RawExpr.wfb] at h
    simp [RawExpr.marshalSkel, wf_marshalSkel e h]
  | .isIn e ty r, h => by
    simp only [RawExpr.wfb, Bool.and_eq_true] at h
    simp [RawExpr.marshalSkel, wf_marshalSkel e h.1, wf_marshalSkel r h.2, bind, Except.bind]
  | .set es, h => by
    simp only [RawExpr.wfb] at h
    simp [RawExpr.marshalSkel, wf_marshalSkelList es h]
  | .record kes, h => by
    simp only [RawExpr.wfb] at h
    simp [RawExpr.marshalSkel, wf_marshalSkelKVs kes h]
  | .call fn args, h => by
    simp only [RawExpr.wfb] at h
    have hl := wf_marshalSkelList args h
    unfold RawExpr.marshalSkel
    cases hm : isMethod fn with
    | false => simpa using hl
    | true =>
      cases args with
      | nil => simp
      | cons a rest =>
        simp only [RawExpr.marshalSkelList] at hl
        simpa using hl
theorem wf_marshalSkelList : ∀ (es : List RawExpr), RawExpr.wfbList es = true → RawExpr.marshalSkelList es = .ok ()
  | [], _ => by simp [RawExpr.marshalSkelList]
  | e :: es, h => by
    simp only [RawExpr.wfbList, Bool.and_eq_true] at h
    simp [RawExpr.marshalSkelList, wf_marshalSkel e h.1, wf_marshalSkelList es h.2, bind, Except.bind]
theorem wf_marshalSkelKVs : ∀ (kes : List (String × RawExpr)), RawExpr.wfbKVs kes = true → RawExpr.marshalSkelKVs kes = .ok ()
  | [], _ => by simp [RawExpr.marshalSkelKVs]
  | (k, e) :: kes, h => by
    simp only [RawExpr.wfbKVs, Bool.and_eq_true] at h
    simp [RawExpr.marshalSkelKVs, wf_marshalSkel e h.1, wf_marshalSkelKVs kes h.2, bind, Except.bind]
end


/-! ### the JSON decoder: every tree it returns is WF and has its receivers -/

theorem toNodeList_isEmpty (es : List NodeJSON) (rs : List RawExpr)
    (h : NodeJSON.toNodeList es = .ok rs) : rs.isEmpty = es.isEmpty := by
  cases es with
  | nil => simp only [NodeJSON.toNodeList] at h; cases h; rfl
  | cons e es =>
    simp only [NodeJSON.toNodeList, bind, Except.bind] at h
    repeat' split at h
    all_goals cases h
    all_goals rfl

mutual
theorem toNode_wf : ∀ (j : NodeJSON) (r : RawExpr), j.toNode = .ok r → r.wfb = true
  | .nil, x, h => by simp [NodeJSON.toNode] at h
  | .zero, x, h => by simp [NodeJSON.toNode] at h
  | .lit v, x, h => by simp only [NodeJSON.toNode] at h; cases h; simp [RawExpr.wfb]
  | .var n, x, h => by
    simp only [NodeJSON.toNode] at h
    split at h
    · cases h; simpa [RawExpr.wfb]
    · cases h
  | .unop op e, x, h => by
    simp only [NodeJSON.toNode, bind, Except.bind] at h
    repeat' split at h
    all_goals cases h
    all_goals simp [RawExpr.wfb, toNode_wf e _ (by assumption)]
  | .binop op l r, x, h => by
    simp only [NodeJSON.toNode, bind, Except.bind] at h
    repeat' split at h
    all_goals cases h
    all_goals simp [RawExpr.wfb, toNode_wf l _ (by assumption), toNode_wf r _ (by assumption)]
  | .ite c t e, x, h => by
    simp only [NodeJSON.toNode, bind, Except.bind] at h
    repeat' split at h
    all_goals cases h
    all_goals simp [RawExpr.wfb, toNode_wf c _ (by assumption), toNode_wf t _ (by assumption), toNode_wf e _ (by assumption)]
  | .access e a, x, h => by
    simp only [NodeJSON.toNode, bind, Except.bind] at h
    repeat' split at h
    all_goals cases h
    all_goals simp [RawExpr.wfb, toNode_wf e _ (by assumption)]
  | .has e a, x, h => by
    simp only [NodeJSON.toNode, bind, Except.bind] at h
    repeat' split at h
    all_goals cases h
    all_goals simp [RawExpr.wfb, toNode_wf e _ (by assumption)]
  | .like e p, x, h => by
    simp only [NodeJSON.toNode, bind, Except.bind] at h
    repeat' split at h
    all_goals cases h
    all_goals simp [RawExpr.wfb, toNode_wf e _ (by assumption)]
  | .is e ty, x, h => by
    simp only [NodeJSON.toNode, bind, Except.bind] at h
    repeat' split at h
    all_goals cases h
    all_goals simp [RawExpr.wfb, toNode_wf e _ (by assumption)]
  | .isIn e ty r, x, h => by
    simp only [NodeJSON.toNode, bind, Except.bind] at h
    repeat' split at h
    all_goals cases h
    all_goals simp [RawExpr.wfb, toNode_wf e _ (by assumption), toNode_wf r _ (by assumption)]
  | .set es, x, h => by
    simp only [NodeJSON.toNode, bind, Except.bind] at h
    repeat' split at h
    all_goals cases h
    all_goals simp [RawExpr.wfb, toNode_wfList es _ (by assumption)]
  | .record kes, x, h => by
    simp only [NodeJSON.toNode, bind, Except.bind] at h
    repeat' split at h
    all_goals cases h
    all_goals simp [RawExpr.wfb, toNode_wfKVs kes _ (by assumption)]
  | .call fn args, x, h => by
    simp only [NodeJSON.toNode, bind, Except.bind] at h
    repeat' split at h
    all_goals cases h
    all_goals simp [RawExpr.wfb, toNode_wfList args _ (by assumption)]
theorem toNode_wfList : ∀ (es : List NodeJSON) (rs : List RawExpr), NodeJSON.toNodeList es = .ok rs → RawExpr.wfbList rs = true
  | [], x, h => by simp only [NodeJSON.toNodeList] at h; cases h; simp [RawExpr.wfbList]
  | e :: es, x, h => by
    simp only [NodeJSON.toNodeList, bind, Except.bind] at h
    repeat' split at h
    all_goals cases h
    all_goals simp [RawExpr.wfbList, toNode_wf e _ (by assumption), toNode_wfList es _ (by assumption)]
theorem toNode_wfKVs : ∀ (kes : List (String × NodeJSON)) (rs : List (String × RawExpr)), NodeJSON.toNodeKVs kes = .ok rs → RawExpr.wfbKVs rs = true
  | [], x, h => by simp only [NodeJSON.toNodeKVs] at h; cases h; simp [RawExpr.wfbKVs]
  | (k, e) :: kes, x, h => by
    simp only [NodeJSON.toNodeKVs, bind, Except.bind] at h
    repeat' split at h
    all_goals cases h
    all_goals simp [RawExpr.wfbKVs, toNode_wf e _ (by assumption), toNode_wfKVs kes _ (by assumption)]
end

mutual
theorem toNode_recv : ∀ (j : NodeJSON) (r : RawExpr), j.toNode = .ok r → r.recvb = true
  | .nil, x, h => by simp [NodeJSON.toNode] at h
  | .zero, x, h => by simp [NodeJSON.toNode] at h
  | .lit v, x, h => by simp only [NodeJSON.toNode] at h; cases h; simp [RawExpr.recvb]
  | .var n, x, h => by
    simp only [NodeJSON.toNode] at h
    split at h
    · cases h; simp [RawExpr.recvb]
    · cases h
  | .unop op e, x, h => by
    simp only [NodeJSON.toNode, bind, Except.bind] at h
    repeat' split at h
    all_goals cases h
    all_goals simp [RawExpr.recvb, toNode_recv e _ (by assumption)]
  | .binop op l r, x, h => by
    simp only [NodeJSON.toNode, bind, Except.bind] at h
    repeat' split at h
    all_goals cases h
    all_goals simp [RawExpr.recvb, toNode_recv l _ (by assumption), toNode_recv r _ (by assumption)]
  | .ite c t e, x, h => by
    simp only [NodeJSON.toNode, bind, Except.bind] at h
    repeat' split at h
    all_goals cases h
    all_goals simp [RawExpr.recvb, toNode_recv c _ (by assumption), toNode_recv t _ (by assumption), toNode_recv e _ (by assumption)]
  | .access e a, x, h => by
    simp only [NodeJSON.toNode, bind, Except.bind] at h
    repeat' split at h
    all_goals cases h
    all_goals simp [RawExpr.recvb, toNode_recv e _ (by assumption)]
  | .has e a, x, h => by
    simp only [NodeJSON.toNode, bind, Except.bind] at h
    repeat' split at h
    all_goals cases h
    all_goals simp [RawExpr.recvb, toNode_recv e _ (by assumption)]
  | .like e p, x, h => by
    simp only [NodeJSON.toNode, bind, Except.bind] at h
    repeat' split at h
    all_goals cases h
    all_goals simp [RawExpr.recvb, toNode_recv e _ (by assumption)]
  | .is e ty, x, h => by
    simp only [NodeJSON.toNode, bind, Except.bind] at h
    repeat' split at h
    all_goals cases h
    all_goals simp [RawExpr.recvb, toNode_recv e _ (by assumption)]
  | .isIn e ty r, x, h => by
    simp only [NodeJSON.toNode, bind, Except.bind] at h
    repeat' split at h
    all_goals cases h
    all_goals simp [RawExpr.recvb, toNode_recv e _ (by assumption), toNode_recv r _ (by assumption)]
  | .set es, x, h => by
    simp only [NodeJSON.toNode, bind, Except.bind] at h
    repeat' split at h
    all_goals cases h
    all_goals simp [RawExpr.recvb, toNode_recvList es _ (by assumption)]
  | .record kes, x, h => by
    simp only [NodeJSON.toNode, bind, Except.bind] at h
    repeat' split at h
    all_goals cases h
    all_goals simp [RawExpr.recvb, toNode_recvKVs kes _ (by assumption)]
  | .call fn args, x, h => by
    simp only [NodeJSON.toNode, bind, Except.bind] at h
    repeat' split at h
    all_goals cases h
    all_goals (
      rename_i hc _ _ hl
      simp only [Bool.and_eq_true] at hc
      have hlen := toNodeList_isEmpty args _ hl
      simp only [RawExpr.recvb, toNode_recvList args _ hl, hlen, Bool.and_true]
      exact hc.2)
theorem toNode_recvList : ∀ (es : List NodeJSON) (rs : List RawExpr), NodeJSON.toNodeList es = .ok rs → RawExpr.recvbList rs = true
  | [], x, h => by simp only [NodeJSON.toNodeList] at h; cases h; simp [RawExpr.recvbList]
  | e :: es, x, h => by
    simp only [NodeJSON.toNodeList, bind, Except.bind] at h
    repeat' split at h
    all_goals cases h
    all_goals simp [RawExpr.recvbList, toNode_recv e _ (by assumption), toNode_recvList es _ (by assumption)]
theorem toNode_recvKVs : ∀ (kes : List (String × NodeJSON)) (rs : List (String × RawExpr)), NodeJSON.toNodeKVs kes = .ok rs → RawExpr.recvbKVs rs = true
  | [], x, h => by simp only [NodeJSON.toNodeKVs] at h; cases h; simp [RawExpr.recvbKVs]
  | (k, e) :: kes, x, h => by
    simp only [NodeJSON.toNodeKVs, bind, Except.bind] at h
    repeat' split at h
    all_goals cases h
    all_goals simp [RawExpr.recvbKVs, toNode_recv e _ (by assumption), toNode_recvKVs kes _ (by assumption)]
end



/-! ### WF is necessary: a tree that is not WF makes ToEval or MarshalCedar panic -/

mutual
theorem notwf_panics : ∀ (r : RawExpr), r.wfb = false → r.toExpr? = .error .panic ∨ r.marshalSkel = .error .panic
  | .nil, _ => by left; simp [RawExpr.toExpr?]
  | .lit v, h => by simp [RawExpr.wfb] at h
  | .var n, h => by
    left
    simp only [RawExpr.wfb, knownVar] at h
    simp only [RawExpr.toExpr?]
    cases hv : toVar? n with
    | none => rfl
    | some v => simp [hv] at h
  | .unop op e, h => by
    simp only [RawExpr.wfb] at h
    rcases notwf_panics e h with h1 | h1
    · left; simp [RawExpr.toExpr?, h1, bind, Except.bind]
    · right; simp [RawExpr.marshalSkel, h1]
  | .access e a, h => by
    simp only [RawExpr.wfb] at h
    rcases notwf_panics e h with h1 | h1
    · left; simp [RawExpr.toExpr?, h1, bind, Except.bind]
    · right; simp [RawExpr.marshalSkel, h1]
  | .has e a, h => by
    simp only [RawExpr.wfb] at h
    rcases notwf_panics e h with h1 | h1
    · left; simp [RawExpr.toExpr?, h1, bind, Except.bind]
    · right; simp [RawExpr.marshalSkel, h1]
  | .like e p, h => by
    simp only [RawExpr.wfb] at h
    rcases notwf_panics e h with h1 | h1
    · left; simp [RawExpr.toExpr?, h1, bind, Except.bind]
    · right; simp [RawExpr.marshalSkel, h1]
  | .is e ty, h => by
    simp only [RawExpr.wfb] at h
    rcases notwf_panics e h with h1 | h1
    · left; simp [RawExpr.toExpr?, h1, bind, Except.bind]
    · right; simp [RawExpr.marshalSkel, h1]
  | .binop op l r, h => by
    simp only [RawExpr.wfb] at h
    cases hl : l.wfb with
    | false =>
      rcases notwf_panics l hl with h1 | h1
      · left; simp [RawExpr.toExpr?, h1, bind, Except.bind]
      · right; simp [RawExpr.marshalSkel, h1, bind, Except.bind]
    | true =>
      have hr : r.wfb = false := by simpa [hl] using h
      obtain ⟨l', hl'⟩ := safe_toExpr l hl
      have hm := wf_marshalSkel l hl
      rcases notwf_panics r hr with h1 | h1
      · left; simp [RawExpr.toExpr?, hl', h1, bind, Except.bind]
      · right; simp [RawExpr.marshalSkel, hm, h1, bind, Except.bind]
  | .isIn l ty r, h => by
    simp only [RawExpr.wfb] at h
    cases hl : l.wfb with
    | false =>
      rcases notwf_panics l hl with h1 | h1
      · left; simp [RawExpr.toExpr?, h1, bind, Except.bind]
      · right; simp [RawExpr.marshalSkel, h1, bind, Except.bind]
    | true =>
      have hr : r.wfb = false := by simpa [hl] using h
      obtain ⟨l', hl'⟩ := safe_toExpr l hl
      have hm := wf_marshalSkel l hl
      rcases notwf_panics r hr with h1 | h1
      · left; simp [RawExpr.toExpr?, hl', h1, bind, Except.bind]
      · right; simp [RawExpr.marshalSkel, hm, h1, bind, Except.bind]
  | .ite c t e, h => by
    simp only [RawExpr.wfb] at h
    cases hc : c.wfb with
    | false =>
      rcases notwf_panics c hc with h1 | h1
      · left; simp [RawExpr.toExpr?, h1, bind, Except.bind]
      · right; simp [RawExpr.marshalSkel, h1, bind, Except.bind]
    | true =>
      obtain ⟨c', hc'⟩ := safe_toExpr c hc
      have hmc := wf_marshalSkel c hc
      cases ht : t.wfb with
      | false =>
        rcases notwf_panics t ht with h1 | h1
        · left; simp [RawExpr.toExpr?, hc', h1, bind, Except.bind]
        · right; simp [RawExpr.marshalSkel, hmc, h1, bind, Except.bind]
      | true =>
        have he : e.wfb = false := by simpa [hc, ht] using h
        obtain ⟨t', ht'⟩ := safe_toExpr t ht
        have hmt := wf_marshalSkel t ht
        rcases notwf_panics e he with h1 | h1
        · left; simp [RawExpr.toExpr?, hc', ht', h1, bind, Except.bind]
        · right; simp [RawExpr.marshalSkel, hmc, hmt, h1, bind, Except.bind]
  | .set es, h => by
    simp only [RawExpr.wfb] at h
    rcases notwf_panicsList es h with h1 | h1
    · left; simp [RawExpr.toExpr?, h1, bind, Except.bind]
    · right; simp [RawExpr.marshalSkel, h1]
  | .record kes, h => by
    simp only [RawExpr.wfb] at h
    rcases notwf_panicsKVs kes h with h1 | h1
    · left; simp [RawExpr.toExpr?, h1, bind, Except.bind]
    · right; simp [RawExpr.marshalSkel, h1]
  | .call fn args, h => by
    simp only [RawExpr.wfb] at h
    rcases notwf_panicsList args h with h1 | h1
    · left; simp [RawExpr.toExpr?, h1, bind, Except.bind]
    · right
      unfold RawExpr.marshalSkel
      cases hm : isMethod fn with
      | false => simpa using h1
      | true =>
        cases args with
        | nil => simp [RawExpr.wfbList] at h
        | cons a rest =>
          simp only [RawExpr.marshalSkelList] at h1
          simpa using h1
theorem notwf_panicsList : ∀ (es : List RawExpr), RawExpr.wfbList es = false →
    RawExpr.toExprList? es = .error .panic ∨ RawExpr.marshalSkelList es = .error .panic
  | [], h => by simp [RawExpr.wfbList] at h
  | e :: es, h => by
    simp only [RawExpr.wfbList] at h
    cases he : e.wfb with
    | false =>
      rcases notwf_panics e he with h1 | h1
      · left; simp [RawExpr.toExprList?, h1, bind, Except.bind]
      · right; simp [RawExpr.marshalSkelList, h1, bind, Except.bind]
    | true =>
      have hr : RawExpr.wfbList es = false := by simpa [he] using h
      obtain ⟨e', he'⟩ := safe_toExpr e he
      have hm := wf_marshalSkel e he
      rcases notwf_panicsList es hr with h1 | h1
      · left; simp [RawExpr.toExprList?, he', h1, bind, Except.bind]
      · right; simp [RawExpr.marshalSkelList, hm, h1, bind, Except.bind]
theorem notwf_panicsKVs : ∀ (kes : List (String × RawExpr)), RawExpr.wfbKVs kes = false →
    RawExpr.toExprKVs? kes = .error .panic ∨ RawExpr.marshalSkelKVs kes = .error .panic
  | [], h => by simp [RawExpr.wfbKVs] at h
  | (k, e) :: kes, h => by
    simp only [RawExpr.wfbKVs] at h
    cases he : e.wfb with
    | false =>
      rcases notwf_panics e he with h1 | h1
      · left; simp [RawExpr.toExprKVs?, h1, bind, Except.bind]
      · right; simp [RawExpr.marshalSkelKVs, h1, bind, Except.bind]
    | true =>
      have hr : RawExpr.wfbKVs kes = false := by simpa [he] using h
      obtain ⟨e', he'⟩ := safe_toExpr e he
      have hm := wf_marshalSkel e he
      rcases notwf_panicsKVs kes hr with h1 | h1
      · left; simp [RawExpr.toExprKVs?, he', h1, bind, Except.bind]
      · right; simp [RawExpr.marshalSkelKVs, hm, h1, bind, Except.bind]
end


/-! ### decoders: where they can panic -/

def DNoPanic {α : Type} (r : Except DecErr α) : Prop := r ≠ .error .panic
theorem dnp_ok {α : Type} (a : α) : DNoPanic (.ok a : Except DecErr α) := by simp [DNoPanic]
theorem dnp_reject {α : Type} : DNoPanic (.error .reject : Except DecErr α) := by simp [DNoPanic]
theorem dnp_bind {α β : Type} {r : Except DecErr α} {f : α → Except DecErr β}
    (h1 : DNoPanic r) (h2 : ∀ a, DNoPanic (f a)) : DNoPanic (r >>= f) := by
  cases r with
  | error k => simpa [DNoPanic, bind, Except.bind] using h1
  | ok a => simpa [bind, Except.bind] using h2 a

macro "dnp" : tactic => `(tactic| repeat' (with_reducible first
  | assumption
  | exact dnp_ok _
  | exact dnp_reject
  | refine dnp_bind ?_ (fun _ => ?_)
  | split))

mutual
theorem toNode_noPanic : ∀ (j : NodeJSON), DNoPanic j.toNode
  | .nil => by simp only [NodeJSON.toNode]; dnp
  | .zero => by simp only [NodeJSON.toNode]; dnp
  | .lit v => by simp only [NodeJSON.toNode]; dnp
  | .var n => by simp only [NodeJSON.toNode]; dnp
  | .unop op e => by
    have ih0 := toNode_noPanic e
    simp only [NodeJSON.toNode]; dnp
  | .binop op l r => by
    have ih0 := toNode_noPanic l
    have ih1 := toNode_noPanic r
    simp only [NodeJSON.toNode]; dnp
  | .ite c t e => by
    have ih0 := toNode_noPanic c
    have ih1 := toNode_noPanic t
    have ih2 := toNode_noPanic e
    simp only [NodeJSON.toNode]; dnp
  | .access e a => by
    have ih0 := toNode_noPanic e
    simp only [NodeJSON.toNode]; dnp
  | .has e a => by
    have ih0 := toNode_noPanic e
    simp only [NodeJSON.toNode]; dnp
  | .like e p => by
    have ih0 := toNode_noPanic e
    simp only [NodeJSON.toNode]; dnp
  | .is e ty => by
    have ih0 := toNode_noPanic e
    simp only [NodeJSON.toNode]; dnp
  | .isIn e ty r => by
    have ih0 := toNode_noPanic e
    have ih1 := toNode_noPanic r
    simp only [NodeJSON.toNode]; dnp
  | .set es => by
    have ih := toNode_noPanicList es
    simp only [NodeJSON.toNode]; dnp
  | .record kes => by
    have ih := toNode_noPanicKVs kes
    simp only [NodeJSON.toNode]; dnp
  | .call fn args => by
    have ih := toNode_noPanicList args
    simp only [NodeJSON.toNode]; dnp
theorem toNode_noPanicList : ∀ (es : List NodeJSON), DNoPanic (NodeJSON.toNodeList es)
  | [] => by simp only [NodeJSON.toNodeList]; dnp
  | e :: es => by
    have ih0 := toNode_noPanic e
    have ih1 := toNode_noPanicList es
    simp only [NodeJSON.toNodeList]; dnp
theorem toNode_noPanicKVs : ∀ (kes : List (String × NodeJSON)), DNoPanic (NodeJSON.toNodeKVs kes)
  | [] => by simp only [NodeJSON.toNodeKVs]; dnp
  | (k, e) :: kes => by
    have ih0 := toNode_noPanic e
    have ih1 := toNode_noPanicKVs kes
    simp only [NodeJSON.toNodeKVs]; dnp
end

end CedarGo
