/-
  C13 (nested coercion), part 4: what the unguided decoder returns for a spelling of a well-formed datum is itself
  well-formed and free of reserved keys (so it is in the fragment on which `decodeValue ∘ encodeValue` is the identity);
  every well-typed value is a spelling of itself.
-/
import CedarGoProofs.Lemmas.C13CoerceInj
namespace CedarGo.JsonModel
open CedarGo CedarGo.Scalars

/-! ### sets stay duplicate-free -/

theorem spellsL_nodup : ∀ (xs : List Value) (t : STy) (us sx su : List Value), spellsL xs t us → spellsL sx t su →
    nodupV sx xs = true → nodupV su us = true
  | [], _, _, _, _, h, _, _ => by rw [spellsL] at h; subst h; rfl
  | x :: xs, t, us, sx, su, h, hs, hn => by
    rw [spellsL] at h
    obtain ⟨u, us', rfl, hx, hr⟩ := h
    simp only [nodupV, Bool.and_eq_true, Bool.not_eq_true'] at hn ⊢
    refine ⟨?_, spellsL_nodup xs t us' (x :: sx) (u :: su) hr (by rw [spellsL]; exact ⟨u, su, rfl, hx, hs⟩) hn.2⟩
    -- were `u` Equal to an earlier decoded member, `x` would be Equal to an earlier member
    cases hm : Value.memL u su with
    | false => rfl
    | true =>
      exfalso
      simp only [Value.memL, List.any_eq_true] at hm
      obtain ⟨w, hw, hwb⟩ := hm
      obtain ⟨y, hz⟩ := spellsL_right sx t su hs w hw
      have hy := spells_inj y t w x u (spellsL_zip sx t su hs _ hz) hx hwb
      have : Value.memL x sx = true := by
        simp only [Value.memL, List.any_eq_true]
        exact ⟨y, (List.of_mem_zip hz).1, hy⟩
      rw [hn.1] at this
      cases this

/-! ### well-formedness and reserved keys -/

theorem extSpells_wf (n : String) (v u : Value) (h : extSpells n v u) (hw : vWF v = true) : vWF u = true := by
  cases v <;> simp only [extSpells] at h
  all_goals (obtain ⟨_, h | ⟨s, rfl, _⟩⟩ := h <;> first | (subst h; exact hw) | rfl)

theorem extSpells_noReserved (n : String) (v u : Value) (h : extSpells n v u) : vNoReserved u = true := by
  cases v <;> simp only [extSpells] at h
  all_goals (obtain ⟨_, h | ⟨s, rfl, _⟩⟩ := h <;> first | (subst h; rfl) | rfl)

theorem implicitRec_wf (ty id : String) : vWF (implicitRec ty id) = true := by
  have : ("id" < "type") = True := by decide
  simp [implicitRec, vWF, wfJsonKV, keysSorted, this]

theorem implicitRec_noReserved (ty id : String) : vNoReserved (implicitRec ty id) = true := by
  have k1 : reservedKey "id" = false := by decide +kernel
  have k2 : reservedKey "type" = false := by decide +kernel
  simp [implicitRec, vNoReserved, noReservedKeysKV, k1, k2]

mutual
theorem spells_wf : ∀ (v : Value) (t : STy) (u : Value), spells v t u → vWF v = true → vWF u = true
  | .bool b, t, u, h, hw => by rw [spells] at h; rw [h.2]; exact hw
  | .long n, t, u, h, hw => by rw [spells] at h; rw [h.2]; exact hw
  | .str s, t, u, h, hw => by rw [spells] at h; rw [h.2]; exact hw
  | .entity ty id, t, u, h, hw => by
    rw [spells] at h
    rcases h.2 with rfl | rfl
    · exact hw
    · exact implicitRec_wf ty id
  | .decimal d, t, u, h, hw => by rw [spells] at h; obtain ⟨n, _, he⟩ := h; exact extSpells_wf n _ u he hw
  | .datetime d, t, u, h, hw => by rw [spells] at h; obtain ⟨n, _, he⟩ := h; exact extSpells_wf n _ u he hw
  | .duration d, t, u, h, hw => by rw [spells] at h; obtain ⟨n, _, he⟩ := h; exact extSpells_wf n _ u he hw
  | .ip a, t, u, h, hw => by rw [spells] at h; obtain ⟨n, _, he⟩ := h; exact extSpells_wf n _ u he hw
  | .set xs, t, u, h, hw => by
    rw [spells] at h
    obtain ⟨te, us, rfl, rfl, hl⟩ := h
    simp only [vWF, Bool.and_eq_true] at hw ⊢
    exact ⟨spellsL_wf xs te us hl hw.1, spellsL_nodup xs te us [] [] hl (by rw [spellsL]) hw.2⟩
  | .record kvs, t, u, h, hw => by
    rw [spells] at h
    obtain ⟨attrs, ukvs, rfl, rfl, hk⟩ := h
    simp only [vWF, Bool.and_eq_true] at hw ⊢
    refine ⟨spellsKV_wf kvs attrs ukvs hk hw.1, ?_⟩
    rw [keysSorted_congr ukvs kvs (spellsKV_keys kvs attrs ukvs hk)]; exact hw.2
theorem spellsL_wf : ∀ (xs : List Value) (t : STy) (us : List Value), spellsL xs t us → wfJsonL xs = true → wfJsonL us = true
  | [], _, _, h, _ => by rw [spellsL] at h; subst h; rfl
  | x :: xs, t, us, h, hw => by
    rw [spellsL] at h
    obtain ⟨u, us', rfl, hx, hr⟩ := h
    simp only [wfJsonL, Bool.and_eq_true] at hw ⊢
    exact ⟨spells_wf x t u hx hw.1, spellsL_wf xs t us' hr hw.2⟩
theorem spellsKV_wf : ∀ (kvs : List (String × Value)) (attrs : List (String × STy)) (ukvs : List (String × Value)),
    spellsKV kvs attrs ukvs → wfJsonKV kvs = true → wfJsonKV ukvs = true
  | [], _, _, h, _ => by rw [spellsKV] at h; subst h; rfl
  | (k, x) :: kvs, attrs, ukvs, h, hw => by
    rw [spellsKV] at h
    obtain ⟨u, ukvs', rfl, hx, hr⟩ := h
    simp only [wfJsonKV, Bool.and_eq_true] at hw ⊢
    refine ⟨?_, spellsKV_wf kvs attrs ukvs' hr hw.2⟩
    cases hty : attrTy attrs k with
    | none => rw [hty] at hx; simp only [] at hx; rw [hx]; exact hw.1
    | some t => rw [hty] at hx; simp only [] at hx; exact spells_wf x t u hx hw.1
end

mutual
theorem spells_noReserved : ∀ (v : Value) (t : STy) (u : Value), spells v t u → vNoReserved v = true → vNoReserved u = true
  | .bool b, t, u, h, hw => by rw [spells] at h; rw [h.2]; exact hw
  | .long n, t, u, h, hw => by rw [spells] at h; rw [h.2]; exact hw
  | .str s, t, u, h, hw => by rw [spells] at h; rw [h.2]; exact hw
  | .entity ty id, t, u, h, hw => by
    rw [spells] at h
    rcases h.2 with rfl | rfl
    · exact hw
    · exact implicitRec_noReserved ty id
  | .decimal d, t, u, h, _ => by rw [spells] at h; obtain ⟨n, _, he⟩ := h; exact extSpells_noReserved n _ u he
  | .datetime d, t, u, h, _ => by rw [spells] at h; obtain ⟨n, _, he⟩ := h; exact extSpells_noReserved n _ u he
  | .duration d, t, u, h, _ => by rw [spells] at h; obtain ⟨n, _, he⟩ := h; exact extSpells_noReserved n _ u he
  | .ip a, t, u, h, _ => by rw [spells] at h; obtain ⟨n, _, he⟩ := h; exact extSpells_noReserved n _ u he
  | .set xs, t, u, h, hw => by
    rw [spells] at h
    obtain ⟨te, us, rfl, rfl, hl⟩ := h
    simp only [vNoReserved] at hw ⊢
    exact spellsL_noReserved xs te us hl hw
  | .record kvs, t, u, h, hw => by
    rw [spells] at h
    obtain ⟨attrs, ukvs, rfl, rfl, hk⟩ := h
    simp only [vNoReserved] at hw ⊢
    exact spellsKV_noReserved kvs attrs ukvs hk hw
theorem spellsL_noReserved : ∀ (xs : List Value) (t : STy) (us : List Value), spellsL xs t us → noReservedKeysL xs = true →
    noReservedKeysL us = true
  | [], _, _, h, _ => by rw [spellsL] at h; subst h; rfl
  | x :: xs, t, us, h, hw => by
    rw [spellsL] at h
    obtain ⟨u, us', rfl, hx, hr⟩ := h
    simp only [noReservedKeysL, Bool.and_eq_true] at hw ⊢
    exact ⟨spells_noReserved x t u hx hw.1, spellsL_noReserved xs t us' hr hw.2⟩
theorem spellsKV_noReserved : ∀ (kvs : List (String × Value)) (attrs : List (String × STy)) (ukvs : List (String × Value)),
    spellsKV kvs attrs ukvs → noReservedKeysKV kvs = true → noReservedKeysKV ukvs = true
  | [], _, _, h, _ => by rw [spellsKV] at h; subst h; rfl
  | (k, x) :: kvs, attrs, ukvs, h, hw => by
    rw [spellsKV] at h
    obtain ⟨u, ukvs', rfl, hx, hr⟩ := h
    simp only [noReservedKeysKV, Bool.and_eq_true] at hw ⊢
    refine ⟨⟨hw.1.1, ?_⟩, spellsKV_noReserved kvs attrs ukvs' hr hw.2⟩
    cases hty : attrTy attrs k with
    | none => rw [hty] at hx; simp only [] at hx; rw [hx]; exact hw.1.2
    | some t => rw [hty] at hx; simp only [] at hx; exact spells_noReserved x t u hx hw.1.2
end

/-! ### typing: the all-explicit spelling -/

mutual
/-- `v` is a value of schema type `t` (entity type names are not compared: coercion does not look at them; attributes the
    record type does not declare are unconstrained, missing ones allowed — optionality plays no part in coercion) -/
def hasTy : Value → STy → Bool
  | .bool _, t => match t with | .bool => true | _ => false
  | .long _, t => match t with | .long => true | _ => false
  | .str _, t => match t with | .str => true | _ => false
  | .entity _ _, t => match t with | .entity _ => true | _ => false
  | .decimal _, t => match t with | .ext n => n == "decimal" | _ => false
  | .datetime _, t => match t with | .ext n => n == "datetime" | _ => false
  | .duration _, t => match t with | .ext n => n == "duration" | _ => false
  | .ip _, t => match t with | .ext n => n == "ipaddr" | _ => false
  | .set xs, t => match t with | .set te => hasTyL xs te | _ => false
  | .record kvs, t => match t with | .record attrs => hasTyKV kvs attrs | _ => false
def hasTyL : List Value → STy → Bool
  | [], _ => true
  | x :: xs, t => hasTy x t && hasTyL xs t
def hasTyKV : List (String × Value) → List (String × STy) → Bool
  | [], _ => true
  | (k, x) :: kvs, attrs => (match attrTy attrs k with | some t => hasTy x t | none => true) && hasTyKV kvs attrs
end

mutual
/-- the explicit spelling (`encodeValue v` itself) is an accepted spelling of every well-typed value -/
theorem spells_self : ∀ (v : Value) (t : STy), hasTy v t = true → spells v t v
  | .bool b, t, h => by cases t <;> simp [hasTy] at h; rw [spells]; exact ⟨rfl, rfl⟩
  | .long n, t, h => by cases t <;> simp [hasTy] at h; rw [spells]; exact ⟨rfl, rfl⟩
  | .str s, t, h => by cases t <;> simp [hasTy] at h; rw [spells]; exact ⟨rfl, rfl⟩
  | .entity ty id, t, h => by cases t <;> simp [hasTy] at h; rw [spells]; exact ⟨⟨_, rfl⟩, Or.inl rfl⟩
  | .decimal d, t, h => by
    cases t <;> simp [hasTy] at h
    rw [spells]; exact ⟨_, rfl, h, Or.inl rfl⟩
  | .datetime d, t, h => by
    cases t <;> simp [hasTy] at h
    rw [spells]; exact ⟨_, rfl, h, Or.inl rfl⟩
  | .duration d, t, h => by
    cases t <;> simp [hasTy] at h
    rw [spells]; exact ⟨_, rfl, h, Or.inl rfl⟩
  | .ip a, t, h => by
    cases t <;> simp [hasTy] at h
    rw [spells]; exact ⟨_, rfl, h, Or.inl rfl⟩
  | .set xs, t, h => by
    cases t with
    | set te => simp only [hasTy] at h; rw [spells]; exact ⟨_, xs, rfl, rfl, spellsL_self xs _ h⟩
    | _ => simp [hasTy] at h
  | .record kvs, t, h => by
    cases t with
    | record attrs => simp only [hasTy] at h; rw [spells]; exact ⟨_, kvs, rfl, rfl, spellsKV_self kvs _ h⟩
    | _ => simp [hasTy] at h
theorem spellsL_self : ∀ (xs : List Value) (t : STy), hasTyL xs t = true → spellsL xs t xs
  | [], _, _ => by rw [spellsL]
  | x :: xs, t, h => by
    simp only [hasTyL, Bool.and_eq_true] at h
    rw [spellsL]; exact ⟨x, xs, rfl, spells_self x t h.1, spellsL_self xs t h.2⟩
theorem spellsKV_self : ∀ (kvs : List (String × Value)) (attrs : List (String × STy)), hasTyKV kvs attrs = true → spellsKV kvs attrs kvs
  | [], _, _ => by rw [spellsKV]
  | (k, x) :: kvs, attrs, h => by
    simp only [hasTyKV, Bool.and_eq_true] at h
    rw [spellsKV]
    refine ⟨x, kvs, rfl, ?_, spellsKV_self kvs attrs h.2⟩
    cases hty : attrTy attrs k with
    | none => simp only []
    | some t =>
      have h1 := h.1
      rw [hty] at h1
      simp only [] at h1 ⊢
      exact spells_self x t h1
end

/-! ### tags: every value is spelled against the one tag type (`coerceTagValues`) -/

def spellsTags : List (String × Value) → STy → List (String × Value) → Prop
  | [], _, us => us = []
  | (k, x) :: kvs, t, us => ∃ u us', us = (k, u) :: us' ∧ spells x t u ∧ spellsTags kvs t us'

theorem spellsTags_keys : ∀ (kvs : List (String × Value)) (t : STy) (us : List (String × Value)),
    spellsTags kvs t us → us.map (·.1) = kvs.map (·.1)
  | [], _, _, h => by rw [spellsTags] at h; subst h; rfl
  | (k, x) :: kvs, t, us, h => by
    rw [spellsTags] at h
    obtain ⟨u, us', rfl, _, hr⟩ := h
    simp only [List.map_cons, spellsTags_keys kvs t us' hr]

theorem spellsTags_coerce : ∀ (kvs : List (String × Value)) (t : STy) (us : List (String × Value)),
    tyOK t = true → canonKV kvs = true → spellsTags kvs t us → us.map (fun kv => (kv.1, coerceValue t kv.2)) = kvs
  | [], _, _, _, _, h => by rw [spellsTags] at h; subst h; rfl
  | (k, x) :: kvs, t, us, ht, hc, h => by
    rw [spellsTags] at h
    obtain ⟨u, us', rfl, hx, hr⟩ := h
    simp only [canonKV, Bool.and_eq_true] at hc
    simp only [List.map_cons, coerce_spells x t u ht hc.1 hx, spellsTags_coerce kvs t us' ht hc.2 hr]

theorem spellsTags_wf : ∀ (kvs : List (String × Value)) (t : STy) (us : List (String × Value)),
    spellsTags kvs t us → wfJsonKV kvs = true → wfJsonKV us = true
  | [], _, _, h, _ => by rw [spellsTags] at h; subst h; rfl
  | (k, x) :: kvs, t, us, h, hw => by
    rw [spellsTags] at h
    obtain ⟨u, us', rfl, hx, hr⟩ := h
    simp only [wfJsonKV, Bool.and_eq_true] at hw ⊢
    exact ⟨spells_wf x t u hx hw.1, spellsTags_wf kvs t us' hr hw.2⟩

theorem spellsTags_noReserved : ∀ (kvs : List (String × Value)) (t : STy) (us : List (String × Value)),
    spellsTags kvs t us → noReservedKeysKV kvs = true → noReservedKeysKV us = true
  | [], _, _, h, _ => by rw [spellsTags] at h; subst h; rfl
  | (k, x) :: kvs, t, us, h, hw => by
    rw [spellsTags] at h
    obtain ⟨u, us', rfl, hx, hr⟩ := h
    simp only [noReservedKeysKV, Bool.and_eq_true] at hw ⊢
    exact ⟨⟨hw.1.1, spells_noReserved x t u hx hw.1.2⟩, spellsTags_noReserved kvs t us' hr hw.2⟩

/-- the spelled form of a well-formed record (attributes) is a well-formed record -/
theorem recordWF_spellsKV (kvs : List (String × Value)) (attrs : List (String × STy)) (ukvs : List (String × Value))
    (h : spellsKV kvs attrs ukvs) (hw : recordWF kvs = true) : recordWF ukvs = true := by
  simp only [recordWF, Bool.and_eq_true] at hw ⊢
  refine ⟨⟨spellsKV_wf kvs attrs ukvs h hw.1.1, ?_⟩, spellsKV_noReserved kvs attrs ukvs h hw.2⟩
  rw [keysSorted_congr ukvs kvs (spellsKV_keys kvs attrs ukvs h)]; exact hw.1.2

theorem recordWF_spellsTags (kvs : List (String × Value)) (t : STy) (us : List (String × Value))
    (h : spellsTags kvs t us) (hw : recordWF kvs = true) : recordWF us = true := by
  simp only [recordWF, Bool.and_eq_true] at hw ⊢
  refine ⟨⟨spellsTags_wf kvs t us h hw.1.1, ?_⟩, spellsTags_noReserved kvs t us h hw.2⟩
  rw [keysSorted_congr us kvs (spellsTags_keys kvs t us h)]; exact hw.1.2

end CedarGo.JsonModel
