/-
  C13 (nested coercion), part 2: coercing the unguided decoding of any accepted spelling gives back the datum.
-/
import CedarGoProofs.Lemmas.C13Coerce
namespace CedarGo.JsonModel
open CedarGo CedarGo.Scalars

theorem spellsKV_keys : ∀ (kvs : List (String × Value)) (attrs : List (String × STy)) (ukvs : List (String × Value)),
    spellsKV kvs attrs ukvs → ukvs.map (·.1) = kvs.map (·.1)
  | [], _, _, h => by rw [spellsKV] at h; subst h; rfl
  | (k, x) :: kvs, attrs, ukvs, h => by
    rw [spellsKV] at h
    obtain ⟨u, ukvs', rfl, _, hr⟩ := h
    simp only [List.map_cons, spellsKV_keys kvs attrs ukvs' hr]

theorem keysSorted_congr : ∀ (a b : List (String × Value)), a.map (·.1) = b.map (·.1) → keysSorted a = keysSorted b
  | [], [], _ => rfl
  | [], _ :: _, h => by simp at h
  | _ :: _, [], h => by simp at h
  | [(k, v)], [(k', v')], _ => rfl
  | [_], _ :: _ :: _, h => by simp at h
  | _ :: _ :: _, [_], h => by simp at h
  | (k₁, v₁) :: (k₂, v₂) :: ra, (k₁', v₁') :: (k₂', v₂') :: rb, h => by
    simp only [List.map_cons, List.cons.injEq] at h
    obtain ⟨e1, e2, er⟩ := h
    have ih := keysSorted_congr ((k₂, v₂) :: ra) ((k₂', v₂') :: rb) (by simp [e2, er])
    subst e1 e2
    simp only [keysSorted, ih]

theorem coerceExtension_spells (n : String) (v u : Value) (h : extSpells n v u) : coerceExtension u n = v := by
  have n1 : ("decimal" == "ipaddr") = false := by decide
  have n2 : ("datetime" == "ipaddr") = false := by decide
  have n3 : ("datetime" == "decimal") = false := by decide
  have n4 : ("duration" == "ipaddr") = false := by decide
  have n5 : ("duration" == "decimal") = false := by decide
  have n6 : ("duration" == "datetime") = false := by decide
  cases v with
  | decimal d =>
    obtain ⟨rfl, h | ⟨s, rfl, hs⟩⟩ := h
    · subst h; simp [coerceExtension]
    · simp [coerceExtension, n1, hs]
  | datetime d =>
    obtain ⟨rfl, h | ⟨s, rfl, hs⟩⟩ := h
    · subst h; simp [coerceExtension]
    · simp [coerceExtension, n2, n3, hs]
  | duration d =>
    obtain ⟨rfl, h | ⟨s, rfl, hs⟩⟩ := h
    · subst h; simp [coerceExtension]
    · simp [coerceExtension, n4, n5, n6, hs]
  | ip a =>
    obtain ⟨rfl, h | ⟨s, rfl, hs⟩⟩ := h
    · subst h; simp [coerceExtension]
    · simp [coerceExtension, hs]
  | bool _ => exact absurd h (by simp [extSpells])
  | long _ => exact absurd h (by simp [extSpells])
  | str _ => exact absurd h (by simp [extSpells])
  | entity _ _ => exact absurd h (by simp [extSpells])
  | set _ => exact absurd h (by simp [extSpells])
  | record _ => exact absurd h (by simp [extSpells])

theorem coerceEntityUID_implicit (ty id : String) : coerceEntityUID (implicitRec ty id) = .entity ty id := by
  have n1 : ("type" == "id") = false := by decide
  simp [coerceEntityUID, implicitRec, kvGet, n1]

mutual
/-- **coercion undoes every accepted spelling** -/
theorem coerce_spells : ∀ (v : Value) (t : STy) (u : Value), tyOK t = true → vCanon v = true → spells v t u → coerceValue t u = v
  | .bool b, t, u, _, _, h => by
    rw [spells] at h; obtain ⟨rfl, rfl⟩ := h; rw [coerceValue]
  | .long n, t, u, _, _, h => by
    rw [spells] at h; obtain ⟨rfl, rfl⟩ := h; rw [coerceValue]
  | .str s, t, u, _, _, h => by
    rw [spells] at h; obtain ⟨rfl, rfl⟩ := h; rw [coerceValue]
  | .entity ty id, t, u, _, _, h => by
    rw [spells] at h
    obtain ⟨⟨n, rfl⟩, rfl | rfl⟩ := h
    · rw [coerceValue]; rfl
    · rw [coerceValue]; exact coerceEntityUID_implicit ty id
  | .decimal d, t, u, _, _, h => by
    rw [spells] at h; obtain ⟨n, rfl, he⟩ := h; rw [coerceValue]; exact coerceExtension_spells n _ u he
  | .datetime d, t, u, _, _, h => by
    rw [spells] at h; obtain ⟨n, rfl, he⟩ := h; rw [coerceValue]; exact coerceExtension_spells n _ u he
  | .duration d, t, u, _, _, h => by
    rw [spells] at h; obtain ⟨n, rfl, he⟩ := h; rw [coerceValue]; exact coerceExtension_spells n _ u he
  | .ip a, t, u, _, _, h => by
    rw [spells] at h; obtain ⟨n, rfl, he⟩ := h; rw [coerceValue]; exact coerceExtension_spells n _ u he
  | .set xs, t, u, ht, hc, h => by
    rw [spells] at h
    obtain ⟨te, us, rfl, rfl, hl⟩ := h
    rw [tyOK] at ht
    simp only [vCanon, Bool.and_eq_true] at hc
    rw [coerceValue]
    simp only [coerce_spellsL xs te us ht hc.1 hl, mkSet_nodup xs hc.2]
  | .record kvs, t, u, ht, hc, h => by
    rw [spells] at h
    obtain ⟨attrs, ukvs, rfl, rfl, hk⟩ := h
    rw [tyOK] at ht
    simp only [vCanon, Bool.and_eq_true] at hc
    have hsorted : keysSorted ukvs = true := by
      rw [keysSorted_congr ukvs kvs (spellsKV_keys kvs attrs ukvs hk)]; exact hc.2
    rw [coerceValue]
    simp only [coerceAttrs_eq_map attrs ht ukvs hsorted, coerce_spellsKV kvs attrs ukvs ht hc.1 hk]
theorem coerce_spellsL : ∀ (xs : List Value) (t : STy) (us : List Value), tyOK t = true → canonL xs = true → spellsL xs t us →
    us.map (fun x => coerceValue t x) = xs
  | [], _, _, _, _, h => by rw [spellsL] at h; subst h; rfl
  | x :: xs, t, us, ht, hc, h => by
    rw [spellsL] at h
    obtain ⟨u, us', rfl, hx, hr⟩ := h
    simp only [canonL, Bool.and_eq_true] at hc
    simp only [List.map_cons, coerce_spells x t u ht hc.1 hx, coerce_spellsL xs t us' ht hc.2 hr]
theorem coerce_spellsKV : ∀ (kvs : List (String × Value)) (attrs : List (String × STy)) (ukvs : List (String × Value)),
    attrsOK attrs = true → canonKV kvs = true → spellsKV kvs attrs ukvs → ukvs.map (coerceAt attrs) = kvs
  | [], _, _, _, _, h => by rw [spellsKV] at h; subst h; rfl
  | (k, x) :: kvs, attrs, ukvs, ho, hc, h => by
    rw [spellsKV] at h
    obtain ⟨u, ukvs', rfl, hx, hr⟩ := h
    simp only [canonKV, Bool.and_eq_true] at hc
    have hhead : coerceAt attrs (k, u) = (k, x) := by
      simp only [coerceAt]
      cases hty : attrTy attrs k with
      | none => rw [hty] at hx; simp only [] at hx ⊢; rw [hx]
      | some t =>
        rw [hty] at hx
        simp only [] at hx ⊢
        rw [coerce_spells x t u (tyOK_of_attrTy attrs k t ho hty) hc.1 hx]
    simp only [List.map_cons, hhead, coerce_spellsKV kvs attrs ukvs' ho hc.2 hr]
end

end CedarGo.JsonModel
