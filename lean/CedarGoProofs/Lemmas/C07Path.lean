/-
  Helper lemmas for C07: entity types / paths `A::B::C` — splitting a type name into identifier tokens and
  reading it back (`pathRest`, `entityPath`, `entityOrExtFun`).
-/
import CedarGoProofs.Lemmas.C07Escape
namespace CedarGo.Text
open CedarGo

/-- `:: IDENT` pairs -/
def sepToks : List String → List Token
  | [] => []
  | s :: rest => opT "::" :: idT s :: sepToks rest

theorem pathToksOf_cons (a : String) (rest : List String) : pathToksOf (a :: rest) = idT a :: sepToks rest := by
  induction rest generalizing a with
  | nil => rfl
  | cons b rest ih => simp [pathToksOf, sepToks, ih b]

/-- what the parser's loops compute from the first component and the following ones -/
def joinPath (first : String) : List String → String
  | [] => first
  | s :: rest => joinPath (first ++ "::" ++ s) rest

theorem pathRest_sepToks : ∀ (parts : List String) (first : String) (rest : List Token), ((peek rest).text == "::") = false →
    pathRest first (sepToks parts ++ rest) = .ok (joinPath first parts, rest)
  | [], first, rest, h => by
    simp only [sepToks, List.nil_append, joinPath]
    cases rest with
    | nil => rfl
    | cons c tl =>
      simp only [peek] at h
      have hne : c.text ≠ "::" := by simpa using h
      unfold pathRest
      simp [hne]
  | s :: parts, first, rest, h => by
    simp only [sepToks, List.cons_append, joinPath]
    unfold pathRest
    simp only [opT, bne_self_eq_false, Bool.false_eq_true, ↓reduceIte, idT, beq_self_eq_true]
    exact pathRest_sepToks parts _ rest h

theorem entityPath_sepToks : ∀ (parts : List String) (first id : String) (rest : List Token),
    entityPath first (sepToks parts ++ opT "::" :: strT id :: rest) = .ok ((joinPath first parts, id), rest)
  | [], first, id, rest => by
    simp only [sepToks, List.nil_append, joinPath]
    unfold entityPath
    simp [opT, strT_ty, strVal_strT id]
  | s :: parts, first, id, rest => by
    simp only [sepToks, List.cons_append, joinPath]
    unfold entityPath
    simp only [opT, bne_self_eq_false, Bool.false_eq_true, ↓reduceIte, idT, beq_self_eq_true]
    exact entityPath_sepToks parts _ id rest

theorem entityOrExtFun_sepToks (E : EP) (n : Nat) : ∀ (parts : List String) (first id : String) (rest : List Token),
    entityOrExtFun E n first (sepToks parts ++ opT "::" :: strT id :: rest) = okP (.lit (.entity (joinPath first parts) id), rest)
  | [], first, id, rest => by
    simp only [sepToks, List.nil_append, joinPath]
    unfold entityOrExtFun
    simp [opT, strT_ty, strVal_strT id, bindP]
  | s :: parts, first, id, rest => by
    simp only [sepToks, List.cons_append, joinPath]
    unfold entityOrExtFun
    simp only [opT, beq_self_eq_true, ↓reduceIte, idT]
    exact entityOrExtFun_sepToks E n parts _ id rest

/-! ## splitting and joining -/

def sepChars (parts : List (List Char)) : List Char := parts.flatMap (fun q => ':' :: ':' :: q)

theorem splitPathAux_ne_nil (cs cur : List Char) : splitPathAux cs cur ≠ [] := by
  induction cs, cur using splitPathAux.induct <;> simp_all [splitPathAux]

theorem splitPathAux_join (cs cur : List Char) : ∀ p ps, splitPathAux cs cur = p :: ps → p ++ sepChars ps = cur.reverse ++ cs := by
  induction cs, cur using splitPathAux.induct with
  | case1 cur =>
    intro p ps h
    simp only [splitPathAux, List.cons.injEq] at h
    obtain ⟨rfl, rfl⟩ := h
    simp [sepChars]
  | case2 rest cur ih =>
    intro p ps h
    simp only [splitPathAux, List.cons.injEq] at h
    obtain ⟨rfl, rfl⟩ := h
    cases hq : splitPathAux rest [] with
    | nil => exact absurd hq (splitPathAux_ne_nil _ _)
    | cons q qs =>
      have := ih q qs hq
      simp only [List.reverse_nil, List.nil_append] at this
      simp only [sepChars, List.flatMap_cons] at this ⊢
      rw [← this]
      simp
  | case3 cur c rest hnot ih =>
    intro p ps h
    rw [splitPathAux] at h
    · have := ih p ps h
      simp only [List.reverse_cons, List.append_assoc, List.singleton_append] at this
      exact this
    · exact hnot

theorem joinPath_toList : ∀ (parts : List String) (first : String),
    (joinPath first parts).toList = first.toList ++ sepChars (parts.map String.toList)
  | [], first => by simp [joinPath, sepChars]
  | s :: parts, first => by
    simp only [joinPath, joinPath_toList parts, String.toList_append, List.map_cons, sepChars, List.flatMap_cons]
    have : "::".toList = [':', ':'] := by decide
    rw [this]
    simp

/-- the parser rebuilds exactly the type name the printer split -/
theorem joinPath_splitPath (ty : String) : ∃ first parts, splitPath ty = first :: parts ∧ joinPath first parts = ty := by
  unfold splitPath
  cases h : splitPathAux ty.toList [] with
  | nil => exact absurd h (splitPathAux_ne_nil _ _)
  | cons p ps =>
    refine ⟨String.ofList p, ps.map String.ofList, rfl, ?_⟩
    apply String.ext
    rw [joinPath_toList]
    have := splitPathAux_join _ _ p ps h
    simp only [List.reverse_nil, List.nil_append] at this
    simp only [String.toList_ofList, List.map_map]
    have e : (String.toList ∘ String.ofList) = id := by funext l; simp
    rw [e, List.map_id]
    exact this

end CedarGo.Text
