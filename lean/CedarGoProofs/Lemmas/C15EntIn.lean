/-
  C15 (entity extension, step d) — `in` and `is … in`, with the two static foldings of `typeOfIn`.

  Hierarchy facts
  * `descFuel_sound` / `descFuel_complete`: the plain recursive descent of `isActionDescendant` answers `true` only if the
    ancestor is reachable by parent steps, `false` only if it is not (C16 proves the twin facts for the visited-set search
    `descVisFuel` of `isEntityDescendant`: `descVisFuel_sound` / `descVisFuel_complete`).
  * `anyEntityDescendantOf_false`: the answer `false` means that no element of the left LUB equals, or reaches in the
    schema's entity-type hierarchy, an element of the right LUB, and that no pair of them are both ACTION entity types
    (repair of `in-action-type-cross-namespace`: an action may be below an action group of any action entity type).
  * `reach_types` — **in a conforming store, reachability between entities implies descendant-ness of their types**:
    from an ACTION entity only action entities are reachable; from a non-action entity only non-action entities, and
    then `type x = type y ∨ type x reaches type y through ParentTypes`.  What store conformance must say for
    it is exactly `EntityOK.parents`: every parent of a PRESENT non-action entity is a non-action entity whose type is
    one of the `ParentTypes` of the child's type; every parent of a present action entity is an action entity.
  * `ActionsOK` — the explicit hypothesis for the ACTION folding (finding `action-entity-absent-from-store`): the
    environment's action is a schema action, every schema action that has parents is present in the store with (at least)
    those parents, and a present schema action has only schema actions above it in the schema's hierarchy as parents.
    `reach_of_actionReaches` / `actionReaches_of_reach`: under it store reachability from a schema action is
    reachability in the schema's action hierarchy.

  Soundness
  * `doIn_spec`: on a right operand of type entity / set of entities `in` never fails and is true iff some target is
    reachable (`C03_entityInOne_correct`, `C03_entityInSet_correct`).
  * `sound_in`, `sound_isIn`.
-/
import CedarGoProofs.Lemmas.C15EntIs
import CedarGoProofs.Lemmas.C16Desc
import CedarGoProofs.Properties.C03
namespace CedarGo.Validate
open CedarGo CedarGo.Schema

/-! ### graph searches -/

theorem reaches_trans {α} {succ : α → List α} {u v w : α} (h1 : Reaches succ u v) (h2 : Reaches succ v w) :
    Reaches succ u w := by
  induction h1 with
  | step hs => exact Reaches.trans hs h2
  | trans hs _ ih => exact Reaches.trans hs (ih h2)

theorem descListWith_true {α} [DecidableEq α] {succ : α → List α} {k : α → Option Bool} {anc : α}
    (hk : ∀ p, k p = some true → Reaches succ p anc) :
    ∀ (ps : List α), descListWith k anc ps = some true → ∃ p ∈ ps, p = anc ∨ Reaches succ p anc
  | [], h => by simp [descListWith] at h
  | p :: ps, h => by
    unfold descListWith at h
    split at h
    · rename_i hp; exact ⟨p, by simp, .inl hp⟩
    · cases hkp : k p with
      | none => simp [hkp] at h
      | some b =>
        cases b with
        | true => exact ⟨p, by simp, .inr (hk p hkp)⟩
        | false =>
          simp only [hkp] at h
          obtain ⟨q, hq, hr⟩ := descListWith_true hk ps h
          exact ⟨q, List.mem_cons_of_mem _ hq, hr⟩

theorem descListWith_false {α} [DecidableEq α] {succ : α → List α} {k : α → Option Bool} {anc : α}
    (hk : ∀ p, k p = some false → ¬ Reaches succ p anc) :
    ∀ (ps : List α), descListWith k anc ps = some false → ∀ p ∈ ps, p ≠ anc ∧ ¬ Reaches succ p anc
  | [], _ => by intro p hp; cases hp
  | p :: ps, h => by
    unfold descListWith at h
    split at h
    · simp at h
    · rename_i hpa
      cases hkp : k p with
      | none => simp [hkp] at h
      | some b =>
        cases b with
        | true => simp [hkp] at h
        | false =>
          simp only [hkp] at h
          intro q hq
          rcases List.mem_cons.mp hq with rfl | hq
          · exact ⟨hpa, hk q hkp⟩
          · exact descListWith_false hk ps h q hq

/-- `isActionDescendant` answers `true` only for a proper ancestor -/
theorem descFuel_sound {α} [DecidableEq α] (succ : α → List α) (anc : α) :
    ∀ (fuel : Nat) (child : α), descFuel succ fuel child anc = some true → Reaches succ child anc
  | 0, _, h => by simp [descFuel] at h
  | f + 1, child, h => by
    unfold descFuel at h
    obtain ⟨p, hp, hr⟩ := descListWith_true (succ := succ) (fun p hp => descFuel_sound succ anc f p hp) _ h
    rcases hr with rfl | hr
    · exact Reaches.step hp
    · exact Reaches.trans hp hr

/-- … and `false` only if the ancestor is not reachable -/
theorem descFuel_complete {α} [DecidableEq α] (succ : α → List α) (anc : α) :
    ∀ (fuel : Nat) (child : α), descFuel succ fuel child anc = some false → ¬ Reaches succ child anc
  | 0, _, h => by simp [descFuel] at h
  | f + 1, child, h => by
    unfold descFuel at h
    have hall := descListWith_false (succ := succ) (fun p hp => descFuel_complete succ anc f p hp) _ h
    intro hr
    cases hr with
    | step hs => exact (hall _ hs).1 rfl
    | trans hs hr' => exact (hall _ hs).2 hr'

section hier
variable {Γ : TEnv}

/-- a folded `true` of `isActionInSet`: the action is one of the targets or below one of them in the schema -/
theorem isActionInSet_true {a : UID} : ∀ {ts : List UID}, isActionInSet Γ a ts = some true →
    ∃ t ∈ ts, a = t ∨ Reaches (actionParentsOf Γ) a t
  | [], h => by simp [isActionInSet] at h
  | t :: ts, h => by
    simp only [isActionInSet] at h
    split at h
    · rename_i hat; exact ⟨t, by simp, .inl (by simpa using hat)⟩
    · split at h
      · obtain ⟨t', ht', hr⟩ := isActionInSet_true h
        exact ⟨t', List.mem_cons_of_mem _ ht', hr⟩
      · cases hd : isActionDescendant Γ a t with
        | none => simp [hd] at h
        | some b =>
          cases b with
          | true => exact ⟨t, by simp, .inr (descFuel_sound _ _ _ _ hd)⟩
          | false =>
            simp only [hd] at h
            obtain ⟨t', ht', hr⟩ := isActionInSet_true h
            exact ⟨t', List.mem_cons_of_mem _ ht', hr⟩

/-- a folded `false` of `isActionInSet`: a schema action is none of the targets and below none of them -/
theorem isActionInSet_false {a : UID} (ha : Γ.actions.contains a = true) : ∀ {ts : List UID},
    isActionInSet Γ a ts = some false → ∀ t ∈ ts, a ≠ t ∧ ¬ Reaches (actionParentsOf Γ) a t
  | [], _ => by intro t ht; cases ht
  | t :: ts, h => by
    simp only [isActionInSet, ha, Bool.not_true, Bool.false_eq_true, if_false] at h
    split at h
    · simp at h
    · rename_i hat
      cases hd : isActionDescendant Γ a t with
      | none => simp [hd] at h
      | some b =>
        cases b with
        | true => simp [hd] at h
        | false =>
          simp only [hd] at h
          intro t' ht'
          rcases List.mem_cons.mp ht' with rfl | ht'
          · exact ⟨by simpa using hat, descFuel_complete _ _ _ _ hd⟩
          · exact isActionInSet_false ha h t' ht'

theorem isEntityDescendant_false {c a : String} (h : isEntityDescendant Γ c a = some false) :
    ¬ Reaches (entityParentsOf Γ) c a := by
  unfold isEntityDescendant at h
  cases hd : descVisFuel (entityParentsOf Γ) (Γ.entityDecls.length + 1) c a [] with
  | none => simp [hd] at h
  | some r =>
    obtain ⟨b, vis'⟩ := r
    simp only [hd, Option.map_some, Option.some.injEq] at h
    subst h
    exact descVisFuel_complete _ _ _ _ _ hd

theorem anyDescInner_false {lt : String} : ∀ {rs : List String}, anyDescInner Γ lt rs = some false →
    ∀ rt ∈ rs, lt ≠ rt ∧ ¬ (isActionEntity lt = true ∧ isActionEntity rt = true) ∧ ¬ Reaches (entityParentsOf Γ) lt rt
  | [], _ => by intro rt h; cases h
  | r :: rs, h => by
    simp only [anyDescInner] at h
    split at h
    · simp at h
    · rename_i hne
      split at h
      · simp at h
      · rename_i hact
        cases hd : isEntityDescendant Γ lt r with
        | none => simp [hd] at h
        | some b =>
          cases b with
          | true => simp [hd] at h
          | false =>
            simp only [hd] at h
            intro rt hrt
            rcases List.mem_cons.mp hrt with rfl | hrt
            · exact ⟨by simpa using hne, by simpa using hact, isEntityDescendant_false hd⟩
            · exact anyDescInner_false h rt hrt

/-- the answer `false` of `anyEntityDescendantOf`: no element of the left LUB is, or can be below, an element of the right one -/
theorem anyEntityDescendantOf_false : ∀ {ls rs : List String}, anyEntityDescendantOf Γ ls rs = some false →
    ∀ lt ∈ ls, ∀ rt ∈ rs, lt ≠ rt ∧ ¬ (isActionEntity lt = true ∧ isActionEntity rt = true) ∧
      ¬ Reaches (entityParentsOf Γ) lt rt
  | [], _, _ => by intro lt h; cases h
  | l :: ls, rs, h => by
    simp only [anyEntityDescendantOf] at h
    cases hi : anyDescInner Γ l rs with
    | none => simp [hi] at h
    | some b =>
      cases b with
      | true => simp [hi] at h
      | false =>
        simp only [hi] at h
        intro lt hlt rt hrt
        rcases List.mem_cons.mp hlt with rfl | hlt
        · exact anyDescInner_false hi rt hrt
        · exact anyEntityDescendantOf_false h lt hlt rt hrt

/-- **Store reachability implies descendant-ness of the entity types** (what `EntityOK.parents` is for): an action entity
    reaches action entities only (of whatever action entity type); a non-action entity reaches non-action entities only,
    and their types are below its own in the schema's entity-type hierarchy -/
theorem reach_types {env : Env} (hΓ : EnvOK Γ env) {x y : UID} (h : Reach env.entities x y) :
    (isActionEntity x.1 = true → isActionEntity y.1 = true) ∧
    (isActionEntity x.1 = false → isActionEntity y.1 = false ∧ (x.1 = y.1 ∨ Reaches (entityParentsOf Γ) x.1 y.1)) := by
  induction h with
  | refl => exact ⟨fun h => h, fun h => ⟨h, .inl rfl⟩⟩
  | @step a p b d hg hp _ ih =>
    rcases (hΓ.store a d hg).parents p hp with ⟨ha, hpn, hmem⟩ | ⟨ha, hpa⟩
    · refine ⟨fun h => (by rw [ha] at h; cases h), fun _ => ?_⟩
      obtain ⟨hb, heq | hr⟩ := ih.2 hpn
      · exact ⟨hb, .inr (Reaches.step (heq ▸ hmem))⟩
      · exact ⟨hb, .inr (Reaches.trans hmem hr)⟩
    · exact ⟨fun _ => ih.1 hpa, fun h => (by rw [ha] at h; cases h)⟩

/-- the hypothesis under which the ACTION folding of `typeOfIn` is sound -/
structure ActionsOK (Γ : TEnv) (env : Env) : Prop where
  envAction : Γ.action ∈ Γ.actions
  present : ∀ u p, p ∈ actionParentsOf Γ u → ∃ d, env.entities.get u = some d ∧ p ∈ d.parents
  closed : ∀ u ∈ Γ.actions, ∀ d, env.entities.get u = some d → ∀ p ∈ d.parents,
    p ∈ Γ.actions ∧ Reaches (actionParentsOf Γ) u p

theorem reach_of_actionReaches {env : Env} (hA : ActionsOK Γ env) {a t : UID} (h : Reaches (actionParentsOf Γ) a t) :
    Reach env.entities a t := by
  induction h with
  | step hs => obtain ⟨d, hg, hp⟩ := hA.present _ _ hs; exact Reach.step hg hp (Reach.refl _)
  | trans hs _ ih => obtain ⟨d, hg, hp⟩ := hA.present _ _ hs; exact Reach.step hg hp ih

theorem actionReaches_of_reach {env : Env} (hA : ActionsOK Γ env) {a y : UID} (h : Reach env.entities a y) :
    a ∈ Γ.actions → y = a ∨ (y ∈ Γ.actions ∧ Reaches (actionParentsOf Γ) a y) := by
  induction h with
  | refl => exact fun _ => .inl rfl
  | @step a p b d hg hp _ ih =>
    intro ha
    obtain ⟨hpa, hrp⟩ := hA.closed a ha d hg p hp
    rcases ih hpa with rfl | ⟨hb, hr⟩
    · exact .inr ⟨hpa, hrp⟩
    · exact .inr ⟨hb, reaches_trans hrp hr⟩

end hier

/-! ### evaluation of `in` on well-typed operands -/

/-- the entities a right operand of `in` stands for -/
def Targets : Value → UID → Prop
  | .entity t i, y => y = (t, i)
  | .set xs, y => Value.entity y.1 y.2 ∈ xs
  | _, _ => False

theorem entity_list : ∀ {xs : List Value}, (∀ x ∈ xs, ∃ t i, x = Value.entity t i) → ∃ S : List UID, xs = S.map uidVal
  | [], _ => ⟨[], rfl⟩
  | x :: xs, h => by
    obtain ⟨t, i, rfl⟩ := h x (by simp)
    obtain ⟨S, hS⟩ := entity_list (xs := xs) (fun y hy => h y (by simp [hy]))
    exact ⟨(t, i) :: S, by rw [hS]; rfl⟩

theorem uidVal_mem {y : UID} {S : List UID} : Value.entity y.1 y.2 ∈ S.map uidVal ↔ y ∈ S := by
  simp only [List.mem_map, uidVal]
  constructor
  · rintro ⟨u, hu, he⟩
    simp only [Value.entity.injEq] at he
    have : u = y := Prod.ext he.1 he.2
    rw [← this]; exact hu
  · intro h; exact ⟨y, h, rfl⟩

/-- **`in` on a right operand of type entity / set of entities**: never an error, true iff a target is reachable in the
    store (`C03_entityInOne_correct` / `C03_entityInSet_correct`), and the targets have the types of the right LUB -/
theorem doIn_spec (env : Env) (a : UID) {w : Value} {rt : Ty} (hw : HasTy w rt) (hrt : isEntityOrSetOfEntity rt = true) :
    (∃ b, doIn env a w = .ok (.bool b)) ∧
    (doIn env a w = .ok (.bool true) ↔ ∃ y, Targets w y ∧ Reach env.entities a y) ∧
    (∀ rtys, rhsLub rt = some rtys → ∀ y, Targets w y → y.1 ∈ rtys) := by
  cases hw with
  | @entity t i tys hm hne =>
    have h1 := C03_in_operator_entity env a (t, i)
    refine ⟨h1.1, ?_, ?_⟩
    · rw [show Value.entity t i = uidVal (t, i) from rfl, h1.2]
      simp only [Targets, uidVal]
      constructor
      · intro h; exact ⟨(t, i), rfl, h⟩
      · rintro ⟨y, rfl, h⟩; exact h
    · intro rtys hr y hy
      simp only [rhsLub, Option.some.injEq] at hr; subst hr
      simp only [Targets] at hy; subst hy; exact hm
  | @set xs el hx =>
    have hall : ∀ x ∈ xs, ∃ t i, x = Value.entity t i := by
      intro x hxm
      have := hx x hxm
      cases el with
      | never => cases this
      | entity R => obtain ⟨t, i, rfl, _, _⟩ := hasTy_entity_inv this; exact ⟨t, i, rfl⟩
      | _ => simp [isEntityOrSetOfEntity] at hrt
    obtain ⟨S, rfl⟩ := entity_list hall
    have h1 := C03_in_operator_set env a S
    refine ⟨h1.1, ?_, ?_⟩
    · rw [h1.2]
      simp only [Targets, uidVal_mem]
    · intro rtys hr y hy
      simp only [Targets] at hy
      have := hx _ hy
      cases el <;> simp [rhsLub] at hr
      subst hr
      cases this with
      | entity hm _ => exact hm
  | _ => simp [isEntityOrSetOfEntity] at hrt

section insound
variable {Γ : TEnv} {env : Env}

theorem eval_in_unfold (l r : Expr) :
    eval (.binop .in_ l r) env = ((eval l env).bind toEntity).bind (fun a => (eval r env).bind fun b => doIn env a b) := by
  simp only [eval, bind]

/-- what `l in r` evaluates to when both operands are well-typed -/
theorem in_eval_cases {l r : Expr} {ltys : List String} {rt : Ty} {c1 c2 : Caps}
    (hsl : SoundRes env (.entity ltys) c1 (eval l env)) (hsr : SoundRes env rt c2 (eval r env))
    (hrt : isEntityOrSetOfEntity rt = true) :
    (∃ k, eval (.binop .in_ l r) env = .error k ∧ Allowed k) ∨
    (∃ ty id w b, eval l env = .ok (.entity ty id) ∧ ty ∈ ltys ∧ eval r env = .ok w ∧ HasTy w rt ∧
      eval (.binop .in_ l r) env = .ok (.bool b) ∧
      (b = true ↔ ∃ y, Targets w y ∧ Reach env.entities (ty, id) y)) := by
  rw [eval_in_unfold]
  cases hl : eval l env with
  | error k => rw [hl] at hsl; exact .inl ⟨k, rfl, hsl⟩
  | ok v =>
    rw [hl] at hsl
    obtain ⟨ty, id, rfl, hm, _⟩ := hasTy_entity_inv hsl.1
    cases hr : eval r env with
    | error k => rw [hr] at hsr; exact .inl ⟨k, rfl, hsr⟩
    | ok w =>
      rw [hr] at hsr
      obtain ⟨⟨b, hb⟩, hiff, _⟩ := doIn_spec env (ty, id) hsr.1 hrt
      refine .inr ⟨ty, id, w, b, rfl, hm, rfl, hsr.1, ?_, ?_⟩
      · simp only [Except.bind, toEntity]; exact hb
      · rw [← hiff, hb]; simp

/-! #### the action special case -/

theorem exprToActionEUID_eval (hΓ : EnvOK Γ env) (hA : ActionsOK Γ env) {e : Expr} {a : UID}
    (h : exprToActionEUID Γ e = some a) : eval e env = .ok (uidVal a) ∧ a ∈ Γ.actions := by
  cases e with
  | var v =>
    cases v <;> simp [exprToActionEUID] at h
    subst h
    exact ⟨by simp only [eval, hΓ.action, uidVal], hA.envAction⟩
  | lit v =>
    cases v <;> simp [exprToActionEUID] at h
    obtain ⟨hc, rfl⟩ := h
    exact ⟨rfl, hc⟩
  | _ => simp [exprToActionEUID] at h

theorem setElemEUID_eval (hΓ : EnvOK Γ env) (hA : ActionsOK Γ env) {e : Expr} {u : UID} (h : setElemEUID Γ e = some u) :
    eval e env = .ok (uidVal u) := by
  unfold setElemEUID at h
  cases ha : exprToActionEUID Γ e with
  | some a =>
    simp only [ha, Option.some.injEq] at h; subst h
    exact (exprToActionEUID_eval hΓ hA ha).1
  | none =>
    simp only [ha] at h
    cases e with
    | lit v =>
      cases v <;> simp at h
      subst h; rfl
    | _ => simp at h

theorem mapM_setElem_eval (hΓ : EnvOK Γ env) (hA : ActionsOK Γ env) : ∀ {es : List Expr} {us : List UID},
    es.mapM (setElemEUID Γ) = some us → evalList es env = .ok (us.map uidVal)
  | [], us, h => by
    simp only [List.mapM_nil, pure, Option.some.injEq] at h; subst h; simp [evalList]
  | e :: es, us, h => by
    simp only [List.mapM_cons, bind, Option.bind] at h
    cases he : setElemEUID Γ e with
    | none => simp [he] at h
    | some u =>
      simp only [he] at h
      cases hes : es.mapM (setElemEUID Γ) with
      | none => simp [hes] at h
      | some us' =>
        simp only [hes, pure, Option.some.injEq] at h; subst h
        simp only [evalList, setElemEUID_eval hΓ hA he, mapM_setElem_eval hΓ hA hes, bind, Except.bind, List.map_cons]

theorem beq_uidVal' (a b : UID) : (uidVal a).beq (uidVal b) = (a == b) := by
  obtain ⟨a1, a2⟩ := a; obtain ⟨b1, b2⟩ := b
  simp only [uidVal, Value.beq]
  rfl

theorem memL_uidVal' (u : UID) (acc : List UID) : Value.memL (uidVal u) (acc.map uidVal) = acc.contains u := by
  induction acc with
  | nil => rfl
  | cons a acc ih =>
    simp only [Value.memL, List.map_cons, List.any_cons, List.contains_cons] at ih ⊢
    rw [ih, beq_uidVal', BEq.comm]

/-- `types.NewSet` of entity values: a list of entity values with the same members -/
theorem dedupV_uids' : ∀ (us accU : List UID),
    ∃ r : List UID, dedupV (accU.map uidVal) (us.map uidVal) = r.map uidVal ∧ ∀ x, x ∈ r ↔ (x ∈ accU ∨ x ∈ us)
  | [], accU => ⟨accU.reverse, by simp [dedupV], by simp⟩
  | u :: us, accU => by
    simp only [List.map_cons, dedupV, memL_uidVal']
    cases h : accU.contains u
    · obtain ⟨r, h1, h2⟩ := dedupV_uids' us (u :: accU)
      refine ⟨r, by simpa using h1, ?_⟩
      intro x
      rw [h2]
      simp only [List.mem_cons]
      constructor
      · rintro ((h | h) | h)
        · exact .inr (.inl h)
        · exact .inl h
        · exact .inr (.inr h)
      · rintro (h | h | h)
        · exact .inl (.inr h)
        · exact .inl (.inl h)
        · exact .inr h
    · obtain ⟨r, h1, h2⟩ := dedupV_uids' us accU
      refine ⟨r, by simpa using h1, ?_⟩
      intro x
      rw [h2]
      simp only [List.mem_cons]
      have hu : u ∈ accU := by simpa using h
      constructor
      · rintro (h | h)
        · exact .inl h
        · exact .inr (.inr h)
      · rintro (h | rfl | h)
        · exact .inl h
        · exact .inl hu
        · exact .inr h

/-- the right operand of a folded action `in` evaluates to exactly the entities `exprToActionEUIDs` lists -/
theorem exprToActionEUIDs_eval (hΓ : EnvOK Γ env) (hA : ActionsOK Γ env) {r : Expr} {us : List UID}
    (h : exprToActionEUIDs Γ r = some us) : ∃ w, eval r env = .ok w ∧ ∀ y, Targets w y ↔ y ∈ us := by
  unfold exprToActionEUIDs at h
  cases ha : exprToActionEUID Γ r with
  | some a =>
    simp only [ha, Option.some.injEq] at h; subst h
    refine ⟨uidVal a, (exprToActionEUID_eval hΓ hA ha).1, ?_⟩
    intro y; simp [Targets, uidVal]
  | none =>
    simp only [ha] at h
    cases r with
    | set es =>
      simp only [] at h
      split at h
      · simp at h
      · have hev := mapM_setElem_eval hΓ hA h
        obtain ⟨S, hS, hmem⟩ := dedupV_uids' us []
        refine ⟨.set (S.map uidVal), ?_, ?_⟩
        · simp only [eval, hev, bind, Except.bind, mkSet]
          simp only [List.map_nil] at hS
          rw [hS]
        · intro y
          simp only [Targets, uidVal_mem, hmem]
          simp
    | _ => simp at h

theorem sound_in (hΓ : EnvOK Γ env) (hA : ActionsOK Γ env) {l r : Expr} {caps caps' : Caps} {τ : Ty}
    (ihl : IH Γ env l) (ihr : IH Γ env r) (hc : CapsHold env caps)
    (h : typeOf true Γ (.binop .in_ l r) caps = .ok (τ, caps')) : Sound env τ caps' (eval (.binop .in_ l r) env) := by
  simp only [typeOf] at h
  split at h
  · simp at h
  · rename_i lt lc hl
    have hsl := (ihl _ _ _ hc hl).2
    split at h
    · simp at h
    · rename_i rt rc hr
      have hsr := (ihr _ _ _ hc hr).2
      split at h
      rotate_left
      · simp at h
      rename_i t hres
      simp only [Except.ok.injEq, Prod.mk.injEq] at h
      obtain ⟨rfl, rfl⟩ := h
      refine sound_same hc ?_
      unfold inResult at hres
      split at hres
      rotate_left
      · simp at hres
      rename_i ltys
      split at hres
      · simp at hres
      · rename_i hrt0
        have hrt : isEntityOrSetOfEntity rt = true := by simpa using hrt0
        -- the three possible shapes of the result, by what evaluation yields
        have hcases := in_eval_cases hsl hsr hrt
        have hbool : SoundRes env .bool caps (eval (.binop .in_ l r) env) := by
          rcases hcases with ⟨k, hk, hak⟩ | ⟨ty, id, w, b, _, _, _, _, hev, _⟩
          · rw [hk]; exact hak
          · rw [hev]; exact ⟨HasTy.bool b, fun _ => hc⟩
        have hff : (∀ ty id w, eval l env = .ok (.entity ty id) → ty ∈ ltys → eval r env = .ok w → HasTy w rt →
            ¬ ∃ y, Targets w y ∧ Reach env.entities (ty, id) y) → SoundRes env .ff caps (eval (.binop .in_ l r) env) := by
          intro hno
          rcases hcases with ⟨k, hk, hak⟩ | ⟨ty, id, w, b, h1, h2, h3, h4, hev, hiff⟩
          · rw [hk]; exact hak
          · rw [hev]
            cases b with
            | false => exact ⟨HasTy.ff, fun _ => hc⟩
            | true => exact absurd (hiff.mp rfl) (hno ty id w h1 h2 h3 h4)
        have htt : (∀ ty id w, eval l env = .ok (.entity ty id) → eval r env = .ok w →
            ∃ y, Targets w y ∧ Reach env.entities (ty, id) y) → SoundRes env .tt caps (eval (.binop .in_ l r) env) := by
          intro hyes
          rcases hcases with ⟨k, hk, hak⟩ | ⟨ty, id, w, b, h1, h2, h3, h4, hev, hiff⟩
          · rw [hk]; exact hak
          · rw [hev]
            cases b with
            | true => exact ⟨HasTy.tt, fun _ => hc⟩
            | false => have := hiff.mpr (hyes ty id w h1 h3); simp at this
        cases hfold : actionInFold Γ l r with
        | some res =>
          simp only [hfold] at hres
          subst hres
          -- the action special case
          unfold actionInFold at hfold
          cases hla : exprToActionEUID Γ l with
          | none => simp [hla] at hfold
          | some a =>
            simp only [hla] at hfold
            cases hru : exprToActionEUIDs Γ r with
            | none => simp [hru] at hfold
            | some us =>
              simp only [hru] at hfold
              obtain ⟨hlv, haA⟩ := exprToActionEUID_eval hΓ hA hla
              obtain ⟨w0, hrv, htg⟩ := exprToActionEUIDs_eval hΓ hA hru
              have hacts : ∀ y, y ∈ us.filter (fun u => Γ.actions.contains u) ↔ y ∈ us ∧ y ∈ Γ.actions := by
                intro y; simp [List.mem_filter]
              -- folded False: the action reaches none of the targets
              have hfalse : (∀ y ∈ us.filter (fun u => Γ.actions.contains u), a ≠ y ∧ ¬ Reaches (actionParentsOf Γ) a y) →
                  SoundRes env .ff caps (eval (.binop .in_ l r) env) := by
                intro hnone
                refine hff ?_
                intro ty id w h1 _ h3 _ ⟨y, hy, hreach⟩
                rw [hlv] at h1; rw [hrv] at h3
                simp only [Except.ok.injEq, uidVal, Value.entity.injEq] at h1 h3
                subst h3
                have hya : (ty, id) = a := Prod.ext h1.1.symm h1.2.symm
                rw [hya] at hreach
                have hyus := (htg y).mp hy
                rcases actionReaches_of_reach hA hreach haA with rfl | ⟨hyA, hr⟩
                · exact (hnone _ ((hacts _).mpr ⟨hyus, haA⟩)).1 rfl
                · exact (hnone _ ((hacts _).mpr ⟨hyus, hyA⟩)).2 hr
              split at hfold
              · rename_i hemp
                simp only [Option.some.injEq, Except.ok.injEq] at hfold; subst hfold
                refine hfalse ?_
                intro y hy
                simp only [List.isEmpty_iff] at hemp
                rw [hemp] at hy; cases hy
              · cases hin : isActionInSet Γ a (us.filter (fun u => Γ.actions.contains u)) with
                | none => rw [hin] at hfold; simp at hfold
                | some b =>
                  rw [hin] at hfold
                  cases b with
                  | false =>
                    simp only [Option.some.injEq, Except.ok.injEq] at hfold; subst hfold
                    exact hfalse (isActionInSet_false (by simpa using haA) hin)
                  | true =>
                    simp only [Option.some.injEq, Except.ok.injEq] at hfold; subst hfold
                    obtain ⟨t, ht, hor⟩ := isActionInSet_true hin
                    refine htt ?_
                    intro ty id w h1 h3
                    rw [hlv] at h1; rw [hrv] at h3
                    simp only [Except.ok.injEq, uidVal, Value.entity.injEq] at h1 h3
                    subst h3
                    have hya : (ty, id) = a := Prod.ext h1.1.symm h1.2.symm
                    rw [hya]
                    refine ⟨t, (htg t).mpr ((hacts t).mp ht).1, ?_⟩
                    rcases hor with rfl | hr
                    · exact Reach.refl _
                    · exact reach_of_actionReaches hA hr
        | none =>
          simp only [hfold] at hres
          split at hres
          · simp only [Except.ok.injEq] at hres; subst hres; exact hbool
          · rename_i rtys hlub
            cases hany : anyEntityDescendantOf Γ ltys rtys with
            | none => simp [hany] at hres
            | some b =>
              simp only [hany] at hres
              cases b with
              | true => simp only [Except.ok.injEq] at hres; subst hres; exact hbool
              | false =>
                simp only [Except.ok.injEq] at hres; subst hres
                -- folded False from the entity-type hierarchy
                refine hff ?_
                intro ty id w _ hm _ hw ⟨y, hy, hreach⟩
                have hyt := (doIn_spec env (ty, id) hw hrt).2.2 rtys hlub y hy
                have hno := anyEntityDescendantOf_false hany ty hm y.1 hyt
                have hrt := reach_types hΓ hreach
                cases hact : isActionEntity ty with
                | true => exact hno.2.1 ⟨hact, hrt.1 hact⟩
                | false =>
                  rcases (hrt.2 hact).2 with heq | hr
                  · exact hno.1 heq
                  · exact hno.2.2 hr

theorem sound_isIn {e r : Expr} {ty : String} {caps caps' : Caps} {τ : Ty}
    (ihl : IH Γ env e) (ihr : IH Γ env r) (hc : CapsHold env caps)
    (h : typeOf true Γ (.isIn e ty r) caps = .ok (τ, caps')) : Sound env τ caps' (eval (.isIn e ty r) env) := by
  simp only [typeOf] at h
  split at h
  · simp at h
  · rename_i lt lc hl
    have hsl := (ihl _ _ _ hc hl).2
    split at h
    · simp at h
    · rename_i rt rc hr
      have hsr := (ihr _ _ _ hc hr).2
      split at h
      rotate_left
      · simp at h
      rename_i hcond
      simp only [Except.ok.injEq, Prod.mk.injEq] at h
      obtain ⟨rfl, rfl⟩ := h
      simp only [Bool.and_eq_true] at hcond
      refine sound_same hc ?_
      have hev : eval (.isIn e ty r) env = ((eval e env).bind toEntity).bind (fun u =>
          if u.1 != ty then .ok (.bool false) else (eval r env).bind fun b => doIn env u b) := by
        simp only [eval, bind]
      rw [hev]
      cases hle : eval e env with
      | error k => rw [hle] at hsl; exact hsl
      | ok v =>
        rw [hle] at hsl
        cases lt <;> simp [isEntityTy] at hcond
        obtain ⟨ty0, id, rfl, _, _⟩ := hasTy_entity_inv hsl.1
        simp only [Except.bind, toEntity]
        split
        · exact ⟨HasTy.bool _, fun _ => hc⟩
        · cases hre : eval r env with
          | error k => rw [hre] at hsr; exact hsr
          | ok w =>
            rw [hre] at hsr
            obtain ⟨⟨b, hb⟩, _, _⟩ := doIn_spec env (ty0, id) hsr.1 hcond
            simp only [hb]
            exact ⟨HasTy.bool _, fun _ => hc⟩

end insound

end CedarGo.Validate
