/-
  C18 helper lemmas: UTF-8 decoding (`decodeRune`, `fullRune`).
-/
import CedarGo.Model.Text.Scanner
namespace CedarGo.Text.Lx

theorem seqLen_le (b : Nat) : seqLen b ≤ 4 := by unfold seqLen; split <;> (try split) <;> (try split) <;> (try split) <;> (try split) <;> omega

/-- an ASCII first byte decodes to itself with width 1 -/
theorem decodeRune_ascii (p0 : UInt8) (rest : List UInt8) (h : p0.toNat < 0x80) :
    decodeRune (p0 :: rest) = (Int.ofNat p0.toNat, 1) := by
  simp [decodeRune, h]

theorem fullRune_ascii (p0 : UInt8) (rest : List UInt8) (h : p0.toNat < 0x80) : fullRune (p0 :: rest) = true := by
  simp [fullRune, seqLen, h]

/-- four bytes always contain a full (possibly invalid) encoding -/
theorem fullRune_of_length (p : List UInt8) (h : 4 ≤ p.length) : fullRune p = true := by
  match p, h with
  | p0 :: rest, h =>
    have := seqLen_le p0.toNat
    simp only [List.length_cons] at h
    simp only [fullRune]
    rw [if_pos (by omega)]

theorem dec2_width (b0 : Nat) (r : List UInt8) : 1 ≤ (dec2 b0 r).2 ∧ (dec2 b0 r).2 ≤ r.length + 1 := by
  unfold dec2; split <;> (try split) <;> simp
theorem dec3_width (b0 : Nat) (r : List UInt8) : 1 ≤ (dec3 b0 r).2 ∧ (dec3 b0 r).2 ≤ r.length + 1 := by
  unfold dec3; split <;> (try split) <;> simp
theorem dec4_width (b0 : Nat) (r : List UInt8) : 1 ≤ (dec4 b0 r).2 ∧ (dec4 b0 r).2 ≤ r.length + 1 := by
  unfold dec4; split <;> (try split) <;> simp

theorem decodeRune_width (p0 : UInt8) (rest : List UInt8) :
    1 ≤ (decodeRune (p0 :: rest)).2 ∧ (decodeRune (p0 :: rest)).2 ≤ rest.length + 1 := by
  have h2 := dec2_width p0.toNat rest; have h3 := dec3_width p0.toNat rest; have h4 := dec4_width p0.toNat rest
  simp only [decodeRune]
  split; · simp
  split; · exact h2
  split; · exact h3
  split; · exact h4
  simp

theorem decodeRune_width_le (p : List UInt8) : (decodeRune p).2 ≤ p.length := by
  cases p with
  | nil => simp [decodeRune]
  | cons a r => have := decodeRune_width a r; simp only [List.length_cons]; omega

/-- bytes after a full encoding do not influence `DecodeRune` -/
theorem decodeRune_append_of_fullRune (p q : List UInt8) (h : fullRune p = true) :
    decodeRune (p ++ q) = decodeRune p := by
  match p with
  | [] => simp [fullRune] at h
  | [p0] =>
    have h1 : seqLen p0.toNat ≤ 1 := by
      by_cases hh : 0 + 1 ≥ seqLen p0.toNat
      · omega
      · simp [fullRune, hh] at h
    simp only [List.cons_append, List.nil_append, decodeRune]
    split; · rfl
    rw [if_neg (by omega), if_neg (by omega), if_neg (by omega), if_neg (by omega), if_neg (by omega), if_neg (by omega)]
  | [p0, p1] =>
    simp only [List.cons_append, List.nil_append, decodeRune]
    split; · rfl
    split; · simp [dec2]
    by_cases hh : 0 + 1 + 1 ≥ seqLen p0.toNat
    · rw [if_neg (by omega), if_neg (by omega), if_neg (by omega), if_neg (by omega)]
    · have hk : ok1 p0.toNat p1.toNat = false := by simpa [fullRune, hh] using h
      split; · cases q <;> simp [dec3, hk]
      split; · rcases q with _ | ⟨a, _ | ⟨b, r⟩⟩ <;> simp [dec4, hk]
      rfl
  | [p0, p1, p2] =>
    simp only [List.cons_append, List.nil_append, decodeRune]
    split; · rfl
    split; · simp [dec2]
    split; · simp [dec3]
    by_cases hh : 0 + 1 + 1 + 1 ≥ seqLen p0.toNat
    · rw [if_neg (by omega), if_neg (by omega)]
    · split
      · by_cases hk : ok1 p0.toNat p1.toNat = true
        · have hc : okc p2.toNat = false := by simpa [fullRune, hh, hk] using h
          cases q <;> simp [dec4, hc]
        · cases q <;> simp [dec4, hk]
      · rfl
  | p0 :: p1 :: p2 :: p3 :: r =>
    simp only [List.cons_append, decodeRune]
    split; · rfl
    split; · simp [dec2]
    split; · simp [dec3]
    split; · simp [dec4]
    rfl

/-- a non-empty byte string that is not a full encoding decodes to (RuneError, 1) -/
theorem decodeRune_of_not_fullRune (p0 : UInt8) (rest : List UInt8) (h : fullRune (p0 :: rest) = false) :
    decodeRune (p0 :: rest) = (runeError, 1) := by
  have hl : ¬ rest.length + 1 ≥ seqLen p0.toNat := by
    intro hh; simp [fullRune, hh] at h
  have h4 := seqLen_le p0.toNat
  simp only [decodeRune]
  split; · rename_i ha; simp [seqLen, ha] at hl
  rcases rest with _ | ⟨p1, _ | ⟨p2, r⟩⟩
  · simp [dec2, dec3, dec4]
  · simp only [List.length_cons, List.length_nil] at hl
    simp [dec2, dec3, dec4]; omega
  · simp only [List.length_cons] at hl
    have hs : seqLen p0.toNat = 4 := by omega
    have hr : r = [] := by
      cases r with
      | nil => rfl
      | cons a t => simp only [List.length_cons] at hl; omega
    subst hr
    simp [hs, dec4]

/-! `decodeAll` -/

theorem decodeAll_go_fuel : ∀ (f g : Nat) (xs : List UInt8), xs.length ≤ f → xs.length ≤ g →
    decodeAll.go f xs = decodeAll.go g xs := by
  intro f
  induction f with
  | zero =>
    intro g xs h _
    have : xs = [] := List.eq_nil_of_length_eq_zero (by omega)
    subst this
    cases g <;> rfl
  | succ f ih =>
    intro g xs h hg
    cases xs with
    | nil => cases g <;> rfl
    | cons b bs =>
      have hw := decodeRune_width b bs
      have hl : ((b :: bs).drop (decodeRune (b :: bs)).2).length ≤ bs.length := by
        simp only [List.length_drop, List.length_cons]; omega
      simp only [List.length_cons] at h hg
      obtain ⟨g', rfl⟩ : ∃ g', g = g' + 1 := ⟨g - 1, by omega⟩
      simp only [decodeAll.go]
      rw [ih g' _ (by omega) (by omega)]

theorem decodeAll_nil : decodeAll [] = [] := rfl

theorem decodeAll_cons (b : UInt8) (bs : List UInt8) :
    decodeAll (b :: bs) = decodeRune (b :: bs) :: decodeAll ((b :: bs).drop (decodeRune (b :: bs)).2) := by
  have hw := decodeRune_width b bs
  have hl : ((b :: bs).drop (decodeRune (b :: bs)).2).length ≤ bs.length := by
    simp only [List.length_drop, List.length_cons]; omega
  simp only [decodeAll, List.length_cons, decodeAll.go]
  rw [decodeAll_go_fuel _ _ _ hl (Nat.le_refl _)]

theorem dec2_take (b0 : Nat) (rest : List UInt8) (m : Nat) (h : (dec2 b0 rest).2 ≤ m + 1) :
    dec2 b0 (rest.take m) = dec2 b0 rest := by
  rcases rest with _ | ⟨p1, r⟩
  · simp
  · rcases m with _ | m
    · simp only [dec2] at h ⊢
      split at h
      · simp at h
      · simp_all [dec2]
    · simp [dec2]

theorem dec3_take (b0 : Nat) (rest : List UInt8) (m : Nat) (h : (dec3 b0 rest).2 ≤ m + 1) :
    dec3 b0 (rest.take m) = dec3 b0 rest := by
  rcases rest with _ | ⟨p1, _ | ⟨p2, r⟩⟩
  · simp
  · rcases m with _ | m <;> simp [dec3]
  · rcases m with _ | _ | m
    · simp only [dec3] at h ⊢
      split at h
      · simp at h
      · simp_all [dec3]
    · simp only [dec3] at h ⊢
      split at h
      · simp at h
      · simp_all [dec3]
    · simp [dec3]

theorem dec4_take (b0 : Nat) (rest : List UInt8) (m : Nat) (h : (dec4 b0 rest).2 ≤ m + 1) :
    dec4 b0 (rest.take m) = dec4 b0 rest := by
  rcases rest with _ | ⟨p1, _ | ⟨p2, _ | ⟨p3, r⟩⟩⟩
  · simp
  · rcases m with _ | m <;> simp [dec4]
  · rcases m with _ | _ | m <;> simp [dec4]
  · rcases m with _ | _ | _ | m
    · simp only [dec4] at h ⊢
      split at h
      · simp at h
      · simp_all [dec4]
    · simp only [dec4] at h ⊢
      split at h
      · simp at h
      · simp_all [dec4]
    · simp only [dec4] at h ⊢
      split at h
      · simp at h
      · simp_all [dec4]
    · simp [dec4]

/-- `DecodeRune` looks at no byte beyond the width it reports -/
theorem decodeRune_take (q : List UInt8) (n : Nat) (hn : 1 ≤ n) (hw : (decodeRune q).2 ≤ n) :
    decodeRune (q.take n) = decodeRune q := by
  obtain ⟨m, rfl⟩ : ∃ m, n = m + 1 := ⟨n - 1, by omega⟩
  cases q with
  | nil => simp
  | cons p0 rest =>
    simp only [List.take_succ_cons, decodeRune] at hw ⊢
    split
    · rfl
    · rename_i ha; rw [if_neg ha] at hw
      split
      · rename_i h2; rw [if_pos h2] at hw; exact dec2_take _ _ _ hw
      · rename_i h2; rw [if_neg h2] at hw
        split
        · rename_i h3; rw [if_pos h3] at hw; exact dec3_take _ _ _ hw
        · rename_i h3; rw [if_neg h3] at hw
          split
          · rename_i h4; rw [if_pos h4] at hw; exact dec4_take _ _ _ hw
          · rfl

theorem decodeRune_prefix (p t : List UInt8) (hp : p ≠ []) (hw : (decodeRune (p ++ t)).2 ≤ p.length) :
    decodeRune p = decodeRune (p ++ t) := by
  have := decodeRune_take (p ++ t) p.length (by cases p with | nil => exact absurd rfl hp | cons a b => simp) hw
  rwa [List.take_left'] at this
  rfl

end CedarGo.Text.Lx
