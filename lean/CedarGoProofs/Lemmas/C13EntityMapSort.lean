/-
  Helper lemmas for C13 (entity maps), part 2: `sortEntities` is THE sorted permutation; `decodeEntities` enters an array
  of entity documents into a map one by one and refuses the second entry of a UID (`entAddAll_eq`).
-/
import CedarGoProofs.Lemmas.C13EntityMap
namespace CedarGo.JsonModel
open CedarGo

/-- order of two entities in the encoding -/
def entLe (a b : UID × EntityData) : Prop := uidString a.1 ≤ uidString b.1

/-- the UIDs of a map, in list order -/
def keysOf (m : Entities) : List UID := m.map (·.1)

theorem insertEnt_perm (e : UID × EntityData) : ∀ (l : Entities), (insertEnt e l).Perm (e :: l)
  | [] => List.Perm.refl _
  | x :: xs => by
    simp only [insertEnt]
    split
    · exact List.Perm.refl _
    · exact ((insertEnt_perm e xs).cons x).trans (List.Perm.swap e x xs)

theorem sortEntities_perm : ∀ (m : Entities), (sortEntities m).Perm m
  | [] => List.Perm.refl _
  | e :: m => by
    simp only [sortEntities, List.foldr]
    exact (insertEnt_perm e _).trans ((sortEntities_perm m).cons e)

theorem insertEnt_pairwise (e : UID × EntityData) : ∀ (l : Entities), l.Pairwise entLe → (insertEnt e l).Pairwise entLe
  | [], _ => by simp [insertEnt]
  | x :: xs, h => by
    have hx := List.pairwise_cons.mp h
    simp only [insertEnt]
    split
    · rename_i hle
      refine List.pairwise_cons.mpr ⟨?_, h⟩
      intro y hy
      rcases List.mem_cons.mp hy with rfl | hy
      · exact hle
      · exact String.le_trans hle (hx.1 y hy)
    · rename_i hnle
      have hxe : entLe x e := by
        rcases String.le_total (uidString e.1) (uidString x.1) with h1 | h1
        · exact absurd h1 hnle
        · exact h1
      refine List.pairwise_cons.mpr ⟨?_, insertEnt_pairwise e xs hx.2⟩
      intro y hy
      rcases List.mem_cons.mp ((insertEnt_perm e xs).mem_iff.mp hy) with rfl | hy
      · exact hxe
      · exact hx.1 y hy

theorem sortEntities_pairwise : ∀ (m : Entities), (sortEntities m).Pairwise entLe
  | [] => List.Pairwise.nil
  | e :: m => by
    simp only [sortEntities, List.foldr]
    exact insertEnt_pairwise e _ (sortEntities_pairwise m)

/-- in a map (distinct UIDs) an entry is determined by its UID -/
theorem eq_of_key_eq : ∀ {m : Entities} {a b : UID × EntityData}, (keysOf m).Nodup → a ∈ m → b ∈ m → a.1 = b.1 → a = b
  | [], _, _, _, ha, _, _ => by simp at ha
  | x :: xs, a, b, hn, ha, hb, hk => by
    simp only [keysOf, List.map_cons, List.nodup_cons, List.mem_map, not_exists, not_and] at hn
    rcases List.mem_cons.mp ha with ea | ha'
    · rcases List.mem_cons.mp hb with eb | hb'
      · rw [ea, eb]
      · subst ea
        exact absurd hk.symm (hn.1 b hb')
    · rcases List.mem_cons.mp hb with eb | hb'
      · subst eb
        exact absurd hk (hn.1 a ha')
      · exact eq_of_key_eq (m := xs) hn.2 ha' hb' hk

/-- two sorted listings of the same map coincide -/
theorem sorted_unique {l₁ l₂ : Entities} (hn : (keysOf l₁).Nodup) (hp : l₁.Perm l₂) (h₁ : l₁.Pairwise entLe)
    (h₂ : l₂.Pairwise entLe) : l₁ = l₂ := by
  refine List.Perm.eq_of_pairwise (le := entLe) ?_ h₁ h₂ hp
  intro a b ha hb hab hba
  have hk : a.1 = b.1 := uidString_inj _ _ (String.le_antisymm hab hba)
  exact eq_of_key_eq hn ha (hp.mem_iff.mpr hb) hk

theorem keysOf_perm {l₁ l₂ : Entities} (hp : l₁.Perm l₂) : (keysOf l₁).Perm (keysOf l₂) := hp.map _

theorem sortEntities_nodup {m : Entities} (hn : (keysOf m).Nodup) : (keysOf (sortEntities m)).Nodup :=
  (keysOf_perm (sortEntities_perm m)).nodup_iff.mpr hn

/-- the encoding does not depend on the order in which Go's map iteration hands the entities over -/
theorem sortEntities_congr {m₁ m₂ : Entities} (hn : (keysOf m₁).Nodup) (hp : m₁.Perm m₂) : sortEntities m₁ = sortEntities m₂ :=
  sorted_unique (sortEntities_nodup hn) ((sortEntities_perm m₁).trans (hp.trans (sortEntities_perm m₂).symm))
    (sortEntities_pairwise m₁) (sortEntities_pairwise m₂)

theorem sortEntities_idem {m : Entities} (hn : (keysOf m).Nodup) : sortEntities (sortEntities m) = sortEntities m :=
  sortEntities_congr (sortEntities_nodup hn) (sortEntities_perm m)

theorem sortEntities_of_sorted {m : Entities} (hn : (keysOf m).Nodup) (hs : m.Pairwise entLe) : sortEntities m = m :=
  sorted_unique (sortEntities_nodup hn) (sortEntities_perm m) (sortEntities_pairwise m) hs

theorem sortEntities_isEmpty (m : Entities) : (sortEntities m).isEmpty = m.isEmpty := by
  have := (sortEntities_perm m).length_eq
  cases m with
  | nil => rfl
  | cons e m =>
    cases h : sortEntities (e :: m) with
    | nil => rw [h] at this; simp at this
    | cons _ _ => rfl

/-! ### lookup in a map -/

theorem get_none_of_not_mem : ∀ (m : Entities) (u : UID), u ∉ keysOf m → Entities.get m u = none
  | [], _, _ => rfl
  | (k, d) :: rest, u, h => by
    simp only [keysOf, List.map_cons, List.mem_cons, not_or] at h
    have hk : (k == u) = false := by simpa using fun e => h.1 e.symm
    simp only [Entities.get, hk, Bool.false_eq_true, if_false]
    exact get_none_of_not_mem rest u h.2

theorem get_of_mem : ∀ (m : Entities) (u : UID) (d : EntityData), (keysOf m).Nodup → (u, d) ∈ m → Entities.get m u = some d
  | [], _, _, _, h => by simp at h
  | (k, d') :: rest, u, d, hn, h => by
    simp only [keysOf, List.map_cons, List.nodup_cons] at hn
    rcases List.mem_cons.mp h with e | h
    · cases e
      simp [Entities.get]
    · have hk : (k == u) = false := by
        simp only [beq_eq_false_iff_ne, ne_eq]
        intro e
        subst e
        exact hn.1 (List.mem_map.mpr ⟨(k, d), h, rfl⟩)
      simp only [Entities.get, hk, Bool.false_eq_true, if_false]
      exact get_of_mem rest u d hn.2 h

/-- two listings of one map (distinct UIDs, same entries) answer every lookup alike -/
theorem get_perm {l₁ l₂ : Entities} (hn : (keysOf l₁).Nodup) (hp : l₁.Perm l₂) (u : UID) : Entities.get l₁ u = Entities.get l₂ u := by
  have hn₂ : (keysOf l₂).Nodup := (keysOf_perm hp).nodup_iff.mp hn
  by_cases hu : u ∈ keysOf l₁
  · obtain ⟨⟨k, d⟩, hm, rfl⟩ := List.mem_map.mp hu
    rw [get_of_mem l₁ k d hn hm, get_of_mem l₂ k d hn₂ (hp.mem_iff.mp hm)]
  · rw [get_none_of_not_mem l₁ u hu, get_none_of_not_mem l₂ u (fun h => hu ((keysOf_perm hp).mem_iff.mpr h))]

/-! ### `EntityMap.UnmarshalJSON`: `res[e.UID] = e` over the array -/

theorem entInsert_fresh (e : UID × EntityData) : ∀ (acc : Entities), e.1 ∉ keysOf acc → entInsert e acc = acc ++ [e]
  | [], _ => rfl
  | x :: xs, h => by
    simp only [keysOf, List.map_cons, List.mem_cons, not_or] at h
    have hk : (x.1 == e.1) = false := by simpa using fun eq => h.1 eq.symm
    simp only [entInsert, hk, Bool.false_eq_true, if_false, List.cons_append]
    rw [entInsert_fresh e xs h.2]

theorem get_entInsert (e : UID × EntityData) (u : UID) : ∀ (acc : Entities),
    Entities.get (entInsert e acc) u = if e.1 == u then some e.2 else Entities.get acc u
  | [] => by simp [entInsert, Entities.get]
  | (k, d) :: xs => by
    obtain ⟨ek, ed⟩ := e
    simp only [entInsert]
    by_cases hke : k = ek
    · subst hke
      simp only [beq_self_eq_true, if_true, Entities.get]
      by_cases hu : k = u
      · subst hu; simp
      · have : (k == u) = false := by simpa using hu
        simp [this]
    · have hke' : (k == ek) = false := by simpa using hke
      simp only [hke', Bool.false_eq_true, if_false, Entities.get]
      by_cases hu : k = u
      · subst hu
        have : (ek == k) = false := by simpa using fun e => hke e.symm
        simp [this]
      · have : (k == u) = false := by simpa using hu
        simp only [this, Bool.false_eq_true, if_false]
        exact get_entInsert (ek, ed) u xs

/-! ### the guarded loop: `if _, ok := res[e.UID]; ok { return error }; res[e.UID] = e` -/

theorem get_isSome_iff : ∀ (m : Entities) (u : UID), (Entities.get m u).isSome = true ↔ u ∈ keysOf m
  | [], _ => by simp [Entities.get, keysOf]
  | (k, d) :: rest, u => by
    by_cases hk : k = u
    · subst hk; simp [Entities.get, keysOf]
    · have hk' : (k == u) = false := by simpa using hk
      have ih := get_isSome_iff rest u
      simp only [keysOf] at ih
      simp only [Entities.get, hk', Bool.false_eq_true, if_false, keysOf, List.map_cons, List.mem_cons, ih]
      constructor
      · exact Or.inr
      · rintro (e | h)
        · exact absurd e.symm hk
        · exact h

/-- one turn: refused iff the UID is already present, otherwise the entry is appended -/
theorem entAdd_eq (acc : Entities) (e : UID × EntityData) :
    entAdd acc e = if e.1 ∈ keysOf acc then .error .reject else .ok (acc ++ [e]) := by
  unfold entAdd
  by_cases h : e.1 ∈ keysOf acc
  · simp [h, (get_isSome_iff acc e.1).mpr h]
  · have hs : (Entities.get acc e.1).isSome = false := by
      cases hh : (Entities.get acc e.1).isSome
      · rfl
      · exact absurd ((get_isSome_iff acc e.1).mp hh) h
    simp [h, hs, entInsert_fresh e acc h]

/-- **the whole loop, exactly**: accepted iff no UID is entered twice, and then the map lists the entries in array order -/
theorem entAddAll_eq : ∀ (es acc : Entities), (keysOf acc).Nodup →
    entAddAll acc es = if (keysOf (acc ++ es)).Nodup then .ok (acc ++ es) else .error .reject
  | [], acc, hacc => by simp [entAddAll, hacc]
  | e :: es, acc, hacc => by
    by_cases hm : e.1 ∈ keysOf acc
    · have hnd : ¬ (keysOf (acc ++ e :: es)).Nodup := by
        intro hn
        simp only [keysOf, List.map_append, List.map_cons] at hn hm
        exact (List.nodup_append.mp hn).2.2 e.1 hm e.1 (by simp) rfl
      simp [entAddAll, entAdd_eq, hm, hnd, bind, Except.bind]
    · have hacc' : (keysOf (acc ++ [e])).Nodup := by
        simp only [keysOf, List.map_append, List.map_cons, List.map_nil] at hm hacc ⊢
        refine List.nodup_append.mpr ⟨hacc, by simp, ?_⟩
        intro a ha b hb
        simp only [List.mem_cons, List.not_mem_nil, or_false] at hb
        subst hb
        exact fun e' => hm (e' ▸ ha)
      have ih := entAddAll_eq es (acc ++ [e]) hacc'
      simp only [List.append_assoc, List.cons_append, List.nil_append] at ih
      simp only [entAddAll, entAdd_eq, hm, if_false, bind, Except.bind]
      exact ih

/-- from the empty map: an array without repeated UIDs decodes to the same list, any other array is refused -/
theorem entAddAll_nil (es : Entities) :
    entAddAll [] es = if (keysOf es).Nodup then .ok es else .error .reject := by
  simpa using entAddAll_eq es [] (by simp [keysOf])

theorem mapMR_ok_of_forall {α β} (f : α → R β) (g : β → α) : ∀ (l : List β), (∀ x ∈ l, f (g x) = .ok x) → mapMR f (l.map g) = .ok l
  | [], _ => rfl
  | x :: xs, h => by
    simp only [List.map, mapMR, h x (by simp), mapMR_ok_of_forall f g xs (fun y hy => h y (by simp [hy]))]

theorem mapMR_ok_length {α β} (f : α → R β) : ∀ (xs : List α) (ys : List β), mapMR f xs = .ok ys → ys.length = xs.length
  | [], ys, h => by simp only [mapMR, Except.ok.injEq] at h; subst h; rfl
  | x :: xs, ys, h => by
    simp only [mapMR] at h
    cases hx : f x with
    | error e => simp [hx] at h
    | ok y =>
      cases hxs : mapMR f xs with
      | error e => simp [hx, hxs] at h
      | ok ys' =>
        simp only [hx, hxs, Except.ok.injEq] at h
        subst h
        simp [mapMR_ok_length f xs ys' hxs]

/-- member by member: the i-th result is what `f` makes of the i-th input -/
theorem mapMR_ok_getElem {α β} (f : α → R β) : ∀ (xs : List α) (ys : List β), mapMR f xs = .ok ys →
    ∀ (i : Nat) (h₁ : i < xs.length) (h₂ : i < ys.length), f xs[i] = .ok ys[i]
  | [], _, _, i, h₁, _ => by simp at h₁
  | x :: xs, ys, h, i, h₁, h₂ => by
    simp only [mapMR] at h
    cases hx : f x with
    | error e => simp [hx] at h
    | ok y =>
      cases hxs : mapMR f xs with
      | error e => simp [hx, hxs] at h
      | ok ys' =>
        simp only [hx, hxs, Except.ok.injEq] at h
        subst h
        cases i with
        | zero => simpa using hx
        | succ i =>
          simp only [List.getElem_cons_succ]
          exact mapMR_ok_getElem f xs ys' hxs i (by simpa using h₁) (by simpa using h₂)

end CedarGo.JsonModel
