/-
  C12 helper lemmas: IPv4 text form (`netip.Addr.String` / `ParseAddr` / `ParsePrefix` as modelled).
-/
import CedarGoProofs.Lemmas.C12Digits
namespace CedarGo.Scalars
open CedarGo

instance : DecidableEq (Except Err IPNet) := fun a b =>
  match a, b with
  | .ok x, .ok y => if h : x = y then isTrue (by rw [h]) else isFalse (by intro e; injection e with e; exact h e)
  | .error x, .error y => if h : x = y then isTrue (by rw [h]) else isFalse (by intro e; injection e with e; exact h e)
  | .ok _, .error _ => isFalse (by intro e; cases e)
  | .error _, .ok _ => isFalse (by intro e; cases e)

/-- one octet: the loop reads the digits of `n ≤ 255` (no leading zero) and ends with `val = n` -/
theorem v4_octet : ∀ n, n ≤ 255 → ∀ (rest : List Char) (pos : Nat) (pd first : Bool) (acc : Nat),
    parseV4Loop (natDigits n ++ rest) 0 0 pos pd first acc =
      parseV4Loop rest n (natDigits n).length pos false false acc := by
  apply natDigits_induction (P := fun n => n ≤ 255 → ∀ (rest : List Char) (pos : Nat) (pd first : Bool) (acc : Nat),
    parseV4Loop (natDigits n ++ rest) 0 0 pos pd first acc =
      parseV4Loop rest n (natDigits n).length pos false false acc)
  · intro n h _ rest pos pd first acc
    rw [natDigits_lt h]
    have hv := digVal_digitChar n h
    have hd := isDig_digitChar n h
    simp [parseV4Loop, hd, hv]
    omega
  · intro n h ih hn rest pos pd first acc
    rw [natDigits_ge h, List.append_assoc, ih (by omega)]
    have hv := digVal_digitChar (n % 10) (Nat.mod_lt _ (by omega))
    have hd := isDig_digitChar (n % 10) (Nat.mod_lt _ (by omega))
    have h1 : ¬ (n / 10 = 0) := by omega
    have h2 : ¬ (n / 10 * 10 + n % 10 > 255) := by omega
    have h3 : n / 10 * 10 + n % 10 = n := by omega
    simp [parseV4Loop, hd, hv, h1, h3]
    omega

theorem v4_dot (rest : List Char) (val digLen pos acc : Nat) (hr : rest ≠ []) (hp : pos < 3) :
    parseV4Loop ('.' :: rest) val digLen pos false false acc = parseV4Loop rest 0 0 (pos + 1) true false (acc * 256 + val) := by
  have h1 : rest.isEmpty = false := by cases rest <;> simp_all
  have h2 : ¬ (pos = 3) := by omega
  simp [parseV4Loop, isDig, h1, h2]

theorem natDigits_append_ne_nil (n : Nat) (r : List Char) : natDigits n ++ r ≠ [] := by
  have := natDigits_ne_nil n
  cases h : natDigits n with
  | nil => exact absurd h this
  | cons _ _ => simp

theorem parseV4_printV4 (a : Nat) (ha : a < 4294967296) : parseV4 (printV4 a) = some a := by
  unfold parseV4 printV4
  rw [v4_octet _ (by omega), v4_dot _ _ _ _ _ (natDigits_append_ne_nil _ _) (by omega),
    v4_octet _ (by omega), v4_dot _ _ _ _ _ (natDigits_append_ne_nil _ _) (by omega),
    v4_octet _ (by omega), v4_dot _ _ _ _ _ (by
      have := natDigits_ne_nil (a % 256); exact this) (by omega)]
  have := v4_octet (a % 256) (by omega) [] 3 true false (((0 * 256 + a / 16777216 % 256) * 256 + a / 65536 % 256) * 256 + a / 256 % 256)
  rw [List.append_nil] at this
  rw [this]
  simp [parseV4Loop]
  omega


theorem mem_natDigits {n : Nat} {x : Char} (h : x ∈ natDigits n) : isDig x = true := by
  have := all_isDig_natDigits n
  rw [List.all_eq_true] at this
  exact this x h

theorem mem_printV4 {a : Nat} {x : Char} (h : x ∈ printV4 a) : isDig x = true ∨ x = '.' := by
  unfold printV4 at h
  simp only [List.mem_append, List.mem_cons] at h
  rcases h with h | h | h | h | h | h | h
  · exact Or.inl (mem_natDigits h)
  · exact Or.inr h
  · exact Or.inl (mem_natDigits h)
  · exact Or.inr h
  · exact Or.inl (mem_natDigits h)
  · exact Or.inr h
  · exact Or.inl (mem_natDigits h)

theorem printV4_head (a : Nat) : ∃ c r, printV4 a = c :: r ∧ isDig c = true := by
  obtain ⟨c, r, e, hc, _⟩ := natDigits_head (a / 16777216 % 256)
  exact ⟨c, r ++ _, by unfold printV4; rw [e]; rfl, hc⟩

/-- `netip.ParseAddr` picks the IPv4 parser: the first of `.`, `:`, `%` in a dotted quad is a `.` -/
theorem find_printV4 (a : Nat) (rest : List Char) :
    (printV4 a ++ rest).find? (fun c => c == '.' || c == ':' || c == '%') = some '.' := by
  unfold printV4
  have key : ∀ (ds r : List Char), (∀ x ∈ ds, isDig x = true) →
      (ds ++ ('.' :: r)).find? (fun c => c == '.' || c == ':' || c == '%') = some '.' := by
    intro ds r hd
    induction ds with
    | nil => simp
    | cons x xs ih =>
      have hx := isDig_ne (hd x (by simp))
      have hx2 : x ≠ '%' := by
        intro e; subst e; have := hd '%' (by simp); revert this; decide
      have := ih (fun y hy => hd y (by simp [hy]))
      simp [hx.1, hx.2.2.2.2.2.2.2.2.2, hx2, this]
  rw [List.append_assoc]
  exact key _ _ (fun x hx => mem_natDigits hx)

theorem parseAddr_printV4 (a : Nat) (ha : a < 4294967296) : parseAddr (printV4 a) = some (false, a) := by
  have h := find_printV4 a []
  rw [List.append_nil] at h
  unfold parseAddr
  rw [h]
  simp [parseV4_printV4 a ha]

theorem lastIndexOf_go_none (c : Char) : ∀ (cs : List Char) (i : Nat) (r : Option Nat), (∀ x ∈ cs, x ≠ c) →
    lastIndexOf.go c cs i r = r := by
  intro cs
  induction cs with
  | nil => intro i r _; rfl
  | cons x xs ih =>
    intro i r h
    have hx : x ≠ c := h x (by simp)
    unfold lastIndexOf.go
    rw [ih (i + 1) _ (fun y hy => h y (by simp [hy]))]
    simp [hx]

theorem lastIndexOf_go_append (c : Char) (post : List Char) (hpost : ∀ x ∈ post, x ≠ c) :
    ∀ (pre : List Char) (i : Nat) (r : Option Nat),
      lastIndexOf.go c (pre ++ c :: post) i r = some (i + pre.length) := by
  intro pre
  induction pre with
  | nil =>
    intro i r
    simp only [List.nil_append, List.length_nil, Nat.add_zero]
    unfold lastIndexOf.go
    rw [lastIndexOf_go_none c post (i + 1) _ hpost]
    simp
  | cons x xs ih =>
    intro i r
    rw [List.cons_append]
    unfold lastIndexOf.go
    rw [ih (i + 1)]
    simp; omega

theorem countCh_zero (c : Char) (cs : List Char) (h : ∀ x ∈ cs, x ≠ c) : countCh c cs = 0 := by
  unfold countCh
  rw [List.length_eq_zero_iff, List.filter_eq_nil_iff]
  intro x hx
  simpa using h x hx


theorem printV4_no (a : Nat) (c : Char) (hc : isDig c = false) (hc2 : c ≠ '.') : ∀ x ∈ printV4 a, x ≠ c := by
  intro x hx e
  subst e
  rcases mem_printV4 hx with h | h
  · rw [h] at hc; cases hc
  · exact hc2 h

/-- IPv4 addresses and prefixes: `ParseIPAddr(ip.String()) == ip` -/
theorem parseIPL_printIPL_v4 (a bits : Nat) (ha : a < 4294967296) (hb : bits ≤ 32) :
    parseIPL (printIPL ⟨false, a, bits⟩) = .ok ⟨false, a, bits⟩ := by
  unfold printIPL printAddr
  simp only [Bool.false_eq_true, if_false, Bool.not_false, if_true]
  by_cases hfull : bits = 32
  · subst hfull
    simp only [beq_self_eq_true, if_true]
    have hc : countCh ':' (printV4 a) = 0 := countCh_zero _ _ (printV4_no a ':' (by decide) (by decide))
    have hp : parsePrefix (printV4 a) = none := by
      unfold parsePrefix lastIndexOf
      rw [lastIndexOf_go_none '/' _ 0 none (printV4_no a '/' (by decide) (by decide))]
    unfold parseIPL
    rw [hc, hp]
    simp [parseAddr_printV4 a ha]
  · have hne : (bits == 32) = false := by simpa using hfull
    simp only [hne, Bool.false_eq_true, if_false]
    have hcolon : ∀ x ∈ printV4 a ++ '/' :: natDigits bits, x ≠ ':' := by
      intro x hx
      simp only [List.mem_append, List.mem_cons] at hx
      rcases hx with h | h | h
      · exact printV4_no a ':' (by decide) (by decide) x h
      · subst h; decide
      · exact (isDig_ne (mem_natDigits h)).2.2.2.2.2.2.2.2.2
    have hc : countCh ':' (printV4 a ++ '/' :: natDigits bits) = 0 := countCh_zero _ _ hcolon
    have hslash : ∀ x ∈ natDigits bits, x ≠ '/' := by
      intro x hx e; subst e; have := mem_natDigits hx; revert this; decide
    have hl : lastIndexOf '/' (printV4 a ++ '/' :: natDigits bits) = some (printV4 a).length := by
      unfold lastIndexOf
      rw [lastIndexOf_go_append '/' _ hslash]; simp
    obtain ⟨c, r, e, hcd, hz⟩ := natDigits_head bits
    have hlead : ¬ ((natDigits bits).length > 1 ∧ ¬ ('1' ≤ c ∧ c ≤ '9')) := by
      intro ⟨h1, h2⟩
      have hb10 : ¬ bits < 10 := by
        intro hlt; rw [natDigits_lt hlt] at h1; simp at h1
      have hc0 : c ≠ '0' := fun e0 => by have := hz e0; omega
      apply h2
      simp only [isDig, Bool.and_eq_true, decide_eq_true_eq] at hcd
      refine ⟨?_, hcd.2⟩
      have h0 : '0' ≤ c := hcd.1
      have : c.toNat ≠ 48 := by
        intro e48; apply hc0; apply Char.ext; apply UInt32.toNat_inj.mp; simpa using e48
      have h0' : 48 ≤ c.toNat := h0
      show (49 : Nat) ≤ c.toNat
      omega
    unfold parseIPL
    rw [hc]
    simp only [show ¬ (0 ≥ 2) by omega, decide_false, Bool.false_and, Bool.false_eq_true, if_false]
    unfold parsePrefix
    rw [hl]
    simp only [List.take_left']
    rw [parseAddr_printV4 a ha]
    have hdrop : (printV4 a ++ '/' :: natDigits bits).drop ((printV4 a).length + 1) = natDigits bits := by
      rw [show (printV4 a ++ '/' :: natDigits bits) = (printV4 a ++ ['/']) ++ natDigits bits by simp]
      rw [List.drop_append_of_le_length (by simp)]
      simp
    have hall : allDigits (c :: r) = true := e ▸ allDigits_natDigits bits
    have hval : digitsVal (c :: r) = bits := e ▸ digitsVal_natDigits bits
    rw [e] at hlead
    simp only
    rw [hdrop, e]
    have hb1 : (decide ((c :: r).length > 1) && !(decide ('1' ≤ c) && decide (c ≤ '9'))) = false := by
      by_cases hlen : (c :: r).length > 1
      · have h2 : '1' ≤ c ∧ c ≤ '9' := Classical.not_not.mp (not_and.mp hlead hlen)
        simp [h2.1, h2.2]
      · have hr0 : ¬ (0 < r.length) := by rw [List.length_cons] at hlen; omega
        simp [hr0]
    have hb2 : ¬ (bits > 32) := by omega
    simp only [List.head?_cons, hb1, hall, hval, Bool.false_eq_true, if_false, Bool.not_true, hb2]

end CedarGo.Scalars
