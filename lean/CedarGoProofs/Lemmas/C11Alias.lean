/-
  Lemmas for the immutability clause of C11 (model: CedarGo/Model/Alias.lean).

  `Known s x`   : the container `x` refers to (if any) is referred to by some object of `s`
  `absF_frame`  : the denotation of a known object depends only on the containers referred to by objects
  `absF_fuel`   : under `Inv`, recursion depth = heap size is enough
  `Step s s'`   : `s'` satisfies the invariant, keeps every live value and leaves every internal container
                  as it was; proved for each primitive state change (alloc / write-through-owned / keep / own)
-/
import CedarGo.Model.Alias
namespace CedarGo.Alias

theorem mem_objs {s : State} {x : VObj} : x ∈ s.objs ↔ x ∈ s.live ∨ ∃ c ∈ s.heap, x ∈ c.elems := by
  simp [State.objs, List.mem_flatMap]

def Known (s : State) (x : VObj) : Prop := ∀ a, x.addr? = some a → ∃ y ∈ s.objs, y.addr? = some a

theorem Known.of_mem {s : State} {x : VObj} (h : x ∈ s.objs) : Known s x := fun _ ha => ⟨x, h, ha⟩

theorem Known.scalar (s : State) (v : Value) : Known s (.scalar v) := by
  intro a ha; simp [VObj.addr?] at ha

theorem Known.nil (s : State) (k : Kind) : Known s (.ref k none) := by
  intro a ha; simp [VObj.addr?] at ha

theorem Known.of_live {s : State} {x : VObj} (h : x ∈ s.live) : Known s x := .of_mem (mem_objs.mpr (.inl h))

theorem Known.of_heap {s : State} {a : Nat} {c : Cont} {x : VObj} (hc : s.heap[a]? = some c) (hx : x ∈ c.elems) :
    Known s x := .of_mem (mem_objs.mpr (.inr ⟨c, List.mem_of_getElem? hc, hx⟩))

theorem Known.of_src {s : State} {x : Src} {v : VObj} (h : s.src x = some v) : Known s v := by
  cases x with
  | scalar w => simp [State.src] at h; subst h; exact .scalar s w
  | live i => simp [State.src] at h; exact .of_live (List.mem_of_getElem? h)

/-! ### abstraction: congruence, frame, fuel -/

theorem absCont_congr (k : Kind) (c : Option Cont) (f g : VObj → Value)
    (h : ∀ c', c = some c' → ∀ x ∈ c'.elems, f x = g x) : absCont k c f = absCont k c g := by
  cases c with
  | none => cases k <;> rfl
  | some c' =>
    have h' := h c' rfl
    cases c' with
    | seq xs =>
      have e : xs.map f = xs.map g := List.map_congr_left (by simpa [Cont.elems] using h')
      cases k <;> simp [absCont, e]
    | map kvs =>
      have e : (kvs.map fun kv => (kv.1, f kv.2)) = (kvs.map fun kv => (kv.1, g kv.2)) := by
        apply List.map_congr_left
        intro kv hkv
        rw [h' kv.2 (by simp only [Cont.elems, List.mem_map]; exact ⟨kv, hkv, rfl⟩)]
      cases k <;> simp [absCont, e]

theorem absF_scalar (n : Nat) (h : Heap) (v : Value) : absF n h (.scalar v) = v := by
  cases n <;> rfl

theorem absF_nil (n : Nat) (h : Heap) (k : Kind) : absF n h (.ref k none) = k.empty := by
  cases n <;> rfl

/-- the denotation of an object depends only on the containers objects refer to -/
theorem absF_frame {s : State} {h' : Heap}
    (hf : ∀ y ∈ s.objs, ∀ b, y.addr? = some b → h'[b]? = s.heap[b]?) :
    ∀ (n : Nat) (x : VObj), Known s x → absF n h' x = absF n s.heap x := by
  intro n
  induction n with
  | zero => intro x _; cases x <;> rfl
  | succ n ih =>
    intro x hx
    match x with
    | .scalar v => rfl
    | .ref k none => rfl
    | .ref k (some a) =>
      obtain ⟨y, hy, hya⟩ := hx a rfl
      simp only [absF]
      rw [hf y hy a hya]
      apply absCont_congr
      intro c' hc' z hz
      exact ih z (.of_heap hc' hz)

def rank (x : VObj) : Nat :=
  match x.addr? with
  | some a => a + 1
  | none => 0

/-- recursion depth: any two depths above the address of the object give the same value -/
theorem absF_fuel {s : State} (hs : Inv s) :
    ∀ (n m : Nat) (x : VObj), Known s x → rank x ≤ n → rank x ≤ m → absF n s.heap x = absF m s.heap x := by
  intro n
  induction n with
  | zero =>
    intro m x _ hn _
    match x with
    | .scalar v => rw [absF_scalar, absF_scalar]
    | .ref k none => rw [absF_nil, absF_nil]
    | .ref k (some a) => simp [rank, VObj.addr?] at hn
  | succ n ih =>
    intro m x hx hn hm
    match x with
    | .scalar v => rw [absF_scalar, absF_scalar]
    | .ref k none => rw [absF_nil, absF_nil]
    | .ref k (some a) =>
      obtain ⟨y, hy, hya⟩ := hx a rfl
      match m with
      | 0 => simp [rank, VObj.addr?] at hm
      | m + 1 =>
        simp only [absF]
        apply absCont_congr
        intro c' hc' z hz
        have hzr : rank z ≤ a := by
          unfold rank
          split
          · rename_i b hb
            exact hs.strat y hy a hya c' hc' z hz b hb
          · omega
        simp only [rank, VObj.addr?] at hn hm
        exact ih m z (.of_heap hc' hz) (by omega) (by omega)

/-! ### steps -/

structure Step (s s' : State) : Prop where
  inv : Inv s'
  live : ∀ v ∈ s.live, v ∈ s'.live
  len : s.heap.length ≤ s'.heap.length
  frame : ∀ y ∈ s.objs, ∀ b, y.addr? = some b → s'.heap[b]? = s.heap[b]?

theorem rank_le {s : State} (hs : Inv s) {v : VObj} (hv : v ∈ s.objs) : rank v ≤ s.heap.length := by
  unfold rank
  split
  · rename_i a ha
    have := hs.refs_lt v hv a ha
    omega
  · omega

/-- what a step is for: every live value denotes what it denoted -/
theorem Step.abs_eq {s s' : State} (hs : Inv s) (st : Step s s') {v : VObj} (hv : v ∈ s.live) :
    abs s'.heap v = abs s.heap v := by
  have hk : Known s v := .of_live hv
  have hr := rank_le hs (mem_objs.mpr (.inl hv))
  unfold abs
  rw [absF_frame st.frame _ v hk]
  exact absF_fuel hs _ _ v hk (by have := st.len; omega) hr

theorem Step.refl {s : State} (hs : Inv s) : Step s s := ⟨hs, fun _ h => h, Nat.le_refl _, fun _ _ _ _ => rfl⟩

/-- allocation of a container whose elements are known: the general shape of `allocInternal` / `allocOwned` -/
theorem step_alloc {s s' : State} (hs : Inv s) (c : Cont) (hc : ∀ x ∈ c.elems, Known s x)
    (hheap : s'.heap = s.heap ++ [c])
    (hlive : ∀ v ∈ s.live, v ∈ s'.live)
    (hobjs : ∀ x ∈ s'.objs, Known s x ∨ x.addr? = some s.heap.length)
    (howned : ∀ r ∈ s'.owned, r ∈ s.owned ∨ (r.addr = s.heap.length ∧ ∀ x ∈ s'.objs, Known s x)) :
    Step s s' := by
  have hlt : ∀ x, Known s x → ∀ a, x.addr? = some a → a < s.heap.length := by
    intro x hx a ha
    obtain ⟨y, hy, hya⟩ := hx a ha
    exact hs.refs_lt y hy a hya
  have hget : ∀ a, a < s.heap.length → s'.heap[a]? = s.heap[a]? := by
    intro a ha; rw [hheap, List.getElem?_append_left ha]
  refine ⟨⟨?_, ?_, ?_, ?_⟩, hlive, by simp [hheap], ?_⟩
  · intro x hx a ha
    rw [hheap]; simp only [List.length_append, List.length_singleton]
    rcases hobjs x hx with h | h
    · have := hlt x h a ha; omega
    · rw [ha] at h; cases h; omega
  · intro r hr
    rw [hheap]; simp only [List.length_append, List.length_singleton]
    rcases howned r hr with h | ⟨h, _⟩
    · have := hs.owned_lt r h; omega
    · omega
  · intro r hr x hx hxa
    rcases howned r hr with h | ⟨h, hall⟩
    · rcases hobjs x hx with hk | hn
      · obtain ⟨y, hy, hya⟩ := hk _ hxa
        exact hs.sep r h y hy hya
      · rw [hxa] at hn
        have e := Option.some.inj hn
        have := hs.owned_lt r h; omega
    · have := hlt x (hall x hx) _ hxa; omega
  · intro x hx a ha c' hc' y hy b hb
    rcases hobjs x hx with hk | hn
    · obtain ⟨z, hz, hza⟩ := hk a ha
      have hal := hs.refs_lt z hz a hza
      rw [hget a hal] at hc'
      exact hs.strat z hz a hza c' hc' y hy b hb
    · rw [ha] at hn; cases hn
      rw [hheap, List.getElem?_append_right (Nat.le_refl _)] at hc'
      simp at hc'; subst hc'
      exact hlt y (hc y hy) b hb
  · intro y hy b hb
    exact hget b (hs.refs_lt y hy b hb)

theorem mem_objs_append_heap {s : State} {c : Cont} {x : VObj} {live : List VObj} {owned : List Ref}
    (hx : x ∈ State.objs ⟨s.heap ++ [c], owned, live⟩) : x ∈ live ∨ x ∈ s.heap.flatMap Cont.elems ∨ x ∈ c.elems := by
  simpa [State.objs, List.flatMap_append, or_assoc] using hx

theorem step_allocInternal {s : State} (hs : Inv s) (k : Kind) (c : Cont) (hc : ∀ x ∈ c.elems, Known s x) :
    Step s (s.allocInternal k c) := by
  apply step_alloc hs c hc rfl
  · intro v hv; simp [State.allocInternal, hv]
  · intro x hx
    rcases mem_objs_append_heap hx with h | h | h
    · simp only [List.mem_append, List.mem_singleton] at h
      rcases h with h | h
      · exact .inl (.of_live h)
      · right; subst h; rfl
    · exact .inl (.of_mem (by simp [State.objs, h]))
    · exact .inl (hc x h)
  · intro r hr; exact .inl hr

theorem step_allocOwned {s : State} (hs : Inv s) (c : Cont) (hc : ∀ x ∈ c.elems, Known s x) :
    Step s (s.allocOwned c) := by
  have hobjs : ∀ x ∈ (s.allocOwned c).objs, Known s x := by
    intro x hx
    rcases mem_objs_append_heap hx with h | h | h
    · exact .of_live h
    · exact .of_mem (by simp [State.objs, h])
    · exact hc x h
  apply step_alloc hs c hc rfl
  · intro v hv; exact hv
  · intro x hx; exact .inl (hobjs x hx)
  · intro r hr
    simp only [State.allocOwned, List.mem_append, List.mem_singleton] at hr
    rcases hr with h | h
    · exact .inl h
    · right; subst h; exact ⟨rfl, hobjs⟩

/-- elements of a heap after `set` come from the old heap or from the container written -/
theorem mem_flatMap_set {h : Heap} {a : Nat} {c : Cont} {x : VObj}
    (hx : x ∈ (h.set a c).flatMap Cont.elems) : x ∈ h.flatMap Cont.elems ∨ x ∈ c.elems := by
  simp only [List.mem_flatMap] at hx ⊢
  obtain ⟨c', hc', hxc⟩ := hx
  rcases List.mem_or_eq_of_mem_set hc' with h | h
  · exact .inl ⟨c', h, hxc⟩
  · subst h; exact .inr hxc

/-- a write through a reference the caller holds, of known elements -/
theorem step_write {s : State} (hs : Inv s) (r : Ref) (hr : r ∈ s.owned) (c : Cont) (hc : ∀ x ∈ c.elems, Known s x) :
    Step s (s.write r.addr c) := by
  have hobjs : ∀ x ∈ (s.write r.addr c).objs, Known s x := by
    intro x hx
    simp only [State.objs, State.write, List.mem_append] at hx
    rcases hx with h | h
    · exact .of_live h
    · rcases mem_flatMap_set h with h | h
      · exact .of_mem (by simp [State.objs, h])
      · exact hc x h
  have hne : ∀ x, Known s x → ∀ a, x.addr? = some a → a ≠ r.addr := by
    intro x hx a ha e
    obtain ⟨y, hy, hya⟩ := hx a ha
    exact hs.sep r hr y hy (e ▸ hya)
  have hget : ∀ x, Known s x → ∀ a, x.addr? = some a → (s.write r.addr c).heap[a]? = s.heap[a]? := by
    intro x hx a ha
    simp only [State.write]
    rw [List.getElem?_set_ne (Ne.symm (hne x hx a ha))]
  refine ⟨⟨?_, ?_, ?_, ?_⟩, fun _ h => h, by simp [State.write], ?_⟩
  · intro x hx a ha
    obtain ⟨y, hy, hya⟩ := hobjs x hx a ha
    simpa [State.write] using hs.refs_lt y hy a hya
  · intro r' hr'
    simpa [State.write] using hs.owned_lt r' hr'
  · intro r' hr' x hx hxa
    obtain ⟨y, hy, hya⟩ := hobjs x hx _ hxa
    exact hs.sep r' hr' y hy hya
  · intro x hx a ha c' hc' y hy b hb
    rw [hget x (hobjs x hx) a ha] at hc'
    obtain ⟨z, hz, hza⟩ := hobjs x hx a ha
    exact hs.strat z hz a hza c' hc' y hy b hb
  · intro y hy b hb
    exact hget y (.of_mem hy) b hb

/-- keeping known values, after any step -/
theorem Step.keep {s s' : State} (st : Step s s') (xs : List VObj) (hxs : ∀ x ∈ xs, Known s' x) : Step s (s'.keep xs) := by
  have hobjs : ∀ x ∈ (s'.keep xs).objs, Known s' x := by
    intro x hx
    simp only [State.objs, State.keep, List.mem_append] at hx
    rcases hx with (h | h) | h
    · exact .of_live h
    · exact hxs x h
    · exact .of_mem (by simp [State.objs, h])
  refine ⟨⟨?_, st.inv.owned_lt, ?_, ?_⟩, ?_, st.len, st.frame⟩
  · intro x hx a ha
    obtain ⟨y, hy, hya⟩ := hobjs x hx a ha
    exact st.inv.refs_lt y hy a hya
  · intro r hr x hx hxa
    obtain ⟨y, hy, hya⟩ := hobjs x hx _ hxa
    exact st.inv.sep r hr y hy hya
  · intro x hx a ha c' hc' y hy b hb
    obtain ⟨z, hz, hza⟩ := hobjs x hx a ha
    exact st.inv.strat z hz a hza c' hc' y hy b hb
  · intro v hv
    simp [State.keep, st.live v hv]

/-- one more reference to a container the caller already holds a reference to, after any step -/
theorem Step.own {s s' : State} (st : Step s s') (r r' : Ref) (hr' : r' ∈ s'.owned) (e : r.addr = r'.addr) :
    Step s (s'.own r) := by
  refine ⟨⟨st.inv.refs_lt, ?_, ?_, st.inv.strat⟩, st.live, st.len, st.frame⟩
  · intro q hq
    simp only [State.own, List.mem_append, List.mem_singleton] at hq
    rcases hq with h | h
    · exact st.inv.owned_lt q h
    · subst h; rw [e]; exact st.inv.owned_lt r' hr'
  · intro q hq x hx
    simp only [State.own, List.mem_append, List.mem_singleton] at hq
    rcases hq with h | h
    · exact st.inv.sep q h x hx
    · subst h; rw [e]; exact st.inv.sep r' hr' x hx

end CedarGo.Alias
