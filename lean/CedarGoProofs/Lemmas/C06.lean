/-
  Helper definitions and lemmas for C06 (soundness of partial evaluation — since the repairs of partial.go for EVERY
  expression; no domain hypothesis is left at expression level).

  Layout
    §1  `Completes`, `satisfied`, `erroring`
    §2  `R`: agreement of two evaluation results (equal values, or both errors)
    §3  operators as functions of their operands' results (`binSem`, `unSem`, …) with `eval_*` unfolding lemmas,
        strictness, and dependence on the environment through the store only
    §4  substitution lemmas (`substAll` on values without unknowns, attribute lookup commutes with substitution)
    §4b `Completion γ`: the three facts about "completing the unknowns inside a value" the proof uses; instances for
        `Value.substAll σ` (C06) and — in Lemmas/C05Decision.lean — for the batch enumeration's successive substitutions
    §5  the invariant `Sound γ` and the soundness of each `tryPartial` shape (`combine1`, `combine2`, `finishList`, …),
        of `partialAnd/Or/IfThenElse/IsIn` (`andStep`, …) and the main theorem `partialE_sound`
-/
import CedarGo.Model.Partial
import CedarGoProofs.Lemmas.RecordLit
set_option linter.unusedSimpArgs false
set_option linter.unusedVariables false
namespace CedarGo

/-! ## §1 -/

/-- `env` completes the partial environment `envHat`: same store, every unknown in the four request parts
    replaced by a marker-free value -/
def Completes (envHat env : Env) : Prop :=
  ∃ σ : String → Value, (∀ x, (σ x).hasMarker = false) ∧ env = completeEnv σ envHat

/-- the policy is satisfied: `Eval(PolicyToNode(p))` is `true` -/
def satisfied (p : Policy) (env : Env) : Bool :=
  match evalBool (policyToExpr p) env with
  | .ok true => true
  | _ => false

def erroring (p : Policy) (env : Env) : Bool :=
  match evalBool (policyToExpr p) env with
  | .error _ => true
  | _ => false

/-! ## §2 -/

/-- results agree: equal values, or both errors (error kinds / messages are not preserved by partial evaluation) -/
def R : Res → Res → Prop
  | .ok a, .ok b => a = b
  | .error _, .error _ => True
  | _, _ => False

theorem R.refl (a : Res) : R a a := by cases a <;> simp [R]
theorem R.of_eq {a b : Res} (h : a = b) : R a b := h ▸ R.refl a
theorem R.symm {a b : Res} (h : R a b) : R b a := by
  cases a <;> cases b <;> simp_all [R]
theorem R.trans {a b c : Res} (h1 : R a b) (h2 : R b c) : R a c := by
  cases a <;> cases b <;> cases c <;> simp_all [R]
theorem R.ok_left {v : Value} {b : Res} (h : R (.ok v) b) : b = .ok v := by
  cases b <;> simp_all [R]
theorem R.ok_right {v : Value} {a : Res} (h : R a (.ok v)) : a = .ok v := by
  cases a <;> simp_all [R]
theorem R.err_left {e : Err} {b : Res} (h : R (.error e) b) : ∃ k, b = .error k := by
  cases b <;> simp_all [R]
theorem R.err_right {e : Err} {a : Res} (h : R a (.error e)) : ∃ k, a = .error k := by
  cases a <;> simp_all [R]
theorem R.err_err (e1 e2 : Err) : R (.error e1) (.error e2) := by simp [R]

/-! ## §3 operators as functions of their operands' results -/

def unSem (op : UnOp) (ra : Res) : Res :=
  match op with
  | .not => do let b ← ra.bind toBool; .ok (.bool (!b))
  | .neg => do
      let n ← ra.bind toLong
      let (r, ok) := checkedNeg n
      if ok then .ok (.long r) else .error .overflow
  | .isEmpty => do let s ← ra.bind toSet; .ok (.bool s.isEmpty)

theorem eval_unop (op : UnOp) (e : Expr) (env : Env) : eval (.unop op e) env = unSem op (eval e env) := by
  cases op <;> rfl

theorem unSem_err (op : UnOp) (e : Err) : unSem op (.error e) = .error e := by cases op <;> rfl

def binSem (op : BinOp) (env : Env) (ra rb : Res) : Res :=
  match op with
  | .and => do
      let v ← ra
      let b ← toBool v
      if !b then .ok v else
      let v ← rb
      let _ ← toBool v
      .ok v
  | .or => do
      let v ← ra
      let b ← toBool v
      if b then .ok v else
      let v ← rb
      let _ ← toBool v
      .ok v
  | .eq => do let a ← ra; let b ← rb; .ok (.bool (a.beq b))
  | .ne => do let a ← ra; let b ← rb; .ok (.bool (!a.beq b))
  | .lt => do
      let a ← ra.bind toComparable
      let b ← rb.bind toComparable
      match cmpLT a b with | some x => .ok (.bool x) | none => .error .type
  | .le => do
      let a ← ra.bind toComparable
      let b ← rb.bind toComparable
      match cmpLE a b with | some x => .ok (.bool x) | none => .error .type
  | .gt => do
      let a ← ra.bind toComparable
      let b ← rb.bind toComparable
      match cmpLE a b with | some x => .ok (.bool (!x)) | none => .error .type
  | .ge => do
      let a ← ra.bind toComparable
      let b ← rb.bind toComparable
      match cmpLT a b with | some x => .ok (.bool (!x)) | none => .error .type
  | .add => do
      let a ← ra.bind toLong
      let b ← rb.bind toLong
      let (x, ok) := checkedAdd a b
      if ok then .ok (.long x) else .error .overflow
  | .sub => do
      let a ← ra.bind toLong
      let b ← rb.bind toLong
      let (x, ok) := checkedSub a b
      if ok then .ok (.long x) else .error .overflow
  | .mul => do
      let a ← ra.bind toLong
      let b ← rb.bind toLong
      let (x, ok) := checkedMul a b
      if ok then .ok (.long x) else .error .overflow
  | .in_ => do
      let a ← ra.bind toEntity
      let b ← rb
      doIn env a b
  | .contains => do
      let s ← ra.bind toSet
      let b ← rb
      .ok (.bool (b.memL s))
  | .containsAll => do
      let s ← ra.bind toSet
      let t ← rb.bind toSet
      .ok (.bool (t.all (fun x => x.memL s)))
  | .containsAny => do
      let s ← ra.bind toSet
      let t ← rb.bind toSet
      .ok (.bool (t.any (fun x => x.memL s)))
  | .getTag => do
      let u ← ra.bind toEntity
      if u == ("", "") then .error .unspecified else
      let t ← rb.bind toStr
      match env.entities.get u with
      | none => .error .entity
      | some d => match kvGet t d.tags with | some v => .ok v | none => .error .tag
  | .hasTag => do
      let u ← ra.bind toEntity
      let t ← rb.bind toStr
      match env.entities.get u with
      | none => .ok (.bool false)
      | some d => .ok (.bool (kvGet t d.tags).isSome)

theorem eval_binop (op : BinOp) (l r : Expr) (env : Env) :
    eval (.binop op l r) env = binSem op env (eval l env) (eval r env) := by
  cases op <;> rfl

theorem binSem_err_left (op : BinOp) (env : Env) (e : Err) (rb : Res) :
    binSem op env (.error e) rb = .error e := by
  cases op <;> rfl

/-- with the left operand fixed, two erroring right operands give agreeing results -/
theorem binSem_err_right (op : BinOp) (env : Env) (x : Value) (e1 e2 : Err) :
    R (binSem op env (.ok x) (.error e1)) (binSem op env (.ok x) (.error e2)) := by
  cases op <;> simp only [binSem, bind, Except.bind] <;>
    cases x <;> (try simp only [toBool, toLong, toComparable, toEntity, toSet, toStr, Except.bind]) <;>
    (try split) <;> (try simp [R])

/-- every operator except `&&` and `||` fails when its right operand fails -/
theorem binSem_strict_right (op : BinOp) (env : Env) (ra : Res) (e : Err)
    (h1 : op ≠ .and) (h2 : op ≠ .or) : ∃ k, binSem op env ra (.error e) = .error k := by
  cases ra with
  | error e' => exact ⟨e', binSem_err_left op env e' _⟩
  | ok x =>
    cases op <;> simp only [binSem, bind, Except.bind] <;> simp_all <;>
      cases x <;> simp [toBool, toLong, toComparable, toEntity, toSet, toStr, Except.bind] <;>
      (try split) <;> simp

theorem doIn_env (env env' : Env) (h : env.entities = env'.entities) (u : UID) (v : Value) :
    doIn env u v = doIn env' u v := by
  unfold doIn; rw [h]

theorem binSem_env (op : BinOp) (env env' : Env) (h : env.entities = env'.entities) (ra rb : Res) :
    binSem op env ra rb = binSem op env' ra rb := by
  cases op <;> simp only [binSem, h, doIn_env env env' h]

theorem binSem_congr (op : BinOp) (env : Env) {a a' b b' : Res} (ha : R a a') (hb : R b b') :
    R (binSem op env a b) (binSem op env a' b') := by
  cases a with
  | error e =>
    obtain ⟨k, rfl⟩ := R.err_left ha
    simp [binSem_err_left, R]
  | ok x =>
    have := R.ok_left ha; subst this
    cases b with
    | error e =>
      obtain ⟨k, rfl⟩ := R.err_left hb
      exact binSem_err_right op env x e k
    | ok y =>
      have := R.ok_left hb; subst this
      exact R.refl _

theorem unSem_congr (op : UnOp) {a a' : Res} (ha : R a a') : R (unSem op a) (unSem op a') := by
  cases a with
  | error e => obtain ⟨k, rfl⟩ := R.err_left ha; simp [unSem_err, R]
  | ok x => have := R.ok_left ha; subst this; exact R.refl _

def accessSem (env : Env) (ra : Res) (a : String) : Res := do
  let v ← ra
  match v with
  | .entity ty id =>
    if (ty, id) == ("", "") then .error .unspecified else
    match env.entities.get (ty, id) with
    | none => .error .entity
    | some d => match kvGet a d.attrs with | some x => .ok x | none => .error .attr
  | .record kvs => match kvGet a kvs with | some x => .ok x | none => .error .attr
  | _ => .error .type

theorem eval_access (e : Expr) (a : String) (env : Env) : eval (.access e a) env = accessSem env (eval e env) a := rfl

def hasSem (env : Env) (ra : Res) (a : String) : Res := do
  let v ← ra
  match v with
  | .entity ty id =>
    match env.entities.get (ty, id) with
    | none => .ok (.bool false)
    | some d => .ok (.bool (kvGet a d.attrs).isSome)
  | .record kvs => .ok (.bool (kvGet a kvs).isSome)
  | _ => .error .type

theorem eval_has (e : Expr) (a : String) (env : Env) : eval (.has e a) env = hasSem env (eval e env) a := rfl

def likeSem (ra : Res) (p : Pattern) : Res := do let s ← ra.bind toStr; .ok (.bool (Pattern.matches p s))
theorem eval_like (e : Expr) (p : Pattern) (env : Env) : eval (.like e p) env = likeSem (eval e env) p := rfl

def isSem (ra : Res) (ty : String) : Res := do let u ← ra.bind toEntity; .ok (.bool (u.1 == ty))
theorem eval_is (e : Expr) (ty : String) (env : Env) : eval (.is e ty) env = isSem (eval e env) ty := rfl

def isInSem (env : Env) (ty : String) (ra rb : Res) : Res := do
  let u ← ra.bind toEntity
  if u.1 != ty then .ok (.bool false) else
  let b ← rb
  doIn env u b
theorem eval_isIn (e : Expr) (ty : String) (r : Expr) (env : Env) :
    eval (.isIn e ty r) env = isInSem env ty (eval e env) (eval r env) := rfl

def iteSem (rc rt re : Res) : Res := do
  let b ← rc.bind toBool
  if b then rt else re
theorem eval_ite (c t e : Expr) (env : Env) : eval (.ite c t e) env = iteSem (eval c env) (eval t env) (eval e env) := rfl

theorem accessSem_err (env : Env) (e : Err) (a : String) : accessSem env (.error e) a = .error e := rfl
theorem hasSem_err (env : Env) (e : Err) (a : String) : hasSem env (.error e) a = .error e := rfl
theorem likeSem_err (e : Err) (p : Pattern) : likeSem (.error e) p = .error e := rfl
theorem isSem_err (e : Err) (ty : String) : isSem (.error e) ty = .error e := rfl
theorem isInSem_err_left (env : Env) (ty : String) (e : Err) (rb : Res) : isInSem env ty (.error e) rb = .error e := rfl
theorem iteSem_err (e : Err) (rt re : Res) : iteSem (.error e) rt re = .error e := rfl

theorem accessSem_env (env env' : Env) (h : env.entities = env'.entities) (ra : Res) (a : String) :
    accessSem env ra a = accessSem env' ra a := by simp only [accessSem, h]
theorem hasSem_env (env env' : Env) (h : env.entities = env'.entities) (ra : Res) (a : String) :
    hasSem env ra a = hasSem env' ra a := by simp only [hasSem, h]
theorem isInSem_env (env env' : Env) (h : env.entities = env'.entities) (ty : String) (ra rb : Res) :
    isInSem env ty ra rb = isInSem env' ty ra rb := by simp only [isInSem, doIn_env env env' h]

theorem iteSem_congr {c c' t t' e e' : Res} (hc : R c c') (ht : R t t') (he : R e e') :
    R (iteSem c t e) (iteSem c' t' e') := by
  cases c with
  | error k => obtain ⟨k', rfl⟩ := R.err_left hc; simp [iteSem_err, R]
  | ok x =>
    have := R.ok_left hc; subst this
    cases x <;> try (simp [iteSem, toBool, Except.bind, bind, R]; done)
    rename_i b; cases b
    · simpa [iteSem, toBool, Except.bind, bind] using he
    · simpa [iteSem, toBool, Except.bind, bind] using ht

theorem isInSem_congr (env : Env) (ty : String) {a a' b b' : Res} (ha : R a a') (hb : R b b') :
    R (isInSem env ty a b) (isInSem env ty a' b') := by
  cases a with
  | error k => obtain ⟨k', rfl⟩ := R.err_left ha; simp [isInSem_err_left, R]
  | ok x =>
    have := R.ok_left ha; subst this
    cases b with
    | ok y => have := R.ok_left hb; subst this; exact R.refl _
    | error k =>
      obtain ⟨k', rfl⟩ := R.err_left hb
      cases x <;> simp only [isInSem, toEntity, Except.bind, bind] <;> (try split) <;> simp [R]

/-! ## §4 substitution -/

mutual
/-- a value without unknowns is not touched by a completion -/
theorem substAll_clean (σ : String → Value) : ∀ v : Value, v.hasUnknown = false → v.substAll σ = v
  | .entity ty id, h => by
      simp only [Value.hasUnknown] at h
      simp [Value.substAll, h]
  | .record kvs, h => by
      simp only [Value.hasUnknown] at h
      simp [Value.substAll, substAllKVs_clean σ kvs h]
  | .set xs, h => by
      simp only [Value.hasUnknown] at h
      simp [Value.substAll, h]
  | .bool _, _ => rfl
  | .long _, _ => rfl
  | .str _, _ => rfl
  | .decimal _, _ => rfl
  | .datetime _, _ => rfl
  | .duration _, _ => rfl
  | .ip _, _ => rfl
theorem substAllKVs_clean (σ : String → Value) :
    ∀ kvs : List (String × Value), Value.hasUnknownKVs kvs = false → Value.substAllKVs σ kvs = kvs
  | [], _ => rfl
  | (k, x) :: rest, h => by
      simp only [Value.hasUnknownKVs, Bool.or_eq_false_iff] at h
      simp [Value.substAllKVs, substAll_clean σ x h.1, substAllKVs_clean σ rest h.2]
end

theorem kvGet_substAllKVs (σ : String → Value) (a : String) :
    ∀ kvs : List (String × Value), kvGet a (Value.substAllKVs σ kvs) = (kvGet a kvs).map (Value.substAll σ)
  | [] => rfl
  | (k, x) :: rest => by
      simp only [Value.substAllKVs, kvGet]
      split
      · rfl
      · exact kvGet_substAllKVs σ a rest

theorem substAll_entity_notVar (σ : String → Value) (ty id : String)
    (h : (Value.entity ty id).isVariable = false) : (Value.entity ty id).substAll σ = .entity ty id := by
  simp only [Value.isVariable] at h
  simp [Value.substAll, h]

/-! ## §4b completions, abstractly

  The soundness proof only uses three facts about the map `γ` that turns a value of the partial environment into the
  value it has in the completed environment.  `Value.substAll σ` (simultaneous completion, C06) and the successive
  single-variable substitutions of the batch enumeration (`substMany`, C05) both have them. -/

class Completion (γ : Value → Value) : Prop where
  /-- a value without unknowns is left alone -/
  clean : ∀ v : Value, v.hasUnknown = false → γ v = v
  /-- a record stays a record; attribute lookup commutes with completion -/
  record : ∀ kvs : List (String × Value), ∃ kvs', γ (.record kvs) = .record kvs' ∧ ∀ a, kvGet a kvs' = (kvGet a kvs).map γ
  /-- a set stays a set -/
  set : ∀ xs : List Value, ∃ ys, γ (.set xs) = .set ys

theorem Completion.entity {γ : Value → Value} [Completion γ] (ty id : String)
    (h : (Value.entity ty id).isVariable = false) : γ (.entity ty id) = .entity ty id :=
  Completion.clean _ (by simpa [Value.hasUnknown, Value.isVariable] using h)

theorem substAll_set_isSet (σ : String → Value) (xs : List Value) : ∃ ys, (Value.set xs).substAll σ = .set ys := by
  simp only [Value.substAll]
  split
  · exact ⟨_, rfl⟩
  · exact ⟨_, rfl⟩

instance completion_substAll (σ : String → Value) : Completion (Value.substAll σ) where
  clean := substAll_clean σ
  record kvs := ⟨Value.substAllKVs σ kvs, by simp [Value.substAll], fun a => kvGet_substAllKVs σ a kvs⟩
  set := substAll_set_isSet σ

instance completion_id : Completion id where
  clean _ _ := rfl
  record kvs := ⟨kvs, rfl, fun a => by cases kvGet a kvs <;> rfl⟩
  set xs := ⟨xs, rfl⟩

/-- completions compose -/
theorem Completion.comp {γ1 γ2 : Value → Value} (h1 : Completion γ1) (h2 : Completion γ2) :
    Completion (fun v => γ2 (γ1 v)) where
  clean v hv := by simp [h1.clean v hv, h2.clean v hv]
  record kvs := by
    obtain ⟨k1, e1, g1⟩ := h1.record kvs
    obtain ⟨k2, e2, g2⟩ := h2.record k1
    refine ⟨k2, by simp [e1, e2], fun a => ?_⟩
    rw [g2, g1]; cases kvGet a kvs <;> rfl
  set xs := by
    obtain ⟨y1, e1⟩ := h1.set xs
    obtain ⟨y2, e2⟩ := h2.set y1
    exact ⟨y2, by simp [e1, e2]⟩

/-! ## §5 the invariant -/

/-- what a result of `partialE envHat e` promises about `e` under the completed environment `env`:
    * a literal `v` (never the unknown itself): `e` evaluates to `v`, or to `v` with its unknowns completed
      (the latter only matters for values that merely contain unknowns, which only `.`/`has` may consume);
    * a residual expression: it agrees with `e`;
    * `errVariable`: nothing (every sound consumer keeps the original sub-expression);
    * an error: `e` fails under every completion. -/
def Sound (γ : Value → Value) (env : Env) (e : Expr) : PR → Prop
  | .ok (.lit v) => eval e env = .ok v ∨ (v.isVariable = false ∧ eval e env = .ok (γ v))
  | .ok e' => R (eval e' env) (eval e env)
  | .var _ => True
  | .ign => True
  | .err _ => ∃ k, eval e env = .error k

theorem Sound.ok_nonlit {γ : Value → Value} [Completion γ] {env : Env} {e e' : Expr} (h : e'.isLit = false) :
    Sound γ env e (.ok e') ↔ R (eval e' env) (eval e env) := by
  cases e' <;> simp_all [Sound, Expr.isLit]

theorem Sound.ok_lit {γ : Value → Value} [Completion γ] {env : Env} {e : Expr} {v : Value} :
    Sound γ env e (.ok (.lit v)) ↔
      (eval e env = .ok v ∨ (v.isVariable = false ∧ eval e env = .ok (γ v))) := by
  simp [Sound]

/-- a literal result consumed by an operator other than `.` / `has` has no unknown inside: `PR.whole` sees to that -/
def PR.cleanLit : PR → Bool
  | .ok (.lit v) => !v.hasUnknown
  | _ => true

theorem PR.whole_clean (p : PR) : p.whole.cleanLit = true := by
  cases p with
  | ok e =>
    cases e <;> simp [PR.whole, PR.cleanLit]
    rename_i v
    cases hi : v.ignInside <;> cases h : v.hasUnknown <;> simp [PR.cleanLit, h]
  | _ => rfl

theorem Sound.whole {γ : Value → Value} [Completion γ] {env : Env} {e : Expr} {p : PR} (h : Sound γ env e p) :
    Sound γ env e p.whole := by
  cases p with
  | ok e' =>
    cases e' <;> simp only [PR.whole] <;> try exact h
    split
    · trivial
    · split
      · trivial
      · exact h
  | _ => exact h

/-- a literal or residual that a non-access operator may consume agrees with the original -/
theorem Sound.toR {γ : Value → Value} [Completion γ] {env : Env} {e e' : Expr}
    (hs : Sound γ env e (.ok e')) (hc : (PR.ok e').cleanLit = true) : R (eval e' env) (eval e env) := by
  cases he : e'.isLit
  · exact (Sound.ok_nonlit he).mp hs
  · cases e' <;> simp [Expr.isLit] at he
    rename_i v
    simp only [PR.cleanLit, Bool.not_eq_true'] at hc
    rcases Sound.ok_lit.mp hs with h | ⟨_, h⟩
    · simp [eval, h, R]
    · simp [eval, h, Completion.clean v hc, R]

theorem isLit_iff {e : Expr} : e.isLit = true ↔ ∃ v, e = .lit v := by
  cases e <;> simp [Expr.isLit]

/-- the tail of `tryPartial`: `node` (the operator over literal children) is evaluated against the partial
    environment; it reads the environment through the store only, and agrees with the original under `env` -/
theorem finishVal_sound {γ : Value → Value} [Completion γ] {env envH : Env} {e node : Expr}
    (hclosed : eval node envH = eval node env) (hrel : R (eval node env) (eval e env)) :
    Sound γ env e (finishVal node (evalR node envH)) := by
  unfold finishVal evalR
  rw [hclosed]
  cases h : eval node env with
  | error k =>
    rw [h] at hrel
    simpa [Sound] using R.err_left hrel
  | ok w =>
    rw [h] at hrel
    have he := R.ok_left hrel
    simp only
    split
    · simp [Sound]
    · split
      · simp [Sound]
      · exact Sound.ok_lit.mpr (Or.inl he)

/-- a unary operator shape: how `tryPartial` sees `like`, `is`, `!`, `-`, `isEmpty` -/
structure Un (mk : Expr → Expr) (sem : Env → Res → Res) : Prop where
  eval_mk : ∀ x env, eval (mk x) env = sem env (eval x env)
  err : ∀ env e, sem env (.error e) = .error e
  envInd : ∀ env env', env.entities = env'.entities → ∀ a, sem env a = sem env' a
  notLit : ∀ x, (mk x).isLit = false

theorem Un.congr {mk : Expr → Expr} {sem : Env → Res → Res} (U : Un mk sem) (env : Env) {a a' : Res}
    (h : R a a') : R (sem env a) (sem env a') := by
  cases a with
  | error e => obtain ⟨k, rfl⟩ := R.err_left h; simp [U.err, R]
  | ok x => have := R.ok_left h; subst this; exact R.refl _

theorem combine1_sound {γ : Value → Value} [Completion γ] {env envH : Env} {mk : Expr → Expr} {sem : Env → Res → Res}
    (U : Un mk sem) (hent : envH.entities = env.entities) {e : Expr} {p : PR}
    (hs : Sound γ env e p) (hc : p.cleanLit = true) :
    Sound γ env (mk e) (combine1 e p mk (evalR · envH)) := by
  cases p with
  | err k =>
    obtain ⟨k', hk⟩ := hs
    exact ⟨k', by rw [U.eval_mk, hk, U.err]⟩
  | ign => trivial
  | var s => exact (Sound.ok_nonlit (U.notLit e)).mpr (R.refl _)
  | ok e' =>
    have hr := Sound.toR hs hc
    simp only [combine1]
    split
    · rename_i hl
      apply finishVal_sound
      · obtain ⟨v, rfl⟩ := isLit_iff.mp hl
        rw [U.eval_mk, U.eval_mk, U.envInd envH env hent]
        simp [eval]
      · rw [U.eval_mk, U.eval_mk]; exact U.congr env hr
    · exact (Sound.ok_nonlit (U.notLit e')).mpr (by rw [U.eval_mk, U.eval_mk]; exact U.congr env hr)

theorem un_unop (op : UnOp) : Un (.unop op) (fun _ a => unSem op a) :=
  ⟨fun x env => eval_unop op x env, fun _ e => unSem_err op e, fun _ _ _ _ => rfl, fun _ => rfl⟩
theorem un_like (p : Pattern) : Un (.like · p) (fun _ a => likeSem a p) :=
  ⟨fun x env => eval_like x p env, fun _ e => likeSem_err e p, fun _ _ _ _ => rfl, fun _ => rfl⟩
theorem un_is (ty : String) : Un (.is · ty) (fun _ a => isSem a ty) :=
  ⟨fun x env => eval_is x ty env, fun _ e => isSem_err e ty, fun _ _ _ _ => rfl, fun _ => rfl⟩

/-- a binary operator shape that fails whenever an operand fails -/
structure Bin (mk : Expr → Expr → Expr) (sem : Env → Res → Res → Res) : Prop where
  eval_mk : ∀ x y env, eval (mk x y) env = sem env (eval x env) (eval y env)
  errL : ∀ env e b, sem env (.error e) b = .error e
  congr : ∀ env a a' b b', R a a' → R b b' → R (sem env a b) (sem env a' b')
  envInd : ∀ env env', env.entities = env'.entities → ∀ a b, sem env a b = sem env' a b
  notLit : ∀ x y, (mk x y).isLit = false

theorem bin_binop (op : BinOp) : Bin (.binop op) (binSem op) :=
  ⟨fun x y env => eval_binop op x y env, fun env e b => binSem_err_left op env e b,
   fun env _ _ _ _ ha hb => binSem_congr op env ha hb, fun env env' h a b => binSem_env op env env' h a b, fun _ _ => rfl⟩

theorem bin_isIn (ty : String) : Bin (.isIn · ty ·) (fun env a b => isInSem env ty a b) :=
  ⟨fun x y env => eval_isIn x ty y env, fun env e b => isInSem_err_left env ty e b,
   fun env _ _ _ _ ha hb => isInSem_congr env ty ha hb, fun env env' h a b => isInSem_env env env' h ty a b, fun _ _ => rfl⟩

/-- the evaluated branch of `combine2` (both children literals) -/
theorem combine2_lits_sound {γ : Value → Value} [Completion γ] {env envH : Env} {mk : Expr → Expr → Expr}
    {sem : Env → Res → Res → Res} (B : Bin mk sem) (hent : envH.entities = env.entities) {l r : Expr} {a b : Value}
    (hl : R (eval (.lit a) env) (eval l env)) (hr : R (eval (.lit b) env) (eval r env)) :
    Sound γ env (mk l r) (finishVal (mk (.lit a) (.lit b)) (evalR (mk (.lit a) (.lit b)) envH)) := by
  apply finishVal_sound
  · rw [B.eval_mk, B.eval_mk, B.envInd envH env hent]; simp [eval]
  · rw [B.eval_mk, B.eval_mk]; exact B.congr env _ _ _ _ hl hr

/-- `tryPartial` over two children.  `herr`: when the right child fails (and the left one did not fail first),
    the whole node fails — true for every strict operator, and for `is … in` under its guard. -/
theorem combine2_sound {γ : Value → Value} [Completion γ] {env envH : Env} {mk : Expr → Expr → Expr}
    {sem : Env → Res → Res → Res} (B : Bin mk sem)
    (hent : envH.entities = env.entities) {l r : Expr} {p1 p2 : PR}
    (hs1 : Sound γ env l p1) (hc1 : p1.cleanLit = true) (hs2 : Sound γ env r p2) (hc2 : p2.cleanLit = true)
    (herr : ∀ k, p2 = .err k → (∀ k', p1 ≠ .err k') → p1 ≠ .ign → ∃ k, eval (mk l r) env = .error k) :
    Sound γ env (mk l r) (combine2 l r p1 p2 mk (evalR · envH)) := by
  cases p1 with
  | err k =>
    obtain ⟨k', hk⟩ := hs1
    exact ⟨k', by rw [B.eval_mk, hk, B.errL]⟩
  | ign => trivial
  | var s =>
    cases p2 with
    | err k => exact herr k rfl (by intro k' h; cases h) (by intro h; cases h)
    | ign => trivial
    | var s2 => exact (Sound.ok_nonlit (B.notLit l r)).mpr (R.refl _)
    | ok r' =>
      refine (Sound.ok_nonlit (B.notLit l r')).mpr ?_
      rw [B.eval_mk, B.eval_mk]; exact B.congr env _ _ _ _ (R.refl _) (Sound.toR hs2 hc2)
  | ok l' =>
    have hl := Sound.toR hs1 hc1
    cases p2 with
    | err k => exact herr k rfl (by intro k' h; cases h) (by intro h; cases h)
    | ign => trivial
    | var s2 =>
      refine (Sound.ok_nonlit (B.notLit l' r)).mpr ?_
      rw [B.eval_mk, B.eval_mk]; exact B.congr env _ _ _ _ hl (R.refl _)
    | ok r' =>
      have hr := Sound.toR hs2 hc2
      simp only [combine2]
      split
      · rename_i hb
        simp only [Bool.and_eq_true] at hb
        obtain ⟨a, rfl⟩ := isLit_iff.mp hb.1
        obtain ⟨b, rfl⟩ := isLit_iff.mp hb.2
        exact combine2_lits_sound B hent hl hr
      · refine (Sound.ok_nonlit (B.notLit l' r')).mpr ?_
        rw [B.eval_mk, B.eval_mk]; exact B.congr env _ _ _ _ hl hr

theorem eval_extError (env : Env) : eval extError env = .error .partialErr := by rfl

/-! ### literals that may contain unknowns: what a completion can and cannot change -/

/-- what `e` evaluates to when `partial` returned the literal `v` for it -/
theorem Sound.lit_eval {γ : Value → Value} [Completion γ] {env : Env} {e : Expr} {v : Value} (hs : Sound γ env e (.ok (.lit v))) :
    ∃ v', eval e env = .ok v' ∧ (v' = v ∨ (v.isVariable = false ∧ v' = γ v)) := by
  rcases Sound.ok_lit.mp hs with h | ⟨hv, h⟩
  · exact ⟨v, h, Or.inl rfl⟩
  · exact ⟨_, h, Or.inr ⟨hv, rfl⟩⟩

/-- a value that is not itself an unknown and not a container is an atom: completions leave it alone -/
theorem Completion.atom {γ : Value → Value} [Completion γ] (v : Value) (hv : v.isVariable = false)
    (hr : ∀ kvs, v ≠ .record kvs) (hs : ∀ xs, v ≠ .set xs) : γ v = v := by
  apply Completion.clean
  cases v with
  | entity ty id => simpa [Value.hasUnknown, Value.isVariable] using hv
  | record kvs => exact absurd rfl (hr kvs)
  | set xs => exact absurd rfl (hs xs)
  | _ => rfl

theorem lit_bool_eval {γ : Value → Value} [Completion γ] {env : Env} {e : Expr} {b : Bool}
    (hs : Sound γ env e (.ok (.lit (.bool b)))) : eval e env = .ok (.bool b) := by
  rcases Sound.ok_lit.mp hs with h | ⟨_, h⟩
  · exact h
  · rw [h, Completion.clean (γ := γ) (.bool b) rfl]

theorem lit_nonbool_eval {γ : Value → Value} [Completion γ] {env : Env} {e : Expr} {v : Value}
    (hs : Sound γ env e (.ok (.lit v))) (hv : ∀ b, v ≠ .bool b) : ∃ v', eval e env = .ok v' ∧ ∀ b, v' ≠ .bool b := by
  obtain ⟨v', h, h' | ⟨hnv, h'⟩⟩ := Sound.lit_eval hs
  · exact ⟨v', h, h' ▸ hv⟩
  · refine ⟨v', h, ?_⟩
    subst h'
    cases v with
    | bool b => exact absurd rfl (hv b)
    | record kvs => obtain ⟨kvs', hk, _⟩ := Completion.record (γ := γ) kvs; rw [hk]; intro b hb; cases hb
    | set xs => obtain ⟨ys, hys⟩ := Completion.set (γ := γ) xs; rw [hys]; intro b hb; cases hb
    | _ =>
      rw [Completion.atom (γ := γ) _ hnv (by intro kvs hb; cases hb) (by intro xs hb; cases hb)]
      intro b hb; cases hb

theorem lit_entity_eval {γ : Value → Value} [Completion γ] {env : Env} {e : Expr} {ty id : String}
    (hs : Sound γ env e (.ok (.lit (.entity ty id)))) : eval e env = .ok (.entity ty id) := by
  rcases Sound.ok_lit.mp hs with h | ⟨hv, h⟩
  · exact h
  · rw [h, Completion.entity (γ := γ) ty id hv]

theorem lit_nonentity_eval {γ : Value → Value} [Completion γ] {env : Env} {e : Expr} {v : Value}
    (hs : Sound γ env e (.ok (.lit v))) (hv : ∀ ty id, v ≠ .entity ty id) :
    ∃ v', eval e env = .ok v' ∧ ∀ ty id, v' ≠ .entity ty id := by
  obtain ⟨v', h, h' | ⟨hnv, h'⟩⟩ := Sound.lit_eval hs
  · exact ⟨v', h, h' ▸ hv⟩
  · refine ⟨v', h, ?_⟩
    subst h'
    cases v with
    | entity ty id => exact absurd rfl (hv ty id)
    | record kvs => obtain ⟨kvs', hk, _⟩ := Completion.record (γ := γ) kvs; rw [hk]; intro ty id hb; cases hb
    | set xs => obtain ⟨ys, hys⟩ := Completion.set (γ := γ) xs; rw [hys]; intro ty id hb; cases hb
    | _ =>
      rw [Completion.atom (γ := γ) _ hnv (by intro kvs hb; cases hb) (by intro xs hb; cases hb)]
      intro ty id hb; cases hb

/-- `partialAnd` / `partialOr` share their shape: `op` with the value `stop` on which the left operand decides -/
structure SC (op : BinOp) (stop : Bool) : Prop where
  left_stop : ∀ env rb, binSem op env (.ok (.bool stop)) rb = .ok (.bool stop)
  left_go_err : ∀ env e, binSem op env (.ok (.bool (!stop))) (.error e) = .error e
  left_nonbool : ∀ env v rb, (∀ b, v ≠ .bool b) → ∃ k, binSem op env (.ok v) rb = .error k

theorem sc_and : SC .and false :=
  ⟨fun _ _ => rfl, fun _ _ => rfl, fun _ v _ hv => by
    cases v <;> simp_all [binSem, toBool, bind, Except.bind]⟩
theorem sc_or : SC .or true :=
  ⟨fun _ _ => rfl, fun _ _ => rfl, fun _ v _ hv => by
    cases v <;> simp_all [binSem, toBool, bind, Except.bind]⟩

/-- the common tail of `partialAnd` / `partialOr`: `left` stands for the left operand, the right operand is embedded
    (its residual, an error node, or — when it reports `errVariable` or is a value containing an unknown — itself) -/
theorem scRest_sound {γ : Value → Value} [Completion γ] {env : Env} (op : BinOp) {l r left : Expr} {pr : PR}
    (hleft : R (eval left env) (eval l env)) (hs2 : Sound γ env r pr) :
    Sound γ env (.binop op l r) (scRest op left r pr) := by
  have hq := Sound.whole hs2
  have hcq := PR.whole_clean pr
  unfold scRest
  generalize pr.whole = q at hq hcq
  cases q with
  | ign => trivial
  | err k =>
    obtain ⟨k', hk⟩ := hq
    refine (Sound.ok_nonlit rfl).mpr ?_
    rw [eval_binop, eval_binop, eval_extError, hk]
    exact binSem_congr op env hleft (R.err_err _ _)
  | var s =>
    refine (Sound.ok_nonlit rfl).mpr ?_
    rw [eval_binop, eval_binop]
    exact binSem_congr op env hleft (R.refl _)
  | ok r' =>
    refine (Sound.ok_nonlit rfl).mpr ?_
    rw [eval_binop, eval_binop]
    exact binSem_congr op env hleft (Sound.toR hq hcq)

/-- left operand is the literal that lets the right operand decide: `tryPartialBinary(True, v.Right, newAndEval)` -/
theorem scGo_sound {γ : Value → Value} [Completion γ] {env envH : Env} (op : BinOp) (stop : Bool) (S : SC op stop)
    (hent : envH.entities = env.entities) {l r : Expr} {pr : PR}
    (hl : eval l env = .ok (.bool (!stop))) (hs2 : Sound γ env r pr) (hc2 : pr.cleanLit = true) :
    Sound γ env (.binop op l r)
      (combine2 (.lit (.bool (!stop))) r (.ok (.lit (.bool (!stop)))) pr (.binop op) (evalR · envH)) := by
  have hlit : R (eval (.lit (.bool (!stop))) env) (eval l env) := by simp [eval, hl, R]
  cases pr with
  | err k =>
    obtain ⟨k', hk⟩ := hs2
    exact ⟨k', by rw [eval_binop, hl, hk, S.left_go_err]⟩
  | ign => trivial
  | var s =>
    refine (Sound.ok_nonlit rfl).mpr ?_
    rw [eval_binop, eval_binop]; exact binSem_congr op env hlit (R.refl _)
  | ok r' =>
    have hr := Sound.toR hs2 hc2
    simp only [combine2]
    split
    · rename_i hb
      simp only [Expr.isLit, Bool.true_and] at hb
      obtain ⟨b, rfl⟩ := isLit_iff.mp hb
      exact combine2_lits_sound (bin_binop op) hent hlit hr
    · refine (Sound.ok_nonlit rfl).mpr ?_
      rw [eval_binop, eval_binop]; exact binSem_congr op env hlit hr

theorem lit_clean_eval {γ : Value → Value} [Completion γ] {env : Env} {e : Expr} {v : Value}
    (hs : Sound γ env e (.ok (.lit v))) (hc : (PR.ok (.lit v)).cleanLit = true) : eval e env = .ok v := by
  have := Sound.toR hs hc
  simp only [eval] at this
  exact R.ok_left this

theorem andStep_sound {γ : Value → Value} [Completion γ] {env envH : Env} (hent : envH.entities = env.entities) {l r : Expr} {pl pr : PR}
    (hs1 : Sound γ env l pl) (hs2 : Sound γ env r pr) :
    Sound γ env (.binop .and l r) (andStep envH l r pl pr) := by
  cases pl with
  | err k =>
    obtain ⟨k', hk⟩ := hs1
    exact ⟨k', by rw [eval_binop, hk, binSem_err_left]⟩
  | ign => trivial
  | var s => exact scRest_sound .and (R.refl _) hs2
  | ok l' =>
    cases hl : l'.isLit
    · -- residual left operand
      have : andStep envH l r (.ok l') pr = scRest .and l' r pr := by
        cases l' <;> simp_all [andStep, Expr.isLit]
      rw [this]
      exact scRest_sound .and ((Sound.ok_nonlit hl).mp hs1) hs2
    · obtain ⟨v, rfl⟩ := isLit_iff.mp hl
      cases v with
      | bool b =>
        have hev := lit_bool_eval hs1
        cases b
        · -- false: the conjunction is false
          simp only [andStep]
          exact Sound.ok_lit.mpr (Or.inl (by rw [eval_binop, hev]; exact sc_and.left_stop env _))
        · simp only [andStep]
          exact scGo_sound .and false sc_and hent (by simpa using hev) (Sound.whole hs2) (PR.whole_clean pr)
      | _ =>
        obtain ⟨v', hev, hnb⟩ := lit_nonbool_eval hs1 (by intro b hb; cases hb)
        simp only [andStep, Sound]
        rw [eval_binop, hev]; exact sc_and.left_nonbool env _ _ hnb

theorem orStep_sound {γ : Value → Value} [Completion γ] {env envH : Env} (hent : envH.entities = env.entities) {l r : Expr} {pl pr : PR}
    (hs1 : Sound γ env l pl) (hs2 : Sound γ env r pr) :
    Sound γ env (.binop .or l r) (orStep envH l r pl pr) := by
  cases pl with
  | err k =>
    obtain ⟨k', hk⟩ := hs1
    exact ⟨k', by rw [eval_binop, hk, binSem_err_left]⟩
  | ign => trivial
  | var s => exact scRest_sound .or (R.refl _) hs2
  | ok l' =>
    cases hl : l'.isLit
    · have : orStep envH l r (.ok l') pr = scRest .or l' r pr := by
        cases l' <;> simp_all [orStep, Expr.isLit]
      rw [this]
      exact scRest_sound .or ((Sound.ok_nonlit hl).mp hs1) hs2
    · obtain ⟨v, rfl⟩ := isLit_iff.mp hl
      cases v with
      | bool b =>
        have hev := lit_bool_eval hs1
        cases b
        · simp only [orStep]
          exact scGo_sound .or true sc_or hent (by simpa using hev) (Sound.whole hs2) (PR.whole_clean pr)
        · simp only [orStep]
          exact Sound.ok_lit.mpr (Or.inl (by rw [eval_binop, hev]; exact sc_or.left_stop env _))
      | _ =>
        obtain ⟨v', hev, hnb⟩ := lit_nonbool_eval hs1 (by intro b hb; cases hb)
        simp only [orStep, Sound]
        rw [eval_binop, hev]; exact sc_or.left_nonbool env _ _ hnb

/-- `combine2` for the operators that fail whenever their right operand fails (everything but `&&`, `||`, `is…in`) -/
theorem combine2_strict_sound {γ : Value → Value} [Completion γ] {env envH : Env} (op : BinOp) (h1 : op ≠ .and) (h2 : op ≠ .or)
    (hent : envH.entities = env.entities) {l r : Expr} {p1 p2 : PR}
    (hs1 : Sound γ env l p1) (hc1 : p1.cleanLit = true) (hs2 : Sound γ env r p2) (hc2 : p2.cleanLit = true) :
    Sound γ env (.binop op l r) (combine2 l r p1 p2 (.binop op) (evalR · envH)) := by
  apply combine2_sound (bin_binop op) hent hs1 hc1 hs2 hc2
  intro k hk _ _
  subst hk
  obtain ⟨k', hk'⟩ := hs2
  rw [eval_binop, hk']
  exact binSem_strict_right op env _ _ h1 h2

theorem Sound.transfer {γ : Value → Value} [Completion γ] {env : Env} {e1 e2 : Expr} {p : PR}
    (h : eval e1 env = eval e2 env) (hs : Sound γ env e2 p) : Sound γ env e1 p := by
  cases p with
  | ok e' => cases e' <;> simp_all [Sound]
  | _ => simp_all [Sound]

/-! ### `is … in` -/

/-- while the type test is undecided the right-hand side is embedded (residual, error node, or itself) -/
theorem isInRest_sound {γ : Value → Value} [Completion γ] {env : Env} (ty : String) {l r left : Expr} {pr : PR}
    (hleft : R (eval left env) (eval l env)) (hs2 : Sound γ env r pr) :
    Sound γ env (.isIn l ty r) (isInRest left ty r pr) := by
  have hq := Sound.whole hs2
  have hcq := PR.whole_clean pr
  unfold isInRest
  generalize pr.whole = q at hq hcq
  cases q with
  | ign => trivial
  | err k =>
    obtain ⟨k', hk⟩ := hq
    refine (Sound.ok_nonlit rfl).mpr ?_
    rw [eval_isIn, eval_isIn, eval_extError, hk]
    exact isInSem_congr env ty hleft (R.err_err _ _)
  | var s =>
    refine (Sound.ok_nonlit rfl).mpr ?_
    rw [eval_isIn, eval_isIn]
    exact isInSem_congr env ty hleft (R.refl _)
  | ok r' =>
    refine (Sound.ok_nonlit rfl).mpr ?_
    rw [eval_isIn, eval_isIn]
    exact isInSem_congr env ty hleft (Sound.toR hq hcq)

theorem lit_self_sound (γ : Value → Value) [Completion γ] (env : Env) (v : Value) : Sound γ env (.lit v) (.ok (.lit v)) :=
  Sound.ok_lit.mpr (Or.inl rfl)

theorem isInStep_sound {γ : Value → Value} [Completion γ] {env envH : Env} (ty : String)
    (hent : envH.entities = env.entities) {l r : Expr} {pl pr : PR}
    (hs1 : Sound γ env l pl) (hs2 : Sound γ env r pr) :
    Sound γ env (.isIn l ty r) (isInStep envH ty l r pl pr) := by
  cases pl with
  | err k =>
    obtain ⟨k', hk⟩ := hs1
    exact ⟨k', by rw [eval_isIn, hk, isInSem_err_left]⟩
  | ign => trivial
  | var s => exact isInRest_sound ty (R.refl _) hs2
  | ok l' =>
    cases hl : l'.isLit
    · have : isInStep envH ty l r (.ok l') pr = isInRest l' ty r pr := by
        cases l' <;> simp_all [isInStep, Expr.isLit]
      rw [this]
      exact isInRest_sound ty ((Sound.ok_nonlit hl).mp hs1) hs2
    · obtain ⟨v, rfl⟩ := isLit_iff.mp hl
      cases v with
      | entity ty' id =>
        have hev := lit_entity_eval hs1
        simp only [isInStep]
        split
        · -- the type test fails: false, whatever the right-hand side does
          rename_i hne
          refine Sound.ok_lit.mpr (Or.inl ?_)
          rw [eval_isIn, hev]
          simp [isInSem, toEntity, bind, Except.bind, hne]
        · -- the type test passes: strict in the right-hand side
          rename_i hne
          have hty : ty' = ty := by simpa using hne
          have htr : eval (.isIn l ty r) env = eval (.isIn (.lit (.entity ty' id)) ty r) env := by
            rw [eval_isIn, eval_isIn, hev]; simp [eval]
          refine Sound.transfer htr ?_
          apply combine2_sound (bin_isIn ty) hent (Sound.whole (lit_self_sound γ env _)) (PR.whole_clean _)
            (Sound.whole hs2) (PR.whole_clean pr)
          intro k hk _ _
          have hq := Sound.whole hs2
          rw [hk] at hq
          obtain ⟨k', hk'⟩ := hq
          refine ⟨k', ?_⟩
          rw [eval_isIn, hk']
          simp [eval, isInSem, toEntity, bind, Except.bind, hty]
      | _ =>
        obtain ⟨v', hev, hne⟩ := lit_nonentity_eval hs1 (by intro ty id hb; cases hb)
        simp only [isInStep, Sound]
        rw [eval_isIn, hev]
        cases v' <;> first | exact absurd rfl (hne _ _) | exact ⟨.type, rfl⟩

/-! ### if-then-else -/

/-- a branch of `partialIfThenElse` under a residual condition -/
theorem branch_sound {γ : Value → Value} [Completion γ] {env : Env} {t : Expr} {pt : PR}
    (hs : Sound γ env t pt) :
    ∀ t', branchNode t pt = some t' → R (eval t' env) (eval t env) := by
  intro t' ht
  have hq := Sound.whole hs
  have hcq := PR.whole_clean pt
  unfold branchNode at ht
  generalize pt.whole = q at hq hcq ht
  cases q with
  | ign => simp at ht
  | err k =>
    simp only [Option.some.injEq] at ht; subst ht
    obtain ⟨k', hk⟩ := hq
    rw [eval_extError, hk]; exact R.err_err _ _
  | var s =>
    simp only [Option.some.injEq] at ht; subst ht
    exact R.refl _
  | ok x =>
    simp only [Option.some.injEq] at ht; subst ht
    exact Sound.toR hq hcq

theorem iteRest_sound {γ : Value → Value} [Completion γ] {env : Env} {c t e c' : Expr} {pt pe : PR}
    (hc : R (eval c' env) (eval c env))
    (hst : Sound γ env t pt) (hse : Sound γ env e pe) :
    Sound γ env (.ite c t e) (iteRest c' t e pt pe) := by
  unfold iteRest
  cases hbt : branchNode t pt with
  | none => trivial
  | some t' =>
    cases hbe : branchNode e pe with
    | none => trivial
    | some e' =>
      refine (Sound.ok_nonlit rfl).mpr ?_
      rw [eval_ite, eval_ite]
      exact iteSem_congr hc (branch_sound hst t' hbt) (branch_sound hse e' hbe)

theorem iteStep_sound {γ : Value → Value} [Completion γ] {env : Env} {c t e : Expr} {pc pt pe : PR}
    (hsc : Sound γ env c pc) (hst : Sound γ env t pt) (hse : Sound γ env e pe) :
    Sound γ env (.ite c t e) (iteStep c t e pc pt pe) := by
  cases pc with
  | err k =>
    obtain ⟨k', hk⟩ := hsc
    exact ⟨k', by rw [eval_ite, hk, iteSem_err]⟩
  | ign => trivial
  | var s => exact iteRest_sound (R.refl _) hst hse
  | ok c' =>
    cases hl : c'.isLit
    · have : iteStep c t e (.ok c') pt pe = iteRest c' t e pt pe := by
        cases c' <;> simp_all [iteStep, Expr.isLit]
      rw [this]
      exact iteRest_sound ((Sound.ok_nonlit hl).mp hsc) hst hse
    · obtain ⟨v, rfl⟩ := isLit_iff.mp hl
      cases v with
      | bool b =>
        have hev := lit_bool_eval hsc
        cases b
        · simp only [iteStep]
          exact Sound.transfer (by rw [eval_ite, hev]; rfl) hse
        · simp only [iteStep]
          exact Sound.transfer (by rw [eval_ite, hev]; rfl) hst
      | _ =>
        obtain ⟨v', hev, hnb⟩ := lit_nonbool_eval hsc (by intro b hb; cases hb)
        simp only [iteStep, Sound]
        rw [eval_ite, hev]
        cases v' <;> first | exact absurd rfl (hnb _) | exact ⟨.type, rfl⟩

/-! ### attribute access and `has`: the only consumers of values that merely contain unknowns -/

theorem access_lit_sound {γ : Value → Value} [Completion γ] {env envH : Env} (hent : envH.entities = env.entities)
    {e : Expr} {v : Value} (a : String)
    (h : eval e env = .ok v ∨ (v.isVariable = false ∧ eval e env = .ok (γ v))) :
    Sound γ env (.access e a) (finishVal (.access (.lit v) a) (evalR (.access (.lit v) a) envH)) := by
  have left : eval e env = .ok v →
      Sound γ env (.access e a) (finishVal (.access (.lit v) a) (evalR (.access (.lit v) a) envH)) := by
    intro h
    apply finishVal_sound
    · rw [eval_access, eval_access, accessSem_env envH env hent]; simp only [eval]
    · rw [eval_access, eval_access, h]; exact R.refl _
  rcases h with h | ⟨hv, h⟩
  · exact left h
  · cases v with
    | record kvs =>
      obtain ⟨kvs', hk, hget⟩ := Completion.record (γ := γ) kvs
      unfold finishVal evalR
      have hE : eval (.access e a) env =
          (match kvGet a kvs with | some x => .ok (γ x) | none => .error .attr) := by
        rw [eval_access, h, hk]
        simp only [accessSem, bind, Except.bind, hget]
        cases kvGet a kvs <;> rfl
      have hH : eval (.access (.lit (.record kvs)) a) envH =
          (match kvGet a kvs with | some x => .ok x | none => .error .attr) := by
        rw [eval_access]; simp only [eval, accessSem, bind, Except.bind]
      rw [hH]
      cases hk2 : kvGet a kvs with
      | none => simp only [Sound]; rw [hE, hk2]; exact ⟨_, rfl⟩
      | some x =>
        simp only
        split
        · trivial
        · split
          · trivial
          · rename_i hxv _
            exact Sound.ok_lit.mpr (Or.inr ⟨by simpa using hxv, by rw [hE, hk2]⟩)
    | set xs =>
      obtain ⟨ys, hys⟩ := Completion.set (γ := γ) xs
      unfold finishVal evalR
      have hH : eval (.access (.lit (.set xs)) a) envH = .error .type := by rfl
      rw [hH]
      simp only [Sound]
      exact ⟨.type, by rw [eval_access, h, hys]; rfl⟩
    | _ =>
      exact left (by rw [h, Completion.atom (γ := γ) _ hv (by intro kvs hb; cases hb) (by intro xs hb; cases hb)])

theorem access_sound {γ : Value → Value} [Completion γ] {env envH : Env} (hent : envH.entities = env.entities)
    {e : Expr} {p : PR} (a : String) (hs : Sound γ env e p) :
    Sound γ env (.access e a) (combine1 e p (.access · a) (evalR · envH)) := by
  cases p with
  | err k =>
    obtain ⟨k', hk⟩ := hs
    exact ⟨k', by rw [eval_access, hk, accessSem_err]⟩
  | ign => trivial
  | var s => exact (Sound.ok_nonlit rfl).mpr (R.refl _)
  | ok e' =>
    simp only [combine1]
    split
    · rename_i hl
      obtain ⟨v, rfl⟩ := isLit_iff.mp hl
      exact access_lit_sound hent a (Sound.ok_lit.mp hs)
    · rename_i hl
      have hl' : e'.isLit = false := by simpa using hl
      refine (Sound.ok_nonlit rfl).mpr ?_
      have hr := (Sound.ok_nonlit hl').mp hs
      rw [eval_access, eval_access]
      cases h1 : eval e' env with
      | error k => rw [h1] at hr; obtain ⟨k', hk'⟩ := R.err_left hr; rw [hk']; exact R.err_err _ _
      | ok x => rw [h1] at hr; rw [R.ok_left hr]; exact R.refl _

/-- `partialHasEval` over a literal: ignore marker, or exactly what `has` evaluates to -/
theorem hasStep_spec (env : Env) (v : Value) (a : String) :
    hasStep env v a = .ign ∨ hasStep env v a = evalR (.has (.lit v) a) env := by
  unfold hasStep evalR
  cases v with
  | entity ty id =>
    simp only [eval_has, eval, hasSem, bind, Except.bind]
    cases env.entities.get (ty, id) with
    | none => right; rfl
    | some d =>
      simp only
      cases kvGet a d.attrs with
      | none => right; rfl
      | some x => simp only; split <;> simp
  | record kvs =>
    simp only [eval_has, eval, hasSem, bind, Except.bind]
    cases kvGet a kvs with
    | none => right; rfl
    | some x => simp only; split <;> simp
  | _ => right; rfl

theorem has_lit_sound {γ : Value → Value} [Completion γ] {env envH : Env} (hent : envH.entities = env.entities)
    {e : Expr} {v : Value} (a : String)
    (h : eval e env = .ok v ∨ (v.isVariable = false ∧ eval e env = .ok (γ v))) :
    Sound γ env (.has e a) (finishVal (.has (.lit v) a) (hasStep envH v a)) := by
  rcases hasStep_spec envH v a with hi | hi
  · rw [hi]; trivial
  · rw [hi]
    have left : eval e env = .ok v →
        Sound γ env (.has e a) (finishVal (.has (.lit v) a) (evalR (.has (.lit v) a) envH)) := by
      intro h
      apply finishVal_sound
      · rw [eval_has, eval_has, hasSem_env envH env hent]; simp only [eval]
      · rw [eval_has, eval_has, h]; exact R.refl _
    rcases h with h | ⟨hv, h⟩
    · exact left h
    · cases v with
      | record kvs =>
        obtain ⟨kvs', hk, hget⟩ := Completion.record (γ := γ) kvs
        apply finishVal_sound
        · rw [eval_has, eval_has, hasSem_env envH env hent]; simp only [eval]
        · rw [eval_has, eval_has, h, hk]
          simp only [eval, hasSem, bind, Except.bind, hget]
          cases kvGet a kvs <;> exact R.refl _
      | set xs =>
        obtain ⟨ys, hys⟩ := Completion.set (γ := γ) xs
        apply finishVal_sound
        · rw [eval_has, eval_has, hasSem_env envH env hent]; simp only [eval]
        · rw [eval_has, eval_has, h, hys]; exact R.refl _
      | _ =>
        exact left (by rw [h, Completion.atom (γ := γ) _ hv (by intro kvs hb; cases hb) (by intro xs hb; cases hb)])

theorem has_sound {γ : Value → Value} [Completion γ] {env envH : Env} (hent : envH.entities = env.entities)
    {e : Expr} {p : PR} (a : String) (hs : Sound γ env e p) :
    Sound γ env (.has e a)
      (combine1 e p (.has · a) (fun n => match n with | .has (.lit v) _ => hasStep envH v a | _ => .err .panic)) := by
  cases p with
  | err k =>
    obtain ⟨k', hk⟩ := hs
    exact ⟨k', by rw [eval_has, hk, hasSem_err]⟩
  | ign => trivial
  | var s => exact (Sound.ok_nonlit rfl).mpr (R.refl _)
  | ok e' =>
    simp only [combine1]
    split
    · rename_i hl
      obtain ⟨v, rfl⟩ := isLit_iff.mp hl
      exact has_lit_sound hent a (Sound.ok_lit.mp hs)
    · rename_i hl
      have hl' : e'.isLit = false := by simpa using hl
      refine (Sound.ok_nonlit rfl).mpr ?_
      have hr := (Sound.ok_nonlit hl').mp hs
      rw [eval_has, eval_has]
      cases h1 : eval e' env with
      | error k => rw [h1] at hr; obtain ⟨k', hk'⟩ := R.err_left hr; rw [hk']; exact R.err_err _ _
      | ok x => rw [h1] at hr; rw [R.ok_left hr]; exact R.refl _

/-! ### request variables and literals -/

theorem var_sound (σ : String → Value) (envH : Env) (x : Var) :
    Sound (Value.substAll σ) (completeEnv σ envH) (.var x) (finishVal (.var x) (evalR (.var x) envH)) := by
  unfold finishVal evalR
  cases x <;> simp only [eval] <;> (split; · trivial) <;> (split; · trivial) <;>
    (rename_i hv _; exact Sound.ok_lit.mpr (Or.inr ⟨by simpa using hv, rfl⟩))

theorem lit_sound (γ : Value → Value) [Completion γ] (env : Env) (v : Value) : Sound γ env (.lit v) (.ok (.lit v)) :=
  Sound.ok_lit.mpr (Or.inl rfl)

/-! ### n-ary nodes: set and record literals, extension calls -/

/-- agreement of list-valued results -/
def RL {α : Type} : Except Err α → Except Err α → Prop
  | .ok a, .ok b => a = b
  | .error _, .error _ => True
  | _, _ => False

theorem RL.refl {α : Type} (a : Except Err α) : RL a a := by cases a <;> simp [RL]

/-- the rebuilt children agree with the original children, position by position -/
inductive Pointwise (env : Env) : List Expr → List Expr → Prop
  | nil : Pointwise env [] []
  | cons {n e : Expr} {ns es : List Expr} :
      R (eval n env) (eval e env) → Pointwise env ns es → Pointwise env (n :: ns) (e :: es)

theorem Pointwise.length_eq {env : Env} {ns es : List Expr} (h : Pointwise env ns es) : ns.length = es.length := by
  induction h with
  | nil => rfl
  | cons _ _ ih => simp [ih]

theorem evalList_congr (env : Env) {ns es : List Expr} (h : Pointwise env ns es) :
    RL (evalList ns env) (evalList es env) := by
  induction h with
  | nil => simp [evalList, RL]
  | @cons n e ns es hne _ ih =>
    simp only [evalList, bind, Except.bind]
    cases hn : eval n env with
    | error k => rw [hn] at hne; obtain ⟨k', hk'⟩ := R.err_left hne; rw [hk']; simp [RL]
    | ok v =>
      rw [hn] at hne; rw [R.ok_left hne]
      simp only
      cases h1 : evalList ns env <;> cases h2 : evalList es env <;> simp_all [RL]

theorem evalTyped_congr (env : Env) {ns es : List Expr} (h : Pointwise env ns es) :
    ∀ ks, RL (evalTyped ns ks env) (evalTyped es ks env) := by
  induction h with
  | nil => intro ks; simp [evalTyped, RL]
  | @cons n e ns es hne _ ih =>
    intro ks
    simp only [evalTyped, bind, Except.bind]
    cases hn : eval n env with
    | error k => rw [hn] at hne; obtain ⟨k', hk'⟩ := R.err_left hne; rw [hk']; simp [RL]
    | ok v =>
      rw [hn] at hne; rw [R.ok_left hne]
      simp only
      cases checkKind (ks.headD .any) v with
      | error k => simp [RL]
      | ok u =>
        simp only
        have := ih ks.tail
        cases h1 : evalTyped ns ks.tail env <;> cases h2 : evalTyped es ks.tail env <;> simp_all [RL]

/-- the children `ns` and `es` rebuilt over the keys of `kes`, position by position -/
def zipKVs : List (String × Expr) → List Expr → List Expr → List (String × (Expr × Expr))
  | (k, _) :: kes, n :: ns, e :: es => (k, (n, e)) :: zipKVs kes ns es
  | _, _, _ => []

theorem zipKVs_spec (env : Env) : ∀ (kes : List (String × Expr)) {ns es : List Expr}, Pointwise env ns es →
    rebuildKVs kes ns = (zipKVs kes ns es).map (fun z => (z.1, z.2.1)) ∧
    rebuildKVs kes es = (zipKVs kes ns es).map (fun z => (z.1, z.2.2)) ∧
    ∀ z ∈ zipKVs kes ns es, R (eval z.2.1 env) (eval z.2.2 env)
  | [], _, _, h => by cases h <;> simp [rebuildKVs, zipKVs]
  | (k, x) :: kes, _, _, .nil => by simp [rebuildKVs, zipKVs]
  | (k, x) :: kes, _, _, .cons hne htl => by
    obtain ⟨h1, h2, h3⟩ := zipKVs_spec env kes htl
    refine ⟨by simp [rebuildKVs, zipKVs, h1], by simp [rebuildKVs, zipKVs, h2], ?_⟩
    intro z hz
    simp only [zipKVs, List.mem_cons] at hz
    rcases hz with rfl | hz
    · exact hne
    · exact h3 z hz

theorem evalKVs_congr_map (env : Env) : ∀ (L : List (String × (Expr × Expr))),
    (∀ z ∈ L, R (eval z.2.1 env) (eval z.2.2 env)) →
    RL (evalKVs (L.map (fun z => (z.1, z.2.1))) env) (evalKVs (L.map (fun z => (z.1, z.2.2))) env)
  | [], _ => by simp [evalKVs, RL]
  | (k, (n, e)) :: L, h => by
    have hne : R (eval n env) (eval e env) := h (k, (n, e)) (by simp)
    have ih := evalKVs_congr_map env L (fun z hz => h z (by simp [hz]))
    simp only [List.map_cons, evalKVs, bind, Except.bind]
    cases hn : eval n env with
    | error k => rw [hn] at hne; obtain ⟨k', hk'⟩ := R.err_left hne; rw [hk']; simp [RL]
    | ok v =>
      rw [hn] at hne; rw [R.ok_left hne]
      simp only
      cases h1 : evalKVs (L.map (fun z => (z.1, z.2.1))) env <;> cases h2 : evalKVs (L.map (fun z => (z.1, z.2.2))) env <;>
        simp_all [RL]

/-- a record literal over children that agree position by position: both evaluate the same positions (the last entry of
    every key) in the same (key) order -/
theorem evalRecord_congr (env : Env) (kes : List (String × Expr)) {ns es : List Expr} (h : Pointwise env ns es) :
    RL (evalKVs (canonKVs (rebuildKVs kes ns)) env) (evalKVs (canonKVs (rebuildKVs kes es)) env) := by
  obtain ⟨h1, h2, h3⟩ := zipKVs_spec env kes h
  rw [h1, h2, canonKVs_map (fun p : Expr × Expr => p.1), canonKVs_map (fun p : Expr × Expr => p.2)]
  exact evalKVs_congr_map env _ (fun z hz => h3 z (canonKVs_subset _ z hz))

theorem evalList_strict (env : Env) : ∀ es : List Expr, (∃ e ∈ es, ∃ k, eval e env = .error k) → ∃ k, evalList es env = .error k
  | [], h => by simp at h
  | e :: es, h => by
    simp only [evalList, bind, Except.bind]
    cases he : eval e env with
    | error k => exact ⟨k, rfl⟩
    | ok v =>
      obtain ⟨e', hmem, k, hk⟩ := h
      rcases List.mem_cons.mp hmem with rfl | hmem
      · rw [he] at hk; cases hk
      · obtain ⟨k', hk'⟩ := evalList_strict env es ⟨e', hmem, k, hk⟩
        exact ⟨k', by simp [hk']⟩

theorem evalTyped_strict (env : Env) : ∀ (es : List Expr) (ks : List Kind),
    (∃ e ∈ es, ∃ k, eval e env = .error k) → ∃ k, evalTyped es ks env = .error k
  | [], _, h => by simp at h
  | e :: es, ks, h => by
    simp only [evalTyped, bind, Except.bind]
    cases he : eval e env with
    | error k => exact ⟨k, rfl⟩
    | ok v =>
      simp only
      cases checkKind (ks.headD .any) v with
      | error k => exact ⟨k, rfl⟩
      | ok u =>
        obtain ⟨e', hmem, k, hk⟩ := h
        rcases List.mem_cons.mp hmem with rfl | hmem
        · rw [he] at hk; cases hk
        · obtain ⟨k', hk'⟩ := evalTyped_strict env es ks.tail ⟨e', hmem, k, hk⟩
          exact ⟨k', by simp [hk']⟩

theorem rebuildKVs_keys : ∀ (kes : List (String × Expr)) (es : List Expr), es.length = kes.length →
    (rebuildKVs kes es).map (·.1) = kes.map (·.1)
  | [], [], _ => rfl
  | [], _ :: _, hl => by simp at hl
  | _ :: _, [], hl => by simp at hl
  | (k0, _) :: kes, e :: es, hl => by simp [rebuildKVs, rebuildKVs_keys kes es (by simpa using hl)]

theorem rebuildKVs_mem : ∀ (kes : List (String × Expr)) (es : List Expr), es.length = kes.length →
    ∀ e ∈ es, ∃ k, (k, e) ∈ rebuildKVs kes es
  | [], [], _, e, h => by cases h
  | [], _ :: _, hl, _, _ => by simp at hl
  | _ :: _, [], hl, _, _ => by simp at hl
  | (k0, _) :: kes, e0 :: es, hl, e, h => by
    rcases List.mem_cons.mp h with rfl | h
    · exact ⟨k0, by simp [rebuildKVs]⟩
    · obtain ⟨k, hk⟩ := rebuildKVs_mem kes es (by simpa using hl) e h
      exact ⟨k, by simp [rebuildKVs, hk]⟩

theorem keysNodup_iff : ∀ (kes : List (String × Expr)), keysNodup kes = true ↔ (kes.map (·.1)).Nodup
  | [] => by simp [keysNodup]
  | (k, e) :: kes => by
    simp only [keysNodup, Bool.and_eq_true, Bool.not_eq_true', List.map_cons, List.nodup_cons, keysNodup_iff kes]
    constructor
    · rintro ⟨h1, h2⟩
      refine ⟨?_, h2⟩
      intro hm
      obtain ⟨kv, hkv, hk⟩ := List.mem_map.mp hm
      have : (kes.any fun kv => kv.1 == k) = true := List.any_eq_true.mpr ⟨kv, hkv, by simp [hk]⟩
      rw [this] at h1; cases h1
    · rintro ⟨h1, h2⟩
      refine ⟨?_, h2⟩
      cases hany : kes.any fun kv => kv.1 == k with
      | false => rfl
      | true =>
        obtain ⟨kv, hkv, hk⟩ := List.any_eq_true.mp hany
        exact absurd (List.mem_map.mpr ⟨kv, hkv, by simpa using hk⟩) h1

/-- with distinct keys every entry of a record literal is evaluated: an erroring child makes the literal fail -/
theorem evalRecord_strict (env : Env) (kes : List (String × Expr)) (hk : keysNodup kes = true) (es : List Expr)
    (hl : es.length = kes.length) (h : ∃ e ∈ es, ∃ k, eval e env = .error k) :
    ∃ k, evalKVs (canonKVs (rebuildKVs kes es)) env = .error k := by
  obtain ⟨e, hmem, k, hek⟩ := h
  obtain ⟨key, hkey⟩ := rebuildKVs_mem kes es hl e hmem
  have hnd : ((rebuildKVs kes es).map (·.1)).Nodup := by
    rw [rebuildKVs_keys kes es hl]; exact (keysNodup_iff kes).mp hk
  have hc : (key, e) ∈ canonKVs (rebuildKVs kes es) := (canonKVs_mem_iff _ hnd _).mpr hkey
  exact evalKVs_error_of_mem _ env (key, e) k hc hek

theorem c06_evalList_lits (env env' : Env) : ∀ ns : List Expr, (∀ n ∈ ns, n.isLit = true) → evalList ns env = evalList ns env'
  | [], _ => rfl
  | n :: ns, h => by
    obtain ⟨v, rfl⟩ := isLit_iff.mp (h n (by simp))
    simp only [evalList, eval, c06_evalList_lits env env' ns (fun x hx => h x (by simp [hx]))]

theorem c06_evalTyped_lits (env env' : Env) : ∀ (ns : List Expr) (ks : List Kind), (∀ n ∈ ns, n.isLit = true) →
    evalTyped ns ks env = evalTyped ns ks env'
  | [], _, _ => rfl
  | n :: ns, ks, h => by
    obtain ⟨v, rfl⟩ := isLit_iff.mp (h n (by simp))
    simp only [evalTyped, eval, c06_evalTyped_lits env env' ns ks.tail (fun x hx => h x (by simp [hx]))]

theorem rebuildKVs_lits : ∀ (kes : List (String × Expr)) (ns : List Expr), (∀ n ∈ ns, n.isLit = true) →
    ∀ ke ∈ rebuildKVs kes ns, ke.2.isLit = true
  | [], _, _, ke, h => by simp [rebuildKVs] at h
  | _ :: _, [], _, ke, h => by simp [rebuildKVs] at h
  | (k, _) :: kes, n :: ns, hn, ke, h => by
    simp only [rebuildKVs, List.mem_cons] at h
    rcases h with rfl | h
    · exact hn n (by simp)
    · exact rebuildKVs_lits kes ns (fun x hx => hn x (by simp [hx])) ke h

theorem c06_evalRecord_lits (env env' : Env) (kes : List (String × Expr)) (ns : List Expr) (h : ∀ n ∈ ns, n.isLit = true) :
    eval (.record (rebuildKVs kes ns)) env = eval (.record (rebuildKVs kes ns)) env' := by
  apply eval_recordLit_congr
  apply List.map_congr_left
  intro ke hke
  obtain ⟨v, hv⟩ := isLit_iff.mp (rebuildKVs_lits kes ns h ke hke)
  simp only [hv, eval]

/-- an n-ary node shape over `len` children -/
structure Nary (len : Nat) (node : List Expr → Expr) : Prop where
  congr : ∀ env ns es, Pointwise env ns es → R (eval (node ns) env) (eval (node es) env)
  strict : ∀ env es, es.length = len → (∃ e ∈ es, ∃ k, eval e env = .error k) → ∃ k, eval (node es) env = .error k
  closed : ∀ env env' ns, (∀ n ∈ ns, n.isLit = true) → eval (node ns) env = eval (node ns) env'
  notLit : ∀ ns, (node ns).isLit = false

theorem R_of_RL_bind {α : Type} {a b : Except Err α} (f : α → Res) (h : RL a b) : R (a.bind f) (b.bind f) := by
  cases a <;> cases b <;> simp_all [RL, Except.bind, R]
  exact R.refl _

theorem eval_set (es : List Expr) (env : Env) : eval (.set es) env = (evalList es env).bind (fun vs => .ok (mkSet vs)) := rfl

theorem nary_set (len : Nat) : Nary len .set where
  congr env ns es h := by rw [eval_set, eval_set]; exact R_of_RL_bind _ (evalList_congr env h)
  strict env es _ h := by
    obtain ⟨k, hk⟩ := evalList_strict env es h
    exact ⟨k, by rw [eval_set, hk]; rfl⟩
  closed env env' ns h := by rw [eval_set, eval_set, c06_evalList_lits env env' ns h]
  notLit _ := rfl

theorem nary_record (kes : List (String × Expr)) (hk : keysNodup kes = true) :
    Nary kes.length (fun ns => .record (rebuildKVs kes ns)) where
  congr env ns es h := by rw [eval_recordLit, eval_recordLit]; exact R_of_RL_bind _ (evalRecord_congr env kes h)
  strict env es hl h := by
    obtain ⟨k, hk⟩ := evalRecord_strict env kes hk es hl h
    exact ⟨k, by rw [eval_recordLit, hk]; rfl⟩
  closed env env' ns h := c06_evalRecord_lits env env' kes ns h
  notLit _ := rfl

/-- `newExtensionEval` as a function of how the arguments evaluate -/
def callSem (fn : String) (n : Nat) (args : List Kind → Except Err (List Value)) : Res :=
  if fn == partialErrorName && n == 1 then
    (do let _ ← args [.str]; .error .partialErr)
  else
  match extLookup fn with
  | none => .error .unknownFn
  | some (arity, _) =>
    if arity != n then .error .arity else
    do let vs ← args (extSig fn); callExt fn vs

theorem eval_call (fn : String) (args : List Expr) (env : Env) :
    eval (.call fn args) env = callSem fn args.length (fun ks => evalTyped args ks env) := by
  simp only [eval, callSem]
  rfl

theorem callSem_congr (fn : String) (n : Nat) {f g : List Kind → Except Err (List Value)} (h : ∀ ks, RL (f ks) (g ks)) :
    R (callSem fn n f) (callSem fn n g) := by
  unfold callSem
  split
  · have := h [.str]
    cases h1 : f [.str] <;> cases h2 : g [.str] <;> simp_all [RL, bind, Except.bind, R]
  · split
    · exact R.refl _
    · split
      · exact R.refl _
      · exact R_of_RL_bind _ (h _)

theorem callSem_strict (fn : String) (n : Nat) {f : List Kind → Except Err (List Value)} (h : ∀ ks, ∃ k, f ks = .error k) :
    ∃ k, callSem fn n f = .error k := by
  unfold callSem
  split
  · obtain ⟨k, hk⟩ := h [.str]; exact ⟨k, by simp [hk, bind, Except.bind]⟩
  · split
    · exact ⟨_, rfl⟩
    · split
      · exact ⟨_, rfl⟩
      · obtain ⟨k, hk⟩ := h (extSig fn); exact ⟨k, by simp [hk, bind, Except.bind]⟩

theorem nary_call (len : Nat) (fn : String) : Nary len (.call fn) where
  congr env ns es h := by
    rw [eval_call, eval_call, Pointwise.length_eq h]
    exact callSem_congr fn _ (evalTyped_congr env h)
  strict env es _ h := by
    rw [eval_call]; exact callSem_strict fn _ (fun ks => evalTyped_strict env es ks h)
  closed env env' ns h := by
    rw [eval_call, eval_call]
    congr 1; funext ks; exact c06_evalTyped_lits env env' ns ks h
  notLit _ := rfl

/-- what the `tryPartial` loop promises about the children `es` -/
def SoundL (env : Env) (es : List Expr) : LoopR → Prop
  | .fail (.err _) => ∃ e ∈ es, ∃ k, eval e env = .error k
  | .fail .ign => True
  | .fail (.var _) => True
  | .fail (.ok _) => False
  | .done ns b => Pointwise env ns es ∧ (b = true → ∀ n ∈ ns, n.isLit = true)

theorem SoundL.weaken {env : Env} {e : Expr} {es : List Expr} {q : PR} (h : SoundL env es (.fail q)) :
    SoundL env (e :: es) (.fail q) := by
  cases q with
  | err k => obtain ⟨e', hm, hk⟩ := h; exact ⟨e', by simp [hm], hk⟩
  | ign => trivial
  | var s => trivial
  | ok x => exact h.elim

theorem consR_sound {γ : Value → Value} [Completion γ] {env : Env} {e : Expr} {es : List Expr} {p : PR} {rest : LoopR}
    (hs : Sound γ env e p) (hc : p.cleanLit = true) (hl : SoundL env es rest) :
    SoundL env (e :: es) (consR e p rest) := by
  cases p with
  | err k => obtain ⟨k', hk⟩ := hs; exact ⟨e, by simp, k', hk⟩
  | ign => trivial
  | var s =>
    cases rest with
    | fail q => exact SoundL.weaken hl
    | done ns b => exact ⟨Pointwise.cons (R.refl _) hl.1, by intro h; cases h⟩
  | ok e' =>
    cases rest with
    | fail q => exact SoundL.weaken hl
    | done ns b =>
      refine ⟨Pointwise.cons (Sound.toR hs hc) hl.1, ?_⟩
      intro hb n hn
      simp only [Bool.and_eq_true] at hb
      rcases List.mem_cons.mp hn with rfl | hn
      · exact hb.1
      · exact hl.2 hb.2 n hn

theorem finishList_sound {γ : Value → Value} [Completion γ] {env envH : Env} {len : Nat} {node : List Expr → Expr} (N : Nary len node)
    {es : List Expr} (hlen : es.length = len) {loop : LoopR} (hl : SoundL env es loop) :
    Sound γ env (node es) (finishList loop node (evalR · envH)) := by
  cases loop with
  | fail q =>
    cases q with
    | err k => exact N.strict env es hlen hl
    | ign => trivial
    | var s => trivial
    | ok x => exact hl.elim
  | done ns b =>
    cases b with
    | true =>
      simp only [finishList]
      exact finishVal_sound (N.closed envH env ns (hl.2 rfl)) (N.congr env ns es hl.1)
    | false =>
      simp only [finishList]
      exact (Sound.ok_nonlit (N.notLit ns)).mpr (N.congr env ns es hl.1)

theorem rebuildKVs_self : ∀ kes : List (String × Expr), rebuildKVs kes (kes.map (·.2)) = kes
  | [] => rfl
  | (k, e) :: kes => by simp [rebuildKVs, rebuildKVs_self kes]

/-! ## the main theorem: `partialE` is sound — for every expression -/

/-- `env` is a completion of `envH` as far as expressions can tell: same store, and every request variable
    evaluates consistently with what `partial` computes for it -/
structure CompletesVia (γ : Value → Value) (envH env : Env) : Prop where
  ent : envH.entities = env.entities
  var : ∀ x, Sound γ env (.var x) (finishVal (.var x) (evalR (.var x) envH))

theorem completesVia_complete (σ : String → Value) (envH : Env) :
    CompletesVia (Value.substAll σ) envH (completeEnv σ envH) :=
  ⟨rfl, var_sound σ envH⟩

theorem completesVia_ignore (σ : String → Value) (ι : Var → Value) (envH : Env) :
    CompletesVia (Value.substAll σ) envH (completeEnvI σ ι envH) := by
  refine ⟨rfl, ?_⟩
  intro x
  unfold finishVal evalR
  cases x <;> simp only [eval] <;> (split; · trivial) <;> (split; · trivial) <;>
    (rename_i hv hi
     exact Sound.ok_lit.mpr (Or.inr ⟨by simpa using hv, by simp [eval, completeEnvI, hi]⟩))

def envPart (v : Var) (env : Env) : Value :=
  match v with
  | .principal => env.principal | .action => env.action | .resource => env.resource | .context => env.context

/-- any environment whose request parts are the completed parts of `envH` (and whose store is the same) -/
theorem completesVia_of_parts {γ : Value → Value} [Completion γ] {envH env : Env} (hent : envH.entities = env.entities)
    (hparts : ∀ x, eval (.var x) env = .ok (γ (envPart x envH))) : CompletesVia γ envH env := by
  refine ⟨hent, ?_⟩
  intro x
  have hx := hparts x
  unfold finishVal evalR
  cases x <;> simp only [eval, envPart] at hx ⊢ <;> (split; · trivial) <;> (split; · trivial) <;>
    (rename_i hv _; exact Sound.ok_lit.mpr (Or.inr ⟨by simpa using hv, by simpa [eval] using hx⟩))

mutual
theorem partialE_sound {γ : Value → Value} [Completion γ] {envH env : Env} (C : CompletesVia γ envH env) :
    ∀ e : Expr, e.recKeysDistinct = true → Sound γ env e (partialE envH e)
  | .lit v, _ => by
      simpa only [partialE] using lit_sound γ env v
  | .var x, _ => by
      simpa only [partialE] using C.var x
  | .unop op e, hk => by
      simp only [Expr.recKeysDistinct] at hk
      simp only [partialE]
      exact combine1_sound (un_unop op) C.ent (Sound.whole (partialE_sound C e hk)) (PR.whole_clean _)
  | .binop op l r, hk => by
      simp only [Expr.recKeysDistinct, Bool.and_eq_true] at hk
      cases op
      case and =>
        simp only [partialE]
        exact andStep_sound C.ent (partialE_sound C l hk.1) (partialE_sound C r hk.2)
      case or =>
        simp only [partialE]
        exact orStep_sound C.ent (partialE_sound C l hk.1) (partialE_sound C r hk.2)
      all_goals
        simp only [partialE]
        refine combine2_strict_sound _ ?_ ?_ C.ent
          (Sound.whole (partialE_sound C l hk.1)) (PR.whole_clean _) (Sound.whole (partialE_sound C r hk.2)) (PR.whole_clean _) <;> decide
  | .ite c t e, hk => by
      simp only [Expr.recKeysDistinct, Bool.and_eq_true] at hk
      simp only [partialE]
      exact iteStep_sound (partialE_sound C c hk.1.1) (partialE_sound C t hk.1.2) (partialE_sound C e hk.2)
  | .access e a, hk => by
      simp only [Expr.recKeysDistinct] at hk
      simp only [partialE]
      exact access_sound C.ent a (partialE_sound C e hk)
  | .has e a, hk => by
      simp only [Expr.recKeysDistinct] at hk
      simp only [partialE]
      exact has_sound C.ent a (partialE_sound C e hk)
  | .like e p, hk => by
      simp only [Expr.recKeysDistinct] at hk
      simp only [partialE]
      exact combine1_sound (un_like p) C.ent (Sound.whole (partialE_sound C e hk)) (PR.whole_clean _)
  | .is e ty, hk => by
      simp only [Expr.recKeysDistinct] at hk
      simp only [partialE]
      exact combine1_sound (un_is ty) C.ent (Sound.whole (partialE_sound C e hk)) (PR.whole_clean _)
  | .isIn e ty r, hk => by
      simp only [Expr.recKeysDistinct, Bool.and_eq_true] at hk
      simp only [partialE]
      exact isInStep_sound ty C.ent (partialE_sound C e hk.1) (partialE_sound C r hk.2)
  | .set es, hk => by
      simp only [Expr.recKeysDistinct] at hk
      simp only [partialE]
      exact finishList_sound (envH := envH) (nary_set es.length) rfl (partialList_sound C es hk)
  | .record kes, hk => by
      simp only [Expr.recKeysDistinct, Bool.and_eq_true] at hk
      simp only [partialE]
      have := finishList_sound (γ := γ) (env := env) (envH := envH) (nary_record kes hk.1) (es := kes.map (·.2)) (by simp)
        (partialKVs_sound C kes hk.2)
      simpa only [rebuildKVs_self] using this
  | .call fn args, hk => by
      simp only [Expr.recKeysDistinct] at hk
      simp only [partialE]
      exact finishList_sound (envH := envH) (nary_call args.length fn) rfl (partialList_sound C args hk)
theorem partialList_sound {γ : Value → Value} [Completion γ] {envH env : Env} (C : CompletesVia γ envH env) :
    ∀ es : List Expr, recKeysDistinctL es = true → SoundL env es (partialList envH es)
  | [], _ => by simp [partialList, SoundL, Pointwise.nil]
  | e :: es, hk => by
      simp only [recKeysDistinctL, Bool.and_eq_true] at hk
      simp only [partialList]
      exact consR_sound (Sound.whole (partialE_sound C e hk.1)) (PR.whole_clean _) (partialList_sound C es hk.2)
theorem partialKVs_sound {γ : Value → Value} [Completion γ] {envH env : Env} (C : CompletesVia γ envH env) :
    ∀ kes : List (String × Expr), recKeysDistinctKVs kes = true → SoundL env (kes.map (·.2)) (partialKVs envH kes)
  | [], _ => by simp [partialKVs, SoundL, Pointwise.nil]
  | (k, e) :: kes, hk => by
      simp only [recKeysDistinctKVs, Bool.and_eq_true] at hk
      simp only [partialKVs, List.map_cons]
      exact consR_sound (Sound.whole (partialE_sound C e hk.1)) (PR.whole_clean _) (partialKVs_sound C kes hk.2)
end

end CedarGo
