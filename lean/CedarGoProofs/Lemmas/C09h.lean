/-
  C09: the identifications preserve meaning (on the fragment where `normE` only rewrites decimal / ip
  literal values into constructor calls).
-/
import CedarGoProofs.Lemmas.C09g
import CedarGoProofs.Properties.C04
namespace CedarGo.JsonModel
open CedarGo CedarGo.Scalars

/-! ### `sortKV` is the identity on strictly key-sorted lists (generic version of `mkRecord_sorted`) -/

def belowAll {α : Type} (k : String) : List (String × α) → Prop
  | [] => True
  | (k', _) :: rest => k' < k ∧ belowAll k rest

theorem insKV_above {α : Type} (k : String) (v : α) : ∀ (l : List (String × α)), belowAll k l → insKV k v l = l ++ [(k, v)]
  | [], _ => rfl
  | (k', v') :: rest, h => by
    obtain ⟨h1, h2⟩ := h
    have hn : ¬ k < k' := String.lt_asymm h1
    have hne : (k == k') = false := by
      simp only [beq_eq_false_iff_ne, ne_eq]
      exact fun e => String.ne_of_lt h1 e.symm
    simp only [insKV, hn, if_false, hne, Bool.false_eq_true, List.cons_append]
    rw [insKV_above k v rest h2]

theorem belowAll_append {α : Type} (k : String) : ∀ (l : List (String × α)) (x : String × α),
    belowAll k l → x.1 < k → belowAll k (l ++ [x])
  | [], _, _, hx => ⟨hx, trivial⟩
  | (_, _) :: rest, x, h, hx => ⟨h.1, belowAll_append k rest x h.2 hx⟩

theorem belowAll_mono {α : Type} {k k' : String} (hk : k < k') : ∀ (l : List (String × α)), belowAll k l → belowAll k' l
  | [], _ => trivial
  | (_, _) :: rest, h => ⟨String.lt_trans h.1 hk, belowAll_mono hk rest h.2⟩

def strictKeys {α : Type} : List (String × α) → Bool
  | [] => true
  | [_] => true
  | (k, _) :: (k', v') :: rest => decide (k < k') && strictKeys ((k', v') :: rest)

theorem foldl_insKV_sorted {α : Type} : ∀ (xs acc : List (String × α)),
    strictKeys xs = true → (∀ x, xs.head? = some x → belowAll x.1 acc) →
    xs.foldl (fun a kv => insKV kv.1 kv.2 a) acc = acc ++ xs
  | [], acc, _, _ => by simp
  | [x], acc, _, hb => by
    simp only [List.foldl]
    rw [insKV_above x.1 x.2 acc (hb x rfl)]
  | x :: y :: rest, acc, hs, hb => by
    simp only [strictKeys, Bool.and_eq_true, decide_eq_true_eq] at hs
    simp only [List.foldl]
    rw [insKV_above x.1 x.2 acc (hb x rfl)]
    have := foldl_insKV_sorted (y :: rest) (acc ++ [x]) hs.2 (by
      intro z hz
      simp only [List.head?_cons, Option.some.injEq] at hz
      subst hz
      exact belowAll_append _ acc x (belowAll_mono hs.1 acc (hb x rfl)) hs.1)
    simp only [List.foldl] at this
    rw [this]; simp

theorem sortKV_sorted {α : Type} (kvs : List (String × α)) (h : strictKeys kvs = true) : sortKV kvs = kvs := by
  simp only [sortKV]
  rw [foldl_insKV_sorted kvs [] h (fun _ _ => trivial)]
  simp

/-- `sortKV` (the JSON tree's key order) is the order in which a record literal evaluates its entries -/
theorem insKV_eq_insKey {α : Type} (k : String) (v : α) (l : List (String × α)) : insKV k v l = insKey k v l := by
  induction l with
  | nil => rfl
  | cons kv rest ih => obtain ⟨k', v'⟩ := kv; simp only [insKV, insKey, ih]

theorem sortKV_eq_canonKVs {α : Type} (kvs : List (String × α)) : sortKV kvs = canonKVs kvs := by
  simp only [sortKV, canonKVs, insKV_eq_insKey]

theorem normKEs_eq_map (kes : List (String × Expr)) : normKEs kes = kes.map (fun ke => (ke.1, normE ke.2)) := by
  induction kes with
  | nil => simp [normKEs]
  | cons ke kes ih => obtain ⟨k, e⟩ := ke; simp only [normKEs, List.map_cons, ih]

/-! ### the fragment -/

mutual
/-- expressions on which `normE` changes nothing but decimal / ip literal values (whose text form parses back) and
    the listing order of record entries (a record literal evaluates its entries in key order whatever order they are
    listed in — since the repair of `recordLiteralEval.Eval`): patterns already in `NewPattern` normal form -/
def semNormalE : Expr → Bool
  | .lit (.decimal d) => okEq (parseDecimal (printDecimal d)) d
  | .lit (.ip a) => okEqIP (parseIP (printIPNet a)) a
  | .lit _ => true
  | .var _ => true
  | .unop _ e => semNormalE e
  | .binop _ l r => semNormalE l && semNormalE r
  | .ite c t e => semNormalE c && semNormalE t && semNormalE e
  | .access e _ => semNormalE e
  | .has e _ => semNormalE e
  | .like e p => semNormalE e && decide (normPattern p = p)
  | .is e _ => semNormalE e
  | .isIn e _ r => semNormalE e && semNormalE r
  | .set es => semNormalEs es
  | .record kes => semNormalKEs kes
  | .call _ args => semNormalEs args
def semNormalEs : List Expr → Bool
  | [] => true
  | e :: es => semNormalE e && semNormalEs es
def semNormalKEs : List (String × Expr) → Bool
  | [] => true
  | (_, e) :: kes => semNormalE e && semNormalKEs kes
end

theorem strictKeys_normKEs : ∀ (kes : List (String × Expr)), strictKeys kes = true → strictKeys (normKEs kes) = true
  | [], _ => rfl
  | [(k, e)], _ => by simp [normKEs, strictKeys]
  | (k, e) :: (k', e') :: rest, h => by
    simp only [strictKeys, Bool.and_eq_true, decide_eq_true_eq] at h
    have ih := strictKeys_normKEs ((k', e') :: rest) h.2
    simp only [normKEs] at ih ⊢
    simp only [strictKeys, Bool.and_eq_true, decide_eq_true_eq]
    exact ⟨h.1, ih⟩

theorem normEs_length : ∀ (es : List Expr), (normEs es).length = es.length
  | [] => rfl
  | e :: es => by simp [normEs, normEs_length es]

theorem eval_decimal_call (d : Int) (env : Env) (h : parseDecimal (printDecimal d) = .ok d) :
    eval (.call "decimal" [.lit (.str (printDecimal d))]) env = .ok (.decimal d) := by
  have h1 : ("decimal" == partialErrorName) = false := by decide
  have h2 : extLookup "decimal" = some (1, false) := by decide +kernel
  have h3 : extSig "decimal" = [.str] := by decide +kernel
  simp [eval, h1, h2, h3, evalTyped, checkKind, callExt, h, bind, Except.bind, Except.map]

theorem eval_ip_call (a : IPNet) (env : Env) (h : parseIP (printIPNet a) = .ok a) :
    eval (.call "ip" [.lit (.str (printIPNet a))]) env = .ok (.ip a) := by
  have h1 : ("ip" == partialErrorName) = false := by decide
  have h2 : extLookup "ip" = some (1, false) := by decide +kernel
  have h3 : extSig "ip" = [.str] := by decide +kernel
  have h4 : ("ip" == "decimal") = false := by decide
  have h5 : ("ip" == "datetime") = false := by decide
  have h6 : ("ip" == "duration") = false := by decide
  simp [eval, h1, h2, h3, h4, h5, h6, evalTyped, checkKind, callExt, h, bind, Except.bind, Except.map]

mutual
theorem eval_normE (e : Expr) (env : Env) (h : semNormalE e = true) : eval (normE e) env = eval e env := by
  cases e with
  | lit v =>
    cases v with
    | decimal d => simp only [semNormalE] at h; simp only [normE, eval_decimal_call d env (okEq_ok h), eval]
    | ip a => simp only [semNormalE] at h; simp only [normE, eval_ip_call a env (okEqIP_ok h), eval]
    | _ => simp only [normE]
  | var v => simp only [normE]
  | unop op e =>
    simp only [semNormalE] at h
    have ih := eval_normE e env h
    cases op <;> simp only [normE, eval, ih]
  | binop op l r =>
    simp only [semNormalE, Bool.and_eq_true] at h
    have ihl := eval_normE l env h.1
    have ihr := eval_normE r env h.2
    cases op <;> simp only [normE, eval, ihl, ihr]
  | ite c t e =>
    simp only [semNormalE, Bool.and_eq_true] at h
    simp only [normE, eval, eval_normE c env h.1.1, eval_normE t env h.1.2, eval_normE e env h.2]
  | access e a => simp only [semNormalE] at h; simp only [normE, eval, eval_normE e env h]
  | has e a => simp only [semNormalE] at h; simp only [normE, eval, eval_normE e env h]
  | like e p =>
    simp only [semNormalE, Bool.and_eq_true, decide_eq_true_eq] at h
    simp only [normE, eval, eval_normE e env h.1, h.2]
  | is e ty => simp only [semNormalE] at h; simp only [normE, eval, eval_normE e env h]
  | isIn e ty r =>
    simp only [semNormalE, Bool.and_eq_true] at h
    simp only [normE, eval, eval_normE e env h.1, eval_normE r env h.2]
  | set es => simp only [semNormalE] at h; simp only [normE, eval, evalList_normEs es env h]
  | record kes =>
    simp only [semNormalE] at h
    have ih := evalKVs_normKEs kes env h
    simp only [normE]
    rw [sortKV_eq_canonKVs, eval_recordLit_canon, normKEs_eq_map]
    exact eval_recordLit_map normE kes env ih
  | call fn args =>
    simp only [semNormalE] at h
    simp only [normE, eval, normEs_length, evalTyped_normEs args _ env h]
theorem evalList_normEs (es : List Expr) (env : Env) (h : semNormalEs es = true) : evalList (normEs es) env = evalList es env := by
  cases es with
  | nil => rfl
  | cons e es =>
    simp only [semNormalEs, Bool.and_eq_true] at h
    simp only [normEs, evalList, eval_normE e env h.1, evalList_normEs es env h.2]
theorem evalKVs_normKEs (kes : List (String × Expr)) (env : Env) (h : semNormalKEs kes = true) :
    ∀ ke ∈ kes, eval (normE ke.2) env = eval ke.2 env := by
  cases kes with
  | nil => intro ke hke; cases hke
  | cons ke kes =>
    obtain ⟨k, e⟩ := ke
    simp only [semNormalKEs, Bool.and_eq_true] at h
    intro ke' hke
    rcases List.mem_cons.mp hke with hke | hke
    · rw [hke]; exact eval_normE e env h.1
    · exact evalKVs_normKEs kes env h.2 ke' hke
theorem evalTyped_normEs (es : List Expr) (ks : List Kind) (env : Env) (h : semNormalEs es = true) :
    evalTyped (normEs es) ks env = evalTyped es ks env := by
  cases es with
  | nil => rfl
  | cons e es =>
    simp only [semNormalEs, Bool.and_eq_true] at h
    simp only [normEs, evalTyped, eval_normE e env h.1, evalTyped_normEs es ks.tail env h.2]
end

/-- the policy as JSON carries it is satisfied exactly when the original is (same value or same error kind) -/
theorem normP_preserves (p : Policy) (env : Env) (h : p.conditions.all (fun c => semNormalE c.2) = true) :
    evalBool (policyToExpr (normP p)) env = evalBool (policyToExpr p) env := by
  unfold evalBool
  congr 1
  unfold policyToExpr normP
  simp only [List.map_map]
  generalize hs : (if p.principal.isAll && p.action.isAll && p.resource.isAll then [Expr.lit (.bool true)]
      else (if p.principal.isAll then [] else [scopeToExpr .principal p.principal])
        ++ (if p.action.isAll then [] else [scopeToExpr .action p.action])
        ++ (if p.resource.isAll then [] else [scopeToExpr .resource p.resource])) = scopes
  have hcond : ∀ c ∈ p.conditions, eval (condToExpr (c.1, normE c.2)) env = eval (condToExpr c) env := by
    intro c hc
    have hn : semNormalE c.2 = true := by
      simp only [List.all_eq_true] at h; exact h c hc
    unfold condToExpr
    split
    · exact eval_normE c.2 env hn
    · simp only [eval, eval_normE c.2 env hn]
  have hall : ∀ (l1 l2 : List Expr), l1.length = l2.length →
      (∀ i (h1 : i < l1.length) (h2 : i < l2.length), eval l1[i] env = eval l2[i] env) →
      eval (match l1 with | [] => .lit (.bool true) | e :: rest => andAll e rest) env =
      eval (match l2 with | [] => .lit (.bool true) | e :: rest => andAll e rest) env := by
    intro l1 l2 hlen h
    cases l1 with
    | nil => cases l2 with
      | nil => rfl
      | cons _ _ => simp at hlen
    | cons a as => cases l2 with
      | nil => simp at hlen
      | cons b bs =>
        simp only
        apply eval_andAll_congr
        · have := h 0 (by simp) (by simp)
          simpa only [List.getElem_cons_zero] using this
        · simpa using hlen
        · intro i h1 h2
          have := h (i + 1) (by simp; omega) (by simp; omega)
          simpa using this
  apply hall
  · simp
  · intro i h1 h2
    by_cases hi : i < scopes.length
    · simp [List.getElem_append_left, hi]
    · have hi' : scopes.length ≤ i := by omega
      simp only [List.getElem_append_right hi', List.getElem_map, Function.comp]
      exact hcond _ (List.getElem_mem _)

end CedarGo.JsonModel
