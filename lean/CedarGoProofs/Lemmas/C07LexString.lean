/-
  C07 ∘ C18 bridge, part 4: `scanHexDigits`, `scanEscape`, `scanString` on configurations: a string body in
  the sense of `StrBody` is consumed exactly up to its closing quote.
-/
import CedarGoProofs.Lemmas.C07LexLoops
namespace CedarGo.Text
open Lx

theorem hexLoop_cfg (doc : List UInt8) (ts : Option Nat) (pos : Pos) :
    ∀ (ds : List Char) (rem n k : Nat) (X : List Char), (∀ d ∈ ds, isHexChar d = true) →
      (ds.length = rem ∨ (ds.length < rem ∧ headIs isHexChar X = false)) → NoNul (ds ++ X) →
      hexLoop pureSrc rem n (cfg doc k ts pos (ds ++ X)).1 (cfg doc k ts pos (ds ++ X)).2
        = (n + ds.length, cfg doc (k + blen ds) ts pos X) := by
  intro ds
  induction ds with
  | nil =>
    intro rem n k X _ hr _
    cases rem with
    | zero => simp [hexLoop, blen_nil]
    | succ rem =>
      have hX : headIs isHexChar X = false := by
        rcases hr with h | h
        · simp at h
        · exact h.2
      have : Lx.isHexadecimal (cfg doc k ts pos X).1 = false := by
        cases X with
        | nil => rfl
        | cons c X => simp only [cfg_fst_cons, isHexadecimal_char]; exact hX
      simp only [List.nil_append, hexLoop, this, Bool.false_eq_true, if_false, blen_nil, List.length_nil, Nat.add_zero]
  | cons d ds ih =>
    intro rem n k X hds hr hn
    obtain ⟨rem, rfl⟩ : ∃ r, rem = r + 1 := ⟨rem - 1, by simp at hr; omega⟩
    have : Lx.isHexadecimal (cfg doc k ts pos (d :: ds ++ X)).1 = true := by
      simp only [List.cons_append, cfg_fst_cons, isHexadecimal_char]; exact hds d List.mem_cons_self
    simp only [hexLoop, this, if_true]
    rw [List.cons_append, next_cfg doc k ts pos d (ds ++ X) hn.tail]
    rw [ih rem (n + 1) _ X (fun x hx => hds x (List.mem_cons_of_mem _ hx)) (by simp at hr; omega) hn.tail]
    rw [blen_cons, List.length_cons]
    congr 1
    · omega
    · rw [Nat.add_assoc]

theorem scanHexDigits_cfg (doc : List UInt8) (ts : Option Nat) (pos : Pos) (ds : List Char) (mn mx k : Nat) (X : List Char)
    (hds : ∀ d ∈ ds, isHexChar d = true) (h1 : mn ≤ ds.length) (h2 : ds.length ≤ mx)
    (hX : ds.length = mx ∨ headIs isHexChar X = false) (hn : NoNul (ds ++ X)) :
    scanHexDigits pureSrc (cfg doc k ts pos (ds ++ X)).1 mn mx (cfg doc k ts pos (ds ++ X)).2
      = cfg doc (k + blen ds) ts pos X := by
  have hr : ds.length = mx ∨ (ds.length < mx ∧ headIs isHexChar X = false) := by
    by_cases e : ds.length = mx
    · exact .inl e
    · rcases hX with h | h
      · exact absurd h e
      · exact .inr ⟨by omega, h⟩
  have hl := hexLoop_cfg doc ts pos ds mx 0 k X hds hr hn
  simp only [scanHexDigits, hl, Nat.zero_add]
  rw [if_neg]
  simp only [Bool.or_eq_true, decide_eq_true_eq]; omega

theorem hex_nonzero (c : Char) (h : isHexChar c = true) : c.toNat ≠ 0 := by
  simp only [isHexChar, Text.isDecimal, Bool.or_eq_true, Bool.and_eq_true, decide_eq_true_eq] at h; omega

theorem hex_noNul (ds : List Char) (h : ∀ d ∈ ds, isHexChar d = true) : NoNul ds := fun d hd => hex_nonzero d (h d hd)

theorem simpleEsc_rune (e : Char) :
    ((Int.ofNat e.toNat : Rune) == 110 || (Int.ofNat e.toNat : Rune) == 114 || (Int.ofNat e.toNat : Rune) == 116 ||
      (Int.ofNat e.toNat : Rune) == 92 || (Int.ofNat e.toNat : Rune) == 48 || (Int.ofNat e.toNat : Rune) == 39 ||
      (Int.ofNat e.toNat : Rune) == 34 || (Int.ofNat e.toNat : Rune) == 42) = decide (e.toNat ∈ [110, 114, 116, 92, 48, 39, 34, 42]) := by
  rw [Bool.eq_iff_iff]
  simp only [Bool.or_eq_true, beq_iff_eq, decide_eq_true_eq, List.mem_cons, List.not_mem_nil, or_false, Int.ofNat_eq_natCast]
  omega

theorem scanEscape_simple (doc : List UInt8) (ts : Option Nat) (pos : Pos) (k : Nat) (e : Char) (Y : List Char)
    (he : e.toNat ∈ [110, 114, 116, 92, 48, 39, 34, 42]) (hn : NoNul (e :: Y)) :
    scanEscape pureSrc (cfg doc k ts pos ('\\' :: e :: Y)).2 = cfg doc (k + blen ['\\', e]) ts pos Y := by
  have h1 := next_cfg doc k ts pos '\\' (e :: Y) hn
  have h2 := next_cfg doc (k + ('\\' : Char).utf8Size) ts pos e Y hn.tail
  simp only [scanEscape]
  rw [h1]
  simp only [cfg_fst_cons, simpleEsc_rune, he, decide_true, if_true]
  rw [h2]
  simp only [blen_cons, blen_nil, Nat.add_zero, Nat.add_assoc]

theorem scanEscape_hex (doc : List UInt8) (ts : Option Nat) (pos : Pos) (k : Nat) (a b : Char) (Y : List Char)
    (ha : isHexChar a = true) (hb : isHexChar b = true) (hn : NoNul Y) :
    scanEscape pureSrc (cfg doc k ts pos ('\\' :: 'x' :: a :: b :: Y)).2 = cfg doc (k + blen ['\\', 'x', a, b]) ts pos Y := by
  have hn2 : NoNul (a :: b :: Y) := NoNul.cons (hex_nonzero a ha) (NoNul.cons (hex_nonzero b hb) hn)
  have hn1 : NoNul ('x' :: a :: b :: Y) := NoNul.cons (by decide) hn2
  have h1 := next_cfg doc k ts pos '\\' _ hn1
  have h2 := next_cfg doc (k + ('\\' : Char).utf8Size) ts pos 'x' _ hn2
  have h3 := scanHexDigits_cfg doc ts pos [a, b] 2 2 (k + ('\\' : Char).utf8Size + ('x' : Char).utf8Size) Y
    (by intro d hd; simp at hd; rcases hd with rfl | rfl <;> assumption) (by simp) (by simp) (.inl rfl) hn2
  simp only [scanEscape]
  rw [h1]
  have e1 : (cfg doc (k + ('\\' : Char).utf8Size) ts pos ('x' :: a :: b :: Y)).1 = 120 := rfl
  simp only [e1]
  rw [if_neg (by decide), if_pos (by decide), h2]
  simp only [List.cons_append, List.nil_append] at h3
  rw [h3]
  simp only [blen_cons, blen_nil, Nat.add_zero, Nat.add_assoc]

theorem scanEscape_uni (doc : List UInt8) (ts : Option Nat) (pos : Pos) (k : Nat) (ds Y : List Char)
    (h1 : 1 ≤ ds.length) (h6 : ds.length ≤ 6) (hds : ∀ d ∈ ds, isHexChar d = true) (hn : NoNul Y) :
    scanEscape pureSrc (cfg doc k ts pos ('\\' :: 'u' :: '{' :: (ds ++ '}' :: Y))).2
      = cfg doc (k + blen ('\\' :: 'u' :: '{' :: (ds ++ ['}']))) ts pos Y := by
  have hn4 : NoNul ('}' :: Y) := NoNul.cons (by decide) hn
  have hn3 : NoNul (ds ++ '}' :: Y) := NoNul.append (hex_noNul ds hds) hn4
  have hn2 : NoNul ('{' :: (ds ++ '}' :: Y)) := NoNul.cons (by decide) hn3
  have hn1 : NoNul ('u' :: '{' :: (ds ++ '}' :: Y)) := NoNul.cons (by decide) hn2
  have n1 := next_cfg doc k ts pos '\\' _ hn1
  have n2 := next_cfg doc (k + ('\\' : Char).utf8Size) ts pos 'u' _ hn2
  have n3 := next_cfg doc (k + ('\\' : Char).utf8Size + ('u' : Char).utf8Size) ts pos '{' _ hn3
  have hh := scanHexDigits_cfg doc ts pos ds 1 6 (k + ('\\' : Char).utf8Size + ('u' : Char).utf8Size + ('{' : Char).utf8Size)
    ('}' :: Y) hds h1 h6 (.inr (by show isHexChar '}' = false; decide)) hn3
  have n4 := next_cfg doc (k + ('\\' : Char).utf8Size + ('u' : Char).utf8Size + ('{' : Char).utf8Size + blen ds) ts pos '}' Y hn
  simp only [scanEscape]
  rw [n1]
  have e1 : (cfg doc (k + ('\\' : Char).utf8Size) ts pos ('u' :: '{' :: (ds ++ '}' :: Y))).1 = 117 := rfl
  simp only [e1]
  rw [if_neg (by decide), if_neg (by decide), if_pos (by decide), n2]
  have e2 : (cfg doc (k + ('\\' : Char).utf8Size + ('u' : Char).utf8Size) ts pos ('{' :: (ds ++ '}' :: Y))).1 = 123 := rfl
  simp only [e2]
  rw [if_neg (by decide), n3, hh]
  have e3 : (cfg doc (k + ('\\' : Char).utf8Size + ('u' : Char).utf8Size + ('{' : Char).utf8Size + blen ds) ts pos ('}' :: Y)).1 = 125 := rfl
  simp only [e3]
  rw [if_neg (by decide), n4]
  simp only [blen_cons, blen_append, blen_nil, Nat.add_zero, Nat.add_assoc]

theorem strBody_noNul {body : List Char} (h : StrBody body) : NoNul body := by
  induction h with
  | nil => intro c hc; cases hc
  | raw c cs _ _ _ h0 _ ih => exact NoNul.cons h0 ih
  | esc c cs hc _ ih =>
    refine NoNul.cons (by decide) (NoNul.cons ?_ ih)
    simp at hc; omega
  | hex a b cs ha hb _ ih =>
    exact NoNul.cons (by decide) (NoNul.cons (by decide) (NoNul.cons (hex_nonzero a ha) (NoNul.cons (hex_nonzero b hb) ih)))
  | uni ds cs _ _ hds _ ih =>
    exact NoNul.cons (by decide) (NoNul.cons (by decide) (NoNul.cons (by decide)
      (NoNul.append (hex_noNul ds hds) (NoNul.cons (by decide) ih))))

theorem stringLoop_step_raw {σ : Type} (S : Src σ) (f : Nat) (ch : Rune) (s : σ) (h1 : ch ≠ 34) (h2 : ch ≠ 10)
    (h3 : ¬ ch < 0) (h4 : ch ≠ 92) : stringLoop S (f + 1) ch s = stringLoop S f (S.next s).1 (S.next s).2 := by
  simp [stringLoop, h1, h2, h3, h4]

theorem stringLoop_step_esc {σ : Type} (S : Src σ) (f : Nat) (ch : Rune) (s : σ) (h : ch = 92) :
    stringLoop S (f + 1) ch s = stringLoop S f (scanEscape S s).1 (scanEscape S s).2 := by
  subst h; simp [stringLoop]

theorem stringLoop_step_quote {σ : Type} (S : Src σ) (f : Nat) (ch : Rune) (s : σ) (h : ch = 34) :
    stringLoop S (f + 1) ch s = s := by
  subst h; simp [stringLoop]

/-- the loop of `scanString` stops AT the closing quote -/
theorem stringLoop_cfg (doc : List UInt8) (ts : Option Nat) (pos : Pos) {body : List Char} (hb : StrBody body) :
    ∀ (f k : Nat) (Y : List Char), body.length < f → NoNul Y →
      stringLoop pureSrc f (cfg doc k ts pos (body ++ '"' :: Y)).1 (cfg doc k ts pos (body ++ '"' :: Y)).2
        = (cfg doc (k + blen body) ts pos ('"' :: Y)).2 := by
  induction hb with
  | nil =>
    intro f k Y hf _
    obtain ⟨f, rfl⟩ : ∃ f', f = f' + 1 := ⟨f - 1, by omega⟩
    refine Eq.trans (stringLoop_step_quote pureSrc f _ _ ?_) ?_
    · rfl
    · simp [blen_nil]
  | raw c cs h34 h92 h10 h0 hcs ih =>
    intro f k Y hf hn
    obtain ⟨f, rfl⟩ : ∃ f', f = f' + 1 := ⟨f - 1, by omega⟩
    have hnn : NoNul (cs ++ '"' :: Y) := NoNul.append (strBody_noNul hcs) (NoNul.cons (by decide) hn)
    refine Eq.trans (stringLoop_step_raw pureSrc f _ _ ?_ ?_ ?_ ?_) ?_
    · exact fun h => h34 (Int.ofNat.inj h)
    · exact fun h => h10 (Int.ofNat.inj h)
    · exact rune_nonneg c
    · exact fun h => h92 (Int.ofNat.inj h)
    simp only [List.cons_append]
    rw [next_cfg doc k ts pos c _ hnn, ih f _ Y (by simp at hf; omega) hn]
    rw [blen_cons, Nat.add_assoc]
  | esc c cs hc hcs ih =>
    intro f k Y hf hn
    obtain ⟨f, rfl⟩ : ∃ f', f = f' + 1 := ⟨f - 1, by omega⟩
    have hnn : NoNul (cs ++ '"' :: Y) := NoNul.append (strBody_noNul hcs) (NoNul.cons (by decide) hn)
    have hc0 : c.toNat ≠ 0 := by simp at hc; omega
    refine Eq.trans (stringLoop_step_esc pureSrc f _ _ ?_) ?_
    · rfl
    simp only [List.cons_append]
    rw [scanEscape_simple doc ts pos k c _ hc (NoNul.cons hc0 hnn), ih f _ Y (by simp at hf; omega) hn]
    congr 2
    simp only [blen_cons, blen_nil, Nat.add_zero, Nat.add_assoc]
  | hex a b cs ha hb hcs ih =>
    intro f k Y hf hn
    obtain ⟨f, rfl⟩ : ∃ f', f = f' + 1 := ⟨f - 1, by omega⟩
    have hnn : NoNul (cs ++ '"' :: Y) := NoNul.append (strBody_noNul hcs) (NoNul.cons (by decide) hn)
    refine Eq.trans (stringLoop_step_esc pureSrc f _ _ ?_) ?_
    · rfl
    simp only [List.cons_append]
    rw [scanEscape_hex doc ts pos k a b _ ha hb hnn, ih f _ Y (by simp at hf; omega) hn]
    congr 2
    simp only [blen_cons, blen_nil, Nat.add_zero, Nat.add_assoc]
  | uni ds cs h1 h6 hds hcs ih =>
    intro f k Y hf hn
    obtain ⟨f, rfl⟩ : ∃ f', f = f' + 1 := ⟨f - 1, by omega⟩
    have hnn : NoNul (cs ++ '"' :: Y) := NoNul.append (strBody_noNul hcs) (NoNul.cons (by decide) hn)
    refine Eq.trans (stringLoop_step_esc pureSrc f _ _ ?_) ?_
    · rfl
    simp only [List.cons_append, List.append_assoc]
    rw [scanEscape_uni doc ts pos k ds _ h1 h6 hds hnn, ih f _ Y (by simp at hf; omega) hn]
    congr 2
    simp only [blen_cons, blen_append, blen_nil, Nat.add_zero, Nat.add_assoc]

/-- `scanString` followed by the `next` that skips the closing quote -/
theorem scanString_cfg (doc : List UInt8) (ts : Option Nat) (pos : Pos) {body : List Char} (hb : StrBody body)
    (F k : Nat) (Y : List Char) (hf : body.length < F) (hn : NoNul Y) :
    pureSrc.next (scanString pureSrc F (cfg doc k ts pos ('"' :: (body ++ '"' :: Y))).2)
      = cfg doc (k + blen ('"' :: (body ++ ['"']))) ts pos Y := by
  have hnn : NoNul (body ++ '"' :: Y) := NoNul.append (strBody_noNul hb) (NoNul.cons (by decide) hn)
  simp only [scanString]
  rw [next_cfg doc k ts pos '"' _ hnn, stringLoop_cfg doc ts pos hb F _ Y hf hn, next_cfg _ _ _ _ '"' Y hn]
  simp only [blen_cons, blen_append, blen_nil, Nat.add_zero, Nat.add_assoc]

end CedarGo.Text
