/-
  Helper lemmas for C09 (JSON policy codec round trip at the JSON-tree level).
-/
import CedarGo.Model.Json.Policy
import CedarGoProofs.Lemmas.C13
namespace CedarGo.JsonModel
open CedarGo CedarGo.Scalars

/-! ### Concrete key-matching facts (struct tags of the nested node structs) -/

@[simp] theorem km_arg_arg : keyMatches "arg" "arg" = true := by decide +kernel
@[simp] theorem km_attr_attr : keyMatches "attr" "attr" = true := by decide +kernel
@[simp] theorem km_attr_left : keyMatches "attr" "left" = false := by decide +kernel
@[simp] theorem km_else_else : keyMatches "else" "else" = true := by decide +kernel
@[simp] theorem km_else_if : keyMatches "else" "if" = false := by decide +kernel
@[simp] theorem km_else_then : keyMatches "else" "then" = false := by decide +kernel
@[simp] theorem km_entity_type_entity_type : keyMatches "entity_type" "entity_type" = true := by decide +kernel
@[simp] theorem km_entity_type_in : keyMatches "entity_type" "in" = false := by decide +kernel
@[simp] theorem km_entity_type_left : keyMatches "entity_type" "left" = false := by decide +kernel
@[simp] theorem km_if_else : keyMatches "if" "else" = false := by decide +kernel
@[simp] theorem km_if_if : keyMatches "if" "if" = true := by decide +kernel
@[simp] theorem km_if_then : keyMatches "if" "then" = false := by decide +kernel
@[simp] theorem km_in_entity_type : keyMatches "in" "entity_type" = false := by decide +kernel
@[simp] theorem km_in_in : keyMatches "in" "in" = true := by decide +kernel
@[simp] theorem km_in_left : keyMatches "in" "left" = false := by decide +kernel
@[simp] theorem km_left_attr : keyMatches "left" "attr" = false := by decide +kernel
@[simp] theorem km_left_entity_type : keyMatches "left" "entity_type" = false := by decide +kernel
@[simp] theorem km_left_in : keyMatches "left" "in" = false := by decide +kernel
@[simp] theorem km_left_left : keyMatches "left" "left" = true := by decide +kernel
@[simp] theorem km_left_pattern : keyMatches "left" "pattern" = false := by decide +kernel
@[simp] theorem km_left_right : keyMatches "left" "right" = false := by decide +kernel
@[simp] theorem km_pattern_left : keyMatches "pattern" "left" = false := by decide +kernel
@[simp] theorem km_pattern_pattern : keyMatches "pattern" "pattern" = true := by decide +kernel
@[simp] theorem km_right_left : keyMatches "right" "left" = false := by decide +kernel
@[simp] theorem km_right_right : keyMatches "right" "right" = true := by decide +kernel
@[simp] theorem km_then_else : keyMatches "then" "else" = false := by decide +kernel
@[simp] theorem km_then_if : keyMatches "then" "if" = false := by decide +kernel
@[simp] theorem km_then_then : keyMatches "then" "then" = true := by decide +kernel

/-! ### One-key node objects -/

theorem classifyKey_self : ∀ f ∈ nodeFieldOrder, classifyKey f = some f := by decide +kernel

theorem classifyKey_ext : ∀ x ∈ Facts.extMap, classifyKey x.1 = none := by decide +kernel

theorem findSome_single {α} (f : String) (nj : α) : ∀ (l : List String), f ∈ l →
    l.findSome? (fun g => (([(f, nj)] : List (String × α)).find? (fun s => s.1 == g)).map (·.2)) = some nj
  | [], h => by simp at h
  | g :: l, h => by
    by_cases e : f = g
    · subst e; simp [List.findSome?, List.find?]
    · have hm : f ∈ l := by
        simp only [List.mem_cons] at h
        cases h with
        | inl h => exact absurd h e
        | inr h => exact h
      have : (f == g) = false := by simp [e]
      simp only [List.findSome?, List.find?, this, Option.map_none]
      exact findSome_single f nj l hm

theorem winnerOf_single (f : String) (nj : NJ) (hf : f ∈ nodeFieldOrder) : winnerOf [(f, nj)] = some nj :=
  findSome_single f nj nodeFieldOrder hf

/-- a node object with the single known key `f`: the result is what `decodeField` yields for it -/
theorem decodeNodeStep_known (dec : J → R NJ) (f : String) (x : J) (nj : NJ) (hf : f ∈ nodeFieldOrder)
    (hx : x ≠ .null) (h : decodeField dec f x = .ok (.ok nj)) : decodeNodeStep dec (.obj [(f, x)]) = .ok nj := by
  have hc := classifyKey_self f hf
  have hw := winnerOf_single f nj hf
  cases x <;> first | exact absurd rfl hx | simp [decodeNodeStep, scanFields, hc, h, hw]

/-- a node object whose single key is an extension-function name: the fallback -/
theorem decodeNodeStep_ext (dec : J → R NJ) (fn : String) (args : List J) (njs : List NJ)
    (hfn : Facts.extMap.any (fun x => x.1 == fn) = true) (h : mapMR dec args = .ok njs) :
    decodeNodeStep dec (.obj [(fn, .arr args)]) = .ok (.ext [(fn, njs)]) := by
  have hc : classifyKey fn = none := by
    simp only [List.any_eq_true, beq_iff_eq] at hfn
    obtain ⟨x, hx, e⟩ := hfn
    rw [← e]; exact classifyKey_ext x hx
  have hn : ∀ (l : List String), List.findSome? (fun _ => (none : Option NJ)) l = none := by
    intro l; induction l with
    | nil => rfl
    | cons a l ih => simp [List.findSome?, ih]
  simp [decodeNodeStep, scanFields, hc, extEntries, mapKVR, h, winnerOf, Option.orElse, List.find?, hn]

/-! ### The decoded struct of an encoded expression -/

mutual
/-- what `json.Unmarshal` builds from `exprToJ e` -/
def embed : Expr → NJ
  | .lit (.decimal d) => .ext [("decimal", [.value (.str (printDecimal d))])]
  | .lit (.ip a) => .ext [("ip", [.value (.str (printIPNet a))])]
  | .lit v => .value v
  | .var v => .var (varName v)
  | .unop op e => .unary op (embed e)
  | .binop op l r => .binary op (embed l) (embed r)
  | .ite c t e => .ite (embed c) (embed t) (embed e)
  | .access e a => .strop false (embed e) a
  | .has e a => .strop true (embed e) a
  | .like e p => .like (embed e) (normPattern p)
  | .is e ty => .is_ (embed e) ty none
  | .isIn e ty r => .is_ (embed e) ty (some (embed r))
  | .set es => .set (embeds es)
  | .record kes => .record (sortKV (embedKEs kes))
  | .call fn args => .ext [(fn, embeds args)]
def embeds : List Expr → List NJ
  | [] => []
  | e :: es => embed e :: embeds es
def embedKEs : List (String × Expr) → List (String × Option NJ)
  | [] => []
  | (k, e) :: kes => (k, some (embed e)) :: embedKEs kes
end

mutual
/-- fuel `decodeNodeF` needs on `exprToJ e` -/
def needE : Expr → Nat
  | .lit (.decimal _) => 2
  | .lit (.ip _) => 2
  | .lit _ => 1
  | .var _ => 1
  | .unop _ e => needE e + 1
  | .binop _ l r => max (needE l) (needE r) + 1
  | .ite c t e => max (needE c) (max (needE t) (needE e)) + 1
  | .access e _ => needE e + 1
  | .has e _ => needE e + 1
  | .like e _ => needE e + 1
  | .is e _ => needE e + 1
  | .isIn e _ r => max (needE e) (needE r) + 1
  | .set es => needEs es + 1
  | .record kes => needKEs kes + 1
  | .call _ args => needEs args + 1
def needEs : List Expr → Nat
  | [] => 0
  | e :: es => max (needE e) (needEs es)
def needKEs : List (String × Expr) → Nat
  | [] => 0
  | (_, e) :: kes => max (needE e) (needKEs kes)
end

theorem exprToJ_obj (e : Expr) : ∃ kvs, exprToJ e = .obj kvs := by
  cases e with
  | lit v => cases v <;> simp only [exprToJ] <;> exact ⟨_, rfl⟩
  | _ => simp only [exprToJ] <;> exact ⟨_, rfl⟩

theorem exprToJ_ne_null (e : Expr) : exprToJ e ≠ .null := by
  obtain ⟨kvs, h⟩ := exprToJ_obj e; rw [h]; simp

/-! ### `mapKVR` commutes with sorted insertion -/

theorem mapKVR_insKV {β : Type} (g : J → R β) (k : String) (v : J) (y : β) (hv : g v = .ok y) :
    ∀ (l : List (String × J)) (l' : List (String × β)), mapKVR g l = .ok l' → mapKVR g (insKV k v l) = .ok (insKV k y l')
  | [], l', h => by
    simp only [mapKVR] at h; cases h
    simp [insKV, mapKVR, hv]
  | (k', v') :: rest, l', h => by
    simp only [mapKVR] at h
    cases hv' : g v' with
    | error e => simp [hv'] at h
    | ok y' =>
      cases hr : mapKVR g rest with
      | error e => simp [hv', hr] at h
      | ok rest' =>
        simp only [hv', hr] at h; cases h
        simp only [insKV]
        split
        · simp [mapKVR, hv, hv', hr]
        · split
          · simp [mapKVR, hv, hr]
          · simp [mapKVR, hv', mapKVR_insKV g k v y hv rest rest' hr]

theorem recEntry_expr (dec : J → R NJ) (e : Expr) (nj : NJ) (h : dec (exprToJ e) = .ok nj) :
    recEntry dec (exprToJ e) = .ok (some nj) := by
  obtain ⟨kvs, hk⟩ := exprToJ_obj e
  rw [hk] at h ⊢
  simp [recEntry, h, Except.map]

theorem mapKVR_sortKV_record (dec : J → R NJ) : ∀ (kes : List (String × Expr)) (acc : List (String × J))
    (acc' : List (String × Option NJ)), mapKVR (recEntry dec) acc = .ok acc' →
    (∀ ke ∈ kes, dec (exprToJ ke.2) = .ok (embed ke.2)) →
    mapKVR (recEntry dec) ((kvExprsToJ kes).foldl (fun a kv => insKV kv.1 kv.2 a) acc)
      = .ok ((embedKEs kes).foldl (fun a kv => insKV kv.1 kv.2 a) acc')
  | [], acc, acc', h, _ => by simpa [kvExprsToJ, embedKEs] using h
  | (k, e) :: kes, acc, acc', h, hall => by
    simp only [kvExprsToJ, embedKEs, List.foldl]
    apply mapKVR_sortKV_record dec kes
    · exact mapKVR_insKV (recEntry dec) k (exprToJ e) (some (embed e))
        (recEntry_expr dec e _ (hall (k, e) (by simp))) acc acc' h
    · intro ke hke; exact hall ke (by simp [hke])

/-! ### Patterns -/

theorem mapMR_append {α β} (f : α → R β) : ∀ (xs ys : List α) (xs' ys' : List β),
    mapMR f xs = .ok xs' → mapMR f ys = .ok ys' → mapMR f (xs ++ ys) = .ok (xs' ++ ys')
  | [], ys, xs', ys', h1, h2 => by simp only [mapMR] at h1; cases h1; simpa using h2
  | x :: xs, ys, xs', ys', h1, h2 => by
    simp only [mapMR] at h1
    cases hx : f x with
    | error e => simp [hx] at h1
    | ok y =>
      cases hr : mapMR f xs with
      | error e => simp [hx, hr] at h1
      | ok r =>
        simp only [hx, hr] at h1; cases h1
        simp [mapMR, hx, mapMR_append f xs ys r ys' hr h2]

theorem mapMR_patternItemsToJ : ∀ (p : Pattern), mapMR patElem (patternItemsToJ p) = .ok (patItemComps p)
  | [] => rfl
  | c :: rest => by
    simp only [patternItemsToJ, patItemComps]
    apply mapMR_append
    · apply mapMR_append
      · cases c.wildcard <;> simp [mapMR, patElem]
      · split <;> simp [mapMR, patElem]
    · exact mapMR_patternItemsToJ rest

theorem mapMR_patternToJ (p : Pattern) : mapMR patElem (patternToJ p) = .ok (patComps p) := by
  cases p with
  | nil => simp [patternToJ, patComps, mapMR, patElem]
  | cons c rest => simpa [patternToJ, patComps] using mapMR_patternItemsToJ (c :: rest)

/-- `Pattern.MarshalJSON` never writes `[]` (which `Pattern.UnmarshalJSON` refuses) -/
theorem patternToJ_isEmpty (p : Pattern) : (patternToJ p).isEmpty = false := by
  cases p with
  | nil => simp [patternToJ]
  | cons c rest =>
    simp only [patternToJ, List.isEmpty_cons, Bool.false_eq_true, if_false, patternItemsToJ]
    cases hw : c.wildcard <;> simp

theorem patternOfJ_patternToJ (p : Pattern) : patternOfJ (patternToJ p) = .ok (normPattern p) := by
  have h1 := patternToJ_isEmpty p
  have h2 := mapMR_patternToJ p
  simp only [patternOfJ, h1, Bool.false_eq_true, if_false, h2, normPattern]

/-! ### `decodeField` on the payload each constructor writes -/

theorem unOpKey_mem (op : UnOp) : unOpKey op ∈ nodeFieldOrder := by cases op <;> simp [unOpKey, nodeFieldOrder]
theorem binOpKey_mem (op : BinOp) : binOpKey op ∈ nodeFieldOrder := by cases op <;> simp [binOpKey, nodeFieldOrder]

theorem decodeField_unary (dec : J → R NJ) (op : UnOp) (x : J) (nj : NJ) (h : dec x = .ok nj) :
    decodeField dec (unOpKey op) (.obj [("arg", x)]) = .ok (.ok (.unary op nj)) := by
  cases op <;>
    simp [decodeField, unOpKey, unOpOfKey, onlyFields, nodeField, findField, List.filter, h, bind, Except.bind]

theorem decodeField_binary (dec : J → R NJ) (op : BinOp) (l r : J) (nl nr : NJ) (hl : dec l = .ok nl) (hr : dec r = .ok nr) :
    decodeField dec (binOpKey op) (.obj [("left", l), ("right", r)]) = .ok (.ok (.binary op nl nr)) := by
  cases op <;>
    simp [decodeField, binOpKey, unOpOfKey, binOpOfKey, binOps, onlyFields, nodeField, findField, List.filter, hl, hr, bind,
      Except.bind, List.find?]

theorem decodeField_ite (dec : J → R NJ) (c t e : J) (nc nt ne : NJ) (hc : dec c = .ok nc) (ht : dec t = .ok nt)
    (he : dec e = .ok ne) :
    decodeField dec "if-then-else" (.obj [("else", e), ("if", c), ("then", t)]) = .ok (.ok (.ite nc nt ne)) := by
  simp [decodeField, onlyFields, nodeField, findField, List.filter, hc, ht, he, bind, Except.bind]

theorem decodeField_access (dec : J → R NJ) (x : J) (a : String) (nj : NJ) (h : dec x = .ok nj) :
    decodeField dec "." (.obj [("attr", .str a), ("left", x)]) = .ok (.ok (.strop false nj a)) := by
  simp [decodeField, onlyFields, nodeField, findField, strField, List.filter, h, bind, Except.bind]

theorem decodeField_has (dec : J → R NJ) (x : J) (a : String) (nj : NJ) (h : dec x = .ok nj) :
    decodeField dec "has" (.obj [("attr", .str a), ("left", x)]) = .ok (.ok (.strop true nj a)) := by
  simp [decodeField, onlyFields, nodeField, findField, strField, List.filter, h, bind, Except.bind]

theorem decodeField_like (dec : J → R NJ) (x : J) (p : Pattern) (nj : NJ) (h : dec x = .ok nj) :
    decodeField dec "like" (.obj [("left", x), ("pattern", .arr (patternToJ p))]) = .ok (.ok (.like nj (normPattern p))) := by
  simp [decodeField, onlyFields, nodeField, findField, List.filter, h, bind, Except.bind, patternOfJ_patternToJ p]

theorem decodeField_is (dec : J → R NJ) (x : J) (ty : String) (nj : NJ) (h : dec x = .ok nj) :
    decodeField dec "is" (.obj [("entity_type", .str ty), ("left", x)]) = .ok (.ok (.is_ nj ty none)) := by
  simp [decodeField, onlyFields, nodeField, findField, strField, List.filter, h, bind, Except.bind, pure, Except.pure]

theorem decodeField_isIn (dec : J → R NJ) (x y : J) (ty : String) (nx ny : NJ) (hx : dec x = .ok nx) (hy : dec y = .ok ny)
    (hyn : y ≠ .null) :
    decodeField dec "is" (.obj [("entity_type", .str ty), ("in", y), ("left", x)]) = .ok (.ok (.is_ nx ty (some ny))) := by
  cases y <;> first | exact absurd rfl hyn |
    simp [decodeField, onlyFields, nodeField, findField, strField, List.filter, hx, hy, bind, Except.bind, Except.map]

theorem decodeField_set (dec : J → R NJ) (xs : List J) (njs : List NJ) (h : mapMR dec xs = .ok njs) :
    decodeField dec "Set" (.arr xs) = .ok (.ok (.set njs)) := by
  simp [decodeField, h, Except.map]

theorem decodeField_record (dec : J → R NJ) (kvs : List (String × J)) (es : List (String × Option NJ))
    (h : mapKVR (recEntry dec) kvs = .ok es) : decodeField dec "Record" (.obj kvs) = .ok (.ok (.record es)) := by
  simp [decodeField, h, Except.map]

theorem decodeField_var (dec : J → R NJ) (s : String) : decodeField dec "Var" (.str s) = .ok (.ok (.var s)) := by
  simp [decodeField]

theorem decodeField_value (dec : J → R NJ) (x : J) (v : Value) (h : decodeValue x = .ok v) :
    decodeField dec "Value" x = .ok (.ok (.value v)) := by
  simp [decodeField, h, Except.map]

end CedarGo.JsonModel
