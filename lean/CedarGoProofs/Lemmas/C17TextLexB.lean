/-
  C17, text half, LEXER part B: literal pieces of the printer, lists of pieces (`String.join`, `String.intercalate`),
  annotations, names, types and records, type reference lists, action parents, `appliesTo`.
-/
import CedarGoProofs.Lemmas.C17TextLexA
namespace CedarGo.Schema.TextLex
open CedarGo.Schema

/-- normalise the character side / the token side of a `Lex.cast` -/
macro "lx" : tactic =>
  `(tactic| simp only [String.toList_append, List.append_assoc, List.nil_append, List.cons_append, List.append_nil])

/-! ## literal pieces -/

theorem lexS_kw (w : String) (h : isIdentLike w = true) : LexS (w.toList ++ [' ']) [identTok w] :=
  (lexI_word w h).ix lexS_sp (by decide)

theorem lit_entity : LexS "entity ".toList [.ident "entity"] :=
  (lexS_kw "entity" (by decide)).cast (by decide) (by decide)
theorem lit_action : LexS "action ".toList [.ident "action"] :=
  (lexS_kw "action" (by decide)).cast (by decide) (by decide)
theorem lit_type : LexS "type ".toList [.ident "type"] :=
  (lexS_kw "type" (by decide)).cast (by decide) (by decide)
theorem lit_namespace : LexS "namespace ".toList [.ident "namespace"] :=
  (lexS_kw "namespace" (by decide)).cast (by decide) (by decide)
theorem lit_in : LexS " in ".toList [.reserved "in"] :=
  (lexS_sp.sx (lexS_kw "in" (by decide))).cast (by decide) (by decide)
theorem lit_tags : LexS " tags ".toList [.ident "tags"] :=
  (lexS_sp.sx (lexS_kw "tags" (by decide))).cast (by decide) (by decide)
theorem lit_enum : LexS " enum [".toList [.ident "enum", .lbrack] :=
  (lexS_sp.sx ((lexS_kw "enum" (by decide)).sx lexS_lbrack)).cast (by decide) (by decide)
theorem lit_enumEnd : LexS "];\n".toList [.rbrack, .semi] :=
  (lexS_rbrack.sx (lexS_semi.sx lexS_nl)).cast (by decide) (by decide)
theorem lit_semi : LexS ";\n".toList [.semi] :=
  (lexS_semi.sx lexS_nl).cast (by decide) (by decide)
theorem lit_eq : LexS " = ".toList [.equals] :=
  (lexS_sp.sx (lexS_equals.sx lexS_sp)).cast (by decide) (by decide)
theorem lit_spLbrace : LexS " {\n".toList [.lbrace] :=
  (lexS_sp.sx (lexS_lbrace.sx lexS_nl)).cast (by decide) (by decide)
theorem lit_rbraceNl : LexS "}\n".toList [.rbrace] :=
  (lexS_rbrace.sx lexS_nl).cast (by decide) (by decide)
theorem lit_lbraceNl : LexS "{\n".toList [.lbrace] :=
  (lexS_lbrace.sx lexS_nl).cast (by decide) (by decide)
theorem lit_braces : LexS "{}".toList [.lbrace, .rbrace] :=
  (lexS_lbrace.sx lexS_rbrace).cast (by decide) (by decide)
theorem lit_rbrace : LexS "}".toList [.rbrace] := lexS_rbrace.cast (by decide) rfl
theorem lit_lbrack : LexS "[".toList [.lbrack] := lexS_lbrack.cast (by decide) rfl
theorem lit_rbrack : LexS "]".toList [.rbrack] := lexS_rbrack.cast (by decide) rfl
theorem lit_rangle : LexS ">".toList [.rangle] := lexS_rangle.cast (by decide) rfl
theorem lit_at : LexS "@".toList [.at] := lexS_at.cast (by decide) rfl
theorem lit_lparen : LexS "(".toList [.lparen] := lexS_lparen.cast (by decide) rfl
theorem lit_rparenNl : LexS ")\n".toList [.rparen] :=
  (lexS_rparen.sx lexS_nl).cast (by decide) (by decide)
theorem lit_nl : LexS "\n".toList [] := lexS_nl.cast (by decide) rfl
theorem lit_sp : LexS " ".toList [] := lexS_sp.cast (by decide) rfl
theorem lit_commaSp : LexS ", ".toList [.comma] :=
  (lexS_comma.sx lexS_sp).cast (by decide) (by decide)
theorem lit_commaNl : LexS ",\n".toList [.comma] :=
  (lexS_comma.sx lexS_nl).cast (by decide) (by decide)
theorem lit_dcolon : LexS "::".toList [.dcolon] := lexS_dcolon.cast (by decide) rfl
theorem lit_appliesTo : LexS " appliesTo {\n".toList [.ident "appliesTo", .lbrace] :=
  (lexS_sp.sx ((lexS_kw "appliesTo" (by decide)).sx (lexS_lbrace.sx lexS_nl))).cast (by decide) (by decide)
theorem lit_principal : LexS "principal: ".toList [.ident "principal", .colon] :=
  ((lexI_word "principal" (by decide)).ix lexS_colonSp (by decide)).cast (by decide) (by decide)
theorem lit_resource : LexS "resource: ".toList [.ident "resource", .colon] :=
  ((lexI_word "resource" (by decide)).ix lexS_colonSp (by decide)).cast (by decide) (by decide)
theorem lit_context : LexS "context: ".toList [.ident "context", .colon] :=
  ((lexI_word "context" (by decide)).ix lexS_colonSp (by decide)).cast (by decide) (by decide)
theorem lit_set : LexS "Set<".toList [.ident "Set", .langle] :=
  ((lexI_word "Set" (by decide)).ix lexS_langle (by decide)).cast (by decide) (by decide)

/-! ## lists of pieces -/

theorem lexS_join_map {α : Type} (f : α → String) (g : α → List Tok) : ∀ l : List α,
    (∀ x ∈ l, LexS (f x).toList (g x)) → LexS (String.join (l.map f)).toList (l.flatMap g)
  | [], _ => by simpa using (Lex.nil : LexS [] [])
  | x :: l, h => by
    have ih := lexS_join_map f g l (fun y hy => h y (by simp [hy]))
    exact ((h x (by simp)).sx ih).cast (by simp) (by simp)

/-- pieces separated by a separator that lexes to a comma -/
theorem lexI_intercalate {α : Type} (sep : String) (f : α → String) (g : α → List Tok)
    (hsep : LexS sep.toList [.comma]) (hs : startsNI sep.toList = true) : ∀ l : List α,
    (∀ x ∈ l, LexI (f x).toList (g x)) → LexI (sep.intercalate (l.map f)).toList (commaSep (l.map g))
  | [], _ => by simpa [commaSep] using (Lex.nil : LexI [] [])
  | [x], h => by simpa [commaSep] using h x (by simp)
  | x :: y :: l, h => by
    have ih := lexI_intercalate sep f g hsep hs (y :: l) (fun z hz => h z (by simp [hz]))
    have := (h x (by simp)).ix (hsep.sx ih) (startsNI_append hs _)
    refine this.cast ?_ ?_
    · simp only [List.map_cons, String.intercalate_cons_cons, String.toList_append, List.append_assoc]
    · simp [commaSep]

/-- a list of self-delimiting pieces with their token lists -/
inductive LexL : List String → List (List Tok) → Prop
  | nil : LexL [] []
  | cons {s : String} {t : List Tok} {ss : List String} {ts : List (List Tok)} :
      LexS s.toList t → LexL ss ts → LexL (s :: ss) (t :: ts)

theorem LexL.append {a b : List String} {ta tb : List (List Tok)} (ha : LexL a ta) (hb : LexL b tb) :
    LexL (a ++ b) (ta ++ tb) := by
  induction ha with
  | nil => simpa using hb
  | cons h _ ih => exact LexL.cons h ih

theorem LexL.map {α : Type} (f : α → String) (g : α → List Tok) : ∀ l : List α,
    (∀ x ∈ l, LexS (f x).toList (g x)) → LexL (l.map f) (l.map g)
  | [], _ => LexL.nil
  | x :: l, h => LexL.cons (h x (by simp)) (LexL.map f g l (fun y hy => h y (by simp [hy])))

/-- declarations separated by an empty line -/
theorem lexS_intercalate_nl {l : List String} {tl : List (List Tok)} (h : LexL l tl) :
    LexS ("\n".intercalate l).toList tl.flatten := by
  induction h with
  | nil => simpa using (Lex.nil : LexS [] [])
  | @cons s t ss ts h1 h2 ih =>
    cases h2 with
    | nil => simpa using h1
    | @cons s' t' ss' ts' h3 h4 =>
      rw [String.intercalate_cons_cons]
      exact (h1.sx (lit_nl.sx ih)).cast (by simp [String.toList_append]) (by simp)

/-! ## `sortedKV` keeps the elements -/

theorem mem_insertKV {α : Type} (x y : String × α) : ∀ l : List (String × α), y ∈ insertKV x l → y = x ∨ y ∈ l
  | [], h => by simp [insertKV] at h; exact Or.inl h
  | z :: l, h => by
    unfold insertKV at h
    split at h
    · simpa using h
    · rcases List.mem_cons.mp h with h | h
      · exact Or.inr (by simp [h])
      · rcases mem_insertKV x y l h with h | h
        · exact Or.inl h
        · exact Or.inr (by simp [h])

theorem mem_sortedKV {α : Type} : ∀ (l : List (String × α)) (y : String × α), y ∈ sortedKV l → y ∈ l
  | [], y, h => by simp [sortedKV] at h
  | x :: l, y, h => by
    have h' : y ∈ insertKV x (sortedKV l) := by simpa [sortedKV] using h
    rcases mem_insertKV x y _ h' with h | h
    · simp [h]
    · exact List.mem_cons_of_mem _ (mem_sortedKV l y h)

theorem forall_sortedKV {α : Type} {p : String × α → Bool} {l : List (String × α)} (h : l.all p = true) :
    ∀ x ∈ sortedKV l, p x = true :=
  fun x hx => List.all_eq_true.mp h x (mem_sortedKV l x hx)

/-! ## annotations and names -/

theorem lexS_annLine (indent : Nat) (kv : String × String) (hk : isIdentLike kv.1 = true) :
    LexS (tabs indent ++ (if kv.2 = "" then "@" ++ kv.1 ++ "\n" else "@" ++ kv.1 ++ "(" ++ quoteCedar kv.2 ++ ")\n")).toList
      (toksAnn kv) := by
  by_cases h : kv.2 = ""
  · exact ((lexS_tabs indent).sx (lit_at.sx ((lexI_word kv.1 hk).ix lit_nl (by decide)))).cast
      (by simp [h, String.toList_append]) (by simp [toksAnn, h])
  · exact ((lexS_tabs indent).sx (lit_at.sx ((lexI_word kv.1 hk).ix
      (lit_lparen.sx ((lexS_quote kv.2).sx lit_rparenNl)) (startsNI_append (by decide) _)))).cast
      (by simp [h, String.toList_append]) (by simp [toksAnn, h])

theorem lexS_anns (indent : Nat) (a : Anns) (h : annsOk a = true) : LexS (printAnns indent a).toList (toksAnns a) := by
  unfold annsOk at h
  simp only [Bool.and_eq_true] at h
  unfold printAnns toksAnns
  exact lexS_join_map _ _ _ (fun kv hkv => lexS_annLine indent kv (forall_sortedKV h.1 kv hkv))

theorem lexI_name (n : String) : LexI (printName n).toList (toksName n) := by
  unfold printName toksName
  by_cases h : isValidIdent n = true
  · simpa [h] using lexI_ident n h
  · simpa [h] using (Lex.weaken (lexS_quote n) : LexI _ _)

theorem lexS_optColon (o : Bool) :
    LexS ((if o = true then "?" else "") ++ ": ").toList ((if o = true then [.question] else []) ++ [.colon]) ∧
      startsNI ((if o = true then "?" else "") ++ ": ").toList = true := by
  cases o
  · exact ⟨lexS_colonSp.cast (by decide) (by decide), by decide⟩
  · exact ⟨(lexS_question.sx lexS_colonSp).cast (by decide) (by decide), by decide⟩

/-! ## types and records -/

mutual
theorem lexI_ty (sh : List String) : ∀ (indent : Nat) (t : Ty), tyOk sh t = true →
    LexI (printTy sh indent t).toList (toksTy sh t)
  | _, .string, h => by rw [printTy, toksTy]; exact lexI_typePath _ (by simpa [tyOk] using h)
  | _, .long, h => by rw [printTy, toksTy]; exact lexI_typePath _ (by simpa [tyOk] using h)
  | _, .bool, h => by rw [printTy, toksTy]; exact lexI_typePath _ (by simpa [tyOk] using h)
  | _, .ext n, h => by rw [printTy, toksTy]; exact lexI_typePath _ (by simpa [tyOk] using h)
  | _, .entityRef n, h => by rw [printTy, toksTy]; exact lexI_typePath _ (by simpa [tyOk] using h)
  | _, .typeRef n, h => by rw [printTy, toksTy]; exact lexI_typePath _ (by simpa [tyOk] using h)
  | indent, .set e, h => by
    have ih := lexI_ty sh indent e (by simpa [tyOk] using h)
    rw [printTy, toksTy]
    exact (Lex.weaken (lit_set.sx (ih.ix lit_rangle (by decide)))).cast (by simp [String.toList_append]) (by simp)
  | indent, .record as, h => by
    have h' : attrsOk sh as = true := by
      simp only [tyOk, Bool.and_eq_true] at h
      exact h.1
    have ih := lexS_attrs sh (indent + 1) as h'
    cases as with
    | nil => simpa [printTy, toksTy, toksAttrs] using (Lex.weaken lit_braces : LexI _ _)
    | cons n o a t rest =>
      simp only [printTy, toksTy]
      exact (Lex.weaken (lit_lbraceNl.sx (ih.sx ((lexS_tabs indent).sx lit_rbrace)))).cast
        (by simp [String.toList_append]) (by simp)
theorem lexS_attrs (sh : List String) : ∀ (indent : Nat) (as : Attrs), attrsOk sh as = true →
    LexS (printAttrs sh indent as).toList (toksAttrs sh as)
  | _, .nil, _ => by simpa [printAttrs, toksAttrs] using (Lex.nil : LexS [] [])
  | indent, .cons n o a t rest, h => by
    simp only [attrsOk, Bool.and_eq_true] at h
    obtain ⟨⟨h1, h2⟩, h3⟩ := h
    have iht := lexI_ty sh indent t h2
    have ihr := lexS_attrs sh indent rest h3
    obtain ⟨q1, q2⟩ := lexS_optColon o
    have key : ∀ (sepS : String) (sepT : List Tok), LexS (sepS ++ "\n").toList sepT →
        startsNI (sepS ++ "\n").toList = true →
        LexS (printAnns indent a ++ tabs indent ++ printName n ++ (if o then "?" else "") ++ ": " ++ printTy sh indent t ++
          sepS ++ "\n" ++ printAttrs sh indent rest).toList
          (toksAnns a ++ toksName n ++ (if o then [.question] else []) ++ [.colon] ++ toksTy sh t ++ sepT ++
            toksAttrs sh rest) := fun sepS sepT s1 s2 =>
      ((lexS_anns indent a h1).sx ((lexS_tabs indent).sx ((lexI_name n).ix (q1.sx (iht.ix (s1.sx ihr)
        (startsNI_append s2 _))) (startsNI_append q2 _)))).cast (by lx) (by lx)
    cases rest with
    | nil =>
      rw [printAttrs, toksAttrs]
      exact key "" [] (lexS_nl.cast (by decide) rfl) (by decide)
    | cons n' o' a' t' r' =>
      rw [printAttrs, toksAttrs]
      · exact key "," [.comma] ((lexS_comma.sx lexS_nl).cast (by decide) rfl) (by decide)
      · intro hh; cases hh
      · intro hh; cases hh
end

/-! ## reference lists -/

theorem lexI_typeRefs (refs : List String) (h : refs.all isTypePath = true) :
    LexI (printTypeRefs refs).toList (toksTypeRefs refs) := by
  have hall : ∀ r ∈ refs, LexI (id r : String).toList (toksPath r) :=
    fun r hr => lexI_typePath r (List.all_eq_true.mp h r hr)
  have hlist := lexI_intercalate ", " id toksPath lit_commaSp (by decide) refs hall
  rw [List.map_id] at hlist
  have hbr : LexI ("[" ++ ", ".intercalate refs ++ "]").toList ([.lbrack] ++ commaSep (refs.map toksPath) ++ [.rbrack]) :=
    (Lex.weaken (lit_lbrack.sx (hlist.ix lit_rbrack (by decide)))).cast (by lx) (by lx)
  match refs, hall, hbr with
  | [], _, hbr => exact hbr
  | [r], hall, _ => exact hall r (by simp)
  | _ :: _ :: _, _, hbr => exact hbr

theorem lexI_parentRef (p : String × String) (h : (p.1 = "" || isTypePath p.1) = true) :
    LexI (printParentRef p).toList (toksParentRef p) := by
  unfold printParentRef toksParentRef
  by_cases h1 : p.1 = ""
  · rw [if_pos h1, if_pos h1]
    exact lexI_name p.2
  · rw [if_neg h1, if_neg h1]
    have hp : isTypePath p.1 = true := by simpa [h1] using h
    exact (Lex.weaken ((lexI_typePath p.1 hp).ix (lit_dcolon.sx (lexS_quote p.2)) (startsNI_append (by decide) _))).cast
      (by lx) (by simp)

theorem lexI_parentRefs (refs : List (String × String)) (h : refs.all (fun p => p.1 = "" || isTypePath p.1) = true) :
    LexI (printParentRefs refs).toList (toksParentRefs refs) := by
  have hall : ∀ r ∈ refs, LexI (printParentRef r).toList (toksParentRef r) :=
    fun r hr => lexI_parentRef r (List.all_eq_true.mp h r hr)
  have hlist := lexI_intercalate ", " printParentRef toksParentRef lit_commaSp (by decide) refs hall
  have hbr : LexI ("[" ++ ", ".intercalate (refs.map printParentRef) ++ "]").toList
      ([.lbrack] ++ commaSep (refs.map toksParentRef) ++ [.rbrack]) :=
    (Lex.weaken (lit_lbrack.sx (hlist.ix lit_rbrack (by decide)))).cast (by lx) (by lx)
  match refs, hall, hbr with
  | [], _, hbr => exact hbr
  | [r], hall, _ => exact hall r (by simp)
  | _ :: _ :: _, _, hbr => exact hbr

/-! ## `appliesTo` -/

theorem lexS_appliesTo (sh : List String) (indent : Nat) (ap : AppliesTo)
    (hp : ap.principals.isEmpty = false) (hr : ap.resources.isEmpty = false)
    (hpa : ap.principals.all isTypePath = true) (hra : ap.resources.all isTypePath = true)
    (hc : (match ap.context with | some t => tyOk sh t | none => true) = true) :
    LexS (printAppliesTo sh indent ap).toList (toksAppliesTo sh ap) ∧ startsNI (printAppliesTo sh indent ap).toList = true := by
  obtain ⟨ps, rs, ctx⟩ := ap
  simp only at hp hr hpa hra hc
  have P : LexI (tabs (indent + 1) ++ "principal: " ++ printTypeRefs ps).toList ([.ident "principal", .colon] ++ toksTypeRefs ps) :=
    ((lexS_tabs (indent + 1)).sx (lit_principal.sx (lexI_typeRefs ps hpa))).cast (by lx) (by lx)
  have R : LexI (tabs (indent + 1) ++ "resource: " ++ printTypeRefs rs).toList ([.ident "resource", .colon] ++ toksTypeRefs rs) :=
    ((lexS_tabs (indent + 1)).sx (lit_resource.sx (lexI_typeRefs rs hra))).cast (by lx) (by lx)
  have hstart : ∀ x : String, startsNI (" appliesTo {\n" ++ x).toList = true := fun x => by
    rw [String.toList_append]; exact startsNI_append (by decide) _
  cases ctx with
  | none =>
    have e1 : printAppliesTo sh indent ⟨ps, rs, none⟩ =
        " appliesTo {\n" ++ ((tabs (indent + 1) ++ "principal: " ++ printTypeRefs ps) ++ ",\n" ++
          (tabs (indent + 1) ++ "resource: " ++ printTypeRefs rs)) ++ "\n" ++ tabs indent ++ "}" := by
      delta printAppliesTo
      simp only [hp, hr, Bool.false_eq_true, if_false, List.append_nil, List.cons_append, List.nil_append,
        String.intercalate_cons_cons, String.intercalate_singleton, List.isEmpty_cons]
    have e2 : toksAppliesTo sh ⟨ps, rs, none⟩ =
        [.ident "appliesTo", .lbrace] ++ (([.ident "principal", .colon] ++ toksTypeRefs ps) ++ [.comma] ++
          ([.ident "resource", .colon] ++ toksTypeRefs rs)) ++ [.rbrace] := by
      simp only [toksAppliesTo, hp, hr, Bool.false_eq_true, if_false, List.append_nil, List.cons_append, List.nil_append,
        commaSep]
    rw [e1, e2]
    refine ⟨?_, by simp only [String.append_assoc]; exact hstart _⟩
    exact (lit_appliesTo.sx (P.ix (lit_commaNl.sx (R.ix (lit_nl.sx ((lexS_tabs indent).sx lit_rbrace)) (startsNI_append (by decide) _)))
      (startsNI_append (by decide) _))).cast (by lx) (by lx)
  | some t =>
    have C : LexI (tabs (indent + 1) ++ "context: " ++ printTy sh (indent + 1) t).toList ([.ident "context", .colon] ++ toksTy sh t) :=
      ((lexS_tabs (indent + 1)).sx (lit_context.sx (lexI_ty sh (indent + 1) t hc))).cast (by lx) (by lx)
    have e1 : printAppliesTo sh indent ⟨ps, rs, some t⟩ =
        " appliesTo {\n" ++ ((tabs (indent + 1) ++ "principal: " ++ printTypeRefs ps) ++ ",\n" ++
          ((tabs (indent + 1) ++ "resource: " ++ printTypeRefs rs) ++ ",\n" ++
          (tabs (indent + 1) ++ "context: " ++ printTy sh (indent + 1) t))) ++ "\n" ++ tabs indent ++ "}" := by
      delta printAppliesTo
      simp only [hp, hr, Bool.false_eq_true, if_false, List.cons_append, List.nil_append,
        String.intercalate_cons_cons, String.intercalate_singleton, List.isEmpty_cons]
    have e2 : toksAppliesTo sh ⟨ps, rs, some t⟩ =
        [.ident "appliesTo", .lbrace] ++ (([.ident "principal", .colon] ++ toksTypeRefs ps) ++ [.comma] ++
          (([.ident "resource", .colon] ++ toksTypeRefs rs) ++ [.comma] ++ ([.ident "context", .colon] ++ toksTy sh t))) ++
          [.rbrace] := by
      simp only [toksAppliesTo, hp, hr, Bool.false_eq_true, if_false, List.cons_append, List.nil_append,
        commaSep]
    rw [e1, e2]
    refine ⟨?_, by simp only [String.append_assoc]; exact hstart _⟩
    exact (lit_appliesTo.sx (P.ix (lit_commaNl.sx (R.ix (lit_commaNl.sx (C.ix (lit_nl.sx ((lexS_tabs indent).sx lit_rbrace))
      (startsNI_append (by decide) _))) (startsNI_append (by decide) _))) (startsNI_append (by decide) _))).cast (by lx) (by lx)

end CedarGo.Schema.TextLex
