/-
  C17, text half, LEXER part A: the compositional lexing predicate `Lex` (a piece of text lexes to a list of tokens,
  whatever follows), its composition lemmas and the primitive pieces: white space, punctuation, `: `, `::`,
  identifier-like words, quoted strings (`quoteCedar`), `::`-separated paths.
-/
import CedarGoProofs.Lemmas.C17TextDefs
import CedarGoProofs.Lemmas.C17Quote
namespace CedarGo.Schema.TextLex
open CedarGo.Schema

/-! ## token prefixes of a lexer result -/

def prependToks (ts : List Tok) : LexR → LexR
  | none => none
  | some (.error e) => some (.error e)
  | some (.ok l) => some (.ok (ts ++ l))

theorem consTok_eq (t : Tok) (r : LexR) : consTok t r = prependToks [t] r := by
  cases r with
  | none => rfl
  | some x => cases x <;> rfl

theorem prependToks_nil (r : LexR) : prependToks [] r = r := by
  cases r with
  | none => rfl
  | some x => cases x <;> rfl

theorem prependToks_append (a b : List Tok) (r : LexR) : prependToks (a ++ b) r = prependToks a (prependToks b r) := by
  cases r with
  | none => rfl
  | some x => cases x <;> simp [prependToks]

/-! ## the predicate -/

/-- the text that follows does not continue an identifier -/
def NoIdCont (rest : List Char) : Prop := ∀ c, rest.head? = some c → isIdentContinue c = false

/-- `cs` followed by any `rest` satisfying `P` lexes to `ts` followed by the tokens of `rest`; the fuel used (`k`) is at
    most the number of characters, so no fuel monotonicity is ever needed -/
def Lex (P : List Char → Prop) (cs : List Char) (ts : List Tok) : Prop :=
  ∃ k, k ≤ cs.length ∧ ∀ rest n, P rest → lexFuel (n + k) (cs ++ rest) = prependToks ts (lexFuel n rest)

/-- self-delimiting piece (ends in white space, punctuation or a quoted string) -/
abbrev LexS (cs : List Char) (ts : List Tok) : Prop := Lex (fun _ => True) cs ts
/-- piece that may end in an identifier -/
abbrev LexI (cs : List Char) (ts : List Tok) : Prop := Lex NoIdCont cs ts

/-- the piece is nonempty and does not start with an identifier character -/
def startsNI : List Char → Bool
  | [] => false
  | c :: _ => !isIdentContinue c

theorem noIdCont_of_startsNI {b : List Char} (h : startsNI b = true) (rest : List Char) : NoIdCont (b ++ rest) := by
  cases b with
  | nil => simp [startsNI] at h
  | cons c b =>
    intro d hd
    simp at hd
    subst hd
    simpa [startsNI] using h

theorem startsNI_append {a : List Char} (h : startsNI a = true) (b : List Char) : startsNI (a ++ b) = true := by
  cases a with
  | nil => simp [startsNI] at h
  | cons c a => simpa [startsNI] using h

theorem Lex.append {P Q : List Char → Prop} {a b : List Char} {ta tb : List Tok}
    (ha : Lex Q a ta) (hb : Lex P b tb) (hq : ∀ rest, P rest → Q (b ++ rest)) : Lex P (a ++ b) (ta ++ tb) := by
  obtain ⟨ka, hka, ea⟩ := ha
  obtain ⟨kb, hkb, eb⟩ := hb
  refine ⟨ka + kb, by simp; omega, fun rest n hp => ?_⟩
  have e : n + (ka + kb) = (n + kb) + ka := by omega
  rw [e, List.append_assoc, ea (b ++ rest) (n + kb) (hq rest hp), eb rest n hp, prependToks_append]

theorem Lex.weaken {P : List Char → Prop} {a : List Char} {t : List Tok} (h : LexS a t) : Lex P a t := by
  obtain ⟨k, hk, e⟩ := h
  exact ⟨k, hk, fun rest n _ => e rest n trivial⟩

theorem Lex.cast {P : List Char → Prop} {a a' : List Char} {t t' : List Tok} (h : Lex P a t) (ea : a = a') (et : t = t') :
    Lex P a' t' := by
  subst ea; subst et; exact h

theorem Lex.castT {P : List Char → Prop} {a : List Char} {t t' : List Tok} (h : Lex P a t) (et : t = t') :
    Lex P a t' := by
  subst et; exact h

/-- S · X -/
theorem Lex.sx {P : List Char → Prop} {a b : List Char} {ta tb : List Tok}
    (ha : LexS a ta) (hb : Lex P b tb) : Lex P (a ++ b) (ta ++ tb) :=
  Lex.append ha hb (fun _ _ => trivial)

/-- I · X, when X starts with a character that ends an identifier -/
theorem Lex.ix {P : List Char → Prop} {a b : List Char} {ta tb : List Tok}
    (ha : LexI a ta) (hb : Lex P b tb) (hs : startsNI b = true) : Lex P (a ++ b) (ta ++ tb) :=
  Lex.append ha hb (fun rest _ => noIdCont_of_startsNI hs rest)

theorem Lex.nil {P : List Char → Prop} : Lex P [] [] :=
  ⟨0, by simp, fun rest n _ => by simp [prependToks_nil]⟩

/-- an optional piece after an identifier: empty, or starting with a character that ends an identifier -/
def LexO (b : List Char) (tb : List Tok) : Prop := (b = [] ∧ tb = []) ∨ (startsNI b = true ∧ LexI b tb)

theorem Lex.io {a b : List Char} {ta tb : List Tok} (ha : LexI a ta) (hb : LexO b tb) : LexI (a ++ b) (ta ++ tb) := by
  rcases hb with ⟨h1, h2⟩ | ⟨h1, h2⟩
  · subst h1; subst h2; simpa using ha
  · exact ha.ix h2 h1

theorem LexO.none : LexO [] [] := Or.inl ⟨rfl, rfl⟩
theorem LexO.some {b : List Char} {tb : List Tok} (h : LexI b tb) (hs : startsNI b = true) : LexO b tb := Or.inr ⟨hs, h⟩

/-! ## primitive pieces -/

theorem lexS_ws (c : Char) (h : c = ' ' ∨ c = '\t' ∨ c = '\n') : LexS [c] [] :=
  ⟨1, by simp, fun rest n _ => by
    rw [prependToks_nil]
    show lexFuel (n + 1) (c :: rest) = _
    rw [lexFuel, if_pos (by grind)]⟩

theorem lexS_sp : LexS [' '] [] := lexS_ws _ (by decide)
theorem lexS_nl : LexS ['\n'] [] := lexS_ws _ (by decide)

theorem lexS_replicate_tab : ∀ n : Nat, LexS (List.replicate n '\t') []
  | 0 => Lex.nil
  | n + 1 => by
    have := (lexS_ws '\t' (by decide)).sx (lexS_replicate_tab n)
    simpa [List.replicate_succ] using this

theorem lexS_tabs (n : Nat) : LexS (tabs n).toList [] := by
  simpa [tabs] using lexS_replicate_tab n

def punctOk (c : Char) (t : Tok) : Bool :=
  decide (¬ (c = ' ' ∨ c = '\t' ∨ c = '\r' ∨ c = '\n')) && decide (c ≠ '/') && !isIdentStart c && decide (c ≠ '"') &&
    decide (c ≠ ':') && decide (punctTok c = some t)

theorem lexS_punct (c : Char) (t : Tok) (h : punctOk c t = true) : LexS [c] [t] :=
  ⟨1, by simp, fun rest n _ => by
    simp only [punctOk, Bool.and_eq_true, decide_eq_true_eq, Bool.not_eq_true'] at h
    obtain ⟨⟨⟨⟨⟨h1, h2⟩, h3⟩, h4⟩, h5⟩, h6⟩ := h
    show lexFuel (n + 1) (c :: rest) = _
    rw [lexFuel, if_neg h1, if_neg (by simp [h2]), if_neg (by simp [h2])]
    simp only [h3, Bool.false_eq_true, if_false, h4, h5, h6, consTok_eq]⟩

theorem lexS_at : LexS ['@'] [.at] := lexS_punct _ _ (by decide)
theorem lexS_lbrace : LexS ['{'] [.lbrace] := lexS_punct _ _ (by decide)
theorem lexS_rbrace : LexS ['}'] [.rbrace] := lexS_punct _ _ (by decide)
theorem lexS_lbrack : LexS ['['] [.lbrack] := lexS_punct _ _ (by decide)
theorem lexS_rbrack : LexS [']'] [.rbrack] := lexS_punct _ _ (by decide)
theorem lexS_langle : LexS ['<'] [.langle] := lexS_punct _ _ (by decide)
theorem lexS_rangle : LexS ['>'] [.rangle] := lexS_punct _ _ (by decide)
theorem lexS_lparen : LexS ['('] [.lparen] := lexS_punct _ _ (by decide)
theorem lexS_rparen : LexS [')'] [.rparen] := lexS_punct _ _ (by decide)
theorem lexS_comma : LexS [','] [.comma] := lexS_punct _ _ (by decide)
theorem lexS_semi : LexS [';'] [.semi] := lexS_punct _ _ (by decide)
theorem lexS_question : LexS ['?'] [.question] := lexS_punct _ _ (by decide)
theorem lexS_equals : LexS ['='] [.equals] := lexS_punct _ _ (by decide)

/-- `::` -/
theorem lexS_dcolon : LexS [':', ':'] [.dcolon] :=
  ⟨1, by simp, fun rest n _ => by
    show lexFuel (n + 1) (':' :: ':' :: rest) = _
    rw [lexFuel]
    simp [isIdentStart, consTok_eq]⟩

/-- `: ` (a lone colon is only a token when no second colon follows) -/
theorem lexS_colonSp : LexS [':', ' '] [.colon] :=
  ⟨2, by simp, fun rest n _ => by
    show lexFuel (n + 1 + 1) (':' :: ' ' :: rest) = _
    rw [lexFuel]
    simp only [isIdentStart]
    simp [consTok_eq]
    rw [lexFuel]
    simp⟩

theorem isIdentStart_facts {c : Char} (h : isIdentStart c = true) :
    ¬ (c = ' ' ∨ c = '\t' ∨ c = '\r' ∨ c = '\n') ∧ c ≠ '/' := by
  refine ⟨?_, ?_⟩
  · rintro (h' | h' | h' | h') <;> subst h' <;> revert h <;> decide
  · intro h'; subst h'; revert h; decide

theorem takeWhile_noIdCont {rest : List Char} (h : NoIdCont rest) :
    rest.takeWhile isIdentContinue = [] ∧ rest.dropWhile isIdentContinue = rest := by
  cases rest with
  | nil => simp
  | cons c r =>
    have := h c (by simp)
    simp [this]

/-- an identifier-like word (identifier or reserved keyword) -/
theorem lexI_word (w : String) (h : isIdentLike w = true) : LexI w.toList [identTok w] := by
  unfold isIdentLike at h
  cases hw : w.toList with
  | nil => rw [hw] at h; simp at h
  | cons c cs =>
    rw [hw] at h
    simp only [Bool.and_eq_true, List.all_eq_true] at h
    obtain ⟨h1, h2⟩ := h
    refine ⟨1, by simp, fun rest n hrest => ?_⟩
    obtain ⟨f1, f2⟩ := isIdentStart_facts h1
    obtain ⟨g1, g2⟩ := takeWhile_noIdCont hrest
    show lexFuel (n + 1) (c :: (cs ++ rest)) = _
    rw [lexFuel, if_neg f1, if_neg (by simp [f2]), if_neg (by simp [f2]), if_pos h1,
      List.takeWhile_append_of_pos h2, List.dropWhile_append_of_pos h2, g1, g2, List.append_nil, ← hw,
      String.ofList_toList, consTok_eq]

theorem isValidIdent_like {w : String} (h : isValidIdent w = true) : isIdentLike w = true ∧ identTok w = .ident w := by
  unfold isValidIdent at h
  unfold isIdentLike identTok
  cases hw : w.toList with
  | nil => rw [hw] at h; simp at h
  | cons c cs =>
    rw [hw] at h
    simp only [Bool.and_eq_true, Bool.not_eq_true'] at h
    have h2 : ¬ w ∈ reservedKeywords := by simpa using h.2
    simp [h.1.1, h.1.2, h2]

theorem lexI_ident (w : String) (h : isValidIdent w = true) : LexI w.toList [.ident w] := by
  obtain ⟨h1, h2⟩ := isValidIdent_like h
  simpa [h2] using lexI_word w h1

/-! ## quoted strings -/

theorem scanStr_cons (acc : List Char) (c : Char) (cs : List Char) :
    scanStr acc (c :: cs) =
      if c = '"' then some (acc.reverse, cs)
      else if c = '\n' then none
      else if c = '\\' then
        match cs with
        | [] => none
        | e :: r => scanStr (e :: c :: acc) r
      else scanStr (c :: acc) cs := by
  conv => lhs; rw [scanStr.eq_def]
  rfl

theorem scanStr_plain (tail : List Char) : ∀ (l acc : List Char), (∀ x ∈ l, x ≠ '"' ∧ x ≠ '\n' ∧ x ≠ '\\') →
    scanStr acc (l ++ tail) = scanStr (l.reverse ++ acc) tail
  | [], acc, _ => by simp
  | x :: l, acc, h => by
    obtain ⟨h1, h2, h3⟩ := h x (by simp)
    have ih := scanStr_plain tail l (x :: acc) (fun y hy => h y (by simp [hy]))
    simp only [List.cons_append, List.reverse_cons, List.append_assoc]
    rw [scanStr_cons, if_neg h1, if_neg h2, if_neg h3, ih]
    simp

theorem hexDigit_plain (k : Nat) (hk : k < 16) :
    hexDigitLowerT k ≠ '"' ∧ hexDigitLowerT k ≠ '\n' ∧ hexDigitLowerT k ≠ '\\' := by
  have h : ∀ k : Fin 16, hexDigitLowerT k.val ≠ '"' ∧ hexDigitLowerT k.val ≠ '\n' ∧ hexDigitLowerT k.val ≠ '\\' := by decide
  exact h ⟨k, hk⟩

theorem hexDigitsOf_plain (c : Char) : ∀ x ∈ hexDigitsOf c.val.toNat, x ≠ '"' ∧ x ≠ '\n' ∧ x ≠ '\\' := by
  have hvalid : c.val.toNat.isValidChar := c.valid
  have hlt : c.val.toNat < 16 ^ 6 := by
    have : (16 : Nat) ^ 6 = 16777216 := by decide
    rw [this]
    rcases hvalid with h | ⟨_, h⟩ <;> omega
  obtain ⟨ds, e1, e2, _, _, _⟩ := hexDigitsAux_spec 8 6 c.val.toNat [] (by omega) (by omega) hlt
  unfold hexDigitsOf
  rw [e1, List.append_nil]
  intro x hx
  obtain ⟨d, hd, rfl⟩ := List.mem_map.mp hx
  exact hexDigit_plain d (e2 d hd)

theorem scanStr_quoteChar (c : Char) (acc tail : List Char) :
    scanStr acc (quoteChar c ++ tail) = scanStr ((quoteChar c).reverse ++ acc) tail := by
  unfold quoteChar
  split
  · simp [scanStr]
  · split
    · simp [scanStr]
    · split
      · simp [scanStr]
      · split
        · simp [scanStr]
        · split
          · simp [scanStr]
          · split
            · simp [scanStr]
            · rename_i hq hb hn _ _ _
              split
              · rename_i hr
                have hnl : c ≠ '\n' := hn
                simp only [List.singleton_append, List.reverse_singleton]
                rw [scanStr_cons, if_neg hq, if_neg hnl, if_neg hb]
              · have e : ['\\', 'u', '{'] ++ hexDigitsOf c.val.toNat ++ ['}'] ++ tail =
                    '\\' :: 'u' :: (('{' :: (hexDigitsOf c.val.toNat ++ ['}'])) ++ tail) := by simp
                rw [e, scanStr]
                simp only [show ¬ ('\\' : Char) = '"' by decide, show ¬ ('\\' : Char) = '\n' by decide, if_false, if_true]
                rw [scanStr_plain]
                · simp
                · intro x hx
                  simp only [List.mem_cons, List.mem_append, List.not_mem_nil, or_false] at hx
                  rcases hx with rfl | hx | rfl
                  · decide
                  · exact hexDigitsOf_plain c x hx
                  · decide

theorem scanStr_quoteBody (rest : List Char) : ∀ (s acc : List Char),
    scanStr acc (quoteBody s ++ '"' :: rest) = some (acc.reverse ++ quoteBody s, rest)
  | [], acc => by simp [quoteBody, scanStr_cons]
  | c :: s, acc => by
    have hb : quoteBody (c :: s) = quoteChar c ++ quoteBody s := by simp [quoteBody]
    rw [hb, List.append_assoc, scanStr_quoteChar, scanStr_quoteBody rest s]
    simp

/-- a quoted string, for EVERY string `v` -/
theorem lexS_quote (v : String) : LexS (quoteCedar v).toList [.str v] :=
  ⟨1, by simp [quoteCedar], fun rest n _ => by
    have e : (quoteCedar v).toList ++ rest = '"' :: (quoteBody v.toList ++ '"' :: rest) := by simp [quoteCedar]
    rw [e, lexFuel]
    simp only [show ¬ (('"' : Char) = ' ' ∨ ('"' : Char) = '\t' ∨ ('"' : Char) = '\r' ∨ ('"' : Char) = '\n') by decide,
      show ¬ ('"' : Char) = '/' by decide, false_and, if_false, show isIdentStart '"' = false by decide,
      Bool.false_eq_true, if_true]
    rw [scanStr_quoteBody]
    simp only [List.reverse_nil, List.nil_append]
    have := unquoteFuel_quoteBody v.toList (quoteBody v.toList).length (Nat.le_refl _)
    simp only [unquoteCedar, this, String.ofList_toList, consTok_eq]⟩

theorem startsNI_quote (v : String) : startsNI (quoteCedar v).toList = true := by
  simp [quoteCedar, startsNI]; decide

/-! ## paths -/

theorem toList_joinAux : ∀ (rest : List String) (p : String),
    (rest.foldl (fun p s => p ++ "::" ++ s) p).toList = p.toList ++ rest.flatMap (fun c => ':' :: ':' :: c.toList)
  | [], p => by simp
  | c :: rest, p => by
    rw [List.foldl_cons, toList_joinAux rest]
    simp [String.toList_append]

theorem lexI_pathAux : ∀ (rest : List String) (pre : List Char) (tp : List Tok), LexI pre tp →
    (∀ c ∈ rest, isValidIdent c = true) →
    LexI (pre ++ rest.flatMap (fun c => ':' :: ':' :: c.toList)) (tp ++ rest.flatMap (fun c => [.dcolon, .ident c]))
  | [], pre, tp, h, _ => by simpa using h
  | c :: rest, pre, tp, h, hr => by
    have hc : LexI (':' :: ':' :: c.toList) [.dcolon, .ident c] :=
      (lexS_dcolon.sx (lexI_ident c (hr c (by simp)))).cast (by simp) (by simp)
    have h' := h.ix hc (by simp [startsNI]; decide)
    have ih := lexI_pathAux rest _ _ h' (fun x hx => hr x (by simp [hx]))
    exact ih.cast (by simp) (by simp)

theorem lexI_comps (f : String) (rest : List String) (hf : isIdentLike f = true) (hr : ∀ c ∈ rest, isValidIdent c = true) :
    LexI (joinPath (f :: rest)).toList (identTok f :: rest.flatMap fun c => [.dcolon, .ident c]) := by
  have := lexI_pathAux rest _ _ (lexI_word f hf) hr
  unfold joinPath
  rw [toList_joinAux]
  simpa using this

/-- what `parsePath` reads -/
theorem lexI_typePath (n : String) (h : isTypePath n = true) : LexI n.toList (toksPath n) := by
  unfold isTypePath at h
  unfold toksPath
  cases hp : pathComps n with
  | nil => rw [hp] at h; simp at h
  | cons f rest =>
    rw [hp] at h
    simp only [Bool.and_eq_true, Bool.or_eq_true, beq_iff_eq, List.all_eq_true] at h
    obtain ⟨⟨h1, h2⟩, h3⟩ := h
    have hf : isIdentLike f = true := by
      rcases h1 with h1 | h1
      · subst h1; decide +kernel
      · exact (isValidIdent_like h1).1
    have := lexI_comps f rest hf h2
    rw [h3] at this
    exact this

/-- a namespace name -/
theorem lexI_nsPath (n : String) (h : isNsPath n = true) : LexI n.toList (toksPath n) := by
  unfold isNsPath at h
  unfold toksPath
  simp only [Bool.and_eq_true, beq_iff_eq, List.all_eq_true] at h
  obtain ⟨h1, h2⟩ := h
  cases hp : pathComps n with
  | nil =>
    rw [hp] at h2
    simp only [joinPath] at h2
    rw [← h2]
    exact Lex.nil
  | cons f rest =>
    rw [hp] at h1 h2
    have := lexI_comps f rest (isValidIdent_like (h1 f (by simp))).1 (fun c hc => h1 c (by simp [hc]))
    rw [h2] at this
    exact this

end CedarGo.Schema.TextLex
