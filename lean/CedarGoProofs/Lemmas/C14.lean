/-
  Helper lemmas for C14 (determinism).
  * sorting forgets the order in which the keys were collected (`sortBy_eq_of_perm`);
  * `mkRecord` forgets the insertion order of distinct keys (`mkRecord_perm`);
  * a record literal evaluates its entries in key order (`canonKVs`, Lemmas/RecordLit.lean): the same result for
    every order in which the map yields them (`evalRecordLitOrd_perm`);
  * `containsAll` / `containsAny` / `in` over permuted member lists;
  * the entity store is only read through `Get` (`eval_sameStore`);
  * `simE`: equality of results up to WHICH error is reported (kept for the regression statement).
-/
import CedarGo.Model.Order
import CedarGoProofs.Properties.C02
import CedarGoProofs.Properties.C03
import CedarGoProofs.Properties.C04
import CedarGoProofs.Lemmas.RecordLit
namespace CedarGo

/-! ### sorting -/

theorem insertBy_perm {α : Type} (le : α → α → Bool) (x : α) (l : List α) : (insertBy le x l).Perm (x :: l) := by
  induction l with
  | nil => simp [insertBy]
  | cons y ys ih =>
    simp only [insertBy]
    split
    · exact List.Perm.refl _
    · exact (List.Perm.cons y ih).trans (List.Perm.swap x y ys)

theorem sortBy_perm {α : Type} (le : α → α → Bool) (l : List α) : (sortBy le l).Perm l := by
  induction l with
  | nil => simp [sortBy]
  | cons x xs ih => exact (insertBy_perm le x _).trans (List.Perm.cons x ih)

/-- a Boolean order that is total, transitive and antisymmetric -/
structure LinOrd {α : Type} (le : α → α → Bool) : Prop where
  total : ∀ a b, le a b = true ∨ le b a = true
  trans : ∀ a b c, le a b = true → le b c = true → le a c = true
  antisymm : ∀ a b, le a b = true → le b a = true → a = b

theorem insertBy_sorted {α : Type} {le : α → α → Bool} (h : LinOrd le) (x : α) (l : List α)
    (hs : l.Pairwise (fun a b => le a b = true)) : (insertBy le x l).Pairwise (fun a b => le a b = true) := by
  induction l with
  | nil => simp [insertBy]
  | cons y ys ih =>
    have hy := List.pairwise_cons.mp hs
    simp only [insertBy]
    split
    · rename_i hxy
      refine List.pairwise_cons.mpr ⟨?_, hs⟩
      intro a ha
      cases ha with
      | head => exact hxy
      | tail _ ha => exact h.trans _ _ _ hxy (hy.1 a ha)
    · rename_i hxy
      have hyx : le y x = true := by
        rcases h.total x y with h1 | h1
        · exact absurd h1 hxy
        · exact h1
      refine List.pairwise_cons.mpr ⟨?_, ih hy.2⟩
      intro a ha
      have := (insertBy_perm le x ys).mem_iff.mp ha
      cases this with
      | head => exact hyx
      | tail _ ha => exact hy.1 a ha

theorem sortBy_sorted {α : Type} {le : α → α → Bool} (h : LinOrd le) (l : List α) :
    (sortBy le l).Pairwise (fun a b => le a b = true) := by
  induction l with
  | nil => simp [sortBy]
  | cons x xs ih => exact insertBy_sorted h x _ ih

/-- sorting forgets the order in which the keys were collected -/
theorem sortBy_eq_of_perm {α : Type} {le : α → α → Bool} (h : LinOrd le) {l₁ l₂ : List α} (hp : l₁.Perm l₂) :
    sortBy le l₁ = sortBy le l₂ :=
  List.Perm.eq_of_pairwise (le := fun a b => le a b = true) (fun a b _ _ => h.antisymm a b)
    (sortBy_sorted h l₁) (sortBy_sorted h l₂) ((sortBy_perm le l₁).trans (hp.trans (sortBy_perm le l₂).symm))

theorem strLe_linOrd : LinOrd strLe where
  total a b := by simp only [strLe, decide_eq_true_eq]; exact String.le_total a b
  trans a b c := by simp only [strLe, decide_eq_true_eq]; exact String.le_trans
  antisymm a b := by simp only [strLe, decide_eq_true_eq]; exact String.le_antisymm

theorem natLe_linOrd : LinOrd natLe where
  total a b := by simp only [natLe, decide_eq_true_eq]; omega
  trans a b c := by simp only [natLe, decide_eq_true_eq]; omega
  antisymm a b := by simp only [natLe, decide_eq_true_eq]; omega

theorem uidLe_iff (a b : UID) : uidLe a b = true ↔ a.1 < b.1 ∨ (a.1 = b.1 ∧ a.2 ≤ b.2) := by
  simp [uidLe]

theorem uidLe_linOrd : LinOrd uidLe where
  total a b := by
    simp only [uidLe_iff]
    by_cases h1 : a.1 < b.1
    · exact .inl (.inl h1)
    · by_cases h2 : b.1 < a.1
      · exact .inr (.inl h2)
      · have e : a.1 = b.1 := String.le_antisymm (String.not_lt.mp h2) (String.not_lt.mp h1)
        rcases String.le_total a.2 b.2 with h | h
        · exact .inl (.inr ⟨e, h⟩)
        · exact .inr (.inr ⟨e.symm, h⟩)
  trans a b c := by
    simp only [uidLe_iff]
    rintro (h1 | ⟨e1, h1⟩) (h2 | ⟨e2, h2⟩)
    · exact .inl (String.lt_trans h1 h2)
    · exact .inl (e2 ▸ h1)
    · exact .inl (e1 ▸ h2)
    · exact .inr ⟨e1.trans e2, String.le_trans h1 h2⟩
  antisymm a b := by
    simp only [uidLe_iff]
    rintro (h1 | ⟨e1, h1⟩) (h2 | ⟨e2, h2⟩)
    · exact absurd h2 (String.lt_asymm h1)
    · exact absurd (e2 ▸ h1) (String.lt_irrefl _)
    · exact absurd (e1 ▸ h2) (String.lt_irrefl _)
    · exact Prod.ext e1 (String.le_antisymm h1 h2)

theorem sortIds_eq_sortBy (l : List PolicyID) : sortIds l = sortBy strLe l := by
  have hi : ∀ (x : PolicyID) (l : List PolicyID), insertId x l = insertBy strLe x l := by
    intro x l
    induction l with
    | nil => rfl
    | cons y ys ih => simp only [insertId, insertBy, strLe, decide_eq_true_eq, ih]
  induction l with
  | nil => rfl
  | cons x xs ih => simp only [sortIds, sortBy, ih, hi]


/-! ### `canonKVs` (the evaluation / decoding order of a map's entries) is sorting by key -/

theorem insertBy_sorted_of {α : Type} {le : α → α → Bool} (ht : ∀ a b, le a b = true ∨ le b a = true)
    (htr : ∀ a b c, le a b = true → le b c = true → le a c = true) (x : α) (l : List α)
    (hs : l.Pairwise (fun a b => le a b = true)) : (insertBy le x l).Pairwise (fun a b => le a b = true) := by
  induction l with
  | nil => simp [insertBy]
  | cons y ys ih =>
    have hy := List.pairwise_cons.mp hs
    simp only [insertBy]
    split
    · rename_i hxy
      refine List.pairwise_cons.mpr ⟨?_, hs⟩
      intro a ha
      cases ha with
      | head => exact hxy
      | tail _ ha => exact htr _ _ _ hxy (hy.1 a ha)
    · rename_i hxy
      have hyx : le y x = true := by
        rcases ht x y with h1 | h1
        · exact absurd h1 hxy
        · exact h1
      refine List.pairwise_cons.mpr ⟨?_, ih hy.2⟩
      intro a ha
      have := (insertBy_perm le x ys).mem_iff.mp ha
      cases this with
      | head => exact hyx
      | tail _ ha => exact hy.1 a ha

theorem sortBy_sorted_of {α : Type} {le : α → α → Bool} (ht : ∀ a b, le a b = true ∨ le b a = true)
    (htr : ∀ a b c, le a b = true → le b c = true → le a c = true) (l : List α) :
    (sortBy le l).Pairwise (fun a b => le a b = true) := by
  induction l with
  | nil => simp [sortBy]
  | cons x xs ih => exact insertBy_sorted_of ht htr x _ ih

theorem eq_of_key_eq {α : Type} : ∀ {l : List (String × α)}, (l.map (·.1)).Nodup → ∀ a ∈ l, ∀ b ∈ l, a.1 = b.1 → a = b
  | [], _, a, ha, _, _, _ => by cases ha
  | x :: l, nd, a, ha, b, hb, hk => by
    simp only [List.map_cons, List.nodup_cons] at nd
    rcases List.mem_cons.mp ha with ha' | ha'
    · rcases List.mem_cons.mp hb with hb' | hb'
      · rw [ha', hb']
      · have : x.1 ∈ l.map (·.1) := List.mem_map.mpr ⟨b, hb', by rw [← hk, ha']⟩
        exact absurd this nd.1
    · rcases List.mem_cons.mp hb with hb' | hb'
      · have : x.1 ∈ l.map (·.1) := List.mem_map.mpr ⟨a, ha', by rw [hk, hb']⟩
        exact absurd this nd.1
      · exact eq_of_key_eq nd.2 a ha' b hb' hk

/-- On the entries of a Go map (distinct keys) `canonKVs` IS sorting by key: the model of
    `for _, k := range slices.Sorted(maps.Keys(m))`. -/
theorem canonKVs_eq_sortBy {α : Type} (l : List (String × α)) (nd : (l.map (·.1)).Nodup) :
    canonKVs l = sortBy keyLe l := by
  have ht : ∀ a b : String × α, keyLe a b = true ∨ keyLe b a = true := fun a b => strLe_linOrd.total a.1 b.1
  have htr : ∀ a b c : String × α, keyLe a b = true → keyLe b c = true → keyLe a c = true :=
    fun a b c => strLe_linOrd.trans a.1 b.1 c.1
  have s1 : (canonKVs l).Pairwise (fun a b => keyLe a b = true) :=
    (canonKVs_sorted l).imp (fun {a b} h => by
      simp only [keyLe, strLe, decide_eq_true_eq]; exact String.not_lt.mp (String.lt_asymm h))
  have s2 := sortBy_sorted_of ht htr l
  have p1 := canonKVs_keys_perm l nd
  have p2 := sortBy_perm keyLe l
  refine List.Perm.eq_of_pairwise (le := fun a b => keyLe a b = true) ?_ s1 s2 (p1.trans p2.symm)
  intro a b ha hb h1 h2
  exact eq_of_key_eq nd a (p1.mem_iff.mp ha) b (p2.mem_iff.mp hb) (strLe_linOrd.antisymm a.1 b.1 h1 h2)


/-! ### `mkRecord` does not depend on the order in which distinct keys are stored -/

abbrev KSorted (l : List (String × Value)) : Prop := l.Pairwise (fun a b => a.1 < b.1)

theorem kvInsert_mem_imp (k : String) (v : Value) (acc : List (String × Value)) (x : String × Value)
    (h : x ∈ kvInsert k v acc) : x = (k, v) ∨ x ∈ acc := by
  induction acc with
  | nil => simp [kvInsert] at h; exact .inl h
  | cons kv rest ih =>
    obtain ⟨k', v'⟩ := kv
    simp only [kvInsert] at h
    split at h
    · simp only [List.mem_cons] at h ⊢; rcases h with h | h | h <;> simp [h]
    · split at h
      · simp only [List.mem_cons] at h ⊢; rcases h with h | h <;> simp [h]
      · simp only [List.mem_cons] at h ⊢
        rcases h with h | h
        · simp [h]
        · rcases ih h with h | h <;> simp [h]

theorem kvInsert_mem_of_fresh (k : String) (v : Value) (acc : List (String × Value)) (hk : k ∉ acc.map (·.1))
    (x : String × Value) : x ∈ kvInsert k v acc ↔ x = (k, v) ∨ x ∈ acc := by
  induction acc with
  | nil => simp [kvInsert]
  | cons kv rest ih =>
    obtain ⟨k', v'⟩ := kv
    simp only [List.map_cons, List.mem_cons, not_or] at hk
    simp only [kvInsert]
    split
    · simp
    · split
      · rename_i _ heq
        exact absurd (by simpa using heq) hk.1
      · simp only [List.mem_cons, ih hk.2]
        constructor <;> (intro h; rcases h with h | h | h <;> simp [h])

theorem kvInsert_sorted (k : String) (v : Value) (acc : List (String × Value)) (hs : KSorted acc) :
    KSorted (kvInsert k v acc) := by
  unfold KSorted at *
  induction acc with
  | nil => simp [kvInsert]
  | cons kv rest ih =>
    obtain ⟨k', v'⟩ := kv
    have hc := List.pairwise_cons.mp hs
    simp only [kvInsert]
    split
    · rename_i hlt
      refine List.pairwise_cons.mpr ⟨?_, hs⟩
      intro b hb
      cases hb with
      | head => exact hlt
      | tail _ hb => exact String.lt_trans hlt (hc.1 b hb)
    · rename_i hnlt
      split
      · rename_i heq
        have e : k = k' := by simpa using heq
        subst e
        exact List.pairwise_cons.mpr ⟨hc.1, hc.2⟩
      · rename_i hne
        have hne' : k ≠ k' := by simpa using hne
        have hlt : k' < k := by
          rcases String.le_total k k' with h | h
          · exact absurd (String.le_antisymm h (String.not_lt.mp hnlt)) hne'
          · exact String.not_le.mp (fun hle => hne' (String.le_antisymm hle h))
        refine List.pairwise_cons.mpr ⟨?_, ih hc.2⟩
        intro b hb
        rcases kvInsert_mem_imp k v rest b hb with h | h
        · rw [h]; exact hlt
        · exact hc.1 b h

def insAll (acc l : List (String × Value)) : List (String × Value) :=
  l.foldl (fun acc kv => kvInsert kv.1 kv.2 acc) acc

theorem insAll_spec (l acc : List (String × Value)) (hs : KSorted acc) (nd : (l.map (·.1)).Nodup)
    (hd : ∀ kv ∈ l, kv.1 ∉ acc.map (·.1)) :
    KSorted (insAll acc l) ∧ ∀ x, x ∈ insAll acc l ↔ x ∈ acc ∨ x ∈ l := by
  induction l generalizing acc with
  | nil => simp [insAll, hs]
  | cons kv rest ih =>
    obtain ⟨k, v⟩ := kv
    have hn := List.nodup_cons.mp nd
    have hfresh : k ∉ acc.map (·.1) := hd (k, v) (by simp)
    have hmem := kvInsert_mem_of_fresh k v acc hfresh
    have hd' : ∀ kv' ∈ rest, kv'.1 ∉ (kvInsert k v acc).map (·.1) := by
      intro kv' hkv' hin
      obtain ⟨y, hy, hy1⟩ := List.mem_map.mp hin
      rcases (hmem y).mp hy with h | h
      · rw [h] at hy1
        exact hn.1 (List.mem_map.mpr ⟨kv', hkv', hy1.symm⟩)
      · exact hd kv' (by simp [hkv']) (List.mem_map.mpr ⟨y, h, hy1⟩)
    obtain ⟨a, b⟩ := ih (kvInsert k v acc) (kvInsert_sorted _ _ _ hs) hn.2 hd'
    refine ⟨a, ?_⟩
    intro x
    have : insAll acc ((k, v) :: rest) = insAll (kvInsert k v acc) rest := rfl
    rw [this, b x, hmem x]
    simp only [List.mem_cons]
    constructor
    · rintro ((h | h) | h)
      · exact .inr (.inl h)
      · exact .inl h
      · exact .inr (.inr h)
    · rintro (h | h | h)
      · exact .inl (.inr h)
      · exact .inl (.inl h)
      · exact .inr h

theorem KSorted.nodup {l : List (String × Value)} (h : KSorted l) : l.Nodup := by
  unfold KSorted at h
  exact h.imp (fun {a b} hab heq => by rw [heq] at hab; exact String.lt_irrefl _ hab)

/-- `types.NewRecord` of a Go map: the same record whatever order the (distinct) keys were stored in -/
theorem mkRecord_perm {l₁ l₂ : List (String × Value)} (hp : l₁.Perm l₂) (nd : (l₁.map (·.1)).Nodup) :
    mkRecord l₁ = mkRecord l₂ := by
  have nd2 : (l₂.map (·.1)).Nodup := (hp.map _).nodup nd
  obtain ⟨s1, m1⟩ := insAll_spec l₁ [] (by simp [KSorted]) nd (by simp)
  obtain ⟨s2, m2⟩ := insAll_spec l₂ [] (by simp [KSorted]) nd2 (by simp)
  have hperm : (insAll [] l₁).Perm (insAll [] l₂) := by
    rw [List.perm_ext_iff_of_nodup s1.nodup s2.nodup]
    intro x
    rw [m1, m2]
    simp [hp.mem_iff]
  have : insAll [] l₁ = insAll [] l₂ :=
    List.Perm.eq_of_pairwise (le := fun a b => a.1 < b.1)
      (fun a b _ _ h1 h2 => absurd h2 (String.lt_asymm h1)) s1 s2 hperm
  unfold mkRecord
  exact congrArg Value.record this

theorem simE_refl {α : Type} (a : Except Err α) : simE a a := by cases a <;> simp [simE]

theorem simE_symm {α : Type} {a b : Except Err α} (h : simE a b) : simE b a := by
  cases a <;> cases b <;> simp_all [simE]

theorem simE_trans {α : Type} {a b c : Except Err α} (h1 : simE a b) (h2 : simE b c) : simE a c := by
  cases a <;> cases b <;> cases c <;> simp_all [simE]

theorem simE_bind {α β : Type} {a b : Except Err α} {f g : α → Except Err β}
    (h : simE a b) (hf : ∀ v, simE (f v) (g v)) : simE (a >>= f) (b >>= g) := by
  cases a <;> cases b <;> simp_all [simE, bind, Except.bind]

theorem simE_bindE {α β : Type} {a b : Except Err α} {f g : α → Except Err β}
    (h : simE a b) (hf : ∀ v, simE (f v) (g v)) : simE (a.bind f) (b.bind g) := simE_bind h hf

theorem ReschedList.length_eq : ∀ (es es' : List Expr), ReschedList es es' → es'.length = es.length
  | [], es', h => by simp only [ReschedList] at h; simp [h]
  | e :: es, es', h => by
    simp only [ReschedList] at h
    obtain ⟨x, xs, rfl, _, hxs⟩ := h
    simp [ReschedList.length_eq es xs hxs]

theorem ReschedKVs.keys_eq : ∀ (kes kes' : List (String × Expr)), ReschedKVs kes kes' → kes'.map (·.1) = kes.map (·.1)
  | [], kes', h => by simp only [ReschedKVs] at h; simp [h]
  | (k, e) :: kes, kes', h => by
    simp only [ReschedKVs] at h
    obtain ⟨x, xs, rfl, _, hxs⟩ := h
    simp [ReschedKVs.keys_eq kes xs hxs]

macro "sim_auto" : tactic => `(tactic| repeat' (first
  | exact simE_refl _
  | assumption
  | apply simE_bind
  | apply simE_bindE
  | intro _
  | split))


theorem eval_record_eq_ord (kes : List (String × Expr)) (env : Env) :
    eval (.record kes) env = evalRecordLitOrd kes env := by
  rw [eval_recordLit]; unfold evalRecordLitOrd
  cases evalKVs (canonKVs kes) env <;> rfl

/-- the map yields its (distinct) keys in any order: the literal evaluates to the same result, error kind included -/
theorem evalRecordLitOrd_perm (kes₁ kes₂ : List (String × Expr)) (env : Env)
    (hp : kes₁.Perm kes₂) (hk : (kes₁.map (·.1)).Nodup) :
    evalRecordLitOrd kes₁ env = evalRecordLitOrd kes₂ env := by
  unfold evalRecordLitOrd
  rw [canonKVs_perm hp hk]

/-! ### containsAll / containsAny -/

theorem containsAllLoop_eq_all (lhs rhs : List Value) : containsAllLoop lhs rhs = rhs.all (fun x => x.memL lhs) := by
  induction rhs with
  | nil => rfl
  | cons e es ih => simp only [containsAllLoop, List.all_cons, ih]; cases e.memL lhs <;> simp

theorem containsAnyLoop_eq_any (lhs rhs : List Value) : containsAnyLoop lhs rhs = rhs.any (fun x => x.memL lhs) := by
  induction rhs with
  | nil => rfl
  | cons e es ih => simp only [containsAnyLoop, List.any_cons, ih]; cases e.memL lhs <;> simp

theorem memL_perm (v : Value) {s s' : List Value} (hs : s.Perm s') : v.memL s = v.memL s' := by
  unfold Value.memL; exact hs.any_eq

theorem eval_containsAll_eq_loop (l r : Expr) (env : Env) :
    eval (.binop .containsAll l r) env =
      (do let s ← (eval l env).bind toSet; let t ← (eval r env).bind toSet; .ok (.bool (containsAllLoop s t))) := by
  rw [eval]; simp only [containsAllLoop_eq_all]

theorem eval_containsAny_eq_loop (l r : Expr) (env : Env) :
    eval (.binop .containsAny l r) env =
      (do let s ← (eval l env).bind toSet; let t ← (eval r env).bind toSet; .ok (.bool (containsAnyLoop s t))) := by
  rw [eval]; simp only [containsAnyLoop_eq_any]

theorem containsAllLoop_perm (s s' t t' : List Value) (hs : s.Perm s') (ht : t.Perm t') :
    containsAllLoop s t = containsAllLoop s' t' := by
  rw [containsAllLoop_eq_all, containsAllLoop_eq_all, ht.all_eq]
  congr 1; funext x; exact memL_perm x hs

theorem containsAnyLoop_perm (s s' t t' : List Value) (hs : s.Perm s') (ht : t.Perm t') :
    containsAnyLoop s t = containsAnyLoop s' t' := by
  rw [containsAnyLoop_eq_any, containsAnyLoop_eq_any, ht.any_eq]
  congr 1; funext x; exact memL_perm x hs

/-! ### `in` -/

theorem mapM_toEntity_ok_of_all (xs : List Value) (h : ∀ x ∈ xs, ∃ t i, x = .entity t i) :
    ∃ us, xs.mapM toEntity = .ok us ∧ xs = us.map uidVal := by
  induction xs with
  | nil => exact ⟨[], rfl, rfl⟩
  | cons x xs ih =>
    obtain ⟨t, i, rfl⟩ := h x (by simp)
    obtain ⟨us, h1, h2⟩ := ih (fun y hy => h y (by simp [hy]))
    refine ⟨(t, i) :: us, ?_, by simp [uidVal, h2]⟩
    simp only [List.mapM_cons, h1]
    simp [toEntity, bind, Except.bind, pure, Except.pure]

theorem mapM_toEntity_error_of_bad (xs : List Value) (x : Value) (hx : x ∈ xs) (hb : ∀ t i, x ≠ .entity t i) :
    xs.mapM toEntity = .error .type := by
  induction xs with
  | nil => simp at hx
  | cons y ys ih =>
    simp only [List.mapM_cons]
    cases y with
    | entity t i =>
      have hx' : x ∈ ys := by
        cases hx with
        | head => exact absurd rfl (hb t i)
        | tail _ h => exact h
      simp [toEntity, bind, Except.bind, ih hx']
    | _ => simp [toEntity, bind, Except.bind]

/-- `a in [members]`: the result (and, in the model, the error kind) does not depend on the order in
    which the set yields its members. -/
theorem doIn_set_perm (env : Env) (a : UID) (xs xs' : List Value) (hp : xs.Perm xs') :
    doIn env a (.set xs) = doIn env a (.set xs') := by
  by_cases hall : ∀ x ∈ xs, ∃ t i, x = .entity t i
  · have hall' : ∀ x ∈ xs', ∃ t i, x = .entity t i := fun x hx => hall x (hp.mem_iff.mpr hx)
    obtain ⟨us, h1, h2⟩ := mapM_toEntity_ok_of_all xs hall
    obtain ⟨us', h1', h2'⟩ := mapM_toEntity_ok_of_all xs' hall'
    unfold doIn
    simp only [h1, h1']
    have hmem : ∀ b, b ∈ us ↔ b ∈ us' := by
      intro b
      have inj : ∀ l : List UID, b ∈ l ↔ uidVal b ∈ l.map uidVal := by
        intro l
        simp only [List.mem_map]
        constructor
        · intro h; exact ⟨b, h, rfl⟩
        · rintro ⟨c, hc, hcb⟩
          have : c = b := by
            unfold uidVal at hcb
            injection hcb with h1 h2
            exact Prod.ext h1 h2
          rw [← this]; exact hc
      rw [inj us, inj us', ← h2, ← h2']
      exact hp.mem_iff
    obtain ⟨r, hr⟩ := C03_entityInSet_total env.entities a us
    obtain ⟨r', hr'⟩ := C03_entityInSet_total env.entities a us'
    have c1 := C03_entityInSet_correct env.entities a us
    have c2 := C03_entityInSet_correct env.entities a us'
    rw [hr] at c1; rw [hr'] at c2
    simp only [hr, hr']
    have : r = true ↔ r' = true := by
      simp only [Option.some.injEq] at c1 c2
      rw [c1, c2]
      constructor <;> rintro ⟨b, hb, h⟩
      · exact ⟨b, (hmem b).mp hb, h⟩
      · exact ⟨b, (hmem b).mpr hb, h⟩
    cases r <;> cases r' <;> simp_all
  · have : ∃ x ∈ xs, ∀ t i, x ≠ .entity t i := by
      apply Classical.byContradiction
      intro hn
      apply hall
      intro x hx
      apply Classical.byContradiction
      intro hne
      exact hn ⟨x, hx, fun t i h => hne ⟨t, i, h⟩⟩
    obtain ⟨x, hx, hb⟩ := this
    unfold doIn
    simp only [mapM_toEntity_error_of_bad xs x hx hb, mapM_toEntity_error_of_bad xs' x (hp.mem_iff.mp hx) hb]

/-- …and so is the MESSAGE since the repair: of the conversion errors the one that sorts first is reported -/
theorem inSetFirstBad_perm (xs xs' : List Value) (hp : xs.Perm xs') : inSetFirstBad xs = inSetFirstBad xs' := by
  unfold inSetFirstBad
  rw [sortBy_eq_of_perm strLe_linOrd (hp.filterMap _)]

/-! ### the entity store: only `Get` is used, so insertion order is irrelevant -/

theorem Entities.get_eq_some_iff (es : Entities) (nd : (es.map (·.1)).Nodup) (u : UID) (d : EntityData) :
    es.get u = some d ↔ (u, d) ∈ es := by
  induction es with
  | nil => simp [Entities.get]
  | cons kd rest ih =>
    obtain ⟨k, d'⟩ := kd
    have hn := List.nodup_cons.mp nd
    simp only [Entities.get]
    by_cases hk : k = u
    · subst hk
      simp only [beq_self_eq_true, if_true, Option.some.injEq, List.mem_cons, Prod.mk.injEq, true_and]
      constructor
      · intro h; exact .inl h.symm
      · rintro (h | h)
        · exact h.symm
        · exact absurd (List.mem_map.mpr ⟨(k, d), h, rfl⟩) hn.1
    · have : (k == u) = false := by simpa using hk
      simp only [this, Bool.false_eq_true, if_false, ih hn.2, List.mem_cons, Prod.mk.injEq]
      constructor
      · intro h; exact .inr h
      · rintro (h | h)
        · exact absurd h.1.symm hk
        · exact h

/-- an `EntityMap` built by inserting the same entities in another order answers every `Get` alike -/
theorem Entities.get_perm {es es' : Entities} (hp : es.Perm es') (nd : (es.map (·.1)).Nodup) (u : UID) :
    es.get u = es'.get u := by
  have nd' : (es'.map (·.1)).Nodup := (hp.map _).nodup nd
  cases h : es.get u with
  | some d =>
    have := (Entities.get_eq_some_iff es nd u d).mp h
    exact ((Entities.get_eq_some_iff es' nd' u d).mpr (hp.mem_iff.mp this)).symm
  | none =>
    cases h' : es'.get u with
    | none => rfl
    | some d =>
      have := (Entities.get_eq_some_iff es' nd' u d).mp h'
      rw [(Entities.get_eq_some_iff es nd u d).mpr (hp.mem_iff.mpr this)] at h
      cases h

theorem pushParents_congr (es es' : Entities) (hg : ∀ u, es.get u = es'.get u) (entity : UID) (ks todo known : List UID) :
    pushParents es entity ks todo known = pushParents es' entity ks todo known := by
  induction ks generalizing todo known with
  | nil => rfl
  | cons k ks ih =>
    simp only [pushParents, ← hg k]
    cases es.get k with
    | none => exact ih _ _
    | some p =>
      simp only
      split
      · exact ih _ _
      · exact ih _ _

theorem inLoop_congr (es es' : Entities) (hg : ∀ u, es.get u = es'.get u) (entity : UID) (hit : List UID → Bool)
    (fuel : Nat) (cand : UID) (todo known : List UID) :
    inLoop es entity hit fuel cand todo known = inLoop es' entity hit fuel cand todo known := by
  induction fuel generalizing cand todo known with
  | zero => rfl
  | succ n ih =>
    simp only [inLoop, ← hg cand]
    cases es.get cand with
    | none =>
      simp only
      cases todo with
      | nil => rfl
      | cons c rest => exact ih _ _ _
    | some fe =>
      simp only
      split
      · rfl
      · rw [← pushParents_congr es es' hg]
        split
        · rfl
        · exact ih _ _ _

theorem entityInOne_congr (es es' : Entities) (hg : ∀ u, es.get u = es'.get u) (hl : es.length = es'.length) (a b : UID) :
    entityInOne es a b = entityInOne es' a b := by
  unfold entityInOne entityInOneFuel
  rw [hl, inLoop_congr es es' hg]

theorem entityInSet_congr (es es' : Entities) (hg : ∀ u, es.get u = es'.get u) (hl : es.length = es'.length) (a : UID) (S : List UID) :
    entityInSet es a S = entityInSet es' a S := by
  unfold entityInSet entityInSetFuel
  rw [hl, inLoop_congr es es' hg]

/-- two environments that differ only in how the same store is laid out -/
structure SameStore (env env' : Env) : Prop where
  principal : env'.principal = env.principal
  action : env'.action = env.action
  resource : env'.resource = env.resource
  context : env'.context = env.context
  get : ∀ u, env.entities.get u = env'.entities.get u
  length : env.entities.length = env'.entities.length

theorem doIn_congr {env env' : Env} (h : SameStore env env') (a : UID) (v : Value) : doIn env a v = doIn env' a v := by
  unfold doIn
  cases v <;> simp only [entityInOne_congr _ _ h.get h.length, entityInSet_congr _ _ h.get h.length]

mutual
theorem eval_sameStore : ∀ (e : Expr) (env env' : Env), SameStore env env' → eval e env = eval e env'
  | .lit v, env, env', h => by simp [eval]
  | .var v, env, env', h => by cases v <;> simp [eval, h.principal, h.action, h.resource, h.context]
  | .unop op a, env, env', h => by
    have ih := eval_sameStore a env env' h
    cases op <;> simp only [eval, ih]
  | .binop op l r, env, env', h => by
    have ihl := eval_sameStore l env env' h
    have ihr := eval_sameStore r env env' h
    cases op <;> simp only [eval, ihl, ihr, doIn_congr h, h.get]
  | .ite c t f, env, env', h => by
    have ihc := eval_sameStore c env env' h
    have iht := eval_sameStore t env env' h
    have ihf := eval_sameStore f env env' h
    simp only [eval, ihc, iht, ihf]
  | .access a k, env, env', h => by
    have ih := eval_sameStore a env env' h
    simp only [eval, ih, h.get]
  | .has a k, env, env', h => by
    have ih := eval_sameStore a env env' h
    simp only [eval, ih, h.get]
  | .like a p, env, env', h => by
    have ih := eval_sameStore a env env' h
    simp only [eval, ih]
  | .is a ty, env, env', h => by
    have ih := eval_sameStore a env env' h
    simp only [eval, ih]
  | .isIn a ty r, env, env', h => by
    have iha := eval_sameStore a env env' h
    have ihr := eval_sameStore r env env' h
    simp only [eval, iha, ihr, doIn_congr h]
  | .set es, env, env', h => by
    have ih := evalList_sameStore es env env' h
    simp only [eval, ih]
  | .record kes, env, env', h => by
    have ih := evalKVs_sameStore kes env env' h
    exact eval_recordLit_congr kes kes env env' (List.map_congr_left (fun ke hke => by rw [ih ke hke]))
  | .call fn args, env, env', h => by
    have ih := fun ks => evalTyped_sameStore args ks env env' h
    simp only [eval, ih]
theorem evalList_sameStore : ∀ (es : List Expr) (env env' : Env), SameStore env env' → evalList es env = evalList es env'
  | [], _, _, _ => by simp [evalList]
  | e :: es, env, env', h => by
    have ih1 := eval_sameStore e env env' h
    have ih2 := evalList_sameStore es env env' h
    simp only [evalList, ih1, ih2]
theorem evalKVs_sameStore : ∀ (kes : List (String × Expr)) (env env' : Env), SameStore env env' →
    ∀ ke ∈ kes, eval ke.2 env = eval ke.2 env'
  | [], _, _, _ => by intro ke hke; cases hke
  | (k, e) :: kes, env, env', h => by
    intro ke hke
    rcases List.mem_cons.mp hke with hke | hke
    · rw [hke]; exact eval_sameStore e env env' h
    · exact evalKVs_sameStore kes env env' h ke hke
theorem evalTyped_sameStore : ∀ (es : List Expr) (ks : List Kind) (env env' : Env), SameStore env env' → evalTyped es ks env = evalTyped es ks env'
  | [], _, _, _, _ => by simp [evalTyped]
  | e :: es, ks, env, env', h => by
    have ih1 := eval_sameStore e env env' h
    have ih2 := evalTyped_sameStore es ks.tail env env' h
    simp only [evalTyped, ih1, ih2]
end


/-! ### schedules of a whole expression -/

/-- whatever order the (distinct) entries are listed in, the literal evaluates alike -/
theorem evalRecord_perm (mid kes' : List (String × Expr)) (env : Env) (hp : mid.Perm kes')
    (hk : (mid.map (·.1)).Nodup) : eval (.record mid) env = eval (.record kes') env :=
  eval_recordLit_perm mid kes' env hp hk

mutual
theorem eval_resched : ∀ (e e' : Expr) (env : Env), Resched e e' → eval e env = eval e' env
  | .lit v, e', env, h => by simp only [Resched] at h; subst h; rfl
  | .var x, e', env, h => by simp only [Resched] at h; subst h; rfl
  | .unop op a, e', env, h => by
    simp only [Resched] at h
    obtain ⟨a', rfl, ha⟩ := h
    have ih := eval_resched a a' env ha
    cases op <;> simp only [eval, ih]
  | .binop op l r, e', env, h => by
    simp only [Resched] at h
    obtain ⟨l', r', rfl, hl, hr⟩ := h
    have ihl := eval_resched l l' env hl
    have ihr := eval_resched r r' env hr
    cases op <;> simp only [eval, ihl, ihr]
  | .ite c t f, e', env, h => by
    simp only [Resched] at h
    obtain ⟨c', t', f', rfl, hc, ht, hf⟩ := h
    have ihc := eval_resched c c' env hc
    have iht := eval_resched t t' env ht
    have ihf := eval_resched f f' env hf
    simp only [eval, ihc, iht, ihf]
  | .access a k, e', env, h => by
    simp only [Resched] at h
    obtain ⟨a', rfl, ha⟩ := h
    have ih := eval_resched a a' env ha
    simp only [eval, ih]
  | .has a k, e', env, h => by
    simp only [Resched] at h
    obtain ⟨a', rfl, ha⟩ := h
    have ih := eval_resched a a' env ha
    simp only [eval, ih]
  | .like a p, e', env, h => by
    simp only [Resched] at h
    obtain ⟨a', rfl, ha⟩ := h
    have ih := eval_resched a a' env ha
    simp only [eval, ih]
  | .is a ty, e', env, h => by
    simp only [Resched] at h
    obtain ⟨a', rfl, ha⟩ := h
    have ih := eval_resched a a' env ha
    simp only [eval, ih]
  | .isIn a ty r, e', env, h => by
    simp only [Resched] at h
    obtain ⟨a', r', rfl, ha, hr⟩ := h
    have iha := eval_resched a a' env ha
    have ihr := eval_resched r r' env hr
    simp only [eval, iha, ihr]
  | .set es, e', env, h => by
    simp only [Resched] at h
    obtain ⟨es', rfl, hes⟩ := h
    have ih := evalList_resched es es' env hes
    simp only [eval, ih]
  | .record kes, e', env, h => by
    simp only [Resched] at h
    obtain ⟨mid, kes', rfl, hmid, hp, hk⟩ := h
    have ih := evalKVs_resched kes mid env hmid
    have s1 : eval (.record kes) env = eval (.record mid) env := eval_recordLit_congr kes mid env env ih
    have hk' : (mid.map (·.1)).Nodup := by rw [ReschedKVs.keys_eq kes mid hmid]; exact hk
    exact s1.trans (evalRecord_perm mid kes' env hp hk')
  | .call fn args, e', env, h => by
    simp only [Resched] at h
    obtain ⟨args', rfl, hargs⟩ := h
    have ih := fun ks => evalTyped_resched args args' ks env hargs
    have hl := ReschedList.length_eq args args' hargs
    simp only [eval, hl, ih]
theorem evalList_resched : ∀ (es es' : List Expr) (env : Env), ReschedList es es' → evalList es env = evalList es' env
  | [], es', env, h => by simp only [ReschedList] at h; subst h; rfl
  | e :: es, es', env, h => by
    simp only [ReschedList] at h
    obtain ⟨x, xs, rfl, hx, hxs⟩ := h
    have ih1 := eval_resched e x env hx
    have ih2 := evalList_resched es xs env hxs
    simp only [evalList, ih1, ih2]
/-- the entries of two schedules of a literal, position by position: same key, same result -/
theorem evalKVs_resched : ∀ (kes kes' : List (String × Expr)) (env : Env), ReschedKVs kes kes' →
    kes.map (fun ke => (ke.1, eval ke.2 env)) = kes'.map (fun ke => (ke.1, eval ke.2 env))
  | [], kes', env, h => by simp only [ReschedKVs] at h; subst h; rfl
  | (k, e) :: kes, kes', env, h => by
    simp only [ReschedKVs] at h
    obtain ⟨x, xs, rfl, hx, hxs⟩ := h
    have ih1 := eval_resched e x env hx
    have ih2 := evalKVs_resched kes xs env hxs
    simp only [List.map_cons, ih1, ih2]
theorem evalTyped_resched : ∀ (es es' : List Expr) (ks : List Kind) (env : Env), ReschedList es es' → evalTyped es ks env = evalTyped es' ks env
  | [], es', ks, env, h => by simp only [ReschedList] at h; subst h; rfl
  | e :: es, es', ks, env, h => by
    simp only [ReschedList] at h
    obtain ⟨x, xs, rfl, hx, hxs⟩ := h
    have ih1 := eval_resched e x env hx
    have ih2 := evalTyped_resched es xs ks.tail env hxs
    simp only [evalTyped, ih1, ih2]
end


/-! ### policies under another schedule -/

theorem Resched_scope (v : Var) (s : Scope) : Resched (scopeToExpr v s) (scopeToExpr v s) := by
  cases s <;> simp [scopeToExpr, Resched]

theorem ReschedList_append : ∀ (a a' b b' : List Expr), ReschedList a a' → ReschedList b b' → ReschedList (a ++ b) (a' ++ b')
  | [], a', b, b', ha, hb => by simp only [ReschedList] at ha; subst ha; simpa using hb
  | x :: a, a', b, b', ha, hb => by
    simp only [ReschedList] at ha
    obtain ⟨y, ys, rfl, hy, hys⟩ := ha
    simp only [List.cons_append, ReschedList]
    exact ⟨y, ys ++ b', rfl, hy, ReschedList_append a ys b b' hys hb⟩

theorem andAll_resched : ∀ (rest rest' : List Expr) (e e' : Expr), Resched e e' → ReschedList rest rest' →
    Resched (andAll e rest) (andAll e' rest')
  | [], rest', e, e', he, hr => by simp only [ReschedList] at hr; subst hr; simpa [andAll] using he
  | x :: rest, rest', e, e', he, hr => by
    simp only [ReschedList] at hr
    obtain ⟨y, ys, rfl, hy, hys⟩ := hr
    simp only [andAll, Resched]
    exact ⟨e', andAll y ys, rfl, he, andAll_resched rest ys x y hy hys⟩

theorem condToExpr_resched (w : Bool) (e e' : Expr) (h : Resched e e') : Resched (condToExpr (w, e)) (condToExpr (w, e')) := by
  unfold condToExpr
  cases w
  · simp only [Bool.false_eq_true, if_false, Resched]; exact ⟨e', rfl, h⟩
  · simpa using h

theorem conds_resched : ∀ (cs cs' : List (Bool × Expr)), ReschedConds cs cs' →
    ReschedList (cs.map condToExpr) (cs'.map condToExpr)
  | [], cs', h => by simp only [ReschedConds] at h; subst h; simp [ReschedList]
  | (w, e) :: cs, cs', h => by
    simp only [ReschedConds] at h
    obtain ⟨x, xs, rfl, hx, hxs⟩ := h
    simp only [List.map_cons, ReschedList]
    exact ⟨_, _, rfl, condToExpr_resched w e x hx, conds_resched cs xs hxs⟩

theorem policyToExpr_resched (p p' : Policy) (h : ReschedPolicy p p') : Resched (policyToExpr p) (policyToExpr p') := by
  obtain ⟨_, hpr, hac, hre, _, hc⟩ := h
  unfold policyToExpr
  simp only [hpr, hac, hre]
  generalize hs : (if p.principal.isAll && p.action.isAll && p.resource.isAll then [Expr.lit (.bool true)]
      else (if p.principal.isAll then [] else [scopeToExpr .principal p.principal])
        ++ (if p.action.isAll then [] else [scopeToExpr .action p.action])
        ++ (if p.resource.isAll then [] else [scopeToExpr .resource p.resource])) = scopes
  have hscopes : ReschedList scopes scopes := by
    rw [← hs]
    split
    · simp [ReschedList, Resched]
    · have h1 : ∀ (v : Var) (s : Scope), ReschedList (if s.isAll then [] else [scopeToExpr v s]) (if s.isAll then [] else [scopeToExpr v s]) := by
        intro v s; split
        · simp [ReschedList]
        · simp only [ReschedList]; exact ⟨_, _, rfl, Resched_scope v s, rfl⟩
      exact ReschedList_append _ _ _ _ (ReschedList_append _ _ _ _ (h1 _ _) (h1 _ _)) (h1 _ _)
  have hall := ReschedList_append _ _ _ _ hscopes (conds_resched _ _ hc)
  generalize scopes ++ p.conditions.map condToExpr = l at hall
  generalize scopes ++ p'.conditions.map condToExpr = l' at hall
  cases l with
  | nil => simp only [ReschedList] at hall; subst hall; simp [Resched]
  | cons e rest =>
    simp only [ReschedList] at hall
    obtain ⟨y, ys, rfl, hy, hys⟩ := hall
    exact andAll_resched rest ys e y hy hys

/-- a policy under two schedules: the same result (satisfied alike, erroring alike with the same error kind) -/
theorem compile_resched (p p' : Policy) (h : ReschedPolicy p p') (env : Env) :
    evalBool (compile p) env = evalBool (compile p') env := by
  rw [C04_compile_preserves, C04_compile_preserves]
  unfold evalBool
  rw [eval_resched _ _ env (policyToExpr_resched p p' h)]

/-- the same policies (same ids) under another schedule, listed in the same order -/
def ReschedPolicies : List (PolicyID × Policy) → List (PolicyID × Policy) → Prop
  | [], l' => l' = []
  | ip :: ps, l' => ∃ p' ps', l' = (ip.1, p') :: ps' ∧ ReschedPolicy ip.2 p' ∧ ReschedPolicies ps ps'

theorem satForbids_cons (c : Policy → Expr) (env : Env) (ip : PolicyID × Policy) (ps : List (PolicyID × Policy)) :
    satForbids c env (ip :: ps) = (if satBy c env ip && isForbid ip then [tag ip] else []) ++ satForbids c env ps := by
  unfold satForbids; rw [List.filter_cons]; split <;> simp

theorem satPermits_cons (c : Policy → Expr) (env : Env) (ip : PolicyID × Policy) (ps : List (PolicyID × Policy)) :
    satPermits c env (ip :: ps) = (if satBy c env ip && isPermit ip then [tag ip] else []) ++ satPermits c env ps := by
  unfold satPermits; rw [List.filter_cons]; split <;> simp

theorem errorsOf_cons (c : Policy → Expr) (env : Env) (ip : PolicyID × Policy) (ps : List (PolicyID × Policy)) :
    errorsOf c env (ip :: ps) = (errBy c env ip).toList ++ errorsOf c env ps := by
  unfold errorsOf; rw [List.filterMap_cons]; cases errBy c env ip <;> simp

theorem authorize_resched (ps ps' : List (PolicyID × Policy)) (env : Env) (h : ReschedPolicies ps ps') :
    satForbids compile env ps = satForbids compile env ps' ∧ satPermits compile env ps = satPermits compile env ps' ∧
    errorsOf compile env ps = errorsOf compile env ps' := by
  induction ps generalizing ps' with
  | nil => simp only [ReschedPolicies] at h; subst h; simp
  | cons ip ps ih =>
    simp only [ReschedPolicies] at h
    obtain ⟨p', ps'', rfl, hp, hps⟩ := h
    obtain ⟨i1, i2, i3⟩ := ih ps'' hps
    have heq := compile_resched ip.2 p' hp env
    obtain ⟨heff, _, _, _, hpos, _⟩ := hp
    have hsat : satBy compile env (ip.1, p') = satBy compile env ip := by
      unfold satBy; simp only [heq]
    have herr : errBy compile env (ip.1, p') = errBy compile env ip := by
      unfold errBy; simp only [heq, hpos]
    have hforb : isForbid (ip.1, p') = isForbid ip := by simp [isForbid, heff]
    have hperm : isPermit (ip.1, p') = isPermit ip := by simp [isPermit, heff]
    have htag : tag (ip.1, p') = tag ip := by simp [tag, hpos]
    refine ⟨?_, ?_, ?_⟩
    · rw [satForbids_cons, satForbids_cons, hsat, hforb, htag, i1]
    · rw [satPermits_cons, satPermits_cons, hsat, hperm, htag, i2]
    · rw [errorsOf_cons, errorsOf_cons, herr, i3]

end CedarGo
