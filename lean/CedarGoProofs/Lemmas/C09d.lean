/-
  C09: the fuel bound (depth of the encoding), the expression round trip with the model's own fuel,
  and the policy level.
-/
import CedarGoProofs.Lemmas.C09c
namespace CedarGo.JsonModel
open CedarGo CedarGo.Scalars

/-! ### depth of a sorted object with distinct keys -/

theorem any_insKV {α : Type} (k k' : String) (v : α) : ∀ (l : List (String × α)),
    (insKV k v l).any (fun kv => kv.1 == k') = ((k == k') || l.any (fun kv => kv.1 == k'))
  | [] => by simp [insKV]
  | (k0, v0) :: rest => by
    simp only [insKV]
    split
    · simp
    · split
      · rename_i h; simp only [beq_iff_eq] at h; subst h; simp
      · simp only [List.any_cons, any_insKV k k' v rest]
        cases (k0 == k') <;> cases (k == k') <;> simp

theorem depthKV_insKV (k : String) (v : J) : ∀ (l : List (String × J)), l.any (fun kv => kv.1 == k) = false →
    J.depthKV (insKV k v l) = max v.depth (J.depthKV l)
  | [], _ => by simp [insKV, J.depthKV]
  | (k0, v0) :: rest, h => by
    simp only [List.any_cons, Bool.or_eq_false_iff] at h
    have hne : (k == k0) = false := by
      have := h.1; simp only [beq_eq_false_iff_ne, ne_eq] at this ⊢; exact fun e => this e.symm
    simp only [insKV, hne, Bool.false_eq_true, if_false]
    split
    · simp [J.depthKV]
    · simp only [J.depthKV, depthKV_insKV k v rest h.2]; omega

theorem depthKV_fold : ∀ (kes : List (String × Expr)) (acc : List (String × J)), keysDistinct kes = true →
    (∀ ke ∈ kes, acc.any (fun kv => kv.1 == ke.1) = false) →
    J.depthKV ((kvExprsToJ kes).foldl (fun a kv => insKV kv.1 kv.2 a) acc) = max (J.depthKV acc) (J.depthKV (kvExprsToJ kes))
  | [], acc, _, _ => by simp [kvExprsToJ, J.depthKV]
  | (k, e) :: kes, acc, hd, ha => by
    simp only [keysDistinct, Bool.and_eq_true, Bool.not_eq_true'] at hd
    simp only [kvExprsToJ, List.foldl]
    rw [depthKV_fold kes (insKV k (exprToJ e) acc) hd.2]
    · rw [depthKV_insKV k (exprToJ e) acc (ha (k, e) (by simp))]
      simp only [J.depthKV]; omega
    · intro ke hke
      rw [any_insKV]
      have h1 := ha ke (by simp [hke])
      have h2 : (k == ke.1) = false := by
        have := hd.1
        simp only [List.any_eq_false, beq_iff_eq] at this
        simp only [beq_eq_false_iff_ne, ne_eq]
        exact fun e' => this ke hke e'.symm
      simp [h1, h2]

theorem encodeValue_depth_pos (v : Value) : 1 ≤ (encodeValue v).depth := by
  cases v <;> simp [encodeValue, extJ, J.depth]

mutual
theorem needE_le_depth (e : Expr) (hr : renderableE e = true) : needE e ≤ (exprToJ e).depth := by
  cases e with
  | lit v =>
    cases v <;> simp [needE, exprToJ, J.depth, J.depthKV, J.depthL]
  | var v => simp [needE, exprToJ, J.depth, J.depthKV]
  | unop op e =>
    simp only [renderableE] at hr
    have := needE_le_depth e hr
    simp only [needE, exprToJ, J.depth, J.depthKV]; omega
  | binop op l r =>
    simp only [renderableE, Bool.and_eq_true] at hr
    have := needE_le_depth l hr.1
    have := needE_le_depth r hr.2
    simp only [needE, exprToJ, J.depth, J.depthKV]; omega
  | ite c t e =>
    simp only [renderableE, Bool.and_eq_true] at hr
    have := needE_le_depth c hr.1.1
    have := needE_le_depth t hr.1.2
    have := needE_le_depth e hr.2
    simp only [needE, exprToJ, J.depth, J.depthKV]; omega
  | access e a =>
    simp only [renderableE] at hr
    have := needE_le_depth e hr
    simp only [needE, exprToJ, J.depth, J.depthKV]; omega
  | has e a =>
    simp only [renderableE] at hr
    have := needE_le_depth e hr
    simp only [needE, exprToJ, J.depth, J.depthKV]; omega
  | like e p =>
    simp only [renderableE, Bool.and_eq_true] at hr
    have := needE_le_depth e hr.1
    simp only [needE, exprToJ, J.depth, J.depthKV]; omega
  | is e ty =>
    simp only [renderableE] at hr
    have := needE_le_depth e hr
    simp only [needE, exprToJ, J.depth, J.depthKV]; omega
  | isIn e ty r =>
    simp only [renderableE, Bool.and_eq_true] at hr
    have := needE_le_depth e hr.1
    have := needE_le_depth r hr.2
    simp only [needE, exprToJ, J.depth, J.depthKV]; omega
  | set es =>
    simp only [renderableE] at hr
    have := needEs_le_depth es hr
    simp only [needE, exprToJ, J.depth, J.depthKV]; omega
  | record kes =>
    simp only [renderableE, Bool.and_eq_true] at hr
    have h1 := needKEs_le_depth kes hr.1
    have h2 := depthKV_fold kes [] hr.2 (fun _ _ => rfl)
    simp only [needE, exprToJ, jObjOfPairs, sortKV, J.depth, J.depthKV, h2]; omega
  | call fn args =>
    simp only [renderableE, Bool.and_eq_true] at hr
    have := needEs_le_depth args hr.2
    simp only [needE, exprToJ, J.depth, J.depthKV]; omega
theorem needEs_le_depth (es : List Expr) (hr : renderableEs es = true) : needEs es ≤ J.depthL (exprsToJ es) := by
  cases es with
  | nil => simp [needEs]
  | cons e es =>
    simp only [renderableEs, Bool.and_eq_true] at hr
    have := needE_le_depth e hr.1
    have := needEs_le_depth es hr.2
    simp only [needEs, exprsToJ, J.depthL]; omega
theorem needKEs_le_depth (kes : List (String × Expr)) (hr : renderableKEs kes = true) :
    needKEs kes ≤ J.depthKV (kvExprsToJ kes) := by
  cases kes with
  | nil => simp [needKEs]
  | cons ke kes =>
    obtain ⟨k, e⟩ := ke
    simp only [renderableKEs, Bool.and_eq_true] at hr
    have := needE_le_depth e hr.1
    have := needKEs_le_depth kes hr.2
    simp only [needKEs, kvExprsToJ, J.depthKV]; omega
end

/-- **expression round trip**, both phases, with the model's own fuel -/
theorem expr_roundtrip (e : Expr) (hr : renderableE e = true) :
    decodeNode (exprToJ e) = .ok (embed e) ∧ nodeToExpr (embed e) = .ok (normE e) := by
  have := needE_le_depth e hr
  exact ⟨decode_expr e _ (by omega) hr, toExpr_embed e hr⟩

end CedarGo.JsonModel
