/-
  Helper lemmas for C01: extension functions.  The Go dispatch table (`extLookup`) and the
  specification's function enumeration name the same 22 functions with the same arities; on arguments
  of the kinds the Go evaluators convert to, every function body computes what the specification's
  `call` defines; on any other argument kinds `call` is a type error.
-/
import CedarGoProofs.Lemmas.C01Ops
namespace CedarGo
open Scalars Spec
namespace C01L

theorem ofName?_some {fn : String} {f : ExtFun} (h : ExtFun.ofName? fn = some f) : fn = f.name := by
  unfold ExtFun.ofName? at h
  have := List.find?_some h
  exact (by simpa using this : f.name = fn).symm

theorem extFun_mem_all (f : ExtFun) : f ∈ ExtFun.all := by cases f <;> simp [ExtFun.all]

theorem extLookup_none {fn : String} (h : ExtFun.ofName? fn = none) : extLookup fn = none := by
  unfold ExtFun.ofName? at h
  have hs : ∀ f : ExtFun, (f.name == fn) = false := by
    intro f
    have := List.find?_eq_none.mp h f (extFun_mem_all f)
    simpa using this
  have h1 := hs .decimal; have h2 := hs .lessThan; have h3 := hs .lessThanOrEqual; have h4 := hs .greaterThan
  have h5 := hs .greaterThanOrEqual; have h6 := hs .ip; have h7 := hs .isIpv4; have h8 := hs .isIpv6
  have h9 := hs .isLoopback; have h10 := hs .isMulticast; have h11 := hs .isInRange; have h12 := hs .datetime
  have h13 := hs .duration; have h14 := hs .offset; have h15 := hs .durationSince; have h16 := hs .toDate
  have h17 := hs .toTime; have h18 := hs .toMilliseconds; have h19 := hs .toSeconds; have h20 := hs .toMinutes
  have h21 := hs .toHours; have h22 := hs .toDays
  simp only [ExtFun.name] at h1 h2 h3 h4 h5 h6 h7 h8 h9 h10 h11 h12 h13 h14 h15 h16 h17 h18 h19 h20 h21 h22
  simp only [extLookup, extMap, List.find?_cons, h1, h2, h3, h4, h5, h6, h7, h8, h9, h10, h11, h12, h13, h14, h15,
    h16, h17, h18, h19, h20, h21, h22, List.find?_nil, Option.map_none]

theorem extLookup_name (f : ExtFun) : ∃ m, extLookup f.name = some (f.arity, m) := by
  cases f <;> exact ⟨_, rfl⟩

theorem partialErrorName_eq : partialErrorName = Spec.partialErrorName := rfl

theorem ofName?_partialError : ExtFun.ofName? Spec.partialErrorName = none := by decide +kernel

def kindsOK : List Kind → List Value → Bool
  | _, [] => true
  | ks, v :: vs => (match checkKind (ks.headD .any) v with | .ok _ => true | .error _ => false) && kindsOK ks.tail vs

theorem extSig_name (f : ExtFun) : extSig f.name =
    (match f with
     | .decimal | .ip | .datetime | .duration => [.str]
     | .lessThan | .lessThanOrEqual | .greaterThan | .greaterThanOrEqual => [.decimal, .decimal]
     | .isIpv4 | .isIpv6 | .isLoopback | .isMulticast => [.ip]
     | .isInRange => [.ip, .ip]
     | .toDate | .toTime => [.datetime]
     | .toMilliseconds | .toSeconds | .toMinutes | .toHours | .toDays => [.duration]
     | .offset => [.datetime, .duration]
     | .durationSince => [.datetime, .datetime]) := by
  cases f <;> rfl

theorem len1 {vs : List Value} (h : vs.length = 1) : ∃ a, vs = [a] := List.length_eq_one_iff.mp h
theorem len2 {vs : List Value} (h : vs.length = 2) : ∃ a b, vs = [a, b] := by
  match vs, h with
  | [a, b], _ => exact ⟨a, b, rfl⟩

set_option linter.unusedSimpArgs false in
/-- ill-kinded arguments: the specification's `call` falls through to its type-error arm -/
theorem call_type_of_not_kinds (D : DateFns) (f : ExtFun) (vs : List Value) (hlen : vs.length = f.arity)
    (hk : kindsOK (extSig f.name) vs = false) : Spec.call D f vs = .error .type := by
  rw [extSig_name] at hk
  cases f <;> simp only [ExtFun.arity] at hlen
  case lessThan | lessThanOrEqual | greaterThan | greaterThanOrEqual | isInRange | offset | durationSince =>
    obtain ⟨a, b, rfl⟩ := len2 hlen
    cases a <;> cases b <;> first | rfl | (simp [kindsOK, checkKind] at hk)
  all_goals
    obtain ⟨a, rfl⟩ := len1 hlen
    cases a <;> first | rfl | (simp [kindsOK, checkKind] at hk)

theorem checked_eq_mk (mk : Int → Value) {c : Int × Bool} {m : Int}
    (h : (c.2 = true ↔ InI64 m) ∧ (c.2 = true → c.1 = m)) :
    (if c.2 = true then Except.ok (mk c.1) else Except.error Err.overflow) =
      (if InI64 m then Except.ok (mk m) else Except.error Err.overflow : Res) := by
  by_cases hc : c.2 = true
  · simp [hc, h.1.mp hc, h.2 hc]
  · have : ¬ InI64 m := fun hm => hc (h.1.mpr hm)
    simp [hc, this]

set_option linter.unusedSimpArgs false in
/-- well-kinded arguments: every extension function body of the Go code computes what the
    specification's `call` defines (for `toDate`/`toTime`: provided `D` agrees with the Go code there) -/
theorem callExt_eq_call (D : DateFns) (f : ExtFun) (vs : List Value) (hlen : vs.length = f.arity)
    (hk : kindsOK (extSig f.name) vs = true) (hwf : Value.WFL vs)
    (hd : ∀ t, vs = [.datetime t] → (f = .toDate → D.toDate t = goDates.toDate t) ∧ (f = .toTime → D.toTime t = goDates.toTime t)) :
    callExt f.name vs = Spec.call D f vs := by
  rw [extSig_name] at hk
  cases f <;> simp only [ExtFun.arity] at hlen
  case offset =>
    obtain ⟨a, b, rfl⟩ := len2 hlen
    cases a <;> simp [kindsOK, checkKind] at hk
    cases b <;> simp [checkKind] at hk
    rename_i t d
    simp only [Value.WFL, Value.WF, and_true] at hwf
    simp only [callExt, ExtFun.name, Spec.call, BEq.rfl, if_true]
    exact checked_eq_mk .datetime (checkedAdd_spec t d hwf.1 hwf.2)
  case durationSince =>
    obtain ⟨a, b, rfl⟩ := len2 hlen
    cases a <;> simp [kindsOK, checkKind] at hk
    cases b <;> simp [checkKind] at hk
    rename_i t u
    simp only [Value.WFL, Value.WF, and_true] at hwf
    simp only [callExt, ExtFun.name, Spec.call, BEq.rfl, if_true]
    exact checked_eq_mk .duration (checkedSub_spec t u hwf.1 hwf.2)
  case toDate =>
    obtain ⟨a, rfl⟩ := len1 hlen
    cases a <;> simp [kindsOK, checkKind] at hk
    rename_i t
    have := (hd t rfl).1 rfl
    simp only [callExt, ExtFun.name, Spec.call, this, goDates, BEq.rfl, if_true]
  case toTime =>
    obtain ⟨a, rfl⟩ := len1 hlen
    cases a <;> simp [kindsOK, checkKind] at hk
    rename_i t
    have := (hd t rfl).2 rfl
    simp [callExt, ExtFun.name, Spec.call, this, goDates]
  case lessThan | lessThanOrEqual | greaterThan | greaterThanOrEqual | isInRange =>
    obtain ⟨a, b, rfl⟩ := len2 hlen
    cases a <;> first | (simp [kindsOK, checkKind] at hk; done) | skip
    cases b <;> first | (simp [kindsOK, checkKind] at hk; done) | skip
    first | rfl | simp [callExt, ExtFun.name, Spec.call]
  all_goals
    obtain ⟨a, rfl⟩ := len1 hlen
    cases a <;> first | (simp [kindsOK, checkKind] at hk; done) | skip
    first | rfl | simp [callExt, ExtFun.name, Spec.call]

end C01L
end CedarGo
