/-
  C12 helper lemmas: duration text form.
-/
import CedarGoProofs.Lemmas.C12Decimal
namespace CedarGo.Scalars
open CedarGo

/-- digit accumulation starting from `v` (the `value = value*10 + digit` loop) -/
def digitsValFrom (v : Nat) (ds : List Char) : Nat := ds.foldl (fun acc c => acc * 10 + digVal c) v

theorem digitsValFrom_zero (ds : List Char) : digitsValFrom 0 ds = digitsVal ds := rfl

theorem le_digitsValFrom (ds : List Char) : ∀ v, v ≤ digitsValFrom v ds := by
  induction ds with
  | nil => intro v; exact Nat.le_refl _
  | cons c r ih =>
    intro v
    have := ih (v * 10 + digVal c)
    simp only [digitsValFrom, List.foldl_cons] at this ⊢
    omega

/-- the digit branch of the `ParseDuration` loop consumes a run of digits without tripping the overflow guard
    as long as the final quantity fits in `int64` -/
theorem durLoop_digits (lim : Int) (ds rest : List Char) (unitI : Nat) (total : Int) (hu : unitI < 5) :
    ∀ (v : Nat) (hv : Bool), ds.all isDig = true → (digitsValFrom v ds : Int) ≤ lim →
      durLoop lim (ds ++ rest) unitI total (v : Int) hv =
        durLoop lim rest unitI total (digitsValFrom v ds : Int) (hv || !ds.isEmpty) := by
  induction ds with
  | nil => intro v hv _ _; simp [digitsValFrom]
  | cons c r ih =>
    intro v hv hd hfin
    simp only [List.all_cons, Bool.and_eq_true] at hd
    have hmono := le_digitsValFrom r (v * 10 + digVal c)
    have hfin' : ((digitsValFrom (v * 10 + digVal c) r : Nat) : Int) ≤ lim := hfin
    have hstep : ((v * 10 + digVal c : Nat) : Int) ≤ lim := by
      have : ((v * 10 + digVal c : Nat) : Int) ≤ (digitsValFrom (v * 10 + digVal c) r : Nat) := by exact_mod_cast hmono
      omega
    have hguard : ¬ ((v : Int) > (lim - (digVal c : Int)) / 10) := by
      push_cast at hstep; omega
    have hu' : ¬ unitI ≥ 5 := by omega
    rw [List.cons_append, durLoop]
    simp only [hu', if_false, hd.1, if_true, hguard]
    have := ih (v * 10 + digVal c) true hd.2 hfin'
    rw [show ((v : Int) * 10 + (digVal c : Int)) = ((v * 10 + digVal c : Nat) : Int) by push_cast; rfl, this]
    simp [digitsValFrom]


/-- the unit branch of the loop on the unit the printer writes for index `idx` -/
theorem durLoop_unit (lim : Int) (idx unitI : Nat) (rest : List Char) (total q : Int) (hidx : idx < 5) (hu : unitI ≤ idx)
    (hq2 : q ≤ lim / unitMillis idx) (ht : total ≤ lim - q * unitMillis idx)
    (hrest : idx = 2 → rest.head? ≠ some 's') :
    durLoop lim (unitChars idx ++ rest) unitI total q true =
      durLoop lim rest (idx + 1) (total + q * unitMillis idx) 0 false := by
  have hu5 : ¬ unitI ≥ 5 := by omega
  have hcases : idx = 0 ∨ idx = 1 ∨ idx = 2 ∨ idx = 3 ∨ idx = 4 := by omega
  rcases hcases with rfl | rfl | rfl | rfl | rfl
  · have h1 : ¬ (0 < unitI) := by omega
    have h2 : ¬ (q > lim / 86400000) := by simpa [unitMillis] using hq2
    have h3 : ¬ (total > lim - q * 86400000) := by simpa [unitMillis] using ht
    simp [unitChars, durLoop, hu5, isDig, unitIndex, unitMillis, h1, h2, h3]
  · have h1 : ¬ (1 < unitI) := by omega
    have h2 : ¬ (q > lim / 3600000) := by simpa [unitMillis] using hq2
    have h3 : ¬ (total > lim - q * 3600000) := by simpa [unitMillis] using ht
    simp [unitChars, durLoop, hu5, isDig, unitIndex, unitMillis, h1, h2, h3]
  · have h1 : ¬ (2 < unitI) := by omega
    have h2 : ¬ (q > lim / 60000) := by simpa [unitMillis] using hq2
    have h3 : ¬ (total > lim - q * 60000) := by simpa [unitMillis] using ht
    have h4 := hrest rfl
    simp [unitChars, durLoop, hu5, isDig, unitIndex, unitMillis, h1, h2, h3, h4]
  · have h1 : ¬ (3 < unitI) := by omega
    have h2 : ¬ (q > lim / 1000) := by simpa [unitMillis] using hq2
    have h3 : ¬ (total > lim - q * 1000) := by simpa [unitMillis] using ht
    simp [unitChars, durLoop, hu5, isDig, unitIndex, unitMillis, h1, h2, h3]
  · have h1 : ¬ (4 < unitI) := by omega
    have h2 : ¬ (lim < q) := by simp [unitMillis] at hq2; omega
    have h3 : ¬ (lim - q < total) := by simp [unitMillis] at ht; omega
    simp [unitChars, durLoop, hu5, isDig, unitMillis, h1, h2, h3]


theorem unitMillis_pos (idx : Nat) : 1 ≤ unitMillis idx := by
  unfold unitMillis; split <;> omega

/-- one `if q > 0 { digits; unit }` block of the printer is consumed by the loop, adding `q·unit` -/
theorem durLoop_part (lim : Int) (q : Int) (idx unitI : Nat) (rest : List Char) (total : Int) (hidx : idx < 5) (hu : unitI ≤ idx)
    (hq : 0 ≤ q) (hqm : q ≤ lim) (hq2 : q ≤ lim / unitMillis idx) (ht : total ≤ lim - q * unitMillis idx)
    (hrest : idx = 2 → rest.head? ≠ some 's') :
    ∃ u', u' ≤ idx + 1 ∧
      durLoop lim (durPart q idx ++ rest) unitI total 0 false = durLoop lim rest u' (total + q * unitMillis idx) 0 false := by
  by_cases hpos : q > 0
  · refine ⟨idx + 1, Nat.le_refl _, ?_⟩
    have hq' : ((q.toNat : Nat) : Int) = q := Int.toNat_of_nonneg hq
    have hd := durLoop_digits lim (natDigits q.toNat) (unitChars idx ++ rest) unitI total (by omega) 0 false
      (all_isDig_natDigits _) (by rw [digitsValFrom_zero, digitsVal_natDigits, hq']; exact hqm)
    have hne : (natDigits q.toNat).isEmpty = false := by
      cases hn : natDigits q.toNat with
      | nil => exact absurd hn (natDigits_ne_nil _)
      | cons _ _ => rfl
    rw [digitsValFrom_zero, digitsVal_natDigits, hq', hne] at hd
    simp only [durPart, hpos, if_true, List.append_assoc]
    rw [show ((0 : Nat) : Int) = 0 from rfl] at hd
    rw [hd]
    exact durLoop_unit lim idx unitI rest total q hidx hu hq2 ht hrest
  · have : q = 0 := by omega
    subst this
    exact ⟨unitI, by omega, by simp [durPart]⟩

theorem durPart_head (q : Int) (idx : Nat) (more : List Char) (x : Char) (hx : isDig x = false)
    (h : (durPart q idx ++ more).head? = some x) : more.head? = some x := by
  unfold durPart at h
  split at h
  · obtain ⟨c, r, e, hc, _⟩ := natDigits_head q.toNat
    rw [e] at h; simp at h; subst h; rw [hc] at hx; cases hx
  · simpa using h

theorem durPart_length (q : Int) (idx : Nat) (h : q > 0) : 2 ≤ (durPart q idx).length := by
  have h1 : 1 ≤ (natDigits q.toNat).length := by
    cases hn : natDigits q.toNat with
    | nil => exact absurd hn (natDigits_ne_nil _)
    | cons _ _ => simp
  have h2 : 1 ≤ (unitChars idx).length := by unfold unitChars; split <;> simp
  simp [durPart, h]; omega

/-- the text `Duration.String` writes for a positive magnitude `r` -/
def durBody (r : Int) : List Char :=
  durPart (r / 86400000) 0 ++ (durPart (r % 86400000 / 3600000) 1 ++ (durPart (r % 86400000 % 3600000 / 60000) 2 ++
    (durPart (r % 86400000 % 3600000 % 60000 / 1000) 3 ++ durPart (r % 86400000 % 3600000 % 60000 % 1000) 4)))

theorem durBody_head (r : Int) (x : Char) (hx : isDig x = false) : (durBody r).head? ≠ some x := by
  intro h
  unfold durBody at h
  have h := durPart_head _ _ _ x hx h
  have h := durPart_head _ _ _ x hx h
  have h := durPart_head _ _ _ x hx h
  have h := durPart_head _ _ _ x hx h
  rw [← List.append_nil (durPart _ 4)] at h
  have h := durPart_head _ _ _ x hx h
  simp at h

theorem durBody_length (r : Int) (hr : 0 < r) : 2 ≤ (durBody r).length := by
  unfold durBody
  simp only [List.length_append]
  have hc : r / 86400000 > 0 ∨ r % 86400000 / 3600000 > 0 ∨ r % 86400000 % 3600000 / 60000 > 0 ∨
      r % 86400000 % 3600000 % 60000 / 1000 > 0 ∨ r % 86400000 % 3600000 % 60000 % 1000 > 0 := by omega
  rcases hc with h | h | h | h | h
  · have := durPart_length _ 0 h; omega
  · have := durPart_length _ 1 h; omega
  · have := durPart_length _ 2 h; omega
  · have := durPart_length _ 3 h; omega
  · have := durPart_length _ 4 h; omega


theorem unitMillis_0 : unitMillis 0 = 86400000 := rfl
theorem unitMillis_1 : unitMillis 1 = 3600000 := rfl
theorem unitMillis_2 : unitMillis 2 = 60000 := rfl
theorem unitMillis_3 : unitMillis 3 = 1000 := rfl
theorem unitMillis_4 : unitMillis 4 = 1 := rfl

/-- the loop reads the printed magnitude back exactly, for either limit (2^63-1, or 2^63 after a `-`) -/
theorem durLoop_durBody (lim : Int) (r : Int) (hr : 0 < r) (hm : r ≤ lim) : durLoop lim (durBody r) 0 0 0 false = .ok r := by
  unfold durBody
  obtain ⟨u1, hu1, e1⟩ := durLoop_part lim (r / 86400000) 0 0
    (durPart (r % 86400000 / 3600000) 1 ++ (durPart (r % 86400000 % 3600000 / 60000) 2 ++
      (durPart (r % 86400000 % 3600000 % 60000 / 1000) 3 ++ durPart (r % 86400000 % 3600000 % 60000 % 1000) 4)))
    0 (by omega) (by omega) (by omega) (by omega) (by rw [unitMillis_0]; omega)
    (by rw [unitMillis_0]; omega) (by omega)
  rw [e1]
  obtain ⟨u2, hu2, e2⟩ := durLoop_part lim (r % 86400000 / 3600000) 1 u1
    (durPart (r % 86400000 % 3600000 / 60000) 2 ++
      (durPart (r % 86400000 % 3600000 % 60000 / 1000) 3 ++ durPart (r % 86400000 % 3600000 % 60000 % 1000) 4))
    (0 + r / 86400000 * unitMillis 0) (by omega) (by omega) (by omega) (by omega)
    (by rw [unitMillis_1]; omega)
    (by rw [unitMillis_0, unitMillis_1]; omega) (by omega)
  rw [e2]
  obtain ⟨u3, hu3, e3⟩ := durLoop_part lim (r % 86400000 % 3600000 / 60000) 2 u2
    (durPart (r % 86400000 % 3600000 % 60000 / 1000) 3 ++ durPart (r % 86400000 % 3600000 % 60000 % 1000) 4)
    (0 + r / 86400000 * unitMillis 0 + r % 86400000 / 3600000 * unitMillis 1) (by omega) (by omega) (by omega)
    (by omega) (by rw [unitMillis_2]; omega)
    (by rw [unitMillis_0, unitMillis_1, unitMillis_2]; omega)
    (by
      intro _ h
      have h := durPart_head _ _ _ 's' (by decide) h
      rw [← List.append_nil (durPart _ 4)] at h
      have h := durPart_head _ _ _ 's' (by decide) h
      simp at h)
  rw [e3]
  obtain ⟨u4, hu4, e4⟩ := durLoop_part lim (r % 86400000 % 3600000 % 60000 / 1000) 3 u3
    (durPart (r % 86400000 % 3600000 % 60000 % 1000) 4)
    (0 + r / 86400000 * unitMillis 0 + r % 86400000 / 3600000 * unitMillis 1 +
      r % 86400000 % 3600000 / 60000 * unitMillis 2) (by omega) (by omega) (by omega)
    (by omega) (by rw [unitMillis_3]; omega)
    (by rw [unitMillis_0, unitMillis_1, unitMillis_2, unitMillis_3]; omega) (by omega)
  rw [e4]
  obtain ⟨u5, hu5, e5⟩ := durLoop_part lim (r % 86400000 % 3600000 % 60000 % 1000) 4 u4 []
    (0 + r / 86400000 * unitMillis 0 + r % 86400000 / 3600000 * unitMillis 1 +
      r % 86400000 % 3600000 / 60000 * unitMillis 2 + r % 86400000 % 3600000 % 60000 / 1000 * unitMillis 3)
    (by omega) (by omega) (by omega)
    (by omega) (by rw [unitMillis_4]; omega)
    (by rw [unitMillis_0, unitMillis_1, unitMillis_2, unitMillis_3, unitMillis_4]; omega) (by omega)
  rw [List.append_nil] at e5
  rw [e5, unitMillis_0, unitMillis_1, unitMillis_2, unitMillis_3, unitMillis_4, durLoop]
  simp only [Bool.false_eq_true, if_false]
  congr 1
  omega


/-- `Duration.String` of a non-zero value: optional sign, then the body of the magnitude (MinInt64 included) -/
theorem printDurationL_eq (d : Int) (h0 : d ≠ 0) :
    printDurationL d = (if d < 0 then ['-'] else []) ++ durBody (if d < 0 then -d else d) := by
  have hr : 0 ≤ (if d < 0 then -d else d) := by split <;> omega
  unfold printDurationL durBody
  simp only [show (d == 0) = false from by simp [h0], Bool.false_eq_true, if_false]
  generalize (if d < 0 then -d else d) = r at hr ⊢
  rw [Int.tdiv_eq_ediv_of_nonneg hr, Int.tmod_eq_emod_of_nonneg hr,
    Int.tdiv_eq_ediv_of_nonneg (by omega), Int.tmod_eq_emod_of_nonneg (by omega),
    Int.tdiv_eq_ediv_of_nonneg (by omega), Int.tmod_eq_emod_of_nonneg (by omega),
    Int.tdiv_eq_ediv_of_nonneg (by omega), Int.tmod_eq_emod_of_nonneg (by omega)]

theorem parseDurationL_printDurationL (d : Int) (hI : InI64 d) :
    parseDurationL (printDurationL d) = .ok d := by
  by_cases h0 : d = 0
  · subst h0; rfl
  · rw [printDurationL_eq d h0]
    unfold InI64 minI64 maxI64 at hI
    by_cases hneg : d < 0
    · simp only [hneg, if_true, List.singleton_append]
      have hlen := durBody_length (-d) (by omega)
      have hl : ¬ (('-' :: durBody (-d)).length ≤ 1) := by rw [List.length_cons]; omega
      unfold parseDurationL
      rw [if_neg hl]
      simp only [List.head?_cons, beq_self_eq_true, if_true, List.tail_cons]
      rw [durLoop_durBody (maxI64 + 1) (-d) (by omega) (by unfold maxI64; omega)]
      simp [Except.map]
    · simp only [hneg, if_false, List.nil_append]
      have hlen := durBody_length d (by omega)
      have hl : ¬ ((durBody d).length ≤ 1) := by omega
      have hh : ((durBody d).head? == some '-') = false := by
        have := durBody_head d '-' (by decide)
        simpa using this
      unfold parseDurationL
      rw [if_neg hl, hh]
      simp only [Bool.false_eq_true, if_false]
      exact durLoop_durBody maxI64 d (by omega) (by unfold maxI64; omega)


/-! ### whatever `ParseDuration` accepts is in range (no wrap-around in the parse path) -/

theorem mul_unitMillis_le (lim : Int) (idx : Nat) (v : Int) (h0 : 0 ≤ v) (h : ¬ v > lim / unitMillis idx) :
    0 ≤ v * unitMillis idx ∧ v * unitMillis idx ≤ lim := by
  unfold unitMillis at *
  split at h <;> omega

/-- every guard of the loop is sound for its limit: no quantity, product or running total exceeds `lim` -/
theorem durLoop_ok_range (lim : Int) : ∀ (n : Nat) (cs : List Char), cs.length ≤ n → ∀ (unitI : Nat) (total value : Int) (hv : Bool) (r : Int),
    0 ≤ total → total ≤ lim → 0 ≤ value → value ≤ lim →
    durLoop lim cs unitI total value hv = .ok r → 0 ≤ r ∧ r ≤ lim := by
  intro n
  induction n with
  | zero =>
    intro cs hl unitI total value hv r h1 h2 _ _ h
    have : cs = [] := by cases cs <;> simp_all
    subst this
    unfold durLoop at h
    split at h
    · cases h
    · injection h with h; subst h; exact ⟨h1, h2⟩
  | succ n ih =>
    intro cs hl unitI total value hv r h1 h2 h3 h4 h
    cases cs with
    | nil =>
      unfold durLoop at h
      split at h
      · cases h
      · injection h with h; subst h; exact ⟨h1, h2⟩
    | cons c rest =>
      have hlr : rest.length ≤ n := by simp at hl; omega
      unfold durLoop at h
      split at h
      · split at h <;> cases h
      · split at h
        · -- digit
          simp only at h
          split at h
          · cases h
          · rename_i hg
            have hd : (0 : Int) ≤ (digVal c : Int) := Int.natCast_nonneg _
            refine ih rest hlr unitI total _ true r h1 h2 (by omega) ?_ h
            omega
        · split at h
          · split at h
            · cases h
            · simp only at h
              generalize (if (c == 'm' && rest.head? == some 's') = true then 4 else unitIndex [c]) = idx at h
              generalize (c == 'm' && rest.head? == some 's') = isMs at h
              by_cases hi : idx < unitI
              · rw [if_pos hi] at h; cases h
              · rw [if_neg hi] at h
                by_cases hq : value > lim / unitMillis idx
                · rw [if_pos hq] at h; cases h
                · rw [if_neg hq] at h
                  obtain ⟨hp0, hp1⟩ := mul_unitMillis_le lim idx value h3 hq
                  by_cases ht : total > lim - value * unitMillis idx
                  · rw [if_pos ht] at h; cases h
                  · rw [if_neg ht] at h
                    cases isMs with
                    | true =>
                      simp only [if_true] at h
                      cases rest with
                      | nil => cases h
                      | cons x rest' =>
                        simp only at h
                        exact ih rest' (by simp at hlr; omega) _ _ 0 false r (by omega) (by omega) (by omega) (by omega) h
                    | false =>
                      simp only [Bool.false_eq_true, if_false] at h
                      exact ih rest hlr _ _ 0 false r (by omega) (by omega) (by omega) (by omega) h
          · cases h

theorem parseDurationL_ok_inI64 {cs : List Char} {d : Int} (h : parseDurationL cs = .ok d) : InI64 d := by
  unfold parseDurationL at h
  split at h
  · cases h
  · split at h
    · cases hd : durLoop (maxI64 + 1) cs.tail 0 0 0 false with
      | error e => rw [hd] at h; cases h
      | ok r =>
        rw [hd] at h
        have := durLoop_ok_range (maxI64 + 1) _ cs.tail (Nat.le_refl _) 0 0 0 false r (by omega) (by unfold maxI64; omega) (by omega) (by unfold maxI64; omega) hd
        simp [Except.map] at h
        subst h
        unfold InI64 minI64 maxI64 at *; omega
    · have := durLoop_ok_range maxI64 _ cs (Nat.le_refl _) 0 0 0 false d (by omega) (by unfold maxI64; omega) (by omega) (by unfold maxI64; omega) h
      unfold InI64 minI64 maxI64 at *; omega

end CedarGo.Scalars
