/-
  C17, text half — a built-in type node always re-resolves: for schemas of the text fragment (`SchemaTextOk`) the part of
  `ResolvesAlike` (C17TextResolveA.lean) that concerns `String` / `Long` / `Bool` / extension type NODES is a theorem, not
  a hypothesis.  The printer writes `__cedar::nm` exactly when a declaration of the current or of the empty namespace
  would capture the bare name `nm`, and nothing else can capture it.  What is left of `ResolvesAlike` is `EntityRefsOk`:
  extension nodes name known extensions and explicit entity references are unambiguous.
-/
import CedarGoProofs.Lemmas.C17TextResolveA
import CedarGoProofs.Lemmas.C17TextParseA
namespace CedarGo.Schema.TextShadow
open CedarGo.Schema

/-! ## the statement -/

mutual
/-- what is left of `tyGood` once built-in nodes need no hypothesis: extension nodes are known extensions, explicit
    entity references are unambiguous -/
def tyRefsGood (r : RState) (ns : String) : Ty → Bool
  | .ext n => TextResolve.knownExt n
  | .set e => tyRefsGood r ns e
  | .record as => attrsRefsGood r ns as
  | .entityRef n =>
    (match resolveEntityTypeRef r ns n with
     | .ok et => TextResolve.nameGood r ns n (.entity et)
     | .error _ => false)
  | _ => true
def attrsRefsGood (r : RState) (ns : String) : Attrs → Bool
  | .nil => true
  | .cons _ _ _ t rest => tyRefsGood r ns t && attrsRefsGood r ns rest
end

/-- **extension nodes are known extensions and no explicit entity reference is captured** (decidable; computed from the
    registration state like `ResolvesAlike`, but silent about `String` / `Long` / `Bool` nodes and about the NAME an
    extension node is printed under) -/
def EntityRefsOk (s : Schema) : Bool :=
  match registerAll s with
  | .error _ => true
  | .ok r => TextResolve.declsAll (tyRefsGood r "") (attrsRefsGood r "") s.bare &&
      s.namespaces.all (fun nd => TextResolve.declsAll (tyRefsGood r nd.1) (attrsRefsGood r nd.1) nd.2)

/-! ## strings: the separator `::` -/

theorem sepL : "::".toList = [':', ':'] := by decide +kernel

theorem lastSepPrefix_none : ∀ (l : List Char), ':' ∉ l → lastSepPrefix l = none
  | [], _ => rfl
  | c :: cs, h => by
    have h1 : c ≠ ':' := fun e => h (by simp [e])
    have h2 : ':' ∉ cs := fun e => h (by simp [e])
    simp [lastSepPrefix, lastSepPrefix_none cs h2, h1]

/-- the prefix before the LAST separator: everything before a `::` after which no `:` follows -/
theorem lastSepPrefix_append : ∀ (a b : List Char), ':' ∉ b → lastSepPrefix (a ++ ':' :: ':' :: b) = some a
  | [], b, h => by
    have h1 : lastSepPrefix (':' :: b) = none := by
      have hb : b.head? ≠ some ':' := by
        cases b with
        | nil => simp
        | cons x xs => simp only [List.head?_cons, ne_eq, Option.some.injEq]; intro e; exact h (by simp [e])
      simp [lastSepPrefix, lastSepPrefix_none b h, hb]
    show lastSepPrefix (':' :: ':' :: b) = some []
    rw [lastSepPrefix, h1]
    simp
  | c :: a, b, h => by
    simp [lastSepPrefix, lastSepPrefix_append a b h]

theorem toList_sep (a b : String) : (a ++ "::" ++ b).toList = a.toList ++ ':' :: ':' :: b.toList := by
  simp [String.toList_append, sepL]

theorem hasSep_false (w : String) (h : ':' ∉ w.toList) : hasSep w = false := by
  simp [hasSep, lastSepPrefix_none _ h]

theorem hasSep_sep (a b : String) (h : ':' ∉ b.toList) : hasSep (a ++ "::" ++ b) = true := by
  rw [hasSep, toList_sep, lastSepPrefix_append _ _ h]; rfl

/-- cancellation at the last separator -/
theorem sep_cancel (a b a' b' : String) (hb : ':' ∉ b.toList) (hb' : ':' ∉ b'.toList)
    (h : a ++ "::" ++ b = a' ++ "::" ++ b') : a = a' ∧ b = b' := by
  have h1 : (a ++ "::" ++ b).toList = (a' ++ "::" ++ b').toList := by rw [h]
  rw [toList_sep, toList_sep] at h1
  have h2 := congrArg lastSepPrefix h1
  rw [lastSepPrefix_append _ _ hb, lastSepPrefix_append _ _ hb'] at h2
  have h3 : a.toList = a'.toList := Option.some.inj h2
  rw [h3] at h1
  have h4 : b.toList = b'.toList := by simpa using h1
  exact ⟨String.toList_injective h3, String.toList_injective h4⟩

/-- a name with a separator is not a name without a colon -/
theorem sep_ne (a b w : String) (hw : ':' ∉ w.toList) : a ++ "::" ++ b ≠ w := by
  intro e
  apply hw
  rw [← e, toList_sep]
  simp

theorem qualify_named (ns c : String) (h : ns ≠ "") : qualify ns c = ns ++ "::" ++ c := by simp [qualify, h]
theorem qualify_bare (c : String) : qualify "" c = c := by simp [qualify]

/-! ## identifiers, built-in names, namespace names -/

theorem ident_noColon (w : String) (h : isValidIdent w = true) : ':' ∉ w.toList := by
  unfold isValidIdent at h
  cases hw : w.toList with
  | nil => simp
  | cons c cs =>
    rw [hw] at h
    simp only [Bool.and_eq_true, List.all_eq_true] at h
    intro hm
    rcases List.mem_cons.mp hm with e | e
    · have := h.1.1
      rw [← e] at this
      revert this; decide
    · have := h.1.2 _ e
      revert this; decide

/-- the names the printer writes a built-in type node under -/
def isBuiltinName (n : String) : Prop :=
  n = "String" ∨ n = "Long" ∨ n = "Bool" ∨ n = "ipaddr" ∨ n = "decimal" ∨ n = "datetime" ∨ n = "duration"

theorem builtin_noColon (n : String) (h : isBuiltinName n) : ':' ∉ n.toList := by
  rcases h with rfl | rfl | rfl | rfl | rfl | rfl | rfl <;> decide +kernel

theorem knownExt_builtin (n : String) (h : TextResolve.knownExt n = true) : isBuiltinName n := by
  simp only [TextResolve.knownExt, Bool.or_eq_true, decide_eq_true_eq] at h
  unfold isBuiltinName
  grind

theorem nsPath_ne_empty (n : String) (h : isNsPath n = true) : n ≠ "" := by
  rintro rfl; revert h; decide +kernel

theorem nsPath_ne_cedar (n : String) (h : isNsPath n = true) : n ≠ "__cedar" := by
  rintro rfl; revert h; decide +kernel

theorem cedar_append (nm : String) : "__cedar::" ++ nm = "__cedar" ++ "::" ++ nm := by
  have : "__cedar::" = "__cedar" ++ "::" := by decide +kernel
  rw [this]

theorem dropPrefix_append : ∀ (p s : List Char), dropPrefix p (p ++ s) = some s
  | [], s => by cases s <;> rfl
  | c :: p, s => by simp [dropPrefix, dropPrefix_append p s]

theorem cedarSuffix_cedar (nm : String) : cedarSuffix ("__cedar::" ++ nm) = some nm := by
  have h : ("__cedar::" ++ nm).toList = "__cedar::".toList ++ nm.toList := String.toList_append
  rw [cedarSuffix, h, dropPrefix_append, Option.map_some, String.ofList_toList]

/-! ## the registration state: every registered name is a declared name, qualified -/

/-- the declaration blocks of a schema with the names of their namespaces -/
def allNs (s : Schema) : List (String × Namespace) := ("", s.bare) :: s.namespaces

/-- every registered name is `qualify ns c` for a name `c` declared in a block `(ns, d)` of `M` -/
def Keys (M : List (String × Namespace)) (r : RState) : Prop :=
  ∀ p, (p ∈ r.commonTypes.map (·.1) ∨ p ∈ r.entityTypes ∨ p ∈ r.enumTypes) →
    ∃ nd ∈ M, ∃ c ∈ declNames nd.2, p = qualify nd.1 c

theorem registerDecls_keys (M : List (String × Namespace)) (r r' : RState) (ns : String) (d : Namespace)
    (hm : (ns, d) ∈ M) (hk : Keys M r) (h : registerDecls r ns d = .ok r') : Keys M r' := by
  unfold registerDecls at h
  split at h
  · cases h
  · simp only [Except.ok.injEq] at h
    subst h
    intro p hp
    simp only [List.map_append, List.map_map, List.mem_append, List.mem_map, Function.comp_apply] at hp
    rcases hp with (hp | ⟨c, hc, rfl⟩) | (hp | ⟨c, hc, rfl⟩) | (hp | ⟨c, hc, rfl⟩)
    · exact hk p (Or.inl (by simpa using hp))
    · exact ⟨(ns, d), hm, c.1, by simp only [declNames, List.mem_append, List.mem_map]; exact Or.inr ⟨c, hc, rfl⟩, rfl⟩
    · exact hk p (Or.inr (Or.inl hp))
    · exact ⟨(ns, d), hm, c.1, by simp only [declNames, List.mem_append, List.mem_map]; exact Or.inl (Or.inl ⟨c, hc, rfl⟩), rfl⟩
    · exact hk p (Or.inr (Or.inr hp))
    · exact ⟨(ns, d), hm, c.1, by simp only [declNames, List.mem_append, List.mem_map]; exact Or.inl (Or.inr ⟨c, hc, rfl⟩), rfl⟩

theorem registerFold_keys (M : List (String × Namespace)) : ∀ (L : List (String × Namespace)) (r r' : RState),
    (∀ nd ∈ L, nd ∈ M) → Keys M r → L.foldlM (fun r nd => registerDecls r nd.1 nd.2) r = .ok r' → Keys M r'
  | [], r, r', _, hk, h => by
    simp only [List.foldlM_nil, pure, Except.pure, Except.ok.injEq] at h
    subst h; exact hk
  | nd :: rest, r, r', hm, hk, h => by
    simp only [List.foldlM_cons, bind, Except.bind] at h
    cases hr : registerDecls r nd.1 nd.2 with
    | error e => rw [hr] at h; cases h
    | ok r2 =>
      rw [hr] at h
      exact registerFold_keys M rest r2 r' (fun x hx => hm x (List.mem_cons_of_mem _ hx))
        (registerDecls_keys M r r2 nd.1 nd.2 (hm nd List.mem_cons_self) hk hr) h

theorem registerAll_keys (s : Schema) (r : RState) (h : registerAll s = .ok r) : Keys (allNs s) r := by
  rw [TextResolve.registerAll_eq] at h
  cases hr : registerDecls {} "" s.bare with
  | error e => rw [hr] at h; cases h
  | ok r1 =>
    rw [hr] at h
    have h0 : Keys (allNs s) {} := by
      intro p hp; simp at hp
    exact registerFold_keys (allNs s) s.namespaces r1 r (fun x hx => List.mem_cons_of_mem _ hx)
      (registerDecls_keys (allNs s) {} r1 "" s.bare List.mem_cons_self h0 hr) h

theorem lookup_none_of_not_mem {β} (p : String) : ∀ (l : List (String × β)), p ∉ l.map (·.1) → l.lookup p = none
  | [], _ => rfl
  | (k, v) :: l, h => by
    simp only [List.map_cons, List.mem_cons, not_or] at h
    have : (p == k) = false := by simpa using h.1
    simp only [List.lookup_cons, this]
    exact lookup_none_of_not_mem p l h.2

/-- a name that is no qualified declared name is neither a common type nor an entity type -/
theorem not_key (M : List (String × Namespace)) (r : RState) (hk : Keys M r) (p : String)
    (h : ∀ nd ∈ M, ∀ c ∈ declNames nd.2, p ≠ qualify nd.1 c) : r.common? p = none ∧ r.isEntity p = false := by
  constructor
  · apply lookup_none_of_not_mem
    intro hp
    obtain ⟨nd, hnd, c, hc, e⟩ := hk p (Or.inl hp)
    exact h nd hnd c hc e
  · cases hi : r.isEntity p with
    | false => rfl
    | true =>
      simp only [RState.isEntity, Bool.or_eq_true, List.contains_iff_mem] at hi
      obtain ⟨nd, hnd, c, hc, e⟩ := hk p (Or.inr hi)
      exact absurd e (h nd hnd c hc)

/-! ## the fragment -/

/-- what the argument uses of `SchemaTextOk`: declared names contain no colon, namespaces are not called `""` or
    `__cedar`, and their names are distinct -/
structure Frag (s : Schema) : Prop where
  bare : ∀ c ∈ declNames s.bare, ':' ∉ c.toList
  named : ∀ nd ∈ s.namespaces, ∀ c ∈ declNames nd.2, ':' ∉ c.toList
  nsNe : ∀ nd ∈ s.namespaces, nd.1 ≠ "" ∧ nd.1 ≠ "__cedar"
  nodup : (s.namespaces.map (·.1)).Nodup

theorem declsOk_idents (sh : List String) (d : Namespace) (h : declsOk sh d = true) :
    ∀ c ∈ declNames d, ':' ∉ c.toList := by
  simp only [declsOk, Bool.and_eq_true, List.all_eq_true] at h
  obtain ⟨⟨⟨⟨⟨⟨he, hn⟩, _⟩, hc⟩, _⟩, _⟩, _⟩ := h
  intro c hm
  simp only [declNames, List.mem_append, List.mem_map] at hm
  apply ident_noColon
  rcases hm with (⟨e, h1, rfl⟩ | ⟨e, h1, rfl⟩) | ⟨e, h1, rfl⟩
  · have := he e h1
    simp only [entityOk, Bool.and_eq_true] at this
    exact this.1.1.1.1
  · have := hn e h1
    simp only [enumOk, Bool.and_eq_true] at this
    exact this.1.1
  · have := hc e h1
    simp only [commonOk, Bool.and_eq_true] at this
    exact this.1.1.1

theorem frag_of_textOk (s : Schema) (h : SchemaTextOk s = true) : Frag s := by
  simp only [SchemaTextOk, Bool.and_eq_true, List.all_eq_true] at h
  obtain ⟨⟨hb, hn⟩, hd⟩ := h
  refine ⟨declsOk_idents _ _ hb, fun nd hnd => declsOk_idents _ _ (hn nd hnd).2, fun nd hnd => ?_,
    (TextParse.nodupKeys_iff _).mp hd⟩
  exact ⟨nsPath_ne_empty _ (hn nd hnd).1.1, nsPath_ne_cedar _ (hn nd hnd).1.1⟩

theorem nodup_fst_eq {β} : ∀ (l : List (String × β)) (k : String) (a b : β), (l.map (·.1)).Nodup →
    (k, a) ∈ l → (k, b) ∈ l → a = b
  | [], _, _, _, _, h, _ => by cases h
  | x :: l, k, a, b, hn, ha, hb => by
    simp only [List.map_cons, List.nodup_cons, List.mem_map, not_exists, not_and] at hn
    rcases List.mem_cons.mp ha with rfl | ha' <;> rcases List.mem_cons.mp hb with e | hb'
    · cases e; rfl
    · exact absurd rfl (hn.1 (k, b) hb')
    · subst e; exact absurd rfl (hn.1 (k, a) ha')
    · exact nodup_fst_eq l k a b hn.2 ha' hb'

/-! ## nothing but a declaration of the current or the empty namespace captures a built-in name -/

/-- no declaration of the empty namespace, no key of a named one: the bare name is free -/
theorem bare_free (s : Schema) (hf : Frag s) (r : RState) (hk : Keys (allNs s) r) (nm : String)
    (hc : ':' ∉ nm.toList) (hn : nm ∉ declNames s.bare) : r.common? nm = none ∧ r.isEntity nm = false := by
  apply not_key _ r hk
  intro nd hnd c hcd e
  rcases List.mem_cons.mp hnd with rfl | hnd
  · rw [qualify_bare] at e
    exact hn (e ▸ hcd)
  · rw [qualify_named _ _ (hf.nsNe nd hnd).1] at e
    exact sep_ne _ _ _ hc e.symm

/-- `ns::nm` is a key only if the namespace `ns` itself declares `nm` -/
theorem named_free (s : Schema) (hf : Frag s) (r : RState) (hk : Keys (allNs s) r) (ns : String) (d : Namespace)
    (hm : (ns, d) ∈ s.namespaces) (nm : String) (hc : ':' ∉ nm.toList) (hn : nm ∉ declNames d) :
    r.common? (ns ++ "::" ++ nm) = none ∧ r.isEntity (ns ++ "::" ++ nm) = false := by
  apply not_key _ r hk
  intro nd hnd c hcd e
  rcases List.mem_cons.mp hnd with rfl | hnd
  · rw [qualify_bare] at e
    exact sep_ne _ _ _ (hf.bare c hcd) e
  · rw [qualify_named _ _ (hf.nsNe nd hnd).1] at e
    obtain ⟨e1, e2⟩ := sep_cancel _ _ _ _ hc (hf.named nd hnd c hcd) e
    obtain ⟨n', d'⟩ := nd
    simp only at e1 e2 hcd
    subst e1 e2
    have := nodup_fst_eq _ _ _ _ hf.nodup hm hnd
    subst this
    exact hn hcd

/-- no key starts with the reserved namespace -/
theorem cedar_free (s : Schema) (hf : Frag s) (r : RState) (hk : Keys (allNs s) r) (nm : String)
    (hc : ':' ∉ nm.toList) : r.common? ("__cedar::" ++ nm) = none := by
  rw [cedar_append]
  refine (not_key _ r hk _ ?_).1
  intro nd hnd c hcd e
  rcases List.mem_cons.mp hnd with rfl | hnd
  · rw [qualify_bare] at e
    exact sep_ne _ _ _ (hf.bare c hcd) e
  · rw [qualify_named _ _ (hf.nsNe nd hnd).1] at e
    exact (hf.nsNe nd hnd).2 (sep_cancel _ _ _ _ hc (hf.named nd hnd c hcd) e).1.symm

/-- what the induction over a type needs to know about the place it occurs in: namespace `ns`, printer's name list `sh` -/
structure Ctx (r : RState) (ns : String) (sh : List String) : Prop where
  undecl : ∀ nm, isBuiltinName nm → nm ∉ sh → Undeclared r ns nm
  cedar : ∀ nm, isBuiltinName nm → r.common? ("__cedar::" ++ nm) = none

theorem ctx_bare (s : Schema) (hf : Frag s) (r : RState) (hk : Keys (allNs s) r) : Ctx r "" (declNames s.bare) := by
  refine ⟨fun nm hb hn => ?_, fun nm hb => cedar_free s hf r hk nm (builtin_noColon nm hb)⟩
  obtain ⟨h1, h2⟩ := bare_free s hf r hk nm (builtin_noColon nm hb) hn
  exact ⟨h1, h2, fun h => absurd rfl h⟩

theorem ctx_named (s : Schema) (hf : Frag s) (r : RState) (hk : Keys (allNs s) r) (nd : String × Namespace)
    (hm : nd ∈ s.namespaces) : Ctx r nd.1 (declNames nd.2 ++ declNames s.bare) := by
  refine ⟨fun nm hb hn => ?_, fun nm hb => cedar_free s hf r hk nm (builtin_noColon nm hb)⟩
  simp only [List.mem_append, not_or] at hn
  obtain ⟨h1, h2⟩ := bare_free s hf r hk nm (builtin_noColon nm hb) hn.2
  exact ⟨h1, h2, fun _ => named_free s hf r hk nd.1 nd.2 hm nm (builtin_noColon nm hb) hn.1⟩

/-- **a built-in name, as printed, denotes the built-in and is no common type** -/
theorem nameGood_builtin (r : RState) (ns : String) (sh : List String) (hc : Ctx r ns sh) (nm : String) (rt : RTy)
    (hb : isBuiltinName nm) (hl : lookupBuiltin nm = some rt) :
    TextResolve.nameGood r ns (builtinName sh nm) (.builtin rt) = true := by
  have hnc := builtin_noColon nm hb
  have hs1 : hasSep nm = false := hasSep_false nm hnc
  have hs2 : hasSep ("__cedar::" ++ nm) = true := by rw [cedar_append]; exact hasSep_sep _ _ hnc
  simp only [TextResolve.nameGood, Bool.and_eq_true, decide_eq_true_eq, Bool.not_eq_true', Option.isSome_eq_false_iff,
    Option.isNone_iff_eq_none]
  refine ⟨lookup_builtinName r ns sh nm rt hs1 hs2 (cedarSuffix_cedar nm) hl (hc.undecl nm hb), ?_⟩
  unfold builtinName
  by_cases hm : sh.contains nm = true
  · simp only [hm, if_true, resolveTypeRefPath, hs2]
    exact hc.cedar nm hb
  · simp only [hm, Bool.false_eq_true, if_false]
    obtain ⟨a, _, c⟩ := hc.undecl nm hb (by simpa using hm)
    unfold resolveTypeRefPath
    simp only [hs1, Bool.false_eq_true, if_false]
    by_cases hns : ns = ""
    · simp [hns, a]
    · simp [(c hns).1, a]

theorem lookupBuiltin_ext (n : String) (h : TextResolve.knownExt n = true) : lookupBuiltin n = some (.ext n) := by
  simp only [TextResolve.knownExt, Bool.or_eq_true, decide_eq_true_eq] at h
  rcases h with ((rfl | rfl) | rfl) | rfl <;> decide +kernel

mutual
theorem tyGood_of_refs (r : RState) (ns : String) (sh : List String) (hc : Ctx r ns sh) :
    ∀ t, tyRefsGood r ns t = true → TextResolve.tyGood r ns sh t = true
  | .string, _ => by
    unfold TextResolve.tyGood
    exact nameGood_builtin r ns sh hc _ _ (Or.inl rfl) (by decide +kernel)
  | .long, _ => by
    unfold TextResolve.tyGood
    exact nameGood_builtin r ns sh hc _ _ (Or.inr (Or.inl rfl)) (by decide +kernel)
  | .bool, _ => by
    unfold TextResolve.tyGood
    exact nameGood_builtin r ns sh hc _ _ (Or.inr (Or.inr (Or.inl rfl))) (by decide +kernel)
  | .ext n, h => by
    simp only [tyRefsGood] at h
    simp only [TextResolve.tyGood, Bool.and_eq_true]
    exact ⟨h, nameGood_builtin r ns sh hc n _ (knownExt_builtin n h) (lookupBuiltin_ext n h)⟩
  | .set e, h => by
    simp only [tyRefsGood] at h
    simp only [TextResolve.tyGood]
    exact tyGood_of_refs r ns sh hc e h
  | .record as, h => by
    simp only [tyRefsGood] at h
    simp only [TextResolve.tyGood]
    exact attrsGood_of_refs r ns sh hc as h
  | .entityRef n, h => by
    simp only [tyRefsGood] at h
    simp only [TextResolve.tyGood]
    exact h
  | .typeRef _, _ => by simp [TextResolve.tyGood]
theorem attrsGood_of_refs (r : RState) (ns : String) (sh : List String) (hc : Ctx r ns sh) :
    ∀ as, attrsRefsGood r ns as = true → TextResolve.attrsGood r ns sh as = true
  | .nil, _ => by simp [TextResolve.attrsGood]
  | .cons _ _ _ t rest, h => by
    simp only [attrsRefsGood, Bool.and_eq_true] at h
    simp only [TextResolve.attrsGood, Bool.and_eq_true]
    exact ⟨tyGood_of_refs r ns sh hc t h.1, attrsGood_of_refs r ns sh hc rest h.2⟩
end

/-! ## assembling over the declarations -/

theorem declsAll_mono (p p' : Ty → Bool) (q q' : Attrs → Bool) (hp : ∀ t, p t = true → p' t = true)
    (hq : ∀ as, q as = true → q' as = true) (d : Namespace) (h : TextResolve.declsAll p q d = true) :
    TextResolve.declsAll p' q' d = true := by
  have ho : ∀ o, TextResolve.optTy p o = true → TextResolve.optTy p' o = true := by
    intro o; cases o with
    | none => exact id
    | some t => exact hp t
  have hoa : ∀ o, TextResolve.optAttrs q o = true → TextResolve.optAttrs q' o = true := by
    intro o; cases o with
    | none => exact id
    | some t => exact hq t
  simp only [TextResolve.declsAll, Bool.and_eq_true, List.all_eq_true] at h ⊢
  exact ⟨⟨fun c hc => hp _ (h.1.1 c hc), fun e he => ⟨hoa _ (h.1.2 e he).1, ho _ (h.1.2 e he).2⟩⟩,
    fun a ha => ho _ (h.2 a ha)⟩

/-- **for schemas of the text fragment the built-in half of `ResolvesAlike` is a theorem**: a `String` / `Long` /
    `Bool` / (known) extension node is printed as `__cedar::nm` exactly when a declaration of the current or of the
    empty namespace would capture the bare name, and nothing else can capture it -/
theorem resolvesAlike_of_textOk (s : Schema) (h : SchemaTextOk s = true) (he : EntityRefsOk s = true) :
    TextResolve.ResolvesAlike s = true := by
  unfold TextResolve.ResolvesAlike
  unfold EntityRefsOk at he
  cases hr : registerAll s with
  | error e => rfl
  | ok r =>
    rw [hr] at he
    simp only [Bool.and_eq_true, List.all_eq_true] at he ⊢
    have hf := frag_of_textOk s h
    have hk := registerAll_keys s r hr
    refine ⟨?_, fun nd hnd => ?_⟩
    · have hc := ctx_bare s hf r hk
      exact declsAll_mono _ _ _ _ (tyGood_of_refs r "" _ hc) (attrsGood_of_refs r "" _ hc) _ he.1
    · have hc := ctx_named s hf r hk nd hnd
      exact declsAll_mono _ _ _ _ (tyGood_of_refs r nd.1 _ hc) (attrsGood_of_refs r nd.1 _ hc) _ (he.2 nd hnd)

/-! ## schemas without extension nodes and explicit entity references -/

mutual
/-- no extension-type node and no explicit entity-reference node — what the text PARSER produces (it reads every name as
    a type reference) -/
def tyPlain : Ty → Bool
  | .ext _ => false
  | .entityRef _ => false
  | .set e => tyPlain e
  | .record as => attrsPlain as
  | _ => true
def attrsPlain : Attrs → Bool
  | .nil => true
  | .cons _ _ _ t rest => tyPlain t && attrsPlain rest
end

/-- no type of the schema has an extension-type node or an explicit entity-reference node -/
def noExtNoEntityRef (s : Schema) : Bool :=
  TextResolve.declsAll tyPlain attrsPlain s.bare && s.namespaces.all (fun nd => TextResolve.declsAll tyPlain attrsPlain nd.2)

mutual
theorem tyRefsGood_of_plain (r : RState) (ns : String) : ∀ t, tyPlain t = true → tyRefsGood r ns t = true
  | .string, _ => by simp [tyRefsGood]
  | .long, _ => by simp [tyRefsGood]
  | .bool, _ => by simp [tyRefsGood]
  | .typeRef _, _ => by simp [tyRefsGood]
  | .ext _, h => by simp [tyPlain] at h
  | .entityRef _, h => by simp [tyPlain] at h
  | .set e, h => by
    simp only [tyPlain] at h
    simp only [tyRefsGood]
    exact tyRefsGood_of_plain r ns e h
  | .record as, h => by
    simp only [tyPlain] at h
    simp only [tyRefsGood]
    exact attrsRefsGood_of_plain r ns as h
theorem attrsRefsGood_of_plain (r : RState) (ns : String) : ∀ as, attrsPlain as = true → attrsRefsGood r ns as = true
  | .nil, _ => by simp [attrsRefsGood]
  | .cons _ _ _ t rest, h => by
    simp only [attrsPlain, Bool.and_eq_true] at h
    simp only [attrsRefsGood, Bool.and_eq_true]
    exact ⟨tyRefsGood_of_plain r ns t h.1, attrsRefsGood_of_plain r ns rest h.2⟩
end

/-- schemas without extension-type NODES and explicit entity-reference NODES — e.g. every AST the text parser
    produces — need no hypothesis at all -/
theorem entityRefsOk_of_plain (s : Schema) (h : noExtNoEntityRef s = true) : EntityRefsOk s = true := by
  unfold EntityRefsOk
  cases hr : registerAll s with
  | error e => rfl
  | ok r =>
    simp only [noExtNoEntityRef, Bool.and_eq_true, List.all_eq_true] at h ⊢
    exact ⟨declsAll_mono _ _ _ _ (tyRefsGood_of_plain r "") (attrsRefsGood_of_plain r "") _ h.1,
      fun nd hnd => declsAll_mono _ _ _ _ (tyRefsGood_of_plain r nd.1) (attrsRefsGood_of_plain r nd.1) _ (h.2 nd hnd)⟩

/-- a plain schema of the text fragment resolves like its text normal form, with no further hypothesis -/
theorem resolvesAlike_of_plain (s : Schema) (h : SchemaTextOk s = true) (hp : noExtNoEntityRef s = true) :
    TextResolve.ResolvesAlike s = true :=
  resolvesAlike_of_textOk s h (entityRefsOk_of_plain s hp)

/-! ## examples -/

/-- every way a built-in name can be shadowed: `Long` (enum) and `ipaddr` (entity type) in the empty namespace, `String`
    and `decimal` in namespace `A`, `datetime` in `A::B` (whose name extends `A`), `Bool` in `B` -/
def exShadow : Schema where
  bare := { commonTypes := [("X", { ty := .set (.ext "decimal") }), ("Y", { ty := .ext "ipaddr" })]
            entities := [("ipaddr", { tags := some .bool })], enums := [("Long", { values := ["a"] })] }
  namespaces := [
    ("A", { entities := [("String", { tags := some .string }), ("decimal", {})]
            commonTypes := [("Y", { ty := .record (.cons "x" false [] .long (.cons "y" false [] (.ext "decimal")
              (.cons "z" false [] (.ext "datetime") .nil))) })] }),
    ("A::B", { entities := [("datetime", { tags := some (.ext "datetime") }),
                            ("E", { shape := some (.cons "a" false [] .string (.cons "b" false [] (.ext "decimal")
                              (.cons "c" false [] (.entityRef "A::String") .nil))) })] }),
    ("B", { enums := [("Bool", { values := ["x"] })]
            actions := [("a", { appliesTo := some {
              principals := ["A::B::E"], resources := ["A::B::E"],
              context := some (.record (.cons "d" false [] (.ext "datetime") (.cons "l" false [] .bool .nil))) } })] })]

/-- the hypotheses hold for `exShadow` (and, checked by evaluation, so does the conclusion) -/
example : SchemaTextOk exShadow = true ∧ EntityRefsOk exShadow = true ∧ TextResolve.ResolvesAlike exShadow = true := by
  decide +kernel

example : TextResolve.ResolvesAlike exShadow = true :=
  resolvesAlike_of_textOk exShadow (by decide +kernel) (by decide +kernel)

/-- **what `SchemaTextOk` is needed for** (each schema satisfies `EntityRefsOk` but neither `SchemaTextOk` nor
    `ResolvesAlike`): a namespace called `__cedar` (its common type `Long` captures the printed name `__cedar::Long`);
    two namespace entries of one name (the second one's `Long` is printed bare, the first one declares `NS::Long`) -/
example :
    let bad1 : Schema := { namespaces := [("__cedar", { commonTypes := [("Long", { ty := .set .long })] })] }
    let bad2 : Schema := { namespaces := [("NS", { entities := [("Long", {})] }), ("NS", { entities := [("E", { tags := some .long })] })] }
    [bad1, bad2].all (fun s => EntityRefsOk s && !SchemaTextOk s && !TextResolve.ResolvesAlike s) = true := by
  decide +kernel

/-- a plain schema: the hypothesis-free form applies -/
example : TextResolve.ResolvesAlike
    { bare := { entities := [("Long", {})] }
      namespaces := [("NS", { entities := [("E", { tags := some (.set .long) })], commonTypes := [("T", { ty := .typeRef "E" })] })] } = true :=
  resolvesAlike_of_plain _ (by decide +kernel) (by decide +kernel)

end CedarGo.Schema.TextShadow

