/-
  Helper lemmas for C07: assembling the round trip for `renderMin` / `renderFull` on policies.
-/
import CedarGoProofs.Lemmas.C07Reject
namespace CedarGo.Text
open CedarGo

/-- the error kind of a rejected parse (decidable, unlike equality of parse results) -/
def errKind {α : Type} : Option (Except PErr α) → Option PErr
  | some (.error e) => some e
  | _ => none

def unquoteErr {α : Type} : Except UErr α → Option UErr
  | .error e => some e
  | _ => none

/-- policies covered by the proved round trip: no annotations, scope `(principal, action, resource)`, default
    position, every condition body in the expression fragment `inFrag` -/
def policyInFrag (full : Bool) (p : Policy) : Bool :=
  p.annotations.isEmpty && p.principal.isAll && p.action.isAll && p.resource.isAll && p.position == {} &&
  p.conditions.all (fun c => inFrag full c.2)

theorem simple_of_inFrag {full : Bool} {p : Policy} (h : policyInFrag full p = true) : SimplePolicy p := by
  simp only [policyInFrag, Bool.and_eq_true, List.isEmpty_iff, beq_iff_eq] at h
  obtain ⟨⟨⟨⟨⟨h1, h2⟩, h3⟩, h4⟩, h5⟩, _⟩ := h
  refine ⟨h1, ?_, ?_, ?_, h5⟩
  · cases hp : p.principal <;> simp [hp, Scope.isAll] at h2; rfl
  · cases hp : p.action <;> simp [hp, Scope.isAll] at h3; rfl
  · cases hp : p.resource <;> simp [hp, Scope.isAll] at h4; rfl

theorem reads_of_inFrag {full : Bool} {e : Expr} (h : inFrag full e = true) : ReadsAt 0 e (render full e) := by
  have hr := rend_mono (render_rend full e h) (Nat.zero_le _)
  exact (rend_spec hr (Nat.zero_le _)).1

theorem condsRend_of_inFrag {full : Bool} : ∀ (cs : List (Bool × Expr)), cs.all (fun c => inFrag full c.2) = true →
    CondsRend cs (conditionToks full cs)
  | [], _ => .nil
  | (w, e) :: cs, h => by
    simp only [List.all_cons, Bool.and_eq_true] at h
    exact .cons (reads_of_inFrag h.1) (condsRend_of_inFrag cs h.2)

theorem renderPolicy_simple (full : Bool) {p : Policy} (hp : SimplePolicy p) :
    renderPolicy full p = simpleHead p.effect ++ (conditionToks full p.conditions ++ [opT ";"]) := by
  obtain ⟨ha, hpr, hac, hre, _⟩ := hp
  unfold renderPolicy
  rw [ha, hpr, hac, hre]
  cases p.effect <;> simp [annotationToks, scopeToks, simpleHead, effectTok, varName]

theorem parse_renderPolicy {full : Bool} {p : Policy} (h : policyInFrag full p = true) :
    parsePolicy (renderPolicy full p) = some (.ok p) := by
  have hs := simple_of_inFrag h
  rw [renderPolicy_simple full hs]
  refine policy_simple_read hs (condsRend_of_inFrag _ ?_)
  simp only [policyInFrag, Bool.and_eq_true] at h
  exact h.2

end CedarGo.Text
