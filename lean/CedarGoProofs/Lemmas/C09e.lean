/-
  C09: the policy document level.
-/
import CedarGoProofs.Lemmas.C09d
namespace CedarGo.JsonModel
open CedarGo CedarGo.Scalars

/-! ### key-matching facts for `policyJSON`, `scopeJSON`, `conditionJSON` -/

@[simp] theorem kp_action_action : keyMatches "action" "action" = true := by decide +kernel
@[simp] theorem kp_action_annotations : keyMatches "action" "annotations" = false := by decide +kernel
@[simp] theorem kp_action_conditions : keyMatches "action" "conditions" = false := by decide +kernel
@[simp] theorem kp_action_effect : keyMatches "action" "effect" = false := by decide +kernel
@[simp] theorem kp_action_principal : keyMatches "action" "principal" = false := by decide +kernel
@[simp] theorem kp_action_resource : keyMatches "action" "resource" = false := by decide +kernel
@[simp] theorem kp_annotations_action : keyMatches "annotations" "action" = false := by decide +kernel
@[simp] theorem kp_annotations_annotations : keyMatches "annotations" "annotations" = true := by decide +kernel
@[simp] theorem kp_annotations_conditions : keyMatches "annotations" "conditions" = false := by decide +kernel
@[simp] theorem kp_annotations_effect : keyMatches "annotations" "effect" = false := by decide +kernel
@[simp] theorem kp_annotations_principal : keyMatches "annotations" "principal" = false := by decide +kernel
@[simp] theorem kp_annotations_resource : keyMatches "annotations" "resource" = false := by decide +kernel
@[simp] theorem kp_conditions_action : keyMatches "conditions" "action" = false := by decide +kernel
@[simp] theorem kp_conditions_annotations : keyMatches "conditions" "annotations" = false := by decide +kernel
@[simp] theorem kp_conditions_conditions : keyMatches "conditions" "conditions" = true := by decide +kernel
@[simp] theorem kp_conditions_effect : keyMatches "conditions" "effect" = false := by decide +kernel
@[simp] theorem kp_conditions_principal : keyMatches "conditions" "principal" = false := by decide +kernel
@[simp] theorem kp_conditions_resource : keyMatches "conditions" "resource" = false := by decide +kernel
@[simp] theorem kp_effect_action : keyMatches "effect" "action" = false := by decide +kernel
@[simp] theorem kp_effect_annotations : keyMatches "effect" "annotations" = false := by decide +kernel
@[simp] theorem kp_effect_conditions : keyMatches "effect" "conditions" = false := by decide +kernel
@[simp] theorem kp_effect_effect : keyMatches "effect" "effect" = true := by decide +kernel
@[simp] theorem kp_effect_principal : keyMatches "effect" "principal" = false := by decide +kernel
@[simp] theorem kp_effect_resource : keyMatches "effect" "resource" = false := by decide +kernel
@[simp] theorem kp_principal_action : keyMatches "principal" "action" = false := by decide +kernel
@[simp] theorem kp_principal_annotations : keyMatches "principal" "annotations" = false := by decide +kernel
@[simp] theorem kp_principal_conditions : keyMatches "principal" "conditions" = false := by decide +kernel
@[simp] theorem kp_principal_effect : keyMatches "principal" "effect" = false := by decide +kernel
@[simp] theorem kp_principal_principal : keyMatches "principal" "principal" = true := by decide +kernel
@[simp] theorem kp_principal_resource : keyMatches "principal" "resource" = false := by decide +kernel
@[simp] theorem kp_resource_action : keyMatches "resource" "action" = false := by decide +kernel
@[simp] theorem kp_resource_annotations : keyMatches "resource" "annotations" = false := by decide +kernel
@[simp] theorem kp_resource_conditions : keyMatches "resource" "conditions" = false := by decide +kernel
@[simp] theorem kp_resource_effect : keyMatches "resource" "effect" = false := by decide +kernel
@[simp] theorem kp_resource_principal : keyMatches "resource" "principal" = false := by decide +kernel
@[simp] theorem kp_resource_resource : keyMatches "resource" "resource" = true := by decide +kernel
@[simp] theorem kp_entities_entities : keyMatches "entities" "entities" = true := by decide +kernel
@[simp] theorem kp_entities_entity : keyMatches "entities" "entity" = false := by decide +kernel
@[simp] theorem kp_entities_entity_type : keyMatches "entities" "entity_type" = false := by decide +kernel
@[simp] theorem kp_entities_in : keyMatches "entities" "in" = false := by decide +kernel
@[simp] theorem kp_entities_op : keyMatches "entities" "op" = false := by decide +kernel
@[simp] theorem kp_entity_entities : keyMatches "entity" "entities" = false := by decide +kernel
@[simp] theorem kp_entity_entity : keyMatches "entity" "entity" = true := by decide +kernel
@[simp] theorem kp_entity_entity_type : keyMatches "entity" "entity_type" = false := by decide +kernel
@[simp] theorem kp_entity_in : keyMatches "entity" "in" = false := by decide +kernel
@[simp] theorem kp_entity_op : keyMatches "entity" "op" = false := by decide +kernel
@[simp] theorem kp_entity_type_entities : keyMatches "entity_type" "entities" = false := by decide +kernel
@[simp] theorem kp_entity_type_entity : keyMatches "entity_type" "entity" = false := by decide +kernel
@[simp] theorem kp_entity_type_entity_type : keyMatches "entity_type" "entity_type" = true := by decide +kernel
@[simp] theorem kp_entity_type_in : keyMatches "entity_type" "in" = false := by decide +kernel
@[simp] theorem kp_entity_type_op : keyMatches "entity_type" "op" = false := by decide +kernel
@[simp] theorem kp_in_entities : keyMatches "in" "entities" = false := by decide +kernel
@[simp] theorem kp_in_entity : keyMatches "in" "entity" = false := by decide +kernel
@[simp] theorem kp_in_entity_type : keyMatches "in" "entity_type" = false := by decide +kernel
@[simp] theorem kp_in_in : keyMatches "in" "in" = true := by decide +kernel
@[simp] theorem kp_in_op : keyMatches "in" "op" = false := by decide +kernel
@[simp] theorem kp_op_entities : keyMatches "op" "entities" = false := by decide +kernel
@[simp] theorem kp_op_entity : keyMatches "op" "entity" = false := by decide +kernel
@[simp] theorem kp_op_entity_type : keyMatches "op" "entity_type" = false := by decide +kernel
@[simp] theorem kp_op_in : keyMatches "op" "in" = false := by decide +kernel
@[simp] theorem kp_op_op : keyMatches "op" "op" = true := by decide +kernel
@[simp] theorem kp_id_Type : keyMatches "id" "Type" = false := by decide +kernel
@[simp] theorem kp_id_ID : keyMatches "id" "ID" = true := by decide +kernel
@[simp] theorem kp_type_Type : keyMatches "type" "Type" = true := by decide +kernel
@[simp] theorem kp_type_ID : keyMatches "type" "ID" = false := by decide +kernel
@[simp] theorem kp_body_body : keyMatches "body" "body" = true := by decide +kernel
@[simp] theorem kp_body_kind : keyMatches "body" "kind" = false := by decide +kernel
@[simp] theorem kp_kind_body : keyMatches "kind" "body" = false := by decide +kernel
@[simp] theorem kp_kind_kind : keyMatches "kind" "kind" = true := by decide +kernel

/-! ### scopes -/

theorem decodeImplicitUID_uidJ (u : UID) : decodeImplicitUID (uidJ u) = .ok u := by
  simp [decodeImplicitUID, uidJ, strField, findField, List.filter, bind, Except.bind]

theorem mapMR_uidJ : ∀ (us : List UID), mapMR decodeImplicitUID (us.map uidJ) = .ok us
  | [] => rfl
  | u :: us => by simp only [List.map, mapMR, decodeImplicitUID_uidJ, mapMR_uidJ us]

/-- the struct `json.Unmarshal` builds from `scopeToJ sc` -/
def scopeStruct : Scope → ScopeJ
  | .all => { op := "All" }
  | .eq e => { op := "==", entity := some e }
  | .in_ e => { op := "in", entity := some e }
  | .inSet es => { op := "in", entities := es }
  | .is ty => { op := "is", entityType := ty }
  | .isIn ty e => { op := "is", entityType := ty, inn := some e }

theorem decodeScope_of (kvs : List (String × J)) (f : String) (sc : Scope) (hf : findField kvs f = .one (scopeToJ sc)) :
    decodeScope kvs f = .ok (scopeStruct sc) := by
  cases sc with
  | all =>
    simp only [scopeToJ] at hf
    simp only [decodeScope, hf]
    simp [scopeStruct, strField, findField, List.filter, bind, Except.bind, pure, Except.pure]
  | eq e =>
    simp only [scopeToJ] at hf
    simp only [decodeScope, hf]
    simp [scopeStruct, strField, findField, List.filter, bind, Except.bind, pure, Except.pure, uidJ,
      decodeImplicitUID, Except.map]
  | in_ e =>
    simp only [scopeToJ] at hf
    simp only [decodeScope, hf]
    simp [scopeStruct, strField, findField, List.filter, bind, Except.bind, pure, Except.pure, uidJ,
      decodeImplicitUID, Except.map]
  | inSet es =>
    simp only [scopeToJ] at hf
    split at hf
    · rename_i h
      have : es = [] := by cases es <;> simp_all
      subst this
      simp only [decodeScope, hf]
      simp [scopeStruct, strField, findField, List.filter, bind, Except.bind, pure, Except.pure]
    · simp only [decodeScope, hf]
      simp [scopeStruct, strField, findField, List.filter, bind, Except.bind, pure, Except.pure, mapMR_uidJ]
  | is ty =>
    simp only [scopeToJ] at hf
    split at hf
    · rename_i h; simp only [beq_iff_eq] at h; subst h
      simp only [decodeScope, hf]
      simp [scopeStruct, strField, findField, List.filter, bind, Except.bind, pure, Except.pure]
    · simp only [decodeScope, hf]
      simp [scopeStruct, strField, findField, List.filter, bind, Except.bind, pure, Except.pure]
  | isIn ty e =>
    simp only [scopeToJ] at hf
    split at hf
    · rename_i h; simp only [beq_iff_eq] at h; subst h
      simp only [decodeScope, hf]
      simp [scopeStruct, strField, findField, List.filter, bind, Except.bind, pure, Except.pure, uidJ,
        decodeImplicitUID, Except.map]
    · simp only [decodeScope, hf]
      simp [scopeStruct, strField, findField, List.filter, bind, Except.bind, pure, Except.pure, uidJ,
        decodeImplicitUID, Except.map]

theorem scopeToPR_struct (sc : Scope) (h : scopePR sc = true) : scopeToPR (scopeStruct sc) = .ok sc := by
  cases sc <;> simp [scopePR] at h <;> simp [scopeToPR, scopeStruct]

theorem scopeToAction_struct (sc : Scope) (h : scopeAct sc = true) : scopeToAction (scopeStruct sc) = .ok sc := by
  cases sc <;> simp [scopeAct] at h <;> simp [scopeToAction, scopeStruct]

end CedarGo.JsonModel
