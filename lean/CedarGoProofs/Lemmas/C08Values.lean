/-
  Helper lemmas for C08 (values): the token list `types.Value.MarshalCedar` writes for a `NodeValue` (`marshalLit`,
  Model/Text/Marshal.lean) is a valid rendering (`Rend`) of the expression `valExpr v` — the value itself for
  booleans / longs / strings / entity uids, a set or record literal of the members' expressions, the constructor
  call on the value's text form — for every value of `valOK` (Model/Text/Fragment.lean).
-/
import CedarGoProofs.Lemmas.C07Head
import CedarGoProofs.Lemmas.C08ValuesPlain
import CedarGoProofs.Lemmas.RecordLit
import CedarGo.Model.Text.Marshal
namespace CedarGo.Text
open CedarGo

/-! ## tokens of a piece list -/

@[simp] theorem pieceToks_nil : pieceToks [] = [] := rfl
@[simp] theorem pieceToks_t (t : Token) (ps : List Piece) : pieceToks (.t t :: ps) = t :: pieceToks ps := rfl
@[simp] theorem pieceToks_s (s : String) (ps : List Piece) : pieceToks (.s s :: ps) = pieceToks ps := rfl

@[simp] theorem pieceToks_append (a b : List Piece) : pieceToks (a ++ b) = pieceToks a ++ pieceToks b := by
  induction a with
  | nil => rfl
  | cons p ps ih => cases p <;> simp [ih]

@[simp] theorem pieceToks_toksP (ts : List Token) : pieceToks (toksP ts) = ts := by
  induction ts with
  | nil => rfl
  | cons t ts ih => simp [toksP] at ih ⊢; exact ih

/-! ## record keys -/

theorem keysAsc_sorted : ∀ (kvs : List (String × Value)), keysAsc kvs = true → KeysSorted kvs
  | [], _ => List.Pairwise.nil
  | [_], _ => List.pairwise_singleton _ _
  | (k, v) :: (k', v') :: rest, h => by
    simp only [keysAsc, Bool.and_eq_true, decide_eq_true_eq] at h
    have ih := keysAsc_sorted ((k', v') :: rest) h.2
    refine List.Pairwise.cons ?_ ih
    intro b hb
    rcases List.mem_cons.1 hb with rfl | hb
    · exact h.1
    · exact String.lt_trans h.1 ((List.pairwise_cons.1 ih).1 b hb)

theorem keysSorted_keys_nodup {α : Type} {l : List (String × α)} (h : KeysSorted l) : (l.map (·.1)).Nodup := by
  rw [List.Nodup, List.pairwise_map]
  exact h.imp (fun {a b} hab heq => by rw [heq] at hab; exact String.lt_irrefl _ hab)

theorem valExprKVs_keys : ∀ (kvs : List (String × Value)), (valExprKVs kvs).map (·.1) = kvs.map (·.1)
  | [] => rfl
  | (k, v) :: rest => by simp [valExprKVs, valExprKVs_keys rest]

theorem valExprKVs_ne_nil (kv : String × Value) (rest : List (String × Value)) : valExprKVs (kv :: rest) ≠ [] := by
  obtain ⟨k, v⟩ := kv; simp [valExprKVs]

/-! ## extension values: `name("text")` -/

theorem rend_extCall (fn : String) (s : String) (hf : checkFunction fn = .ok ()) (hs : s.toList.all plainCh = true) :
    Rend (.e 8 (.call fn [.lit (.str s)])) (pieceToks (extCallP fn s)) := by
  simp only [extCallP, pieceToks_t, pieceToks_nil, rawStrT_eq_strT s hs]
  exact .callFn (ts := [strT s]) hf (.argsOne (.litStr s))

/-! ## every value -/

mutual
/-- the tokens of `MarshalCedar(v)` spell `valExpr v` at the level Go assumes for a `NodeValue` written there:
    primary — except a negative long, which is a unary expression (`prec`) -/
theorem val_rend : ∀ (v : Value), valOK v = true → Rend (.e (prec (.lit v)) (valExpr v)) (pieceToks (marshalValW id v))
  | .bool b, _ => .litBool b
  | .long n, h => by
    simp only [valOK, inI64B, Bool.and_eq_true, decide_eq_true_eq] at h
    simp only [marshalValW, valExpr]
    by_cases hn : n < 0
    · have hp : prec (.lit (.long n)) = 6 := by simp [prec, hn]
      rw [hp]
      simp only [hn, ↓reduceIte, pieceToks_t, pieceToks_nil]
      have := Rend.litNeg (lvl := 6) n.natAbs (by omega) (Nat.le_refl _)
      rw [int_natAbs_neg n hn] at this
      exact this
    · have hp : prec (.lit (.long n)) = 8 := by simp [prec, hn]
      rw [hp]
      simp only [hn, ↓reduceIte, pieceToks_t, pieceToks_nil]
      have := Rend.litNat (lvl := 8) n.toNat (by omega)
      rw [int_toNat_nonneg n hn] at this
      exact this
  | .str s, _ => .litStr s
  | .entity ty id, h => by
    simp only [valOK] at h
    obtain ⟨first, parts, hp⟩ := pathOK_of_isPathName ty h
    simp only [marshalValW, valExpr, pieceToks_toksP]
    exact .entity ty id first parts hp
  | .set xs, h => by
    simp only [valOK, Bool.and_eq_true] at h
    simp only [marshalValW, valExpr, id, pieceToks_t, pieceToks_append, pieceToks_nil]
    exact .set (vals_rend xs h.1)
  | .record kvs, h => by
    simp only [valOK, Bool.and_eq_true] at h
    simp only [marshalValW, valExpr, pieceToks_t, pieceToks_append, pieceToks_nil]
    refine .record (kvs_rend kvs h.1) ?_
    rw [valExprKVs_keys]
    exact keysSorted_keys_nodup (keysAsc_sorted kvs h.2)
  | .decimal d, _ => rend_extCall "decimal" _ rfl (plain_printDecimal d)
  | .datetime t, _ => rend_extCall "datetime" _ rfl (plain_printDatetime t)
  | .duration d, _ => rend_extCall "duration" _ rfl (plain_printDuration d)
  | .ip a, _ => rend_extCall "ip" _ rfl (plain_printIP a)
theorem vals_rend : ∀ (xs : List Value), valsOK xs = true →
    Rend (.args (valExprs xs)) (pieceToks (joinCommaP (marshalValsW id xs)))
  | [], _ => .argsNil
  | [v], h => by
    simp only [valsOK, Bool.and_true] at h
    simp only [marshalValsW, joinCommaP, valExprs]
    exact .argsOne (rend_mono (val_rend v h) (Nat.zero_le _))
  | v :: v' :: vs, h => by
    rw [valsOK] at h
    simp only [Bool.and_eq_true] at h
    have ih := vals_rend (v' :: vs) h.2
    simp only [marshalValsW, joinCommaP, valExprs, pieceToks_append, pieceToks_t, pieceToks_s] at ih ⊢
    exact .argsCons (rend_mono (val_rend v h.1) (Nat.zero_le _)) ih
theorem kvs_rend : ∀ (kvs : List (String × Value)), kvValsOK kvs = true →
    Rend (.kvs (valExprKVs kvs)) (pieceToks (joinCommaP (marshalKVsW id kvs)))
  | [], _ => .kvsNil
  | [(k, v)], h => by
    simp only [kvValsOK, Bool.and_true] at h
    simp only [marshalKVsW, joinCommaP, valExprKVs, pieceToks_t]
    exact .kvsOne (keyTok_string k) (rend_mono (val_rend v h) (Nat.zero_le _))
  | (k, v) :: kv' :: rest, h => by
    rw [kvValsOK] at h
    simp only [Bool.and_eq_true] at h
    have ih := kvs_rend (kv' :: rest) h.2
    obtain ⟨k', v'⟩ := kv'
    simp only [marshalKVsW, joinCommaP, valExprKVs, pieceToks_append, pieceToks_t, pieceToks_s] at ih ⊢
    exact .kvsCons (keyTok_string k) (rend_mono (val_rend v h.1) (Nat.zero_le _)) (by simp) ih
end

theorem prec_valExpr (v : Value) : prec (valExpr v) = prec (.lit v) := by
  cases v <;> simp [valExpr, prec, isMethodName, extLookup, extMap]

end CedarGo.Text
