/-
  C07 ∘ C18 bridge, part 7: a `Lexable` token followed by an admissible character is scanned as that token;
  separators are skipped; the whole text of a token list under an admissible layout lexes to that list.
-/
import CedarGoProofs.Lemmas.C07LexClasses
namespace CedarGo.Text
open Lx

/-! ## any lexable token -/

theorem sepOK_ident_head (ty : TokType) (hty : ty = .ident ∨ ty = .keyword) (T X : List Char)
    (hs : sepOKChars ty T X.head? = true) : headIs (isIdentChar · false) X = false := by
  cases X with
  | nil => rfl
  | cons c X =>
    rcases hty with rfl | rfl <;> simpa [sepOKChars, headIs] using hs

theorem intText_parts (T : List Char) (h : intText T = true) : ∃ d ds, T = d :: ds ∧ ∀ c ∈ d :: ds, Text.isDecimal c = true := by
  cases T with
  | nil => simp [intText] at h
  | cons d ds =>
    simp only [intText, List.isEmpty_cons, Bool.not_false, Bool.true_and, List.all_eq_true] at h
    exact ⟨d, ds, rfl, h⟩

theorem runeOf_ne (nx : Option Char) (n : Nat) (h : ∀ c, nx = some c → c.toNat ≠ n) : runeOf nx ≠ (Int.ofNat n : Rune) := by
  cases nx with
  | none => simp only [runeOf, runeEOF]; intro e; have : (0 : Int) ≤ Int.ofNat n := Int.natCast_nonneg _; rw [← e] at this; omega
  | some c => intro e; exact h c rfl (Int.ofNat.inj e)

theorem singleOps_startsOther (c : Char) (h : c.toNat ∈ singleOps) : startsOther c = false := by
  simp only [singleOps, List.mem_cons, List.not_mem_nil, or_false] at h
  have : ('_' : Char).toNat = 95 := rfl
  simp only [startsOther, isWsChar, isIdentChar, Text.isDecimal, char_beq_toNat, Bool.not_true, Bool.and_false, Bool.or_false,
    Bool.or_eq_false_iff, beq_eq_false_iff_ne, Bool.and_eq_false_imp, decide_eq_true_eq, decide_eq_false_iff_not]
  omega

/-- **one token**: a token of class `ty` with characters `T` (as `LexChars` prescribes) followed by `X`
    whose first character is admissible after it (`sepOKChars`) is scanned as exactly that token -/
theorem tokenFrom_cfg_token (doc : List UInt8) (F f k : Nat) (ts : Option Nat) (pos : Pos) (ty : TokType) (T X : List Char)
    (h : Ok doc F k (T ++ X)) (hT : LexChars ty T) (hs : sepOKChars ty T X.head? = true) :
    tokenFrom pureSrc F (f + 1) (cfg doc k ts pos (T ++ X)).1 (cfg doc k ts pos (T ++ X)).2 = tokRes doc k ty T X := by
  cases ty with
  | eof => exact absurd hT (by simp [LexChars])
  | ident =>
    obtain ⟨h1, h2⟩ := hT
    cases T with
    | nil => simp [identText] at h1
    | cons c cs =>
      simp only [identText, Bool.and_eq_true] at h1
      have := tokenFrom_cfg_ident doc F f k ts pos c cs X h h1.1 h1.2 (sepOK_ident_head _ (.inl rfl) _ X hs)
      rw [h2] at this; exact this
  | keyword =>
    obtain ⟨h1, h2⟩ := hT
    cases T with
    | nil => simp [identText] at h1
    | cons c cs =>
      simp only [identText, Bool.and_eq_true] at h1
      have := tokenFrom_cfg_ident doc F f k ts pos c cs X h h1.1 h1.2 (sepOK_ident_head _ (.inr rfl) _ X hs)
      rw [h2] at this; exact this
  | int =>
    obtain ⟨d, ds, rfl, hd⟩ := intText_parts T hT
    refine tokenFrom_cfg_int doc F f k ts pos d ds X h hd ?_
    cases X with
    | nil => rfl
    | cons c X => simpa [sepOKChars, headIs] using hs
  | string =>
    obtain ⟨body, rfl, hb⟩ := hT
    exact tokenFrom_cfg_string doc F f k ts pos body X hb h
  | operator =>
    have hT' : opText T = true := hT
    match T, hT', h, hs with
    | [c], hT', h, hs =>
      have hc : c.toNat ∈ singleOps := by simpa [opText] using hT'
      have hsep : ∀ c', X.head? = some c' → merges c c' = false ∧ (¬ c.toNat = 47 ∨ ¬ c'.toNat = 47 ∧ ¬ c'.toNat = 42) := by
        intro c' hc'
        rw [hc'] at hs
        simpa [sepOKChars] using hs
      refine tokenFrom_cfg_single doc F f k ts pos c X .operator h (singleOps_startsOther c hc) rfl ?_ ?_
      · refine opStep_single_op _ _ hc (fun e => runeOf_ne _ 58 ?_) (fun e => runeOf_ne _ 61 ?_)
        · intro c' hc' e'
          have := (hsep c' hc').1
          simp [merges, e, e'] at this
        · intro c' hc' e'
          have := (hsep c' hc').1
          simp only [merges, e', beq_self_eq_true, Bool.and_true, Bool.or_eq_false_iff, beq_eq_false_iff_ne] at this
          omega
      · intro e
        simp only [singleOps, List.mem_cons, List.not_mem_nil, or_false] at hc
        omega
    | [c0, c1], hT', h, _ =>
      exact tokenFrom_cfg_double doc F f k ts pos c0 c1 X h (by simpa [opText] using hT')
    | [], hT', _, _ => simp [opText] at hT'
    | _ :: _ :: _ :: _, hT', _, _ => simp [opText] at hT'
  | unknown =>
    have hT' : unknownText T = true := hT
    match T, hT', h, hs with
    | [c], hT', h, hs =>
      simp only [unknownText, Bool.and_eq_true, bne_iff_ne, ne_eq, Bool.not_eq_true', List.contains_eq_mem,
        decide_eq_false_iff_not] at hT'
      obtain ⟨⟨h0, hso⟩, hns⟩ := hT'
      have hsep : ∀ c', X.head? = some c' → merges c c' = false ∧ (¬ c.toNat = 47 ∨ ¬ c'.toNat = 47 ∧ ¬ c'.toNat = 42) := by
        intro c' hc'
        rw [hc'] at hs
        simpa [sepOKChars] using hs
      refine tokenFrom_cfg_single doc F f k ts pos c X .unknown h hso rfl ?_ ?_
      · refine opStep_single_unknown _ _ hns (fun e => runeOf_ne _ 61 ?_) (fun e => runeOf_ne _ 124 ?_) (fun e => runeOf_ne _ 38 ?_)
        all_goals
          intro c' hc' e'
          have := (hsep c' hc').1
          simp [merges, e, e'] at this
      · intro e
        exact ⟨runeOf_ne _ 47 (fun c' hc' e' => by rcases (hsep c' hc').2 with h' | h'; exact h' e; exact h'.1 e'),
               runeOf_ne _ 42 (fun c' hc' e' => by rcases (hsep c' hc').2 with h' | h'; exact h' e; exact h'.2 e')⟩
    | [], hT', _, _ => simp [unknownText] at hT'
    | _ :: _ :: _, hT', _, _ => simp [unknownText] at hT'

end CedarGo.Text
