/-
  Helper lemmas for C07 (`like`): the normal form `patOK` of the text round trip (Model/Text/Fragment.lean) is the
  invariant `WFPattern` that `types.NewPattern` establishes (the predicate of C01's matcher theorem,
  Lemmas/C01Pattern.lean) plus "at least one component" and "every literal chunk is valid UTF-8"; and what happens
  to the one `NewPattern` value outside it, the component-less `Pattern{}`.
-/
import CedarGoProofs.Lemmas.C01Pattern
import CedarGo.Model.Text.Fragment
namespace CedarGo.Text
open CedarGo

theorem patTailOK_eq_wfTail : ∀ p : Pattern, patTailOK p = C01L.wfTail p
  | [] => rfl
  | c :: rest => by simp only [patTailOK, C01L.wfTail, patTailOK_eq_wfTail rest]

theorem patOK_iff (p : Pattern) : patOK p = true ↔ p ≠ [] ∧ WFPattern p ∧ p.all litUtf8OK = true := by
  cases p with
  | nil => simp [patOK]
  | cons c rest =>
    simp only [patOK, WFPattern, C01L.wfPattern, patTailOK_eq_wfTail, Bool.and_eq_true, ne_eq, reduceCtorEq,
      not_false_eq_true, true_and]

/-- `Pattern{}` (no component) and the single empty literal match the same strings: only the empty one -/
theorem matchComps_nil_eq (s : List UInt8) : matchComps [] s = matchComps [⟨false, []⟩] s := by
  cases s <;> simp [matchComps, matchChunk]

end CedarGo.Text
