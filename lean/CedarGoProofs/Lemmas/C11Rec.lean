/-
  C11 helper lemmas, part 6: records.  The key-sorted association list of the evaluator model
  (`mkRecord`, `kvGet`, `Value.beqKV`) and the Go-map model (`RecImpl`) both decide
  "same keys with equal values"; a record built by assigning pairs in order keeps the last value per key.
-/
import CedarGoProofs.Lemmas.C11Hash
namespace CedarGo
namespace C11

/-- equality of two optional attribute values: both absent, or both present and `Equal` -/
def optBeq : Option Value → Option Value → Bool
  | none, none => true
  | some a, some b => Value.beq a b
  | _, _ => false

/-- the value a Go map holds for key `q` after assigning the pairs in order (later wins) -/
def lastGet (q : String) (kvs : List (String × Value)) : Option Value :=
  kvs.foldl (fun acc kv => if kv.1 = q then some kv.2 else acc) none

/-- strictly increasing keys (hence unique) -/
def SortedKeys (kvs : List (String × Value)) : Prop := kvs.Pairwise (fun a b => a.1 < b.1)

instance (kvs : List (String × Value)) : Decidable (SortedKeys kvs) := by unfold SortedKeys; infer_instance

theorem kvGet_cons (q k : String) (v : Value) (l : List (String × Value)) :
    kvGet q ((k, v) :: l) = if q = k then some v else kvGet q l := by
  simp only [kvGet]; by_cases h : q = k <;> simp [h]

theorem kvGet_kvInsert (q k : String) (v : Value) : ∀ l : List (String × Value),
    kvGet q (kvInsert k v l) = if q = k then some v else kvGet q l := by
  intro l
  induction l with
  | nil => simp [kvInsert, kvGet_cons, kvGet]
  | cons kv l ih =>
    obtain ⟨k', v'⟩ := kv
    simp only [kvInsert]
    split
    · rw [kvGet_cons]
    · split
      · rename_i hk
        have hk : k = k' := by simpa using hk
        subst hk
        rw [kvGet_cons, kvGet_cons]
        by_cases hq : q = k <;> simp [hq]
      · rename_i hk
        have hk : k ≠ k' := by simpa using hk
        rw [kvGet_cons, kvGet_cons, ih]
        by_cases hq : q = k'
        · subst hq
          have : ¬ q = k := fun h => hk h.symm
          simp [this]
        · simp [hq]

theorem kvGet_none_of_lt {q : String} : ∀ {l : List (String × Value)}, (∀ kv ∈ l, q < kv.1) → kvGet q l = none := by
  intro l
  induction l with
  | nil => intro _; rfl
  | cons kv l ih =>
    intro h
    obtain ⟨k, v⟩ := kv
    rw [kvGet_cons]
    have hk : q < k := h (k, v) (by simp)
    have : ¬ q = k := fun e => String.lt_irrefl k (e ▸ hk)
    simp [this]
    exact ih (fun kv hkv => h kv (by simp [hkv]))

theorem kvGet_some_mem {q : String} {w : Value} : ∀ {l : List (String × Value)}, kvGet q l = some w → (q, w) ∈ l := by
  intro l
  induction l with
  | nil => intro h; simp [kvGet] at h
  | cons kv l ih =>
    intro h
    obtain ⟨k, v⟩ := kv
    rw [kvGet_cons] at h
    split at h
    · rename_i hq; subst hq; cases h; simp
    · simp [ih h]

theorem kvInsert_mem {k : String} {v : Value} : ∀ {l : List (String × Value)} {kv : String × Value},
    kv ∈ kvInsert k v l → kv = (k, v) ∨ kv ∈ l := by
  intro l
  induction l with
  | nil => intro kv h; simp [kvInsert] at h; exact Or.inl h
  | cons kv' l ih =>
    intro kv h
    obtain ⟨k', v'⟩ := kv'
    simp only [kvInsert] at h
    split at h
    · rcases List.mem_cons.mp h with h | h
      · exact Or.inl h
      · exact Or.inr h
    · split at h
      · rcases List.mem_cons.mp h with h | h
        · exact Or.inl h
        · exact Or.inr (by simp [h])
      · rcases List.mem_cons.mp h with h | h
        · exact Or.inr (by simp [h])
        · rcases ih h with h | h
          · exact Or.inl h
          · exact Or.inr (by simp [h])

theorem kvInsert_sorted (k : String) (v : Value) : ∀ {l : List (String × Value)}, SortedKeys l → SortedKeys (kvInsert k v l) := by
  intro l
  induction l with
  | nil => intro _; simp [kvInsert, SortedKeys]
  | cons kv l ih =>
    intro hs
    obtain ⟨k', v'⟩ := kv
    unfold SortedKeys at hs
    have hs' := List.pairwise_cons.mp hs
    simp only [kvInsert]
    split
    · rename_i hlt
      unfold SortedKeys
      rw [List.pairwise_cons]
      refine ⟨fun kv hkv => ?_, hs⟩
      rcases List.mem_cons.mp hkv with h | h
      · subst h; exact hlt
      · exact String.lt_trans hlt (hs'.1 kv h)
    · split
      · rename_i hk
        have hk : k = k' := by simpa using hk
        subst hk
        unfold SortedKeys
        rw [List.pairwise_cons]
        exact ⟨hs'.1, hs'.2⟩
      · rename_i hnlt hk
        have hk : k ≠ k' := by simpa using hk
        have hgt : k' < k := by
          rcases Std.lt_trichotomy k k' with h | h | h
          · exact absurd h hnlt
          · exact absurd h hk
          · exact h
        unfold SortedKeys
        rw [List.pairwise_cons]
        refine ⟨fun kv hkv => ?_, ih hs'.2⟩
        rcases kvInsert_mem hkv with h | h
        · subst h; exact hgt
        · exact hs'.1 kv h

/-- `mkRecord`: sorted, and lookups return the last assignment -/
theorem foldl_kvInsert_spec (q : String) : ∀ (kvs acc : List (String × Value)), SortedKeys acc →
    SortedKeys (kvs.foldl (fun acc kv => kvInsert kv.1 kv.2 acc) acc) ∧
    kvGet q (kvs.foldl (fun acc kv => kvInsert kv.1 kv.2 acc) acc) =
      kvs.foldl (fun o kv => if kv.1 = q then some kv.2 else o) (kvGet q acc) := by
  intro kvs
  induction kvs with
  | nil => intro acc h; exact ⟨h, rfl⟩
  | cons kv kvs ih =>
    intro acc h
    obtain ⟨hs, hg⟩ := ih (kvInsert kv.1 kv.2 acc) (kvInsert_sorted kv.1 kv.2 h)
    refine ⟨hs, ?_⟩
    simp only [List.foldl_cons]
    rw [hg, kvGet_kvInsert]
    by_cases hq : q = kv.1
    · subst hq; simp
    · have : ¬ kv.1 = q := fun e => hq e.symm
      simp [hq, this]

theorem mkRecord_spec (kvs : List (String × Value)) :
    ∃ l, mkRecord kvs = .record l ∧ SortedKeys l ∧ ∀ q, kvGet q l = lastGet q kvs := by
  refine ⟨_, rfl, (foldl_kvInsert_spec "" kvs [] (by simp [SortedKeys])).1, fun q => ?_⟩
  have := (foldl_kvInsert_spec q kvs [] (by simp [SortedKeys])).2
  simpa [lastGet, kvGet] using this

/-- pointwise equality of sorted lists is equality of all lookups -/
theorem beqKV_iff_sorted : ∀ (a b : List (String × Value)), SortedKeys a → SortedKeys b →
    (Value.beqKV a b = true ↔ ∀ q, optBeq (kvGet q a) (kvGet q b) = true) := by
  intro a
  induction a with
  | nil =>
    intro b _ _
    cases b with
    | nil => simp [Value.beqKV, kvGet, optBeq]
    | cons kv b =>
      obtain ⟨k, v⟩ := kv
      simp only [Value.beqKV, Bool.false_eq_true, false_iff]
      intro h
      have := h k
      simp [kvGet, optBeq] at this
  | cons kv a ih =>
    intro b ha hb
    obtain ⟨k, v⟩ := kv
    cases b with
    | nil =>
      simp only [Value.beqKV, Bool.false_eq_true, false_iff]
      intro h
      have := h k
      simp [kvGet, optBeq] at this
    | cons kv' b =>
      obtain ⟨k', v'⟩ := kv'
      have ha' := List.pairwise_cons.mp ha
      have hb' := List.pairwise_cons.mp hb
      simp only [Value.beqKV, Bool.and_eq_true, beq_iff_eq]
      constructor
      · rintro ⟨⟨hk, hv⟩, hr⟩ q
        subst hk
        rw [kvGet_cons, kvGet_cons]
        by_cases hq : q = k
        · simp [hq, optBeq, hv]
        · simp only [hq, if_false]
          exact (ih b ha'.2 hb'.2).mp hr q
      · intro h
        -- the heads carry the same key
        have hkk : k = k' := by
          have h1 := h k
          have h2 := h k'
          rw [kvGet_cons, kvGet_cons] at h1 h2
          simp only [if_true] at h1 h2
          rcases Std.lt_trichotomy k k' with hlt | heq | hgt
          · -- k is smaller than every key of b: b has no k
            have hne : ¬ k = k' := fun e => String.lt_irrefl k' (e ▸ hlt)
            have : kvGet k b = none := kvGet_none_of_lt (fun kv hkv => String.lt_trans hlt (hb'.1 kv hkv))
            simp [hne, this, optBeq] at h1
          · exact heq
          · have hne : ¬ k' = k := fun e => String.lt_irrefl k (e ▸ hgt)
            have : kvGet k' a = none := kvGet_none_of_lt (fun kv hkv => String.lt_trans hgt (ha'.1 kv hkv))
            simp [hne, this, optBeq] at h2
        subst hkk
        have hv : Value.beq v v' = true := by
          have h1 := h k
          rw [kvGet_cons, kvGet_cons] at h1
          simpa [optBeq] using h1
        refine ⟨⟨rfl, hv⟩, (ih b ha'.2 hb'.2).mpr (fun q => ?_)⟩
        by_cases hq : q = k
        · subst hq
          rw [kvGet_none_of_lt (fun kv hkv => ha'.1 kv hkv), kvGet_none_of_lt (fun kv hkv => hb'.1 kv hkv)]
          rfl
        · have := h q
          rw [kvGet_cons, kvGet_cons] at this
          simpa [hq] using this

/-! ### the Go-map model -/

def rkeys (m : RecMap) : List String := m.map (·.1)

theorem rget_some_mem {m : RecMap} {q : String} {w : Value} (h : m.get q = some w) : (q, w) ∈ m := by
  induction m with
  | nil => simp [RecMap.get] at h
  | cons kv m ih =>
    obtain ⟨k, v⟩ := kv
    simp only [RecMap.get] at h
    split at h
    · rename_i hq; subst hq; cases h; simp
    · simp [ih h]

theorem rget_none_iff {m : RecMap} {q : String} : m.get q = none ↔ q ∉ rkeys m := by
  induction m with
  | nil => simp [RecMap.get, rkeys]
  | cons kv m ih =>
    obtain ⟨k, v⟩ := kv
    simp only [RecMap.get, rkeys, List.map_cons, List.mem_cons, not_or]
    split
    · rename_i hk; simp [hk]
    · rename_i hk; simp only [rkeys] at ih; simp [ih, hk]

theorem rget_of_mem {m : RecMap} {q : String} {w : Value} (hn : (rkeys m).Nodup) (h : (q, w) ∈ m) : m.get q = some w := by
  induction m with
  | nil => cases h
  | cons kv m ih =>
    obtain ⟨k, v⟩ := kv
    simp only [rkeys, List.map_cons, List.nodup_cons] at hn
    simp only [RecMap.get]
    rcases List.mem_cons.mp h with h | h
    · cases h; simp
    · have hk : q ∈ List.map (·.1) m := List.mem_map.mpr ⟨(q, w), h, rfl⟩
      have : q ≠ k := fun e => hn.1 (e ▸ hk)
      simp [this]; exact ih hn.2 h

theorem rget_set (q k : String) (v : Value) : ∀ m : RecMap, (m.set k v).get q = if q = k then some v else m.get q := by
  intro m
  induction m with
  | nil => simp [RecMap.set, RecMap.get]
  | cons kv m ih =>
    obtain ⟨k', v'⟩ := kv
    simp only [RecMap.set]
    split
    · rename_i hk; subst hk
      simp only [RecMap.get]
      by_cases hq : q = k <;> simp [hq]
    · rename_i hk
      simp only [RecMap.get, ih]
      by_cases hq : q = k'
      · subst hq
        have : ¬ q = k := fun e => hk e.symm
        simp [this]
      · simp [hq]

theorem rkeys_set_nodup (k : String) (v : Value) : ∀ {m : RecMap}, (rkeys m).Nodup → (rkeys (m.set k v)).Nodup := by
  intro m hn
  -- keys are unique iff every lookup of a stored pair returns it; argue through membership
  induction m with
  | nil => simp [RecMap.set, rkeys]
  | cons kv m ih =>
    obtain ⟨k', v'⟩ := kv
    simp only [rkeys, List.map_cons, List.nodup_cons] at hn
    simp only [RecMap.set]
    split
    · rename_i hk; subst hk
      simpa [rkeys] using hn
    · rename_i hk
      simp only [rkeys, List.map_cons, List.nodup_cons]
      refine ⟨?_, ih hn.2⟩
      intro hmem
      -- k' among the keys of (m.set k v): then its lookup is some, and it is not k, so k' was a key of m
      have hsome : (RecMap.get (RecMap.set m k v) k') ≠ none := fun e => (rget_none_iff.mp e) hmem
      rw [rget_set] at hsome
      have : ¬ k' = k := fun e => hk e.symm
      simp only [this, if_false] at hsome
      exact hsome (rget_none_iff.mpr hn.1)

theorem ofList_spec (q : String) : ∀ (kvs : List (String × Value)) (m : RecMap), (rkeys m).Nodup →
    (rkeys (kvs.foldl (fun m kv => m.set kv.1 kv.2) m)).Nodup ∧
    (kvs.foldl (fun m kv => RecMap.set m kv.1 kv.2) m).get q =
      kvs.foldl (fun o kv => if kv.1 = q then some kv.2 else o) (m.get q) := by
  intro kvs
  induction kvs with
  | nil => intro m h; exact ⟨h, rfl⟩
  | cons kv kvs ih =>
    intro m h
    obtain ⟨hn, hg⟩ := ih (m.set kv.1 kv.2) (rkeys_set_nodup kv.1 kv.2 h)
    refine ⟨hn, ?_⟩
    simp only [List.foldl_cons]
    rw [hg, rget_set]
    by_cases hq : q = kv.1
    · subst hq; simp
    · have : ¬ kv.1 = q := fun e => hq e.symm
      simp [hq, this]

theorem ofList_nodup (kvs : List (String × Value)) : (rkeys (RecMap.ofList kvs)).Nodup :=
  (ofList_spec "" kvs [] (by simp [rkeys])).1

theorem ofList_get (kvs : List (String × Value)) (q : String) : (RecMap.ofList kvs).get q = lastGet q kvs := by
  have := (ofList_spec q kvs [] (by simp [rkeys])).2
  simpa [lastGet, RecMap.ofList, RecMap.get] using this

/-- with unique keys, "last assignment" is the only assignment -/
theorem lastGet_eq_get : ∀ {m : RecMap}, (rkeys m).Nodup → ∀ q, lastGet q m = m.get q := by
  intro m hn q
  -- build the map again from its own pair list: nothing changes for lookups
  have gen : ∀ (l : RecMap) (o : Option Value), (rkeys l).Nodup → (o.isSome → q ∉ rkeys l) →
      l.foldl (fun o kv => if kv.1 = q then some kv.2 else o) o = (match l.get q with | some w => some w | none => o) := by
    intro l
    induction l with
    | nil => intro o _ _; simp [RecMap.get]
    | cons kv l ih =>
      intro o hn ho
      obtain ⟨k, v⟩ := kv
      simp only [rkeys, List.map_cons, List.nodup_cons] at hn
      simp only [List.foldl_cons, RecMap.get]
      by_cases hk : k = q
      · subst hk
        have hnone : RecMap.get l k = none := rget_none_iff.mpr hn.1
        simp only [if_true]
        rw [ih (some v) hn.2 (fun _ => hn.1)]
        simp [hnone]
      · have hk' : ¬ q = k := fun e => hk e.symm
        simp only [hk, hk', if_false]
        exact ih o hn.2 (fun h => by
          have := ho h
          simp only [rkeys, List.map_cons, List.mem_cons, not_or] at this
          exact this.2)
  have := gen m none hn (by simp)
  unfold lastGet
  rw [this]
  cases m.get q <;> rfl

theorem sorted_get {m : RecMap} (hn : (rkeys m).Nodup) (q : String) : kvGet q m.sorted = m.get q := by
  have := (foldl_kvInsert_spec q m [] (by simp [SortedKeys])).2
  simp only [kvGet] at this
  rw [RecMap.sorted, this]
  exact lastGet_eq_get hn q

theorem sorted_sorted (m : RecMap) : SortedKeys m.sorted :=
  (foldl_kvInsert_spec "" m [] (by simp [SortedKeys])).1

theorem foldl_hash_congr {hash : Value → UInt64} (hr : HashRespectsEq hash) : ∀ (a b : List (String × Value)) (h : UInt64),
    Value.beqKV a b = true →
    a.foldl (fun h kv => fnvLE64 (fnvString h kv.1) (hash kv.2)) h = b.foldl (fun h kv => fnvLE64 (fnvString h kv.1) (hash kv.2)) h := by
  intro a
  induction a with
  | nil => intro b h hb; cases b with
    | nil => rfl
    | cons _ _ => simp [Value.beqKV] at hb
  | cons kv a ih =>
    intro b h hb
    obtain ⟨k, v⟩ := kv
    cases b with
    | nil => simp [Value.beqKV] at hb
    | cons kv' b =>
      obtain ⟨k', v'⟩ := kv'
      simp only [Value.beqKV, Bool.and_eq_true, beq_iff_eq] at hb
      obtain ⟨⟨hk, hv⟩, hrest⟩ := hb
      subst hk
      simp only [List.foldl_cons]
      rw [hr v v' hv]
      exact ih b _ hrest

theorem recHash_congr {hash : Value → UInt64} (hr : HashRespectsEq hash) {m₁ m₂ : RecMap}
    (h : Value.beqKV m₁.sorted m₂.sorted = true) : recHash hash m₁ = recHash hash m₂ := by
  unfold recHash
  have := foldl_hash_congr hr m₁.sorted m₂.sorted fnvOffset h
  cases h1 : m₁.sorted with
  | nil =>
    cases h2 : m₂.sorted with
    | nil => rfl
    | cons _ _ => rw [h1, h2] at h; simp [Value.beqKV] at h
  | cons kv l =>
    cases h2 : m₂.sorted with
    | nil => rw [h1, h2] at h; obtain ⟨_, _⟩ := kv; simp [Value.beqKV] at h
    | cons kv' l' => rw [h1, h2] at this; exact this

theorem recEqual_unfold (r b : RecImpl) :
    r.equal b = true ↔ r.m.length = b.m.length ∧ r.hashVal = b.hashVal ∧
      ∀ kv ∈ r.m, ∃ bv, b.m.get kv.1 = some bv ∧ Value.beq kv.2 bv = true := by
  unfold RecImpl.equal
  by_cases h1 : r.m.length = b.m.length <;> by_cases h2 : r.hashVal = b.hashVal <;> simp [h1, h2]
  constructor
  · intro h k v hkv
    have := h k v hkv
    split at this
    · rename_i bv hb; exact ⟨bv, hb, this⟩
    · cases this
  · intro h k v hkv
    obtain ⟨bv, hb, hbeq⟩ := h k v hkv
    rw [hb]; exact hbeq

/-- `Record.Equal` on Go maps with unique keys and consistent cached hashes: same keys with equal values -/
theorem recEqual_iff {hash : Value → UInt64} (hr : HashRespectsEq hash) {r b : RecImpl}
    (hnr : (rkeys r.m).Nodup) (hnb : (rkeys b.m).Nodup)
    (hhr : r.hashVal = recHash hash r.m) (hhb : b.hashVal = recHash hash b.m) :
    r.equal b = true ↔ ∀ q, optBeq (r.m.get q) (b.m.get q) = true := by
  rw [recEqual_unfold]
  constructor
  · rintro ⟨hlen, _, hsub⟩ q
    cases hg : r.m.get q with
    | some v =>
      obtain ⟨bv, hb, hbeq⟩ := hsub (q, v) (rget_some_mem hg)
      simp [hb, optBeq, hbeq]
    | none =>
      cases hgb : b.m.get q with
      | none => rfl
      | some bv =>
        exfalso
        have hq : q ∉ rkeys r.m := rget_none_iff.mp hg
        have hqb : q ∈ rkeys b.m := by
          apply Classical.byContradiction; intro hnot
          rw [rget_none_iff.mpr hnot] at hgb; cases hgb
        have hsubk : ∀ a ∈ q :: rkeys r.m, a ∈ rkeys b.m := by
          intro a ha
          rcases List.mem_cons.mp ha with rfl | ha
          · exact hqb
          · obtain ⟨kv, hkv, rfl⟩ := List.mem_map.mp ha
            obtain ⟨bv', hb', _⟩ := hsub kv hkv
            apply Classical.byContradiction; intro hnot
            rw [rget_none_iff.mpr hnot] at hb'; cases hb'
        have := nodup_subset_length (q :: rkeys r.m) (rkeys b.m) (List.nodup_cons.mpr ⟨hq, hnr⟩) hsubk
        simp [rkeys] at this
        omega
  · intro h
    have hsubk : ∀ {m₁ m₂ : RecMap}, (∀ q, optBeq (m₁.get q) (m₂.get q) = true) → ∀ a ∈ rkeys m₁, a ∈ rkeys m₂ := by
      intro m₁ m₂ h a ha
      apply Classical.byContradiction; intro hnot
      have h2 := rget_none_iff.mpr hnot
      have := h a
      rw [h2] at this
      cases h1 : m₁.get a with
      | none => exact (rget_none_iff.mp h1) ha
      | some v => rw [h1] at this; simp [optBeq] at this
    have hsymm : ∀ q, optBeq (b.m.get q) (r.m.get q) = true := by
      intro q
      have := h q
      cases h1 : r.m.get q <;> cases h2 : b.m.get q <;> simp_all [optBeq]
      rw [beq_symm]; exact this
    refine ⟨?_, ?_, ?_⟩
    · have l1 := nodup_subset_length _ _ hnr (hsubk h)
      have l2 := nodup_subset_length _ _ hnb (hsubk hsymm)
      simp [rkeys] at l1 l2
      omega
    · rw [hhr, hhb]
      apply recHash_congr hr
      rw [beqKV_iff_sorted _ _ (sorted_sorted _) (sorted_sorted _)]
      intro q
      rw [sorted_get hnr, sorted_get hnb]
      exact h q
    · intro kv hkv
      have hg : r.m.get kv.1 = some kv.2 := rget_of_mem hnr (by cases kv; exact hkv)
      have := h kv.1
      rw [hg] at this
      cases hb : b.m.get kv.1 with
      | none => rw [hb] at this; simp [optBeq] at this
      | some bv => rw [hb] at this; exact ⟨bv, rfl, by simpa [optBeq] using this⟩

end C11
end CedarGo

namespace CedarGo
namespace C11

/-! ### the cached hashes of the table / map models are the value-level `goHash` -/

theorem sumU64_reverse (l : List UInt64) : sumU64 l.reverse = sumU64 l := by
  induction l with
  | nil => rfl
  | cons x l ih => simp [sumU64_append, sumU64, ih, UInt64.add_comm]

theorem newSet_hashVal_eq_goHash (l : List Value) (hl : l.length < 18446744073709551616) :
    (newSet goHash l).hashVal = goHash (mkSet l) := by
  obtain ⟨wf, hv⟩ := newSet_spec goHash_respects_eq l hl
  have h1 : goHash (mkSet l) = goHash (.set l) := by
    apply goHash_respects_eq
    rw [mkSet, beq_set_iff_same]
    exact dedupV_mem l
  rw [h1, goHash_set, wf.hashOk, ← hv, List.map_reverse, sumU64_reverse]

theorem goHashKVs_eq_foldl : ∀ (l : List (String × Value)) (h : UInt64),
    goHashKVs h l = l.foldl (fun h kv => fnvLE64 (fnvString h kv.1) (goHash kv.2)) h := by
  intro l
  induction l with
  | nil => intro h; rfl
  | cons kv l ih => intro h; obtain ⟨k, v⟩ := kv; simp [goHashKVs, ih]

theorem newRecord_hashVal_eq_goHash (kvs : List (String × Value)) :
    (newRecord goHash kvs).hashVal = goHash (mkRecord kvs) := by
  obtain ⟨l, e, s, g⟩ := mkRecord_spec kvs
  have hn := ofList_nodup kvs
  have hb : Value.beqKV (RecMap.ofList kvs).sorted l = true := by
    rw [beqKV_iff_sorted _ _ (sorted_sorted _) s]
    intro q
    rw [sorted_get hn, ofList_get, g q]
    cases lastGet q kvs with
    | none => rfl
    | some v => exact beq_refl v
  have hc := foldl_hash_congr goHash_respects_eq _ _ fnvOffset hb
  rw [e]
  show recHash goHash (RecMap.ofList kvs) = goHash (.record l)
  unfold recHash
  cases h1 : (RecMap.ofList kvs).sorted with
  | nil =>
    rw [h1] at hb
    cases l with
    | nil => simp [goHash]
    | cons _ _ => simp [Value.beqKV] at hb
  | cons kv rest =>
    rw [h1] at hb hc
    cases l with
    | nil => obtain ⟨_, _⟩ := kv; simp [Value.beqKV] at hb
    | cons kv' l' =>
      simp only [goHash, goHashKVs_eq_foldl]
      exact hc

end C11
end CedarGo
