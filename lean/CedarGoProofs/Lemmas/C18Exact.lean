/-
  C18: every token the pure lexer emits carries `posOf` of the offset of its first byte, and its text is
  the slice of the document starting there.
-/
import CedarGoProofs.Lemmas.C18Pos
namespace CedarGo.Text.Lx

/-- the pure lexer with a `tokEnd` that recomputes position and text from the recorded token start -/
def checkSrc (doc : List UInt8) : Src PState :=
  { pureSrc with
    tokEnd := fun s =>
      ((match s.tokStart with
        | none => (goPos doc 0, [])
        | some st => (goPos doc st, (doc.drop st).take (s.off - s.lastCharLen - st))), s) }

theorem PState.next_fields (s : PState) :
    s.next.2.doc = s.doc ∧ s.next.2.tokStart = s.tokStart ∧ s.next.2.position = s.position := by
  unfold PState.next
  split
  · exact ⟨rfl, rfl, rfl⟩
  · dsimp only
    split
    · exact ⟨rfl, rfl, rfl⟩
    · split <;> exact ⟨rfl, rfl, rfl⟩

/-- while a token is collected its recorded position is `goPos` of its recorded start -/
def ChkInv (doc : List UInt8) (m : Bool) (_ : Rune) (a b : PState) : Prop :=
  a = b ∧ a.doc = doc ∧ (∀ st, a.tokStart = some st → a.position = goPos doc st) ∧ (m = true → a.tokStart ≠ none)

theorem pure_sim_check (doc : List UInt8) : Sim pureSrc (checkSrc doc) (ChkInv doc) where
  next := by
    rintro m c a b ⟨rfl, hd, hp, hm⟩
    obtain ⟨f1, f2, f3⟩ := a.next_fields
    refine ⟨rfl, rfl, ?_, ?_, ?_⟩
    · exact f1.trans hd
    · intro st hs; rw [show (pureSrc.next a).2 = a.next.2 from rfl, f2] at hs; exact f3.trans (hp st hs)
    · intro h; rw [show (pureSrc.next a).2 = a.next.2 from rfl, f2]; exact hm h
  error := by rintro e m c a b ⟨rfl, hd, hp, hm⟩; exact ⟨rfl, hd, hp, hm⟩
  tokKill := by
    rintro m c a b ⟨rfl, hd, _, _⟩
    exact ⟨rfl, hd, fun st hs => by simp [pureSrc] at hs, fun h => by cases h⟩
  tokMark := by
    rintro m c a b ⟨rfl, hd, _, _⟩
    refine ⟨rfl, hd, ?_, ?_⟩
    · intro st hs
      simp only [pureSrc, Option.some.injEq] at hs
      subst hs
      simp [pureSrc, hd]
    · intro _; simp [pureSrc]
  tokEnd := by
    rintro c a b ⟨rfl, hd, hp, hm⟩
    refine ⟨?_, rfl, hd, hp, hm⟩
    show (PState.tokEnd a).1 = _
    simp only [PState.tokEnd, checkSrc]
    cases hs : a.tokStart with
    | none => exact absurd hs (hm rfl)
    | some st => simp only [hp st hs, hd]
  err := by rintro m c a b ⟨rfl, _, _, _⟩; rfl

/-- a token whose position and text were returned by `S.tokEnd` in some state -/
def FromTokEnd {σ : Type} (S : Src σ) (t : RawTok) : Prop := ∃ s, t.pos = (S.tokEnd s).1.1 ∧ t.text = (S.tokEnd s).1.2

theorem tokenFrom_fromTokEnd {σ : Type} (S : Src σ) (F : Nat) : ∀ (f : Nat) (c : Rune) (s : σ),
    FromTokEnd S (tokenFrom S F f c s).tok := by
  have hfin : ∀ (tt : TokType) (c : Rune) (s : σ), FromTokEnd S (finishToken S tt c s).tok :=
    fun tt c s => ⟨s, rfl, rfl⟩
  intro f
  induction f with
  | zero => intro c s; exact hfin _ _ _
  | succ f ih =>
    intro c s
    simp only [tokenFrom]
    repeat' split
    all_goals first | exact hfin _ _ _ | exact ih _ _

theorem tokenizeLoop_fromTokEnd {σ : Type} (S : Src σ) (F : Nat) : ∀ (f : Nat) (c : Rune) (s : σ) (ts : List RawTok),
    tokenizeLoop S F f c s = .ok ts →
    ∀ t ∈ ts, ∃ t', FromTokEnd S t' ∧ t.pos = t'.pos ∧ (t.text = t'.text ∨ t.text = []) := by
  intro f
  induction f with
  | zero => intro c s ts h; cases h
  | succ f ih =>
    intro c s ts h
    simp only [tokenizeLoop] at h
    have hft : FromTokEnd S (nextToken S F c s).tok := by
      simp only [nextToken]; exact tokenFrom_fromTokEnd S F F _ _
    split at h
    · cases h
    · split at h
      · cases h
        intro t ht
        simp only [List.mem_singleton] at ht
        subst ht
        exact ⟨_, hft, rfl, Or.inr rfl⟩
      · split at h
        · rename_i ts' hrec
          cases h
          intro t ht
          rcases List.mem_cons.1 ht with rfl | ht'
          · exact ⟨_, hft, rfl, Or.inl rfl⟩
          · exact ih _ _ _ hrec t ht'
        · cases h

theorem rawTokens_eq_check (doc : List UInt8) (fails : Bool) :
    rawTokens doc fails = tokenize (checkSrc doc) (doc.length + 2) (PState.init doc fails) :=
  tokenize_sim (pure_sim_check doc) _ (m := false)
    ⟨rfl, rfl, fun st hs => by simp [PState.init] at hs, fun h => by cases h⟩

/-- POSITION EXACTNESS on the pure side: for a non-empty document every emitted token (the final EOF
    token included) has `pos = posOf doc (offset of its first byte)` and its text is the document slice
    that starts at that offset -/
theorem rawTokens_positions (doc : List UInt8) (fails : Bool) (hne : doc ≠ []) (ts : List RawTok)
    (h : rawTokens doc fails = .ok ts) :
    ∀ t ∈ ts, t.pos = posOf doc t.pos.offset ∧ (doc.drop t.pos.offset).take t.text.length = t.text := by
  rw [rawTokens_eq_check] at h
  intro t ht
  obtain ⟨t', ⟨s, hp, htx⟩, hpos, htext⟩ := tokenizeLoop_fromTokEnd _ _ _ _ _ _ h t ht
  have hgo : ∀ x, goPos doc x = posOf doc x := by
    intro x; simp only [goPos]; rw [if_neg]; simpa using hne
  simp only [checkSrc] at hp htx
  cases hs : s.tokStart with
  | none =>
    rw [hs] at hp htx
    simp only at hp htx
    have ht0 : t.text = [] := by rcases htext with h1 | h1 <;> simp [h1, htx]
    rw [hpos, hp, hgo, ht0]
    exact ⟨rfl, by simp⟩
  | some st =>
    rw [hs] at hp htx
    simp only at hp htx
    rw [hpos, hp, hgo]
    refine ⟨rfl, ?_⟩
    rw [posOf_offset]
    rcases htext with h1 | h1
    · rw [h1, htx]
      exact (List.prefix_iff_eq_take.1 (List.take_prefix _ _)).symm
    · rw [h1]; simp

end CedarGo.Text.Lx
