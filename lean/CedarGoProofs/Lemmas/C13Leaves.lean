/-
  C13 ⟵ C12: the extension-typed leaves of a value.

  `vWF` (Model/Json/Value.lean) asks, for every decimal / datetime / duration / ip leaf, that the text form parses
  back.  Those identities are what C12 proves about the scalar models; here they are discharged from the C12
  theorems for leaves "in range" (`vInRange`, purely structural), so that the C13 (and C09) round-trip theorems get
  corollaries without any parse∘print hypothesis.

  One extra step is needed for ip leaves: the JSON model has its own transcription of `netip.Addr.String`
  (`JsonModel.printIPNet`, built on `toString` / `Nat.toDigits` and an accumulator loop), C12 speaks about
  `Scalars.printIP` (own digit functions).  `printIPNet_eq` shows the two agree on EVERY value (IPv4, IPv6 with and
  without `::` compression, IPv4-mapped).
-/
import CedarGoProofs.Properties.C12
import CedarGoProofs.Lemmas.C13
namespace CedarGo.JsonModel
open CedarGo CedarGo.Scalars

/-! ### core's `Nat.toDigits 10` is the model's `natDigits` -/

theorem digitChar_eq : ∀ d, d < 10 → Nat.digitChar d = Scalars.digitChar d := by decide

theorem toDigits10_eq_natDigits : ∀ n, Nat.toDigits 10 n = natDigits n := by
  apply natDigits_induction
  · intro n h
    rw [natDigits_lt h, Nat.toDigits_of_lt_base h, digitChar_eq n h]
  · intro n h ih
    rw [natDigits_ge h, Nat.toDigits_of_base_le (by omega) h, ih, digitChar_eq _ (Nat.mod_lt _ (by omega))]

theorem toString_nat_eq (n : Nat) : toString n = String.ofList (natDigits n) := by
  rw [Nat.toString_eq_ofList_toDigits, toDigits10_eq_natDigits]

theorem toString_str (s : String) : toString s = s := rfl

theorem dotted4_eq (a : Nat) : dotted4 a = String.ofList (printV4 a) := by
  simp only [dotted4, printV4, toString_nat_eq, toString_str]
  apply String.toList_inj.mp
  simp [String.toList_append]

/-! ### the JSON model's IPv6 printer is the scalar model's -/

theorem hexDigitChar_eq : ∀ d, d < 16 → Nat.digitChar d = hexDigitChar d := by decide

theorem hexDigitsOf_eq : ∀ n, hexDigitsOf n = natHex n := by
  unfold hexDigitsOf
  apply natHex_induction
  · intro n h
    rw [natHex_lt h, Nat.toDigits_of_lt_base h, hexDigitChar_eq n h]
  · intro n h ih
    rw [natHex_ge h, Nat.toDigits_of_base_le (by omega) h, ih, hexDigitChar_eq _ (Nat.mod_lt _ (by omega))]

theorem groups6_eq (a : Nat) : groups6 a = v6Groups a := by
  rw [v6Groups_eq]
  simp [groups6]

theorem zeroRun_eq : ∀ (l : List Nat), JsonModel.zeroRun l = Scalars.zeroRun l
  | [] => rfl
  | 0 :: r => by simp [JsonModel.zeroRun, Scalars.zeroRun, zeroRun_eq r]
  | (n + 1) :: r => by simp [JsonModel.zeroRun, Scalars.zeroRun]

/-- the JSON model keeps "no run yet" as `(255, 255)` -/
def runPair : Option (Nat × Nat) → Nat × Nat
  | some p => p
  | none => (255, 255)

theorem bestZeroRun_go_eq : ∀ (r : List Nat) (i : Nat) (best : Option (Nat × Nat)),
    bestZeroRun.go r i (runPair best) = runPair (Scalars.bestZeroRun r i best)
  | [], _, _ => rfl
  | g :: r, i, best => by
    rw [bestZeroRun_cons, ← bestZeroRun_go_eq r (i + 1)]
    simp only [bestZeroRun.go, zeroRun_eq]
    have hc : (runPair best).2 - (runPair best).1 = curLen best := by
      rcases best with _ | ⟨s, e⟩ <;> rfl
    rw [hc]
    split <;> rfl

theorem bestZeroRun_eq (gs : List Nat) : JsonModel.bestZeroRun gs = runPair (Scalars.bestZeroRun gs 0 none) :=
  bestZeroRun_go_eq gs 0 none

theorem v6Loop_eq (gs : List Nat) (zs ze : Nat) : ∀ (f i : Nat) (acc : List Char),
    JsonModel.v6Loop gs zs ze f i acc = acc ++ v6Emit gs zs ze f i
  | 0, _, acc => by simp [JsonModel.v6Loop, v6Emit]
  | f + 1, i, acc => by
    rw [v6Emit_step]
    simp only [JsonModel.v6Loop, hexDigitsOf_eq]
    by_cases h8 : i ≥ 8
    · simp [h8]
    · simp only [h8, if_false]
      by_cases hz : (i == zs) = true
      · simp only [hz, if_true]
        by_cases he : ze ≥ 8
        · simp [he]
        · simp only [he, if_false]
          rw [v6Loop_eq gs zs ze f (ze + 1)]
          simp
      · simp only [hz, Bool.false_eq_true, if_false]
        rw [v6Loop_eq gs zs ze f (i + 1)]
        by_cases h0 : i > 0 <;> simp [h0]

theorem printV6Groups_eq (gs : List Nat) : printV6Groups gs = String.ofList
    (match Scalars.bestZeroRun gs 0 none with
     | some (zs, ze) => v6Emit gs zs ze 9 0
     | none => v6Emit gs 255 255 9 0) := by
  unfold printV6Groups
  rw [bestZeroRun_eq]
  cases Scalars.bestZeroRun gs 0 none with
  | none => simp [runPair, v6Loop_eq]
  | some p => obtain ⟨zs, ze⟩ := p; simp [runPair, v6Loop_eq]

theorem printAddr_eq (v6 : Bool) (a : Nat) : JsonModel.printAddr v6 a = String.ofList (Scalars.printAddr v6 a) := by
  cases v6 with
  | false => simp [JsonModel.printAddr, Scalars.printAddr, dotted4_eq]
  | true =>
    simp only [JsonModel.printAddr, Scalars.printAddr, Bool.not_true, Bool.false_eq_true, if_false, Nat.reducePow]
    split
    · rw [dotted4_eq]
      apply String.toList_inj.mp
      simp [String.toList_append]
    · rw [printV6Groups_eq, groups6_eq]
      rfl

/-- the JSON model's `IPAddr.String` is the scalar model's, on every value -/
theorem printIPNet_eq (a : IPNet) : printIPNet a = printIP a := by
  obtain ⟨v6, addr, bits⟩ := a
  simp only [printIPNet, printIP, printIPL, IPNet.bitLen, printAddr_eq, toString_nat_eq]
  by_cases h : (bits == if v6 = true then 128 else 32) = true
  · rw [if_pos h, if_pos h]
  · rw [if_neg h, if_neg h]
    apply String.toList_inj.mp
    simp [String.toList_append]

/-! ### the leaf ranges covered by C12 -/

/-- ip values covered by `C12_ip_roundtrip_iff`: IPv4 (32-bit address, prefix length ≤ 32) and IPv6 (128-bit address,
    prefix length ≤ 128) other than the IPv4-mapped block ::ffff:0:0/96 — for values `netip` can hold this is EXACTLY
    the set of ip values whose text form parses back -/
def ipInRange (a : IPNet) : Bool := decide (a.Valid ∧ ¬ a.Is4In6)

theorem ipInRange_v4 (a bits : Nat) (ha : a < 2 ^ 32) (hb : bits ≤ 32) : ipInRange ⟨false, a, bits⟩ = true := by
  simp [ipInRange, IPNet.Valid, IPNet.Is4In6, ha, hb]

theorem ipInRange_v6 (a bits : Nat) (ha : a < 2 ^ 128) (h4 : a / 2 ^ 32 ≠ 0xffff) (hb : bits ≤ 128) :
    ipInRange ⟨true, a, bits⟩ = true := by
  simp only [ipInRange, IPNet.Valid, IPNet.Is4In6, if_true, true_and, decide_eq_true_eq]
  exact ⟨⟨ha, hb⟩, h4⟩

/-- datetime values covered by `C12_datetime_roundtrip_partial`: from the source's `minDatetime` constant on -/
def datetimeInRange (t : Int) : Bool := decide (minDatetimeMs ≤ t) && decide (t ≤ maxI64)

mutual
/-- every scalar leaf is in the range for which C12 proves `parse (print x) = x` -/
def vInRange : Value → Bool
  | .bool _ => true
  | .str _ => true
  | .entity _ _ => true
  | .long n => decide (InI64 n)
  | .decimal d => decide (InI64 d)
  | .duration d => decide (InI64 d)
  | .datetime t => datetimeInRange t
  | .ip a => ipInRange a
  | .set xs => inRangeL xs
  | .record kvs => inRangeKV kvs
def inRangeL : List Value → Bool
  | [] => true
  | v :: vs => vInRange v && inRangeL vs
def inRangeKV : List (String × Value) → Bool
  | [] => true
  | (_, v) :: kvs => vInRange v && inRangeKV kvs
end

mutual
/-- containers as the public constructors build them: every set duplicate-free (`NewSet`), every record listed by
    strictly increasing key (`NewRecord`) -/
def vCanon : Value → Bool
  | .set xs => canonL xs && nodupV [] xs
  | .record kvs => canonKV kvs && keysSorted kvs
  | _ => true
def canonL : List Value → Bool
  | [] => true
  | v :: vs => vCanon v && canonL vs
def canonKV : List (String × Value) → Bool
  | [] => true
  | (_, v) :: kvs => vCanon v && canonKV kvs
end

/-! ### leaves: C12 gives the `okEq` facts `vWF` asks for -/

theorem okEq_of_eq {r : Except Err Int} {x : Int} (h : r = .ok x) : okEq r x = true := by
  subst h; simp [okEq]

theorem okEqIP_of_eq {r : Except Err IPNet} {x : IPNet} (h : r = .ok x) : okEqIP r x = true := by
  subst h; simp [okEqIP]

theorem wf_decimal (d : Int) (h : InI64 d) : vWF (.decimal d) = true := by
  simp only [vWF]; exact okEq_of_eq (C12_decimal_roundtrip d h)

theorem wf_duration (d : Int) (h : InI64 d) : vWF (.duration d) = true := by
  simp only [vWF]; exact okEq_of_eq (C12_duration_roundtrip d h)

theorem wf_datetime (t : Int) (h : datetimeInRange t = true) : vWF (.datetime t) = true := by
  simp only [datetimeInRange, Bool.and_eq_true, decide_eq_true_eq] at h
  simp only [vWF]; exact okEq_of_eq (C12_datetime_roundtrip_partial t h.1 h.2)

theorem parseIP_printIPNet_of_inRange (a : IPNet) (h : ipInRange a = true) : parseIP (printIPNet a) = .ok a := by
  simp only [ipInRange, decide_eq_true_eq] at h
  rw [printIPNet_eq]
  exact (C12_ip_roundtrip_iff a h.1).2 h.2

theorem wf_ip (a : IPNet) (h : ipInRange a = true) : vWF (.ip a) = true := by
  simp only [vWF]; exact okEqIP_of_eq (parseIP_printIPNet_of_inRange a h)

/-! ### nested values -/

mutual
theorem vWF_of_inRange : ∀ (v : Value), vCanon v = true → vInRange v = true → vWF v = true
  | .bool _, _, _ => rfl
  | .str _, _, _ => rfl
  | .entity _ _, _, _ => rfl
  | .long n, _, hi => by simpa [vInRange, vWF] using hi
  | .decimal d, _, hi => wf_decimal d (by simpa [vInRange] using hi)
  | .duration d, _, hi => wf_duration d (by simpa [vInRange] using hi)
  | .datetime t, _, hi => wf_datetime t (by simpa [vInRange] using hi)
  | .ip a, _, hi => wf_ip a (by simpa [vInRange] using hi)
  | .set xs, hc, hi => by
    simp only [vCanon, Bool.and_eq_true] at hc
    simp only [vInRange] at hi
    simp only [vWF, Bool.and_eq_true]
    exact ⟨wfJsonL_of_inRange xs hc.1 hi, hc.2⟩
  | .record kvs, hc, hi => by
    simp only [vCanon, Bool.and_eq_true] at hc
    simp only [vInRange] at hi
    simp only [vWF, Bool.and_eq_true]
    exact ⟨wfJsonKV_of_inRange kvs hc.1 hi, hc.2⟩
theorem wfJsonL_of_inRange : ∀ (vs : List Value), canonL vs = true → inRangeL vs = true → wfJsonL vs = true
  | [], _, _ => rfl
  | v :: vs, hc, hi => by
    simp only [canonL, Bool.and_eq_true] at hc
    simp only [inRangeL, Bool.and_eq_true] at hi
    simp only [wfJsonL, Bool.and_eq_true]
    exact ⟨vWF_of_inRange v hc.1 hi.1, wfJsonL_of_inRange vs hc.2 hi.2⟩
theorem wfJsonKV_of_inRange : ∀ (kvs : List (String × Value)), canonKV kvs = true → inRangeKV kvs = true →
    wfJsonKV kvs = true
  | [], _, _ => rfl
  | (_, v) :: kvs, hc, hi => by
    simp only [canonKV, Bool.and_eq_true] at hc
    simp only [inRangeKV, Bool.and_eq_true] at hi
    simp only [wfJsonKV, Bool.and_eq_true]
    exact ⟨vWF_of_inRange v hc.1 hi.1, wfJsonKV_of_inRange kvs hc.2 hi.2⟩
end

/-! conversely, the container part of `vWF` is exactly `vCanon` (so nothing but the leaves is strengthened) -/

mutual
theorem vCanon_of_vWF : ∀ (v : Value), vWF v = true → vCanon v = true
  | .bool _, _ => rfl
  | .str _, _ => rfl
  | .entity _ _, _ => rfl
  | .long _, _ => rfl
  | .decimal _, _ => rfl
  | .duration _, _ => rfl
  | .datetime _, _ => rfl
  | .ip _, _ => rfl
  | .set xs, h => by
    simp only [vWF, Bool.and_eq_true] at h
    simp only [vCanon, Bool.and_eq_true]
    exact ⟨canonL_of_wf xs h.1, h.2⟩
  | .record kvs, h => by
    simp only [vWF, Bool.and_eq_true] at h
    simp only [vCanon, Bool.and_eq_true]
    exact ⟨canonKV_of_wf kvs h.1, h.2⟩
theorem canonL_of_wf : ∀ (vs : List Value), wfJsonL vs = true → canonL vs = true
  | [], _ => rfl
  | v :: vs, h => by
    simp only [wfJsonL, Bool.and_eq_true] at h
    simp only [canonL, Bool.and_eq_true]
    exact ⟨vCanon_of_vWF v h.1, canonL_of_wf vs h.2⟩
theorem canonKV_of_wf : ∀ (kvs : List (String × Value)), wfJsonKV kvs = true → canonKV kvs = true
  | [], _ => rfl
  | (_, v) :: kvs, h => by
    simp only [wfJsonKV, Bool.and_eq_true] at h
    simp only [canonKV, Bool.and_eq_true]
    exact ⟨vCanon_of_vWF v h.1, canonKV_of_wf kvs h.2⟩
end

/-! ### record-typed struct fields (entity attributes / tags, request context) -/

/-- `recordWF` with the leaf hypotheses replaced by ranges -/
def recordInRange (kvs : List (String × Value)) : Bool :=
  canonKV kvs && inRangeKV kvs && keysSorted kvs && noReservedKeysKV kvs

theorem recordWF_of_inRange (kvs : List (String × Value)) (h : recordInRange kvs = true) : recordWF kvs = true := by
  simp only [recordInRange, Bool.and_eq_true] at h
  simp only [recordWF, Bool.and_eq_true]
  exact ⟨⟨wfJsonKV_of_inRange kvs h.1.1.1 h.1.1.2, h.1.2⟩, h.2⟩

end CedarGo.JsonModel
