/-
  C06, the INPUT-level premise.  "No ignore marker is met during partial evaluation" (`partialDomain`, `runDomain`) is a
  statement about the model's partial evaluator.  This file replaces it by a structural, decidable statement about the
  inputs and proves that it implies the former:

    * `Value.hasIgnore`          — an ignore marker occurs in the value, at any depth;
    * `noIgnoreInput env`        — no ignore marker in the four request parts nor in the store (attributes and tags of
                                    every entity): everything the evaluator can READ;
    * `Expr.noIgnoreLits`        — no ignore marker in a literal of the expression (a policy text may spell the entity
                                    `__cedar::ignore::""`; such a literal is an ignore marker to `partial`);
    * `Policy.noIgnoreLits`      — the same for every condition of a policy.

  §1  values: `hasIgnore` and the value constructors (`mkSet`, `mkRecord`, `kvGet`, store lookup)
  §2  `eval_noIgnore`: a value computed from ignore-free inputs is ignore-free (no operator, extension function or
      lookup creates an entity that was not in the inputs)
  §3  `partialE_inv`: partial evaluation of an ignore-free expression in an ignore-free environment never reports
      `errIgnore`, and its residual is again ignore-free with distinct record keys (so the next enumeration level of
      batch starts from inputs with the same property)
-/
import CedarGo.Model.Partial
import CedarGoProofs.Lemmas.C06
set_option linter.unusedSimpArgs false
set_option linter.unusedVariables false
namespace CedarGo

/-! ## §1 values -/

-- `Value.hasIgnore` / `hasIgnoreKVs` / `hasIgnoreList` are defined with the model (`CedarGo/Model/Partial.lean`:
-- `PR.whole` consults `Value.ignInside`).

theorem ignInside_of_hasIgnore {v : Value} (h : v.hasIgnore = false) : v.ignInside = false := by
  cases v <;> first | rfl | exact h

/-- attributes and tags of the entity carry no ignore marker -/
def EntityData.noIgnore (d : EntityData) : Bool := !Value.hasIgnoreKVs d.attrs && !Value.hasIgnoreKVs d.tags

/-- no entity of the store carries an ignore marker -/
def Entities.noIgnore (es : Entities) : Bool := es.all fun kd => kd.2.noIgnore

/-- INPUT-level premise on the (partial) environment: no ignore marker occurs in the principal, action, resource or
    context (at any depth) nor in the store -/
def noIgnoreInput (env : Env) : Bool :=
  !env.principal.hasIgnore && !env.action.hasIgnore && !env.resource.hasIgnore && !env.context.hasIgnore &&
    env.entities.noIgnore

mutual
/-- no literal of the expression contains an ignore marker -/
def Expr.noIgnoreLits : Expr → Bool
  | .lit v => !v.hasIgnore
  | .var _ => true
  | .unop _ e => e.noIgnoreLits
  | .binop _ l r => l.noIgnoreLits && r.noIgnoreLits
  | .ite c t e => c.noIgnoreLits && t.noIgnoreLits && e.noIgnoreLits
  | .access e _ => e.noIgnoreLits
  | .has e _ => e.noIgnoreLits
  | .like e _ => e.noIgnoreLits
  | .is e _ => e.noIgnoreLits
  | .isIn e _ r => e.noIgnoreLits && r.noIgnoreLits
  | .set es => noIgnoreLitsL es
  | .record kes => noIgnoreLitsKVs kes
  | .call _ args => noIgnoreLitsL args
def noIgnoreLitsL : List Expr → Bool
  | [] => true
  | e :: es => e.noIgnoreLits && noIgnoreLitsL es
def noIgnoreLitsKVs : List (String × Expr) → Bool
  | [] => true
  | (_, e) :: kes => e.noIgnoreLits && noIgnoreLitsKVs kes
end

def Policy.noIgnoreLits (p : Policy) : Bool := p.conditions.all fun c => c.2.noIgnoreLits

theorem hasIgnoreList_false {xs : List Value} :
    Value.hasIgnoreList xs = false ↔ ∀ x ∈ xs, x.hasIgnore = false := by
  induction xs with
  | nil => simp [Value.hasIgnoreList]
  | cons x xs ih => simp [Value.hasIgnoreList, ih]

theorem hasIgnoreKVs_false {kvs : List (String × Value)} :
    Value.hasIgnoreKVs kvs = false ↔ ∀ kv ∈ kvs, kv.2.hasIgnore = false := by
  induction kvs with
  | nil => simp [Value.hasIgnoreKVs]
  | cons kv kvs ih => obtain ⟨k, x⟩ := kv; simp [Value.hasIgnoreKVs, ih]

theorem isIgnore_of_hasIgnore {v : Value} (h : v.hasIgnore = false) : v.isIgnore = false := by
  cases v <;> first | rfl | exact h

theorem kvGet_mem {a : String} : ∀ {kvs : List (String × Value)} {x : Value}, kvGet a kvs = some x → ∃ k, (k, x) ∈ kvs
  | [], _, h => by simp [kvGet] at h
  | (k, y) :: rest, x, h => by
    simp only [kvGet] at h
    split at h
    · cases h; exact ⟨k, by simp⟩
    · obtain ⟨k', hk'⟩ := kvGet_mem h; exact ⟨k', by simp [hk']⟩

theorem kvGet_noIgnore {a : String} {kvs : List (String × Value)} {x : Value}
    (hk : Value.hasIgnoreKVs kvs = false) (h : kvGet a kvs = some x) : x.hasIgnore = false := by
  obtain ⟨k, hm⟩ := kvGet_mem h
  exact hasIgnoreKVs_false.mp hk _ hm

theorem inv_dedupV_subset : ∀ (xs acc : List Value), ∀ v ∈ dedupV acc xs, v ∈ acc ∨ v ∈ xs
  | [], acc, v, h => by simp [dedupV] at h; exact Or.inl h
  | x :: xs, acc, v, h => by
    simp only [dedupV] at h
    split at h
    · rcases inv_dedupV_subset xs acc v h with h | h
      · exact Or.inl h
      · exact Or.inr (by simp [h])
    · rcases inv_dedupV_subset xs (x :: acc) v h with h | h
      · rcases List.mem_cons.mp h with rfl | h
        · exact Or.inr (by simp)
        · exact Or.inl h
      · exact Or.inr (by simp [h])

theorem mkSet_noIgnore {vs : List Value} (h : ∀ x ∈ vs, x.hasIgnore = false) : (mkSet vs).hasIgnore = false := by
  simp only [mkSet, Value.hasIgnore]
  apply hasIgnoreList_false.mpr
  intro x hx
  rcases inv_dedupV_subset vs [] x hx with h' | h'
  · cases h'
  · exact h x h'

theorem mkRecord_noIgnore {kvs : List (String × Value)} (h : ∀ kv ∈ kvs, kv.2.hasIgnore = false) :
    (mkRecord kvs).hasIgnore = false := by
  rw [mkRecord_eq_canon]
  simp only [Value.hasIgnore]
  apply hasIgnoreKVs_false.mpr
  intro kv hkv
  exact h kv (canonKVs_subset _ kv hkv)

theorem entities_get_mem : ∀ {es : Entities} {u : UID} {d : EntityData}, es.get u = some d → ∃ k, (k, d) ∈ es
  | [], _, _, h => by simp [Entities.get] at h
  | (k, d') :: rest, u, d, h => by
    simp only [Entities.get] at h
    split at h
    · cases h; exact ⟨k, by simp⟩
    · obtain ⟨k', hk'⟩ := entities_get_mem h; exact ⟨k', by simp [hk']⟩

theorem entities_get_noIgnore {es : Entities} {u : UID} {d : EntityData} (hE : es.noIgnore = true)
    (h : es.get u = some d) : Value.hasIgnoreKVs d.attrs = false ∧ Value.hasIgnoreKVs d.tags = false := by
  obtain ⟨k, hm⟩ := entities_get_mem h
  have := List.all_eq_true.mp hE _ hm
  simpa [EntityData.noIgnore] using this

theorem noIgnoreInput_parts {env : Env} (h : noIgnoreInput env = true) :
    env.principal.hasIgnore = false ∧ env.action.hasIgnore = false ∧ env.resource.hasIgnore = false ∧
      env.context.hasIgnore = false ∧ env.entities.noIgnore = true := by
  simpa [noIgnoreInput, and_assoc] using h

/-! ## §2 evaluation creates no ignore marker -/

/-- results whose value, if any, is ignore-free -/
def ResClean (r : Res) : Prop := ∀ v, r = .ok v → v.hasIgnore = false

theorem ResClean.error (e : Err) : ResClean (.error e) := by intro v h; cases h
theorem ResClean.bool (b : Bool) : ResClean (.ok (.bool b)) := by intro v h; cases h; rfl
theorem ResClean.long (n : Int) : ResClean (.ok (.long n)) := by intro v h; cases h; rfl
theorem ResClean.ok {v : Value} (h : v.hasIgnore = false) : ResClean (.ok v) := by intro w hw; cases hw; exact h

theorem unSem_clean (op : UnOp) (ra : Res) : ResClean (unSem op ra) := by
  intro v h
  cases ra with
  | error e => rw [unSem_err] at h; cases h
  | ok a =>
    cases op <;> cases a <;> simp [unSem, bind, Except.bind, toBool, toLong, toSet] at h
    · subst h; rfl
    · split at h
      · cases h; rfl
      · cases h
    · subst h; rfl

theorem doIn_clean (env : Env) (u : UID) (b : Value) : ResClean (doIn env u b) := by
  intro v h
  unfold doIn at h
  split at h
  · split at h
    · cases h; rfl
    · cases h
  · split at h
    · cases h
    · split at h
      · cases h; rfl
      · cases h
  · cases h

theorem binSem_clean (op : BinOp) (env : Env) (hE : env.entities.noIgnore = true) {ra rb : Res}
    (ha : ResClean ra) (hb : ResClean rb) : ResClean (binSem op env ra rb) := by
  intro v h
  cases ra with
  | error e => rw [binSem_err_left] at h; cases h
  | ok a =>
    have haa := ha a rfl
    cases op
    case and =>
      cases a <;> simp [binSem, bind, Except.bind, toBool] at h
      rename_i b
      cases b
      · simp at h; subst h; rfl
      · cases rb with
        | error e => simp at h
        | ok y => cases y <;> simp [toBool] at h; subst h; rfl
    case or =>
      cases a <;> simp [binSem, bind, Except.bind, toBool] at h
      rename_i b
      cases b
      · cases rb with
        | error e => simp at h
        | ok y => cases y <;> simp [toBool] at h; subst h; rfl
      · simp at h; subst h; rfl
    case in_ =>
      cases a <;> simp [binSem, bind, Except.bind, toEntity] at h
      cases rb with
      | error e => simp at h
      | ok y => exact doIn_clean env _ y v h
    case getTag =>
      cases a <;> simp [binSem, bind, Except.bind, toEntity] at h
      split at h
      · cases h
      · cases rb with
        | error e => simp at h
        | ok y =>
          cases y <;> simp [toStr] at h
          split at h
          · cases h
          · rename_i d hd
            split at h
            · rename_i x hx
              cases h
              exact kvGet_noIgnore (entities_get_noIgnore hE hd).2 hx
            · cases h
    all_goals
      cases rb with
      | error e =>
        cases a <;> simp [binSem, bind, Except.bind, toLong, toComparable, toSet, toEntity, toStr] at h
      | ok y =>
        cases a <;> cases y <;>
          simp [binSem, bind, Except.bind, toLong, toComparable, toSet, toEntity, toStr] at h <;>
          (try (split at h <;> simp at h)) <;> (try subst h) <;> (try rfl)

theorem accessSem_clean (env : Env) (hE : env.entities.noIgnore = true) {ra : Res} (a : String) (ha : ResClean ra) :
    ResClean (accessSem env ra a) := by
  intro v h
  cases ra with
  | error e => cases h
  | ok x =>
    have hx := ha x rfl
    cases x <;> simp only [accessSem, bind, Except.bind] at h <;> try (cases h; done)
    · split at h
      · cases h
      · split at h
        · cases h
        · rename_i d hd
          split at h
          · rename_i y hy; cases h; exact kvGet_noIgnore (entities_get_noIgnore hE hd).1 hy
          · cases h
    · split at h
      · rename_i y hy; cases h; exact kvGet_noIgnore hx hy
      · cases h

theorem hasSem_clean (env : Env) (ra : Res) (a : String) : ResClean (hasSem env ra a) := by
  intro v h
  cases ra with
  | error e => cases h
  | ok x =>
    cases x <;> simp only [hasSem, bind, Except.bind] at h <;> try (cases h; done)
    · split at h <;> (cases h; rfl)
    · cases h; rfl

theorem likeSem_clean (ra : Res) (p : Pattern) : ResClean (likeSem ra p) := by
  intro v h
  cases ra with
  | error e => cases h
  | ok x => cases x <;> simp [likeSem, bind, Except.bind, toStr] at h; subst h; rfl

theorem isSem_clean (ra : Res) (ty : String) : ResClean (isSem ra ty) := by
  intro v h
  cases ra with
  | error e => cases h
  | ok x => cases x <;> simp [isSem, bind, Except.bind, toEntity] at h; subst h; rfl

theorem isInSem_clean (env : Env) (ty : String) (ra rb : Res) : ResClean (isInSem env ty ra rb) := by
  intro v h
  cases ra with
  | error e => cases h
  | ok x =>
    cases x <;> simp only [isInSem, bind, Except.bind, toEntity] at h <;> try (cases h; done)
    split at h
    · cases h; rfl
    · cases rb with
      | error e => cases h
      | ok y => exact doIn_clean env _ y v h

theorem iteSem_clean {rc rt re : Res} (ht : ResClean rt) (he : ResClean re) : ResClean (iteSem rc rt re) := by
  intro v h
  cases rc with
  | error e => cases h
  | ok x =>
    cases x <;> simp only [iteSem, bind, Except.bind, toBool] at h <;> try (cases h; done)
    split at h
    · exact ht v h
    · exact he v h

theorem callExt_clean (fn : String) (vs : List Value) : ResClean (callExt fn vs) := by
  intro v h
  unfold callExt at h
  split at h <;> (repeat' (split at h)) <;>
    first
    | (cases h; rfl)
    | (cases h; done)
    | (simp only [Except.map] at h; split at h <;> (cases h; try rfl))

theorem callSem_clean (fn : String) (n : Nat) (args : List Kind → Except Err (List Value)) : ResClean (callSem fn n args) := by
  intro v h
  unfold callSem at h
  split at h
  · cases h1 : args [.str] <;> simp [h1, bind, Except.bind] at h
  · split at h
    · cases h
    · split at h
      · cases h
      · cases h1 : args (extSig fn) with
        | error e => simp [h1, bind, Except.bind] at h
        | ok vs => simp only [h1, bind, Except.bind] at h; exact callExt_clean fn vs v h

theorem evalList_clean (env : Env) : ∀ (es : List Expr) (vs : List Value),
    (∀ e ∈ es, ResClean (eval e env)) → evalList es env = .ok vs → ∀ x ∈ vs, x.hasIgnore = false
  | [], vs, _, h => by simp [evalList] at h; subst h; simp
  | e :: es, vs, hc, h => by
    simp only [evalList, bind, Except.bind] at h
    cases he : eval e env with
    | error k => simp [he] at h
    | ok v =>
      simp only [he] at h
      cases hes : evalList es env with
      | error k => simp [hes] at h
      | ok ws =>
        simp only [hes] at h
        cases h
        intro x hx
        rcases List.mem_cons.mp hx with rfl | hx
        · exact hc e (by simp) _ he
        · exact evalList_clean env es ws (fun e' he' => hc e' (by simp [he'])) hes x hx

theorem evalKVs_clean (env : Env) : ∀ (kes : List (String × Expr)) (kvs : List (String × Value)),
    (∀ ke ∈ kes, ResClean (eval ke.2 env)) → evalKVs kes env = .ok kvs → ∀ kv ∈ kvs, kv.2.hasIgnore = false
  | [], kvs, _, h => by simp [evalKVs] at h; subst h; simp
  | (k, e) :: kes, kvs, hc, h => by
    simp only [evalKVs, bind, Except.bind] at h
    cases he : eval e env with
    | error k => simp [he] at h
    | ok v =>
      simp only [he] at h
      cases hes : evalKVs kes env with
      | error k => simp [hes] at h
      | ok ws =>
        simp only [hes] at h
        cases h
        intro x hx
        rcases List.mem_cons.mp hx with rfl | hx
        · exact hc (k, e) (by simp) _ he
        · exact evalKVs_clean env kes ws (fun e' he' => hc e' (by simp [he'])) hes x hx

theorem set_clean (env : Env) (es : List Expr) (hc : ∀ e ∈ es, ResClean (eval e env)) : ResClean (eval (.set es) env) := by
  intro v h
  rw [eval_set] at h
  cases hes : evalList es env with
  | error k => simp [hes, Except.bind] at h
  | ok vs =>
    simp only [hes, Except.bind] at h
    cases h
    exact mkSet_noIgnore (evalList_clean env es vs hc hes)

theorem record_clean (env : Env) (kes : List (String × Expr)) (hc : ∀ ke ∈ kes, ResClean (eval ke.2 env)) :
    ResClean (eval (.record kes) env) := by
  intro v h
  rw [eval_recordLit] at h
  cases hes : evalKVs (canonKVs kes) env with
  | error k => simp [hes, Except.bind] at h
  | ok kvs =>
    simp only [hes, Except.bind] at h
    cases h
    exact mkRecord_noIgnore (evalKVs_clean env _ kvs (fun ke hke => hc ke (canonKVs_subset _ ke hke)) hes)

mutual
/-- **Evaluation creates no ignore marker**: the value of an expression without ignore markers in its literals, in an
    environment without ignore markers, contains no ignore marker. -/
theorem eval_clean (env : Env) (hE : noIgnoreInput env = true) :
    ∀ e : Expr, e.noIgnoreLits = true → ResClean (eval e env)
  | .lit v, hl => by
      simp only [Expr.noIgnoreLits, Bool.not_eq_true'] at hl
      simp only [eval]; exact ResClean.ok hl
  | .var x, _ => by
      obtain ⟨h1, h2, h3, h4, _⟩ := noIgnoreInput_parts hE
      cases x <;> simp only [eval] <;> apply ResClean.ok <;> assumption
  | .unop op e, _ => by rw [eval_unop]; exact unSem_clean _ _
  | .binop op l r, hl => by
      simp only [Expr.noIgnoreLits, Bool.and_eq_true] at hl
      rw [eval_binop]
      exact binSem_clean op env (noIgnoreInput_parts hE).2.2.2.2 (eval_clean env hE l hl.1) (eval_clean env hE r hl.2)
  | .ite c t e, hl => by
      simp only [Expr.noIgnoreLits, Bool.and_eq_true] at hl
      rw [eval_ite]
      exact iteSem_clean (eval_clean env hE t hl.1.2) (eval_clean env hE e hl.2)
  | .access e a, hl => by
      simp only [Expr.noIgnoreLits] at hl
      rw [eval_access]
      exact accessSem_clean env (noIgnoreInput_parts hE).2.2.2.2 a (eval_clean env hE e hl)
  | .has e a, _ => by rw [eval_has]; exact hasSem_clean _ _ _
  | .like e p, _ => by rw [eval_like]; exact likeSem_clean _ _
  | .is e ty, _ => by rw [eval_is]; exact isSem_clean _ _
  | .isIn e ty r, _ => by rw [eval_isIn]; exact isInSem_clean _ _ _ _
  | .set es, hl => by
      simp only [Expr.noIgnoreLits] at hl
      exact set_clean env es (evalMem_clean env hE es hl)
  | .record kes, hl => by
      simp only [Expr.noIgnoreLits] at hl
      exact record_clean env kes (evalKVMem_clean env hE kes hl)
  | .call fn args, _ => by rw [eval_call]; exact callSem_clean _ _ _
theorem evalMem_clean (env : Env) (hE : noIgnoreInput env = true) :
    ∀ es : List Expr, noIgnoreLitsL es = true → ∀ e ∈ es, ResClean (eval e env)
  | [], _, e, h => by cases h
  | e0 :: es, hl, e, h => by
      simp only [noIgnoreLitsL, Bool.and_eq_true] at hl
      rcases List.mem_cons.mp h with h | h
      · rw [h]; exact eval_clean env hE e0 hl.1
      · exact evalMem_clean env hE es hl.2 e h
theorem evalKVMem_clean (env : Env) (hE : noIgnoreInput env = true) :
    ∀ kes : List (String × Expr), noIgnoreLitsKVs kes = true → ∀ ke ∈ kes, ResClean (eval ke.2 env)
  | [], _, e, h => by cases h
  | (k, e0) :: kes, hl, ke, h => by
      simp only [noIgnoreLitsKVs, Bool.and_eq_true] at hl
      rcases List.mem_cons.mp h with h | h
      · rw [h]; exact eval_clean env hE e0 hl.1
      · exact evalKVMem_clean env hE kes hl.2 ke h
end

/-! ## §3 partial evaluation of ignore-free inputs never reports `errIgnore` -/

/-- an expression the next round can start from: no ignore marker in a literal, record keys distinct -/
def Expr.good (e : Expr) : Prop := e.noIgnoreLits = true ∧ e.recKeysDistinct = true

/-- the invariant of `partialE` on ignore-free inputs: never `errIgnore`; a residual is again a good expression -/
def Inv : PR → Prop
  | .ign => False
  | .ok e' => e'.good
  | _ => True

def EvClean : EvR → Prop
  | .ign => False
  | .val v => v.hasIgnore = false
  | .err _ => True

theorem good_lit {v : Value} (h : v.hasIgnore = false) : (Expr.lit v).good := by
  simp [Expr.good, Expr.noIgnoreLits, Expr.recKeysDistinct, h]

theorem good_extError : extError.good := by
  simp [Expr.good, extError, Expr.noIgnoreLits, noIgnoreLitsL, Expr.recKeysDistinct, recKeysDistinctL, Value.hasIgnore]

theorem good_unop {op : UnOp} {e : Expr} (h : e.good) : (Expr.unop op e).good := by
  simpa [Expr.good, Expr.noIgnoreLits, Expr.recKeysDistinct] using h
theorem good_access {a : String} {e : Expr} (h : e.good) : (Expr.access e a).good := by
  simpa [Expr.good, Expr.noIgnoreLits, Expr.recKeysDistinct] using h
theorem good_has {a : String} {e : Expr} (h : e.good) : (Expr.has e a).good := by
  simpa [Expr.good, Expr.noIgnoreLits, Expr.recKeysDistinct] using h
theorem good_like {p : Pattern} {e : Expr} (h : e.good) : (Expr.like e p).good := by
  simpa [Expr.good, Expr.noIgnoreLits, Expr.recKeysDistinct] using h
theorem good_is {ty : String} {e : Expr} (h : e.good) : (Expr.is e ty).good := by
  simpa [Expr.good, Expr.noIgnoreLits, Expr.recKeysDistinct] using h
theorem good_binop {op : BinOp} {l r : Expr} (hl : l.good) (hr : r.good) : (Expr.binop op l r).good := by
  simp [Expr.good, Expr.noIgnoreLits, Expr.recKeysDistinct, hl.1, hl.2, hr.1, hr.2]
theorem good_isIn {ty : String} {l r : Expr} (hl : l.good) (hr : r.good) : (Expr.isIn l ty r).good := by
  simp [Expr.good, Expr.noIgnoreLits, Expr.recKeysDistinct, hl.1, hl.2, hr.1, hr.2]
theorem good_ite {c t e : Expr} (hc : c.good) (ht : t.good) (he : e.good) : (Expr.ite c t e).good := by
  simp [Expr.good, Expr.noIgnoreLits, Expr.recKeysDistinct, hc.1, hc.2, ht.1, ht.2, he.1, he.2]

theorem noIgnoreLitsL_iff {es : List Expr} : noIgnoreLitsL es = true ↔ ∀ e ∈ es, e.noIgnoreLits = true := by
  induction es with
  | nil => simp [noIgnoreLitsL]
  | cons e es ih => simp [noIgnoreLitsL, ih]
theorem recKeysDistinctL_iff {es : List Expr} : recKeysDistinctL es = true ↔ ∀ e ∈ es, e.recKeysDistinct = true := by
  induction es with
  | nil => simp [recKeysDistinctL]
  | cons e es ih => simp [recKeysDistinctL, ih]
theorem noIgnoreLitsKVs_iff {kes : List (String × Expr)} : noIgnoreLitsKVs kes = true ↔ ∀ ke ∈ kes, ke.2.noIgnoreLits = true := by
  induction kes with
  | nil => simp [noIgnoreLitsKVs]
  | cons ke kes ih => obtain ⟨k, e⟩ := ke; simp [noIgnoreLitsKVs, ih]
theorem recKeysDistinctKVs_iff {kes : List (String × Expr)} :
    recKeysDistinctKVs kes = true ↔ ∀ ke ∈ kes, ke.2.recKeysDistinct = true := by
  induction kes with
  | nil => simp [recKeysDistinctKVs]
  | cons ke kes ih => obtain ⟨k, e⟩ := ke; simp [recKeysDistinctKVs, ih]

theorem good_set {ns : List Expr} (h : ∀ x ∈ ns, x.good) : (Expr.set ns).good :=
  ⟨by simp only [Expr.noIgnoreLits]; exact noIgnoreLitsL_iff.mpr (fun x hx => (h x hx).1),
   by simp only [Expr.recKeysDistinct]; exact recKeysDistinctL_iff.mpr (fun x hx => (h x hx).2)⟩

theorem good_call {fn : String} {ns : List Expr} (h : ∀ x ∈ ns, x.good) : (Expr.call fn ns).good :=
  ⟨by simp only [Expr.noIgnoreLits]; exact noIgnoreLitsL_iff.mpr (fun x hx => (h x hx).1),
   by simp only [Expr.recKeysDistinct]; exact recKeysDistinctL_iff.mpr (fun x hx => (h x hx).2)⟩

theorem rebuildKVs_snd_mem : ∀ (kes : List (String × Expr)) (ns : List Expr), ∀ ke ∈ rebuildKVs kes ns, ke.2 ∈ ns
  | [], _, ke, h => by simp [rebuildKVs] at h
  | _ :: _, [], ke, h => by simp [rebuildKVs] at h
  | (k, _) :: kes, n :: ns, ke, h => by
    simp only [rebuildKVs, List.mem_cons] at h
    rcases h with rfl | h
    · simp
    · exact List.mem_cons_of_mem _ (rebuildKVs_snd_mem kes ns ke h)

theorem good_record {kes : List (String × Expr)} (hk : keysNodup kes = true) {ns : List Expr}
    (hl : ns.length = kes.length) (h : ∀ x ∈ ns, x.good) : (Expr.record (rebuildKVs kes ns)).good := by
  refine ⟨?_, ?_⟩
  · simp only [Expr.noIgnoreLits]
    exact noIgnoreLitsKVs_iff.mpr (fun ke hke => (h _ (rebuildKVs_snd_mem kes ns ke hke)).1)
  · simp only [Expr.recKeysDistinct, Bool.and_eq_true]
    refine ⟨?_, recKeysDistinctKVs_iff.mpr (fun ke hke => (h _ (rebuildKVs_snd_mem kes ns ke hke)).2)⟩
    rw [keysNodup_iff, rebuildKVs_keys kes ns hl]
    exact (keysNodup_iff kes).mp hk

theorem evalR_clean {envH : Env} (hE : noIgnoreInput envH = true) {node : Expr} (h : node.good) :
    EvClean (evalR node envH) := by
  unfold evalR
  cases he : eval node envH with
  | error k => trivial
  | ok v => exact eval_clean envH hE node h.1 v he

theorem finishVal_inv {node : Expr} {r : EvR} (h : EvClean r) : Inv (finishVal node r) := by
  cases r with
  | err k => trivial
  | ign => exact h.elim
  | val v =>
    simp only [finishVal]
    split
    · trivial
    · rw [isIgnore_of_hasIgnore h]
      exact good_lit h

theorem hasStep_clean {envH : Env} (hE : noIgnoreInput envH = true) {v : Value} (hv : v.hasIgnore = false) (a : String) :
    EvClean (hasStep envH v a) := by
  unfold hasStep
  cases v with
  | entity ty id =>
    simp only
    cases hd : envH.entities.get (ty, id) with
    | none => rfl
    | some d =>
      simp only
      cases hx : kvGet a d.attrs with
      | none => rfl
      | some x =>
        simp only
        rw [isIgnore_of_hasIgnore (kvGet_noIgnore (entities_get_noIgnore (noIgnoreInput_parts hE).2.2.2.2 hd).1 hx)]
        rfl
  | record kvs =>
    simp only
    cases hx : kvGet a kvs with
    | none => rfl
    | some x =>
      simp only
      rw [isIgnore_of_hasIgnore (kvGet_noIgnore hv hx)]
      rfl
  | _ => trivial

theorem whole_inv {p : PR} (h : Inv p) : Inv p.whole := by
  cases p with
  | ok e =>
    cases e <;> simp only [PR.whole] <;> try exact h
    rename_i v
    have hv : v.ignInside = false := ignInside_of_hasIgnore (by
      have := h.1; simpa [Expr.noIgnoreLits] using this)
    rw [hv]
    simp only [Bool.false_eq_true, if_false]
    split
    · trivial
    · exact h
  | _ => exact h

theorem combine1_inv {e : Expr} {p : PR} {mk : Expr → Expr} {ev : Expr → EvR}
    (hmk : ∀ x, x.good → (mk x).good) (hev : ∀ x, x.good → EvClean (ev (mk x)))
    (he : e.good) (hp : Inv p) : Inv (combine1 e p mk ev) := by
  cases p with
  | err k => trivial
  | ign => exact hp.elim
  | var s => exact hmk e he
  | ok e' =>
    simp only [combine1]
    split
    · exact finishVal_inv (hev e' hp)
    · exact hmk e' hp

theorem combine2_inv {l r : Expr} {p1 p2 : PR} {mk : Expr → Expr → Expr} {ev : Expr → EvR}
    (hmk : ∀ x y, x.good → y.good → (mk x y).good) (hev : ∀ x y, x.good → y.good → EvClean (ev (mk x y)))
    (hl : l.good) (hr : r.good) (h1 : Inv p1) (h2 : Inv p2) : Inv (combine2 l r p1 p2 mk ev) := by
  cases p1 with
  | err k => trivial
  | ign => exact h1.elim
  | var s =>
    cases p2 with
    | err k => trivial
    | ign => exact h2.elim
    | var s2 => exact hmk l r hl hr
    | ok r' => exact hmk l r' hl h2
  | ok l' =>
    cases p2 with
    | err k => trivial
    | ign => exact h2.elim
    | var s2 => exact hmk l' r h1 hr
    | ok r' =>
      simp only [combine2]
      split
      · exact finishVal_inv (hev l' r' h1 h2)
      · exact hmk l' r' h1 h2

/-- the loop of `tryPartial` over `n` children -/
def InvL (n : Nat) : LoopR → Prop
  | .fail p => Inv p
  | .done ns _ => ns.length = n ∧ ∀ x ∈ ns, x.good

theorem consR_inv {n : Nat} {e : Expr} {p : PR} {rest : LoopR} (he : e.good) (hp : Inv p) (hr : InvL n rest) :
    InvL (n + 1) (consR e p rest) := by
  cases p with
  | err k => trivial
  | ign => exact hp.elim
  | var s =>
    cases rest with
    | fail q => exact hr
    | done ns b =>
      refine ⟨by simp [hr.1], ?_⟩
      intro x hx
      rcases List.mem_cons.mp hx with rfl | hx
      · exact he
      · exact hr.2 x hx
  | ok e' =>
    cases rest with
    | fail q => exact hr
    | done ns b =>
      refine ⟨by simp [hr.1], ?_⟩
      intro x hx
      rcases List.mem_cons.mp hx with rfl | hx
      · exact hp
      · exact hr.2 x hx

theorem finishList_inv {n : Nat} {loop : LoopR} {mk : List Expr → Expr} {ev : Expr → EvR}
    (hmk : ∀ ns : List Expr, ns.length = n → (∀ x ∈ ns, x.good) → (mk ns).good)
    (hev : ∀ ns : List Expr, ns.length = n → (∀ x ∈ ns, x.good) → EvClean (ev (mk ns)))
    (h : InvL n loop) : Inv (finishList loop mk ev) := by
  cases loop with
  | fail q => exact h
  | done ns b =>
    cases b with
    | true => exact finishVal_inv (hev ns h.1 h.2)
    | false => exact hmk ns h.1 h.2

theorem scRest_inv {op : BinOp} {left r : Expr} {pr : PR} (hl : left.good) (hr : r.good) (hp : Inv pr) :
    Inv (scRest op left r pr) := by
  have hq := whole_inv hp
  unfold scRest
  generalize pr.whole = q at hq
  cases q with
  | ign => exact hq.elim
  | err k => exact good_binop hl good_extError
  | var s => exact good_binop hl hr
  | ok r' => exact good_binop hl hq

theorem andStep_inv {envH : Env} (hE : noIgnoreInput envH = true) {l r : Expr} {pl pr : PR}
    (hl : l.good) (hr : r.good) (h1 : Inv pl) (h2 : Inv pr) : Inv (andStep envH l r pl pr) := by
  cases pl with
  | err k => trivial
  | ign => exact h1.elim
  | var s => exact scRest_inv hl hr h2
  | ok l' =>
    cases l' with
    | lit v =>
      cases v with
      | bool b =>
        cases b
        · exact good_lit rfl
        · simp only [andStep]
          exact combine2_inv (fun x y hx hy => good_binop hx hy) (fun x y hx hy => evalR_clean hE (good_binop hx hy))
            (good_lit rfl) hr (good_lit rfl) (whole_inv h2)
      | _ => trivial
    | _ => exact scRest_inv h1 hr h2

theorem orStep_inv {envH : Env} (hE : noIgnoreInput envH = true) {l r : Expr} {pl pr : PR}
    (hl : l.good) (hr : r.good) (h1 : Inv pl) (h2 : Inv pr) : Inv (orStep envH l r pl pr) := by
  cases pl with
  | err k => trivial
  | ign => exact h1.elim
  | var s => exact scRest_inv hl hr h2
  | ok l' =>
    cases l' with
    | lit v =>
      cases v with
      | bool b =>
        cases b
        · simp only [orStep]
          exact combine2_inv (fun x y hx hy => good_binop hx hy) (fun x y hx hy => evalR_clean hE (good_binop hx hy))
            (good_lit rfl) hr (good_lit rfl) (whole_inv h2)
        · exact good_lit rfl
      | _ => trivial
    | _ => exact scRest_inv h1 hr h2

theorem branchNode_inv {orig : Expr} {p : PR} (ho : orig.good) (hp : Inv p) :
    ∃ t', branchNode orig p = some t' ∧ t'.good := by
  have hq := whole_inv hp
  unfold branchNode
  generalize p.whole = q at hq
  cases q with
  | ign => exact hq.elim
  | err k => exact ⟨_, rfl, good_extError⟩
  | var s => exact ⟨_, rfl, ho⟩
  | ok x => exact ⟨_, rfl, hq⟩

theorem iteRest_inv {c t e : Expr} {pt pe : PR} (hc : c.good) (ht : t.good) (he : e.good) (h2 : Inv pt) (h3 : Inv pe) :
    Inv (iteRest c t e pt pe) := by
  obtain ⟨t', e1, g1⟩ := branchNode_inv ht h2
  obtain ⟨e', e2, g2⟩ := branchNode_inv he h3
  simp only [iteRest, e1, e2]
  exact good_ite hc g1 g2

theorem iteStep_inv {c t e : Expr} {pc pt pe : PR} (hc : c.good) (ht : t.good) (he : e.good)
    (h1 : Inv pc) (h2 : Inv pt) (h3 : Inv pe) : Inv (iteStep c t e pc pt pe) := by
  cases pc with
  | err k => trivial
  | ign => exact h1.elim
  | var s => exact iteRest_inv hc ht he h2 h3
  | ok c' =>
    cases c' with
    | lit v =>
      cases v with
      | bool b => cases b <;> simp only [iteStep] <;> assumption
      | _ => trivial
    | _ => exact iteRest_inv h1 ht he h2 h3

theorem isInRest_inv {ty : String} {left r : Expr} {pr : PR} (hl : left.good) (hr : r.good) (hp : Inv pr) :
    Inv (isInRest left ty r pr) := by
  have hq := whole_inv hp
  unfold isInRest
  generalize pr.whole = q at hq
  cases q with
  | ign => exact hq.elim
  | err k => exact good_isIn hl good_extError
  | var s => exact good_isIn hl hr
  | ok r' => exact good_isIn hl hq

theorem isInStep_inv {envH : Env} (hE : noIgnoreInput envH = true) {ty : String} {l r : Expr} {pl pr : PR}
    (hl : l.good) (hr : r.good) (h1 : Inv pl) (h2 : Inv pr) : Inv (isInStep envH ty l r pl pr) := by
  cases pl with
  | err k => trivial
  | ign => exact h1.elim
  | var s => exact isInRest_inv hl hr h2
  | ok l' =>
    cases l' with
    | lit v =>
      cases v with
      | entity ty' id =>
        simp only [isInStep]
        split
        · exact good_lit rfl
        · exact combine2_inv (fun x y hx hy => good_isIn hx hy) (fun x y hx hy => evalR_clean hE (good_isIn hx hy))
            h1 hr (whole_inv h1) (whole_inv h2)
      | _ => trivial
    | _ => exact isInRest_inv h1 hr h2

theorem finishVal_var_inv {envH : Env} (hE : noIgnoreInput envH = true) (x : Var) :
    Inv (finishVal (.var x) (evalR (.var x) envH)) :=
  finishVal_inv (evalR_clean hE ⟨rfl, rfl⟩)

mutual
/-- **The invariant.**  Partial evaluation of an expression without ignore markers (and with distinct record keys) in an
    environment without ignore markers never reports `errIgnore`; what it leaves is again such an expression. -/
theorem partialE_inv {envH : Env} (hE : noIgnoreInput envH = true) :
    ∀ e : Expr, e.noIgnoreLits = true → e.recKeysDistinct = true → Inv (partialE envH e)
  | .lit v, hl, _ => by
      simp only [Expr.noIgnoreLits, Bool.not_eq_true'] at hl
      simp only [partialE]; exact good_lit hl
  | .var x, _, _ => by
      simp only [partialE]; exact finishVal_var_inv hE x
  | .unop op e, hl, hk => by
      simp only [Expr.noIgnoreLits] at hl
      simp only [Expr.recKeysDistinct] at hk
      simp only [partialE]
      exact combine1_inv (fun x hx => good_unop hx) (fun x hx => evalR_clean hE (good_unop hx)) ⟨hl, hk⟩
        (whole_inv (partialE_inv hE e hl hk))
  | .binop op l r, hl, hk => by
      simp only [Expr.noIgnoreLits, Bool.and_eq_true] at hl
      simp only [Expr.recKeysDistinct, Bool.and_eq_true] at hk
      have i1 := partialE_inv hE l hl.1 hk.1
      have i2 := partialE_inv hE r hl.2 hk.2
      cases op
      case and => simp only [partialE]; exact andStep_inv hE ⟨hl.1, hk.1⟩ ⟨hl.2, hk.2⟩ i1 i2
      case or => simp only [partialE]; exact orStep_inv hE ⟨hl.1, hk.1⟩ ⟨hl.2, hk.2⟩ i1 i2
      all_goals
        simp only [partialE]
        exact combine2_inv (fun x y hx hy => good_binop hx hy) (fun x y hx hy => evalR_clean hE (good_binop hx hy))
          ⟨hl.1, hk.1⟩ ⟨hl.2, hk.2⟩ (whole_inv i1) (whole_inv i2)
  | .ite c t e, hl, hk => by
      simp only [Expr.noIgnoreLits, Bool.and_eq_true] at hl
      simp only [Expr.recKeysDistinct, Bool.and_eq_true] at hk
      simp only [partialE]
      exact iteStep_inv ⟨hl.1.1, hk.1.1⟩ ⟨hl.1.2, hk.1.2⟩ ⟨hl.2, hk.2⟩ (partialE_inv hE c hl.1.1 hk.1.1)
        (partialE_inv hE t hl.1.2 hk.1.2) (partialE_inv hE e hl.2 hk.2)
  | .access e a, hl, hk => by
      simp only [Expr.noIgnoreLits] at hl
      simp only [Expr.recKeysDistinct] at hk
      simp only [partialE]
      exact combine1_inv (fun x hx => good_access hx) (fun x hx => evalR_clean hE (good_access hx)) ⟨hl, hk⟩
        (partialE_inv hE e hl hk)
  | .has e a, hl, hk => by
      simp only [Expr.noIgnoreLits] at hl
      simp only [Expr.recKeysDistinct] at hk
      simp only [partialE]
      refine combine1_inv (fun x hx => good_has hx) ?_ ⟨hl, hk⟩ (partialE_inv hE e hl hk)
      intro x hx
      cases x with
      | lit v =>
        simp only
        exact hasStep_clean hE (by simpa [Expr.good, Expr.noIgnoreLits] using hx.1) a
      | _ => trivial
  | .like e p, hl, hk => by
      simp only [Expr.noIgnoreLits] at hl
      simp only [Expr.recKeysDistinct] at hk
      simp only [partialE]
      exact combine1_inv (fun x hx => good_like hx) (fun x hx => evalR_clean hE (good_like hx)) ⟨hl, hk⟩
        (whole_inv (partialE_inv hE e hl hk))
  | .is e ty, hl, hk => by
      simp only [Expr.noIgnoreLits] at hl
      simp only [Expr.recKeysDistinct] at hk
      simp only [partialE]
      exact combine1_inv (fun x hx => good_is hx) (fun x hx => evalR_clean hE (good_is hx)) ⟨hl, hk⟩
        (whole_inv (partialE_inv hE e hl hk))
  | .isIn e ty r, hl, hk => by
      simp only [Expr.noIgnoreLits, Bool.and_eq_true] at hl
      simp only [Expr.recKeysDistinct, Bool.and_eq_true] at hk
      simp only [partialE]
      exact isInStep_inv hE ⟨hl.1, hk.1⟩ ⟨hl.2, hk.2⟩ (partialE_inv hE e hl.1 hk.1) (partialE_inv hE r hl.2 hk.2)
  | .set es, hl, hk => by
      simp only [Expr.noIgnoreLits] at hl
      simp only [Expr.recKeysDistinct] at hk
      simp only [partialE]
      exact finishList_inv (n := es.length) (fun ns _ h => good_set h) (fun ns _ h => evalR_clean hE (good_set h))
        (partialList_inv hE es hl hk)
  | .record kes, hl, hk => by
      simp only [Expr.noIgnoreLits] at hl
      simp only [Expr.recKeysDistinct, Bool.and_eq_true] at hk
      simp only [partialE]
      exact finishList_inv (n := kes.length) (fun ns hn h => good_record hk.1 hn h)
        (fun ns hn h => evalR_clean hE (good_record hk.1 hn h)) (partialKVs_inv hE kes hl hk.2)
  | .call fn args, hl, hk => by
      simp only [Expr.noIgnoreLits] at hl
      simp only [Expr.recKeysDistinct] at hk
      simp only [partialE]
      exact finishList_inv (n := args.length) (fun ns _ h => good_call h) (fun ns _ h => evalR_clean hE (good_call h))
        (partialList_inv hE args hl hk)
theorem partialList_inv {envH : Env} (hE : noIgnoreInput envH = true) :
    ∀ es : List Expr, noIgnoreLitsL es = true → recKeysDistinctL es = true → InvL es.length (partialList envH es)
  | [], _, _ => by simp [partialList, InvL]
  | e :: es, hl, hk => by
      simp only [noIgnoreLitsL, Bool.and_eq_true] at hl
      simp only [recKeysDistinctL, Bool.and_eq_true] at hk
      simp only [partialList, List.length_cons]
      exact consR_inv ⟨hl.1, hk.1⟩ (whole_inv (partialE_inv hE e hl.1 hk.1)) (partialList_inv hE es hl.2 hk.2)
theorem partialKVs_inv {envH : Env} (hE : noIgnoreInput envH = true) :
    ∀ kes : List (String × Expr), noIgnoreLitsKVs kes = true → recKeysDistinctKVs kes = true →
      InvL kes.length (partialKVs envH kes)
  | [], _, _ => by simp [partialKVs, InvL]
  | (k, e) :: kes, hl, hk => by
      simp only [noIgnoreLitsKVs, Bool.and_eq_true] at hl
      simp only [recKeysDistinctKVs, Bool.and_eq_true] at hk
      simp only [partialKVs, List.length_cons]
      exact consR_inv ⟨hl.1, hk.1⟩ (whole_inv (partialE_inv hE e hl.1 hk.1)) (partialKVs_inv hE kes hl.2 hk.2)
end

end CedarGo
