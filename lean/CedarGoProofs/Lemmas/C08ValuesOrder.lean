/-
  Helper lemmas for C08 (values): the member ORDER of a set value is irrelevant for the value theorems.
  Go writes the members in hash-slot order, the model in the order of its member list; `valOK (.set xs)` holds for
  one listing of the members iff it holds for every other one, and the two listings are `Equal` values.
-/
import CedarGoProofs.Lemmas.C11Beq
import CedarGo.Model.Text.Fragment
namespace CedarGo.Text
open CedarGo

theorem valsOK_iff : ∀ (xs : List Value), valsOK xs = true ↔ ∀ x ∈ xs, valOK x = true
  | [] => by simp [valsOK]
  | x :: xs => by simp [valsOK, valsOK_iff xs]

theorem noDupB_iff : ∀ (xs seen : List Value), noDupB seen xs = true ↔
    (∀ x ∈ xs, ∀ s ∈ seen, Value.beq s x = false) ∧ xs.Pairwise (fun a b => Value.beq a b = false)
  | [], seen => by simp [noDupB]
  | x :: xs, seen => by
    simp only [noDupB, Bool.and_eq_true, Bool.not_eq_true', Value.memL, List.any_eq_false, noDupB_iff xs (x :: seen),
      List.mem_cons, List.pairwise_cons, Bool.not_eq_true]
    constructor
    · rintro ⟨h1, h2, h3⟩
      refine ⟨?_, fun a ha => h2 a ha x (.inl rfl), h3⟩
      rintro y (rfl | hy) s hs
      · exact h1 s hs
      · exact h2 y hy s (.inr hs)
    · rintro ⟨h1, h2, h3⟩
      refine ⟨fun s hs => h1 x (.inl rfl) s hs, ?_, h3⟩
      rintro y hy s (rfl | hs)
      · exact h2 y hy
      · exact h1 y (.inr hy) s hs

theorem noDupB_nil_iff (xs : List Value) : noDupB [] xs = true ↔ xs.Pairwise (fun a b => Value.beq a b = false) := by
  simp [noDupB_iff]

/-- a duplicate-free member list may be listed in any order -/
theorem valOK_set_perm {xs ys : List Value} (hp : xs.Perm ys) (h : valOK (.set xs) = true) :
    valOK (.set ys) = true ∧ Value.beq (.set ys) (.set xs) = true := by
  simp only [valOK, Bool.and_eq_true, valsOK_iff, noDupB_nil_iff] at h ⊢
  refine ⟨⟨fun y hy => h.1 y (hp.mem_iff.2 hy), ?_⟩, ?_⟩
  · exact (hp.pairwise_iff (fun {a b} hab => by rw [C11.beq_symm]; exact hab)).1 h.2
  · rw [C11.beq_set_iff]
    exact ⟨fun y hy => ⟨y, hp.mem_iff.2 hy, C11.beq_refl y⟩, fun x hx => ⟨x, hp.mem_iff.1 hx, C11.beq_refl x⟩⟩

end CedarGo.Text
