/-
  C06, ignored parts: the residual does not depend on the values later given to the ignored parts.

  Two completions `env1`, `env2` of the same partial environment `envH` that agree on every request part that is NOT
  ignored (`Twin`).  The residual of `partial` may still MENTION an ignored part — `partialAnd` keeps the original right
  operand of `false && principal.x`-like dead code only when it is never reached, `if true then context.k else principal.x`
  is kept whole when `context.k` is unknown — so independence is semantic, not syntactic:

    `partialE_indep`    — if `partial` does not report `errIgnore` for `e`, then `e` evaluates alike (same value, or both
                          fail) under `env1` and `env2`; by soundness so does its residual.
    `partialPolicy_indep` — a kept policy's residual evaluates (three-valued) alike under `env1` and `env2`.
-/
import CedarGoProofs.Lemmas.C06InvPolicy
set_option linter.unusedSimpArgs false
set_option linter.unusedVariables false
namespace CedarGo

/-- two completions of `envH` that differ at most in the ignored request parts -/
structure Twin (γ : Value → Value) (envH env1 env2 : Env) : Prop where
  c1 : CompletesVia γ envH env1
  c2 : CompletesVia γ envH env2
  var : ∀ x, (envPart x envH).isIgnore = false → eval (.var x) env1 = eval (.var x) env2

theorem Twin.ent {γ : Value → Value} {envH env1 env2 : Env} (T : Twin γ envH env1 env2) : env1.entities = env2.entities :=
  T.c1.ent.symm.trans T.c2.ent

/-! ## congruence across two environments -/

theorem evalList_congr2 {env1 env2 : Env} : ∀ es : List Expr, (∀ e ∈ es, R (eval e env1) (eval e env2)) →
    RL (evalList es env1) (evalList es env2)
  | [], _ => by simp [evalList, RL]
  | e :: es, h => by
    have hne := h e (by simp)
    have ih := evalList_congr2 es (fun x hx => h x (by simp [hx]))
    simp only [evalList, bind, Except.bind]
    cases hn : eval e env1 with
    | error k => rw [hn] at hne; obtain ⟨k', hk'⟩ := R.err_left hne; rw [hk']; simp [RL]
    | ok v =>
      rw [hn] at hne; rw [R.ok_left hne]
      simp only
      cases h1 : evalList es env1 <;> cases h2 : evalList es env2 <;> simp_all [RL]

theorem evalTyped_congr2 {env1 env2 : Env} : ∀ (es : List Expr) (ks : List Kind), (∀ e ∈ es, R (eval e env1) (eval e env2)) →
    RL (evalTyped es ks env1) (evalTyped es ks env2)
  | [], _, _ => by simp [evalTyped, RL]
  | e :: es, ks, h => by
    have hne := h e (by simp)
    have ih := evalTyped_congr2 es ks.tail (fun x hx => h x (by simp [hx]))
    simp only [evalTyped, bind, Except.bind]
    cases hn : eval e env1 with
    | error k => rw [hn] at hne; obtain ⟨k', hk'⟩ := R.err_left hne; rw [hk']; simp [RL]
    | ok v =>
      rw [hn] at hne; rw [R.ok_left hne]
      simp only
      cases checkKind (ks.headD .any) v with
      | error k => simp [RL]
      | ok u =>
        simp only
        cases h1 : evalTyped es ks.tail env1 <;> cases h2 : evalTyped es ks.tail env2 <;> simp_all [RL]

theorem evalKVs_congr2 {env1 env2 : Env} : ∀ kes : List (String × Expr), (∀ ke ∈ kes, R (eval ke.2 env1) (eval ke.2 env2)) →
    RL (evalKVs kes env1) (evalKVs kes env2)
  | [], _ => by simp [evalKVs, RL]
  | (k, e) :: kes, h => by
    have hne : R (eval e env1) (eval e env2) := h (k, e) (by simp)
    have ih := evalKVs_congr2 kes (fun x hx => h x (by simp [hx]))
    simp only [evalKVs, bind, Except.bind]
    cases hn : eval e env1 with
    | error k => rw [hn] at hne; obtain ⟨k', hk'⟩ := R.err_left hne; rw [hk']; simp [RL]
    | ok v =>
      rw [hn] at hne; rw [R.ok_left hne]
      simp only
      cases h1 : evalKVs kes env1 <;> cases h2 : evalKVs kes env2 <;> simp_all [RL]

theorem set_congr2 {env1 env2 : Env} (es : List Expr) (h : ∀ e ∈ es, R (eval e env1) (eval e env2)) :
    R (eval (.set es) env1) (eval (.set es) env2) := by
  rw [eval_set, eval_set]; exact R_of_RL_bind _ (evalList_congr2 es h)

theorem call_congr2 {env1 env2 : Env} (fn : String) (es : List Expr) (h : ∀ e ∈ es, R (eval e env1) (eval e env2)) :
    R (eval (.call fn es) env1) (eval (.call fn es) env2) := by
  rw [eval_call, eval_call]; exact callSem_congr fn _ (fun ks => evalTyped_congr2 es ks h)

theorem record_congr2 {env1 env2 : Env} (kes : List (String × Expr)) (h : ∀ ke ∈ kes, R (eval ke.2 env1) (eval ke.2 env2)) :
    R (eval (.record kes) env1) (eval (.record kes) env2) := by
  rw [eval_recordLit, eval_recordLit]
  exact R_of_RL_bind _ (evalKVs_congr2 _ (fun ke hke => h ke (canonKVs_subset _ ke hke)))

theorem Un.congr2 {mk : Expr → Expr} {sem : Env → Res → Res} (U : Un mk sem) {env1 env2 : Env}
    (hent : env1.entities = env2.entities) {e : Expr} (h : R (eval e env1) (eval e env2)) :
    R (eval (mk e) env1) (eval (mk e) env2) := by
  rw [U.eval_mk, U.eval_mk, U.envInd env1 env2 hent]; exact U.congr env2 h

theorem Bin.congr2 {mk : Expr → Expr → Expr} {sem : Env → Res → Res → Res} (B : Bin mk sem) {env1 env2 : Env}
    (hent : env1.entities = env2.entities) {l r : Expr} (hl : R (eval l env1) (eval l env2))
    (hr : R (eval r env1) (eval r env2)) : R (eval (mk l r) env1) (eval (mk l r) env2) := by
  rw [B.eval_mk, B.eval_mk, B.envInd env1 env2 hent]; exact B.congr env2 _ _ _ _ hl hr

theorem un_access (a : String) : Un (.access · a) (fun env r => accessSem env r a) :=
  ⟨fun x env => eval_access x a env, fun env e => accessSem_err env e a,
   fun env env' h r => accessSem_env env env' h r a, fun _ => rfl⟩
theorem un_has (a : String) : Un (.has · a) (fun env r => hasSem env r a) :=
  ⟨fun x env => eval_has x a env, fun env e => hasSem_err env e a,
   fun env env' h r => hasSem_env env env' h r a, fun _ => rfl⟩

/-! ## the shapes of `tryPartial` -/

/-- `PR.whole` never turns `errIgnore` into something else (it may turn a literal that contains the ignore marker
    INTO `errIgnore`: then nothing is claimed) -/
theorem whole_ne_ign {p : PR} (h : p.whole ≠ .ign) : p ≠ .ign := by
  intro hp; subst hp; exact h rfl

theorem combine1_indep {mk : Expr → Expr} {sem : Env → Res → Res} (U : Un mk sem) {env1 env2 : Env}
    (hent : env1.entities = env2.entities) {e : Expr} {p : PR} {ev : Expr → EvR}
    (hne : combine1 e p mk ev ≠ .ign) (ih : p ≠ .ign → R (eval e env1) (eval e env2)) :
    R (eval (mk e) env1) (eval (mk e) env2) := by
  apply U.congr2 hent
  apply ih
  intro hp; subst hp; exact hne rfl

theorem both_err {a b : Res} (h1 : ∃ k, a = .error k) (h2 : ∃ k, b = .error k) : R a b := by
  obtain ⟨k1, rfl⟩ := h1; obtain ⟨k2, rfl⟩ := h2; exact R.err_err _ _

theorem combine2_indep {γ : Value → Value} [Completion γ] {mk : Expr → Expr → Expr} {sem : Env → Res → Res → Res}
    (B : Bin mk sem) {env1 env2 : Env} (hent : env1.entities = env2.entities) {l r : Expr} {p1 p2 : PR} {ev : Expr → EvR}
    (hs1 : Sound γ env1 l p1) (hs2 : Sound γ env2 l p1)
    (hne : combine2 l r p1 p2 mk ev ≠ .ign)
    (ih1 : p1 ≠ .ign → R (eval l env1) (eval l env2)) (ih2 : p2 ≠ .ign → R (eval r env1) (eval r env2)) :
    R (eval (mk l r) env1) (eval (mk l r) env2) := by
  cases p1 with
  | err k =>
    obtain ⟨k1, e1⟩ := hs1; obtain ⟨k2, e2⟩ := hs2
    rw [B.eval_mk, B.eval_mk, e1, e2, B.errL, B.errL]; exact R.err_err _ _
  | ign => exact absurd rfl hne
  | var s =>
    cases p2 with
    | ign => exact absurd rfl hne
    | _ => exact B.congr2 hent (ih1 (by intro h; cases h)) (ih2 (by intro h; cases h))
  | ok l' =>
    cases p2 with
    | ign => exact absurd rfl hne
    | _ => exact B.congr2 hent (ih1 (by intro h; cases h)) (ih2 (by intro h; cases h))

theorem scRest_ign {op : BinOp} {left r : Expr} : scRest op left r .ign = .ign := rfl

theorem andStep_indep {γ : Value → Value} [Completion γ] {envH env1 env2 : Env} (hent : env1.entities = env2.entities)
    {l r : Expr} {pl pr : PR} (hs1 : Sound γ env1 l pl) (hs2 : Sound γ env2 l pl)
    (hne : andStep envH l r pl pr ≠ .ign)
    (ih1 : pl ≠ .ign → R (eval l env1) (eval l env2)) (ih2 : pr ≠ .ign → R (eval r env1) (eval r env2)) :
    R (eval (.binop .and l r) env1) (eval (.binop .and l r) env2) := by
  by_cases hpr : pr = .ign
  · subst hpr
    cases pl with
    | err k =>
      obtain ⟨k1, e1⟩ := hs1; obtain ⟨k2, e2⟩ := hs2
      rw [eval_binop, eval_binop, e1, e2, binSem_err_left, binSem_err_left]; exact R.err_err _ _
    | ign => exact absurd rfl hne
    | var s => exact absurd rfl hne
    | ok l' =>
      cases l' with
      | lit v =>
        cases v with
        | bool b =>
          cases b
          · rw [eval_binop, eval_binop, lit_bool_eval hs1, lit_bool_eval hs2, sc_and.left_stop, sc_and.left_stop]
            exact R.refl _
          · exact absurd rfl hne
        | _ =>
          obtain ⟨v1, e1, n1⟩ := lit_nonbool_eval hs1 (by intro b hb; cases hb)
          obtain ⟨v2, e2, n2⟩ := lit_nonbool_eval hs2 (by intro b hb; cases hb)
          rw [eval_binop, eval_binop, e1, e2]
          exact both_err (sc_and.left_nonbool env1 _ _ n1) (sc_and.left_nonbool env2 _ _ n2)
      | _ => exact absurd rfl hne
  · have hpl : pl ≠ .ign := by intro h; subst h; exact hne rfl
    exact (bin_binop .and).congr2 hent (ih1 hpl) (ih2 hpr)

theorem orStep_indep {γ : Value → Value} [Completion γ] {envH env1 env2 : Env} (hent : env1.entities = env2.entities)
    {l r : Expr} {pl pr : PR} (hs1 : Sound γ env1 l pl) (hs2 : Sound γ env2 l pl)
    (hne : orStep envH l r pl pr ≠ .ign)
    (ih1 : pl ≠ .ign → R (eval l env1) (eval l env2)) (ih2 : pr ≠ .ign → R (eval r env1) (eval r env2)) :
    R (eval (.binop .or l r) env1) (eval (.binop .or l r) env2) := by
  by_cases hpr : pr = .ign
  · subst hpr
    cases pl with
    | err k =>
      obtain ⟨k1, e1⟩ := hs1; obtain ⟨k2, e2⟩ := hs2
      rw [eval_binop, eval_binop, e1, e2, binSem_err_left, binSem_err_left]; exact R.err_err _ _
    | ign => exact absurd rfl hne
    | var s => exact absurd rfl hne
    | ok l' =>
      cases l' with
      | lit v =>
        cases v with
        | bool b =>
          cases b
          · exact absurd rfl hne
          · rw [eval_binop, eval_binop, lit_bool_eval hs1, lit_bool_eval hs2, sc_or.left_stop, sc_or.left_stop]
            exact R.refl _
        | _ =>
          obtain ⟨v1, e1, n1⟩ := lit_nonbool_eval hs1 (by intro b hb; cases hb)
          obtain ⟨v2, e2, n2⟩ := lit_nonbool_eval hs2 (by intro b hb; cases hb)
          rw [eval_binop, eval_binop, e1, e2]
          exact both_err (sc_or.left_nonbool env1 _ _ n1) (sc_or.left_nonbool env2 _ _ n2)
      | _ => exact absurd rfl hne
  · have hpl : pl ≠ .ign := by intro h; subst h; exact hne rfl
    exact (bin_binop .or).congr2 hent (ih1 hpl) (ih2 hpr)

theorem isInStep_indep {γ : Value → Value} [Completion γ] {envH env1 env2 : Env} (hent : env1.entities = env2.entities)
    {ty : String} {l r : Expr} {pl pr : PR} (hs1 : Sound γ env1 l pl) (hs2 : Sound γ env2 l pl)
    (hne : isInStep envH ty l r pl pr ≠ .ign)
    (ih1 : pl ≠ .ign → R (eval l env1) (eval l env2)) (ih2 : pr ≠ .ign → R (eval r env1) (eval r env2)) :
    R (eval (.isIn l ty r) env1) (eval (.isIn l ty r) env2) := by
  by_cases hpr : pr = .ign
  · subst hpr
    cases pl with
    | err k =>
      obtain ⟨k1, e1⟩ := hs1; obtain ⟨k2, e2⟩ := hs2
      rw [eval_isIn, eval_isIn, e1, e2, isInSem_err_left, isInSem_err_left]; exact R.err_err _ _
    | ign => exact absurd rfl hne
    | var s => exact absurd rfl hne
    | ok l' =>
      cases l' with
      | lit v =>
        cases v with
        | entity ty' id =>
          by_cases hty : (ty' != ty) = true
          · rw [eval_isIn, eval_isIn, lit_entity_eval hs1, lit_entity_eval hs2]
            simp [isInSem, toEntity, bind, Except.bind, hty, R]
          · exfalso
            apply hne
            have hty' : (ty' != ty) = false := by simpa using hty
            simp only [isInStep, hty', Bool.false_eq_true, if_false]
            simp only [PR.whole, Value.ignInside, Bool.false_eq_true, if_false]
            split <;> rfl
        | _ =>
          obtain ⟨v1, e1, n1⟩ := lit_nonentity_eval hs1 (by intro ty id hb; cases hb)
          obtain ⟨v2, e2, n2⟩ := lit_nonentity_eval hs2 (by intro ty id hb; cases hb)
          rw [eval_isIn, eval_isIn, e1, e2]
          apply both_err
          · cases v1 <;> first | exact absurd rfl (n1 _ _) | exact ⟨.type, rfl⟩
          · cases v2 <;> first | exact absurd rfl (n2 _ _) | exact ⟨.type, rfl⟩
      | _ => exact absurd rfl hne
  · have hpl : pl ≠ .ign := by intro h; subst h; exact hne rfl
    exact (bin_isIn ty).congr2 hent (ih1 hpl) (ih2 hpr)

theorem branchNode_ign {orig : Expr} {p : PR} (h : p = .ign) : branchNode orig p = none := by subst h; rfl

theorem iteRest_ne_ign {c t e : Expr} {pt pe : PR} (h : iteRest c t e pt pe ≠ .ign) : pt ≠ .ign ∧ pe ≠ .ign := by
  constructor
  · intro hp; apply h; simp [iteRest, branchNode_ign hp]
  · intro hp; apply h; simp only [iteRest, branchNode_ign hp]
    cases branchNode t pt <;> rfl

theorem iteStep_indep {γ : Value → Value} [Completion γ] {env1 env2 : Env}
    {c t e : Expr} {pc pt pe : PR} (hs1 : Sound γ env1 c pc) (hs2 : Sound γ env2 c pc)
    (hne : iteStep c t e pc pt pe ≠ .ign)
    (ih1 : pc ≠ .ign → R (eval c env1) (eval c env2)) (ih2 : pt ≠ .ign → R (eval t env1) (eval t env2))
    (ih3 : pe ≠ .ign → R (eval e env1) (eval e env2)) :
    R (eval (.ite c t e) env1) (eval (.ite c t e) env2) := by
  have rest : ∀ c', iteRest c' t e pt pe ≠ .ign → pc ≠ .ign → R (eval (.ite c t e) env1) (eval (.ite c t e) env2) := by
    intro c' h hpc
    obtain ⟨h2, h3⟩ := iteRest_ne_ign h
    rw [eval_ite, eval_ite]
    exact iteSem_congr (ih1 hpc) (ih2 h2) (ih3 h3)
  cases pc with
  | err k =>
    obtain ⟨k1, e1⟩ := hs1; obtain ⟨k2, e2⟩ := hs2
    rw [eval_ite, eval_ite, e1, e2, iteSem_err, iteSem_err]; exact R.err_err _ _
  | ign => exact absurd rfl hne
  | var s => exact rest c hne (by intro h; cases h)
  | ok c' =>
    cases c' with
    | lit v =>
      cases v with
      | bool b =>
        cases b
        · have h1 : eval (.ite c t e) env1 = eval e env1 := by rw [eval_ite, lit_bool_eval hs1]; rfl
          have h2 : eval (.ite c t e) env2 = eval e env2 := by rw [eval_ite, lit_bool_eval hs2]; rfl
          rw [h1, h2]; exact ih3 hne
        · have h1 : eval (.ite c t e) env1 = eval t env1 := by rw [eval_ite, lit_bool_eval hs1]; rfl
          have h2 : eval (.ite c t e) env2 = eval t env2 := by rw [eval_ite, lit_bool_eval hs2]; rfl
          rw [h1, h2]; exact ih2 hne
      | _ =>
        obtain ⟨v1, e1, n1⟩ := lit_nonbool_eval hs1 (by intro b hb; cases hb)
        obtain ⟨v2, e2, n2⟩ := lit_nonbool_eval hs2 (by intro b hb; cases hb)
        rw [eval_ite, eval_ite, e1, e2]
        apply both_err
        · cases v1 <;> first | exact absurd rfl (n1 _) | exact ⟨.type, rfl⟩
        · cases v2 <;> first | exact absurd rfl (n2 _) | exact ⟨.type, rfl⟩
    | _ => exact rest _ hne (by intro h; cases h)

/-- the loop of `tryPartial`: it stops with `errIgnore` or an error, or every child evaluates alike -/
def IndepL (env1 env2 : Env) (es : List Expr) : LoopR → Prop
  | .fail .ign => True
  | .fail (.err _) => True
  | .fail _ => False
  | .done _ _ => ∀ e ∈ es, R (eval e env1) (eval e env2)

theorem consR_indep {env1 env2 : Env} {e : Expr} {es : List Expr} {p : PR} {rest : LoopR}
    (ih : p ≠ .ign → R (eval e env1) (eval e env2)) (hr : IndepL env1 env2 es rest) :
    IndepL env1 env2 (e :: es) (consR e p rest) := by
  cases p with
  | err k => trivial
  | ign => trivial
  | var s =>
    cases rest with
    | fail q => cases q <;> first | trivial | exact hr.elim
    | done ns b =>
      intro x hx
      rcases List.mem_cons.mp hx with rfl | hx
      · exact ih (by intro h; cases h)
      · exact hr x hx
  | ok e' =>
    cases rest with
    | fail q => cases q <;> first | trivial | exact hr.elim
    | done ns b =>
      intro x hx
      rcases List.mem_cons.mp hx with rfl | hx
      · exact ih (by intro h; cases h)
      · exact hr x hx

/-- an n-ary node: from the loop's result to the node -/
theorem finishList_indep {γ : Value → Value} [Completion γ] {env1 env2 : Env} {es : List Expr} {loop : LoopR}
    {mk : List Expr → Expr} {ev : Expr → EvR} {orig : Expr}
    (hs1 : Sound γ env1 orig (finishList loop mk ev)) (hs2 : Sound γ env2 orig (finishList loop mk ev))
    (hne : finishList loop mk ev ≠ .ign) (hl : IndepL env1 env2 es loop)
    (hcongr : (∀ e ∈ es, R (eval e env1) (eval e env2)) → R (eval orig env1) (eval orig env2)) :
    R (eval orig env1) (eval orig env2) := by
  cases loop with
  | fail q =>
    cases q with
    | ign => exact absurd rfl hne
    | err k => exact both_err hs1 hs2
    | var s => exact hl.elim
    | ok x => exact hl.elim
  | done ns b => exact hcongr hl

theorem finishVal_var_ne_ign {envH : Env} {x : Var} (h : finishVal (.var x) (evalR (.var x) envH) ≠ .ign) :
    (envPart x envH).isIgnore = false := by
  cases hi : (envPart x envH).isIgnore
  · rfl
  · exfalso
    apply h
    have hev : evalR (.var x) envH = .val (envPart x envH) := by cases x <;> rfl
    rw [hev]
    have hv : (envPart x envH).isVariable = false := by
      cases hp : envPart x envH with
      | entity ty id =>
        rw [hp] at hi
        simp only [Value.isIgnore, beq_iff_eq] at hi
        simp only [Value.isVariable, hi]
        decide +kernel
      | _ => rfl
    simp [finishVal, hv, hi]

/-! ## the main theorem -/

mutual
/-- if `partial` does not report `errIgnore` for `e`, then `e` does not depend on the ignored parts -/
theorem partialE_indep {γ : Value → Value} [Completion γ] {envH env1 env2 : Env} (T : Twin γ envH env1 env2) :
    ∀ e : Expr, e.recKeysDistinct = true → partialE envH e ≠ .ign → R (eval e env1) (eval e env2)
  | .lit v, _, _ => by simp only [eval]; exact R.refl _
  | .var x, _, hne => by
      simp only [partialE] at hne
      exact R.of_eq (T.var x (finishVal_var_ne_ign hne))
  | .unop op e, hk, hne => by
      simp only [Expr.recKeysDistinct] at hk
      simp only [partialE] at hne
      exact combine1_indep (un_unop op) T.ent hne (fun h => partialE_indep T e hk (fun h' => h (by rw [h']; rfl)))
  | .binop op l r, hk, hne => by
      simp only [Expr.recKeysDistinct, Bool.and_eq_true] at hk
      have i1 := partialE_indep T l hk.1
      have i2 := partialE_indep T r hk.2
      have s1 := partialE_sound T.c1 l hk.1
      have s2 := partialE_sound T.c2 l hk.1
      cases op
      case and => simp only [partialE] at hne; exact andStep_indep T.ent s1 s2 hne i1 i2
      case or => simp only [partialE] at hne; exact orStep_indep T.ent s1 s2 hne i1 i2
      all_goals
        simp only [partialE] at hne
        exact combine2_indep (bin_binop _) T.ent (Sound.whole s1) (Sound.whole s2) hne
          (fun h => i1 (fun h' => h (by rw [h']; rfl))) (fun h => i2 (fun h' => h (by rw [h']; rfl)))
  | .ite c t e, hk, hne => by
      simp only [Expr.recKeysDistinct, Bool.and_eq_true] at hk
      simp only [partialE] at hne
      exact iteStep_indep (partialE_sound T.c1 c hk.1.1) (partialE_sound T.c2 c hk.1.1) hne
        (partialE_indep T c hk.1.1) (partialE_indep T t hk.1.2) (partialE_indep T e hk.2)
  | .access e a, hk, hne => by
      simp only [Expr.recKeysDistinct] at hk
      simp only [partialE] at hne
      exact combine1_indep (un_access a) T.ent hne (partialE_indep T e hk)
  | .has e a, hk, hne => by
      simp only [Expr.recKeysDistinct] at hk
      simp only [partialE] at hne
      exact combine1_indep (un_has a) T.ent hne (partialE_indep T e hk)
  | .like e p, hk, hne => by
      simp only [Expr.recKeysDistinct] at hk
      simp only [partialE] at hne
      exact combine1_indep (un_like p) T.ent hne (fun h => partialE_indep T e hk (fun h' => h (by rw [h']; rfl)))
  | .is e ty, hk, hne => by
      simp only [Expr.recKeysDistinct] at hk
      simp only [partialE] at hne
      exact combine1_indep (un_is ty) T.ent hne (fun h => partialE_indep T e hk (fun h' => h (by rw [h']; rfl)))
  | .isIn e ty r, hk, hne => by
      simp only [Expr.recKeysDistinct, Bool.and_eq_true] at hk
      simp only [partialE] at hne
      exact isInStep_indep T.ent (partialE_sound T.c1 e hk.1) (partialE_sound T.c2 e hk.1) hne
        (partialE_indep T e hk.1) (partialE_indep T r hk.2)
  | .set es, hk, hne => by
      have s1 := partialE_sound T.c1 (.set es) hk
      have s2 := partialE_sound T.c2 (.set es) hk
      simp only [Expr.recKeysDistinct] at hk
      simp only [partialE] at hne s1 s2
      exact finishList_indep s1 s2 hne (partialList_indep T es hk) (set_congr2 es)
  | .record kes, hk, hne => by
      have s1 := partialE_sound T.c1 (.record kes) hk
      have s2 := partialE_sound T.c2 (.record kes) hk
      simp only [Expr.recKeysDistinct, Bool.and_eq_true] at hk
      simp only [partialE] at hne s1 s2
      refine finishList_indep s1 s2 hne (partialKVs_indep T kes hk.2) ?_
      intro h
      exact record_congr2 kes (fun ke hke => h ke.2 (List.mem_map_of_mem hke))
  | .call fn args, hk, hne => by
      have s1 := partialE_sound T.c1 (.call fn args) hk
      have s2 := partialE_sound T.c2 (.call fn args) hk
      simp only [Expr.recKeysDistinct] at hk
      simp only [partialE] at hne s1 s2
      exact finishList_indep s1 s2 hne (partialList_indep T args hk) (call_congr2 fn args)
theorem partialList_indep {γ : Value → Value} [Completion γ] {envH env1 env2 : Env} (T : Twin γ envH env1 env2) :
    ∀ es : List Expr, recKeysDistinctL es = true → IndepL env1 env2 es (partialList envH es)
  | [], _ => by simp [partialList, IndepL]
  | e :: es, hk => by
      simp only [recKeysDistinctL, Bool.and_eq_true] at hk
      simp only [partialList]
      exact consR_indep (fun h => partialE_indep T e hk.1 (fun h' => h (by rw [h']; rfl))) (partialList_indep T es hk.2)
theorem partialKVs_indep {γ : Value → Value} [Completion γ] {envH env1 env2 : Env} (T : Twin γ envH env1 env2) :
    ∀ kes : List (String × Expr), recKeysDistinctKVs kes = true →
      IndepL env1 env2 (kes.map (·.2)) (partialKVs envH kes)
  | [], _ => by simp [partialKVs, IndepL]
  | (k, e) :: kes, hk => by
      simp only [recKeysDistinctKVs, Bool.and_eq_true] at hk
      simp only [partialKVs, List.map_cons]
      exact consR_indep (fun h => partialE_indep T e hk.1 (fun h' => h (by rw [h']; rfl))) (partialKVs_indep T kes hk.2)
end

/-! ## policy level -/

theorem tv_of_R2 {a b : Expr} {env env' : Env} (h : R (eval a env) (eval b env')) : tv a env = tv b env' := by
  simp only [tv, evalBool]
  cases ha : eval a env with
  | error k => rw [ha] at h; obtain ⟨k', hk'⟩ := R.err_left h; rw [hk']; rfl
  | ok v => rw [ha] at h; rw [R.ok_left h]

theorem tv_cond_of_R2 {w : Bool} {a b : Expr} {env env' : Env} (h : R (eval a env) (eval b env')) :
    tv (condToExpr (w, a)) env = tv (condToExpr (w, b)) env' := by
  cases w
  · show tv (.unop .not a) env = tv (.unop .not b) env'
    apply tv_of_R2
    rw [eval_unop, eval_unop]; exact unSem_congr .not h
  · exact tv_of_R2 h

/-- a scope clause reads the environment through its variable and the store only -/
theorem scope_eval_congr {env1 env2 : Env} (hent : env1.entities = env2.entities) (v : Var)
    (h : eval (.var v) env1 = eval (.var v) env2) (s : Scope) :
    eval (scopeToExpr v s) env1 = eval (scopeToExpr v s) env2 := by
  cases s with
  | all => rfl
  | eq e => simp only [scopeToExpr, eval_binop, h, binSem_env _ env1 env2 hent]; simp only [eval]
  | in_ e => simp only [scopeToExpr, eval_binop, h, binSem_env _ env1 env2 hent]; simp only [eval]
  | inSet es => simp only [scopeToExpr, eval_binop, h, binSem_env _ env1 env2 hent]; simp only [eval]
  | is t => simp only [scopeToExpr, eval_is, h]
  | isIn t e => simp only [scopeToExpr, eval_isIn, h, isInSem_env env1 env2 hent]; simp only [eval]

theorem partialScope_indep {γ : Value → Value} [Completion γ] {envH env1 env2 : Env} (T : Twin γ envH env1 env2)
    (v : Var) (s s' : Scope) (h : partialScope envH (envPart v envH) s = some s') :
    tv (scopeToExpr v s') env1 = tv (scopeToExpr v s') env2 := by
  cases hi : (envPart v envH).isIgnore
  · have := scope_eval_congr T.ent v (T.var v hi) s'
    simp only [tv, evalBool, this]
  · have hv : (envPart v envH).isVariable = false := by
      cases hp : envPart v envH with
      | entity ty id =>
        rw [hp] at hi
        simp only [Value.isIgnore, beq_iff_eq] at hi
        simp only [Value.isVariable, hi]
        decide +kernel
      | _ => rfl
    simp only [partialScope, scopeEval, hv, hi, Bool.false_eq_true, if_false, if_true, Option.some.injEq] at h
    subst h
    rfl

theorem partialConds_indep {γ : Value → Value} [Completion γ] {envH env1 env2 : Env} (T : Twin γ envH env1 env2)
    (effect : Effect) :
    ∀ conds : List (Bool × Expr), (conds.all fun c => c.2.recKeysDistinct) = true →
      ∀ cs, partialConds envH effect conds = some cs →
        ∀ c ∈ cs, tv (condToExpr c) env1 = tv (condToExpr c) env2
  | [], _, cs, h => by simp [partialConds] at h; subst h; simp
  | (w, body) :: rest, hkd, cs, h => by
    simp only [List.all_cons, Bool.and_eq_true] at hkd
    have ih := partialConds_indep T effect rest hkd.2
    have hs1 := partialE_sound T.c1 body hkd.1
    have hs2 := partialE_sound T.c2 body hkd.1
    have hind := partialE_indep T body hkd.1
    simp only [partialConds] at h
    have consCase : ∀ b' : Expr, R (eval b' env1) (eval b' env2) →
        (partialConds envH effect rest).map ((w, b') :: ·) = some cs →
        ∀ c ∈ cs, tv (condToExpr c) env1 = tv (condToExpr c) env2 := by
      intro b' hb' hm
      cases hr : partialConds envH effect rest with
      | none => simp [hr] at hm
      | some cs' =>
        simp only [hr, Option.map_some, Option.some.injEq] at hm
        subst hm
        intro c hc
        rcases List.mem_cons.mp hc with rfl | hc
        · exact tv_cond_of_R2 hb'
        · exact ih cs' hr c hc
    have errCase : some [(w, extError)] = some cs → ∀ c ∈ cs, tv (condToExpr c) env1 = tv (condToExpr c) env2 := by
      intro hm
      simp only [Option.some.injEq] at hm
      subst hm
      intro c hc
      simp only [List.mem_singleton] at hc
      subst hc
      rw [tv_extError_cond, tv_extError_cond]
    cases hp : partialE envH body with
    | var s => rw [hp] at h; exact consCase body (hind (by rw [hp]; intro h'; cases h')) h
    | ign =>
      rw [hp] at h
      simp only [condStep] at h
      split at h
      · exact ih cs h
      · cases h
    | err k => rw [hp] at h; exact errCase h
    | ok body' =>
      rw [hp] at h hs1 hs2
      cases hl : body'.isLit
      · rw [condStep_nonlit _ _ _ _ _ hl] at h
        have r1 := (Sound.ok_nonlit hl).mp hs1
        have r2 := (Sound.ok_nonlit hl).mp hs2
        exact consCase body' (R.trans r1 (R.trans (hind (by rw [hp]; intro h'; cases h')) (R.symm r2))) h
      · obtain ⟨v, rfl⟩ := isLit_iff.mp hl
        cases v with
        | bool b =>
          simp only [condStep] at h
          split at h
          · cases h
          · exact ih cs h
        | _ => exact errCase h

theorem conds3_congr {env1 env2 : Env} : ∀ cs : List (Bool × Expr),
    (∀ c ∈ cs, tv (condToExpr c) env1 = tv (condToExpr c) env2) → conds3 cs env1 = conds3 cs env2
  | [], _ => rfl
  | c :: cs, h => by
    rw [conds3_cons, conds3_cons, h c (by simp), conds3_congr cs (fun x hx => h x (by simp [hx]))]

/-- a kept policy's residual evaluates alike under two completions that differ only in the ignored parts -/
theorem partialPolicy_indep_gen {γ : Value → Value} [Completion γ] {envH env1 env2 : Env} (T : Twin γ envH env1 env2)
    (p r : Policy) (hkd : p.recKeysDistinct = true) (hk : partialPolicy envH p = some r) :
    tv (policyToExpr r) env1 = tv (policyToExpr r) env2 := by
  unfold partialPolicy at hk
  cases hs1 : partialScope envH envH.principal p.principal with
  | none => simp [hs1] at hk
  | some ps =>
    cases hs2 : partialScope envH envH.action p.action with
    | none => simp [hs1, hs2] at hk
    | some acs =>
      cases hs3 : partialScope envH envH.resource p.resource with
      | none => simp [hs1, hs2, hs3] at hk
      | some rs =>
        cases hs4 : partialConds envH p.effect p.conditions with
        | none => simp [hs1, hs2, hs3, hs4] at hk
        | some cs =>
          simp only [hs1, hs2, hs3, hs4, Option.some.injEq] at hk
          subst hk
          have h1 := partialScope_indep T .principal p.principal ps hs1
          have h2 := partialScope_indep T .action p.action acs hs2
          have h3 := partialScope_indep T .resource p.resource rs hs3
          have h4 := conds3_congr cs (partialConds_indep T p.effect p.conditions hkd cs hs4)
          rw [tv_policy, tv_policy]
          simp only [h1, h2, h3, h4]

theorem twin_completeI (σ : String → Value) (ι ι' : Var → Value) (envH : Env) :
    Twin (Value.substAll σ) envH (completeEnvI σ ι envH) (completeEnvI σ ι' envH) :=
  ⟨completesVia_ignore σ ι envH, completesVia_ignore σ ι' envH,
   fun x hx => by rw [eval_var_completeI σ ι envH x hx, eval_var_completeI σ ι' envH x hx]⟩

theorem partialPolicy_indep (σ : String → Value) (ι ι' : Var → Value) (envH : Env) (p r : Policy)
    (hkd : p.recKeysDistinct = true) (hk : partialPolicy envH p = some r) :
    tv (policyToExpr r) (completeEnvI σ ι envH) = tv (policyToExpr r) (completeEnvI σ ι' envH) :=
  partialPolicy_indep_gen (twin_completeI σ ι ι' envH) p r hkd hk

end CedarGo
