/-
  C07 ∘ C18 bridge, part 13: shape of the lexer's output `placed` (classes, texts, positions) and the composed
  pipeline text → lexer → parser on renderings of the proved fragment.
-/
import CedarGoProofs.Lemmas.C07LexLayout
import CedarGoProofs.Lemmas.C07LexParse
import CedarGoProofs.Lemmas.C07LexRender
namespace CedarGo.Text
open CedarGo Lx

theorem admissible_length : ∀ (ts : List Token) (lay : Layout), Admissible lay ts → lay.length = ts.length + 1
  | [], [], h => by simp [Admissible] at h
  | [], [_], _ => rfl
  | [], _ :: _ :: _, h => by simp [Admissible] at h
  | _ :: _, [], h => by simp [Admissible] at h
  | t :: ts, sep :: seps, h => by
    simp only [Admissible] at h
    simp [admissible_length ts seps h.2.2.2]

theorem placed_ne_nil (doc : List UInt8) : ∀ (ts : List Token) (lay : Layout) (k : Nat), lay.length = ts.length + 1 →
    placed doc k lay ts ≠ []
  | [], [], _, h => by simp at h
  | [], [_], _, _ => by simp [placed]
  | [], _ :: _ :: _, _, h => by simp at h
  | _ :: _, [], _, h => by simp at h
  | t :: ts, sep :: seps, k, _ => by simp [placed]

/-- the tokens handed to the parser: those of `ts`, each at its byte offset -/
def placedToks (doc : List UInt8) : Nat → Layout → List Token → List Token
  | k, sep :: seps, t :: ts =>
    ⟨t.ty, goPos doc (k + (strBytes sep).length), t.text⟩ ::
      placedToks doc (k + (strBytes sep).length + (tokenBytes t).length) seps ts
  | _, _, _ => []

theorem parserInput_placed (doc : List UInt8) : ∀ (ts : List Token) (lay : Layout) (k : Nat), lay.length = ts.length + 1 →
    parserInput (placed doc k lay ts) = placedToks doc k lay ts
  | [], [], _, h => by simp at h
  | [], [_], _, _ => by simp [placed, placedToks, parserInput]
  | [], _ :: _ :: _, _, h => by simp at h
  | _ :: _, [], _, h => by simp at h
  | t :: ts, sep :: seps, k, h => by
    have hl : seps.length = ts.length + 1 := by simpa using h
    have ih := parserInput_placed doc ts seps (k + (strBytes sep).length + (tokenBytes t).length) hl
    simp only [parserInput] at ih ⊢
    simp only [placed, placedToks]
    rw [List.dropLast_cons_of_ne_nil (placed_ne_nil doc ts seps _ hl), ih]

theorem placedToks_strip (doc : List UInt8) : ∀ (ts : List Token) (lay : Layout) (k : Nat), lay.length = ts.length + 1 →
    (placedToks doc k lay ts).map stripPos = ts.map stripPos
  | [], [], _, h => by simp at h
  | [], [_], _, _ => rfl
  | [], _ :: _ :: _, _, h => by simp at h
  | _ :: _, [], _, h => by simp at h
  | t :: ts, sep :: seps, k, h => by
    have hl : seps.length = ts.length + 1 := by simpa using h
    simp only [placedToks, List.map_cons, placedToks_strip doc ts seps _ hl]
    rfl

/-- classes and texts of the lexer's output: exactly those of `ts`, then EOF -/
theorem placed_classes (doc : List UInt8) : ∀ (ts : List Token) (lay : Layout) (k : Nat), lay.length = ts.length + 1 →
    (placed doc k lay ts).map (fun t => (t.ty, t.text)) = ts.map (fun t => (t.ty, t.text)) ++ [(.eof, "")]
  | [], [], _, h => by simp at h
  | [], [_], _, _ => rfl
  | [], _ :: _ :: _, _, h => by simp at h
  | _ :: _, [], _, h => by simp at h
  | t :: ts, sep :: seps, k, h => by
    have hl : seps.length = ts.length + 1 := by simpa using h
    simp only [placed, List.map_cons, placed_classes doc ts seps _ hl, List.cons_append]

theorem goPos_idem (doc : List UInt8) (k : Nat) : goPos doc (goPos doc k).offset = goPos doc k := by
  unfold goPos
  split <;> rfl

/-- every position the lexer reports is `goPos doc` (= `posOf doc` for a non-empty text) of the token's offset -/
theorem placed_positions (doc : List UInt8) : ∀ (ts : List Token) (lay : Layout) (k : Nat),
    ∀ t ∈ placed doc k lay ts, t.pos = goPos doc t.pos.offset
  | [], [], _ => by simp [placed]
  | [], [_], _ => by simp [placed, goPos_idem]
  | [], _ :: _ :: _, _ => by simp [placed]
  | _ :: _, [], _ => by simp [placed]
  | t :: ts, sep :: seps, k => by
    intro x hx
    simp only [placed, List.mem_cons] at hx
    rcases hx with rfl | hx
    · exact (goPos_idem doc _).symm
    · exact placed_positions doc ts seps _ x hx

theorem renderBytes_ne_nil (lay : Layout) (ts : List Token) (h : Admissible lay ts) (hne : ts ≠ []) : renderBytes lay ts ≠ [] := by
  match ts, lay, h, hne with
  | t :: ts, sep :: seps, h, _ =>
    simp only [Admissible] at h
    have hT := lexChars_ne_nil h.2.1
    intro e
    have hl := congrArg List.length e
    have h1 := encChars_length_ge (renderChars (sep :: seps) (t :: ts))
    simp only [renderBytes] at hl
    rw [hl] at h1
    simp only [renderChars, List.length_append, List.length_nil, Nat.le_zero_eq] at h1
    have : 0 < t.text.toList.length := List.length_pos_iff.2 hT
    omega
  | _ :: _, [], h, _ => simp [Admissible] at h

/-- **text → lexer → parser**: tokens whose position-erased form parses to `[p]` -/
theorem parseBytes_of_reads (lay : Layout) (ts : List Token) (p : Policy) (h : Admissible lay ts)
    (hr : parsePolicies (SP ts) = some (.ok [p])) :
    parseBytes (renderBytes lay ts) =
      .ok (some (.ok [{ p with position := posOfC07 (peek (placedToks (renderBytes lay ts) 0 lay ts)) }])) := by
  have hl := admissible_length ts lay h
  unfold parseBytes
  rw [tokensWithPos_layout lay ts h]
  show Except.ok (parsePolicies (parserInput _)) = _
  rw [parserInput_placed _ ts lay 0 hl]
  have hs : SP (placedToks (renderBytes lay ts) 0 lay ts) = SP ts := placedToks_strip _ ts lay 0 hl
  rw [parsePolicies_of_stripped (p := p) (by rw [hs]; exact hr)]

theorem goPos_eq_posOf (doc : List UInt8) (h : doc ≠ []) (k : Nat) : goPos doc k = posOf doc k := by
  unfold goPos
  rw [if_neg]
  simpa using h

/-- the same with the position spelled out: offset / line / column of the first token, after the first separator -/
theorem parseBytes_position (lay : Layout) (ts : List Token) (p : Policy) (h : Admissible lay ts) (hne : ts ≠ [])
    (hr : parsePolicies (SP ts) = some (.ok [p])) :
    parseBytes (renderBytes lay ts) =
      .ok (some (.ok [{ p with position := positionAt (renderBytes lay ts) (strBytes (lay.headD "")).length }])) := by
  have hdoc := renderBytes_ne_nil lay ts h hne
  rw [parseBytes_of_reads lay ts p h hr]
  match lay, ts, h, hne, hdoc with
  | sep :: seps, t :: ts, _, _, hdoc =>
    simp only [placedToks, peek, goPos_eq_posOf _ hdoc, posOfC07, positionAt, List.headD_cons, Nat.zero_add]
  | [], _ :: _, h, _, _ => simp [Admissible] at h

/-- several policies in one text: recovered up to positions; the first one is positioned at the first token -/
theorem parseBytes_list (lay : Layout) (ts : List Token) (ps : List Policy) (h : Admissible lay ts)
    (hr : parsePolicies (SP ts) = some (.ok ps)) :
    ∃ qs, parseBytes (renderBytes lay ts) = .ok (some (.ok qs)) ∧ qs.map resetPos = ps ∧
      ∀ q ∈ qs.head?, q.position = posOfC07 (peek (placedToks (renderBytes lay ts) 0 lay ts)) := by
  have hl := admissible_length ts lay h
  have hs : SP (placedToks (renderBytes lay ts) 0 lay ts) = SP ts := placedToks_strip _ ts lay 0 hl
  obtain ⟨qs, h1, h2, h3⟩ := parsePolicies_of_stripped_list (ps := ps) (toks := placedToks (renderBytes lay ts) 0 lay ts)
    (by rw [hs]; exact hr)
  refine ⟨qs, ?_, h2, h3⟩
  unfold parseBytes
  rw [tokensWithPos_layout lay ts h]
  show Except.ok (parsePolicies (parserInput _)) = _
  rw [parserInput_placed _ ts lay 0 hl, h1]

end CedarGo.Text
