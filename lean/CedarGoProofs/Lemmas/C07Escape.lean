/-
  Helper lemmas for C07: `Unquote (EscapeString s) = s` (rust.go), digits of numbers.
-/
import CedarGo.Model.Text.Parser
import CedarGo.Model.Text.Printer
namespace CedarGo.Text

/-! ## hexadecimal digits -/

/-- digits of `n`, most significant first, built by appending (specification of `hexDigitsAux`) -/
def hexD : Nat → Nat → List Char
  | 0, _ => []
  | f + 1, n => if n < 16 then [hexChar n] else hexD f (n / 16) ++ [hexChar (n % 16)]

theorem hexDigitsAux_eq (f n : Nat) (acc : List Char) : hexDigitsAux f n acc = hexD f n ++ acc := by
  induction f generalizing n acc with
  | zero => simp [hexDigitsAux, hexD]
  | succ f ih =>
    unfold hexDigitsAux hexD
    split
    · simp
    · rw [ih]; simp

theorem hexChar_facts : ∀ d, d < 16 → isHexadecimal (hexChar d) = true ∧ digitVal (hexChar d) = d ∧
    hexChar d ≠ '}' := by decide +kernel

/-- value of a digit string read most significant first, starting from `r` -/
def hexVal (ds : List Char) (r : Nat) : Nat := ds.foldl (fun acc d => 16 * acc + digitVal d) r

def AllHex (ds : List Char) : Prop := ∀ d ∈ ds, isHexadecimal d = true ∧ d ≠ '}'

theorem hexD_allHex (f n : Nat) : AllHex (hexD f n) := by
  induction f generalizing n with
  | zero => intro d hd; simp [hexD] at hd
  | succ f ih =>
    intro d hd
    unfold hexD at hd
    split at hd
    · rename_i h
      simp only [List.mem_singleton] at hd
      subst hd
      have := hexChar_facts n h
      exact ⟨this.1, this.2.2⟩
    · simp only [List.mem_append, List.mem_singleton] at hd
      rcases hd with hd | hd
      · exact ih _ d hd
      · subst hd
        have := hexChar_facts (n % 16) (Nat.mod_lt _ (by decide))
        exact ⟨this.1, this.2.2⟩

theorem hexD_val (f n : Nat) (h : n < 16 ^ f) : hexVal (hexD f n) 0 = n := by
  induction f generalizing n with
  | zero => simp at h; subst h; simp [hexD, hexVal]
  | succ f ih =>
    unfold hexD
    split
    · rename_i hlt
      simp [hexVal, (hexChar_facts n hlt).2.1]
    · have hdiv : n / 16 < 16 ^ f := by
        rw [Nat.pow_succ] at h
        exact Nat.div_lt_of_lt_mul (by rw [Nat.mul_comm]; exact h)
      have := ih (n / 16) hdiv
      unfold hexVal at this ⊢
      rw [List.foldl_append, this]
      simp [(hexChar_facts (n % 16) (Nat.mod_lt _ (by decide))).2.1]
      omega

theorem hexD_length (f n k : Nat) (hk : 1 ≤ k) (hf : k ≤ f) (h : n < 16 ^ k) :
    1 ≤ (hexD f n).length ∧ (hexD f n).length ≤ k := by
  induction f generalizing n k with
  | zero => omega
  | succ f ih =>
    unfold hexD
    split
    · simp; omega
    · rename_i hge
      have hk2 : 2 ≤ k := by
        rcases Nat.lt_or_ge k 2 with h1 | h1
        · have : k = 1 := by omega
          subst this; simp at h; omega
        · exact h1
      have hdiv : n / 16 < 16 ^ (k - 1) := by
        have : k = (k - 1) + 1 := by omega
        rw [this, Nat.pow_succ] at h
        exact Nat.div_lt_of_lt_mul (by rw [Nat.mul_comm]; exact h)
      have := ih (n / 16) (k - 1) (by omega) (by omega) hdiv
      simp; omega

/-! ## the `\u{…}` escape is read back -/

theorem unquote_uDigits (star : Bool) (ds : List Char) (hds : AllHex ds) (res n : Nat) (acc tail : List Char) :
    unquoteAux star (.uDigits res n) acc (ds ++ tail) =
    unquoteAux star (.uDigits (hexVal ds res) (n + ds.length)) acc tail := by
  induction ds generalizing res n with
  | nil => simp [hexVal]
  | cons d ds ih =>
    have hd := hds d (by simp)
    have hds' : AllHex ds := fun x hx => hds x (by simp [hx])
    simp only [List.cons_append]
    rw [unquoteAux]
    simp only [beq_iff_eq, hd.2, ↓reduceIte, hd.1, Bool.not_true, Bool.false_eq_true]
    rw [ih hds']
    simp [hexVal, List.foldl_cons, Nat.add_assoc, Nat.add_comm 1]

theorem validRune_toNat (c : Char) : validRune c.toNat = true := by
  have h := c.valid
  have e : c.toNat = c.val.toNat := rfl
  unfold validRune
  simp only [Bool.or_eq_true, decide_eq_true_eq, Bool.and_eq_true]
  unfold UInt32.isValidChar Nat.isValidChar at h
  omega

theorem unquote_uEscape (star : Bool) (c : Char) (acc tail : List Char) :
    unquoteAux star .normal acc (uEscape c ++ tail) = unquoteAux star .normal (c :: acc) tail := by
  have hlt : c.toNat < 16 ^ 6 := by
    have h := c.valid
    have e : c.toNat = c.val.toNat := rfl
    unfold UInt32.isValidChar Nat.isValidChar at h
    omega
  have hds := hexD_allHex 64 c.toNat
  have hval := hexD_val 64 c.toNat (Nat.lt_of_lt_of_le hlt (Nat.pow_le_pow_right (by decide) (by decide)))
  have hlen := hexD_length 64 c.toNat 6 (by decide) (by decide) hlt
  unfold uEscape hexDigits
  rw [hexDigitsAux_eq]
  simp only [List.append_nil, List.cons_append, List.nil_append, List.append_assoc]
  -- backslash, `u`, `{`
  rw [unquoteAux]
  simp only [↓reduceIte, beq_self_eq_true]
  have e5 : (star && '\\' == '*') = false := by simp
  simp only [e5, Bool.false_eq_true, ↓reduceIte]
  rw [unquoteAux]
  have : ('u' == 'n') = false ∧ ('u' == 'r') = false ∧ ('u' == 't') = false ∧ ('u' == '\\') = false ∧ ('u' == '0') = false
      ∧ ('u' == '\'') = false ∧ ('u' == '"') = false ∧ ('u' == 'x') = false := by decide
  simp only [this, Bool.false_eq_true, ↓reduceIte, beq_self_eq_true]
  rw [unquoteAux]
  simp only [↓reduceIte, beq_self_eq_true]
  rw [unquote_uDigits star _ hds]
  rw [hval]
  rw [unquoteAux]
  simp only [↓reduceIte, beq_self_eq_true, Nat.zero_add]
  have hn : ((hexD 64 c.toNat).length == 0 || decide ((hexD 64 c.toNat).length > 6) || !validRune c.toNat) = false := by
    have h1 : ((hexD 64 c.toNat).length == 0) = false := by
      simp only [beq_eq_false_iff_ne, ne_eq]; omega
    have h2 : decide ((hexD 64 c.toNat).length > 6) = false := by
      simp only [decide_eq_false_iff_not]; omega
    simp [h1, h2, validRune_toNat]
  simp only [hn, Bool.false_eq_true, ↓reduceIte, Char.ofNat_toNat]

/-- one escaped character is read back as that character -/
theorem unquote_escapeRune (c : Char) (egx : Bool) (acc tail : List Char) :
    unquoteAux false .normal acc (escapeRune c egx ++ tail) = unquoteAux false .normal (c :: acc) tail := by
  have two (x : Char) (out : Char)
      (hstep : ∀ acc' tl, unquoteAux false .esc acc' (x :: tl) = unquoteAux false .normal (out :: acc') tl) :
      unquoteAux false .normal acc (['\\', x] ++ tail) = unquoteAux false .normal (out :: acc) tail := by
    simp only [List.cons_append, List.nil_append]
    rw [unquoteAux]
    simp only [Bool.false_eq_true, ↓reduceIte, Bool.false_and, beq_self_eq_true]
    exact hstep _ _
  unfold escapeRune
  split
  · rename_i h0
    have hc0 : c = Char.ofNat 0 := by
      have : c.toNat = 0 := by simpa using h0
      rw [← Char.ofNat_toNat c, this]
    rw [hc0]
    exact two '0' _ (fun acc' tl => by
      rw [unquoteAux]; simp)
  split
  · rename_i _ h; have : c = '\t' := by simpa using h
    subst this
    exact two 't' _ (fun acc' tl => by
      rw [unquoteAux]; simp)
  split
  · rename_i _ _ h; have : c = '\r' := by simpa using h
    subst this
    exact two 'r' _ (fun acc' tl => by
      rw [unquoteAux]; simp)
  split
  · rename_i _ _ _ h; have : c = '\n' := by simpa using h
    subst this
    exact two 'n' _ (fun acc' tl => by
      rw [unquoteAux]; simp)
  split
  · rename_i _ _ _ _ h; have : c = '\\' := by simpa using h
    subst this
    exact two '\\' _ (fun acc' tl => by
      rw [unquoteAux]; simp)
  split
  · rename_i _ _ _ _ _ h; have : c = '"' := by simpa using h
    subst this
    exact two '"' _ (fun acc' tl => by
      rw [unquoteAux]; simp)
  split
  · rename_i _ _ _ _ _ _ h; have : c = '\'' := by simpa using h
    subst this
    exact two '\'' _ (fun acc' tl => by
      rw [unquoteAux]; simp)
  split
  · exact unquote_uEscape false c acc tail
  split
  · rename_i _ _ _ _ hbs _ _ _ _
    simp only [List.cons_append, List.nil_append]
    rw [unquoteAux]
    have h2 : (c == '\\') = false := by simpa using hbs
    simp [h2]
  · exact unquote_uEscape false c acc tail

theorem unquote_escapeRest (s : List Char) (acc tail : List Char) :
    unquoteAux false .normal acc (escapeRest s ++ tail) = unquoteAux false .normal (s.reverse ++ acc) tail := by
  induction s generalizing acc with
  | nil => simp [escapeRest]
  | cons c cs ih =>
    simp only [escapeRest, List.append_assoc]
    rw [unquote_escapeRune c, ih]
    simp

theorem unquote_escapeString_aux (s : List Char) (tail : List Char) :
    unquoteAux false .normal [] (escapeString s ++ tail) = unquoteAux false .normal s.reverse tail := by
  cases s with
  | nil => simp [escapeString]
  | cons c cs =>
    simp only [escapeString, List.append_assoc]
    rw [unquote_escapeRune c, unquote_escapeRest cs]
    simp

/-- `rust.Unquote(rust.EscapeString(s), false) = s` for every string -/
theorem unquote_escapeString (s : List Char) :
    unquote false (escapeString s) = .ok (s, []) := by
  have := unquote_escapeString_aux s []
  simp only [List.append_nil] at this
  unfold unquote
  rw [this]
  simp [unquoteAux]

theorem trimQuotes_quoted (body : List Char) : trimQuotes ('"' :: (body ++ ['"'])) = body := by
  simp [trimQuotes]

/-- the value of a rendered string literal token -/
theorem stringValue_strT (s : String) : stringValue (strT s).text = .ok s := by
  unfold stringValue strT
  simp only [String.toList_ofList, trimQuotes_quoted, unquote_escapeString, String.ofList_toList]

theorem strVal_strT (a : String) : strVal (strT a) = .ok a := by
  simp [strVal, stringValue_strT a]

/-! ## decimal digits -/

def natD : Nat → Nat → List Char
  | 0, _ => []
  | f + 1, n => if n < 10 then [Char.ofNat (48 + n)] else natD f (n / 10) ++ [Char.ofNat (48 + n % 10)]

theorem natDigitsAux_eq (f n : Nat) (acc : List Char) : natDigitsAux f n acc = natD f n ++ acc := by
  induction f generalizing n acc with
  | zero => simp [natDigitsAux, natD]
  | succ f ih =>
    unfold natDigitsAux natD
    split
    · simp
    · rw [ih]; simp

theorem decChar_facts : ∀ d, d < 10 → isDecimal (Char.ofNat (48 + d)) = true ∧ (Char.ofNat (48 + d)).toNat - 48 = d := by
  decide +kernel

theorem parseNatAux_append (xs ys : List Char) (acc : Nat) :
    parseNatAux (xs ++ ys) acc = (parseNatAux xs acc).bind (fun a => parseNatAux ys a) := by
  induction xs generalizing acc with
  | nil => simp [parseNatAux]
  | cons c cs ih =>
    simp only [List.cons_append, parseNatAux]
    split
    · exact ih _
    · simp

theorem natD_parse (f n : Nat) (h : n < 10 ^ f) (hf : 1 ≤ f) : parseNatAux (natD f n) 0 = some n ∧ natD f n ≠ [] := by
  induction f generalizing n with
  | zero => omega
  | succ f ih =>
    unfold natD
    split
    · rename_i hlt
      have := decChar_facts n hlt
      simp [parseNatAux, this.1, this.2]
    · have hdiv : n / 10 < 10 ^ f := by
        rw [Nat.pow_succ] at h
        exact Nat.div_lt_of_lt_mul (by rw [Nat.mul_comm]; exact h)
      have hf1 : 1 ≤ f := by
        rcases Nat.eq_zero_or_pos f with h0 | h0
        · subst h0; simp at hdiv; omega
        · exact h0
      have := (ih (n / 10) hdiv hf1).1
      have hd := decChar_facts (n % 10) (Nat.mod_lt _ (by decide))
      rw [parseNatAux_append, this]
      simp [parseNatAux, hd.1, hd.2]
      omega

theorem lt_ten_pow_succ (n : Nat) : n < 10 ^ (n + 1) := by
  induction n with
  | zero => decide
  | succ k ih =>
    rw [Nat.pow_succ]
    omega

/-- `strconv.ParseInt` reads back the decimal rendering of a number -/
theorem parseNat_natDigits (n : Nat) : parseNat (String.ofList (natDigits n)) = some n := by
  unfold parseNat natDigits
  rw [natDigitsAux_eq, List.append_nil, String.toList_ofList]
  have := natD_parse (n + 1) n (lt_ten_pow_succ n) (by omega)
  cases hd : natD (n + 1) n with
  | nil => exact absurd hd this.2
  | cons c cs => simp only; rw [← hd]; exact this.1

theorem intT_ty (n : Nat) : (intT n).ty = .int := rfl
theorem strT_ty (s : String) : (strT s).ty = .string := rfl

/-- first character of a rendered number is a decimal digit -/
theorem natD_head (f n : Nat) (h : n < 10 ^ f) (hf : 1 ≤ f) : ∃ c cs, natD f n = c :: cs ∧ isDecimal c = true := by
  induction f generalizing n with
  | zero => omega
  | succ f ih =>
    unfold natD
    split
    · rename_i hlt
      exact ⟨_, [], rfl, (decChar_facts n hlt).1⟩
    · have hdiv : n / 10 < 10 ^ f := by
        rw [Nat.pow_succ] at h
        exact Nat.div_lt_of_lt_mul (by rw [Nat.mul_comm]; exact h)
      have hf1 : 1 ≤ f := by
        rcases Nat.eq_zero_or_pos f with h0 | h0
        · subst h0; simp at hdiv; omega
        · exact h0
      obtain ⟨c, cs, he, hc⟩ := ih (n / 10) hdiv hf1
      exact ⟨c, cs ++ [Char.ofNat (48 + n % 10)], by rw [he]; rfl, hc⟩

end CedarGo.Text
