/-
  Helper lemmas for C16 (schema resolution and the validator's hierarchy walks terminate).
-/
import CedarGo.Model.Schema.Resolve
namespace CedarGo.Schema

/-! ### lists -/

/-- pigeonhole: a duplicate-free list inside `m` that misses an element of `m` is strictly shorter -/
theorem length_lt_of_nodup_subset_missing {α} [DecidableEq α] :
    ∀ (l m : List α) (v : α), l.Nodup → (∀ x ∈ l, x ∈ m) → v ∈ m → v ∉ l → l.length < m.length
  | [], m, v, _, _, hv, _ => by
    cases m with
    | nil => cases hv
    | cons => simp
  | a :: l, m, v, hnd, hsub, hv, hnv => by
    have ha : a ∈ m := hsub a (by simp)
    have hav : a ≠ v := fun h => hnv (by simp [h])
    have hnd' : l.Nodup := (List.nodup_cons.mp hnd).2
    have hal : a ∉ l := (List.nodup_cons.mp hnd).1
    have hsub' : ∀ x ∈ l, x ∈ m.erase a := fun x hx =>
      (List.mem_erase_of_ne (fun (h : x = a) => hal (by rw [← h]; exact hx))).mpr (hsub x (by simp [hx]))
    have hv' : v ∈ m.erase a := (List.mem_erase_of_ne (fun h => hav h.symm)).mpr hv
    have := length_lt_of_nodup_subset_missing l (m.erase a) v hnd' hsub' hv' (fun h => hnv (by simp [h]))
    rw [List.length_erase_of_mem ha] at this
    simp only [List.length_cons]
    have hpos : 0 < m.length := List.length_pos_of_mem ha
    omega

theorem length_le_of_nodup_subset {α} [DecidableEq α] (l m : List α) (hnd : l.Nodup) (hsub : ∀ x ∈ l, x ∈ m) :
    l.length ≤ m.length := by
  induction l generalizing m with
  | nil => simp
  | cons a l ih =>
    have ha : a ∈ m := hsub a (by simp)
    have hal : a ∉ l := (List.nodup_cons.mp hnd).1
    have := ih (m.erase a) (List.nodup_cons.mp hnd).2 (fun x hx =>
      (List.mem_erase_of_ne (fun (h : x = a) => hal (by rw [← h]; exact hx))).mpr (hsub x (by simp [hx])))
    rw [List.length_erase_of_mem ha] at this
    have hpos : 0 < m.length := List.length_pos_of_mem ha
    simp only [List.length_cons]
    omega

/-! ### the shape shared by `isEntityDescendant` and `isActionDescendant` -/

theorem descListWith_ne_none {α} [DecidableEq α] (k : α → Option Bool) (anc : α) (ps : List α)
    (h : ∀ p ∈ ps, k p ≠ none) : descListWith k anc ps ≠ none := by
  induction ps with
  | nil => simp [descListWith]
  | cons p ps ih =>
    unfold descListWith
    split
    · simp
    · have hp := h p (by simp)
      cases hk : k p with
      | none => exact absurd hk hp
      | some b =>
        cases b
        · simpa using ih (fun q hq => h q (by simp [hq]))
        · simp

/-- successors-in-the-tail order: every element's successors occur strictly later in the list -/
inductive Closed {α} (succ : α → List α) : List α → Prop
  | nil : Closed succ []
  | cons {u : α} {d : List α} : (∀ p ∈ succ u, p ∈ d) → Closed succ d → Closed succ (u :: d)

theorem Closed.succ_mem {α} {succ : α → List α} {D : List α} (h : Closed succ D) :
    ∀ u ∈ D, ∀ p ∈ succ u, p ∈ D := by
  induction h with
  | nil => intro u hu; cases hu
  | cons hs _ ih =>
    intro u hu p hp
    rcases List.mem_cons.mp hu with rfl | hu
    · exact List.mem_cons_of_mem _ (hs p hp)
    · exact List.mem_cons_of_mem _ (ih u hu p hp)

/-- one or more successor steps -/
inductive Reaches {α} (succ : α → List α) : α → α → Prop
  | step {u v : α} : v ∈ succ u → Reaches succ u v
  | trans {u v w : α} : v ∈ succ u → Reaches succ v w → Reaches succ u w

theorem Closed.reaches_mem {α} {succ : α → List α} {D : List α} (h : Closed succ D) {u v : α}
    (hu : u ∈ D) (hr : Reaches succ u v) : v ∈ D := by
  induction hr with
  | step hs => exact h.succ_mem _ hu _ hs
  | trans hs _ ih => exact ih (h.succ_mem _ hu _ hs)

/-- a successors-in-the-tail order admits no cycle through any of its elements -/
theorem Closed.acyclic {α} {succ : α → List α} {D : List α} (h : Closed succ D) : ∀ u ∈ D, ¬ Reaches succ u u := by
  induction h with
  | nil => intro u hu; cases hu
  | @cons w d hs hd ih =>
    intro u hu hr
    have key : ∀ x, (∀ p ∈ succ x, p ∈ d) → ∀ y, Reaches succ x y → y ∈ d := by
      intro x hx y hxy
      cases hxy with
      | step h1 => exact hx _ h1
      | trans h1 h2 => exact hd.reaches_mem (hx _ h1) h2
    by_cases hud : u ∈ d
    · exact ih u hud hr
    · rcases List.mem_cons.mp hu with rfl | hu'
      · exact hud (key _ hs _ hr)
      · exact hud hu'

/-- the descent terminates on every element of a successors-in-the-tail order (and on every leaf) -/
theorem descFuel_total_of_closed {α} [DecidableEq α] (succ : α → List α) {D : List α} (h : Closed succ D) :
    ∀ a, (a ∈ D ∨ succ a = []) → ∀ fuel, D.length < fuel → ∀ anc, descFuel succ fuel a anc ≠ none := by
  induction h with
  | nil =>
    intro a ha fuel hf anc
    rcases ha with ha | ha
    · cases ha
    · cases fuel with
      | zero => simp at hf
      | succ f => simp [descFuel, ha, descListWith]
  | @cons u d hs _ ih =>
    intro a ha fuel hf anc
    cases fuel with
    | zero => simp at hf
    | succ f =>
      simp only [List.length_cons] at hf
      rcases ha with ha | ha
      · rcases List.mem_cons.mp ha with rfl | ha'
        · unfold descFuel
          exact descListWith_ne_none _ _ _ (fun p hp => ih p (Or.inl (hs p hp)) f (by omega) anc)
        · exact ih a (Or.inl ha') (f + 1) (by omega) anc
      · simp [descFuel, ha, descListWith]

/-! ### the DFS of `validateActionMembership` -/

theorem visitListWith_ok {par : UID → List UID} (k : UID → List UID → Fuelled (List UID))
    (hk : ∀ p d d', k p d = some (.ok d') → Closed par d → Closed par d' ∧ (∀ x ∈ d, x ∈ d') ∧ p ∈ d') :
    ∀ ps done D', visitListWith k ps done = some (.ok D') → Closed par done →
      Closed par D' ∧ (∀ x ∈ done, x ∈ D') ∧ ∀ p ∈ ps, p ∈ D'
  | [], done, D', h, hc => by
    simp only [visitListWith, Option.some.injEq, Except.ok.injEq] at h
    subst h
    exact ⟨hc, fun _ hx => hx, fun _ hp => by cases hp⟩
  | p :: ps, done, D', h, hc => by
    unfold visitListWith at h
    split at h
    · rename_i d hkp
      obtain ⟨h1, h2, h3⟩ := hk p done d hkp hc
      obtain ⟨g1, g2, g3⟩ := visitListWith_ok k hk ps d D' h h1
      refine ⟨g1, fun x hx => g2 x (h2 x hx), fun q hq => ?_⟩
      rcases List.mem_cons.mp hq with rfl | hq
      · exact g2 _ h3
      · exact g3 q hq
    · rename_i hne
      exact absurd h (hne _)

theorem visitFuel_ok (rs : RSchema) : ∀ fuel path u done D', visitFuel rs fuel path u done = some (.ok D') →
    Closed rs.actionParents done → Closed rs.actionParents D' ∧ (∀ x ∈ done, x ∈ D') ∧ u ∈ D'
  | 0, _, _, _, _, h, _ => by simp [visitFuel] at h
  | fuel + 1, path, u, done, D', h, hc => by
    unfold visitFuel at h
    split at h
    · simp at h
    · split at h
      · rename_i hd
        simp only [Option.some.injEq, Except.ok.injEq] at h
        subst h
        exact ⟨hc, fun _ hx => hx, by simpa using hd⟩
      · split at h
        · rename_i d hv
          simp only [Option.some.injEq, Except.ok.injEq] at h
          subst h
          obtain ⟨g1, g2, g3⟩ := visitListWith_ok (par := rs.actionParents) _
            (fun p d d' hp hcd => visitFuel_ok rs fuel (u :: path) p d d' hp hcd) _ _ _ hv hc
          exact ⟨Closed.cons g3 g1, fun x hx => List.mem_cons_of_mem _ (g2 x hx), by simp⟩
        · rename_i hne
          exact absurd h (hne _)

theorem checkActionCycles_ok (rs : RSchema) (D : List UID) (h : checkActionCycles rs = some (.ok D)) :
    Closed rs.actionParents D ∧ ∀ u ∈ rs.actions.map (·.1), u ∈ D := by
  unfold checkActionCycles at h
  obtain ⟨g1, _, g3⟩ := visitListWith_ok (par := rs.actionParents) _
    (fun p d d' hp hcd => visitFuel_ok rs _ [] p d d' hp hcd) _ _ _ h Closed.nil
  exact ⟨g1, g3⟩

theorem visitListWith_ne_none (k : UID → List UID → Fuelled (List UID)) (ps : List UID)
    (hk : ∀ p ∈ ps, ∀ d, k p d ≠ none) : ∀ done, visitListWith k ps done ≠ none := by
  induction ps with
  | nil => intro done; simp [visitListWith]
  | cons p ps ih =>
    intro done
    unfold visitListWith
    split
    · exact ih (fun q hq => hk q (by simp [hq])) _
    · rename_i hne
      intro h
      exact hk p (by simp) done h

/-- the DFS never needs more than `|U| + 1` nested calls when every visited node lies in the finite set `U` -/
theorem visitFuel_ne_none (rs : RSchema) (U : List UID) (hU : ∀ x ∈ U, ∀ p ∈ rs.actionParents x, p ∈ U) :
    ∀ fuel path u done, path.Nodup → (∀ x ∈ path, x ∈ U) → u ∈ U → U.length < fuel + path.length →
      visitFuel rs fuel path u done ≠ none
  | 0, path, u, done, hnd, hsub, _, hlen => by
    have := length_le_of_nodup_subset path U hnd hsub
    omega
  | fuel + 1, path, u, done, hnd, hsub, hu, hlen => by
    unfold visitFuel
    split
    · simp
    · rename_i hp
      split
      · simp
      · have hup : u ∉ path := by simpa using hp
        have hk : ∀ p ∈ rs.actionParents u, ∀ d, visitFuel rs fuel (u :: path) p d ≠ none := fun p hp d =>
          visitFuel_ne_none rs U hU fuel (u :: path) p d (List.nodup_cons.mpr ⟨hup, hnd⟩)
            (fun x hx => by
              rcases List.mem_cons.mp hx with rfl | hx
              · exact hu
              · exact hsub x hx)
            (hU u hu p hp) (by simp only [List.length_cons]; omega)
        have := visitListWith_ne_none (fun p d => visitFuel rs fuel (u :: path) p d) _ hk done
        split
        · simp
        · rename_i hne
          intro h
          exact this h

/-! ### `getEntityTypesIn` -/

def typesInStep (acc : List String × Bool) (e : String × REntity) : List String × Bool :=
  if acc.1.contains e.1 then acc
  else if e.2.parents.any (fun p => acc.1.contains p) then (acc.1 ++ [e.1], true)
  else acc

theorem typesInPass_eq (ents : List (String × REntity)) (res : List String) :
    typesInPass ents res = ents.foldl typesInStep (res, false) := rfl

theorem typesInStep_cases (acc : List String × Bool) (e : String × REntity) :
    typesInStep acc e = acc ∨ (e.1 ∉ acc.1 ∧ typesInStep acc e = (acc.1 ++ [e.1], true)) := by
  unfold typesInStep
  split
  · exact Or.inl rfl
  · rename_i hc
    split
    · exact Or.inr ⟨by simpa using hc, rfl⟩
    · exact Or.inl rfl

theorem typesInFold_spec : ∀ (es : List (String × REntity)) (acc : List String × Bool),
    (∀ x ∈ acc.1, x ∈ (es.foldl typesInStep acc).1) ∧
    ((es.foldl typesInStep acc).2 = true → acc.2 = true ∨ ∃ e ∈ es, e.1 ∉ acc.1 ∧ e.1 ∈ (es.foldl typesInStep acc).1)
  | [], acc => by simp
  | e :: es, acc => by
    simp only [List.foldl_cons]
    obtain ⟨ih1, ih2⟩ := typesInFold_spec es (typesInStep acc e)
    rcases typesInStep_cases acc e with hst | ⟨hn, hst⟩
    · rw [hst] at ih1 ih2 ⊢
      refine ⟨ih1, fun hout => ?_⟩
      rcases ih2 hout with h | ⟨e', he', h1, h2⟩
      · exact Or.inl h
      · exact Or.inr ⟨e', List.mem_cons_of_mem _ he', h1, h2⟩
    · rw [hst] at ih1 ih2 ⊢
      refine ⟨fun x hx => ih1 x (by simp [hx]), fun _ => Or.inr ⟨e, by simp, hn, ih1 _ (by simp)⟩⟩

theorem filter_length_lt {α} (p q : α → Bool) : ∀ (l : List α), (∀ x ∈ l, q x = true → p x = true) →
    (∃ x ∈ l, p x = true ∧ q x = false) → (l.filter q).length < (l.filter p).length
  | [], _, h => by obtain ⟨x, hx, _⟩ := h; cases hx
  | a :: l, himp, hex => by
    have hle : (l.filter q).length ≤ (l.filter p).length := by
      clear hex
      induction l with
      | nil => simp
      | cons b l ih =>
        have hb := himp b (by simp)
        have := ih (fun x hx => himp x (by
          rcases List.mem_cons.mp hx with rfl | hx
          · simp
          · simp [hx]))
        simp only [List.filter_cons]
        cases hq : q b <;> cases hp : p b <;> simp_all <;> omega
    obtain ⟨x, hx, hpx, hqx⟩ := hex
    rcases List.mem_cons.mp hx with rfl | hxl
    · simp only [List.filter_cons, hpx, hqx, if_true, List.length_cons]
      simp
      omega
    · have ih := filter_length_lt p q l (fun y hy => himp y (by simp [hy])) ⟨x, hxl, hpx, hqx⟩
      have ha := himp a (by simp)
      simp only [List.filter_cons]
      cases hq : q a <;> cases hp : p a <;> simp_all <;> omega

def typesInMissing (ents : List (String × REntity)) (res : List String) : Nat :=
  (ents.filter fun e => !res.contains e.1).length

theorem typesInLoop_ne_none (ents : List (String × REntity)) :
    ∀ fuel res, typesInMissing ents res < fuel → typesInLoop ents fuel res ≠ none
  | 0, _, h => by simp at h
  | fuel + 1, res, h => by
    unfold typesInLoop
    rw [typesInPass_eq]
    obtain ⟨h1, h2⟩ := typesInFold_spec ents (res, false)
    generalize ents.foldl typesInStep (res, false) = out at h1 h2
    obtain ⟨res', ch⟩ := out
    simp only
    cases ch with
    | false => simp
    | true =>
      simp only [if_true]
      apply typesInLoop_ne_none ents fuel res'
      rcases h2 rfl with h | ⟨e, he, hn, hy⟩
      · simp at h
      · have : typesInMissing ents res' < typesInMissing ents res := by
          unfold typesInMissing
          apply filter_length_lt
          · intro x _ hx
            simp only [Bool.not_eq_true', List.contains_eq_mem, decide_eq_false_iff_not] at hx ⊢
            exact fun hm => hx (h1 x.1 hm)
          · exact ⟨e, he, by simpa using hn, by simpa using hy⟩
        omega

end CedarGo.Schema
