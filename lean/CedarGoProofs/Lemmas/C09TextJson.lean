/-
  C09 — the TEXT codec and the JSON codec agree (helper lemmas for the cross-format theorems of Properties/C09.lean).

  Part 1  an invariant of EVERY successful run of the text parser model (`Text.parsePolicy`, any token list): the
          tree is built only from the constructors listed in `ParserClosed` — literals of the four scalar kinds,
          longs in int64, `like` patterns in `NewPattern` normal form (`patOK`), record literals without repeated
          keys, calls of known functions (function style: not a method; method style: a method with its receiver) —
          and the scopes have the forms of the grammar.  Proved once for an arbitrary predicate closed under these
          constructors (`parsePolicy_closed`) and instantiated for `renderableE` and `semNormalE`.
  Part 2  the text fragment `policyOKGo` lies inside the JSON fragments (`JsonRenderable`, `JsonSemNormal`), `normP`
          maps it into itself, and `normP` is idempotent on it.
-/
import CedarGoProofs.Lemmas.C07LikeNormal
import CedarGoProofs.Lemmas.C08Marshal
import CedarGoProofs.Lemmas.C09h
namespace CedarGo.C09TJ
open CedarGo CedarGo.Text CedarGo.JsonModel

/-! ## Part 1: what the parser can build -/

/-- a successful result of `a` satisfies `P` (nothing is claimed about errors or about running out of fuel) -/
def Inv {α : Type} (a : Option (Except PErr α)) (P : α → Prop) : Prop := ∀ v, a = some (.ok v) → P v

theorem inv_ok {α : Type} {P : α → Prop} (v : α) (h : P v) : Inv (okP v) P := by
  intro w hw; simp only [okP, Option.some.injEq, Except.ok.injEq] at hw; exact hw ▸ h

theorem inv_err {α : Type} {P : α → Prop} (e : PErr) : Inv (errP e : Option (Except PErr α)) P := by
  intro w hw; simp [errP] at hw

theorem inv_some {α : Type} {P : α → Prop} (x : Except PErr α) (h : ∀ v, x = .ok v → P v) : Inv (some x) P := by
  intro w hw; simp only [Option.some.injEq] at hw; exact h w hw

theorem inv_bind {α β : Type} {a : Option (Except PErr α)} {k : α → Option (Except PErr β)} {P : α → Prop} {Q : β → Prop}
    (ha : Inv a P) (hk : ∀ v, P v → Inv (k v) Q) : Inv (bindP a k) Q := by
  intro w hw
  unfold bindP at hw
  split at hw
  · cases hw
  · cases hw
  · rename_i v
    exact hk v (ha v rfl) w hw

theorem inv_ite {α : Type} {P : α → Prop} (c : Prop) [Decidable c] {a b : Option (Except PErr α)}
    (h1 : c → Inv a P) (h2 : ¬c → Inv b P) : Inv (if c then a else b) P := by
  split
  · exact h1 ‹_›
  · exact h2 ‹_›

theorem inv_weaken {α : Type} {P Q : α → Prop} {a : Option (Except PErr α)} (h : Inv a P) (hPQ : ∀ v, P v → Q v) : Inv a Q :=
  fun v hv => hPQ v (h v hv)

/-- `Q` holds of every tree the parser's construction sites can produce from trees satisfying `Q` -/
structure ParserClosed (Q : Expr → Prop) : Prop where
  bool : ∀ b, Q (.lit (.bool b))
  long : ∀ n : Int, -9223372036854775808 ≤ n → n ≤ 9223372036854775807 → Q (.lit (.long n))
  str : ∀ s, Q (.lit (.str s))
  entity : ∀ ty id, Q (.lit (.entity ty id))
  var : ∀ v, Q (.var v)
  unop : ∀ op e, Q e → Q (.unop op e)
  binop : ∀ op l r, Q l → Q r → Q (.binop op l r)
  ite : ∀ c t e, Q c → Q t → Q e → Q (.ite c t e)
  access : ∀ e a, Q e → Q (.access e a)
  has : ∀ e a, Q e → Q (.has e a)
  like : ∀ e p, Q e → patOK p = true → Q (.like e p)
  is : ∀ e ty, Q e → Q (.is e ty)
  isIn : ∀ e ty r, Q e → Q r → Q (.isIn e ty r)
  set : ∀ es, (∀ e ∈ es, Q e) → Q (.set es)
  record : ∀ kes : List (String × Expr), (∀ ke ∈ kes, Q ke.2) → (kes.map (·.1)).Nodup → Q (.record kes)
  callFn : ∀ fn args n, extLookup fn = some (n, false) → (∀ e ∈ args, Q e) → Q (.call fn args)
  callMethod : ∀ fn recv args n, extLookup fn = some (n, true) → Q recv → (∀ e ∈ args, Q e) → Q (.call fn (recv :: args))

theorem intValue_range {s : String} {i : Int} (h : intValue s = some i) : -9223372036854775808 ≤ i ∧ i ≤ 9223372036854775807 := by
  unfold intValue at h
  split at h
  · split at h
    · cases h; simp only [Int.ofNat_eq_natCast]; omega
    · cases h
  · cases h

theorem negIntValue_range {s : String} {i : Int} (h : negIntValue s = some i) : -9223372036854775808 ≤ i ∧ i ≤ 9223372036854775807 := by
  unfold negIntValue at h
  split at h
  · split at h
    · cases h; simp only [Int.ofNat_eq_natCast]; omega
    · cases h
  · cases h

theorem checkFunction_ok {fn : String} {u : Unit} (h : checkFunction fn = .ok u) : ∃ n, extLookup fn = some (n, false) := by
  unfold checkFunction at h
  split at h
  · cases h
  · rename_i n m hl
    split at h
    · cases h
    · rename_i hm
      simp only [Bool.not_eq_true] at hm
      exact ⟨n, by rw [hl, hm]⟩

section closed
variable {Q : Expr → Prop} (hQ : ParserClosed Q)

/-- the nested-expression parser only returns trees satisfying `Q` -/
def GoodE (Q : Expr → Prop) (E : EP) : Prop := ∀ ts, Inv (E ts) (fun r => Q r.1)

variable {E : EP} (hE : GoodE Q E)
include hQ hE

omit hQ in
theorem inv_exprList (close : String) : ∀ (n : Nat) (ts : List Token),
    Inv (exprList E close n ts) (fun r => ∀ e ∈ r.1, Q e) := by
  intro n
  induction n with
  | zero => intro ts v hv; simp [exprList] at hv
  | succ n ih =>
    intro ts
    unfold exprList
    refine inv_ite _ (fun _ => inv_ok _ (by simp)) (fun _ => inv_bind (hE ts) fun r hr => ?_)
    refine inv_ite _ (fun _ => ?_) (fun _ => inv_ite _ (fun _ => inv_ok _ (by simpa using hr)) (fun _ => inv_err _))
    refine inv_bind (ih (adv r.2)) fun rs hrs => inv_ok _ ?_
    intro e he
    simp only [List.mem_cons] at he
    rcases he with rfl | he
    · exact hr
    · exact hrs e he

omit hQ in
theorem inv_recordLoop : ∀ (n : Nat) (known : List String) (ts : List Token),
    Inv (recordLoop E n known ts)
      (fun r => (∀ ke ∈ r.1, Q ke.2) ∧ (r.1.map (·.1)).Nodup ∧ ∀ k ∈ known, k ∉ r.1.map (·.1)) := by
  intro n
  induction n with
  | zero => intro known ts v hv; simp [recordLoop] at hv
  | succ n ih =>
    intro known ts
    unfold recordLoop
    refine inv_ite _ (fun _ => inv_ok _ (by simp)) (fun _ => ?_)
    refine inv_bind (P := fun _ => True) (inv_some _ fun _ _ => trivial) fun key _ => ?_
    refine inv_bind (P := fun _ => True) (inv_some _ fun _ _ => trivial) fun ts1 _ => ?_
    refine inv_bind (hE ts1) fun r hr => ?_
    refine inv_ite _ (fun _ => inv_err _) (fun hk => inv_ite _ (fun _ => ?_) (fun _ => inv_ite _ (fun _ => inv_ok _ ?_) (fun _ => inv_err _)))
    · refine inv_bind (ih (key :: known) (adv r.2)) fun rs hrs => inv_ok _ ?_
      obtain ⟨h1, h2, h3⟩ := hrs
      refine ⟨?_, ?_, ?_⟩
      · intro ke hke
        simp only [List.mem_cons] at hke
        rcases hke with rfl | hke
        · exact hr
        · exact h1 ke hke
      · simp only [List.map_cons, List.nodup_cons]
        exact ⟨h3 key (by simp), h2⟩
      · intro k hkn
        simp only [List.map_cons, List.mem_cons, not_or]
        refine ⟨?_, h3 k (by simp [hkn])⟩
        intro e; subst e
        exact hk (by simpa using hkn)
    · refine ⟨by simpa using hr, by simp, ?_⟩
      intro k hkn
      simp only [List.map_cons, List.map_nil, List.mem_singleton]
      intro e; subst e
      exact hk (by simpa using hkn)

theorem inv_entityOrExtFun (n : Nat) (pre : String) (ts : List Token) :
    Inv (entityOrExtFun E n pre ts) (fun r => Q r.1) := by
  induction pre, ts using entityOrExtFun.induct with
  | case1 => unfold entityOrExtFun; exact inv_err _
  | case2 ty c h => simp only [entityOrExtFun, h, ↓reduceIte]; exact inv_err _
  | case3 ty c h t tail ht ih => simp only [entityOrExtFun, h, ht, ↓reduceIte]; exact ih
  | case4 ty c h t tail ht hs =>
    simp only [entityOrExtFun, h, ht, hs, ↓reduceIte]
    exact inv_bind (P := fun _ => True) (inv_some _ fun _ _ => trivial) fun _ _ => inv_ok _ (hQ.entity _ _)
  | case5 ty c h t tail ht hs => simp only [entityOrExtFun, h, ht, hs, ↓reduceIte]; exact inv_err _
  | case6 ty c rest h1 h2 =>
    unfold entityOrExtFun
    simp only [h1, h2, ↓reduceIte]
    refine inv_bind (P := fun _ => ∃ n, extLookup ty = some (n, false)) (inv_some _ fun _ hu => checkFunction_ok hu) fun _ hf => ?_
    obtain ⟨m, hm⟩ := hf
    exact inv_bind (inv_exprList hE ")" n rest) fun r hr => inv_ok _ (hQ.callFn _ _ m hm hr)
  | case7 ty c rest h1 h2 => unfold entityOrExtFun; simp only [h1, h2]; exact inv_err _

theorem inv_primary (n : Nat) (ts : List Token) : Inv (primary E n ts) (fun r => Q r.1) := by
  unfold primary
  split
  · refine inv_bind (P := fun e => Q e) (inv_some _ fun e he => ?_) fun e he => inv_ok _ he
    unfold intLit at he
    split at he
    · rename_i i hi
      cases he
      exact hQ.long i (intValue_range hi).1 (intValue_range hi).2
    · cases he
  · exact inv_bind (P := fun _ => True) (inv_some _ fun _ _ => trivial) fun s _ => inv_ok _ (hQ.str s)
  · exact inv_ok _ (hQ.bool _)
  · exact inv_ok _ (hQ.bool _)
  · exact inv_entityOrExtFun hQ hE n _ _
  · exact inv_ok _ (hQ.var _)
  · exact inv_err _
  · exact inv_bind (hE (adv ts)) fun r hr =>
      inv_bind (P := fun _ => True) (inv_some _ fun _ _ => trivial) fun _ _ => inv_ok _ hr
  · exact inv_bind (inv_exprList hE "]" n (adv ts)) fun r hr => inv_ok _ (hQ.set _ hr)
  · exact inv_bind (inv_recordLoop hE n [] (adv ts)) fun r hr => inv_ok _ (hQ.record _ hr.1 hr.2.1)
  · exact inv_err _

omit hE in
theorem mkMethod_closed {name : String} {lhs : Expr} {args : List Expr} {e : Expr} (hl : Q lhs) (ha : ∀ a ∈ args, Q a)
    (h : mkMethod name lhs args = .ok e) : Q e := by
  have hone : ∀ op : BinOp, (match args with | [a] => (.ok (.binop op lhs a) : Except PErr Expr) | _ => .error .arity) = .ok e → Q e := by
    intro op h1
    split at h1
    · rename_i a
      cases h1
      exact hQ.binop _ _ _ hl (ha a (by simp))
    · cases h1
  unfold mkMethod at h
  simp only at h
  split at h
  · exact hone _ h
  split at h
  · exact hone _ h
  split at h
  · exact hone _ h
  split at h
  · exact hone _ h
  split at h
  · exact hone _ h
  split at h
  · split at h
    · cases h; exact hQ.unop _ _ hl
    · cases h
  split at h
  · cases h
  · rename_i m isM hlk
    split at h
    · rename_i hm
      cases h
      exact hQ.callMethod _ _ _ m (by rw [hlk, hm]) hl ha
    · cases h

theorem inv_accessLoop : ∀ (n : Nat) (lhs : Expr) (ts : List Token), Q lhs →
    Inv (accessLoop E n lhs ts) (fun r => Q r.1) := by
  intro n
  induction n with
  | zero => intro lhs ts _ v hv; simp [accessLoop] at hv
  | succ n ih =>
    intro lhs ts hl
    unfold accessLoop
    refine inv_ite _ (fun _ => ?_) (fun _ => inv_ite _ (fun _ => ?_) (fun _ => inv_ok _ hl))
    · refine inv_ite _ (fun _ => inv_err _) (fun _ => inv_ite _ (fun _ => ?_) (fun _ => ?_))
      · refine inv_bind (inv_exprList hE ")" n _) fun r hr => ?_
        refine inv_bind (P := fun e => Q e) (inv_some _ fun e he => mkMethod_closed hQ hl hr he) fun node hn => ?_
        exact ih node (adv r.2) hn
      · exact ih _ _ (hQ.access _ _ hl)
    · refine inv_ite _ (fun _ => inv_err _) (fun _ => ?_)
      refine inv_bind (P := fun _ => True) (inv_some _ fun _ _ => trivial) fun name _ => ?_
      refine inv_bind (P := fun _ => True) (inv_some _ fun _ _ => trivial) fun ts3 _ => ?_
      exact ih _ ts3 (hQ.access _ _ hl)

theorem inv_member (n : Nat) (ts : List Token) : Inv (member E n ts) (fun r => Q r.1) := by
  unfold member
  exact inv_bind (inv_primary hQ hE n ts) fun r hr => inv_accessLoop hQ hE n r.1 r.2 hr

omit hE in
theorem applyOps_closed : ∀ (ops : List Bool) (e : Expr), Q e → Q (applyOps ops e)
  | [], _, h => h
  | b :: rest, e, h => by
    unfold applyOps
    split
    · exact hQ.unop _ _ (applyOps_closed rest e h)
    · exact hQ.unop _ _ (applyOps_closed rest e h)

theorem inv_unary (n : Nat) (ts : List Token) : Inv (unary E n ts) (fun r => Q r.1) := by
  unfold unary
  refine inv_ite _ (fun _ => ?_) (fun _ => ?_)
  · refine inv_bind (P := fun e => Q e) (inv_some _ fun e he => ?_) fun e he => inv_ok _ (applyOps_closed hQ _ e he)
    unfold negIntLit at he
    split at he
    · rename_i i hi
      cases he
      exact hQ.long i (negIntValue_range hi).1 (negIntValue_range hi).2
    · cases he
  · exact inv_bind (inv_member hQ hE n _) fun r hr => inv_ok _ (applyOps_closed hQ _ r.1 hr)

theorem inv_multLoop (m : Nat) : ∀ (n : Nat) (lhs : Expr) (ts : List Token), Q lhs →
    Inv (multLoop E m n lhs ts) (fun r => Q r.1) := by
  intro n
  induction n with
  | zero => intro lhs ts _ v hv; simp [multLoop] at hv
  | succ n ih =>
    intro lhs ts hl
    unfold multLoop
    exact inv_ite _ (fun _ => inv_bind (inv_unary hQ hE m _) fun r hr => ih _ _ (hQ.binop _ _ _ hl hr)) (fun _ => inv_ok _ hl)

theorem inv_mult (n : Nat) (ts : List Token) : Inv (mult E n ts) (fun r => Q r.1) := by
  unfold mult
  exact inv_bind (inv_unary hQ hE n ts) fun r hr => inv_multLoop hQ hE n n r.1 r.2 hr

theorem inv_addLoop (m : Nat) : ∀ (n : Nat) (lhs : Expr) (ts : List Token), Q lhs →
    Inv (addLoop E m n lhs ts) (fun r => Q r.1) := by
  intro n
  induction n with
  | zero => intro lhs ts _ v hv; simp [addLoop] at hv
  | succ n ih =>
    intro lhs ts hl
    unfold addLoop
    split
    · exact inv_ok _ hl
    · exact inv_bind (inv_mult hQ hE m _) fun r hr => ih _ _ (hQ.binop _ _ _ hl hr)

theorem inv_add (n : Nat) (ts : List Token) : Inv (add E n ts) (fun r => Q r.1) := by
  unfold add
  exact inv_bind (inv_mult hQ hE n ts) fun r hr => inv_addLoop hQ hE n n r.1 r.2 hr

omit hE in
theorem hasPath_closed (res cur : Expr) (ts : List Token) : Q res → Q cur → ∀ p, hasPath res cur ts = .ok p → Q p.1 := by
  induction res, cur, ts using hasPath.induct with
  | case1 res cur => intro hr _ p h; unfold hasPath at h; cases h; exact hr
  | case2 res cur d rest hd => intro hr _ p h; unfold hasPath at h; simp only [hd, ↓reduceIte] at h; cases h; exact hr
  | case3 res cur d hd => intro _ _ p h; unfold hasPath at h; simp only [hd] at h; cases h
  | case4 res cur d hd t tail ht => intro _ _ p h; unfold hasPath at h; simp only [hd, ht, ↓reduceIte] at h; cases h
  | case5 res cur d hd t tail ht ih =>
    intro hr hc p h
    unfold hasPath at h
    simp only [hd, ht] at h
    exact ih (hQ.binop _ _ _ hr (hQ.has _ _ hc)) (hQ.access _ _ hc) p h

omit hE in
theorem parseHas_closed {lhs : Expr} {ts : List Token} {p : Expr × List Token} (hl : Q lhs) (h : parseHas lhs ts = .ok p) : Q p.1 := by
  unfold parseHas at h
  simp only at h
  split at h
  · exact hasPath_closed hQ _ _ _ (hQ.has _ _ hl) (hQ.access _ _ hl) p h
  · split at h
    · split at h
      · cases h; exact hQ.has _ _ hl
      · cases h
    · cases h

omit hE in
theorem parseLike_closed {lhs : Expr} {ts : List Token} {p : Expr × List Token} (hl : Q lhs) (h : parseLike lhs ts = .ok p) : Q p.1 := by
  unfold parseLike at h
  simp only at h
  split at h
  · cases h
  · split at h
    · rename_i pat hp
      cases h
      exact hQ.like _ _ hl (parsePattern_patOK _ _ hp)
    · cases h

theorem inv_parseIs (n : Nat) (lhs : Expr) (ts : List Token) (hl : Q lhs) : Inv (parseIs E n lhs ts) (fun r => Q r.1) := by
  unfold parseIs
  refine inv_bind (P := fun _ => True) (inv_some _ fun _ _ => trivial) fun p _ => ?_
  exact inv_ite _ (fun _ => inv_bind (inv_add hQ hE n _) fun r hr => inv_ok _ (hQ.isIn _ _ _ hl hr)) (fun _ => inv_ok _ (hQ.is _ _ hl))

theorem inv_relTail (n : Nat) (lhs : Expr) (ts : List Token) (hl : Q lhs) : Inv (relTail E n lhs ts) (fun r => Q r.1) := by
  unfold relTail
  refine inv_ite _ (fun _ => inv_some _ fun p hp => parseHas_closed hQ hl hp) (fun _ => ?_)
  refine inv_ite _ (fun _ => inv_some _ fun p hp => parseLike_closed hQ hl hp) (fun _ => ?_)
  refine inv_ite _ (fun _ => inv_parseIs hQ hE n lhs _ hl) (fun _ => ?_)
  split
  · exact inv_ok _ hl
  · exact inv_bind (inv_add hQ hE n _) fun r hr => inv_ok _ (hQ.binop _ _ _ hl hr)

theorem inv_relation (n : Nat) (ts : List Token) : Inv (relation E n ts) (fun r => Q r.1) := by
  unfold relation
  exact inv_bind (inv_add hQ hE n ts) fun r hr => inv_relTail hQ hE n r.1 r.2 hr

theorem inv_andLoop (m : Nat) : ∀ (n : Nat) (lhs : Expr) (ts : List Token), Q lhs →
    Inv (andLoop E m n lhs ts) (fun r => Q r.1) := by
  intro n
  induction n with
  | zero => intro lhs ts _ v hv; simp [andLoop] at hv
  | succ n ih =>
    intro lhs ts hl
    unfold andLoop
    exact inv_ite _ (fun _ => inv_bind (inv_relation hQ hE m _) fun r hr => ih _ _ (hQ.binop _ _ _ hl hr)) (fun _ => inv_ok _ hl)

theorem inv_and (n : Nat) (ts : List Token) : Inv (and_ E n ts) (fun r => Q r.1) := by
  unfold and_
  exact inv_bind (inv_relation hQ hE n ts) fun r hr => inv_andLoop hQ hE n n r.1 r.2 hr

theorem inv_orLoop (m : Nat) : ∀ (n : Nat) (lhs : Expr) (ts : List Token), Q lhs →
    Inv (orLoop E m n lhs ts) (fun r => Q r.1) := by
  intro n
  induction n with
  | zero => intro lhs ts _ v hv; simp [orLoop] at hv
  | succ n ih =>
    intro lhs ts hl
    unfold orLoop
    exact inv_ite _ (fun _ => inv_bind (inv_and hQ hE m _) fun r hr => ih _ _ (hQ.binop _ _ _ hl hr)) (fun _ => inv_ok _ hl)

theorem inv_or (n : Nat) (ts : List Token) : Inv (or_ E n ts) (fun r => Q r.1) := by
  unfold or_
  exact inv_bind (inv_and hQ hE n ts) fun r hr => inv_orLoop hQ hE n n r.1 r.2 hr

theorem inv_expression (n : Nat) (ts : List Token) : Inv (expression E n ts) (fun r => Q r.1) := by
  unfold expression
  refine inv_ite _ (fun _ => ?_) (fun _ => inv_or hQ hE n ts)
  refine inv_bind (hE _) fun c hc => ?_
  refine inv_bind (P := fun _ => True) (inv_some _ fun _ _ => trivial) fun ts2 _ => ?_
  refine inv_bind (hE _) fun t ht => ?_
  refine inv_bind (P := fun _ => True) (inv_some _ fun _ _ => trivial) fun ts4 _ => ?_
  exact inv_bind (hE _) fun e he => inv_ok _ (hQ.ite _ _ _ hc ht he)

end closed

section closed2
variable {Q : Expr → Prop} (hQ : ParserClosed Q)
include hQ

theorem goodE_exprF : ∀ n, GoodE Q (exprF n)
  | 0 => by intro ts v hv; simp [exprF] at hv
  | n + 1 => by
    intro ts
    show Inv (expression (exprF n) n ts) _
    exact inv_expression hQ (goodE_exprF n) n ts

theorem inv_condition (n : Nat) (ts : List Token) : Inv (condition n ts) (fun r => Q r.1) := by
  unfold condition
  refine inv_bind (P := fun _ => True) (inv_some _ fun _ _ => trivial) fun ts1 _ => ?_
  refine inv_bind (goodE_exprF hQ n ts1) fun r hr => ?_
  exact inv_bind (P := fun _ => True) (inv_some _ fun _ _ => trivial) fun _ _ => inv_ok _ hr

theorem inv_conditions (m : Nat) : ∀ (n : Nat) (ts : List Token),
    Inv (conditions m n ts) (fun r => ∀ c ∈ r.1, Q c.2) := by
  intro n
  induction n with
  | zero => intro ts v hv; simp [conditions] at hv
  | succ n ih =>
    intro ts
    unfold conditions
    refine inv_ite _ (fun _ => ?_) (fun _ => inv_ok _ (by simp))
    refine inv_bind (inv_condition hQ m _) fun r hr => ?_
    refine inv_bind (ih r.2) fun rs hrs => inv_ok _ ?_
    intro c hc
    simp only [List.mem_cons] at hc
    rcases hc with rfl | hc
    · exact hr
    · exact hrs c hc

end closed2

/-! ### scopes: the parser builds the forms the JSON scope structs can carry -/

theorem scopeIs_form {ts : List Token} {p : Scope × List Token} (h : scopeIs ts = .ok p) : JsonModel.scopePR p.1 = true := by
  unfold scopeIs at h
  split at h
  · cases h
  · split at h
    · split at h
      · cases h
      · cases h; rfl
    · cases h; rfl

theorem scopePR_form {ts : List Token} {p : Scope × List Token} (h : Text.scopePR ts = .ok p) : JsonModel.scopePR p.1 = true := by
  unfold Text.scopePR at h
  simp only at h
  split at h
  · split at h
    · cases h
    · cases h; rfl
  · split at h
    · exact scopeIs_form h
    · split at h
      · split at h
        · cases h
        · cases h; rfl
      · cases h; rfl

theorem scopeA_form {ts : List Token} {p : Scope × List Token} (h : scopeA ts = .ok p) : scopeAct p.1 = true := by
  unfold scopeA at h
  simp only at h
  split at h
  · split at h
    · cases h
    · cases h; rfl
  · split at h
    · split at h
      · split at h
        · cases h
        · cases h; rfl
      · split at h
        · cases h
        · cases h; rfl
    · cases h; rfl

/-- a successful result of the fuel-free step `a` satisfies `P` -/
def OkE {α : Type} (a : Except PErr α) (P : α → Prop) : Prop := ∀ v, a = .ok v → P v

theorem okE_bind {α β : Type} {a : Except PErr α} {k : α → Except PErr β} {P : α → Prop} {Q : β → Prop}
    (ha : OkE a P) (hk : ∀ v, P v → OkE (k v) Q) : OkE (bindE a k) Q := by
  intro w hw
  unfold bindE at hw
  split at hw
  · cases hw
  · rename_i v
    exact hk v (ha v rfl) w hw

theorem okE_true {α : Type} (a : Except PErr α) : OkE a (fun _ => True) := fun _ _ => trivial

theorem policyHead_form (ts : List Token) :
    OkE (policyHead ts) (fun p => JsonModel.scopePR p.1.principal = true ∧ scopeAct p.1.action = true ∧ JsonModel.scopePR p.1.resource = true) := by
  unfold policyHead
  refine okE_bind (okE_true _) fun an _ => okE_bind (okE_true _) fun ef _ => okE_bind (okE_true _) fun ts3 _ => ?_
  refine okE_bind (okE_true _) fun ts4 _ => okE_bind (P := fun pr => JsonModel.scopePR pr.1 = true) (fun _ h => scopePR_form h) fun pr hpr => ?_
  refine okE_bind (okE_true _) fun ts6 _ => okE_bind (okE_true _) fun ts7 _ => ?_
  refine okE_bind (P := fun ac => scopeAct ac.1 = true) (fun _ h => scopeA_form h) fun ac hac => ?_
  refine okE_bind (okE_true _) fun ts9 _ => okE_bind (okE_true _) fun ts10 _ => ?_
  refine okE_bind (P := fun re => JsonModel.scopePR re.1 = true) (fun _ h => scopePR_form h) fun re hre => ?_
  refine okE_bind (okE_true _) fun ts13 _ => ?_
  intro v hv
  cases hv
  exact ⟨hpr, hac, hre⟩

/-- what `parsePolicy_closed` says about one policy -/
def PolicyClosed (Q : Expr → Prop) (p : Policy) : Prop :=
  JsonModel.scopePR p.principal = true ∧ scopeAct p.action = true ∧ JsonModel.scopePR p.resource = true ∧
  ∀ c ∈ p.conditions, Q c.2

theorem inv_policy {Q : Expr → Prop} (hQ : ParserClosed Q) (n : Nat) (ts : List Token) :
    Inv (policy n ts) (fun r => PolicyClosed Q r.1) := by
  unfold policy
  refine inv_bind (inv_some _ (policyHead_form ts)) fun hd hhd => ?_
  refine inv_bind (inv_conditions hQ _ _ hd.2) fun cs hcs => ?_
  refine inv_bind (P := fun _ => True) (inv_some _ fun _ _ => trivial) fun _ _ => inv_ok _ ?_
  exact ⟨hhd.1, hhd.2.1, hhd.2.2, hcs⟩

/-- **Every policy the parser returns** — from ANY token list — has scopes of the grammar's forms and condition bodies
    satisfying every predicate closed under the parser's construction sites. -/
theorem parsePolicy_closed {Q : Expr → Prop} (hQ : ParserClosed Q) (ts : List Token) (p : Policy)
    (h : parsePolicy ts = some (.ok p)) :
    JsonModel.scopePR p.principal = true ∧ scopeAct p.action = true ∧ JsonModel.scopePR p.resource = true ∧
    ∀ c ∈ p.conditions, Q c.2 := by
  unfold parsePolicy at h
  split at h
  · cases h
  · cases h
  · rename_i hq
    cases h
    exact inv_policy hQ _ ts _ hq

theorem inv_policiesLoop {Q : Expr → Prop} (hQ : ParserClosed Q) (m : Nat) : ∀ (n : Nat) (ts : List Token),
    Inv (policiesLoop m n ts) (fun ps => ∀ p ∈ ps, PolicyClosed Q p) := by
  intro n
  induction n with
  | zero => intro ts v hv; simp [policiesLoop] at hv
  | succ n ih =>
    intro ts
    unfold policiesLoop
    refine inv_ite _ (fun _ => inv_ok _ (by simp)) (fun _ => ?_)
    refine inv_bind (inv_policy hQ m ts) fun r hr => ?_
    refine inv_bind (ih r.2) fun ps hps => inv_ok _ ?_
    intro p hp
    simp only [List.mem_cons] at hp
    rcases hp with rfl | hp
    · exact hr
    · exact hps p hp

/-- the same for a document of several policies (`PolicySlice.UnmarshalCedar`) -/
theorem parsePolicies_closed {Q : Expr → Prop} (hQ : ParserClosed Q) (ts : List Token) (ps : List Policy)
    (h : parsePolicies ts = some (.ok ps)) : ∀ p ∈ ps, PolicyClosed Q p :=
  inv_policiesLoop hQ _ _ ts ps h

/-! ## Part 2: the fragments -/

/-- the extension table the parser consults (`extLookup`, Model/Eval.lean) and the regenerated table the JSON decoder
    consults (`Facts.extMap`) agree on names and on the method flag -/
theorem ext_table : ∀ x ∈ CedarGo.extMap, extLookup x.1 = some x.2 ∧ extIsMethod x.1 = x.2.2 ∧
    Facts.extMap.any (fun y => y.1 == x.1) = true := by decide +kernel

theorem extLookup_spec {fn : String} {n : Nat} {m : Bool} (h : extLookup fn = some (n, m)) :
    Facts.extMap.any (fun y => y.1 == fn) = true ∧ extIsMethod fn = m := by
  unfold extLookup at h
  cases hf : CedarGo.extMap.find? (·.1 == fn) with
  | none => simp [hf] at h
  | some x =>
    have hx := List.mem_of_find?_eq_some hf
    have hfn : x.1 = fn := by have := List.find?_some hf; simpa using this
    obtain ⟨h1, h2, h3⟩ := ext_table x hx
    rw [hf] at h
    simp only [Option.map_some, Option.some.injEq] at h
    subst hfn
    rw [h] at h2
    exact ⟨h3, h2⟩

theorem renderableEs_iff : ∀ (es : List Expr), renderableEs es = true ↔ ∀ e ∈ es, renderableE e = true
  | [] => by simp [renderableEs]
  | e :: es => by simp [renderableEs, renderableEs_iff es]

theorem renderableKEs_iff : ∀ (kes : List (String × Expr)), renderableKEs kes = true ↔ ∀ ke ∈ kes, renderableE ke.2 = true
  | [] => by simp [renderableKEs]
  | (k, e) :: kes => by simp [renderableKEs, renderableKEs_iff kes]

theorem keysDistinct_iff {α : Type} : ∀ (l : List (String × α)), keysDistinct l = true ↔ (l.map (·.1)).Nodup
  | [] => by simp [keysDistinct]
  | (k, v) :: rest => by
    simp only [keysDistinct, Bool.and_eq_true, Bool.not_eq_true', List.map_cons, List.nodup_cons, keysDistinct_iff rest]
    refine and_congr_left fun _ => ?_
    rw [← Bool.not_eq_true, List.any_eq_true]
    simp only [beq_iff_eq, List.mem_map, not_exists, not_and]

/-- a literal chunk that decodes as UTF-8 and re-encodes to itself is one `Pattern.MarshalJSON` writes faithfully -/
theorem validLiteral_of_litUtf8OK {c : PatComp} (h : litUtf8OK c = true) : (bytesToString c.literal).toUTF8.toList = c.literal := by
  unfold litUtf8OK ofUtf8 at h
  unfold bytesToString
  cases hs : String.fromUTF8? (ByteArray.mk c.literal.toArray) with
  | none => simp [hs] at h
  | some s =>
    simp only [hs, beq_iff_eq] at h
    simpa [utf8] using h

theorem validLiterals_of_patOK {p : Pattern} (h : patOK p = true) : p.all (fun c => validLiteral c.literal) = true := by
  have hall : p.all litUtf8OK = true := by
    cases p with
    | nil => simp [patOK] at h
    | cons c rest => simp only [patOK, Bool.and_eq_true] at h; exact h.2
  simp only [List.all_eq_true] at hall ⊢
  intro c hc
  simp only [validLiteral, beq_iff_eq]
  exact validLiteral_of_litUtf8OK (hall c hc)

theorem renderable_closed : ParserClosed (fun e => renderableE e = true) where
  bool b := by simp [renderableE, vWF, vNoReserved]
  long n h1 h2 := by
    have hi : InI64 n := ⟨by unfold minI64; omega, by unfold maxI64; omega⟩
    simp [renderableE, vWF, vNoReserved, hi]
  str s := by simp [renderableE, vWF, vNoReserved]
  entity ty id := by simp [renderableE, vWF, vNoReserved]
  var v := by simp [renderableE]
  unop op e h := by simpa [renderableE] using h
  binop op l r hl hr := by simp [renderableE, hl, hr]
  ite c t e hc ht he := by simp [renderableE, hc, ht, he]
  access e a h := by simpa [renderableE] using h
  has e a h := by simpa [renderableE] using h
  like e p h hp := by simp only [renderableE, h, validLiterals_of_patOK hp, Bool.and_self]
  is e ty h := by simpa [renderableE] using h
  isIn e ty r h hr := by simp [renderableE, h, hr]
  set es h := by simp only [renderableE]; exact (renderableEs_iff es).mpr h
  record kes h hn := by
    simp only [renderableE, Bool.and_eq_true]
    exact ⟨(renderableKEs_iff kes).mpr h, (keysDistinct_iff kes).mpr hn⟩
  callFn fn args n hl h := by
    obtain ⟨h1, h2⟩ := extLookup_spec hl
    simp only [renderableE, h1, h2, Bool.false_and, Bool.not_false, Bool.and_self, Bool.true_and]
    exact (renderableEs_iff args).mpr h
  callMethod fn recv args n hl hr h := by
    obtain ⟨h1, h2⟩ := extLookup_spec hl
    simp only [renderableE, h1, List.isEmpty_cons, Bool.and_false, Bool.not_false, Bool.and_self, Bool.true_and]
    refine (renderableEs_iff _).mpr ?_
    intro e he
    simp only [List.mem_cons] at he
    rcases he with rfl | he
    · exact hr
    · exact h e he

/-! ### a pattern in `NewPattern` normal form is a fixed point of the JSON codec -/

theorem step_none_nonempty (last : PatComp) (r : List PatComp) (h : last.literal.isEmpty = false) :
    newPatternStep (last :: r) none = ⟨true, []⟩ :: last :: r := by
  simp [newPatternStep, h]

theorem step_some_cons (last : PatComp) (r : List PatComp) (s : String) :
    newPatternStep (last :: r) (some s) = ⟨last.wildcard, last.literal ++ s.toUTF8.toList⟩ :: r := rfl

theorem fold_tail : ∀ (q : Pattern) (acc : List PatComp), patTailOK q = true → q.all litUtf8OK = true →
    (q ≠ [] → ∃ last r, acc = last :: r ∧ last.literal.isEmpty = false) →
    (patItemComps q).foldl newPatternStep acc = q.reverse ++ acc
  | [], acc, _, _, _ => by simp [patItemComps]
  | c :: rest, acc, ht, hu, hacc => by
    obtain ⟨last, r, rfl, hne⟩ := hacc (by simp)
    simp only [patTailOK, Bool.and_eq_true, Bool.or_eq_true, Bool.not_eq_true'] at ht
    obtain ⟨⟨hw, hor⟩, htr⟩ := ht
    simp only [List.all_cons, Bool.and_eq_true] at hu
    have hbytes := validLiteral_of_litUtf8OK hu.1
    have hc : c = ⟨true, c.literal⟩ := by cases c; simp only [PatComp.mk.injEq, and_true]; exact hw
    simp only [patItemComps, hw, if_true, Bool.not_true, Bool.false_or, List.append_assoc, List.foldl_append,
      List.foldl_cons, List.foldl_nil, step_none_nonempty last r hne]
    cases hle : c.literal.isEmpty with
    | true =>
      have hrest : rest = [] := by
        rcases hor with h | h
        · rw [hle] at h; cases h
        · simpa using h
      have hlit : c.literal = [] := by simpa using hle
      subst hrest
      simp only [Bool.not_true, Bool.false_eq_true, if_false, List.foldl_nil, patItemComps, List.reverse_cons,
        List.reverse_nil, List.nil_append, List.cons_append]
      rw [hc, hlit]
    | false =>
      simp only [Bool.not_false, if_true, List.foldl_cons, List.foldl_nil, step_some_cons, List.nil_append, hbytes]
      rw [← hc, fold_tail rest (c :: last :: r) htr hu.2 (fun _ => ⟨c, last :: r, rfl, hle⟩)]
      simp

theorem normPattern_of_patOK (p : Pattern) (h : patOK p = true) : normPattern p = p := by
  cases p with
  | nil => simp [patOK] at h
  | cons c rest =>
    simp only [patOK, Bool.and_eq_true, Bool.or_eq_true, Bool.not_eq_true'] at h
    obtain ⟨⟨hor, htr⟩, hu⟩ := h
    have hu' := hu
    simp only [List.all_cons, Bool.and_eq_true] at hu'
    have hbytes := validLiteral_of_litUtf8OK hu'.1
    have hrest_ne : rest ≠ [] → c.literal.isEmpty = false := by
      intro hne
      rcases hor with h | h
      · exact h
      · exact absurd (by simpa using h) hne
    unfold normPattern patComps JsonModel.newPattern
    simp only [List.isEmpty_cons, Bool.false_eq_true, if_false, patItemComps, List.append_assoc, List.foldl_append]
    have hhead : List.foldl newPatternStep (List.foldl newPatternStep [] (if c.wildcard = true then [none] else []))
        (if (!c.wildcard || !c.literal.isEmpty) = true then [some (bytesToString c.literal)] else []) = [c] := by
      cases hw : c.wildcard with
      | false =>
        simp only [Bool.false_eq_true, if_false, List.foldl_nil, Bool.not_false, Bool.true_or, if_true, List.foldl_cons,
          newPatternStep, hbytes]
        cases c; simp_all
      | true =>
        cases hle : c.literal.isEmpty with
        | true =>
          have hlit : c.literal = [] := by simpa using hle
          simp only [if_true, List.foldl_cons, List.foldl_nil, newPatternStep, Bool.not_true, Bool.or_self,
            Bool.false_eq_true, if_false]
          cases c; simp_all
        | false =>
          simp only [if_true, List.foldl_cons, List.foldl_nil, newPatternStep, Bool.not_true, Bool.not_false, Bool.or_true,
            List.nil_append, hbytes]
          cases c; simp_all
    rw [hhead, fold_tail rest [c] htr hu'.2 (fun hne => ⟨c, [], rfl, hrest_ne hne⟩)]
    simp

theorem semNormalEs_iff : ∀ (es : List Expr), semNormalEs es = true ↔ ∀ e ∈ es, semNormalE e = true
  | [] => by simp [semNormalEs]
  | e :: es => by simp [semNormalEs, semNormalEs_iff es]

theorem semNormalKEs_iff : ∀ (kes : List (String × Expr)), semNormalKEs kes = true ↔ ∀ ke ∈ kes, semNormalE ke.2 = true
  | [] => by simp [semNormalKEs]
  | (k, e) :: kes => by simp [semNormalKEs, semNormalKEs_iff kes]

theorem semNormal_closed : ParserClosed (fun e => semNormalE e = true) where
  bool b := by simp [semNormalE]
  long n _ _ := by simp [semNormalE]
  str s := by simp [semNormalE]
  entity ty id := by simp [semNormalE]
  var v := by simp [semNormalE]
  unop op e h := by simpa [semNormalE] using h
  binop op l r hl hr := by simp [semNormalE, hl, hr]
  ite c t e hc ht he := by simp [semNormalE, hc, ht, he]
  access e a h := by simpa [semNormalE] using h
  has e a h := by simpa [semNormalE] using h
  like e p h hp := by simp [semNormalE, h, normPattern_of_patOK p hp]
  is e ty h := by simpa [semNormalE] using h
  isIn e ty r h hr := by simp [semNormalE, h, hr]
  set es h := by simp only [semNormalE]; exact (semNormalEs_iff es).mpr h
  record kes h _ := by simp only [semNormalE]; exact (semNormalKEs_iff kes).mpr h
  callFn fn args n _ h := by simp only [semNormalE]; exact (semNormalEs_iff args).mpr h
  callMethod fn recv args n _ hr h := by
    simp only [semNormalE]
    refine (semNormalEs_iff _).mpr ?_
    intro e he
    simp only [List.mem_cons] at he
    rcases he with rfl | he
    · exact hr
    · exact h e he

/-! ### the text fragment `inFragGo` is built from the parser's construction sites only -/

theorem isMethodName_spec {fn : String} (h : isMethodName fn = true) : ∃ n, extLookup fn = some (n, true) := by
  unfold isMethodName at h
  split at h
  · rename_i n m hl
    exact ⟨n, by rw [hl, h]⟩
  · cases h

theorem callOK_cases {fn : String} {args : List Expr} (h : callOK fn args = true) :
    (∃ n, extLookup fn = some (n, false)) ∨ (∃ n recv rest, extLookup fn = some (n, true) ∧ args = recv :: rest) := by
  unfold callOK at h
  split at h
  · rename_i hm
    obtain ⟨n, hn⟩ := isMethodName_spec hm
    cases args with
    | nil => simp at h
    | cons recv rest => exact .inr ⟨n, recv, rest, hn, rfl⟩
  · split at h
    · rename_i u hu
      exact .inl (checkFunction_ok hu)
    · cases h

mutual
theorem inFragGo_closed {Q : Expr → Prop} (hQ : ParserClosed Q) (e : Expr) (h : inFragGo e = true) : Q e := by
  cases e with
  | lit v =>
    cases v with
    | bool b => exact hQ.bool b
    | long n =>
      simp only [inFragGo, Bool.and_eq_true, decide_eq_true_eq] at h
      exact hQ.long n h.1 h.2
    | str s => exact hQ.str s
    | entity ty id => exact hQ.entity ty id
    | set xs => simp [inFragGo] at h
    | record kvs => simp [inFragGo] at h
    | decimal d => simp [inFragGo] at h
    | datetime t => simp [inFragGo] at h
    | duration d => simp [inFragGo] at h
    | ip a => simp [inFragGo] at h
  | var v => exact hQ.var v
  | unop op e =>
    cases op with
    | not => simp only [inFragGo] at h; exact hQ.unop _ _ (inFragGo_closed hQ e h)
    | neg => simp only [inFragGo, Bool.and_eq_true] at h; exact hQ.unop _ _ (inFragGo_closed hQ e h.1)
    | isEmpty => simp only [inFragGo] at h; exact hQ.unop _ _ (inFragGo_closed hQ e h)
  | binop op l r =>
    simp only [inFragGo, Bool.and_eq_true] at h
    exact hQ.binop _ _ _ (inFragGo_closed hQ l h.1) (inFragGo_closed hQ r h.2)
  | ite c t e =>
    simp only [inFragGo, Bool.and_eq_true] at h
    exact hQ.ite _ _ _ (inFragGo_closed hQ c h.1.1) (inFragGo_closed hQ t h.1.2) (inFragGo_closed hQ e h.2)
  | access e a => simp only [inFragGo] at h; exact hQ.access _ _ (inFragGo_closed hQ e h)
  | has e a => simp only [inFragGo] at h; exact hQ.has _ _ (inFragGo_closed hQ e h)
  | like e p =>
    simp only [inFragGo, Bool.and_eq_true] at h
    exact hQ.like _ _ (inFragGo_closed hQ e h.1) h.2
  | is e ty => simp only [inFragGo, Bool.and_eq_true] at h; exact hQ.is _ _ (inFragGo_closed hQ e h.1)
  | isIn e ty r =>
    simp only [inFragGo, Bool.and_eq_true] at h
    exact hQ.isIn _ _ _ (inFragGo_closed hQ e h.1.1) (inFragGo_closed hQ r h.2)
  | set es => simp only [inFragGo] at h; exact hQ.set _ (inFragGoList_closed hQ es h)
  | record kes =>
    simp only [inFragGo, Bool.and_eq_true, decide_eq_true_eq] at h
    exact hQ.record _ (inFragGoKVs_closed hQ kes h.1) h.2
  | call fn args =>
    simp only [inFragGo, Bool.and_eq_true] at h
    have hargs := inFragGoList_closed hQ args h.2
    rcases callOK_cases h.1 with ⟨n, hn⟩ | ⟨n, recv, rest, hn, rfl⟩
    · exact hQ.callFn _ _ n hn hargs
    · exact hQ.callMethod _ _ _ n hn (hargs recv (by simp)) (fun e he => hargs e (by simp [he]))
theorem inFragGoList_closed {Q : Expr → Prop} (hQ : ParserClosed Q) (es : List Expr) (h : inFragGoList es = true) :
    ∀ e ∈ es, Q e := by
  cases es with
  | nil => intro e he; cases he
  | cons e es =>
    simp only [inFragGoList, Bool.and_eq_true] at h
    intro e' he
    rcases List.mem_cons.mp he with he | he
    · rw [he]; exact inFragGo_closed hQ e h.1
    · exact inFragGoList_closed hQ es h.2 e' he
theorem inFragGoKVs_closed {Q : Expr → Prop} (hQ : ParserClosed Q) (kes : List (String × Expr)) (h : inFragGoKVs kes = true) :
    ∀ ke ∈ kes, Q ke.2 := by
  cases kes with
  | nil => intro ke hke; cases hke
  | cons ke kes =>
    obtain ⟨k, e⟩ := ke
    simp only [inFragGoKVs, Bool.and_eq_true] at h
    intro ke' hke
    rcases List.mem_cons.mp hke with hke | hke
    · rw [hke]; exact inFragGo_closed hQ e h.1
    · exact inFragGoKVs_closed hQ kes h.2 ke' hke
end

theorem scopePROK_form {s : Scope} (h : scopePROK s = true) : JsonModel.scopePR s = true := by
  cases s <;> simp_all [scopePROK, JsonModel.scopePR]

theorem scopeAOK_form {s : Scope} (h : scopeAOK s = true) : scopeAct s = true := by
  cases s <;> simp_all [scopeAOK, scopeAct]

/-- **the text fragment lies inside the JSON fragments**: scopes, and every predicate closed under the parser's
    construction sites on the condition bodies -/
theorem policyOKGo_closed {Q : Expr → Prop} (hQ : ParserClosed Q) (p : Policy) (h : policyOKGo p = true) :
    JsonModel.scopePR p.principal = true ∧ scopeAct p.action = true ∧ JsonModel.scopePR p.resource = true ∧
    ∀ c ∈ p.conditions, Q c.2 := by
  simp only [policyOKGo, headOKb, headOf, Bool.and_eq_true, List.all_eq_true] at h
  obtain ⟨⟨⟨⟨⟨_, h1⟩, h2⟩, h3⟩, _⟩, h4⟩ := h
  exact ⟨scopePROK_form h1, scopeAOK_form h2, scopePROK_form h3, fun c hc => inFragGo_closed hQ c.2 (h4 c hc)⟩

theorem renderableP_of_parts {p : Policy}
    (h : JsonModel.scopePR p.principal = true ∧ scopeAct p.action = true ∧ JsonModel.scopePR p.resource = true ∧
      ∀ c ∈ p.conditions, renderableE c.2 = true) : renderableP p = true := by
  simp only [renderableP, Bool.and_eq_true, List.all_eq_true]
  exact ⟨⟨⟨h.1, h.2.1⟩, h.2.2.1⟩, h.2.2.2⟩

/-! ### `normP` maps the text fragment into itself and is idempotent on it -/

theorem keys_nodup_sortKV {α : Type} (l : List (String × α)) : ((sortKV l).map (·.1)).Nodup := by
  rw [sortKV_eq_canonKVs]
  have hs : KeysSorted (canonKVs l) := canonKVs_sorted l
  have hm : ((canonKVs l).map (·.1)).Pairwise (· < ·) := by
    rw [List.pairwise_map]; exact hs
  exact hm.imp (fun hab e => String.ne_of_lt hab e)

theorem mem_sortKV {α : Type} (l : List (String × α)) : ∀ x ∈ sortKV l, x ∈ l := by
  rw [sortKV_eq_canonKVs]; exact canonKVs_subset l

theorem sortKV_idem {α : Type} (l : List (String × α)) : sortKV (sortKV l) = sortKV l := by
  simp only [sortKV_eq_canonKVs, canonKVs_idem]

theorem normKEs_sortKV (l : List (String × Expr)) : normKEs (sortKV l) = sortKV (normKEs l) := by
  simp only [normKEs_eq_map, sortKV_eq_canonKVs]
  exact (canonKVs_map normE l).symm

theorem inFragGoKVs_iff : ∀ (kes : List (String × Expr)), inFragGoKVs kes = true ↔ ∀ ke ∈ kes, inFragGo ke.2 = true
  | [] => by simp [inFragGoKVs]
  | (k, e) :: kes => by simp [inFragGoKVs, inFragGoKVs_iff kes]

theorem isNonNegLong_normE (e : Expr) : isNonNegLong (normE e) = isNonNegLong e := by
  cases e with
  | lit v => cases v <;> simp [normE, isNonNegLong]
  | _ => simp [normE, isNonNegLong]

theorem normEs_isEmpty (es : List Expr) : (normEs es).isEmpty = es.isEmpty := by
  cases es <;> simp [normEs]

theorem callOK_normEs (fn : String) (args : List Expr) : callOK fn (normEs args) = callOK fn args := by
  simp only [callOK, normEs_isEmpty]

mutual
theorem inFragGo_normE (e : Expr) (h : inFragGo e = true) : inFragGo (normE e) = true := by
  cases e with
  | lit v =>
    cases v with
    | bool b => simpa only [normE] using h
    | long n => simpa only [normE] using h
    | str s => simpa only [normE] using h
    | entity ty id => simpa only [normE] using h
    | set xs => simp [inFragGo] at h
    | record kvs => simp [inFragGo] at h
    | decimal d => simp [inFragGo] at h
    | datetime t => simp [inFragGo] at h
    | duration d => simp [inFragGo] at h
    | ip a => simp [inFragGo] at h
  | var v => simp [normE, inFragGo]
  | unop op e =>
    cases op with
    | not => simp only [inFragGo] at h; simp only [normE, inFragGo]; exact inFragGo_normE e h
    | neg =>
      simp only [inFragGo, Bool.and_eq_true] at h
      simp only [normE, inFragGo, Bool.and_eq_true, isNonNegLong_normE]
      exact ⟨inFragGo_normE e h.1, h.2⟩
    | isEmpty => simp only [inFragGo] at h; simp only [normE, inFragGo]; exact inFragGo_normE e h
  | binop op l r =>
    simp only [inFragGo, Bool.and_eq_true] at h
    simp only [normE, inFragGo, Bool.and_eq_true]
    exact ⟨inFragGo_normE l h.1, inFragGo_normE r h.2⟩
  | ite c t e =>
    simp only [inFragGo, Bool.and_eq_true] at h
    simp only [normE, inFragGo, Bool.and_eq_true]
    exact ⟨⟨inFragGo_normE c h.1.1, inFragGo_normE t h.1.2⟩, inFragGo_normE e h.2⟩
  | access e a => simp only [inFragGo] at h; simp only [normE, inFragGo]; exact inFragGo_normE e h
  | has e a => simp only [inFragGo] at h; simp only [normE, inFragGo]; exact inFragGo_normE e h
  | like e p =>
    simp only [inFragGo, Bool.and_eq_true] at h
    simp only [normE, inFragGo, Bool.and_eq_true, normPattern_of_patOK p h.2]
    exact ⟨inFragGo_normE e h.1, h.2⟩
  | is e ty =>
    simp only [inFragGo, Bool.and_eq_true] at h
    simp only [normE, inFragGo, Bool.and_eq_true]
    exact ⟨inFragGo_normE e h.1, h.2⟩
  | isIn e ty r =>
    simp only [inFragGo, Bool.and_eq_true] at h
    simp only [normE, inFragGo, Bool.and_eq_true]
    exact ⟨⟨inFragGo_normE e h.1.1, h.1.2⟩, inFragGo_normE r h.2⟩
  | set es => simp only [inFragGo] at h; simp only [normE, inFragGo]; exact inFragGoList_normEs es h
  | record kes =>
    simp only [inFragGo, Bool.and_eq_true, decide_eq_true_eq] at h
    simp only [normE, inFragGo, Bool.and_eq_true, decide_eq_true_eq]
    refine ⟨(inFragGoKVs_iff _).mpr fun ke hke => ?_, keys_nodup_sortKV _⟩
    exact (inFragGoKVs_iff _).mp (inFragGoKVs_normKEs kes h.1) ke (mem_sortKV _ ke hke)
  | call fn args =>
    simp only [inFragGo, Bool.and_eq_true] at h
    simp only [normE, inFragGo, Bool.and_eq_true, callOK_normEs]
    exact ⟨h.1, inFragGoList_normEs args h.2⟩
theorem inFragGoList_normEs (es : List Expr) (h : inFragGoList es = true) : inFragGoList (normEs es) = true := by
  cases es with
  | nil => rfl
  | cons e es =>
    simp only [inFragGoList, Bool.and_eq_true] at h
    simp only [normEs, inFragGoList, Bool.and_eq_true]
    exact ⟨inFragGo_normE e h.1, inFragGoList_normEs es h.2⟩
theorem inFragGoKVs_normKEs (kes : List (String × Expr)) (h : inFragGoKVs kes = true) : inFragGoKVs (normKEs kes) = true := by
  cases kes with
  | nil => rfl
  | cons ke kes =>
    obtain ⟨k, e⟩ := ke
    simp only [inFragGoKVs, Bool.and_eq_true] at h
    simp only [normKEs, inFragGoKVs, Bool.and_eq_true]
    exact ⟨inFragGo_normE e h.1, inFragGoKVs_normKEs kes h.2⟩
end

mutual
theorem normE_idem (e : Expr) (h : inFragGo e = true) : normE (normE e) = normE e := by
  cases e with
  | lit v =>
    cases v with
    | bool b => simp only [normE]
    | long n => simp only [normE]
    | str s => simp only [normE]
    | entity ty id => simp only [normE]
    | set xs => simp [inFragGo] at h
    | record kvs => simp [inFragGo] at h
    | decimal d => simp [inFragGo] at h
    | datetime t => simp [inFragGo] at h
    | duration d => simp [inFragGo] at h
    | ip a => simp [inFragGo] at h
  | var v => simp only [normE]
  | unop op e =>
    have he : inFragGo e = true := by
      cases op <;> simp only [inFragGo, Bool.and_eq_true] at h
      · exact h
      · exact h.1
      · exact h
    simp only [normE, normE_idem e he]
  | binop op l r =>
    simp only [inFragGo, Bool.and_eq_true] at h
    simp only [normE, normE_idem l h.1, normE_idem r h.2]
  | ite c t e =>
    simp only [inFragGo, Bool.and_eq_true] at h
    simp only [normE, normE_idem c h.1.1, normE_idem t h.1.2, normE_idem e h.2]
  | access e a => simp only [inFragGo] at h; simp only [normE, normE_idem e h]
  | has e a => simp only [inFragGo] at h; simp only [normE, normE_idem e h]
  | like e p =>
    simp only [inFragGo, Bool.and_eq_true] at h
    simp only [normE, normE_idem e h.1, normPattern_of_patOK p h.2]
  | is e ty => simp only [inFragGo, Bool.and_eq_true] at h; simp only [normE, normE_idem e h.1]
  | isIn e ty r =>
    simp only [inFragGo, Bool.and_eq_true] at h
    simp only [normE, normE_idem e h.1.1, normE_idem r h.2]
  | set es => simp only [inFragGo] at h; simp only [normE, normEs_idem es h]
  | record kes =>
    simp only [inFragGo, Bool.and_eq_true] at h
    simp only [normE, normKEs_sortKV, normKEs_idem kes h.1, sortKV_idem]
  | call fn args =>
    simp only [inFragGo, Bool.and_eq_true] at h
    simp only [normE, normEs_idem args h.2]
theorem normEs_idem (es : List Expr) (h : inFragGoList es = true) : normEs (normEs es) = normEs es := by
  cases es with
  | nil => rfl
  | cons e es =>
    simp only [inFragGoList, Bool.and_eq_true] at h
    simp only [normEs, normE_idem e h.1, normEs_idem es h.2]
theorem normKEs_idem (kes : List (String × Expr)) (h : inFragGoKVs kes = true) : normKEs (normKEs kes) = normKEs kes := by
  cases kes with
  | nil => rfl
  | cons ke kes =>
    obtain ⟨k, e⟩ := ke
    simp only [inFragGoKVs, Bool.and_eq_true] at h
    simp only [normKEs, normE_idem e h.1, normKEs_idem kes h.2]
end

/-- `annsOK known l`: the keys of `l` are pairwise different and none of them is in `known` -/
theorem annsOK_iff : ∀ (known : List String) (l : List (String × String)),
    annsOK known l = true ↔ (l.map (·.1)).Nodup ∧ ∀ k ∈ known, k ∉ l.map (·.1)
  | known, [] => by simp [annsOK]
  | known, (k, v) :: rest => by
    simp only [annsOK, Bool.and_eq_true, Bool.not_eq_true', annsOK_iff (k :: known) rest, List.map_cons, List.nodup_cons,
      List.mem_cons, not_or, forall_eq_or_imp]
    constructor
    · rintro ⟨hk, hnd, hkr, hrest⟩
      refine ⟨⟨hkr, hnd⟩, fun k' hk' => ⟨?_, hrest k' hk'⟩⟩
      intro e; subst e
      simp [hk'] at hk
    · rintro ⟨⟨hkr, hnd⟩, hall⟩
      refine ⟨?_, hnd, hkr, fun k' hk' => (hall k' hk').2⟩
      cases hc : known.contains k with
      | false => rfl
      | true => exact absurd rfl (hall k (by simpa using hc)).1

theorem policyOKGo_normP (p : Policy) (h : policyOKGo p = true) : policyOKGo (normP p) = true := by
  simp only [policyOKGo, headOKb, headOf, Bool.and_eq_true, List.all_eq_true] at h
  obtain ⟨⟨⟨⟨⟨_, h1⟩, h2⟩, h3⟩, _⟩, h4⟩ := h
  simp only [policyOKGo, headOKb, headOf, normP, Bool.and_eq_true, List.all_eq_true, beq_self_eq_true, and_true]
  refine ⟨⟨⟨⟨?_, h1⟩, h2⟩, h3⟩, ?_⟩
  · exact (annsOK_iff [] _).mpr ⟨keys_nodup_sortKV _, by simp⟩
  · intro c hc
    simp only [List.mem_map] at hc
    obtain ⟨c0, hc0, rfl⟩ := hc
    exact inFragGo_normE c0.2 (h4 c0 hc0)

theorem normP_idem (p : Policy) (h : policyOKGo p = true) : normP (normP p) = normP p := by
  simp only [policyOKGo, Bool.and_eq_true, List.all_eq_true] at h
  have h4 := h.2
  simp only [normP, sortKV_idem, List.map_map, Policy.mk.injEq, true_and, and_true]
  apply List.map_congr_left
  intro c hc
  simp only [Function.comp, normE_idem c.2 (h4 c hc)]

/-- `normP` forgets the source position -/
theorem normP_position (p : Policy) : normP { p with position := {} } = normP p := rfl

theorem policyOKGo_position {p : Policy} (h : policyOKGo p = true) : p.position = {} := by
  simp only [policyOKGo, Bool.and_eq_true, beq_iff_eq] at h
  exact h.1.2

/-- C08 (`C08_marshal_parses_partial`): on the text fragment the marshalled text parses back to the identical policy -/
theorem marshal_parses {p : Policy} (h : policyOKGo p = true) : parsePolicy (pieceToks (marshalPolicy p)) = some (.ok p) :=
  parsePolicy_of_reads (policyReads_marshal h)

/-! ### the authorizer cannot tell two encodings apart -/

theorem authStep_congr {p q : Policy} (heff : q.effect = p.effect) (hpos : q.position = p.position) (env : Env)
    (hev : evalBool (compile q) env = evalBool (compile p) env) (acc : Acc) (id : PolicyID) :
    authStep compile env acc (id, q) = authStep compile env acc (id, p) := by
  simp only [authStep, hev, heff, hpos]

/-- a policy with the same effect, the same position and the same outcome of its compiled form can replace the other
    anywhere in a policy set: decision, reasons and errors of `Authorize` are the same -/
theorem authorize_congr {p q : Policy} (heff : q.effect = p.effect) (hpos : q.position = p.position) (env : Env)
    (hev : evalBool (compile q) env = evalBool (compile p) env) (pre post : List (PolicyID × Policy)) (id : PolicyID) :
    authorize (pre ++ (id, q) :: post) env = authorize (pre ++ (id, p) :: post) env := by
  simp only [authorize, authorizeWith, List.foldl_append, List.foldl_cons, authStep_congr heff hpos env hev]

end CedarGo.C09TJ
