/-
  C17, text half (part A: the hypotheses, the normalisation under `KeysSorted`, the registration pass) — resolution
  commutes with the normalisation the text trip applies (`normSchema`, C17TextDefs.lean):
  `resolve (normSchema s) = resolve s` for every key-sorted schema (`KeysSorted`: the representation invariant of the
  model) in which no built-in type name is shadowed ambiguously and no explicit entity reference is captured
  (`ResolvesAlike`, decidable, computed from the registration pass).  The theorem is `resolve_normSchema` in
  C17TextResolve.lean.
-/
import CedarGoProofs.Lemmas.C17
import CedarGoProofs.Lemmas.C17TextDefs
namespace CedarGo.Schema.TextResolve
open CedarGo.Schema

/-! ## the hypotheses -/

mutual
/-- the annotation list of every record attribute (at any depth) is in the printer's order -/
def tySorted : Ty → Bool
  | .set e => tySorted e
  | .record as => attrsSorted as
  | _ => true
def attrsSorted : Attrs → Bool
  | .nil => true
  | .cons _ _ a t rest => decide (sortedKV a = a) && tySorted t && attrsSorted rest
end

def optTy (p : Ty → Bool) : Option Ty → Bool
  | some t => p t
  | none => true

def optAttrs (p : Attrs → Bool) : Option Attrs → Bool
  | some t => p t
  | none => true

def ctxOf (a : Action) : Option Ty :=
  match a.appliesTo with
  | some ap => ap.context
  | none => none

/-- every type occurring in the declarations of one namespace satisfies `p` / every record `q` -/
def declsAll (p : Ty → Bool) (q : Attrs → Bool) (d : Namespace) : Bool :=
  d.commonTypes.all (fun c => p c.2.ty) &&
  d.entities.all (fun e => optAttrs q e.2.shape && optTy p e.2.tags) &&
  d.actions.all (fun a => optTy p (ctxOf a.2))

def declsSorted (d : Namespace) : Bool :=
  decide (sortedKV d.entities = d.entities) && decide (sortedKV d.enums = d.enums) &&
  decide (sortedKV d.actions = d.actions) && decide (sortedKV d.commonTypes = d.commonTypes) &&
  d.entities.all (fun e => decide (sortedKV e.2.anns = e.2.anns)) &&
  d.enums.all (fun e => decide (sortedKV e.2.anns = e.2.anns)) &&
  d.actions.all (fun e => decide (sortedKV e.2.anns = e.2.anns)) &&
  d.commonTypes.all (fun e => decide (sortedKV e.2.anns = e.2.anns)) &&
  declsAll tySorted attrsSorted d

/-- **the representation invariant** ("Go maps are key-sorted association lists"): every association list that
    `normSchema` sorts is already in the printer's order, `sortedKV l = l` — the namespaces, the declarations of each
    kind in every namespace, the annotations of every declaration, of every named namespace and of every record
    attribute at any depth -/
def KeysSorted (s : Schema) : Bool :=
  decide (sortedKV s.namespaces = s.namespaces) && declsSorted s.bare &&
  s.namespaces.all (fun nd => decide (sortedKV nd.2.anns = nd.2.anns) && declsSorted nd.2)

/-- the name `p`, read as a type reference in `ns`, denotes `tgt`, and is not (the path of) a common type -/
def nameGood (r : RState) (ns p : String) (tgt : RefTarget) : Bool :=
  decide (lookupTypeRef r ns p = tgt) && !(r.common? (resolveTypeRefPath r ns p)).isSome

def knownExt (n : String) : Bool := n = "ipaddr" || n = "decimal" || n = "datetime" || n = "duration"

mutual
/-- every node of the type that the text form writes as a NAME re-resolves, as a name, to what the node resolves to:
    a built-in node to that built-in (an extension node must be a known extension), an explicit entity reference to the
    entity type it denotes — and the name is not captured by a common type -/
def tyGood (r : RState) (ns : String) (sh : List String) : Ty → Bool
  | .string => nameGood r ns (builtinName sh "String") (.builtin .string)
  | .long => nameGood r ns (builtinName sh "Long") (.builtin .long)
  | .bool => nameGood r ns (builtinName sh "Bool") (.builtin .bool)
  | .ext n => knownExt n && nameGood r ns (builtinName sh n) (.builtin (.ext n))
  | .set e => tyGood r ns sh e
  | .record as => attrsGood r ns sh as
  | .entityRef n =>
    match resolveEntityTypeRef r ns n with
    | .ok et => nameGood r ns n (.entity et)
    | .error _ => false
  | .typeRef _ => true
def attrsGood (r : RState) (ns : String) (sh : List String) : Attrs → Bool
  | .nil => true
  | .cons _ _ _ t rest => tyGood r ns sh t && attrsGood r ns sh rest
end

/-- **no built-in type name is shadowed ambiguously and no explicit entity reference is captured**: with `r` the
    registration state of the schema (if registration fails, both sides fail alike), every type occurring in the schema
    satisfies `tyGood` in the namespace it occurs in, with the name list the printer passes for that namespace -/
def ResolvesAlike (s : Schema) : Bool :=
  match registerAll s with
  | .error _ => true
  | .ok r =>
    declsAll (tyGood r "" (declNames s.bare)) (attrsGood r "" (declNames s.bare)) s.bare &&
    s.namespaces.all (fun nd =>
      declsAll (tyGood r nd.1 (declNames nd.2 ++ declNames s.bare)) (attrsGood r nd.1 (declNames nd.2 ++ declNames s.bare)) nd.2)


/-! ## the normalisation of a key-sorted schema: only type nodes change -/

mutual
/-- `normTy` without the (idle, under `KeysSorted`) sorting of annotations -/
def nTy (sh : List String) : Ty → Ty
  | .string => .typeRef (builtinName sh "String")
  | .long => .typeRef (builtinName sh "Long")
  | .bool => .typeRef (builtinName sh "Bool")
  | .ext n => .typeRef (builtinName sh n)
  | .set e => .set (nTy sh e)
  | .record as => .record (nAttrs sh as)
  | .entityRef n => .typeRef n
  | .typeRef n => .typeRef n
def nAttrs (sh : List String) : Attrs → Attrs
  | .nil => .nil
  | .cons n o a t rest => .cons n o a (nTy sh t) (nAttrs sh rest)
end

def nEntity (sh : List String) (e : Entity) : Entity :=
  { anns := e.anns, parents := e.parents, shape := e.shape.map (nAttrs sh), tags := e.tags.map (nTy sh) }

def nAppliesTo (sh : List String) (ap : AppliesTo) : AppliesTo :=
  { principals := ap.principals, resources := ap.resources, context := ap.context.map (nTy sh) }

def nAction (sh : List String) (a : Action) : Action :=
  { anns := a.anns, parents := a.parents, appliesTo := a.appliesTo.map (nAppliesTo sh) }

def nCommon (sh : List String) (c : CommonType) : CommonType := { anns := c.anns, ty := nTy sh c.ty }

def nDecls (sh : List String) (anns : Anns) (d : Namespace) : Namespace :=
  { anns := anns
    entities := d.entities.map fun e => (e.1, nEntity sh e.2)
    enums := d.enums
    actions := d.actions.map fun a => (a.1, nAction sh a.2)
    commonTypes := d.commonTypes.map fun c => (c.1, nCommon sh c.2) }

def nSchema (s : Schema) : Schema :=
  { bare := nDecls (declNames s.bare) [] s.bare
    namespaces := s.namespaces.map fun nd => (nd.1, nDecls (declNames nd.2 ++ declNames s.bare) nd.2.anns nd.2) }

mutual
theorem normTy_eq (sh : List String) : ∀ t, tySorted t = true → normTy sh t = nTy sh t
  | .string, _ => by simp [normTy, nTy]
  | .long, _ => by simp [normTy, nTy]
  | .bool, _ => by simp [normTy, nTy]
  | .ext _, _ => by simp [normTy, nTy]
  | .entityRef _, _ => by simp [normTy, nTy]
  | .typeRef _, _ => by simp [normTy, nTy]
  | .set e, h => by
    simp only [tySorted] at h
    simp only [normTy, nTy, normTy_eq sh e h]
  | .record as, h => by
    simp only [tySorted] at h
    simp only [normTy, nTy, normAttrs_eq sh as h]
theorem normAttrs_eq (sh : List String) : ∀ as, attrsSorted as = true → normAttrs sh as = nAttrs sh as
  | .nil, _ => by simp [normAttrs, nAttrs]
  | .cons n o a t rest, h => by
    simp only [attrsSorted, Bool.and_eq_true, decide_eq_true_eq] at h
    simp only [normAttrs, nAttrs, h.1.1, normTy_eq sh t h.1.2, normAttrs_eq sh rest h.2]
end

theorem normDecls_eq (sh : List String) (anns : Anns) (d : Namespace) (h : declsSorted d = true) :
    normDecls sh anns d = nDecls sh anns d := by
  simp only [declsSorted, declsAll, Bool.and_eq_true, decide_eq_true_eq, List.all_eq_true] at h
  obtain ⟨⟨⟨⟨⟨⟨⟨⟨s1, s2⟩, s3⟩, s4⟩, a1⟩, a2⟩, a3⟩, a4⟩, ⟨t4, t1⟩, t3⟩ := h
  unfold normDecls nDecls
  rw [s1, s2, s3, s4]
  congr 1
  · apply List.map_congr_left
    intro e he
    have := t1 e he
    unfold normEntity nEntity
    rw [a1 e he]
    congr 2
    · cases hs : e.2.shape with
      | none => rfl
      | some as => rw [hs] at this; simp only [Option.map_some, normAttrs_eq sh as this.1]
    · cases hs : e.2.tags with
      | none => rfl
      | some t => rw [hs] at this; simp only [Option.map_some, normTy_eq sh t this.2]
  · conv => rhs; rw [← List.map_id d.enums]
    apply List.map_congr_left
    intro e he
    unfold normEnum
    rw [a2 e he]
    rfl
  · apply List.map_congr_left
    intro a ha
    have := t3 a ha
    unfold normAction nAction
    rw [a3 a ha]
    congr 2
    unfold ctxOf at this
    cases hs : a.2.appliesTo with
    | none => rfl
    | some ap =>
      rw [hs] at this
      simp only [Option.map_some]
      unfold normAppliesTo nAppliesTo
      congr 2
      cases hc : ap.context with
      | none => rfl
      | some t => simp only at this; rw [hc] at this; simp only [Option.map_some, normTy_eq sh t this]
  · apply List.map_congr_left
    intro c hc
    unfold normCommon nCommon
    rw [a4 c hc, normTy_eq sh _ (t4 c hc)]

/-- under `KeysSorted`, `normSchema` only rewrites type nodes (and drops the annotations of the empty namespace) -/
theorem normSchema_eq (s : Schema) (h : KeysSorted s = true) : normSchema s = nSchema s := by
  simp only [KeysSorted, Bool.and_eq_true, decide_eq_true_eq, List.all_eq_true] at h
  obtain ⟨⟨h1, h2⟩, h3⟩ := h
  unfold normSchema nSchema
  rw [h1, normDecls_eq _ _ _ h2]
  congr 1
  apply List.map_congr_left
  intro nd hnd
  rw [(h3 nd hnd).1, normDecls_eq _ _ _ (h3 nd hnd).2]

/-! ## the registration pass -/

/-- a registered common type: qualified name, declaring namespace, the name list the printer uses there, body -/
structure Entry where
  q : String
  ns : String
  sh : List String
  body : Ty

def entriesOf (ns : String) (sh : List String) (d : Namespace) : List Entry :=
  d.commonTypes.map fun c => { q := qualify ns c.1, ns := ns, sh := sh, body := c.2.ty }

def allEntries (s : Schema) : List Entry :=
  entriesOf "" (declNames s.bare) s.bare ++
  s.namespaces.flatMap fun nd => entriesOf nd.1 (declNames nd.2 ++ declNames s.bare) nd.2

/-- the registration states of the schema (`r`) and of its normal form (`r'`) after the entries `E` -/
structure RegRel (E : List Entry) (r' r : RState) : Prop where
  ent : r'.entityTypes = r.entityTypes
  enum : r'.enumTypes = r.enumTypes
  cns' : r'.commonNS = E.map fun e => (e.q, e.ns)
  cns : r.commonNS = E.map fun e => (e.q, e.ns)
  ct : r.commonTypes = E.map fun e => (e.q, e.body)
  ct' : r'.commonTypes = E.map fun e => (e.q, nTy e.sh e.body)

theorem registerDecls_rel (E : List Entry) (r' r : RState) (h : RegRel E r' r) (ns : String) (sh : List String)
    (anns : Anns) (d : Namespace) :
    match registerDecls r ns d with
    | .error e => registerDecls r' ns (nDecls sh anns d) = .error e
    | .ok r2 => ∃ r2', registerDecls r' ns (nDecls sh anns d) = .ok r2' ∧ RegRel (E ++ entriesOf ns sh d) r2' r2 := by
  have hc : (nDecls sh anns d).entities.any (fun e => (nDecls sh anns d).enums.any (fun en => en.1 == e.1)) =
      d.entities.any (fun e => d.enums.any fun en => en.1 == e.1) := by
    simp [nDecls, List.any_map, Function.comp_def]
  unfold registerDecls
  rw [hc]
  by_cases hb : d.entities.any (fun e => d.enums.any fun en => en.1 == e.1) = true
  · simp only [hb, if_true]
  · simp only [hb, Bool.false_eq_true, if_false]
    refine ⟨_, rfl, ?_⟩
    constructor
    · simp [h.ent, nDecls, List.map_map, Function.comp_def]
    · simp [h.enum, nDecls]
    · simp [h.cns', nDecls, entriesOf, List.map_map, Function.comp_def]
    · simp [h.cns, entriesOf, List.map_map, Function.comp_def]
    · simp [h.ct, entriesOf, List.map_map, Function.comp_def]
    · simp [h.ct', nDecls, nCommon, entriesOf, List.map_map, Function.comp_def]

theorem registerFold_rel (shB : List String) : ∀ (nss : List (String × Namespace)) (E : List Entry) (r' r : RState),
    RegRel E r' r →
    match nss.foldlM (fun r nd => registerDecls r nd.1 nd.2) r with
    | .error e => (nss.map fun nd => (nd.1, nDecls (declNames nd.2 ++ shB) nd.2.anns nd.2)).foldlM
        (fun r nd => registerDecls r nd.1 nd.2) r' = .error e
    | .ok r2 => ∃ r2', (nss.map fun nd => (nd.1, nDecls (declNames nd.2 ++ shB) nd.2.anns nd.2)).foldlM
        (fun r nd => registerDecls r nd.1 nd.2) r' = .ok r2' ∧
        RegRel (E ++ nss.flatMap fun nd => entriesOf nd.1 (declNames nd.2 ++ shB) nd.2) r2' r2
  | [], E, r', r, h => by
    simp only [List.foldlM_nil, List.map_nil, List.flatMap_nil, List.append_nil, pure, Except.pure]
    exact ⟨r', rfl, h⟩
  | nd :: rest, E, r', r, h => by
    have h1 := registerDecls_rel E r' r h nd.1 (declNames nd.2 ++ shB) nd.2.anns nd.2
    simp only [List.foldlM_cons, List.map_cons, List.flatMap_cons, bind, Except.bind]
    cases hr : registerDecls r nd.1 nd.2 with
    | error e =>
      rw [hr] at h1
      simp only at h1
      simp only [h1]
    | ok r2 =>
      rw [hr] at h1
      obtain ⟨r2', h2, h3⟩ := h1
      simp only [h2]
      have := registerFold_rel shB rest _ r2' r2 h3
      simpa only [List.append_assoc] using this

theorem registerAll_eq (s : Schema) : registerAll s =
    (registerDecls {} "" s.bare).bind fun r => s.namespaces.foldlM (fun r nd => registerDecls r nd.1 nd.2) r := by
  unfold registerAll
  rfl

theorem registerAll_rel (s : Schema) :
    match registerAll s with
    | .error e => registerAll (nSchema s) = .error e
    | .ok r => ∃ r', registerAll (nSchema s) = .ok r' ∧ RegRel (allEntries s) r' r := by
  rw [registerAll_eq, registerAll_eq]
  have h0 : RegRel [] {} {} := ⟨rfl, rfl, rfl, rfl, rfl, rfl⟩
  have h1 := registerDecls_rel [] {} {} h0 "" (declNames s.bare) [] s.bare
  simp only [nSchema]
  cases hr : registerDecls {} "" s.bare with
  | error e =>
    rw [hr] at h1
    simp only at h1
    simp only [h1, Except.bind]
  | ok r =>
    rw [hr] at h1
    obtain ⟨r2', h2, h3⟩ := h1
    simp only [h2, Except.bind]
    have := registerFold_rel (declNames s.bare) s.namespaces _ r2' r h3
    simpa only [List.nil_append, allEntries] using this

/-! ## what the later passes need to know about the two registration states -/

theorem lookup_entries {β} (f : Entry → β) (p : String) : ∀ E : List Entry,
    (E.map fun e => (e.q, f e)).lookup p = (E.find? fun e => p == e.q).map f
  | [] => rfl
  | e :: E => by
    simp only [List.map_cons, List.lookup_cons, List.find?_cons]
    cases p == e.q with
    | true => rfl
    | false => exact lookup_entries f p E

/-- `r'` (normal form) and `r` (schema) agree on everything but the bodies of the common types; the body stored under a
    name in `r'` is the normal form of the body stored in `r`, taken with a name list for which the body is `tyGood` in
    its declaring namespace -/
structure Sim (r' r : RState) : Prop where
  ent : r'.entityTypes = r.entityTypes
  enum : r'.enumTypes = r.enumTypes
  cns : r'.commonNS = r.commonNS
  keys : r'.commonTypes.map (·.1) = r.commonTypes.map (·.1)
  cnone : ∀ p, r.common? p = none → r'.common? p = none
  csome : ∀ p body, r.common? p = some body →
    ∃ sh, r'.common? p = some (nTy sh body) ∧ tyGood r (r.nsOf p) sh body = true

theorem sim_of_regRel (E : List Entry) (r' r : RState) (h : RegRel E r' r)
    (hg : ∀ e ∈ E, tyGood r e.ns e.sh e.body = true) : Sim r' r := by
  refine ⟨h.ent, h.enum, by rw [h.cns', h.cns], ?_, ?_, ?_⟩
  · rw [h.ct, h.ct']
    simp [List.map_map, Function.comp_def]
  · intro p hp
    unfold RState.common? at hp ⊢
    rw [h.ct, lookup_entries] at hp
    rw [h.ct', lookup_entries]
    cases hf : E.find? (fun e => p == e.q) with
    | none => rfl
    | some e => rw [hf] at hp; cases hp
  · intro p body hp
    unfold RState.common? at hp ⊢
    unfold RState.nsOf
    rw [h.ct, lookup_entries] at hp
    rw [h.ct', lookup_entries, h.cns, lookup_entries]
    cases hf : E.find? (fun e => p == e.q) with
    | none => rw [hf] at hp; cases hp
    | some e =>
      rw [hf] at hp
      simp only [Option.map_some, Option.some.injEq] at hp
      subst hp
      exact ⟨e.sh, rfl, hg e (List.mem_of_find?_eq_some hf)⟩

/-- what `ResolvesAlike` says once registration has succeeded -/
theorem resolvesAlike_ok (s : Schema) (r : RState) (hr : registerAll s = .ok r) (h : ResolvesAlike s = true) :
    declsAll (tyGood r "" (declNames s.bare)) (attrsGood r "" (declNames s.bare)) s.bare = true ∧
    ∀ nd ∈ s.namespaces, declsAll (tyGood r nd.1 (declNames nd.2 ++ declNames s.bare))
      (attrsGood r nd.1 (declNames nd.2 ++ declNames s.bare)) nd.2 = true := by
  unfold ResolvesAlike at h
  rw [hr] at h
  simpa only [Bool.and_eq_true, List.all_eq_true] using h

theorem entriesOf_good (r : RState) (ns : String) (sh : List String) (d : Namespace)
    (h : declsAll (tyGood r ns sh) (attrsGood r ns sh) d = true) :
    ∀ e ∈ entriesOf ns sh d, tyGood r e.ns e.sh e.body = true := by
  intro e he
  simp only [declsAll, Bool.and_eq_true, List.all_eq_true] at h
  obtain ⟨c, hc, rfl⟩ := List.mem_map.mp he
  exact h.1.1 c hc

theorem allEntries_good (s : Schema) (r : RState) (hr : registerAll s = .ok r) (h : ResolvesAlike s = true) :
    ∀ e ∈ allEntries s, tyGood r e.ns e.sh e.body = true := by
  obtain ⟨h1, h2⟩ := resolvesAlike_ok s r hr h
  intro e he
  rcases List.mem_append.mp he with he | he
  · exact entriesOf_good r _ _ _ h1 e he
  · obtain ⟨nd, hnd, he⟩ := List.mem_flatMap.mp he
    exact entriesOf_good r _ _ _ (h2 nd hnd) e he

/-- the registration pass on the normal form: the same error, or a state `Sim`ilar to that of the schema -/
theorem registerAll_sim (s : Schema) (h : ResolvesAlike s = true) :
    match registerAll s with
    | .error e => registerAll (nSchema s) = .error e
    | .ok r => ∃ r', registerAll (nSchema s) = .ok r' ∧ Sim r' r := by
  have h1 := registerAll_rel s
  cases hr : registerAll s with
  | error e => rw [hr] at h1; exact h1
  | ok r =>
    rw [hr] at h1
    obtain ⟨r', h2, h3⟩ := h1
    exact ⟨r', h2, sim_of_regRel _ r' r h3 (allEntries_good s r hr h)⟩

end CedarGo.Schema.TextResolve
