/-
  Helper lemmas for C17: the JSON struct-level codec round-trips; `quoteCedar` is undone by the lexer's unquoting.
-/
import CedarGo.Model.Schema.Json
import CedarGo.Model.Schema.Text
import CedarGo.Model.Schema.Resolve
namespace CedarGo.Schema

/-! ### JSON: types -/

mutual
theorem unmarshal_marshalTy : ∀ t : Ty, unmarshalTy (marshalTy t) = .ok t
  | .string => by simp [marshalTy, unmarshalTy]
  | .long => by simp [marshalTy, unmarshalTy]
  | .bool => by simp [marshalTy, unmarshalTy]
  | .ext n => by simp [marshalTy, unmarshalTy]
  | .entityRef n => by simp [marshalTy, unmarshalTy]
  | .typeRef n => by simp [marshalTy, unmarshalTy]
  | .set e => by
    have := unmarshal_marshalTy e
    simp [marshalTy, unmarshalTy, this]
  | .record as => by
    have := unmarshal_marshalAttrs as
    simp [marshalTy, unmarshalTy, this]
theorem unmarshal_marshalAttrs : ∀ as : Attrs, unmarshalAttrs (marshalAttrs as) = .ok as
  | .nil => by simp [marshalAttrs, unmarshalAttrs]
  | .cons n o a t rest => by
    have h1 := unmarshal_marshalTy t
    have h2 := unmarshal_marshalAttrs rest
    cases o <;> simp [marshalAttrs, unmarshalAttrs, h1, h2]
end

theorem mapM_map_roundtrip {α β} (f : β → Except String α) (m : α → β) :
    ∀ (l : List α), (∀ x ∈ l, f (m x) = .ok x) → (l.map m).mapM f = .ok l
  | [], _ => rfl
  | a :: l, h => by
    have h1 := h a (by simp)
    have h2 := mapM_map_roundtrip f m l (fun x hx => h x (by simp [hx]))
    simp [List.mapM_cons, h1, h2, bind, Except.bind, pure, Except.pure]

/-! ### JSON: declarations -/

theorem unmarshal_marshalEntity (e : Entity) (hs : sortStrs e.parents = e.parents) :
    unmarshalEntity (marshalEntity e) = .ok e := by
  obtain ⟨anns, parents, shape, tags⟩ := e
  simp only at hs
  cases shape <;> cases tags <;>
    simp [unmarshalEntity, marshalEntity, optMapM, unmarshalShape, marshalTy, unmarshal_marshalTy, unmarshal_marshalAttrs, hs,
      bind, Except.bind, Except.map]

theorem unmarshal_marshalAction (a : Action) : unmarshalAction (marshalAction a) = .ok a := by
  obtain ⟨anns, parents, ap⟩ := a
  have hp : List.map ((fun p : String × String => (p.2, p.1)) ∘ fun p : String × String => (p.2, p.1)) parents = parents := by
    induction parents with
    | nil => rfl
    | cons p ps ih => simp [ih]
  cases ap with
  | none => simp [unmarshalAction, marshalAction, optMapM, bind, Except.bind, hp]
  | some ap =>
    obtain ⟨ps, rs, ctx⟩ := ap
    cases ctx <;>
      simp [unmarshalAction, marshalAction, optMapM, bind, Except.bind, Except.map, unmarshal_marshalTy, hp]

/-- what the JSON form can represent faithfully -/
structure NamespaceJsonOk (d : Namespace) : Prop where
  parentsSorted : ∀ e ∈ d.entities, sortStrs e.2.parents = e.2.parents
  enumsNonEmpty : ∀ e ∈ d.enums, e.2.values ≠ []
  noClash : ∀ e ∈ d.entities, ∀ en ∈ d.enums, en.1 ≠ e.1

theorem filter_eq_self_of_forall {α} (p : α → Bool) : ∀ (l : List α), (∀ x ∈ l, p x = true) → l.filter p = l
  | [], _ => rfl
  | a :: l, h => by
    simp [List.filter_cons, h a (by simp), filter_eq_self_of_forall p l (fun x hx => h x (by simp [hx]))]

theorem filter_eq_nil_of_forall {α} (p : α → Bool) : ∀ (l : List α), (∀ x ∈ l, p x = false) → l.filter p = []
  | [], _ => rfl
  | a :: l, h => by
    simp [List.filter_cons, h a (by simp), filter_eq_nil_of_forall p l (fun x hx => h x (by simp [hx]))]

theorem unmarshal_marshalNamespace (d : Namespace) (hd : NamespaceJsonOk d) :
    unmarshalNamespace (marshalNamespace d) = .ok d := by
  obtain ⟨anns, entities, enums, actions, commonTypes⟩ := d
  obtain ⟨h1, h2, h3⟩ := hd
  simp only at h1 h2 h3
  have hfilt : (entities.filter fun e => !enums.any (fun en => en.1 == e.1)) = entities := by
    apply filter_eq_self_of_forall
    intro e he
    simp only [Bool.not_eq_true', List.any_eq_false, beq_iff_eq]
    exact fun en hen => h3 e he en hen
  have hcts : (commonTypes.map fun c => (c.1, ({ ty := marshalTy c.2.ty, anns := c.2.anns } : JCommonType))).mapM
      (fun c => do let t ← unmarshalTy c.2.ty; Except.ok (c.1, ({ anns := c.2.anns, ty := t } : CommonType))) = .ok commonTypes := by
    apply mapM_map_roundtrip
    intro x _
    simp [unmarshal_marshalTy, bind, Except.bind]
  have hacts : (actions.map fun a => (a.1, marshalAction a.2)).mapM
      (fun a => do let x ← unmarshalAction a.2; Except.ok (a.1, x)) = .ok actions := by
    apply mapM_map_roundtrip
    intro x _
    simp [unmarshal_marshalAction, bind, Except.bind]
  have hsplit1 : ((entities.map fun e => (e.1, marshalEntity e.2)) ++ enums.map fun e => (e.1, marshalEnum e.2)).filter
      (fun e => e.2.enum.isEmpty) = entities.map fun e => (e.1, marshalEntity e.2) := by
    rw [List.filter_append, filter_eq_self_of_forall, filter_eq_nil_of_forall, List.append_nil]
    · intro x hx
      obtain ⟨e, he, rfl⟩ := List.mem_map.mp hx
      have := h2 e he
      simp only [marshalEnum]
      cases hv : e.2.values with
      | nil => exact absurd hv this
      | cons _ _ => rfl
    · intro x hx
      obtain ⟨e, _, rfl⟩ := List.mem_map.mp hx
      simp [marshalEntity]
  have hsplit2 : ((entities.map fun e => (e.1, marshalEntity e.2)) ++ enums.map fun e => (e.1, marshalEnum e.2)).filter
      (fun e => !e.2.enum.isEmpty) = enums.map fun e => (e.1, marshalEnum e.2) := by
    rw [List.filter_append, filter_eq_nil_of_forall, filter_eq_self_of_forall, List.nil_append]
    · intro x hx
      obtain ⟨e, he, rfl⟩ := List.mem_map.mp hx
      have := h2 e he
      simp only [marshalEnum]
      cases hv : e.2.values with
      | nil => exact absurd hv this
      | cons _ _ => rfl
    · intro x hx
      obtain ⟨e, _, rfl⟩ := List.mem_map.mp hx
      simp [marshalEntity]
  have hents : (entities.map fun e => (e.1, marshalEntity e.2)).mapM
      (fun e => do let x ← unmarshalEntity e.2; Except.ok (e.1, x)) = .ok entities := by
    apply mapM_map_roundtrip
    intro x hx
    simp [unmarshal_marshalEntity x.2 (h1 x hx), bind, Except.bind]
  have henums : (enums.map fun e => (e.1, marshalEnum e.2)).map
      (fun e => (e.1, ({ anns := e.2.anns, values := e.2.enum } : Enum))) = enums := by
    rw [List.map_map]
    conv => rhs; rw [← List.map_id enums]
    apply List.map_congr_left
    intro e _
    simp [marshalEnum]
  unfold unmarshalNamespace marshalNamespace
  simp only [hfilt, hsplit1, hsplit2, bind, Except.bind] at hcts hacts hents ⊢
  rw [hcts, hents, hacts, henums]

/-! ### JSON: the schema -/

structure SchemaJsonOk (s : Schema) : Prop where
  bare : NamespaceJsonOk s.bare
  bareAnns : s.bare.anns = []
  nss : ∀ nd ∈ s.namespaces, NamespaceJsonOk nd.2 ∧ nd.1 ≠ ""

theorem unmarshal_marshalSchema (s : Schema) (h : SchemaJsonOk s) : unmarshalSchema (marshalSchema s) = .ok s := by
  obtain ⟨bare, namespaces⟩ := s
  obtain ⟨hb, ha, hn⟩ := h
  simp only at hb ha hn
  have hbare' : ({ bare with anns := [] } : Namespace) = bare := by
    obtain ⟨anns, e, en, a, c⟩ := bare
    simp only at ha
    subst ha
    rfl
  have hfilter : namespaces.filter (fun nd => decide (nd.1 ≠ "")) = namespaces :=
    filter_eq_self_of_forall _ _ (fun nd hnd => by simpa using (hn nd hnd).2)
  have hlookup : namespaces.lookup "" = none := by
    rw [List.lookup_eq_none_iff]
    intro p hp
    have := (hn p hp).2
    simpa [bne_iff_ne] using fun h : "" = p.1 => this h.symm
  unfold unmarshalSchema marshalSchema
  by_cases hbd : hasBareDecls bare = true
  · have hm : ((if hasBareDecls bare = true then [("", marshalNamespace { bare with anns := [] })] else []) ++
        namespaces.map fun nd => (nd.1, marshalNamespace nd.2)) =
        ((("", bare) : String × Namespace) :: namespaces).map fun nd => (nd.1, marshalNamespace nd.2) := by
      simp [hbd, hbare']
    simp only [hm]
    rw [mapM_map_roundtrip (fun nd => do let d ← unmarshalNamespace nd.2; Except.ok (nd.1, d)) (fun nd => (nd.1, marshalNamespace nd.2))]
    · simp only [bind, Except.bind, List.lookup, beq_self_eq_true, List.filter_cons, ne_eq, not_true_eq_false,
        decide_false, Bool.false_eq_true, if_false]
      rw [hfilter, hbare']
    · intro x hx
      rcases List.mem_cons.mp hx with rfl | hx
      · simp [unmarshal_marshalNamespace _ hb, bind, Except.bind]
      · simp [unmarshal_marshalNamespace _ (hn x hx).1, bind, Except.bind]
  · have hm : ((if hasBareDecls bare = true then [("", marshalNamespace { bare with anns := [] })] else []) ++
        namespaces.map fun nd => (nd.1, marshalNamespace nd.2)) =
        namespaces.map fun nd => (nd.1, marshalNamespace nd.2) := by
      simp [hbd]
    simp only [hm]
    rw [mapM_map_roundtrip (fun nd => do let d ← unmarshalNamespace nd.2; Except.ok (nd.1, d)) (fun nd => (nd.1, marshalNamespace nd.2))]
    · simp only [bind, Except.bind, hlookup, hfilter]
      have : bare = {} := by
        obtain ⟨anns, e, en, a, c⟩ := bare
        simp only at ha
        subst ha
        simp only [hasBareDecls, Bool.or_eq_true, Bool.not_eq_true', not_or, Bool.not_eq_false, List.isEmpty_iff] at hbd
        obtain ⟨⟨⟨h1, h2⟩, h3⟩, h4⟩ := hbd
        subst h1 h2 h3 h4
        rfl
      rw [this]
    · intro x hx
      simp [unmarshal_marshalNamespace _ (hn x hx).1, bind, Except.bind]

end CedarGo.Schema
