/-
  Helper lemmas for C17: the JSON struct-level codec round-trips; `quoteCedar` is undone by the lexer's unquoting.
-/
import CedarGo.Model.Schema.Json
import CedarGo.Model.Schema.Text
import CedarGo.Model.Schema.Resolve
namespace CedarGo.Schema

/-! ### JSON: types -/

mutual
theorem unmarshal_marshalTy : ∀ t : Ty, unmarshalTy (marshalTy t) = .ok t
  | .string => by simp [marshalTy, unmarshalTy]
  | .long => by simp [marshalTy, unmarshalTy]
  | .bool => by simp [marshalTy, unmarshalTy]
  | .ext n => by simp [marshalTy, unmarshalTy]
  | .entityRef n => by simp [marshalTy, unmarshalTy]
  | .typeRef n => by simp [marshalTy, unmarshalTy]
  | .set e => by
    have := unmarshal_marshalTy e
    simp [marshalTy, unmarshalTy, this]
  | .record as => by
    have := unmarshal_marshalAttrs as
    simp [marshalTy, unmarshalTy, this]
theorem unmarshal_marshalAttrs : ∀ as : Attrs, unmarshalAttrs (marshalAttrs as) = .ok as
  | .nil => by simp [marshalAttrs, unmarshalAttrs]
  | .cons n o a t rest => by
    have h1 := unmarshal_marshalTy t
    have h2 := unmarshal_marshalAttrs rest
    cases o <;> simp [marshalAttrs, unmarshalAttrs, h1, h2]
end

theorem mapM_map_roundtrip {α β} (f : β → Except String α) (m : α → β) :
    ∀ (l : List α), (∀ x ∈ l, f (m x) = .ok x) → (l.map m).mapM f = .ok l
  | [], _ => rfl
  | a :: l, h => by
    have h1 := h a (by simp)
    have h2 := mapM_map_roundtrip f m l (fun x hx => h x (by simp [hx]))
    simp [List.mapM_cons, h1, h2, bind, Except.bind, pure, Except.pure]

/-! ### JSON: declarations -/

theorem unmarshal_marshalEntity (e : Entity) (hs : sortStrs e.parents = e.parents) :
    unmarshalEntity (marshalEntity e) = .ok e := by
  obtain ⟨anns, parents, shape, tags⟩ := e
  simp only at hs
  cases shape <;> cases tags <;>
    simp [unmarshalEntity, marshalEntity, optMapM, unmarshalShape, marshalTy, unmarshal_marshalTy, unmarshal_marshalAttrs, hs,
      bind, Except.bind, Except.map]

theorem unmarshal_marshalAction (a : Action) : unmarshalAction (marshalAction a) = .ok a := by
  obtain ⟨anns, parents, ap⟩ := a
  have hp : List.map ((fun p : String × String => (p.2, p.1)) ∘ fun p : String × String => (p.2, p.1)) parents = parents := by
    induction parents with
    | nil => rfl
    | cons p ps ih => simp [ih]
  cases ap with
  | none => simp [unmarshalAction, marshalAction, optMapM, bind, Except.bind, hp]
  | some ap =>
    obtain ⟨ps, rs, ctx⟩ := ap
    cases ctx <;>
      simp [unmarshalAction, marshalAction, optMapM, bind, Except.bind, Except.map, unmarshal_marshalTy, hp]

/-- what the JSON form can represent faithfully -/
structure NamespaceJsonOk (d : Namespace) : Prop where
  parentsSorted : ∀ e ∈ d.entities, sortStrs e.2.parents = e.2.parents
  enumsNonEmpty : ∀ e ∈ d.enums, e.2.values ≠ []
  noClash : ∀ e ∈ d.entities, ∀ en ∈ d.enums, en.1 ≠ e.1
  /-- every name is one the Cedar grammar allows where it stands (stated on the JSON form, where `checkNames` runs):
      entity / common type names are identifiers, common type names are not reserved, type references are paths,
      annotation keys are identifier-shaped -/
  names : checkNames (marshalNamespace d) = true

theorem filter_eq_self_of_forall {α} (p : α → Bool) : ∀ (l : List α), (∀ x ∈ l, p x = true) → l.filter p = l
  | [], _ => rfl
  | a :: l, h => by
    simp [List.filter_cons, h a (by simp), filter_eq_self_of_forall p l (fun x hx => h x (by simp [hx]))]

theorem filter_eq_nil_of_forall {α} (p : α → Bool) : ∀ (l : List α), (∀ x ∈ l, p x = false) → l.filter p = []
  | [], _ => rfl
  | a :: l, h => by
    simp [List.filter_cons, h a (by simp), filter_eq_nil_of_forall p l (fun x hx => h x (by simp [hx]))]

theorem marshalNamespace_no_empty_enum (d : Namespace) (h2 : ∀ e ∈ d.enums, e.2.values ≠ []) :
    (marshalNamespace d).entityTypes.any (fun e => e.2.enum == some []) = false := by
  unfold marshalNamespace
  simp only
  rw [List.any_eq_false]
  intro x hx
  rcases List.mem_append.mp hx with hx | hx
  · obtain ⟨e, _, rfl⟩ := List.mem_map.mp hx
    simp [marshalEntity]
  · obtain ⟨e, he, rfl⟩ := List.mem_map.mp hx
    have := h2 e he
    simpa [marshalEnum] using this

theorem unmarshalCore_marshalNamespace (d : Namespace) (hd : NamespaceJsonOk d) :
    unmarshalNamespaceCore (marshalNamespace d) = .ok d := by
  obtain ⟨anns, entities, enums, actions, commonTypes⟩ := d
  obtain ⟨h1, h2, h3, hnames⟩ := hd
  clear hnames
  simp only at h1 h2 h3
  have hfilt : (entities.filter fun e => !enums.any (fun en => en.1 == e.1)) = entities := by
    apply filter_eq_self_of_forall
    intro e he
    simp only [Bool.not_eq_true', List.any_eq_false, beq_iff_eq]
    exact fun en hen => h3 e he en hen
  have hcts : (commonTypes.map fun c => (c.1, ({ ty := marshalTy c.2.ty, anns := c.2.anns } : JCommonType))).mapM
      (fun c => do let t ← unmarshalTy c.2.ty; Except.ok (c.1, ({ anns := c.2.anns, ty := t } : CommonType))) = .ok commonTypes := by
    apply mapM_map_roundtrip
    intro x _
    simp [unmarshal_marshalTy, bind, Except.bind]
  have hacts : (actions.map fun a => (a.1, marshalAction a.2)).mapM
      (fun a => do let x ← unmarshalAction a.2; Except.ok (a.1, x)) = .ok actions := by
    apply mapM_map_roundtrip
    intro x _
    simp [unmarshal_marshalAction, bind, Except.bind]
  have hsplit1 : ((entities.map fun e => (e.1, marshalEntity e.2)) ++ enums.map fun e => (e.1, marshalEnum e.2)).filter
      (fun e => e.2.enum.isNone) = entities.map fun e => (e.1, marshalEntity e.2) := by
    rw [List.filter_append, filter_eq_self_of_forall, filter_eq_nil_of_forall, List.append_nil]
    · intro x hx
      obtain ⟨e, he, rfl⟩ := List.mem_map.mp hx
      simp [marshalEnum]
    · intro x hx
      obtain ⟨e, _, rfl⟩ := List.mem_map.mp hx
      simp [marshalEntity]
  have hsplit2 : ((entities.map fun e => (e.1, marshalEntity e.2)) ++ enums.map fun e => (e.1, marshalEnum e.2)).filterMap
      (fun e => e.2.enum.map fun vs => (e.1, ({ anns := e.2.anns, values := vs } : Enum))) = enums := by
    rw [List.filterMap_append]
    have e1 : (entities.map fun e => (e.1, marshalEntity e.2)).filterMap
        (fun e => e.2.enum.map fun vs => (e.1, ({ anns := e.2.anns, values := vs } : Enum))) = [] := by
      rw [List.filterMap_eq_nil_iff]
      intro x hx
      obtain ⟨e, _, rfl⟩ := List.mem_map.mp hx
      simp [marshalEntity]
    have e2 : (enums.map fun e => (e.1, marshalEnum e.2)).filterMap
        (fun e => e.2.enum.map fun vs => (e.1, ({ anns := e.2.anns, values := vs } : Enum))) = enums := by
      clear h2 h3 hfilt hsplit1 e1
      induction enums with
      | nil => rfl
      | cons e es ih => simp [marshalEnum] at ih ⊢; exact ih
    rw [e1, e2, List.nil_append]
  have hents : (entities.map fun e => (e.1, marshalEntity e.2)).mapM
      (fun e => do let x ← unmarshalEntity e.2; Except.ok (e.1, x)) = .ok entities := by
    apply mapM_map_roundtrip
    intro x hx
    simp [unmarshal_marshalEntity x.2 (h1 x hx), bind, Except.bind]
  unfold unmarshalNamespaceCore marshalNamespace
  simp only [hfilt, hsplit1, hsplit2, bind, Except.bind] at hcts hacts hents ⊢
  rw [hcts, hents, hacts]

theorem unmarshal_marshalNamespace (d : Namespace) (hd : NamespaceJsonOk d) :
    unmarshalNamespace (marshalNamespace d) = .ok d := by
  unfold unmarshalNamespace
  simp only [hd.names, marshalNamespace_no_empty_enum d hd.enumsNonEmpty, Bool.not_true, Bool.false_eq_true, if_false]
  exact unmarshalCore_marshalNamespace d hd

/-! ### JSON: the schema -/

structure SchemaJsonOk (s : Schema) : Prop where
  bare : NamespaceJsonOk s.bare
  bareAnns : s.bare.anns = []
  nss : ∀ nd ∈ s.namespaces, NamespaceJsonOk nd.2 ∧ nd.1 ≠ "" ∧ isPathJ nd.1 = true

theorem unmarshalCore_marshalSchema (s : Schema) (h : SchemaJsonOk s) : unmarshalSchemaCore (marshalSchema s) = .ok s := by
  obtain ⟨bare, namespaces⟩ := s
  obtain ⟨hb, ha, hn⟩ := h
  simp only at hb ha hn
  have hbare' : ({ bare with anns := [] } : Namespace) = bare := by
    obtain ⟨anns, e, en, a, c⟩ := bare
    simp only at ha
    subst ha
    rfl
  have hfilter : namespaces.filter (fun nd => decide (nd.1 ≠ "")) = namespaces :=
    filter_eq_self_of_forall _ _ (fun nd hnd => by simpa using (hn nd hnd).2.1)
  have hlookup : namespaces.lookup "" = none := by
    rw [List.lookup_eq_none_iff]
    intro p hp
    have := (hn p hp).2.1
    simpa [bne_iff_ne] using fun h : "" = p.1 => this h.symm
  unfold unmarshalSchemaCore marshalSchema
  by_cases hbd : hasBareDecls bare = true
  · have hm : ((if hasBareDecls bare = true then [("", marshalNamespace { bare with anns := [] })] else []) ++
        namespaces.map fun nd => (nd.1, marshalNamespace nd.2)) =
        ((("", bare) : String × Namespace) :: namespaces).map fun nd => (nd.1, marshalNamespace nd.2) := by
      simp [hbd, hbare']
    simp only [hm]
    rw [mapM_map_roundtrip (fun nd => do let d ← unmarshalNamespace nd.2; Except.ok (nd.1, d)) (fun nd => (nd.1, marshalNamespace nd.2))]
    · simp only [bind, Except.bind, List.lookup, beq_self_eq_true, List.filter_cons, ne_eq, not_true_eq_false,
        decide_false, Bool.false_eq_true, if_false]
      rw [hfilter, hbare']
    · intro x hx
      rcases List.mem_cons.mp hx with rfl | hx
      · simp [unmarshal_marshalNamespace _ hb, bind, Except.bind]
      · simp [unmarshal_marshalNamespace _ (hn x hx).1, bind, Except.bind]
  · have hm : ((if hasBareDecls bare = true then [("", marshalNamespace { bare with anns := [] })] else []) ++
        namespaces.map fun nd => (nd.1, marshalNamespace nd.2)) =
        namespaces.map fun nd => (nd.1, marshalNamespace nd.2) := by
      simp [hbd]
    simp only [hm]
    rw [mapM_map_roundtrip (fun nd => do let d ← unmarshalNamespace nd.2; Except.ok (nd.1, d)) (fun nd => (nd.1, marshalNamespace nd.2))]
    · simp only [bind, Except.bind, hlookup, hfilter]
      have : bare = {} := by
        obtain ⟨anns, e, en, a, c⟩ := bare
        simp only at ha
        subst ha
        simp only [hasBareDecls, Bool.or_eq_true, Bool.not_eq_true', not_or, Bool.not_eq_false, List.isEmpty_iff] at hbd
        obtain ⟨⟨⟨h1, h2⟩, h3⟩, h4⟩ := hbd
        subst h1 h2 h3 h4
        rfl
      rw [this]
    · intro x hx
      simp [unmarshal_marshalNamespace _ (hn x hx).1, bind, Except.bind]

theorem unmarshal_marshalSchema (s : Schema) (h : SchemaJsonOk s) : unmarshalSchema (marshalSchema s) = .ok s := by
  have hkeys : (marshalSchema s).any (fun nd => nd.1 ≠ "" && !isPathJ nd.1) = false := by
    rw [List.any_eq_false]
    intro x hx
    unfold marshalSchema at hx
    rcases List.mem_append.mp hx with hx | hx
    · split at hx
      · simp only [List.mem_cons, List.not_mem_nil, or_false] at hx
        subst hx
        simp
      · cases hx
    · obtain ⟨nd, hnd, rfl⟩ := List.mem_map.mp hx
      simp [(h.nss nd hnd).2.2]
  unfold unmarshalSchema
  simp only [hkeys, Bool.false_eq_true, if_false]
  exact unmarshalCore_marshalSchema s h

/-! ### text: a built-in type node is printed under a name that denotes it -/

/-- nothing called `n` is visible from namespace `ns`: no common type and no entity type `n` in the empty namespace nor
    (for `ns ≠ ""`) `ns::n` — exactly the lookups `resolveTypeRef` tries before it takes `n` as a built-in -/
def Undeclared (r : RState) (ns n : String) : Prop :=
  r.common? n = none ∧ r.isEntity n = false ∧
  (ns ≠ "" → r.common? (ns ++ "::" ++ n) = none ∧ r.isEntity (ns ++ "::" ++ n) = false)

instance (r : RState) (ns n : String) : Decidable (Undeclared r ns n) := by unfold Undeclared; infer_instance

/-- the name under which `marshalType` writes a built-in type node -/
def builtinTyName : Ty → Option String
  | .string => some "String"
  | .long => some "Long"
  | .bool => some "Bool"
  | .ext n => some n
  | _ => none

/-- what a built-in type NODE of the AST (`ast.StringType`, `LongType`, `BoolType`, `ExtensionType` of a known extension)
    resolves to -/
def builtinRTy : Ty → Option RTy
  | .string => some .string
  | .long => some .long
  | .bool => some .bool
  | .ext n => if n = "ipaddr" ∨ n = "decimal" ∨ n = "datetime" ∨ n = "duration" then some (.ext n) else none
  | _ => none

/-- a name `n` of a built-in, printed bare or with the `__cedar` namespace, looks up as that built-in -/
theorem lookup_builtinName (r : RState) (ns : String) (sh : List String) (n : String) (rt : RTy)
    (h1 : hasSep n = false) (h2 : hasSep ("__cedar::" ++ n) = true) (h3 : cedarSuffix ("__cedar::" ++ n) = some n)
    (h4 : lookupBuiltin n = some rt) (hsh : n ∉ sh → Undeclared r ns n) :
    lookupTypeRef r ns (builtinName sh n) = .builtin rt := by
  unfold builtinName
  by_cases hm : sh.contains n = true
  · simp only [hm, if_true]
    unfold lookupTypeRef
    simp [h2, h3, h4]
  · simp only [hm]
    have hn : n ∉ sh := by simpa using hm
    obtain ⟨a, b, c⟩ := hsh hn
    unfold lookupTypeRef
    by_cases hns : ns = ""
    · simp [h1, a, b, hns, h4]
    · obtain ⟨c, d⟩ := c hns
      simp [h1, a, b, c, d, hns, h4]

theorem print_builtin_reresolves (r : RState) (ns : String) (sh : List String) (indent : Nat) (t : Ty) (rt : RTy)
    (ht : builtinRTy t = some rt) (hsh : ∀ n, builtinTyName t = some n → n ∉ sh → Undeclared r ns n) :
    lookupTypeRef r ns (printTy sh indent t) = .builtin rt := by
  cases t with
  | string =>
    simp only [builtinRTy, Option.some.injEq] at ht; subst ht
    unfold printTy
    exact lookup_builtinName r ns sh "String" _ (by decide +kernel) (by decide +kernel) (by decide +kernel) (by decide +kernel) (hsh _ rfl)
  | long =>
    simp only [builtinRTy, Option.some.injEq] at ht; subst ht
    unfold printTy
    exact lookup_builtinName r ns sh "Long" _ (by decide +kernel) (by decide +kernel) (by decide +kernel) (by decide +kernel) (hsh _ rfl)
  | bool =>
    simp only [builtinRTy, Option.some.injEq] at ht; subst ht
    unfold printTy
    exact lookup_builtinName r ns sh "Bool" _ (by decide +kernel) (by decide +kernel) (by decide +kernel) (by decide +kernel) (hsh _ rfl)
  | ext n =>
    simp only [builtinRTy] at ht
    split at ht
    · rename_i hn
      simp only [Option.some.injEq] at ht; subst ht
      unfold printTy
      rcases hn with rfl | rfl | rfl | rfl <;>
        exact lookup_builtinName r ns sh _ _ (by decide +kernel) (by decide +kernel) (by decide +kernel) (by decide +kernel) (hsh _ rfl)
    · cases ht
  | set _ => cases ht
  | record _ => cases ht
  | entityRef _ => cases ht
  | typeRef _ => cases ht

end CedarGo.Schema
