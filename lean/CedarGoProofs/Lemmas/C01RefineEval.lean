/-
  C01: the refinement theorem `eval ⊑ Spec.evaluateWith D`, by mutual structural induction over
  expressions (with their nested argument / element / entry lists), for every pair of date projections
  `D` that agrees with the Go code on the `toDate` / `toTime` arguments that actually occur.
-/
import CedarGoProofs.Lemmas.C01Ext
namespace CedarGo
open Scalars Spec

/-! ### Hypotheses of the theorem, as node predicates -/

namespace C01L
def patOK : Expr → Prop
  | .like _ p => WFPattern p
  | _ => True

/-- every `like` pattern in the expression is one `types.NewPattern` (hence the parser) can build -/
def _root_.CedarGo.Expr.PatternsWF (e : Expr) : Prop := e.All patOK

/-- `D` computes what the Go code computes on every datetime a `toDate` / `toTime` call is applied to -/
def dateOK (D : DateFns) (env : Env) : Expr → Prop
  | .call fn [a] => ∀ t, eval a env = .ok (.datetime t) → InI64 t →
      (fn = "toDate" → D.toDate t = goDates.toDate t) ∧ (fn = "toTime" → D.toTime t = goDates.toTime t)
  | _ => True

def nodeOK (D : DateFns) (env : Env) (e : Expr) : Prop := litOK e ∧ patOK e ∧ dateOK D env e

mutual
theorem Expr.All_mono {P Q : Expr → Prop} (h : ∀ x, P x → Q x) : ∀ e : Expr, e.All P → e.All Q
  | .lit _, hp => by simp only [Expr.All] at hp ⊢; exact h _ hp
  | .var _, hp => by simp only [Expr.All] at hp ⊢; exact h _ hp
  | .unop _ e, hp => by simp only [Expr.All] at hp ⊢; exact ⟨h _ hp.1, Expr.All_mono h e hp.2⟩
  | .binop _ l r, hp => by
    simp only [Expr.All] at hp ⊢; exact ⟨h _ hp.1, Expr.All_mono h l hp.2.1, Expr.All_mono h r hp.2.2⟩
  | .ite c t e, hp => by
    simp only [Expr.All] at hp ⊢
    exact ⟨h _ hp.1, Expr.All_mono h c hp.2.1, Expr.All_mono h t hp.2.2.1, Expr.All_mono h e hp.2.2.2⟩
  | .access e _, hp => by simp only [Expr.All] at hp ⊢; exact ⟨h _ hp.1, Expr.All_mono h e hp.2⟩
  | .has e _, hp => by simp only [Expr.All] at hp ⊢; exact ⟨h _ hp.1, Expr.All_mono h e hp.2⟩
  | .like e _, hp => by simp only [Expr.All] at hp ⊢; exact ⟨h _ hp.1, Expr.All_mono h e hp.2⟩
  | .is e _, hp => by simp only [Expr.All] at hp ⊢; exact ⟨h _ hp.1, Expr.All_mono h e hp.2⟩
  | .isIn e _ r, hp => by
    simp only [Expr.All] at hp ⊢; exact ⟨h _ hp.1, Expr.All_mono h e hp.2.1, Expr.All_mono h r hp.2.2⟩
  | .set es, hp => by simp only [Expr.All] at hp ⊢; exact ⟨h _ hp.1, Expr.AllL_mono h es hp.2⟩
  | .record kes, hp => by simp only [Expr.All] at hp ⊢; exact ⟨h _ hp.1, Expr.AllKV_mono h kes hp.2⟩
  | .call _ args, hp => by simp only [Expr.All] at hp ⊢; exact ⟨h _ hp.1, Expr.AllL_mono h args hp.2⟩
theorem Expr.AllL_mono {P Q : Expr → Prop} (h : ∀ x, P x → Q x) : ∀ es : List Expr, Expr.AllL P es → Expr.AllL Q es
  | [], _ => by simp [Expr.AllL]
  | e :: es, hp => by simp only [Expr.AllL] at hp ⊢; exact ⟨Expr.All_mono h e hp.1, Expr.AllL_mono h es hp.2⟩
theorem Expr.AllKV_mono {P Q : Expr → Prop} (h : ∀ x, P x → Q x) :
    ∀ kes : List (String × Expr), Expr.AllKV P kes → Expr.AllKV Q kes
  | [], _ => by simp [Expr.AllKV]
  | (_, e) :: kes, hp => by simp only [Expr.AllKV] at hp ⊢; exact ⟨Expr.All_mono h e hp.1, Expr.AllKV_mono h kes hp.2⟩
end

mutual
theorem Expr.All_and {P Q : Expr → Prop} : ∀ e : Expr, e.All P → e.All Q → e.All (fun x => P x ∧ Q x)
  | .lit _, hp, hq => by simp only [Expr.All] at hp hq ⊢; exact ⟨hp, hq⟩
  | .var _, hp, hq => by simp only [Expr.All] at hp hq ⊢; exact ⟨hp, hq⟩
  | .unop _ e, hp, hq => by simp only [Expr.All] at hp hq ⊢; exact ⟨⟨hp.1, hq.1⟩, Expr.All_and e hp.2 hq.2⟩
  | .binop _ l r, hp, hq => by
    simp only [Expr.All] at hp hq ⊢
    exact ⟨⟨hp.1, hq.1⟩, Expr.All_and l hp.2.1 hq.2.1, Expr.All_and r hp.2.2 hq.2.2⟩
  | .ite c t e, hp, hq => by
    simp only [Expr.All] at hp hq ⊢
    exact ⟨⟨hp.1, hq.1⟩, Expr.All_and c hp.2.1 hq.2.1, Expr.All_and t hp.2.2.1 hq.2.2.1, Expr.All_and e hp.2.2.2 hq.2.2.2⟩
  | .access e _, hp, hq => by simp only [Expr.All] at hp hq ⊢; exact ⟨⟨hp.1, hq.1⟩, Expr.All_and e hp.2 hq.2⟩
  | .has e _, hp, hq => by simp only [Expr.All] at hp hq ⊢; exact ⟨⟨hp.1, hq.1⟩, Expr.All_and e hp.2 hq.2⟩
  | .like e _, hp, hq => by simp only [Expr.All] at hp hq ⊢; exact ⟨⟨hp.1, hq.1⟩, Expr.All_and e hp.2 hq.2⟩
  | .is e _, hp, hq => by simp only [Expr.All] at hp hq ⊢; exact ⟨⟨hp.1, hq.1⟩, Expr.All_and e hp.2 hq.2⟩
  | .isIn e _ r, hp, hq => by
    simp only [Expr.All] at hp hq ⊢
    exact ⟨⟨hp.1, hq.1⟩, Expr.All_and e hp.2.1 hq.2.1, Expr.All_and r hp.2.2 hq.2.2⟩
  | .set es, hp, hq => by simp only [Expr.All] at hp hq ⊢; exact ⟨⟨hp.1, hq.1⟩, Expr.AllL_and es hp.2 hq.2⟩
  | .record kes, hp, hq => by simp only [Expr.All] at hp hq ⊢; exact ⟨⟨hp.1, hq.1⟩, Expr.AllKV_and kes hp.2 hq.2⟩
  | .call _ args, hp, hq => by simp only [Expr.All] at hp hq ⊢; exact ⟨⟨hp.1, hq.1⟩, Expr.AllL_and args hp.2 hq.2⟩
theorem Expr.AllL_and {P Q : Expr → Prop} :
    ∀ es : List Expr, Expr.AllL P es → Expr.AllL Q es → Expr.AllL (fun x => P x ∧ Q x) es
  | [], _, _ => by simp [Expr.AllL]
  | e :: es, hp, hq => by
    simp only [Expr.AllL] at hp hq ⊢; exact ⟨Expr.All_and e hp.1 hq.1, Expr.AllL_and es hp.2 hq.2⟩
theorem Expr.AllKV_and {P Q : Expr → Prop} :
    ∀ kes : List (String × Expr), Expr.AllKV P kes → Expr.AllKV Q kes → Expr.AllKV (fun x => P x ∧ Q x) kes
  | [], _, _ => by simp [Expr.AllKV]
  | (_, e) :: kes, hp, hq => by
    simp only [Expr.AllKV] at hp hq ⊢; exact ⟨Expr.All_and e hp.1 hq.1, Expr.AllKV_and kes hp.2 hq.2⟩
end

theorem nodeOK_lits {D : DateFns} {env : Env} {e : Expr} (h : e.All (nodeOK D env)) : e.All litOK :=
  Expr.All_mono (fun _ hx => hx.1) e h
theorem nodeOK_litsL {D : DateFns} {env : Env} {es : List Expr} (h : Expr.AllL (nodeOK D env) es) : Expr.AllL litOK es :=
  Expr.AllL_mono (fun _ hx => hx.1) es h

/-! ### Small facts used in the induction -/

/-- typed argument lists: the Go code checks the kind of argument `i` before it evaluates argument
    `i+1`; the specification evaluates all arguments and lets `call` reject ill-kinded ones -/
def RefinesT (ks : List Kind) (impl spec : Except Err (List Value)) : Prop :=
  match spec with
  | .ok vs => (kindsOK ks vs = true ∧ impl = .ok vs) ∨ (kindsOK ks vs = false ∧ impl = .error .type)
  | .error k => impl = .error k ∨ impl = .error .type ∨ impl = .error .unspecified

theorem checkKind_err {k : Kind} {v : Value} {e : Err} (h : checkKind k v = .error e) : e = .type := by
  cases k <;> cases v <;> simp [checkKind] at h <;> exact h.symm

theorem evaluateList_length {D : DateFns} {env : Env} : ∀ (es : List Expr) (vs : List Value),
    evaluateList D es env = .ok vs → vs.length = es.length
  | [], vs, h => by simp only [evaluateList] at h; cases h; rfl
  | e :: es, vs, h => by
    simp only [evaluateList] at h
    obtain ⟨v, _, h⟩ := bind_ok h
    obtain ⟨vs', hvs', h⟩ := bind_ok h
    cases h
    simp [evaluateList_length es vs' hvs']

theorem ok_bind {α β : Type} (a : α) (f : α → Except Err β) : (Except.ok a >>= f) = f a := rfl

/-- a result that is a Boolean or an error survives `.as Bool` unchanged -/
theorem asBool_roundtrip {r : Res} (h : ∀ v, r = .ok v → ∃ b, v = .bool b) :
    (r >>= fun v => asBool v >>= fun b' => (.ok (.bool b') : Res)) = r := by
  cases r with
  | error e => rfl
  | ok v => obtain ⟨b, rfl⟩ := h v rfl; rfl

theorem refines_err_bind {e : Err} {s : Res} {g : Value → Res} (he : e = .type ∨ e = .unspecified)
    (hg : ∀ v, ∃ k, g v = .error k) : Refines (.error e) (s >>= g) := by
  apply refines_err_left he
  cases s with
  | error k => exact ⟨k, rfl⟩
  | ok v => exact hg v

/-! ### Record expressions: both sides evaluate the entries in key order -/

theorem evaluateEach_eq_map (D : DateFns) (kes : List (String × Expr)) (env : Env) :
    evaluateEach D kes env = kes.map (fun ke => (ke.1, evaluateWith D ke.2 env)) := by
  induction kes with
  | nil => rfl
  | cons ke kes ih => obtain ⟨k, e⟩ := ke; simp only [evaluateEach, List.map_cons, ih]

theorem seqKVs_map_evaluate (D : DateFns) (l : List (String × Expr)) (env : Env) :
    seqKVs (l.map (fun ke => (ke.1, evaluateWith D ke.2 env))) = evaluateKVs D l env := by
  induction l with
  | nil => rfl
  | cons ke l ih => obtain ⟨k, e⟩ := ke; simp only [List.map_cons, seqKVs, evaluateKVs, ih]

/-- the specification of a record expression: the entries in key order (`canonKVs`), first error wins -/
theorem evaluate_recordLit (D : DateFns) (kes : List (String × Expr)) (env : Env) :
    evaluateWith D (.record kes) env = (evaluateKVs D (canonKVs kes) env).bind (fun kvs => .ok (mkRecord kvs)) := by
  rw [evaluateWith, evaluateEach_eq_map, canonKVs_map (fun e => evaluateWith D e env), seqKVs_map_evaluate]
  rfl

theorem evalKVs_refines_of (D : DateFns) (env : Env) : ∀ (l : List (String × Expr)),
    (∀ ke ∈ l, Refines (eval ke.2 env) (evaluateWith D ke.2 env)) → Refines (evalKVs l env) (evaluateKVs D l env)
  | [], _ => .inl rfl
  | (k, e) :: l, h => by
    simp only [evalKVs, evaluateKVs]
    apply refines_bind (h (k, e) (by simp))
    intro v _
    exact refines_bind (evalKVs_refines_of D env l (fun ke hke => h ke (by simp [hke]))) (fun _ _ => .inl rfl)

/-! ### The induction -/

mutual
theorem eval_refines (D : DateFns) : ∀ (e : Expr) (env : Env), env.WF → e.All (nodeOK D env) →
    Refines (eval e env) (evaluateWith D e env)
  | .lit v, env, _, _ => by simp only [eval, evaluateWith]; exact .inl rfl
  | .var x, env, _, _ => by cases x <;> simp only [eval, evaluateWith] <;> exact .inl rfl
  | .unop op e, env, hwf, hn => by
    simp only [Expr.All] at hn
    have ih := eval_refines D e env hwf hn.2
    cases op with
    | not =>
      simp only [eval, evaluateWith]
      exact refines_un ih (fun v _ => .of_eq (un_not v))
    | neg =>
      simp only [eval, evaluateWith]
      exact refines_un ih (fun v hv => .of_eq (un_neg v (eval_wf e env v hwf (nodeOK_lits hn.2) hv)))
    | isEmpty =>
      simp only [eval, evaluateWith]
      exact refines_un ih (fun v _ => .of_eq (un_isEmpty v))
  | .binop op l r, env, hwf, hn => by
    simp only [Expr.All] at hn
    have ihl := eval_refines D l env hwf hn.2.1
    have ihr := eval_refines D r env hwf hn.2.2
    have wfl := fun v hv => eval_wf l env v hwf (nodeOK_lits hn.2.1) hv
    have wfr := fun v hv => eval_wf r env v hwf (nodeOK_lits hn.2.2) hv
    cases op with
    | and =>
      simp only [eval, evaluateWith, ebind_bind]
      apply refines_bind ihl
      intro v hv
      cases v <;> try exact .inl rfl
      rename_i b
      clear hv
      cases b
      · exact .inl rfl
      · show Refines (eval r env >>= fun v' => toBool v' >>= fun _ => (.ok v' : Res))
          (evaluateWith D r env >>= fun v' => asBool v' >>= fun b' => (.ok (.bool b') : Res))
        apply refines_bind ihr
        intro v' _
        cases v' <;> exact .inl rfl
    | or =>
      simp only [eval, evaluateWith, ebind_bind]
      apply refines_bind ihl
      intro v hv
      cases v <;> try exact .inl rfl
      rename_i b
      clear hv
      cases b
      · show Refines (eval r env >>= fun v' => toBool v' >>= fun _ => (.ok v' : Res))
          (evaluateWith D r env >>= fun v' => asBool v' >>= fun b' => (.ok (.bool b') : Res))
        apply refines_bind ihr
        intro v' _
        cases v' <;> exact .inl rfl
      · exact .inl rfl
    | eq =>
      simp only [eval, evaluateWith]
      exact refines_bin00 ihl ihr (fun v₁ v₂ _ _ => .of_eq (bin_eq _ v₁ v₂))
    | ne =>
      simp only [eval, evaluateWith]
      exact refines_bin00 ihl ihr (fun v₁ v₂ _ _ => .of_eq (bin_ne _ v₁ v₂))
    | lt =>
      simp only [eval, evaluateWith]
      apply refines_bin11 ihl ihr convErr_toComparable
      intro v₁ v₂ _ _
      cases v₁ <;> cases v₂ <;> exact .inl rfl
    | le =>
      simp only [eval, evaluateWith]
      apply refines_bin11 ihl ihr convErr_toComparable
      intro v₁ v₂ _ _
      cases v₁ <;> cases v₂ <;> exact .inl rfl
    | gt =>
      simp only [eval, evaluateWith]
      apply refines_bin11 ihl ihr convErr_toComparable
      intro v₁ v₂ _ _
      cases v₁ <;> cases v₂ <;> exact .inl rfl
    | ge =>
      simp only [eval, evaluateWith]
      apply refines_bin11 ihl ihr convErr_toComparable
      intro v₁ v₂ _ _
      cases v₁ <;> cases v₂ <;> exact .inl rfl
    | add =>
      simp only [eval, evaluateWith]
      exact refines_bin11 ihl ihr convErr_toLong (fun v₁ v₂ h₁ h₂ => .of_eq (bin_add _ v₁ v₂ (wfl _ h₁) (wfr _ h₂)))
    | sub =>
      simp only [eval, evaluateWith]
      exact refines_bin11 ihl ihr convErr_toLong (fun v₁ v₂ h₁ h₂ => .of_eq (bin_sub _ v₁ v₂ (wfl _ h₁) (wfr _ h₂)))
    | mul =>
      simp only [eval, evaluateWith]
      exact refines_bin11 ihl ihr convErr_toLong (fun v₁ v₂ h₁ h₂ => .of_eq (bin_mul _ v₁ v₂ (wfl _ h₁) (wfr _ h₂)))
    | in_ =>
      simp only [eval, evaluateWith]
      exact refines_bin10 ihl ihr convErr_toEntity (fun v₁ v₂ _ _ => .of_eq (bin_in env v₁ v₂))
    | contains =>
      simp only [eval, evaluateWith]
      exact refines_bin10 ihl ihr convErr_toSet (fun v₁ v₂ _ _ => .of_eq (bin_contains _ v₁ v₂))
    | containsAll =>
      simp only [eval, evaluateWith]
      exact refines_bin11 ihl ihr convErr_toSet (fun v₁ v₂ _ _ => .of_eq (bin_containsAll _ v₁ v₂))
    | containsAny =>
      simp only [eval, evaluateWith]
      exact refines_bin11 ihl ihr convErr_toSet (fun v₁ v₂ _ _ => .of_eq (bin_containsAny _ v₁ v₂))
    | hasTag =>
      simp only [eval, evaluateWith]
      apply refines_bin11 ihl ihr convErr_toEntity
      intro v₁ v₂ _ _
      cases v₁ <;> cases v₂ <;> exact .inl rfl
    | getTag =>
      simp only [eval, evaluateWith, ebind_bind]
      apply refines_bind ihl
      intro v₁ hv₁
      cases v₁ <;> try exact refines_err_bind (.inl rfl) (fun v₂ => ⟨.type, by cases v₂ <;> rfl⟩)
      rename_i t i
      by_cases hz : ((t, i) == (("", "") : UID)) = true
      · show Refines (if ((t, i) == (("", "") : UID)) = true then _ else _) _
        rw [if_pos hz]
        apply refines_err_bind (.inr rfl)
        intro v₂
        cases v₂ <;> try exact ⟨.type, rfl⟩
        exact ⟨.unspecified, by simp only [apply₂, Spec.getTag, zeroUID, hz, if_true]⟩
      · show Refines (if ((t, i) == (("", "") : UID)) = true then _ else _) _
        rw [if_neg hz]
        apply refines_bind ihr
        intro v₂ _
        cases v₂ <;> try exact .inl rfl
        apply Refines.of_eq
        simp only [apply₂, Spec.getTag, zeroUID, hz]
        rfl
  | .ite c t e, env, hwf, hn => by
    simp only [Expr.All] at hn
    have ihc := eval_refines D c env hwf hn.2.1
    have iht := eval_refines D t env hwf hn.2.2.1
    have ihe := eval_refines D e env hwf hn.2.2.2
    simp only [eval, evaluateWith, ebind_bind]
    apply refines_bind ihc
    intro v hv
    cases v <;> try exact .inl rfl
    rename_i b
    clear hv
    cases b
    · exact ihe
    · exact iht
  | .access e a, env, hwf, hn => by
    simp only [Expr.All] at hn
    have ih := eval_refines D e env hwf hn.2
    simp only [eval, evaluateWith]
    apply refines_bind ih
    intro v _
    cases v <;> exact .inl rfl
  | .has e a, env, hwf, hn => by
    simp only [Expr.All] at hn
    have ih := eval_refines D e env hwf hn.2
    simp only [eval, evaluateWith]
    apply refines_bind ih
    intro v _
    cases v <;> exact .inl rfl
  | .like e p, env, hwf, hn => by
    simp only [Expr.All] at hn
    have ih := eval_refines D e env hwf hn.2
    have hp : WFPattern p := hn.1.2.1
    simp only [eval, evaluateWith]
    exact refines_un ih (fun v _ => .of_eq (un_like p hp v))
  | .is e ty, env, hwf, hn => by
    simp only [Expr.All] at hn
    have ih := eval_refines D e env hwf hn.2
    simp only [eval, evaluateWith]
    exact refines_un ih (fun v _ => .of_eq (un_is ty v))
  | .isIn e ty r, env, hwf, hn => by
    simp only [Expr.All] at hn
    have ihe := eval_refines D e env hwf hn.2.1
    have ihr := eval_refines D r env hwf hn.2.2
    simp only [eval, evaluateWith, ebind_bind]
    apply refines_bind ihe
    intro v hv
    cases v <;> try exact .inl rfl
    rename_i t i
    have key : ∀ v₂, (apply₂ env.entities .in_ (.entity t i) v₂ >>= fun x => asBool x >>= fun b' => (.ok (.bool b') : Res)) =
        doIn env (t, i) v₂ := fun v₂ => by
      rw [← doIn_eq env (t, i) v₂]
      exact asBool_roundtrip (fun v h => doIn_ok_bool h)
    have hab : ∀ b, asBool (.bool b) = .ok b := fun _ => rfl
    have hte : toEntity (.entity t i) = .ok (t, i) := rfl
    have his : applyIs ty (.entity t i) = .ok (.bool (t == ty)) := rfl
    by_cases ht : t = ty
    · subst ht
      simp only [hte, his, hab, ok_bind, bne_self_eq_false, BEq.rfl, Bool.false_eq_true, if_false, Bool.not_true, key]
      exact refines_bind ihr (fun _ _ => .inl rfl)
    · have h1 : (t != ty) = true := by simpa using ht
      have h2 : (t == ty) = false := by simpa using ht
      simp only [hte, his, hab, ok_bind, h1, h2, if_true, Bool.not_false]
      exact .inl rfl
  | .set es, env, hwf, hn => by
    simp only [Expr.All] at hn
    have ih := evalList_refines D es env hwf hn.2
    simp only [eval, evaluateWith]
    exact refines_bind ih (fun _ _ => .inl rfl)
  | .record kes, env, hwf, hn => by
    simp only [Expr.All] at hn
    have ih := evalKVs_refines D kes env hwf hn.2
    rw [eval_recordLit, evaluate_recordLit]
    exact refines_bind (evalKVs_refines_of D env _ (fun ke h => ih ke (canonKVs_subset kes ke h))) (fun _ _ => .inl rfl)
  | .call fn args, env, hwf, hn => by
    simp only [Expr.All] at hn
    simp only [eval, evaluateWith]
    by_cases hpe : (fn == partialErrorName && args.length == 1) = true
    · have hpe' : (fn == Spec.partialErrorName && args.length == 1) = true := hpe
      rw [if_pos hpe, if_pos hpe']
      have hlen : args.length = 1 := by
        simp only [Bool.and_eq_true, beq_iff_eq] at hpe; exact hpe.2
      have ihT := evalTyped_refines D args [.str] env hwf hn.2
      cases hs : evaluateList D args env with
      | error k =>
        rw [hs] at ihT; simp only [RefinesT] at ihT
        rcases ihT with h | h | h <;> rw [h]
        · exact .inl rfl
        · exact .inr ⟨⟨k, rfl⟩, .inl rfl⟩
        · exact .inr ⟨⟨k, rfl⟩, .inr rfl⟩
      | ok vs =>
        have hl := evaluateList_length args vs hs
        obtain ⟨a, rfl⟩ := len1 (hl.trans hlen)
        rw [hs] at ihT; simp only [RefinesT] at ihT
        rcases ihT with ⟨h1, h2⟩ | ⟨h1, h2⟩
        · rw [h2]
          cases a <;> simp [kindsOK, checkKind] at h1
          exact .inl rfl
        · rw [h2]
          cases a <;> first | exact .inl rfl | simp [kindsOK, checkKind] at h1
    · have hpe' : ¬ (fn == Spec.partialErrorName && args.length == 1) = true := hpe
      rw [if_neg hpe, if_neg hpe']
      cases hof : ExtFun.ofName? fn with
      | none => rw [extLookup_none hof]; exact .inl rfl
      | some f =>
        have hfn := ofName?_some hof
        subst hfn
        obtain ⟨m, hm⟩ := extLookup_name f
        rw [hm]
        simp only
        by_cases har : (f.arity != args.length) = true
        · rw [if_pos har, if_pos har]; exact .inl rfl
        · rw [if_neg har, if_neg har]
          have hlen : args.length = f.arity := by
            simp only [bne_iff_ne, ne_eq, Decidable.not_not] at har; exact har.symm
          have ihT := evalTyped_refines D args (extSig f.name) env hwf hn.2
          cases hs : evaluateList D args env with
          | error k =>
            rw [hs] at ihT; simp only [RefinesT] at ihT
            rcases ihT with h | h | h <;> rw [h]
            · exact .inl rfl
            · exact .inr ⟨⟨k, rfl⟩, .inl rfl⟩
            · exact .inr ⟨⟨k, rfl⟩, .inr rfl⟩
          | ok vs =>
            have hl := (evaluateList_length args vs hs).trans hlen
            rw [hs] at ihT; simp only [RefinesT] at ihT
            rcases ihT with ⟨h1, h2⟩ | ⟨h1, h2⟩
            · rw [h2]
              apply Refines.of_eq
              show callExt f.name vs = call D f vs
              apply callExt_eq_call D f vs hl h1 (evalTyped_wf args _ env vs hwf (nodeOK_litsL hn.2) h2)
              intro t hvs
              subst hvs
              have hal : args.length = 1 := (evaluateList_length args _ hs).symm
              obtain ⟨a, rfl⟩ := List.length_eq_one_iff.mp hal
              simp only [evalTyped] at h2
              obtain ⟨v, hv, h2⟩ := bind_ok h2
              obtain ⟨_, _, h2⟩ := bind_ok h2
              obtain ⟨_, _, h2⟩ := bind_ok h2
              cases h2
              simp only [Expr.AllL] at hn
              have hin : InI64 t := by simpa [Value.WF] using eval_wf a env _ hwf (nodeOK_lits hn.2.1) hv
              have hd := hn.1.2.2
              simp only [dateOK] at hd
              have := hd t hv hin
              exact ⟨fun hf => this.1 (by rw [hf]; rfl), fun hf => this.2 (by rw [hf]; rfl)⟩
            · rw [h2]
              show Refines (.error .type) (call D f vs)
              rw [call_type_of_not_kinds D f vs hl h1]; exact .inl rfl
theorem evalList_refines (D : DateFns) : ∀ (es : List Expr) (env : Env), env.WF → Expr.AllL (nodeOK D env) es →
    Refines (evalList es env) (evaluateList D es env)
  | [], _, _, _ => .inl rfl
  | e :: es, env, hwf, hn => by
    simp only [Expr.AllL] at hn
    simp only [evalList, evaluateList]
    apply refines_bind (eval_refines D e env hwf hn.1)
    intro v _
    exact refines_bind (evalList_refines D es env hwf hn.2) (fun _ _ => .inl rfl)
theorem evalKVs_refines (D : DateFns) : ∀ (kes : List (String × Expr)) (env : Env), env.WF →
    Expr.AllKV (nodeOK D env) kes → ∀ ke ∈ kes, Refines (eval ke.2 env) (evaluateWith D ke.2 env)
  | [], _, _, _ => by intro ke h; cases h
  | (k, e) :: kes, env, hwf, hn => by
    simp only [Expr.AllKV] at hn
    intro ke h
    rcases List.mem_cons.mp h with h | h
    · rw [h]; exact eval_refines D e env hwf hn.1
    · exact evalKVs_refines D kes env hwf hn.2 ke h
theorem evalTyped_refines (D : DateFns) : ∀ (es : List Expr) (ks : List Kind) (env : Env), env.WF →
    Expr.AllL (nodeOK D env) es → RefinesT ks (evalTyped es ks env) (evaluateList D es env)
  | [], ks, _, _, _ => by
    simp [evalTyped, evaluateList, RefinesT, kindsOK]
  | e :: es, ks, env, hwf, hn => by
    simp only [Expr.AllL] at hn
    have ih1 := eval_refines D e env hwf hn.1
    have ih2 := evalTyped_refines D es ks.tail env hwf hn.2
    simp only [evalTyped, evaluateList]
    rcases ih1 with heq | ⟨⟨k, hk⟩, ht | hu⟩
    · rw [heq]
      cases hs : evaluateWith D e env with
      | error k => exact .inl rfl
      | ok v =>
        cases hck : checkKind (ks.headD .any) v with
        | error e' =>
          have := checkKind_err hck; subst this
          cases hsl : evaluateList D es env with
          | error k =>
            simp only [bind, Except.bind, hck, RefinesT]
            simp
          | ok vs =>
            simp only [bind, Except.bind, hck, RefinesT, kindsOK, Bool.false_and]
            simp
        | ok u =>
          cases hsl : evaluateList D es env with
          | error k =>
            rw [hsl] at ih2; simp only [RefinesT] at ih2
            simp only [bind, Except.bind, hck, RefinesT]
            rcases ih2 with h | h | h <;> rw [h]
            · exact .inl rfl
            · exact .inr (.inl rfl)
            · exact .inr (.inr rfl)
          | ok vs =>
            rw [hsl] at ih2; simp only [RefinesT] at ih2
            simp only [bind, Except.bind, hck, RefinesT, kindsOK, Bool.true_and]
            rcases ih2 with ⟨h1, h2⟩ | ⟨h1, h2⟩ <;> rw [h2]
            · exact .inl ⟨h1, rfl⟩
            · exact .inr ⟨h1, rfl⟩
    · rw [hk, ht]; exact .inr (.inl rfl)
    · rw [hk, hu]; exact .inr (.inr rfl)
end

end C01L
end CedarGo
