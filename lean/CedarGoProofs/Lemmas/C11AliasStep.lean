/-
  One operation of a history is a `Step` (C11 immutability; model CedarGo/Model/Alias.lean): for every
  operation of the alphabet, under the discipline of the unchanged tree (`goDisc`: constructors copy,
  accessors hand out copies, decoders give the receiver fresh storage).
-/
import CedarGoProofs.Lemmas.C11Alias
namespace CedarGo.Alias

theorem ownedCont_spec {s : State} {j : Nat} {r : Ref} {c : Cont} (h : s.ownedCont j = some (r, c)) :
    r ∈ s.owned ∧ s.heap[r.addr]? = some c := by
  unfold State.ownedCont at h
  split at h
  · cases h
  · rename_i r' hr'
    cases hc : s.heap[r'.addr]? with
    | none => simp [hc] at h
    | some c' =>
      simp [hc] at h
      obtain ⟨rfl, rfl⟩ := h
      exact ⟨List.mem_of_getElem? hr', hc⟩

theorem liveCont_spec {s : State} {i : Nat} {k : Kind} {a : Nat} {c : Cont} (h : s.liveCont i = some (k, a, c)) :
    VObj.ref k (some a) ∈ s.live ∧ s.heap[a]? = some c := by
  unfold State.liveCont at h
  split at h
  · rename_i k' a' hl
    cases hc : s.heap[a']? with
    | none => simp [hc] at h
    | some c' =>
      simp [hc] at h
      obtain ⟨rfl, rfl, rfl⟩ := h
      exact ⟨List.mem_of_getElem? hl, hc⟩
  · cases h

/-! ### where the elements of the containers built by the operations come from -/

theorem mem_mapSet {k : String} {x y : VObj} {kvs : List (String × VObj)}
    (h : y ∈ (mapSet k x kvs).map (·.2)) : y = x ∨ y ∈ kvs.map (·.2) := by
  induction kvs with
  | nil => simp [mapSet] at h; exact .inl h
  | cons kv rest ih =>
    obtain ⟨k', z⟩ := kv
    simp only [mapSet] at h
    split at h
    · simp only [List.map_cons, List.mem_cons] at h ⊢
      rcases h with h | h
      · exact .inl h
      · exact .inr (.inr h)
    · simp only [List.map_cons, List.mem_cons] at h ⊢
      rcases h with h | h
      · exact .inr (.inl h)
      · rcases ih h with h | h
        · exact .inl h
        · exact .inr (.inr h)

theorem mem_mapDel {k : String} {y : VObj} {kvs : List (String × VObj)}
    (h : y ∈ (mapDel k kvs).map (·.2)) : y ∈ kvs.map (·.2) := by
  simp only [mapDel, List.mem_map, List.mem_filter] at h ⊢
  obtain ⟨kv, ⟨hkv, _⟩, e⟩ := h
  exact ⟨kv, hkv, e⟩

theorem mem_mapGet {k : String} {x : VObj} {kvs : List (String × VObj)} (h : mapGet k kvs = some x) :
    x ∈ kvs.map (·.2) := by
  induction kvs with
  | nil => simp [mapGet] at h
  | cons kv rest ih =>
    obtain ⟨k', z⟩ := kv
    simp only [mapGet] at h
    split at h
    · simp at h; simp [h]
    · simp [ih h]

theorem mem_mapOf {y : VObj} (kvs : List (String × VObj)) :
    ∀ acc : List (String × VObj), y ∈ (kvs.foldl (fun m kv => mapSet kv.1 kv.2 m) acc).map (·.2) →
      y ∈ acc.map (·.2) ∨ y ∈ kvs.map (·.2) := by
  induction kvs with
  | nil => intro acc h; exact .inl h
  | cons kv rest ih =>
    intro acc h
    simp only [List.foldl_cons] at h
    rcases ih _ h with h | h
    · rcases mem_mapSet h with h | h
      · right; simp [h]
      · exact .inl h
    · right; simp only [List.map_cons, List.mem_cons]; exact .inr h

theorem mem_dedupO {eq : VObj → VObj → Bool} {y : VObj} {xs : List VObj} (h : y ∈ dedupO eq xs) : y ∈ xs := by
  induction xs with
  | nil => simp [dedupO] at h
  | cons x rest ih =>
    simp only [dedupO, List.mem_cons, List.mem_filter] at h ⊢
    rcases h with h | ⟨h, _⟩
    · exact .inl h
    · exact .inr (ih h)

theorem mem_fill {n : Nat} {x y : VObj} {xs : List VObj} (h : y ∈ fill n x xs) : y = x ∨ y ∈ xs := by
  simp only [fill, List.mem_append, List.mem_replicate] at h
  rcases h with ⟨_, h⟩ | h
  · exact .inl h
  · exact .inr (List.mem_of_mem_drop h)

theorem known_srcs {s : State} {xs : List Src} {y : VObj} (h : y ∈ s.srcs xs) : Known s y := by
  simp only [State.srcs, List.mem_filterMap] at h
  obtain ⟨x, _, hx⟩ := h
  exact .of_src hx

theorem known_srcKVs {s : State} {kvs : List (String × Src)} {y : VObj} (h : y ∈ (s.srcKVs kvs).map (·.2)) :
    Known s y := by
  simp only [State.srcKVs, List.mem_map, List.mem_filterMap] at h
  obtain ⟨kv, ⟨kv', _, hkv'⟩, rfl⟩ := h
  cases hs : s.src kv'.2 with
  | none => simp [hs] at hkv'
  | some v =>
    simp [hs] at hkv'
    subst hkv'
    exact .of_src hs

/-! ### the step theorem -/

/-- every operation, under the discipline of the unchanged tree, is a `Step` -/
theorem step_isStep (s : State) (hs : Inv s) (op : Op) : Step s (step goDisc s op) := by
  cases op with
  | mkSlice xs =>
    exact step_allocOwned hs _ (fun x hx => known_srcs hx)
  | mkMap kvs =>
    apply step_allocOwned hs
    intro x hx
    simp only [Cont.elems, mapOf] at hx
    rcases mem_mapOf _ _ hx with h | h
    · simp at h
    · exact known_srcKVs h
  | copyCont j =>
    simp only [step]
    split
    · rename_i r xs h
      obtain ⟨_, hc⟩ := ownedCont_spec h
      exact step_allocOwned hs _ (fun x hx => .of_heap hc (List.mem_of_mem_take hx))
    · rename_i r kvs h
      obtain ⟨_, hc⟩ := ownedCont_spec h
      exact step_allocOwned hs _ (fun x hx => .of_heap hc hx)
    · exact .refl hs
  | newRecord j =>
    cases j with
    | none => exact (Step.refl hs).keep _ (by simp; exact .nil s _)
    | some j =>
      simp only [step]
      split
      · rename_i r kvs h
        obtain ⟨_, hc⟩ := ownedCont_spec h
        simp only [goDisc, Mode.aliases, Bool.false_eq_true, if_false]
        exact step_allocInternal hs _ _ (fun x hx => .of_heap hc hx)
      · exact .refl hs
  | newSet j =>
    cases j with
    | none => exact (Step.refl hs).keep _ (by simp; exact .nil s _)
    | some j =>
      simp only [step]
      split
      · rename_i r xs h
        obtain ⟨_, hc⟩ := ownedCont_spec h
        simp only [goDisc, Mode.aliases, Bool.false_eq_true, if_false]
        exact step_allocInternal hs _ _ (fun x hx => .of_heap hc (List.mem_of_mem_take (mem_dedupO hx)))
      · exact .refl hs
  | newUIDSet j =>
    cases j with
    | none => exact step_allocInternal hs _ _ (by simp [Cont.elems])
    | some j =>
      simp only [step]
      split
      · rename_i r xs h
        obtain ⟨_, hc⟩ := ownedCont_spec h
        simp only [goDisc, Mode.aliases, Bool.false_eq_true, if_false]
        exact step_allocInternal hs _ _ (fun x hx => .of_heap hc (List.mem_of_mem_take (mem_dedupO hx)))
      · exact .refl hs
  | recordMap i =>
    simp only [step]
    split
    · rename_i a kvs h
      obtain ⟨_, hc⟩ := liveCont_spec h
      simp only [goDisc, Mode.aliases, Bool.false_eq_true, if_false]
      exact step_allocOwned hs _ (fun x hx => .of_heap hc hx)
    · exact .refl hs
  | recordGet i k =>
    simp only [step]
    split
    · rename_i a kvs h
      obtain ⟨_, hc⟩ := liveCont_spec h
      split
      · rename_i x hx
        exact (Step.refl hs).keep _ (by simp; exact .of_heap hc (mem_mapGet hx))
      · exact .refl hs
    · exact .refl hs
  | recordAll i =>
    simp only [step]
    split
    · rename_i a kvs h
      obtain ⟨_, hc⟩ := liveCont_spec h
      exact (Step.refl hs).keep _ (fun x hx => .of_heap hc hx)
    · exact .refl hs
  | setSlice i =>
    simp only [step]
    split
    · rename_i a xs h
      obtain ⟨_, hc⟩ := liveCont_spec h
      simp only [goDisc, Mode.aliases, Bool.false_eq_true, if_false]
      split
      · exact .refl hs
      · exact step_allocOwned hs _ (fun x hx => .of_heap hc hx)
    · rename_i a xs h
      obtain ⟨_, hc⟩ := liveCont_spec h
      simp only [goDisc, Mode.aliases, Bool.false_eq_true, if_false]
      split
      · exact .refl hs
      · exact step_allocOwned hs _ (fun x hx => .of_heap hc hx)
    · exact .refl hs
  | setAll i =>
    simp only [step]
    split
    · rename_i a xs h
      obtain ⟨_, hc⟩ := liveCont_spec h
      exact (Step.refl hs).keep _ (fun x hx => .of_heap hc hx)
    · rename_i a xs h
      obtain ⟨_, hc⟩ := liveCont_spec h
      exact (Step.refl hs).keep _ (fun x hx => .of_heap hc hx)
    · exact .refl hs
  | unmarshalRecord i kvs =>
    simp only [step]
    split
    · split
      · exact (Step.refl hs).keep _ (by simp; exact .nil s _)
      · simp only [State.decodeInto, goDisc, Mode.aliases]
        apply step_allocInternal hs
        intro x hx
        simp only [Cont.elems, mapOf] at hx
        rcases mem_mapOf _ _ hx with h | h
        · simp at h
        · simp only [List.map_map, List.mem_map] at h
          obtain ⟨kv, _, rfl⟩ := h
          exact .scalar s _
    · exact .refl hs
  | unmarshalSet i xs =>
    have hk : ∀ x ∈ dedupO (eqO s.heap) (xs.map VObj.scalar), Known s x := by
      intro x hx
      have := mem_dedupO hx
      simp only [List.mem_map] at this
      obtain ⟨v, _, rfl⟩ := this
      exact .scalar s v
    simp only [step]
    split
    · simp only [State.decodeInto, goDisc, Mode.aliases]
      exact step_allocInternal hs _ _ hk
    · simp only [State.decodeInto, goDisc, Mode.aliases]
      exact step_allocInternal hs _ _ hk
    · exact .refl hs
  | setKey j k x =>
    simp only [step]
    split
    · rename_i r kvs v h hv
      obtain ⟨hr, hc⟩ := ownedCont_spec h
      apply step_write hs r hr
      intro y hy
      rcases mem_mapSet hy with h | h
      · subst h; exact .of_src hv
      · exact .of_heap hc h
    · exact .refl hs
  | delKey j k =>
    simp only [step]
    split
    · rename_i r kvs h
      obtain ⟨hr, hc⟩ := ownedCont_spec h
      exact step_write hs r hr _ (fun y hy => .of_heap hc (mem_mapDel hy))
    · exact .refl hs
  | clearMap j =>
    simp only [step]
    split
    · rename_i r kvs h
      obtain ⟨hr, _⟩ := ownedCont_spec h
      exact step_write hs r hr _ (by simp [Cont.elems])
    · exact .refl hs
  | setElem j i x =>
    simp only [step]
    split
    · rename_i r xs v h hv
      obtain ⟨hr, hc⟩ := ownedCont_spec h
      split
      · apply step_write hs r hr
        intro y hy
        rcases List.mem_or_eq_of_mem_set hy with h | h
        · exact .of_heap hc h
        · subst h; exact .of_src hv
      · exact .refl hs
    · exact .refl hs
  | fillSlice j x =>
    simp only [step]
    split
    · rename_i r xs v h hv
      obtain ⟨hr, hc⟩ := ownedCont_spec h
      apply step_write hs r hr
      intro y hy
      rcases mem_fill hy with h | h
      · subst h; exact .of_src hv
      · exact .of_heap hc h
    · exact .refl hs
  | appendElem j x =>
    simp only [step]
    split
    · rename_i r xs v h hv
      obtain ⟨hr, hc⟩ := ownedCont_spec h
      split
      · refine Step.own (step_write hs r hr _ ?_) _ r hr rfl
        intro y hy
        rcases List.mem_or_eq_of_mem_set hy with h | h
        · exact .of_heap hc h
        · subst h; exact .of_src hv
      · apply step_allocOwned hs
        intro y hy
        simp only [Cont.elems, List.mem_append, List.mem_singleton] at hy
        rcases hy with h | h
        · exact .of_heap hc (List.mem_of_mem_take h)
        · subst h; exact .of_src hv
    · exact .refl hs
  | reslice j n =>
    simp only [step]
    split
    · rename_i r xs h
      obtain ⟨hr, _⟩ := ownedCont_spec h
      split
      · exact (Step.refl hs).own _ r hr rfl
      · exact .refl hs
    · exact .refl hs
  | readElem j i =>
    simp only [step]
    split
    · rename_i r xs h
      obtain ⟨_, hc⟩ := ownedCont_spec h
      split
      · split
        · rename_i x hx
          exact (Step.refl hs).keep _ (by simp; exact .of_heap hc (List.mem_of_getElem? hx))
        · exact .refl hs
      · exact .refl hs
    · exact .refl hs
  | readKey j k =>
    simp only [step]
    split
    · rename_i r kvs h
      obtain ⟨_, hc⟩ := ownedCont_spec h
      split
      · rename_i x hx
        exact (Step.refl hs).keep _ (by simp; exact .of_heap hc (mem_mapGet hx))
      · exact .refl hs
    · exact .refl hs

end CedarGo.Alias
