/-
  C12 helper lemmas: IPv6 text form, part 1 — hex groups (`natHex` / `hexGroup`), the output loop of
  `netip.Addr.String` (`v6Emit`) as a list function (`joinHex pre ++ "::" ++ joinHex post`), and the field loop of
  `parseIPv6` (`v6Loop`) on such text.
-/
import CedarGoProofs.Lemmas.C12IP
namespace CedarGo.Scalars
open CedarGo

/-! ### hex digits -/

theorem hexVal_hexDigitChar : ∀ d, d < 16 → hexVal (hexDigitChar d) = some d := by decide
theorem hexDigitChar_ne : ∀ d, d < 16 → hexDigitChar d ≠ ':' ∧ hexDigitChar d ≠ '/' ∧ hexDigitChar d ≠ '.' ∧ hexDigitChar d ≠ '%' := by
  decide

theorem natHexF_fuel : ∀ (f g n : Nat), n < f → n < g → natHexF f n = natHexF g n := by
  intro f
  induction f with
  | zero => intro g n h; omega
  | succ f ih =>
    intro g n hf hg
    cases g with
    | zero => omega
    | succ g =>
      simp only [natHexF]
      split
      · rfl
      · rw [ih g (n / 16) (by omega) (by omega)]

theorem natHex_lt {n : Nat} (h : n < 16) : natHex n = [hexDigitChar n] := by
  simp [natHex, natHexF, h]

theorem natHex_ge {n : Nat} (h : 16 ≤ n) : natHex n = natHex (n / 16) ++ [hexDigitChar (n % 16)] := by
  have h' : ¬ n < 16 := by omega
  show natHexF (n + 1) n = natHexF (n / 16 + 1) (n / 16) ++ [hexDigitChar (n % 16)]
  rw [show natHexF (n + 1) n = (if n < 16 then [hexDigitChar n] else natHexF n (n / 16) ++ [hexDigitChar (n % 16)]) from rfl,
    if_neg h', natHexF_fuel n (n / 16 + 1) (n / 16) (by omega) (by omega)]

theorem natHex_induction {P : Nat → Prop} (base : ∀ n, n < 16 → P n)
    (step : ∀ n, 16 ≤ n → P (n / 16) → P n) : ∀ n, P n := by
  intro n
  induction n using Nat.strongRecOn with
  | _ n ih =>
    by_cases h : n < 16
    · exact base n h
    · exact step n (by omega) (ih (n / 16) (by omega))

/-- a character of a hex group or a group separator -/
def hexOrColon (c : Char) : Prop := (hexVal c).isSome = true ∨ c = ':'

theorem mem_natHex : ∀ n, ∀ x ∈ natHex n, (hexVal x).isSome = true := by
  apply natHex_induction
  · intro n h x hx
    rw [natHex_lt h] at hx
    simp only [List.mem_singleton] at hx
    subst hx; rw [hexVal_hexDigitChar n h]; rfl
  · intro n h ih x hx
    rw [natHex_ge h] at hx
    simp only [List.mem_append, List.mem_singleton] at hx
    rcases hx with hx | hx
    · exact ih x hx
    · subst hx; rw [hexVal_hexDigitChar _ (Nat.mod_lt _ (by omega))]; rfl

theorem natHex_ne_nil : ∀ n, natHex n ≠ [] := by
  apply natHex_induction
  · intro n h; rw [natHex_lt h]; simp
  · intro n h _; rw [natHex_ge h]; simp

theorem natHex_head (n : Nat) : ∃ c r, natHex n = c :: r ∧ (hexVal c).isSome = true := by
  cases h : natHex n with
  | nil => exact absurd h (natHex_ne_nil n)
  | cons c r => exact ⟨c, r, rfl, mem_natHex n c (by rw [h]; simp)⟩

theorem natHex_length_le : ∀ (k n : Nat), 0 < k → n < 16 ^ k → (natHex n).length ≤ k := by
  intro k
  induction k with
  | zero => intro n h; omega
  | succ k ih =>
    intro n _ hn
    by_cases h : n < 16
    · rw [natHex_lt h]; simp
    · rw [natHex_ge (by omega)]
      have hk : 0 < k := by
        rcases k with _ | k
        · simp at hn; omega
        · omega
      have : n / 16 < 16 ^ k := by
        rw [Nat.pow_succ] at hn; omega
      have := ih (n / 16) hk this
      simp; omega

/-- `hexGroup` reads the digits of `g` -/
theorem hexGroup_natHex : ∀ g, ∀ (T : List Char) (n acc : Nat), n + (natHex g).length ≤ 4 →
    hexGroup (natHex g ++ T) n acc = hexGroup T (n + (natHex g).length) (acc * 16 ^ (natHex g).length + g) := by
  apply natHex_induction
  · intro g h T n acc hl
    rw [natHex_lt h] at hl ⊢
    simp only [List.length_singleton] at hl
    have hn : ¬ n ≥ 4 := by omega
    simp [hexGroup, hexVal_hexDigitChar g h, hn]
  · intro g h ih T n acc hl
    rw [natHex_ge h] at hl ⊢
    simp only [List.length_append, List.length_singleton] at hl
    rw [List.append_assoc, ih _ n acc (by omega)]
    have hn : ¬ n + (natHex (g / 16)).length ≥ 4 := by omega
    simp only [List.singleton_append, hexGroup, hexVal_hexDigitChar _ (Nat.mod_lt g (by omega : 0 < 16)), hn, if_false,
      List.length_append, List.length_singleton]
    have e1 : n + (natHex (g / 16)).length + 1 = n + ((natHex (g / 16)).length + 1) := by omega
    have e2 : (acc * 16 ^ (natHex (g / 16)).length + g / 16) * 16 + g % 16 =
        acc * 16 ^ ((natHex (g / 16)).length + 1) + g := by
      rw [Nat.pow_succ, Nat.add_mul, Nat.mul_assoc]
      have := Nat.div_add_mod g 16
      omega
    rw [e1, e2]

theorem hexGroup_stop (T : List Char) (n acc : Nat) (hT : ∀ c r, T = c :: r → hexVal c = none) :
    hexGroup T n acc = some (n, acc, T) := by
  cases T with
  | nil => rfl
  | cons c r => simp [hexGroup, hT c r rfl]

theorem hexGroup_group (g : Nat) (hg : g < 65536) (T : List Char) (hT : ∀ c r, T = c :: r → hexVal c = none) :
    ∃ n, n ≠ 0 ∧ hexGroup (natHex g ++ T) 0 0 = some (n, g, T) := by
  have hl := natHex_length_le 4 g (by omega) (by simpa using hg)
  refine ⟨(natHex g).length, ?_, ?_⟩
  · have := natHex_ne_nil g
    cases h : natHex g with
    | nil => exact absurd h this
    | cons _ _ => simp
  · rw [hexGroup_natHex g T 0 0 (by omega), hexGroup_stop T _ _ hT]; simp

/-! ### the printed text as a list function -/

/-- `:g` for every group -/
def joinTail : List Nat → List Char
  | [] => []
  | g :: r => ':' :: (natHex g ++ joinTail r)

/-- groups separated by `:` -/
def joinHex : List Nat → List Char
  | [] => []
  | g :: r => natHex g ++ joinTail r

theorem joinHex_nil : joinHex [] = [] := rfl
theorem joinHex_cons (g : Nat) (r : List Nat) : joinHex (g :: r) = natHex g ++ joinTail r := rfl

theorem getD_take (gs : List Nat) (i zs : Nat) (h : i < zs) : (gs.take zs).getD i 0 = gs.getD i 0 := by
  simp [List.getD_eq_getElem?_getD, h]

theorem getD_cons_drop (gs : List Nat) (i : Nat) (h : i < gs.length) : gs.drop i = gs.getD i 0 :: gs.drop (i + 1) := by
  rw [List.drop_eq_getElem_cons h]
  simp [List.getD_eq_getElem?_getD, h]

theorem v6Emit_step (gs : List Nat) (zs ze f i : Nat) : v6Emit gs zs ze (f + 1) i =
    if i ≥ 8 then [] else
    if i == zs then
      ':' :: ':' :: (if ze ≥ 8 then [] else natHex (gs.getD ze 0) ++ v6Emit gs zs ze f (ze + 1))
    else
      (if i > 0 then [':'] else []) ++ natHex (gs.getD i 0) ++ v6Emit gs zs ze f (i + 1) := rfl

/-- the output loop past the compressed run (or without one): `:g` for each remaining group -/
theorem v6Emit_tail (gs : List Nat) (zs ze : Nat) (hl : gs.length = 8) : ∀ (f i : Nat), 0 < i → zs < i → 8 ≤ f + i →
    v6Emit gs zs ze f i = joinTail (gs.drop i) := by
  intro f
  induction f with
  | zero =>
    intro i _ _ hf
    rw [List.drop_eq_nil_of_le (by omega)]; rfl
  | succ f ih =>
    intro i h0 hz hf
    by_cases h8 : i ≥ 8
    · rw [List.drop_eq_nil_of_le (by omega)]; simp [v6Emit, h8, joinTail]
    · have hne : (i == zs) = false := by simp; omega
      rw [getD_cons_drop gs i (by omega)]
      simp only [v6Emit_step, h8, if_false, hne, Bool.false_eq_true, h0, if_true, joinTail]
      rw [ih (i + 1) (by omega) (by omega) (by omega)]
      simp

/-- without compression -/
theorem v6Emit_plain (gs : List Nat) (hl : gs.length = 8) : v6Emit gs 255 255 9 0 = joinHex gs := by
  have key : ∀ (f i : Nat), 0 < i → 8 ≤ f + i → v6Emit gs 255 255 f i = joinTail (gs.drop i) := by
    intro f
    induction f with
    | zero => intro i _ hf; rw [List.drop_eq_nil_of_le (by omega)]; rfl
    | succ f ih =>
      intro i h0 hf
      by_cases h8 : i ≥ 8
      · rw [List.drop_eq_nil_of_le (by omega)]; simp [v6Emit, h8, joinTail]
      · have hne : (i == 255) = false := by simp; omega
        rw [getD_cons_drop gs i (by omega)]
        simp only [v6Emit_step, h8, if_false, hne, Bool.false_eq_true, h0, if_true, joinTail]
        rw [ih (i + 1) (by omega) (by omega)]
        simp
  have h0 := getD_cons_drop gs 0 (by omega)
  rw [List.drop_zero] at h0
  rw [congrArg joinHex h0, show (9 : Nat) = 8 + 1 from rfl, v6Emit_step]
  have hne : ((0 : Nat) == 255) = false := by decide
  simp only [show ¬ (0 ≥ 8) by omega, if_false, hne, Bool.false_eq_true, Nat.lt_irrefl, List.nil_append, joinHex]
  rw [key 8 1 (by omega) (by omega)]

/-- text after the `::` -/
theorem v6Emit_post (gs : List Nat) (zs ze : Nat) (hl : gs.length = 8) (hz : zs < ze) (f : Nat) (hf : 8 ≤ f + (ze + 1)) :
    (if ze ≥ 8 then [] else natHex (gs.getD ze 0) ++ v6Emit gs zs ze f (ze + 1)) = joinHex (gs.drop ze) := by
  by_cases h8 : ze ≥ 8
  · rw [if_pos h8, List.drop_eq_nil_of_le (by omega)]; rfl
  · rw [if_neg h8, getD_cons_drop gs ze (by omega), v6Emit_tail gs zs ze hl f (ze + 1) (by omega) (by omega) hf]
    rfl

/-- with a compressed run `[zs, ze)`, from index `i ≤ zs` on -/
theorem v6Emit_pre (gs : List Nat) (zs ze : Nat) (hl : gs.length = 8) (hz : zs < ze) (hz8 : zs < 8) :
    ∀ (f i : Nat), 0 < i → i ≤ zs → 9 ≤ f + i →
    v6Emit gs zs ze f i = joinTail ((gs.take zs).drop i) ++ ':' :: ':' :: joinHex (gs.drop ze) := by
  intro f
  induction f with
  | zero => intro i _ _ hf; omega
  | succ f ih =>
    intro i h0 hi hf
    have h8 : ¬ i ≥ 8 := by omega
    by_cases he : i = zs
    · subst he
      simp only [v6Emit_step, h8, if_false, beq_self_eq_true, if_true]
      rw [v6Emit_post gs i ze hl hz f (by omega)]
      rw [List.drop_eq_nil_of_le (List.length_take_le _ _)]
      rfl
    · have hne : (i == zs) = false := by simpa using he
      have hd : (gs.take zs).drop i = gs.getD i 0 :: (gs.take zs).drop (i + 1) := by
        have := getD_cons_drop (gs.take zs) i (by simp; omega)
        rw [this, getD_take gs i zs (by omega)]
      rw [hd]
      simp only [v6Emit_step, h8, if_false, hne, Bool.false_eq_true, h0, if_true, joinTail]
      rw [ih (i + 1) (by omega) (by omega) (by omega)]
      simp

theorem v6Emit_compressed (gs : List Nat) (zs ze : Nat) (hl : gs.length = 8) (hz : zs < ze) (hz8 : zs < 8) :
    v6Emit gs zs ze 9 0 = joinHex (gs.take zs) ++ ':' :: ':' :: joinHex (gs.drop ze) := by
  by_cases h0 : zs = 0
  · subst h0
    rw [show (9 : Nat) = 8 + 1 from rfl, v6Emit_step]
    simp only [show ¬ (0 ≥ 8) by omega, if_false, beq_self_eq_true, if_true, List.take_zero, joinHex_nil, List.nil_append]
    rw [v6Emit_post gs 0 ze hl hz 8 (by omega)]
  · have hne : ((0 : Nat) == zs) = false := by simp; omega
    have hd : gs.take zs = gs.getD 0 0 :: (gs.take zs).drop 1 := by
      have := getD_cons_drop (gs.take zs) 0 (by simp; omega)
      rw [List.drop_zero] at this
      rw [this, getD_take gs 0 zs (by omega)]
      simp
    rw [hd, show (9 : Nat) = 8 + 1 from rfl, v6Emit_step]
    simp only [show ¬ (0 ≥ 8) by omega, hne, joinHex_cons, Bool.false_eq_true, if_false, Nat.lt_irrefl, List.nil_append]
    rw [v6Emit_pre gs zs ze hl hz hz8 8 1 (by omega) (by omega) (by omega)]
    simp

/-! ### the field loop of `parseIPv6` on printed groups -/

theorem hexVal_colon : hexVal ':' = none := by decide

/-- last group of the text -/
theorem v6Loop_end (f : Nat) (g : Nat) (hg : g < 65536) (acc : List Nat) (ell : Option Nat) (ha : acc.length < 8) :
    v6Loop (f + 1) (natHex g) acc ell = some (acc ++ [g], ell) := by
  obtain ⟨n, hn, h⟩ := hexGroup_group g hg [] (by intro c r e; cases e)
  rw [List.append_nil] at h
  have hn' : (n == 0) = false := by simpa using hn
  simp only [v6Loop, show ¬ acc.length ≥ 8 by omega, if_false, h, hn', Bool.false_eq_true]

/-- a group followed by `:` and the first character of the next group -/
theorem v6Loop_colon (f : Nat) (g : Nat) (hg : g < 65536) (acc : List Nat) (ell : Option Nat) (ha : acc.length < 8)
    (c : Char) (r : List Char) (hc : c ≠ ':') :
    v6Loop (f + 1) (natHex g ++ ':' :: c :: r) acc ell = v6Loop f (c :: r) (acc ++ [g]) ell := by
  obtain ⟨n, hn, h⟩ := hexGroup_group g hg (':' :: c :: r) (by intro c' r' e; cases e; exact hexVal_colon)
  have hn' : (n == 0) = false := by simpa using hn
  simp only [v6Loop, show ¬ acc.length ≥ 8 by omega, if_false, h, hn', Bool.false_eq_true]
  split
  · rename_i e; cases e
  · rename_i e; cases e
  · rename_i e; cases e; exact absurd rfl hc
  · rename_i e; cases e; rfl
  · rename_i h1 h2 h3 h4; exact absurd rfl (h4 _)

/-- a group followed by `::` at the end of the text -/
theorem v6Loop_dcolon_end (f : Nat) (g : Nat) (hg : g < 65536) (acc : List Nat) (ha : acc.length < 8) :
    v6Loop (f + 1) (natHex g ++ [':', ':']) acc none = some (acc ++ [g], some (acc.length + 1)) := by
  obtain ⟨n, hn, h⟩ := hexGroup_group g hg [':', ':'] (by intro c' r' e; cases e; exact hexVal_colon)
  have hn' : (n == 0) = false := by simpa using hn
  simp [v6Loop, show ¬ acc.length ≥ 8 by omega, h, hn']

/-- a group followed by `::` and more text -/
theorem v6Loop_dcolon (f : Nat) (g : Nat) (hg : g < 65536) (acc : List Nat) (ha : acc.length < 8)
    (c : Char) (r : List Char) :
    v6Loop (f + 1) (natHex g ++ ':' :: ':' :: c :: r) acc none = v6Loop f (c :: r) (acc ++ [g]) (some (acc.length + 1)) := by
  obtain ⟨n, hn, h⟩ := hexGroup_group g hg (':' :: ':' :: c :: r) (by intro c' r' e; cases e; exact hexVal_colon)
  have hn' : (n == 0) = false := by simpa using hn
  simp [v6Loop, show ¬ acc.length ≥ 8 by omega, h, hn']

theorem natHex_cons (g : Nat) : ∃ c r, natHex g = c :: r ∧ c ≠ ':' := by
  obtain ⟨c, r, e, hc⟩ := natHex_head g
  exact ⟨c, r, e, by intro e'; subst e'; rw [hexVal_colon] at hc; cases hc⟩

/-- groups `g :: r` up to the end of the text -/
theorem v6Loop_groups : ∀ (r : List Nat) (g : Nat) (f : Nat) (acc : List Nat) (ell : Option Nat),
    (∀ x ∈ g :: r, x < 65536) → acc.length + r.length < 8 → r.length < f →
    v6Loop f (natHex g ++ joinTail r) acc ell = some (acc ++ g :: r, ell)
  | [], g, f, acc, ell, hx, ha, hf => by
    obtain ⟨f, rfl⟩ : ∃ f', f = f' + 1 := ⟨f - 1, by simp at hf; omega⟩
    simp only [joinTail, List.append_nil]
    exact v6Loop_end f g (hx g (by simp)) acc ell (by simpa using ha)
  | g' :: r, g, f, acc, ell, hx, ha, hf => by
    obtain ⟨f, rfl⟩ : ∃ f', f = f' + 1 := ⟨f - 1, by simp at hf; omega⟩
    simp only [List.length_cons] at ha hf
    obtain ⟨c, cs, e, hc⟩ := natHex_cons g'
    have ih := v6Loop_groups r g' f (acc ++ [g]) ell (fun x hx' => hx x (by simp at hx' ⊢; exact Or.inr hx'))
      (by simp; omega) (by omega)
    rw [e] at ih
    simp only [joinTail, e, List.cons_append]
    simp only [List.cons_append] at ih
    rw [v6Loop_colon f g (hx g (by simp)) acc ell (by omega) c _ hc, ih]
    simp

/-- groups `g :: r`, then `::`, then the text `U` -/
theorem v6Loop_groups_dcolon : ∀ (r : List Nat) (g : Nat) (f : Nat) (acc : List Nat) (U : List Char),
    (∀ x ∈ g :: r, x < 65536) → acc.length + r.length < 8 →
    v6Loop (f + r.length + 1) (natHex g ++ joinTail r ++ ':' :: ':' :: U) acc none =
      if U.isEmpty then some (acc ++ g :: r, some (acc.length + r.length + 1))
      else v6Loop f U (acc ++ g :: r) (some (acc.length + r.length + 1))
  | [], g, f, acc, U, hx, ha => by
    simp only [joinTail, List.append_nil, List.length_nil, Nat.add_zero]
    cases U with
    | nil => simpa using v6Loop_dcolon_end f g (hx g (by simp)) acc (by simpa using ha)
    | cons c r => simpa using v6Loop_dcolon f g (hx g (by simp)) acc (by simpa using ha) c r
  | g' :: r, g, f, acc, U, hx, ha => by
    simp only [List.length_cons] at ha
    obtain ⟨c, cs, e, hc⟩ := natHex_cons g'
    have ih := v6Loop_groups_dcolon r g' f (acc ++ [g]) U (fun x hx' => hx x (by simp at hx' ⊢; exact Or.inr hx'))
      (by simp; omega)
    rw [e] at ih
    simp only [joinTail, e, List.cons_append, List.length_cons, List.append_assoc]
    rw [show f + (r.length + 1) + 1 = (f + r.length + 1) + 1 by omega,
      v6Loop_colon _ g (hx g (by simp)) acc none (by omega) c _ hc]
    simp only [List.cons_append, List.append_assoc] at ih
    rw [ih]
    simp only [List.length_append, List.length_singleton, List.nil_append]
    rw [show acc.length + 1 + r.length + 1 = acc.length + (r.length + 1) + 1 by omega]

end CedarGo.Scalars
