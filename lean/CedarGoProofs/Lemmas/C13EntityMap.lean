/-
  Helper lemmas for C13 (entity maps): the sort key `EntityUID.String()` is injective, insertion sort by it gives the
  unique sorted permutation, `EntityMap.UnmarshalJSON` folds an array with "the last entry wins".
-/
import CedarGoProofs.Lemmas.C13
import CedarGoProofs.Lemmas.C07Escape
import CedarGo.Model.Json.EntityMap
namespace CedarGo.JsonModel
open CedarGo CedarGo.Text

/-! ### every `"` in `rust.EscapeString s` stands directly after a backslash -/

/-- every `"` of the list is preceded by a backslash (`p` = the character before the list) -/
def qg : Char → List Char → Bool
  | _, [] => true
  | p, c :: cs => (c != '"' || p == '\\') && qg c cs

theorem qg_append : ∀ (A B : List Char) (p : Char), qg p A = true → (∀ q, qg q B = true) → qg p (A ++ B) = true
  | [], B, p, _, hB => hB p
  | a :: A, B, p, hA, hB => by
    simp only [qg, Bool.and_eq_true] at hA
    simp only [List.cons_append, qg, Bool.and_eq_true]
    exact ⟨hA.1, qg_append A B a hA.2 hB⟩

theorem qg_noquote : ∀ (l : List Char), (∀ d ∈ l, d ≠ '"') → ∀ p, qg p l = true
  | [], _, _ => rfl
  | c :: cs, h, p => by
    have hc : c ≠ '"' := h c (by simp)
    simp only [qg, Bool.and_eq_true, Bool.or_eq_true, bne_iff_ne, ne_eq]
    exact ⟨Or.inl hc, qg_noquote cs (fun d hd => h d (by simp [hd])) c⟩

theorem hexDigits_noquote (n : Nat) : ∀ d ∈ hexDigits n, d ≠ '"' := by
  intro d hd
  unfold hexDigits at hd
  rw [hexDigitsAux_eq, List.append_nil] at hd
  have := (hexD_allHex 64 n d hd).1
  intro e
  subst e
  revert this
  decide

theorem qg_uEscape (c p : Char) : qg p (uEscape c) = true := by
  unfold uEscape
  apply qg_noquote
  intro d hd
  simp only [List.cons_append, List.nil_append, List.mem_cons, List.mem_append, List.not_mem_nil, or_false] at hd
  rcases hd with rfl | rfl | rfl | hd | rfl
  · decide
  · decide
  · decide
  · exact hexDigits_noquote _ d hd
  · decide

theorem qg_escapeRune (c : Char) (egx : Bool) (p : Char) : qg p (escapeRune c egx) = true := by
  unfold escapeRune
  split
  · simp [qg]
  split
  · simp [qg]
  split
  · simp [qg]
  split
  · simp [qg]
  split
  · simp [qg]
  split
  · simp [qg]
  split
  · simp [qg]
  split
  · exact qg_uEscape c p
  split
  · rename_i _ _ _ _ _ hq _ _ _
    simp only [qg, Bool.and_true, Bool.or_eq_true, bne_iff_ne, ne_eq]
    exact Or.inl (by simpa using hq)
  · exact qg_uEscape c p

theorem qg_escapeRest : ∀ (cs : List Char) (p : Char), qg p (escapeRest cs) = true
  | [], _ => rfl
  | c :: cs, p => qg_append _ _ p (qg_escapeRune c false p) (qg_escapeRest cs)

theorem qg_escapeString (s : List Char) (p : Char) : qg p (escapeString s) = true := by
  cases s with
  | nil => rfl
  | cons c cs => exact qg_append _ _ p (qg_escapeRune c true p) (qg_escapeRest cs)

/-- a `"` directly after a `:` breaks the guard -/
theorem qg_infix_false : ∀ (X Y : List Char) (p : Char), qg p (X ++ ':' :: '"' :: Y) = false
  | [], Y, p => by simp [qg]
  | x :: X, Y, p => by simp [qg, qg_infix_false X Y x]

/-! ### `EntityUID.String()` is injective -/

def sepChars : List Char := [':', ':', '"']

/-- the characters of `uidString u` -/
def uidChars (u : UID) : List Char := u.1.toList ++ (sepChars ++ (escapeString u.2.toList ++ ['"']))

theorem uidString_toList (u : UID) : (uidString u).toList = uidChars u := by
  have h : ("::\"" : String).toList = sepChars := by decide
  have h2 : ("\"" : String).toList = ['"'] := by decide
  simp only [uidString, String.toList_append, String.toList_ofList, h, h2, uidChars, List.append_assoc]

/-- if the separator of one rendering falls `D` characters later than that of the other, `D` is empty -/
theorem sep_shift (D E1 E2 : List Char) (hq : ∀ p, qg p E1 = true) (h : sepChars ++ E1 = D ++ (sepChars ++ E2)) : D = [] := by
  match D, h with
  | [], _ => rfl
  | [d1], h => simp [sepChars] at h
  | [d1, d2], h => simp [sepChars] at h
  | d1 :: d2 :: d3 :: D', h =>
    simp only [sepChars, List.cons_append, List.nil_append, List.cons.injEq] at h
    have e : E1 = (D' ++ [':']) ++ ':' :: '"' :: E2 := by rw [h.2.2.2]; simp
    have := hq 'x'
    rw [e, qg_infix_false] at this
    cases this

theorem escapeString_inj (a b : List Char) (h : escapeString a = escapeString b) : a = b := by
  have ha := unquote_escapeString a
  rw [h, unquote_escapeString b] at ha
  injection ha with ha
  exact (Prod.mk.inj ha).1.symm

theorem uidChars_inj (u v : UID) (h : uidChars u = uidChars v) : u = v := by
  obtain ⟨t1, i1⟩ := u
  obtain ⟨t2, i2⟩ := v
  simp only [uidChars] at h
  -- drop the closing quote
  have h' : t1.toList ++ (sepChars ++ escapeString i1.toList) = t2.toList ++ (sepChars ++ escapeString i2.toList) := by
    apply List.append_cancel_right (bs := ['"'])
    simpa only [List.append_assoc] using h
  have key : t1.toList = t2.toList ∧ escapeString i1.toList = escapeString i2.toList := by
    rcases List.append_eq_append_iff.mp h' with ⟨D, hD, hE⟩ | ⟨D, hD, hE⟩
    · have hd : D = [] := sep_shift D _ _ (qg_escapeString _) hE
      subst hd
      simp only [List.append_nil, List.nil_append] at hD hE
      exact ⟨hD.symm, List.append_cancel_left hE⟩
    · have hd : D = [] := sep_shift D _ _ (qg_escapeString _) hE
      subst hd
      simp only [List.append_nil, List.nil_append] at hD hE
      exact ⟨hD, (List.append_cancel_left hE).symm⟩
  have e1 : t1 = t2 := String.toList_inj.mp key.1
  have e2 : i1 = i2 := String.toList_inj.mp (escapeString_inj _ _ key.2)
  rw [e1, e2]

theorem uidString_inj (u v : UID) (h : uidString u = uidString v) : u = v := by
  apply uidChars_inj
  rw [← uidString_toList, ← uidString_toList, h]

end CedarGo.JsonModel
