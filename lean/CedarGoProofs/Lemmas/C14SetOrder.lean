/-
  C14 / C13 helper lemmas: `Set.orderedSlots` (types/set.go, repaired) lists the slots of an open-addressed table in an
  order in which `NewSet` probes them, so that `NewSet` applied to the members in that order rebuilds the very same table.
-/
import CedarGoProofs.Lemmas.C14
import CedarGoProofs.Lemmas.C11Set
namespace CedarGo
namespace SetOrder
open C11

local notation "M" => (18446744073709551616 : Nat)

/-! ### probing a table along an occupied chain -/

/-- `NewSet(L…)` rebuilds `L` slot for slot if every entry of `L` finds the slots between its hash and its own slot
    occupied by EARLIER entries of `L` -/
def Compat (hash : Value → UInt64) (L : Table) : Prop :=
  ∀ pre k v post, L = pre ++ (k, v) :: post → ∃ d, k = addN (hash v) d ∧ ∀ j, j < d → addN (hash v) j ∈ keys pre

theorem keys_reverse (t : Table) : keys t.reverse = (keys t).reverse := by simp [keys]

theorem get_reverse_none {t : Table} {k : UInt64} : Table.get t.reverse k = none ↔ k ∉ keys t := by
  rw [get_none_iff, keys_reverse]; simp

theorem insertV_of_compat (hash : Value → UInt64) (pre : Table) (k : UInt64) (v : Value)
    (hk : k ∉ keys pre) (hdist : ∀ w ∈ vals pre, Value.beq v w = false) (hsmall : pre.length < M)
    (d : Nat) (hd : k = addN (hash v) d) (hc : ∀ j, j < d → addN (hash v) j ∈ keys pre) :
    insertV hash pre.reverse v = (k, v) :: pre.reverse := by
  unfold insertV
  have hlen : pre.reverse.length < 18446744073709551616 := by simpa using hsmall
  cases hp : probe pre.reverse v (pre.reverse.length + 1) (hash v) with
  | exhausted => exact absurd hp (probe_not_exhausted hlen v _)
  | found s =>
    exfalso
    obtain ⟨e, he, hb⟩ := probe_found hp
    have hm := get_some_mem he
    have : e ∈ vals pre := by
      simp only [vals, List.mem_map]
      exact ⟨(s, e), by simpa using hm, rfl⟩
    rw [hdist e this] at hb; cases hb
  | empty s =>
    obtain ⟨d', _, hs, hnone, hc'⟩ := probe_empty hp
    have hs' : s = k := by
      rcases Nat.lt_trichotomy d' d with hlt | heq | hgt
      · exfalso
        have := hc d' hlt
        rw [← hs] at this
        exact (get_reverse_none.mp hnone) this
      · subst heq; rw [hs, hd]
      · exfalso
        obtain ⟨e, he, _⟩ := hc' d hgt
        rw [← hd] at he
        have : Table.get pre.reverse k = none := get_reverse_none.mpr hk
        rw [this] at he; cases he
    simp [hs']

theorem rebuild_aux (hash : Value → UInt64) (L : Table) (hnd : (keys L).Nodup) (hdist : NoDupR Value.beq (vals L))
    (hsmall : L.length < M) (hc : Compat hash L) :
    ∀ (post pre : Table), L = pre ++ post → (vals post).foldl (insertV hash) pre.reverse = L.reverse := by
  intro post
  induction post with
  | nil => intro pre h; simp [vals, h]
  | cons kv post ih =>
    intro pre h
    obtain ⟨k, v⟩ := kv
    obtain ⟨d, hd, hcd⟩ := hc pre k v post h
    have hk : k ∉ keys pre := by
      rw [h] at hnd
      simp only [keys, List.map_append, List.map_cons] at hnd
      have := (List.nodup_append.mp hnd).2.2
      intro hin
      exact this k hin k (by simp) rfl
    have hdv : ∀ w ∈ vals pre, Value.beq v w = false := by
      intro w hw
      rw [h] at hdist
      simp only [NoDupR, vals, List.map_append, List.map_cons] at hdist
      have := (List.pairwise_append.mp hdist).2.2 w hw v (by simp)
      rw [beq_symm]; exact this
    have hpl : pre.length < M := by rw [h] at hsmall; simp at hsmall; omega
    have step := insertV_of_compat hash pre k v hk hdv hpl d hd hcd
    simp only [vals, List.map_cons, List.foldl_cons]
    rw [step]
    have := ih (pre ++ [(k, v)]) (by simp [h])
    simpa [vals] using this

/-- **rebuild**: inserting the values of a compatible listing into an empty table gives back the listing -/
theorem rebuild_of_compat (hash : Value → UInt64) (L : Table) (hnd : (keys L).Nodup) (hdist : NoDupR Value.beq (vals L))
    (hsmall : L.length < M) (hc : Compat hash L) : buildTable hash (vals L) = L.reverse := by
  have := rebuild_aux hash L hnd hdist hsmall hc L [] (by simp)
  simpa [buildTable] using this

/-! ### a listing sorted by a key along which every probe chain increases is compatible -/

/-- the displacement of an entry is at most the size of the table (there is a free slot among `size + 1` consecutive ones) -/
theorem chain_small {hash : Value → UInt64} {t : Table} (inv : Inv hash t) {k : UInt64} {v : Value} (hm : (k, v) ∈ t) :
    ∃ d, d ≤ t.length ∧ k = addN (hash v) d ∧ ∀ j, j < d → (t.get (addN (hash v) j)).isSome := by
  obtain ⟨d, hk, hc⟩ := inv.chain k v hm
  obtain ⟨j, hj, hnone⟩ := exists_empty_slot inv.small (hash v)
  refine ⟨d, ?_, hk, hc⟩
  apply Classical.byContradiction
  intro hgt
  have := hc j (by omega)
  rw [hnone] at this; cases this

theorem isSome_mem_keys {t : Table} {k : UInt64} (h : (t.get k).isSome) : k ∈ keys t := by
  apply Classical.byContradiction
  intro hn
  rw [get_none_iff.mpr hn] at h; cases h

theorem compat_of_sorted {hash : Value → UInt64} {t L : Table} (inv : Inv hash t) (hperm : L.Perm t) (ord : UInt64 → Nat)
    (hs : (keys L).Pairwise (fun a b => ord a < ord b))
    (hm : ∀ k v, (k, v) ∈ t → ∀ d, d ≤ t.length → k = addN (hash v) d → (∀ j, j < d → (t.get (addN (hash v) j)).isSome) →
      ∀ j, j < d → ord (addN (hash v) j) < ord k) : Compat hash L := by
  intro pre k v post hL
  have hkv : (k, v) ∈ t := hperm.mem_iff.mp (by rw [hL]; simp)
  obtain ⟨d, hdl, hk, hc⟩ := chain_small inv hkv
  refine ⟨d, hk, fun j hj => ?_⟩
  have hlt := hm k v hkv d hdl hk hc j hj
  have hx : addN (hash v) j ∈ keys L := by
    have := isSome_mem_keys (hc j hj)
    simp only [keys] at this ⊢
    exact (hperm.map (·.1)).mem_iff.mpr this
  rw [hL] at hx hs
  simp only [keys, List.map_append, List.map_cons, List.mem_append, List.mem_cons] at hx
  simp only [keys, List.map_append, List.map_cons] at hs
  rcases hx with hx | hx | hx
  · exact hx
  · rw [hx] at hlt; omega
  · exfalso
    have h2 := (List.pairwise_append.mp hs).2.1
    have := (List.pairwise_cons.mp h2).1 _ hx
    omega

/-! ### the two keys: the slot number itself (nothing wrapped around), the slot number counted from `g1` (cyclic) -/

theorem chain_mono_nowrap {hash : Value → UInt64} {t : Table} (hnw : ∀ k v, (k, v) ∈ t → hash v ≤ k) (hsm : t.length < M) :
    ∀ k v, (k, v) ∈ t → ∀ d, d ≤ t.length → k = addN (hash v) d → (∀ j, j < d → (t.get (addN (hash v) j)).isSome) →
      ∀ j, j < d → (addN (hash v) j).toNat < k.toNat := by
  intro k v hkv d hdl hk _ j hj
  have hle := hnw k v hkv
  have h1 : k.toNat = ((hash v).toNat + d) % 18446744073709551616 := by rw [hk, addN_toNat]
  have h2 := addN_toNat (hash v) j
  have h3 : (hash v).toNat ≤ k.toNat := UInt64.le_iff_toNat_le.mp hle
  have h4 : (hash v).toNat < 18446744073709551616 := (hash v).toNat_lt
  omega

/-- the position of slot `x` counted cyclically from slot `g1` -/
def pos (g1 : Nat) (x : UInt64) : Nat := (x.toNat + M - g1) % M

theorem chain_mono_cyclic {hash : Value → UInt64} {t : Table} (g1 : Nat) (hg1 : g1 < M)
    (hgap : ∀ x ∈ keys t, pos g1 x ≠ M - 1) (hsm : t.length < M) :
    ∀ k v, (k, v) ∈ t → ∀ d, d ≤ t.length → k = addN (hash v) d → (∀ j, j < d → (t.get (addN (hash v) j)).isSome) →
      ∀ j, j < d → pos g1 (addN (hash v) j) < pos g1 k := by
  intro k v _ d hdl hk hc j hj
  have h4 : (hash v).toNat < 18446744073709551616 := (hash v).toNat_lt
  -- no slot of the chain is the gap
  have hno : ∀ i, i < d → pos g1 (addN (hash v) i) ≠ M - 1 := fun i hi => hgap _ (isSome_mem_keys (hc i hi))
  have hpos : ∀ i, pos g1 (addN (hash v) i) = ((hash v).toNat + M - g1 + i) % M := by
    intro i
    simp only [pos, addN_toNat]
    omega
  -- the chain does not pass the gap
  have hq : ((hash v).toNat + M - g1) % M + d < M := by
    apply Classical.byContradiction
    intro hge
    have hi : M - 1 - ((hash v).toNat + M - g1) % M < d := by omega
    have := hno _ hi
    rw [hpos] at this
    omega
  rw [hk, hpos, hpos]
  omega

/-! ### `slices.Sort` on the slots, `splitTopRun` -/

theorem slotLe_linOrd : LinOrd slotLe where
  total a b := by simp only [slotLe, decide_eq_true_eq]; exact UInt64.le_total a b
  trans a b c := by simp only [slotLe, decide_eq_true_eq]; exact UInt64.le_trans
  antisymm a b := by simp only [slotLe, decide_eq_true_eq]; exact UInt64.le_antisymm

/-- the sorted slots of a table are strictly ascending -/
theorem sortedSlots_lt (ks : List UInt64) (hn : ks.Nodup) :
    (sortBy slotLe ks).Pairwise (fun a b => a.toNat < b.toNat) := by
  have hs := sortBy_sorted slotLe_linOrd ks
  have hn' : (sortBy slotLe ks).Nodup := (sortBy_perm slotLe ks).nodup_iff.mpr hn
  have := List.Pairwise.and hs hn'
  refine this.imp ?_
  intro a b ⟨hle, hne⟩
  simp only [slotLe, decide_eq_true_eq] at hle
  have h1 := UInt64.le_iff_toNat_le.mp hle
  have h2 : a.toNat ≠ b.toNat := fun e => hne (UInt64.toNat_inj.mp e)
  omega

theorem succ_toNat {k k' : UInt64} (hlt : k.toNat < k'.toNat) : (k + 1).toNat = k.toNat + 1 := by
  have h1 : (1 : UInt64).toNat = 1 := rfl
  have h2 := k'.toNat_lt
  rw [UInt64.toNat_add, h1]
  omega

theorem splitTopRun_spec : ∀ (ks : List UInt64), ks.Pairwise (fun a b => a.toNat < b.toNat) →
    (splitTopRun ks).1 ++ (splitTopRun ks).2 = ks ∧
    (ks ≠ [] → ∃ h tl, (splitTopRun ks).2 = h :: tl ∧
      (∀ x ∈ (splitTopRun ks).2, x.toNat < h.toNat + (splitTopRun ks).2.length) ∧
      (∀ x ∈ (splitTopRun ks).1, x.toNat + 1 < h.toNat))
  | [], _ => by simp [splitTopRun]
  | [k], _ => by
    refine ⟨by simp [splitTopRun], fun _ => ⟨k, [], by simp [splitTopRun], ?_, ?_⟩⟩
    · intro x hx; simp [splitTopRun] at hx ⊢; rw [hx]; omega
    · intro x hx; simp [splitTopRun] at hx
  | k :: k' :: rest, hp => by
    have hp' := (List.pairwise_cons.mp hp).2
    have hk := (List.pairwise_cons.mp hp).1
    obtain ⟨hcat, hrun⟩ := splitTopRun_spec (k' :: rest) hp'
    obtain ⟨h, tl, h2, hub, hlb⟩ := hrun (by simp)
    have hkk' : k.toNat < k'.toNat := hk k' (by simp)
    simp only [splitTopRun]
    by_cases hc : ((splitTopRun (k' :: rest)).1.isEmpty && k + 1 == k') = true
    · simp only [hc, if_true]
      simp only [Bool.and_eq_true, List.isEmpty_iff, beq_iff_eq] at hc
      obtain ⟨he, hs⟩ := hc
      rw [he, List.nil_append] at hcat
      have hh : h = k' := by rw [h2] at hcat; exact (List.cons.inj hcat).1
      refine ⟨by simp [hcat], fun _ => ⟨k, (splitTopRun (k' :: rest)).2, rfl, ?_, by simp⟩⟩
      intro x hx
      have hs' : k.toNat + 1 = k'.toNat := by rw [← succ_toNat hkk', hs]
      rcases List.mem_cons.mp hx with hx | hx
      · rw [hx]; simp only [List.length_cons]; omega
      · have := hub x hx
        simp only [List.length_cons]
        rw [hh] at this
        omega
    · simp only [hc]
      refine ⟨by simp [hcat], fun _ => ⟨h, tl, h2, hub, ?_⟩⟩
      intro x hx
      simp only [Bool.false_eq_true, if_false] at hx
      rcases List.mem_cons.mp hx with hx | hx
      · rw [hx]
        cases he : (splitTopRun (k' :: rest)).1 with
        | cons y ys =>
          have hy : y ∈ (splitTopRun (k' :: rest)).1 := by rw [he]; simp
          have h1 := hlb y hy
          have h3 : y ∈ k' :: rest := by rw [← hcat]; exact List.mem_append_left _ hy
          have := hk y h3
          omega
        | nil =>
          rw [he, List.nil_append] at hcat
          have hh : h = k' := by rw [h2] at hcat; exact (List.cons.inj hcat).1
          have hne : ¬ (k + 1 = k') := by
            intro e
            apply hc
            simp [he, e]
          have h4 : k.toNat + 1 ≠ k'.toNat := by
            intro e
            apply hne
            apply UInt64.toNat_inj.mp
            rw [succ_toNat hkk', e]
          rw [hh]; omega
      · exact hlb x hx

/-! ### the entries of a table listed by a slot list -/

/-- `s.s[k]` for `k` in a slot list -/
def entriesOf (t : Table) (sl : List UInt64) : Table := sl.filterMap fun k => (t.get k).map fun v => (k, v)

theorem orderedEntries_eq (hash : Value → UInt64) (t : Table) : orderedEntries hash t = entriesOf t (orderedSlots hash t) := rfl

theorem filterMap_eq_self {α : Type} (f : α → Option α) : ∀ (l : List α), (∀ x ∈ l, f x = some x) → l.filterMap f = l
  | [], _ => rfl
  | x :: l, h => by
    rw [List.filterMap_cons, h x (by simp)]
    simp only
    rw [filterMap_eq_self f l (fun y hy => h y (by simp [hy]))]

theorem keys_perm {t₁ t₂ : Table} (hp : t₁.Perm t₂) : (keys t₁).Perm (keys t₂) := by
  unfold keys; exact hp.map _

theorem entriesOf_keys_self (t : Table) (hn : (keys t).Nodup) : entriesOf t (keys t) = t := by
  unfold entriesOf
  show List.filterMap _ (List.map (·.1) t) = t
  rw [List.filterMap_map]
  apply filterMap_eq_self
  intro kv hkv
  obtain ⟨k, v⟩ := kv
  simp only [Function.comp, get_of_mem hn hkv, Option.map_some]

theorem entriesOf_perm (t : Table) (hn : (keys t).Nodup) (sl : List UInt64) (hp : sl.Perm (keys t)) :
    (entriesOf t sl).Perm t := by
  have := hp.filterMap (fun k => (t.get k).map fun v => (k, v))
  rw [show List.filterMap (fun k => (t.get k).map fun v => (k, v)) (keys t) = t from entriesOf_keys_self t hn] at this
  exact this

theorem entriesOf_keys (t : Table) : ∀ (sl : List UInt64), (∀ k ∈ sl, k ∈ keys t) → keys (entriesOf t sl) = sl
  | [], _ => rfl
  | k :: sl, h => by
    have hk := h k (by simp)
    have ih := entriesOf_keys t sl (fun x hx => h x (by simp [hx]))
    cases hg : t.get k with
    | none => exact absurd hk (get_none_iff.mp hg)
    | some v =>
      simp only [entriesOf, keys] at ih ⊢
      simp [hg, ih]

theorem get_perm {t₁ t₂ : Table} (hp : t₁.Perm t₂) (hn : (keys t₁).Nodup) (k : UInt64) : t₁.get k = t₂.get k := by
  have hn2 : (keys t₂).Nodup := (keys_perm hp).nodup_iff.mp hn
  cases h : t₁.get k with
  | some e => exact (get_of_mem hn2 (hp.mem_iff.mp (get_some_mem h))).symm
  | none =>
    have : k ∉ keys t₂ := fun hin => (get_none_iff.mp h) ((keys_perm hp).mem_iff.mpr hin)
    exact (get_none_iff.mpr this).symm

/-- the order of the slots does not depend on the order in which the Go map yields its entries -/
theorem orderedSlots_perm_inv (hash : Value → UInt64) {t₁ t₂ : Table} (hp : t₁.Perm t₂) :
    orderedSlots hash t₁ = orderedSlots hash t₂ := by
  unfold orderedSlots
  rw [sortBy_eq_of_perm slotLe_linOrd (hp.map (·.1))]
  have : tableWrapped hash t₁ = tableWrapped hash t₂ := by unfold tableWrapped; exact hp.any_eq
  rw [this]

theorem marshalSetMembers_perm_inv (hash : Value → UInt64) {t₁ t₂ : Table} (hp : t₁.Perm t₂) (hn : (keys t₁).Nodup) :
    marshalSetMembers hash t₁ = marshalSetMembers hash t₂ := by
  unfold marshalSetMembers orderedEntries
  rw [orderedSlots_perm_inv hash hp]
  have : (fun k => (t₁.get k).map fun v => (k, v)) = (fun k => (t₂.get k).map fun v => (k, v)) := by
    funext k; rw [get_perm hp hn k]
  rw [this]

/-- the slots listed by `orderedSlots` are the slots of the table -/
theorem orderedSlots_perm (hash : Value → UInt64) (t : Table) (hpw : ((sortBy slotLe (keys t))).Pairwise (fun a b => a.toNat < b.toNat)) :
    (orderedSlots hash t).Perm (keys t) := by
  have e : orderedSlots hash t = if tableWrapped hash t = true then
      (splitTopRun (sortBy slotLe (keys t))).2 ++ (splitTopRun (sortBy slotLe (keys t))).1 else sortBy slotLe (keys t) := rfl
  rw [e]
  split
  · have := (splitTopRun_spec _ hpw).1
    refine List.Perm.trans ?_ (sortBy_perm slotLe (keys t))
    exact List.perm_append_comm.trans (by rw [this])
  · exact sortBy_perm slotLe (keys t)

/-! ### `orderedSlots` lists the slots in an order `NewSet` can rebuild the table from -/

theorem not_wrapped {hash : Value → UInt64} {t : Table} (h : tableWrapped hash t = false) :
    ∀ k v, (k, v) ∈ t → hash v ≤ k := by
  intro k v hkv
  unfold tableWrapped at h
  have := List.any_eq_false.mp h (k, v) hkv
  simp only [decide_eq_true_eq] at this
  exact UInt64.not_lt.mp this

theorem orderedEntries_compat {hash : Value → UInt64} {t : Table} (inv : Inv hash t) : Compat hash (orderedEntries hash t) := by
  have hpw := sortedSlots_lt (keys t) inv.nodupKeys
  have hperm := orderedSlots_perm hash t hpw
  have hsub : ∀ k ∈ orderedSlots hash t, k ∈ keys t := fun k hk => hperm.mem_iff.mp hk
  have hkeys : keys (orderedEntries hash t) = orderedSlots hash t := entriesOf_keys t _ hsub
  have hLperm : (orderedEntries hash t).Perm t := entriesOf_perm t inv.nodupKeys _ hperm
  have hsm : t.length < M := inv.small
  have e : orderedSlots hash t = if tableWrapped hash t = true then
      (splitTopRun (sortBy slotLe (keys t))).2 ++ (splitTopRun (sortBy slotLe (keys t))).1 else sortBy slotLe (keys t) := rfl
  cases hw : tableWrapped hash t with
  | false =>
    rw [hw] at e
    simp only [Bool.false_eq_true, if_false] at e
    refine compat_of_sorted inv hLperm (fun x => x.toNat) ?_ (chain_mono_nowrap (not_wrapped hw) hsm)
    rw [hkeys, e]; exact hpw
  | true =>
    rw [hw] at e
    simp only [if_true] at e
    have hne : sortBy slotLe (keys t) ≠ [] := by
      intro hnil
      have hk : keys t = [] := by
        have := (sortBy_perm slotLe (keys t)).length_eq
        rw [hnil] at this
        exact List.eq_nil_of_length_eq_zero this.symm
      have : t = [] := by simpa [keys] using hk
      rw [this] at hw
      simp [tableWrapped] at hw
    obtain ⟨hcat, hrun⟩ := splitTopRun_spec _ hpw
    obtain ⟨h, tl, h2, hub, hlb⟩ := hrun hne
    generalize hb : (splitTopRun (sortBy slotLe (keys t))).1 = b at *
    generalize hr : (splitTopRun (sortBy slotLe (keys t))).2 = r at *
    rw [← hcat] at hpw
    obtain ⟨hpb, hpr, hbr⟩ := List.pairwise_append.mp hpw
    have hhead : ∀ x ∈ r, h.toNat ≤ x.toNat := by
      intro x hx
      rw [h2] at hx hpr
      rcases List.mem_cons.mp hx with hx | hx
      · rw [hx]; exact Nat.le_refl _
      · exact Nat.le_of_lt ((List.pairwise_cons.mp hpr).1 x hx)
    have hrlen : r.length ≤ t.length := by
      have h1 : (b ++ r).length = t.length := by
        rw [hcat, (sortBy_perm slotLe (keys t)).length_eq]; simp [keys]
      simp only [List.length_append] at h1
      omega
    have hposr : ∀ x ∈ r, pos h.toNat x = x.toNat - h.toNat := by
      intro x hx
      have := hhead x hx
      have := x.toNat_lt
      simp only [pos]; omega
    have hposb : ∀ x ∈ b, pos h.toNat x = x.toNat + M - h.toNat := by
      intro x hx
      have := hlb x hx
      have := h.toNat_lt
      simp only [pos]; omega
    have hh5 : h.toNat < 18446744073709551616 := h.toNat_lt
    refine compat_of_sorted inv hLperm (pos h.toNat) ?_ (chain_mono_cyclic h.toNat h.toNat_lt ?_ hsm)
    · rw [hkeys, e]
      refine List.pairwise_append.mpr ⟨?_, ?_, ?_⟩
      · refine hpr.imp_of_mem ?_
        intro x y hx hy hxy
        rw [hposr x hx, hposr y hy]
        have := hhead x hx
        omega
      · refine hpb.imp_of_mem ?_
        intro x y hx hy hxy
        rw [hposb x hx, hposb y hy]
        have := hlb y hy
        omega
      · intro x hx y hy
        rw [hposr x hx, hposb y hy]
        have := hhead x hx
        have := x.toNat_lt
        have := hlb y hy
        omega
    · intro x hx
      have hx' : x ∈ b ++ r := by
        rw [hcat]; exact (sortBy_perm slotLe (keys t)).mem_iff.mpr hx
      rcases List.mem_append.mp hx' with hx' | hx'
      · rw [hposb x hx']
        have := hlb x hx'
        have h5 : h.toNat < 18446744073709551616 := h.toNat_lt
        omega
      · rw [hposr x hx']
        have := hub x hx'
        have := hhead x hx'
        omega

/-- **`NewSet` of the members in marshalling order rebuilds the table**: every member goes back into its slot
    (the result lists the same (slot, member) pairs) -/
theorem rebuild {hash : Value → UInt64} {t : Table} (inv : Inv hash t) :
    buildTable hash (marshalSetMembers hash t) = (orderedEntries hash t).reverse ∧
    (buildTable hash (marshalSetMembers hash t)).Perm t := by
  have hpw := sortedSlots_lt (keys t) inv.nodupKeys
  have hperm := orderedSlots_perm hash t hpw
  have hLperm : (orderedEntries hash t).Perm t := entriesOf_perm t inv.nodupKeys _ hperm
  have hnd : (keys (orderedEntries hash t)).Nodup := (keys_perm hLperm).nodup_iff.mpr inv.nodupKeys
  have hdist : NoDupR Value.beq (vals (orderedEntries hash t)) := by
    have hv : (vals (orderedEntries hash t)).Perm (vals t) := by unfold vals; exact hLperm.map _
    unfold NoDupR
    refine (List.Perm.pairwise_iff ?_ hv).mpr inv.distinct
    intro x y hxy
    rw [beq_symm]; exact hxy
  have hsm : (orderedEntries hash t).length < M := by rw [hLperm.length_eq]; exact inv.small
  have := rebuild_of_compat hash (orderedEntries hash t) hnd hdist hsm (orderedEntries_compat inv)
  have e : marshalSetMembers hash t = vals (orderedEntries hash t) := rfl
  rw [e, this]
  exact ⟨rfl, (List.reverse_perm _).trans hLperm⟩

/-- … hence marshalling the rebuilt set writes the members in the same order again -/
theorem marshal_stable {hash : Value → UInt64} {t : Table} (inv : Inv hash t) :
    marshalSetMembers hash (buildTable hash (marshalSetMembers hash t)) = marshalSetMembers hash t := by
  obtain ⟨_, hp⟩ := rebuild inv
  exact marshalSetMembers_perm_inv hash hp ((keys_perm hp).nodup_iff.mpr inv.nodupKeys)

end SetOrder
end CedarGo
