/-
  C16: `resolveType` terminates once `detectCycles` has accepted — the dependency list built by the Kahn pass
  covers every jump `resolveType` makes into the body of a common type: both read the namespace in which the body is
  resolved from the table recorded at registration (`RState.nsOf`).  (Before the repair of
  `resolve-common-type-cycle-undetected` both re-derived it from the qualified name, and
  `extractNamespace("A:::b") = "A:"` differs from the namespace `A` the resolver used on the unqualified path.)
-/
import CedarGoProofs.Lemmas.C16Kahn
namespace CedarGo.Schema

/-! ### the jump into a common type is an edge of the dependency graph -/

instance : DecidableEq (Except RErr Unit)
  | .ok (), .ok () => isTrue rfl
  | .error a, .error b => if h : a = b then isTrue (by rw [h]) else isFalse (by intro h'; cases h'; exact h rfl)
  | .ok _, .error _ => isFalse (by intro h; cases h)
  | .error _, .ok _ => isFalse (by intro h; cases h)

/-- where `lookupTypeRef` jumps to is the key `resolveTypeRefPath` computes, and the namespace it passes on is the
    one `detectCycles` uses for that key: the recorded declaring namespace -/
theorem lookupTypeRef_common (r : RState) (ns ref ns' : String) (b : Ty)
    (h : lookupTypeRef r ns ref = .common ns' b) :
    r.common? (resolveTypeRefPath r ns ref) = some b ∧ ns' = r.nsOf (resolveTypeRefPath r ns ref) := by
  unfold lookupTypeRef at h
  unfold resolveTypeRefPath
  by_cases hs : hasSep ref = true
  · rw [if_pos hs] at h ⊢
    split at h
    · split at h <;> cases h
    · split at h
      · rename_i ct hct
        simp only [RefTarget.common.injEq] at h
        exact ⟨by rw [hct, h.2], h.1.symm⟩
      · split at h <;> cases h
  · rw [if_neg hs] at h ⊢
    by_cases hns : ns = ""
    · subst hns
      simp only [ne_eq, not_true_eq_false, if_false, false_and] at h ⊢
      split at h
      · rename_i ct hct
        simp only [RefTarget.common.injEq] at h
        exact ⟨by rw [hct, h.2], h.1.symm⟩
      · split at h
        · cases h
        · split at h <;> cases h
    · simp only [ne_eq, hns, not_false_eq_true, if_true, true_and] at h ⊢
      cases hq : r.common? (ns ++ "::" ++ ref) with
      | some ct =>
        rw [hq] at h
        simp only [RefTarget.common.injEq] at h
        simp only [Option.isSome_some, if_true]
        exact ⟨by rw [hq, h.2], h.1.symm⟩
      | none =>
        rw [hq] at h
        simp only [Option.isSome_none, Bool.false_eq_true, if_false]
        cases he : r.isEntity (ns ++ "::" ++ ref) with
        | true =>
          simp [he] at h
        | false =>
          cases hq2 : r.common? ref with
          | some ct =>
            simp [he, hq2] at h
            exact ⟨by rw [h.2], h.1.symm⟩
          | none =>
            simp only [he, hq2, Bool.false_eq_true, if_false] at h
            split at h
            · cases h
            · split at h <;> cases h

theorem lookup_some_mem {β} (k : String) (v : β) (l : List (String × β)) (h : l.lookup k = some v) : k ∈ l.map (·.1) :=
  lookup_isSome_mem k l (by simp [h])

theorem common_mem_nodes (r : RState) (c : String) (b : Ty) (h : r.common? c = some b) : c ∈ r.nodes :=
  mem_dedupStr.mpr (lookup_some_mem c b _ h)

theorem body_ref_mem_deps (r : RState) (c : String) (b : Ty) (hb : r.common? c = some b) (ref : String)
    (href : ref ∈ collectTypeRefs b) (b' : Ty)
    (h : r.common? (resolveTypeRefPath r (r.nsOf c) ref) = some b') :
    resolveTypeRefPath r (r.nsOf c) ref ∈ r.deps c := by
  unfold RState.deps
  rw [hb]
  unfold depsOf
  exact List.mem_filterMap.mpr ⟨ref, href, by simp [h]⟩

/-! ### totality -/

mutual
theorem resolveTyWith_ne_none (r : RState) (k : String → Ty → Fuelled RTy) (ns : String) :
    ∀ t, (∀ ref ∈ collectTypeRefs t, ∀ ns' b, lookupTypeRef r ns ref = .common ns' b → k ns' b ≠ none) →
      resolveTyWith r k ns t ≠ none
  | .string, _ => by simp [resolveTyWith]
  | .long, _ => by simp [resolveTyWith]
  | .bool, _ => by simp [resolveTyWith]
  | .ext _, _ => by unfold resolveTyWith; split <;> simp
  | .entityRef n, _ => by
    unfold resolveTyWith
    split <;> simp
  | .set e, h => by
    have := resolveTyWith_ne_none r k ns e (by simpa [collectTypeRefs] using h)
    unfold resolveTyWith
    split <;> simp_all
  | .record as, h => by
    have := resolveAttrsWith_ne_none r k ns as (by simpa [collectTypeRefs] using h)
    unfold resolveTyWith
    split <;> simp_all
  | .typeRef n, h => by
    unfold resolveTyWith
    split
    · rename_i ns' body hl
      exact h n (by simp [collectTypeRefs]) ns' body hl
    all_goals simp
theorem resolveAttrsWith_ne_none (r : RState) (k : String → Ty → Fuelled RTy) (ns : String) :
    ∀ as, (∀ ref ∈ collectAttrRefs as, ∀ ns' b, lookupTypeRef r ns ref = .common ns' b → k ns' b ≠ none) →
      resolveAttrsWith r k ns as ≠ none
  | .nil, _ => by simp [resolveAttrsWith]
  | .cons n o a t rest, h => by
    have h1 := resolveTyWith_ne_none r k ns t (fun ref hr => h ref (by simp [collectAttrRefs, hr]))
    have h2 := resolveAttrsWith_ne_none r k ns rest (fun ref hr => h ref (by simp [collectAttrRefs, hr]))
    unfold resolveAttrsWith
    split
    · exact absurd ‹_› h1
    · simp
    · split
      · exact absurd ‹_› h2
      · simp
      · simp
end

theorem resolveTypeFuel_ne_none_of_rank (r : RState) (rank : String → Nat)
    (hpos : ∀ c ∈ r.nodes, 1 ≤ rank c) (hdec : ∀ u ∈ r.nodes, ∀ v ∈ r.deps u, rank v < rank u) :
    ∀ m ns t,
      (∀ ref ∈ collectTypeRefs t, ∀ ns' b, lookupTypeRef r ns ref = .common ns' b → rank (resolveTypeRefPath r ns ref) ≤ m) →
      resolveTypeFuel r (m + 1) ns t ≠ none
  | 0, ns, t, hr => by
    unfold resolveTypeFuel
    apply resolveTyWith_ne_none
    intro ref href ns' b hl
    exfalso
    obtain ⟨h1, _⟩ := lookupTypeRef_common r ns ref ns' b hl
    have := hpos _ (common_mem_nodes r _ b h1)
    have := hr ref href ns' b hl
    omega
  | m + 1, ns, t, hr => by
    unfold resolveTypeFuel
    apply resolveTyWith_ne_none
    intro ref href ns' b hl
    obtain ⟨h1, h2⟩ := lookupTypeRef_common r ns ref ns' b hl
    have hcN := common_mem_nodes r _ b h1
    apply resolveTypeFuel_ne_none_of_rank r rank hpos hdec m ns' b
    intro ref' href' ns'' b' hl'
    obtain ⟨g1, _⟩ := lookupTypeRef_common r ns' ref' ns'' b' hl'
    have hmem : resolveTypeRefPath r ns' ref' ∈ r.deps (resolveTypeRefPath r ns ref) := by
      rw [h2] at g1 ⊢
      exact body_ref_mem_deps r _ b h1 ref' href' b' g1
    have := hdec _ hcN _ hmem
    have := hr ref href ns' b hl
    omega

end CedarGo.Schema
