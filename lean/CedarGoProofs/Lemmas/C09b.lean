/-
  C09: the expression round trip `decodeNodeF n (exprToJ e) = .ok (embed e)` and `nodeToExpr (embed e) = .ok (normE e)`.
-/
import CedarGoProofs.Lemmas.C09
namespace CedarGo.JsonModel
open CedarGo CedarGo.Scalars

theorem encodeValue_ne_null (v : Value) : encodeValue v ≠ .null := by
  cases v <;> simp [encodeValue, extJ]

theorem decode_value_node (dec : J → R NJ) (v : Value) (hw : vWF v = true) (hr : vNoReserved v = true) :
    decodeNodeStep dec (.obj [("Value", encodeValue v)]) = .ok (.value v) :=
  decodeNodeStep_known dec "Value" _ _ (by simp [nodeFieldOrder]) (encodeValue_ne_null v)
    (decodeField_value dec _ _ (decodeValue_encodeValue v hw hr))

theorem decode_str_node (dec : J → R NJ) (s : String) :
    decodeNodeStep dec (.obj [("Value", .str s)]) = .ok (.value (.str s)) :=
  decode_value_node dec (.str s) (by simp [vWF]) (by simp [vNoReserved])

mutual
theorem decode_expr (e : Expr) (n : Nat) (hn : needE e ≤ n) (hr : renderableE e = true) :
    decodeNodeF n (exprToJ e) = .ok (embed e) := by
  cases n with
  | zero =>
    exfalso
    cases e with
    | lit v => cases v <;> simp [needE] at hn
    | _ => simp [needE] at hn
  | succ n =>
    cases e with
    | lit v =>
      cases v with
      | decimal d =>
        simp only [needE] at hn
        obtain ⟨m, rfl⟩ : ∃ m, n = m + 1 := ⟨n - 1, by omega⟩
        simp only [exprToJ, decodeNodeF, embed]
        exact decodeNodeStep_ext _ "decimal" _ _ (by decide +kernel) (by simp [mapMR, decode_str_node])
      | ip a =>
        simp only [needE] at hn
        obtain ⟨m, rfl⟩ : ∃ m, n = m + 1 := ⟨n - 1, by omega⟩
        simp only [exprToJ, decodeNodeF, embed]
        exact decodeNodeStep_ext _ "ip" _ _ (by decide +kernel) (by simp [mapMR, decode_str_node])
      | bool b => simp only [renderableE, Bool.and_eq_true] at hr; simp only [exprToJ, decodeNodeF, embed]; exact decode_value_node _ _ hr.1 hr.2
      | long k => simp only [renderableE, Bool.and_eq_true] at hr; simp only [exprToJ, decodeNodeF, embed]; exact decode_value_node _ _ hr.1 hr.2
      | str s => simp only [renderableE, Bool.and_eq_true] at hr; simp only [exprToJ, decodeNodeF, embed]; exact decode_value_node _ _ hr.1 hr.2
      | entity t i => simp only [renderableE, Bool.and_eq_true] at hr; simp only [exprToJ, decodeNodeF, embed]; exact decode_value_node _ _ hr.1 hr.2
      | set xs => simp only [renderableE, Bool.and_eq_true] at hr; simp only [exprToJ, decodeNodeF, embed]; exact decode_value_node _ _ hr.1 hr.2
      | record kvs => simp only [renderableE, Bool.and_eq_true] at hr; simp only [exprToJ, decodeNodeF, embed]; exact decode_value_node _ _ hr.1 hr.2
      | datetime t => simp only [renderableE, Bool.and_eq_true] at hr; simp only [exprToJ, decodeNodeF, embed]; exact decode_value_node _ _ hr.1 hr.2
      | duration t => simp only [renderableE, Bool.and_eq_true] at hr; simp only [exprToJ, decodeNodeF, embed]; exact decode_value_node _ _ hr.1 hr.2
    | var v =>
      simp only [exprToJ, decodeNodeF, embed]
      exact decodeNodeStep_known _ "Var" _ _ (by simp [nodeFieldOrder]) (by simp) (decodeField_var _ _)
    | unop op e =>
      simp only [needE] at hn
      simp only [renderableE] at hr
      have ih := decode_expr e n (by omega) hr
      simp only [exprToJ, decodeNodeF, embed]
      exact decodeNodeStep_known _ _ _ _ (unOpKey_mem op) (by simp) (decodeField_unary _ op _ _ ih)
    | binop op l r =>
      simp only [needE] at hn
      simp only [renderableE, Bool.and_eq_true] at hr
      have ihl := decode_expr l n (by omega) hr.1
      have ihr := decode_expr r n (by omega) hr.2
      simp only [exprToJ, decodeNodeF, embed]
      exact decodeNodeStep_known _ _ _ _ (binOpKey_mem op) (by simp) (decodeField_binary _ op _ _ _ _ ihl ihr)
    | ite c t e =>
      simp only [needE] at hn
      simp only [renderableE, Bool.and_eq_true] at hr
      have ihc := decode_expr c n (by omega) hr.1.1
      have iht := decode_expr t n (by omega) hr.1.2
      have ihe := decode_expr e n (by omega) hr.2
      simp only [exprToJ, decodeNodeF, embed]
      exact decodeNodeStep_known _ _ _ _ (by simp [nodeFieldOrder]) (by simp) (decodeField_ite _ _ _ _ _ _ _ ihc iht ihe)
    | access e a =>
      simp only [needE] at hn
      simp only [renderableE] at hr
      have ih := decode_expr e n (by omega) hr
      simp only [exprToJ, decodeNodeF, embed]
      exact decodeNodeStep_known _ _ _ _ (by simp [nodeFieldOrder]) (by simp) (decodeField_access _ _ a _ ih)
    | has e a =>
      simp only [needE] at hn
      simp only [renderableE] at hr
      have ih := decode_expr e n (by omega) hr
      simp only [exprToJ, decodeNodeF, embed]
      exact decodeNodeStep_known _ _ _ _ (by simp [nodeFieldOrder]) (by simp) (decodeField_has _ _ a _ ih)
    | like e p =>
      simp only [needE] at hn
      simp only [renderableE, Bool.and_eq_true] at hr
      have ih := decode_expr e n (by omega) hr.1
      simp only [exprToJ, decodeNodeF, embed]
      exact decodeNodeStep_known _ _ _ _ (by simp [nodeFieldOrder]) (by simp) (decodeField_like _ _ p _ ih)
    | is e ty =>
      simp only [needE] at hn
      simp only [renderableE] at hr
      have ih := decode_expr e n (by omega) hr
      simp only [exprToJ, decodeNodeF, embed]
      exact decodeNodeStep_known _ _ _ _ (by simp [nodeFieldOrder]) (by simp) (decodeField_is _ _ ty _ ih)
    | isIn e ty r =>
      simp only [needE] at hn
      simp only [renderableE, Bool.and_eq_true] at hr
      have ihe := decode_expr e n (by omega) hr.1
      have ihr := decode_expr r n (by omega) hr.2
      simp only [exprToJ, decodeNodeF, embed]
      exact decodeNodeStep_known _ _ _ _ (by simp [nodeFieldOrder]) (by simp)
        (decodeField_isIn _ _ _ ty _ _ ihe ihr (exprToJ_ne_null r))
    | set es =>
      simp only [needE] at hn
      simp only [renderableE] at hr
      have ih := decode_exprs es n (by omega) hr
      simp only [exprToJ, decodeNodeF, embed]
      exact decodeNodeStep_known _ _ _ _ (by simp [nodeFieldOrder]) (by simp) (decodeField_set _ _ _ ih)
    | record kes =>
      simp only [needE] at hn
      simp only [renderableE, Bool.and_eq_true] at hr
      have ih := decode_kes kes n (by omega) hr.1
      simp only [exprToJ, decodeNodeF, embed, jObjOfPairs]
      exact decodeNodeStep_known _ _ _ _ (by simp [nodeFieldOrder]) (by simp)
        (decodeField_record _ _ _ (mapKVR_sortKV_record _ kes [] [] rfl ih))
    | call fn args =>
      simp only [needE] at hn
      simp only [renderableE, Bool.and_eq_true] at hr
      have ih := decode_exprs args n (by omega) hr.2
      simp only [exprToJ, decodeNodeF, embed]
      exact decodeNodeStep_ext _ fn _ _ hr.1.1 ih
theorem decode_exprs (es : List Expr) (n : Nat) (hn : needEs es ≤ n) (hr : renderableEs es = true) :
    mapMR (decodeNodeF n) (exprsToJ es) = .ok (embeds es) := by
  cases es with
  | nil => rfl
  | cons e es =>
    simp only [needEs] at hn
    simp only [renderableEs, Bool.and_eq_true] at hr
    simp only [exprsToJ, embeds, mapMR, decode_expr e n (by omega) hr.1, decode_exprs es n (by omega) hr.2]
theorem decode_kes (kes : List (String × Expr)) (n : Nat) (hn : needKEs kes ≤ n) (hr : renderableKEs kes = true) :
    ∀ ke ∈ kes, decodeNodeF n (exprToJ ke.2) = .ok (embed ke.2) := by
  cases kes with
  | nil => intro ke h; simp at h
  | cons ke kes =>
    obtain ⟨k, e⟩ := ke
    simp only [needKEs] at hn
    simp only [renderableKEs, Bool.and_eq_true] at hr
    intro ke' h
    simp only [List.mem_cons] at h
    cases h with
    | inl h => subst h; exact decode_expr e n (by omega) hr.1
    | inr h => exact decode_kes kes n (by omega) hr.2 ke' h
end

end CedarGo.JsonModel
