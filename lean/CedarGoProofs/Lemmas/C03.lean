/-
  Helper lemmas for C03: the work-list ancestor search equals reflexive-transitive reachability.
-/
import CedarGo.Model.Hierarchy
namespace CedarGo

/-- Reachability by following parent links of entities present in the store (the property's wording). -/
inductive Reach (es : Entities) : UID → UID → Prop where
  | refl (a : UID) : Reach es a a
  | step {a p b : UID} {d : EntityData} : es.get a = some d → p ∈ d.parents → Reach es p b → Reach es a b

theorem Reach.trans {es : Entities} {a b c : UID} (h1 : Reach es a b) (h2 : Reach es b c) : Reach es a c := by
  induction h1 with
  | refl => exact h2
  | step hg hp _ ih => exact .step hg hp (ih h2)

theorem Reach.snoc {es : Entities} {a x b : UID} {d : EntityData}
    (h : Reach es a x) (hg : es.get x = some d) (hb : b ∈ d.parents) : Reach es a b :=
  h.trans (.step hg hb (.refl b))

/-- a non-trivial path ends with a step out of a present node -/
theorem Reach.last {es : Entities} {a b : UID} (h : Reach es a b) :
    a = b ∨ ∃ x d, Reach es a x ∧ es.get x = some d ∧ b ∈ d.parents := by
  induction h with
  | refl => exact .inl rfl
  | @step a p b d hg hp hr ih =>
    right
    cases ih with
    | inl heq => subst heq; exact ⟨a, d, .refl a, hg, hp⟩
    | inr h =>
      obtain ⟨x, d', hx, hgx, hbx⟩ := h
      exact ⟨x, d', .step hg hp hx, hgx, hbx⟩

/-- an entity the search would push: present, with at least one parent -/
def Eligible (es : Entities) (k : UID) : Prop := ∃ d, es.get k = some d ∧ d.parents ≠ []

/-- from a node that is absent or has no parents only the trivial path starts -/
theorem Reach.of_not_eligible {es : Entities} {p y : UID} (h : Reach es p y) (hn : ¬ Eligible es p) : y = p := by
  cases h with
  | refl => rfl
  | step hg hp _ => exact absurd ⟨_, hg, List.ne_nil_of_mem hp⟩ hn

/-- number of store entries whose key is not yet known (termination measure) -/
def unknownCount (es : Entities) (known : List UID) : Nat := es.countP (fun e => !known.contains e.1)

theorem get_some_mem_keys {es : Entities} {k : UID} {d : EntityData} (h : es.get k = some d) :
    ∃ e ∈ es, e.1 = k := by
  induction es with
  | nil => simp [Entities.get] at h
  | cons e rest ih =>
    obtain ⟨k', d'⟩ := e
    simp only [Entities.get] at h
    split at h
    · rename_i hk; exact ⟨(k', d'), by simp, by simpa using hk⟩
    · obtain ⟨e, he, hk⟩ := ih h; exact ⟨e, by simp [he], hk⟩

theorem countP_succ_le_of_imp {α : Type} (p q : α → Bool) (l : List α)
    (himp : ∀ x, p x = true → q x = true) (e : α) (he : e ∈ l) (hq : q e = true) (hp : p e = false) :
    l.countP p + 1 ≤ l.countP q := by
  induction l with
  | nil => simp at he
  | cons x xs ih =>
    simp only [List.countP_cons]
    cases he with
    | head =>
      have : xs.countP p ≤ xs.countP q := List.countP_mono_left (fun x _ => himp x)
      simp [hq, hp]; omega
    | tail _ h =>
      have := ih h
      cases hpx : p x with
      | true => simp [himp x hpx]; omega
      | false => cases hqx : q x <;> simp <;> omega

theorem unknownCount_cons_lt {es : Entities} {known : List UID} {k : UID} {d : EntityData}
    (hg : es.get k = some d) (hk : k ∉ known) : unknownCount es (k :: known) + 1 ≤ unknownCount es known := by
  obtain ⟨e, he, hek⟩ := get_some_mem_keys hg
  unfold unknownCount
  apply countP_succ_le_of_imp _ _ es _ e he
  · simp [hek, hk]
  · simp [hek]
  · intro x hx; simp at hx ⊢; exact hx.2

theorem unknownCount_append {es : Entities} {known news : List UID}
    (hpres : ∀ k ∈ news, ∃ d, es.get k = some d) (hnot : ∀ k ∈ news, k ∉ known) (hnd : news.Nodup) :
    unknownCount es (news ++ known) + news.length ≤ unknownCount es known := by
  induction news with
  | nil => simp
  | cons k news ih =>
    have hnd' := List.nodup_cons.mp hnd
    have ih' := ih (fun x hx => hpres x (by simp [hx])) (fun x hx => hnot x (by simp [hx])) hnd'.2
    obtain ⟨d, hg⟩ := hpres k (by simp)
    have hk : k ∉ news ++ known := by
      simp only [List.mem_append, not_or]; exact ⟨hnd'.1, hnot k (by simp)⟩
    have := unknownCount_cons_lt (es := es) hg hk
    simp only [List.cons_append, List.length_cons]
    omega

/-- what the inner `for k := range fe.Parents` loop does -/
theorem pushParents_spec (es : Entities) (entity : UID) (ks todo known : List UID) :
    ∃ news, pushParents es entity ks todo known = (news ++ todo, news ++ known) ∧
      (∀ k ∈ news, k ∈ ks ∧ Eligible es k ∧ k ≠ entity ∧ k ∉ known) ∧ news.Nodup ∧
      (∀ k ∈ ks, Eligible es k → k ≠ entity → k ∈ news ++ known) := by
  induction ks generalizing todo known with
  | nil => exact ⟨[], by simp [pushParents], by simp, by simp, by simp⟩
  | cons k ks ih =>
    unfold pushParents
    cases hg : es.get k with
    | none =>
      obtain ⟨news, heq, h1, h2, h3⟩ := ih todo known
      refine ⟨news, by simpa using heq, ?_, h2, ?_⟩
      · intro x hx; obtain ⟨a, b, c, d⟩ := h1 x hx; exact ⟨by simp [a], b, c, d⟩
      · intro x hx hel hne
        cases hx with
        | head => obtain ⟨d, hd, _⟩ := hel; rw [hg] at hd; cases hd
        | tail _ hx => exact h3 x hx hel hne
    | some p =>
      simp only
      split
      · rename_i hskip
        obtain ⟨news, heq, h1, h2, h3⟩ := ih todo known
        refine ⟨news, heq, ?_, h2, ?_⟩
        · intro x hx; obtain ⟨a, b, c, d⟩ := h1 x hx; exact ⟨by simp [a], b, c, d⟩
        · intro x hx hel hne
          cases hx with
          | head =>
            obtain ⟨d, hd, hdne⟩ := hel
            rw [hg] at hd; cases hd
            simp only [Bool.or_eq_true, List.isEmpty_iff, beq_iff_eq, List.contains_iff_mem] at hskip
            rcases hskip with (hsk | hsk) | hsk
            · exact absurd hsk hdne
            · exact absurd hsk hne
            · simp [hsk]
          | tail _ hx => exact h3 x hx hel hne
      · rename_i hpush
        simp only [Bool.or_eq_true, List.isEmpty_iff, beq_iff_eq, List.contains_iff_mem, not_or] at hpush
        obtain ⟨⟨hne0, hnent⟩, hnk⟩ := hpush
        obtain ⟨news, heq, h1, h2, h3⟩ := ih (k :: todo) (k :: known)
        refine ⟨news ++ [k], by simpa using heq, ?_, ?_, ?_⟩
        · intro x hx
          simp only [List.mem_append, List.mem_singleton] at hx
          cases hx with
          | inl hx =>
            obtain ⟨a, b, c, d⟩ := h1 x hx
            exact ⟨by simp [a], b, c, fun hm => d (by simp [hm])⟩
          | inr hx => subst hx; exact ⟨by simp, ⟨p, hg, hne0⟩, hnent, hnk⟩
        · rw [List.nodup_append]
          refine ⟨h2, by simp, ?_⟩
          intro a ha b hb
          simp only [List.mem_singleton] at hb
          subst hb
          intro hab; subst hab
          exact (h1 a ha).2.2.2 (by simp)
        · intro x hx hel hne
          cases hx with
          | head => simp
          | tail _ hx =>
            have := h3 x hx hel hne
            simp only [List.mem_append, List.mem_cons] at this ⊢
            rcases this with h | h | h
            · exact .inl (.inl h)
            · exact .inl (.inr (by simp [h]))
            · exact .inr h

/-- a set of nodes that contains the start, is closed under eligible parents and has no hit
    contains no hit anywhere in the reachable part of the graph -/
theorem closed_no_hit (es : Entities) (entity : UID) (hit : List UID → Bool) (hhit : hit [] = false)
    (D : List UID) (hent : entity ∈ D)
    (hclosed : ∀ x ∈ D, ∀ d, es.get x = some d → hit d.parents = false ∧ ∀ k ∈ d.parents, Eligible es k → k ∈ D) :
    ¬ ∃ x d, Reach es entity x ∧ es.get x = some d ∧ hit d.parents = true := by
  have key : ∀ s y, Reach es s y → s ∈ D → Eligible es y → y ∈ D := by
    intro s y h
    induction h with
    | refl => intro hs _; exact hs
    | @step a p b d hg hp hr ih =>
      intro hs hel
      by_cases hpe : Eligible es p
      · exact ih ((hclosed a hs d hg).2 p hp hpe) hel
      · have := hr.of_not_eligible hpe
        subst this; exact absurd hel hpe
  rintro ⟨x, d, hr, hg, hh⟩
  have hne : d.parents ≠ [] := by intro h; rw [h, hhit] at hh; cases hh
  have hx := key entity x hr hent ⟨d, hg, hne⟩
  have := (hclosed x hx d hg).1
  rw [this] at hh; cases hh

/-- The loop terminates within `todo.length + unknownCount + 1` iterations and answers whether some
    node reachable from `entity` has a hit among its parents. -/
theorem inLoop_spec (es : Entities) (entity : UID) (hit : List UID → Bool) (hhit : hit [] = false)
    (fuel : Nat) (cand : UID) (todo known done : List UID)
    (hfuel : todo.length + unknownCount es known + 1 ≤ fuel)
    (I1 : ∀ x ∈ cand :: todo ++ done, Reach es entity x)
    (I2 : ∀ x ∈ done, ∀ d, es.get x = some d → hit d.parents = false ∧ ∀ k ∈ d.parents, Eligible es k → k ∈ cand :: todo ++ done)
    (I3 : ∀ k ∈ known, k ∈ cand :: todo ++ done)
    (I4 : entity ∈ cand :: done) :
    ∃ r, inLoop es entity hit fuel cand todo known = some r ∧
      (r = true ↔ ∃ x d, Reach es entity x ∧ es.get x = some d ∧ hit d.parents = true) := by
  induction fuel generalizing cand todo known done with
  | zero => omega
  | succ fuel ih =>
    unfold inLoop
    cases hg : es.get cand with
    | none =>
      simp only
      cases todo with
      | nil =>
        refine ⟨false, rfl, ?_⟩
        simp only [Bool.false_eq_true, false_iff]
        apply closed_no_hit es entity hit hhit (cand :: done) I4
        intro x hx d hgx
        cases hx with
        | head => rw [hg] at hgx; cases hgx
        | tail _ hx => simpa using I2 x hx d hgx
      | cons c rest =>
        apply ih c rest known (cand :: done)
        · simp only [List.length_cons] at hfuel; omega
        · intro x hx; apply I1; simp only [List.mem_cons, List.mem_append] at hx ⊢; grind
        · intro x hx d hgx
          cases hx with
          | head => rw [hg] at hgx; cases hgx
          | tail _ hx =>
            obtain ⟨h1, h2⟩ := I2 x hx d hgx
            refine ⟨h1, fun k hk hel => ?_⟩
            have := h2 k hk hel
            simp only [List.mem_cons, List.mem_append] at this ⊢; grind
        · intro k hk; have := I3 k hk; simp only [List.mem_cons, List.mem_append] at this ⊢; grind
        · simp only [List.mem_cons] at I4 ⊢; grind
    | some fe =>
      simp only
      cases hh : hit fe.parents with
      | true =>
        simp only [if_true]
        exact ⟨true, rfl, by simp only [true_iff]; exact ⟨cand, fe, I1 cand (by simp), hg, hh⟩⟩
      | false =>
        simp only [Bool.false_eq_true, if_false]
        obtain ⟨news, heq, hn1, hn2, hn3⟩ := pushParents_spec es entity fe.parents todo known
        rw [heq]
        have hreach : ∀ k ∈ news, Reach es entity k := fun k hk =>
          (I1 cand (by simp)).snoc hg (hn1 k hk).1
        have hcount := unknownCount_append (es := es) (known := known) (news := news)
          (fun k hk => by obtain ⟨d, hd, _⟩ := (hn1 k hk).2.1; exact ⟨d, hd⟩) (fun k hk => (hn1 k hk).2.2.2) hn2
        -- closure of the just-processed candidate
        have hcl : ∀ k ∈ fe.parents, Eligible es k → k ∈ cand :: (news ++ todo) ++ done := by
          intro k hk hel
          by_cases hke : k = entity
          · subst hke
            simp only [List.mem_cons, List.mem_append] at I4 ⊢; grind
          · have := hn3 k hk hel hke
            simp only [List.mem_append] at this
            cases this with
            | inl h => simp only [List.mem_cons, List.mem_append]; grind
            | inr h => have := I3 k h; simp only [List.mem_cons, List.mem_append] at this ⊢; grind
        cases hnt : news ++ todo with
        | nil =>
          simp only
          refine ⟨false, rfl, ?_⟩
          simp only [Bool.false_eq_true, false_iff]
          apply closed_no_hit es entity hit hhit (cand :: done) I4
          intro x hx d hgx
          cases hx with
          | head =>
            rw [hg] at hgx; cases hgx
            refine ⟨hh, fun k hk hel => ?_⟩
            have := hcl k hk hel
            rw [hnt] at this; simpa using this
          | tail _ hx =>
            obtain ⟨h1, h2⟩ := I2 x hx d hgx
            refine ⟨h1, fun k hk hel => ?_⟩
            have htodo : todo = [] := (List.append_eq_nil_iff.mp hnt).2
            have := h2 k hk hel
            rw [htodo] at this; simpa using this
        | cons c rest =>
          simp only
          have hmem : ∀ y, y ∈ c :: rest ↔ y ∈ news ∨ y ∈ todo := by
            intro y; rw [← hnt]; simp
          apply ih c rest (news ++ known) (cand :: done)
          · have hl : (c :: rest).length = news.length + todo.length := by rw [← hnt]; simp
            simp only [List.length_cons] at hl
            omega
          · intro x hx
            simp only [List.mem_append, List.mem_cons] at hx
            have hx' : x ∈ c :: rest ∨ x = cand ∨ x ∈ done := by
              simp only [List.mem_cons]; grind
            rcases hx' with h | h | h
            · rcases (hmem x).mp h with h | h
              · exact hreach x h
              · exact I1 x (by simp [h])
            · subst h; exact I1 _ (by simp)
            · exact I1 x (by simp [h])
          · intro x hx d hgx
            cases hx with
            | head =>
              rw [hg] at hgx; cases hgx
              refine ⟨hh, fun k hk hel => ?_⟩
              have := hcl k hk hel
              simp only [List.mem_cons, List.mem_append] at this ⊢
              have hm := hmem k
              simp only [List.mem_cons] at hm
              grind
            | tail _ hx =>
              obtain ⟨h1, h2⟩ := I2 x hx d hgx
              refine ⟨h1, fun k hk hel => ?_⟩
              have := h2 k hk hel
              simp only [List.mem_cons, List.mem_append] at this ⊢
              have hm := hmem k
              simp only [List.mem_cons] at hm
              grind
          · intro k hk
            simp only [List.mem_append] at hk
            have hm := hmem k
            simp only [List.mem_cons] at hm
            simp only [List.mem_cons, List.mem_append]
            cases hk with
            | inl h => grind
            | inr h => have := I3 k h; simp only [List.mem_cons, List.mem_append] at this; grind
          · simp only [List.mem_cons] at I4 ⊢; grind

theorem unknownCount_nil_le (es : Entities) : unknownCount es [] ≤ es.length := by
  unfold unknownCount; exact List.countP_le_length

/-- the whole search from the initial state -/
theorem inLoop_init (es : Entities) (entity : UID) (hit : List UID → Bool) (hhit : hit [] = false) :
    ∃ r, inLoop es entity hit (es.length + 1) entity [] [] = some r ∧
      (r = true ↔ ∃ x d, Reach es entity x ∧ es.get x = some d ∧ hit d.parents = true) := by
  apply inLoop_spec es entity hit hhit (es.length + 1) entity [] [] []
  · have := unknownCount_nil_le es; simp; omega
  · intro x hx; simp at hx; subst hx; exact .refl _
  · intro x hx; simp at hx
  · intro k hk; simp at hk
  · simp

end CedarGo
