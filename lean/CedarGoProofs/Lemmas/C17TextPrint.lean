/-
  C17, text half — the second rendering is byte-identical to the first:

      printSchema (normSchema s) = printSchema s          for EVERY schema `s` (no hypothesis)

  `normSchema` (C17TextDefs.lean) is what printing + re-parsing does to the AST.  The printer is insensitive to it:
  * `sortedKV` (stable insertion sort by key) is idempotent and commutes with mapping the values, so sorting the
    association lists beforehand changes nothing (duplicate keys included: the sort is stable);
  * a normalised type node (`.typeRef <printed name>`) is printed as that very name, whatever names are in scope.
-/
import CedarGoProofs.Lemmas.C17TextDefs
namespace CedarGo.Schema.TextPrint
open CedarGo.Schema

universe u v

/-! ## `sortedKV` (reusable, any value type) -/

theorem sortedKV_nil {α : Type u} : sortedKV ([] : List (String × α)) = [] := rfl

theorem sortedKV_cons {α : Type u} (x : String × α) (l : List (String × α)) :
    sortedKV (x :: l) = insertKV x (sortedKV l) := rfl

theorem mem_insertKV {α : Type u} (x y : String × α) : ∀ l : List (String × α), y ∈ insertKV x l ↔ y = x ∨ y ∈ l
  | [] => by simp [insertKV]
  | z :: zs => by
    have ih := mem_insertKV x y zs
    unfold insertKV
    split
    · simp
    · simp only [List.mem_cons, ih]
      grind

/-- sorting keeps the elements -/
theorem mem_sortedKV {α : Type u} (y : String × α) : ∀ l : List (String × α), y ∈ sortedKV l ↔ y ∈ l
  | [] => by simp [sortedKV_nil]
  | x :: l => by
    rw [sortedKV_cons, mem_insertKV, mem_sortedKV y l]
    simp

/-- sorting keeps the keys -/
theorem mem_keys_sortedKV {α : Type u} (n : String) (l : List (String × α)) :
    n ∈ (sortedKV l).map (·.1) ↔ n ∈ l.map (·.1) := by
  simp only [List.mem_map, mem_sortedKV]

/-- … as the `Bool` the printer computes (`builtinName`) -/
theorem contains_keys_sortedKV {α : Type u} (n : String) (l : List (String × α)) :
    ((sortedKV l).map (·.1)).contains n = (l.map (·.1)).contains n := by
  rw [Bool.eq_iff_iff]
  simp only [List.contains_iff_mem, mem_keys_sortedKV]

theorem insertKV_of_le {α : Type u} (x : String × α) (l : List (String × α)) (h : ∀ y ∈ l, x.1 ≤ y.1) :
    insertKV x l = x :: l := by
  cases l with
  | nil => rfl
  | cons y ys => simp [insertKV, h y (by simp)]

theorem insertKV_pairwise {α : Type u} (x : String × α) :
    ∀ l : List (String × α), l.Pairwise (fun a b => a.1 ≤ b.1) → (insertKV x l).Pairwise (fun a b => a.1 ≤ b.1)
  | [], _ => by simp [insertKV]
  | y :: ys, h => by
    rw [List.pairwise_cons] at h
    unfold insertKV
    split
    · rename_i hxy
      rw [List.pairwise_cons]
      refine ⟨?_, List.pairwise_cons.mpr h⟩
      intro z hz
      rcases List.mem_cons.mp hz with rfl | hz
      · exact hxy
      · exact String.le_trans hxy (h.1 z hz)
    · rename_i hxy
      have hyx : y.1 ≤ x.1 := (String.le_total x.1 y.1).resolve_left hxy
      rw [List.pairwise_cons]
      refine ⟨?_, insertKV_pairwise x ys h.2⟩
      intro z hz
      rcases (mem_insertKV x z ys).mp hz with rfl | hz
      · exact hyx
      · exact h.1 z hz

/-- the result is sorted by key -/
theorem sortedKV_pairwise {α : Type u} : ∀ l : List (String × α), (sortedKV l).Pairwise (fun a b => a.1 ≤ b.1)
  | [] => by simp [sortedKV_nil]
  | x :: l => by
    rw [sortedKV_cons]
    exact insertKV_pairwise x _ (sortedKV_pairwise l)

/-- sorting a sorted list is the identity (the sort is stable: equal keys keep their order) -/
theorem sortedKV_of_pairwise {α : Type u} :
    ∀ l : List (String × α), l.Pairwise (fun a b => a.1 ≤ b.1) → sortedKV l = l
  | [], _ => rfl
  | x :: l, h => by
    rw [List.pairwise_cons] at h
    rw [sortedKV_cons, sortedKV_of_pairwise l h.2, insertKV_of_le x l h.1]

theorem sortedKV_idem {α : Type u} (l : List (String × α)) : sortedKV (sortedKV l) = sortedKV l :=
  sortedKV_of_pairwise _ (sortedKV_pairwise l)

theorem insertKV_map {α : Type u} {β : Type v} (f : String → α → β) (x : String × α) :
    ∀ l : List (String × α),
      insertKV (x.1, f x.1 x.2) (l.map fun e => (e.1, f e.1 e.2)) = (insertKV x l).map fun e => (e.1, f e.1 e.2)
  | [] => by simp [insertKV]
  | y :: ys => by
    have ih := insertKV_map f x ys
    simp only [List.map_cons, insertKV]
    split
    · simp
    · simp [ih]

/-- sorting commutes with mapping the values (the new value may depend on the key) -/
theorem sortedKV_map {α : Type u} {β : Type v} (f : String → α → β) :
    ∀ l : List (String × α), sortedKV (l.map fun e => (e.1, f e.1 e.2)) = (sortedKV l).map fun e => (e.1, f e.1 e.2)
  | [] => rfl
  | x :: l => by
    rw [List.map_cons, sortedKV_cons, sortedKV_map f l, sortedKV_cons]
    exact insertKV_map f x (sortedKV l)

theorem sortedKV_mapVal {α : Type u} {β : Type v} (g : α → β) (l : List (String × α)) :
    sortedKV (l.map fun e => (e.1, g e.2)) = (sortedKV l).map fun e => (e.1, g e.2) :=
  sortedKV_map (fun _ => g) l

/-- the shape in which `normDecls` / `normSchema` build their lists: sorting it again is the identity -/
theorem sortedKV_sortedKV_mapVal {α : Type u} {β : Type v} (g : α → β) (l : List (String × α)) :
    sortedKV ((sortedKV l).map fun e => (e.1, g e.2)) = (sortedKV l).map fun e => (e.1, g e.2) := by
  rw [sortedKV_mapVal, sortedKV_idem]

/-! ## the printer on normalised pieces -/

theorem printAnns_sortedKV (i : Nat) (a : Anns) : printAnns i (sortedKV a) = printAnns i a := by
  unfold printAnns
  rw [sortedKV_idem]

mutual
/-- a normalised type is printed under the name the original was printed under — whatever names are in scope (`sh'`) -/
theorem printTy_normTy (sh' sh : List String) : ∀ (i : Nat) (t : Ty), printTy sh' i (normTy sh t) = printTy sh i t
  | _, .string => by simp [normTy, printTy]
  | _, .long => by simp [normTy, printTy]
  | _, .bool => by simp [normTy, printTy]
  | _, .ext n => by simp [normTy, printTy]
  | _, .entityRef n => by simp [normTy, printTy]
  | _, .typeRef n => by simp [normTy, printTy]
  | i, .set e => by
    have := printTy_normTy sh' sh i e
    simp [normTy, printTy, this]
  | i, .record as => by
    have := printAttrs_normAttrs sh' sh (i + 1) as
    cases as with
    | nil => simp [normTy, normAttrs, printTy]
    | cons n o a t rest =>
      simp only [normAttrs] at this
      simp only [normTy, normAttrs, printTy, this]
theorem printAttrs_normAttrs (sh' sh : List String) :
    ∀ (i : Nat) (as : Attrs), printAttrs sh' i (normAttrs sh as) = printAttrs sh i as
  | _, .nil => by simp [normAttrs, printAttrs]
  | i, .cons n o a t rest => by
    have h1 := printTy_normTy sh' sh i t
    have h2 := printAttrs_normAttrs sh' sh i rest
    simp only [normAttrs, printAttrs, printAnns_sortedKV, h1, h2]
    cases rest <;> simp [normAttrs]
end

theorem printRecord_normAttrs (sh' sh : List String) (i : Nat) (as : Attrs) :
    printRecord sh' i (normAttrs sh as) = printRecord sh i as := by
  have := printTy_normTy sh' sh i (.record as)
  simp only [normTy] at this
  exact this

theorem printAppliesTo_norm (sh' sh : List String) (i : Nat) (ap : AppliesTo) :
    printAppliesTo sh' i (normAppliesTo sh ap) = printAppliesTo sh i ap := by
  obtain ⟨ps, rs, ctx⟩ := ap
  cases ctx <;> simp [printAppliesTo, normAppliesTo, printTy_normTy]

/-- the declarations of a normalised namespace are printed like the original ones, whatever names are in scope -/
theorem printDecls_normDecls (sh' sh : List String) (i : Nat) (anns : Anns) (d : Namespace) :
    printDecls sh' i (normDecls sh anns d) = printDecls sh i d := by
  obtain ⟨a0, entities, enums, actions, commonTypes⟩ := d
  simp only [printDecls, normDecls]
  rw [sortedKV_sortedKV_mapVal (normCommon sh), sortedKV_sortedKV_mapVal (normEntity sh),
    sortedKV_sortedKV_mapVal normEnum, sortedKV_sortedKV_mapVal (normAction sh)]
  simp only [List.map_map]
  congr 1
  · congr 1
    · congr 1
      · apply List.map_congr_left
        intro c _
        simp [normCommon, printAnns_sortedKV, printTy_normTy]
      · apply List.map_congr_left
        intro e _
        obtain ⟨k, ⟨a, ps, shape, tags⟩⟩ := e
        cases shape <;> cases tags <;> simp [normEntity, printAnns_sortedKV, printTy_normTy, printRecord_normAttrs]
    · apply List.map_congr_left
      intro e _
      simp [normEnum, printAnns_sortedKV]
  · apply List.map_congr_left
    intro a _
    obtain ⟨k, ⟨an, ps, ap⟩⟩ := a
    cases ap <;> simp [normAction, printAnns_sortedKV, printAppliesTo_norm]

theorem normDecls_anns (sh : List String) (anns : Anns) (d : Namespace) : (normDecls sh anns d).anns = anns := rfl

/-- **printing the normalised schema gives byte for byte the text of the original** — for every schema: duplicate keys,
    unsorted lists, names the grammar rejects, … nothing is assumed -/
theorem printSchema_normSchema (s : Schema) : printSchema (normSchema s) = printSchema s := by
  obtain ⟨bare, nss⟩ := s
  simp only [printSchema, normSchema]
  rw [sortedKV_sortedKV_mapVal
    (fun v : Namespace => normDecls (declNames v ++ declNames bare) (sortedKV v.anns) v)]
  simp only [List.map_map, printDecls_normDecls]
  congr 2
  apply List.map_congr_left
  intro nd _
  simp only [Function.comp, normDecls_anns, printAnns_sortedKV, printDecls_normDecls]

end CedarGo.Schema.TextPrint
