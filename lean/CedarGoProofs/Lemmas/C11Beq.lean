/-
  C11 helper lemmas, part 1: `Value.beq` is an equivalence relation that separates kinds.
-/
import CedarGo.Model.SetImpl
namespace CedarGo
namespace C11

/-- structural induction over the nested inductive `Value` -/
theorem Value.ind {P : Value → Prop}
    (hbool : ∀ b, P (.bool b)) (hlong : ∀ n, P (.long n)) (hstr : ∀ s, P (.str s))
    (hent : ∀ t i, P (.entity t i))
    (hset : ∀ xs, (∀ x ∈ xs, P x) → P (.set xs))
    (hrec : ∀ kvs, (∀ kv ∈ kvs, P kv.2) → P (.record kvs))
    (hdec : ∀ n, P (.decimal n)) (hdt : ∀ n, P (.datetime n)) (hdur : ∀ n, P (.duration n))
    (hip : ∀ a, P (.ip a)) : ∀ v, P v
  | .bool b => hbool b
  | .long n => hlong n
  | .str s => hstr s
  | .entity t i => hent t i
  | .set xs => hset xs (fun x hx =>
      have : sizeOf x < 1 + sizeOf xs := by have := List.sizeOf_lt_of_mem hx; omega
      Value.ind hbool hlong hstr hent hset hrec hdec hdt hdur hip x)
  | .record kvs => hrec kvs (fun kv hkv =>
      have : sizeOf kv.2 < 1 + sizeOf kvs := by
        have h1 := List.sizeOf_lt_of_mem hkv
        have h2 : sizeOf kv = 1 + sizeOf kv.1 + sizeOf kv.2 := by cases kv; rfl
        omega
      Value.ind hbool hlong hstr hent hset hrec hdec hdt hdur hip kv.2)
  | .decimal n => hdec n
  | .datetime n => hdt n
  | .duration n => hdur n
  | .ip a => hip a
termination_by v => sizeOf v

/-! ### what the list helpers of `Value.beq` compute -/

theorem subL_iff (xs ys : List Value) :
    Value.subL xs ys = true ↔ ∀ x ∈ xs, ∃ y ∈ ys, Value.beq x y = true := by
  induction xs with
  | nil => simp [Value.subL]
  | cons x xs ih => simp [Value.subL, ih]

theorem supL_iff (xs ys : List Value) :
    Value.supL xs ys = true ↔ ∀ y ∈ ys, ∃ x ∈ xs, Value.beq x y = true := by
  induction xs generalizing ys with
  | nil =>
    cases ys with
    | nil => simp [Value.supL]
    | cons y ys =>
      simp only [Value.supL, List.isEmpty_cons, Bool.false_eq_true, false_iff]
      intro h
      obtain ⟨x, hx, _⟩ := h y (by simp)
      simp at hx
  | cons x xs ih =>
    simp only [Value.supL, ih, List.mem_filter, List.mem_cons]
    constructor
    · intro h y hy
      by_cases hxy : Value.beq x y = true
      · exact ⟨x, Or.inl rfl, hxy⟩
      · obtain ⟨x', hx', hb⟩ := h y ⟨hy, by simp [hxy]⟩
        exact ⟨x', Or.inr hx', hb⟩
    · rintro h y ⟨hy, hn⟩
      obtain ⟨x', hx', hb⟩ := h y hy
      rcases hx' with rfl | hx'
      · simp [hb] at hn
      · exact ⟨x', hx', hb⟩

theorem beq_set_iff (xs ys : List Value) :
    Value.beq (.set xs) (.set ys) = true ↔
      (∀ x ∈ xs, ∃ y ∈ ys, Value.beq x y = true) ∧ (∀ y ∈ ys, ∃ x ∈ xs, Value.beq x y = true) := by
  simp [Value.beq, subL_iff, supL_iff]

theorem beq_record (a b : List (String × Value)) :
    Value.beq (.record a) (.record b) = Value.beqKV a b := by simp [Value.beq]

/-! ### reflexivity -/

theorem beqKV_refl (a : List (String × Value)) (h : ∀ kv ∈ a, Value.beq kv.2 kv.2 = true) :
    Value.beqKV a a = true := by
  induction a with
  | nil => simp [Value.beqKV]
  | cons kv a ih =>
    obtain ⟨k, v⟩ := kv
    simp only [Value.beqKV, beq_self_eq_true, Bool.true_and, Bool.and_eq_true]
    exact ⟨h (k, v) (by simp), ih (fun kv hkv => h kv (by simp [hkv]))⟩

theorem beq_refl : ∀ v : Value, Value.beq v v = true := by
  apply Value.ind
  case hset =>
    intro xs ih
    rw [beq_set_iff]
    exact ⟨fun x hx => ⟨x, hx, ih x hx⟩, fun x hx => ⟨x, hx, ih x hx⟩⟩
  case hrec =>
    intro kvs ih
    rw [beq_record]; exact beqKV_refl kvs ih
  all_goals intros; simp [Value.beq]

/-! ### symmetry -/

theorem beqKV_symm (a : List (String × Value)) (h : ∀ kv ∈ a, ∀ w, Value.beq kv.2 w = Value.beq w kv.2) :
    ∀ b, Value.beqKV a b = Value.beqKV b a := by
  induction a with
  | nil => intro b; cases b <;> simp [Value.beqKV]
  | cons kv a ih =>
    intro b
    obtain ⟨k, v⟩ := kv
    cases b with
    | nil => simp [Value.beqKV]
    | cons kv' b =>
      obtain ⟨k', v'⟩ := kv'
      simp only [Value.beqKV]
      rw [h (k, v) (by simp) v', ih (fun kv hkv => h kv (by simp [hkv])) b]
      have : (k == k') = (k' == k) := by
        exact Bool.beq_comm
      rw [this]

theorem beq_symm : ∀ a b : Value, Value.beq a b = Value.beq b a := by
  apply Value.ind
  case hset =>
    intro xs ih b
    cases b <;> try (simp [Value.beq]; done)
    rename_i ys
    rw [Bool.eq_iff_iff, beq_set_iff, beq_set_iff]
    constructor
    · rintro ⟨h1, h2⟩
      refine ⟨fun y hy => ?_, fun x hx => ?_⟩
      · obtain ⟨x, hx, hb⟩ := h2 y hy; exact ⟨x, hx, by rw [← ih x hx]; exact hb⟩
      · obtain ⟨y, hy, hb⟩ := h1 x hx; exact ⟨y, hy, by rw [← ih x hx]; exact hb⟩
    · rintro ⟨h1, h2⟩
      refine ⟨fun x hx => ?_, fun y hy => ?_⟩
      · obtain ⟨y, hy, hb⟩ := h2 x hx; exact ⟨y, hy, by rw [ih x hx]; exact hb⟩
      · obtain ⟨x, hx, hb⟩ := h1 y hy; exact ⟨x, hx, by rw [ih x hx]; exact hb⟩
  case hrec =>
    intro kvs ih b
    cases b <;> try (simp [Value.beq]; done)
    rename_i kvs'
    rw [beq_record, beq_record]; exact beqKV_symm kvs ih kvs'
  all_goals
    intros
    rename_i b
    cases b <;> simp [Value.beq, Bool.beq_comm]

/-! ### transitivity -/

theorem beqKV_trans (a : List (String × Value))
    (h : ∀ kv ∈ a, ∀ v w, Value.beq kv.2 v = true → Value.beq v w = true → Value.beq kv.2 w = true) :
    ∀ b c, Value.beqKV a b = true → Value.beqKV b c = true → Value.beqKV a c = true := by
  induction a with
  | nil =>
    intro b c hab hbc
    cases b with
    | nil => exact hbc
    | cons _ _ => simp [Value.beqKV] at hab
  | cons kv a ih =>
    intro b c hab hbc
    obtain ⟨k, v⟩ := kv
    cases b with
    | nil => simp [Value.beqKV] at hab
    | cons kv' b =>
      obtain ⟨k', v'⟩ := kv'
      cases c with
      | nil => simp [Value.beqKV] at hbc
      | cons kv'' c =>
        obtain ⟨k'', v''⟩ := kv''
        simp only [Value.beqKV, Bool.and_eq_true, beq_iff_eq] at hab hbc ⊢
        obtain ⟨⟨hk, hv⟩, hr⟩ := hab
        obtain ⟨⟨hk', hv'⟩, hr'⟩ := hbc
        exact ⟨⟨hk.trans hk', h (k, v) (by simp) v' v'' hv hv'⟩,
          ih (fun kv hkv => h kv (by simp [hkv])) b c hr hr'⟩

theorem beq_trans : ∀ a b c : Value, Value.beq a b = true → Value.beq b c = true → Value.beq a c = true := by
  apply Value.ind
  case hset =>
    intro xs ih b c hab hbc
    cases b <;> try (simp [Value.beq] at hab; done)
    rename_i ys
    cases c <;> try (simp [Value.beq] at hbc; done)
    rename_i zs
    rw [beq_set_iff] at hab hbc ⊢
    refine ⟨fun x hx => ?_, fun z hz => ?_⟩
    · obtain ⟨y, hy, hxy⟩ := hab.1 x hx
      obtain ⟨z, hz, hyz⟩ := hbc.1 y hy
      exact ⟨z, hz, ih x hx y z hxy hyz⟩
    · obtain ⟨y, hy, hyz⟩ := hbc.2 z hz
      obtain ⟨x, hx, hxy⟩ := hab.2 y hy
      exact ⟨x, hx, ih x hx y z hxy hyz⟩
  case hrec =>
    intro kvs ih b c hab hbc
    cases b <;> try (simp [Value.beq] at hab; done)
    cases c <;> try (simp [Value.beq] at hbc; done)
    rw [beq_record] at hab hbc ⊢
    exact beqKV_trans kvs ih _ _ hab hbc
  all_goals
    intros
    rename_i b c hab hbc
    cases b <;> try (simp [Value.beq] at hab; done)
    all_goals (cases c <;> try (simp [Value.beq] at hbc; done))
    all_goals simp_all [Value.beq]

/-! ### kinds -/

theorem beq_kind (a b : Value) (h : Value.beq a b = true) : a.kind = b.kind := by
  cases a <;> cases b <;> first | rfl | (simp [Value.beq] at h)

end C11
end CedarGo
